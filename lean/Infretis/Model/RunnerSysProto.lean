/-
Line-protocol handler for the fine-grained runner system (C17, runner half).  Ops (prefix `rsys-`):

  rsys-run <nw> <n> <ev₁> … <evₙ>
      → `acc=<0|1> rej=<index|-> <state> | <k> <protocol events emitted, tokens of RunnerProto> | cacc=<0|1>`
        where `<state>` = `main=<i|q|t|f> stop=<0|1> var=<variant> none=<#> td=<#> pcs=<k> … queue=<k> … created=<k> …
        fl=<k> … scan=<-|k …> done=<k> u:ok:r|u:exc:e … deliv=<k> u:ok:r …` and `cacc` = the abstract protocol
        (`Runner.accepts`) accepts the emitted events
  rsys-trace <nw> <n> <ev₁> … <evₙ>
      → the `<state>` after every accepted event, separated by ` ; ` (stops at the first rejected one, marked `REJ`)
  rsys-fl <k> <fut₁> … <futₖ> <m> <a₁> … <aₘ>          (aᵢ ∈ {0,1}: scripted `done()` answers)
      → `ret=<spin|None|u> calls=<#> asked=<k> … futs=<k> …`   (`flCall`)

Event tokens:  `s:u`  `r:w` | `r:w:ok:v` | `r:w:exc:v`  `ae`  `ac`  `xe`  `xq`  `xt`
-/
import Infretis.Model.Proto
import Infretis.Model.RunnerSys
import Infretis.Model.RunnerProto
namespace Infretis.RunnerSys
open Infretis.Proto
open Infretis.Runner (Outcome Event parseOutcome? showOutcome b01)

def parseFEv? (t : String) : Option FEv :=
  match t.splitOn ":" with
  | ["ae"] => some .acEnter
  | ["ac"] => some .acCheck
  | ["xe"] => some .stopEnter
  | ["xq"] => some .stopPollQ
  | ["xt"] => some .stopPollT
  | ["s", u] => (parseNat? u).map .submit
  | ["r", w] => (parseNat? w).map (fun w => .resume w (.ok 0))
  | ["r", w, k, v] =>
    match parseNat? w, parseOutcome? k v with
    | some w, some o => some (.resume w o)
    | _, _ => none
  | _ => none

def showEvent : Event → String
  | .submit u => s!"s:{u}"
  | .take w u => s!"t:{w}:{u}"
  | .finish w u o => s!"f:{w}:{u}:{showOutcome o}"
  | .collect u o => s!"c:{u}:{showOutcome o}"
  | .stop => "x"

def showPc : WPc → String
  | .idle => "i"
  | .awaiting u => s!"a{u}"
  | .exited => "e"
  | .crashed => "c"

def showMain : MPc → String
  | .idle => "i"
  | .stopQ => "q"
  | .stopT => "t"
  | .finished => "f"

def showNats (l : List Nat) : String := showList toString l

def showPair (p : Nat × Outcome) : String := s!"{p.1}:{showOutcome p.2}"

def showSys (s : Sys) : String :=
  let scan := match s.fl.scan with | none => "-" | some l => showNats l
  s!"main={showMain s.main} stop={b01 s.stopSet} var={variant s} none={s.noneReturns} td={s.taskDone} pcs={showList showPc s.pcs} queue={showNats s.queue} created={showNats s.created} fl={showNats s.fl.futs} scan={scan} done={showList showPair s.done} deliv={showList showPair s.delivered}"

def traceGo (s : Sys) : List FEv → List String → List String
  | [], acc => acc.reverse
  | e :: es, acc =>
    match fstep s e with
    | none => ("REJ" :: acc).reverse
    | some (s', _) => traceGo s' es (showSys s' :: acc)

def showAc : Option AcStep → String
  | none => "spin"
  | some .going => "spin"
  | some .retNone => "None"
  | some (.ret u) => toString u

def parseBool01? (t : String) : Option Bool :=
  match t with
  | "0" => some false
  | "1" => some true
  | _ => none

def handle (toks : List String) : Option String :=
  match toks with
  | "rsys-run" :: nw :: rest =>
    match parseNat? nw, takeList parseFEv? rest with
    | some nw, some (evs, []) =>
      match frun (init nw) evs with
      | some (s, out) =>
        some s!"acc=1 rej=- {showSys s} | {showList showEvent out} | cacc={b01 (Infretis.Runner.accepts nw out)}"
      | none =>
        let rej := match ffirstReject (init nw) evs 0 with | some i => toString i | none => "-"
        some s!"acc=0 rej={rej}"
    | _, _ => some "bad-op"
  | "rsys-trace" :: nw :: rest =>
    match parseNat? nw, takeList parseFEv? rest with
    | some nw, some (evs, []) => some (String.intercalate " ; " (traceGo (init nw) evs []))
    | _, _ => some "bad-op"
  | "rsys-fl" :: rest =>
    match takeList parseNat? rest with
    | some (futs, rest2) =>
      match takeList parseBool01? rest2 with
      | some (answers, []) =>
        let (fl', r, n, asked) := flCall { futs := futs, scan := none } answers
        some s!"ret={showAc r} calls={n} asked={showNats asked} futs={showNats fl'.futs}"
      | _ => some "bad-op"
    | none => some "bad-op"
  | op :: _ => if op.startsWith "rsys-" then some "bad-op" else none
  | [] => none

end Infretis.RunnerSys
