/-
The runner's worker coroutine and the FAILURE CLASSES of a unit (C17, runner half).
Imports only `Model/RunnerSys.lean`.

`infretis/asyncrunner.py`, as it is (after the repair "every failure of a unit reaches its future"):

      def _run_unit(task_f, md_item):                      # runs in the pool process
          try:
              return task_f(md_item)
          except StopIteration as exc:
              raise RuntimeError(f"unit raised {type(exc).__name__}: {exc}") from exc
          except Exception:
              raise
          except BaseException as exc:
              raise RuntimeError(f"unit raised {type(exc).__name__}: {exc}") from exc

      # _task_wrapper
      try:
          md_item = await loop.run_in_executor(executor, partial(_run_unit, self._task_f, md_item))
          future.set_result(md_item)
      except Exception as e:
          future.set_exception(e)
      queue.task_done()

`FailClass` = what the unit FUNCTION raised; `converted` = the exception that comes back from the
executor (`_run_unit`): an ordinary `Exception` unchanged, every other class as a `RuntimeError`
— always something `except Exception` catches and `Future.set_exception` accepts.  Hence
`xstep … (resumeFail w c e)` IS `RunnerSys.stepResume w (exc …)` for every class (`toFEv`).

`AsIs` (end of file) is the RECORD of the code before that repair (`partial(self._task_f, md_item)`,
no conversion), observed on the real runner (asyncio, ProcessPoolExecutor, Python 3.12):
* `base` (asyncio.CancelledError, any other non-`Exception`): `except Exception` does not catch it,
  the coroutine ends with it, `set_exception` / `task_done` never run: the asyncio task is done
  (`WPc.crashed`), the unit's future stays PENDING for ever;
* `exit` (SystemExit / KeyboardInterrupt): as above, and asyncio's `Task.__step` re-raises these two
  out of `run_forever`: the event-loop thread ends, NO coroutine is resumed ever again (`loopDead`);
* `stopIter`: asyncio cannot store it in the awaited future (`TypeError` in the done-callback): the
  worker is never resumed — no event.
-/
import Infretis.Model.RunnerSys
namespace Infretis.RunnerSysX
open Infretis.Runner (Outcome Event)
open Infretis.RunnerSys

/-- class of the exception the unit function raised -/
inductive FailClass where
  /-- an `Exception` other than `StopIteration` -/
  | ordinary
  | stopIter
  /-- not an `Exception` (CancelledError, other `BaseException`), except the next two -/
  | base
  /-- `SystemExit` / `KeyboardInterrupt` -/
  | exit
  deriving Repr, DecidableEq

/-- payload of the exception `_run_unit` raises in the pool process: the unit's own exception for an
    ordinary one, else the `RuntimeError("unit raised <class>: …")` (one code per class) -/
def converted : FailClass → Nat → Nat
  | .ordinary, e => e
  | .stopIter, _ => 999001
  | .base, _ => 999002
  | .exit, _ => 999003

/-- what the awaited executor future hands to `_task_wrapper` when the unit function raised -/
def runUnit (c : FailClass) (e : Nat) : Outcome := .exc (converted c e)

inductive XEv where
  /-- an event of `RunnerSys` -/
  | plain (e : FEv)
  /-- worker `w`, awaiting its unit, is resumed after the unit function raised class `c` (payload `e`) -/
  | resumeFail (w : Nat) (c : FailClass) (e : Nat)
  deriving Repr, DecidableEq

/-- the `RunnerSys` event an event amounts to -/
def toFEv : XEv → FEv
  | .plain e => e
  | .resumeFail w c e => .resume w (runUnit c e)

def isAwaiting : Option WPc → Bool
  | some (.awaiting _) => true
  | _ => false

/-- the code as it is -/
def xstep (s : Sys) : XEv → Option (Sys × List Event)
  | .plain e => fstep s e
  | .resumeFail w c e =>
    if isAwaiting s.pcs[w]? then fstep s (.resume w (runUnit c e)) else none   -- a failure comes back to a worker that awaits

def xrun (s : Sys) : List XEv → Option (Sys × List Event)
  | [] => some (s, [])
  | e :: es =>
    match xstep s e with
    | none => none
    | some (s', out) =>
      match xrun s' es with
      | none => none
      | some (s'', out') => some (s'', out ++ out')

/-! ### RECORD: the code before the repair -/
namespace AsIs

structure XSys where
  s : Sys
  /-- the event-loop thread has ended (a `SystemExit` / `KeyboardInterrupt` went through it) -/
  loopDead : Bool := false
  deriving Repr, DecidableEq

def isResume : XEv → Bool
  | .plain (.resume _ _) => true
  | .resumeFail .. => true
  | _ => false

def xstep (x : XSys) (ev : XEv) : Option (XSys × List Event) :=
  if isResume ev && x.loopDead then none      -- no coroutine runs without the loop
  else
    match ev with
    | .plain e =>
      match fstep x.s e with
      | none => none
      | some (s', out) => some ({ x with s := s' }, out)
    | .resumeFail w .ordinary e =>
      if isAwaiting x.s.pcs[w]? then
        match fstep x.s (.resume w (.exc e)) with
        | none => none
        | some (s', out) => some ({ x with s := s' }, out)
      else none
    | .resumeFail _ .stopIter _ => none        -- the worker is never resumed
    | .resumeFail w .base _ =>
      if isAwaiting x.s.pcs[w]? then some ({ x with s := { x.s with pcs := x.s.pcs.set w .crashed } }, []) else none
    | .resumeFail w .exit _ =>
      if isAwaiting x.s.pcs[w]? then
        some ({ s := { x.s with pcs := x.s.pcs.set w .crashed }, loopDead := true }, [])
      else none

def xrun (x : XSys) : List XEv → Option (XSys × List Event)
  | [] => some (x, [])
  | e :: es =>
    match xstep x e with
    | none => none
    | some (x', out) =>
      match xrun x' es with
      | none => none
      | some (x'', out') => some (x'', out ++ out')

def xinit (nw : Nat) : XSys := { s := RunnerSys.init nw }

end AsIs

end Infretis.RunnerSysX
