/-
The runner's worker coroutine with the exception classes `_task_wrapper` does NOT handle
(C17, runner half).  Imports only `Model/RunnerSys.lean`.

`_task_wrapper`, as it is:
      try:
          md_item = await loop.run_in_executor(executor, partial(task_f, md_item))
          future.set_result(md_item)
      except Exception as e:
          future.set_exception(e)
      queue.task_done()
`RunnerSys.stepResume w o` is the resume with a result (`Outcome.ok`) or with an exception that
`except Exception` catches and `set_exception` accepts (`Outcome.exc`).  What else the awaited
executor future can hand back — observed on the real runner (asyncio, ProcessPoolExecutor, Python 3.12):

* `resumeBase w` — an exception that is NOT an `Exception` (`asyncio.CancelledError`, any other
  `BaseException` subclass raised by the unit; the pool pickles it back like any exception): the
  handler does not catch it, the coroutine ends with it, `set_exception` / `task_done` never run:
  the asyncio task is done (`WPc.crashed`), the unit's future stays PENDING for ever.
* `resumeExit w` — `SystemExit` / `KeyboardInterrupt` (a unit that calls `sys.exit()`): as above,
  and asyncio's `Task.__step` re-raises these two out of `run_forever`: the event-loop thread ends,
  NO coroutine is resumed ever again (`loopDead`), every pending future stays pending.
* `StopIteration`: asyncio cannot store it in the awaited future (`TypeError` in the done-callback):
  the worker is never resumed — in this system simply: no `resume` event for that worker.
-/
import Infretis.Model.RunnerSys
namespace Infretis.RunnerSysX
open Infretis.Runner (Outcome Event)
open Infretis.RunnerSys

structure XSys where
  s : Sys
  /-- the event-loop thread has ended (a `SystemExit` / `KeyboardInterrupt` went through it) -/
  loopDead : Bool := false
  deriving Repr, DecidableEq

inductive XEv where
  /-- an event of `RunnerSys` (results and handled exceptions) -/
  | plain (e : FEv)
  /-- worker `w`, awaiting its unit, is resumed with a non-`Exception` exception -/
  | resumeBase (w : Nat)
  /-- worker `w`, awaiting its unit, is resumed with `SystemExit` / `KeyboardInterrupt` -/
  | resumeExit (w : Nat)
  deriving Repr, DecidableEq

def isResume : FEv → Bool
  | .resume _ _ => true
  | _ => false

def xstep (x : XSys) : XEv → Option (XSys × List Event)
  | .plain e =>
    if isResume e && x.loopDead then none      -- no coroutine runs without the loop
    else
      match fstep x.s e with
      | none => none
      | some (s', out) => some ({ x with s := s' }, out)
  | .resumeBase w =>
    if x.loopDead then none else
    match x.s.pcs[w]? with
    | some (.awaiting _) => some ({ x with s := { x.s with pcs := x.s.pcs.set w .crashed } }, [])
    | _ => none
  | .resumeExit w =>
    if x.loopDead then none else
    match x.s.pcs[w]? with
    | some (.awaiting _) =>
      some ({ s := { x.s with pcs := x.s.pcs.set w .crashed }, loopDead := true }, [])
    | _ => none

def xrun (x : XSys) : List XEv → Option (XSys × List Event)
  | [] => some (x, [])
  | e :: es =>
    match xstep x e with
    | none => none
    | some (x', out) =>
      match xrun x' es with
      | none => none
      | some (x'', out') => some (x'', out ++ out')

def xinit (nw : Nat) : XSys := { s := RunnerSys.init nw }

end Infretis.RunnerSysX
