/-
Line-protocol handler for the runner system with unhandled exception classes (C17, runner half):

  rx-trace <nw> <n> <ev₁> … <evₙ>
      → `<state of RunnerSys.showSys> loop=<0|1>` after every accepted event, separated by ` ; `
        (stops at the first rejected one, marked `REJ`); `loop=1`: the event-loop thread has ended

Event tokens: those of `rsys-` plus `rb:<w>` (worker `w` resumed with a non-`Exception` exception) and
`rx:<w>` (… with SystemExit / KeyboardInterrupt).
-/
import Infretis.Model.RunnerSysProto
import Infretis.Model.RunnerSysX
namespace Infretis.RunnerSysX
open Infretis.Proto Infretis.RunnerSys
open Infretis.Runner (b01)

def parseXEv? (t : String) : Option XEv :=
  match t.splitOn ":" with
  | ["rb", w] => (parseNat? w).map .resumeBase
  | ["rx", w] => (parseNat? w).map .resumeExit
  | _ => (parseFEv? t).map .plain

def xtraceGo (x : XSys) : List XEv → List String → List String
  | [], acc => acc.reverse
  | e :: es, acc =>
    match xstep x e with
    | none => ("REJ" :: acc).reverse
    | some (x', _) => xtraceGo x' es ((showSys x'.s ++ s!" loop={b01 x'.loopDead}") :: acc)

def handle (toks : List String) : Option String :=
  match toks with
  | "rx-trace" :: nw :: rest =>
    match parseNat? nw, takeList parseXEv? rest with
    | some nw, some (evs, []) => some (String.intercalate " ; " (xtraceGo (xinit nw) evs []))
    | _, _ => some "bad-op"
  | op :: _ => if op.startsWith "rx-" then some "bad-op" else none
  | [] => none

end Infretis.RunnerSysX
