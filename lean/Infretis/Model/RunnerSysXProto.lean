/-
Line-protocol handler for the runner system with the failure classes of a unit (C17, runner half):

  rx-trace <nw> <n> <ev₁> … <evₙ>        the code as it is (`RunnerSysX.xstep`)
      → `<state of RunnerSys.showSys> loop=0` after every accepted event, separated by ` ; `
        (stops at the first rejected one, marked `REJ`)
  rx-trace-asis <nw> <n> <ev₁> … <evₙ>   the RECORD of the code before the repair (`RunnerSysX.AsIs.xstep`)
      → the same with `loop=<0|1>` (`1`: the event-loop thread has ended)

Event tokens: those of `rsys-` plus `rf:<w>:<ord|stop|base|exit>:<e>` (worker `w`, awaiting its unit, is resumed
after the unit function raised an exception of that class with payload `e`).
-/
import Infretis.Model.RunnerSysProto
import Infretis.Model.RunnerSysX
namespace Infretis.RunnerSysX
open Infretis.Proto Infretis.RunnerSys
open Infretis.Runner (b01)

def parseClass? : String → Option FailClass
  | "ord" => some .ordinary
  | "stop" => some .stopIter
  | "base" => some .base
  | "exit" => some .exit
  | _ => none

def parseXEv? (t : String) : Option XEv :=
  match t.splitOn ":" with
  | ["rf", w, c, e] =>
    match parseNat? w, parseClass? c, parseNat? e with
    | some w, some c, some e => some (.resumeFail w c e)
    | _, _, _ => none
  | _ => (parseFEv? t).map .plain

def xtraceGo (s : Sys) : List XEv → List String → List String
  | [], acc => acc.reverse
  | e :: es, acc =>
    match xstep s e with
    | none => ("REJ" :: acc).reverse
    | some (s', _) => xtraceGo s' es ((showSys s' ++ " loop=0") :: acc)

def xtraceAsIs (x : AsIs.XSys) : List XEv → List String → List String
  | [], acc => acc.reverse
  | e :: es, acc =>
    match AsIs.xstep x e with
    | none => ("REJ" :: acc).reverse
    | some (x', _) => xtraceAsIs x' es ((showSys x'.s ++ s!" loop={b01 x'.loopDead}") :: acc)

def handle (toks : List String) : Option String :=
  match toks with
  | "rx-trace" :: nw :: rest =>
    match parseNat? nw, takeList parseXEv? rest with
    | some nw, some (evs, []) => some (String.intercalate " ; " (xtraceGo (RunnerSys.init nw) evs []))
    | _, _ => some "bad-op"
  | "rx-trace-asis" :: nw :: rest =>
    match parseNat? nw, takeList parseXEv? rest with
    | some nw, some (evs, []) => some (String.intercalate " ; " (xtraceAsIs (AsIs.xinit nw) evs []))
    | _, _ => some "bad-op"
  | op :: _ => if op.startsWith "rx-" then some "bad-op" else none
  | [] => none

end Infretis.RunnerSysX
