/-
Restart arithmetic of the scheduler at the level of the restart file (C17, scheduler half).
No imports outside core.

* `setupRule` mirrors `setup_config` (setup.py), restart branch, as it is:
      if curr.get("cstep") == curr.get("restarted_from", -1) and curr.get("cstep") >= config["simulation"]["steps"]:
          return None
      curr["restarted_from"] = config["current"]["cstep"]
* `life`: one process life on a state directory = `setup_config` + `scheduler()` run to its end.
  What `scheduler()` does to the counters is taken from the theorem `C17.life_counters` about the
  replica-exchange model (final `cstep = max cstep₀ steps`); `write_toml` dumps the whole config,
  so the file then carries `restarted_from = cstep₀` (a life that runs always writes: `loop()`
  writes when it answers False).  A refused life touches nothing.
-/
namespace Infretis.SchedCtr

inductive Decision where
  /-- `setup_config` returns `None`: the run does not start -/
  | refuse
  /-- continues, with `current.restarted_from` set to the file's `cstep` -/
  | go (restartedFrom : Nat)
  deriving Repr, DecidableEq

/-- `rfrom = none`: key absent (the code's default −1 equals no step counter) -/
def setupRule (cstep : Nat) (rfrom : Option Nat) (steps : Nat) : Decision :=
  if rfrom = some cstep ∧ cstep ≥ steps then .refuse else .go cstep

/-- the two numbers of `restart.toml` this arithmetic is about -/
structure Disk where
  cstep : Nat
  rfrom : Option Nat
  deriving Repr, DecidableEq

/-- one life with step count `steps`: `(file afterwards, moves completed)`, `none` = refused -/
def life (d : Disk) (steps : Nat) : Option (Disk × Nat) :=
  match setupRule d.cstep d.rfrom steps with
  | .refuse => none
  | .go rf => some ({ cstep := max d.cstep steps, rfrom := some rf }, max d.cstep steps - d.cstep)

/-- successive lives with step counts `ts`: `(file at the end, total moves, which lives ran)` -/
def chain (d : Disk) : List Nat → Disk × Nat × List Bool
  | [] => (d, 0, [])
  | t :: ts =>
    match life d t with
    | none =>
      let r := chain d ts
      (r.1, r.2.1, false :: r.2.2)
    | some (d', m) =>
      let r := chain d' ts
      (r.1, m + r.2.1, true :: r.2.2)

/-- everything of the restart file `setup_config` has in hand when it applies the stop rule —
    including `runner.workers`, which the rule (setup.py l.131-135, as it is) does not read -/
structure RestartCfg where
  cstep : Nat
  rfrom : Option Nat
  steps : Nat
  workers : Nat
  deriving Repr, DecidableEq

/-- the stop rule on the whole configuration: reads `current.cstep`, `current.restarted_from`,
    `simulation.steps` — nothing else -/
def setupRuleCfg (c : RestartCfg) : Decision := setupRule c.cstep c.rfrom c.steps

end Infretis.SchedCtr
