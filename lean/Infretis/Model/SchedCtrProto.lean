/-
Line-protocol handler for the restart arithmetic (C17, scheduler half): ops prefixed `sched-`.

  sched-setup <cstep> <rfrom|-> <steps> [<workers>] → `refuses` | `continues rfrom=<n>`   (with workers: `setupRuleCfg`)
  sched-chain <cstep> <rfrom|-> <k> <t₁> … <t_k>    → `cstep=<n> rfrom=<n|-> moves=<n> ran=<k> <0|1>…`
-/
import Infretis.Model.Proto
import Infretis.Model.SchedCtr
namespace Infretis.SchedCtr
open Infretis.Proto

def parseOptNat? (t : String) : Option (Option Nat) :=
  if t = "-" then some none else (parseNat? t).map some

def showOptNat : Option Nat → String
  | none => "-"
  | some n => toString n

def handle (toks : List String) : Option String :=
  match toks with
  | ["sched-setup", c, r, t] =>
    match parseNat? c, parseOptNat? r, parseNat? t with
    | some c, some r, some t =>
      match setupRule c r t with
      | .refuse => some "refuses"
      | .go rf => some s!"continues rfrom={rf}"
    | _, _, _ => some "bad-op"
  | ["sched-setup", c, r, t, w] =>
    match parseNat? c, parseOptNat? r, parseNat? t, parseNat? w with
    | some c, some r, some t, some w =>
      match setupRuleCfg { cstep := c, rfrom := r, steps := t, workers := w } with
      | .refuse => some "refuses"
      | .go rf => some s!"continues rfrom={rf}"
    | _, _, _, _ => some "bad-op"
  | "sched-chain" :: c :: r :: rest =>
    match parseNat? c, parseOptNat? r, takeList parseNat? rest with
    | some c, some r, some (ts, []) =>
      let (d, m, ran) := chain { cstep := c, rfrom := r } ts
      some s!"cstep={d.cstep} rfrom={showOptNat d.rfrom} moves={m} ran={showList (fun b => if b then "1" else "0") ran}"
    | _, _, _ => some "bad-op"
  | op :: _ => if op.startsWith "sched-" then some "bad-op" else none
  | [] => none

end Infretis.SchedCtr
