/-
`scheduler()` (scheduler.py) with its FILE EFFECTS and its ways to END (C17, scheduler half).
Imports only `Model/Repex.lean` (the replica-exchange state machine whose `sysStep` this system
projects to — `Lemmas/SchedDisk.lean` proves the projection).

What `Repex.sysStep` leaves out and this system adds, as the code is:

* WRITE POINTS of `restart.toml`.  `write_toml` is called in exactly two places on the scheduler's
  path: as the last statement of `treat_output` (repex.py, after `sort_trajstate`, BEFORE the
  scheduler re-submits: the file does not list the job that is prepared next) and in `loop()` when
  it answers False.  `disk` is the file as it is on disk (`none` = no file yet), not `persist` of
  the current state: between two writes the memory runs ahead of the file.
* `loop()` increments `cstep` BEFORE the move is completed (`self.cstep += 1` at the head of the
  iteration): while the scheduler waits in `as_completed()` the counter in memory is one ahead of the
  number of completed moves (`midStep`).
* A unit's EXCEPTION: `future.result()` re-raises it inside `scheduler()`, which catches nothing:
  the function dies there (`Phase.dead`) — no `treat_output`, no write, no further move, and
  `runner.stop()` is NOT reached (`stops` stays 0; the runner is left running).
* a KILL (wall-time limit) while the scheduler waits, or right after a completed move.
* the regular END: `loop()` answers False → `write_toml`; then `runner.stop()` (`stops = 1`).
-/
import Infretis.Model.Repex
namespace Infretis.SchedDisk
open Infretis.Repex

inductive Phase where
  /-- inside one of the two `while` loops -/
  | running
  /-- `scheduler()` returned: `runner.stop()` was called -/
  | stopped
  /-- `scheduler()` was left by an exception / the process was killed -/
  | dead
  deriving Repr, DecidableEq

structure DSys where
  /-- sampler state + jobs in flight (the futures list) -/
  y : Sys
  /-- `restart.toml` as it is on disk -/
  disk : Option Image
  /-- number of `write_toml` calls of this life -/
  writes : Nat := 0
  /-- number of `runner.stop()` calls -/
  stops : Nat := 0
  phase : Phase := .running
  /-- `loop()` has counted a move that was not completed -/
  midStep : Bool := false
  deriving Repr, DecidableEq

inductive DEv where
  /-- `while state.initiate():` body -/
  | start (o : PickOutcome) (savedDraws : Nat := 0)
  /-- the `initiate()` call that answers False -/
  | initDone
  /-- a whole iteration of `while state.loop():` — `loop()`, `as_completed()` returns the `k`-th
      future, `treat_output` (ends with `write_toml`), re-submission iff `cstep + workers ≤ tsteps` -/
  | step (k : Nat) (status : Status) (newW : List (List Rat)) (o : PickOutcome)
  /-- the same up to the end of `treat_output`; the process is killed before the re-submission -/
  | stepKilled (k : Nat) (status : Status) (newW : List (List Rat))
  /-- `loop()` answered True, `as_completed()` returned the `k`-th future, `future.result()`
      re-raises the unit's exception: `scheduler()` dies -/
  | unitFails (k : Nat)
  /-- `loop()` answered True; the process is killed while blocked in `as_completed()` -/
  | killedWaiting
  /-- `loop()` answers False (`write_toml`), then `runner.stop()` -/
  | finish
  deriving Repr

/-- the `sysStep` event a step of this system amounts to (`none`: no counterpart) -/
def toEv : DEv → Option Ev
  | .start o k => some (.start o k)
  | .initDone => some .initDone
  | .step k st w o => some (.step k st w o)
  | _ => none

/-- the part of an iteration up to the end of `treat_output`: `(state after treat_output, job)` -/
def treatPart (d : DSys) (k : Nat) (status : Status) (newW : List (List Rat)) : Except Err (St × Job) :=
  let (s1, go) := loop d.y.s
  if ¬ go then .error .value else
  match d.y.jobs[k]? with
  | none => .error .index
  | some job =>
    match treatOutput s1 job status newW (sortFuel s1) with
    | .error er => .error er
    | .ok (s2, _, _) => .ok (s2, job)

def dstep (d : DSys) (e : DEv) : Except Err DSys :=
  if d.phase ≠ .running then .error .value else       -- nothing happens after the end
  match e with
  | .start o saved =>
    match sysStep d.y (.start o saved) with
    | .error er => .error er
    | .ok y' => .ok { d with y := y' }
  | .initDone =>
    match sysStep d.y .initDone with
    | .error er => .error er
    | .ok y' => .ok { d with y := y' }
  | .step k status newW o =>
    match treatPart d k status newW with
    | .error er => .error er
    | .ok (s2, job) =>
      let rest := d.y.jobs.eraseIdx k
      -- `write_toml()` was the last statement of `treat_output`: the file shows `s2`
      if s2.cstep + s2.workers ≤ s2.tsteps then
        match prep s2 (some job.pin) o with
        | .error er => .error er
        | .ok (s3, job', _) =>
          .ok { d with y := { s := s3, jobs := rest ++ [job'] }, disk := some (persist s2), writes := d.writes + 1 }
      else .ok { d with y := { s := s2, jobs := rest }, disk := some (persist s2), writes := d.writes + 1 }
  | .stepKilled k status newW =>
    match treatPart d k status newW with
    | .error er => .error er
    | .ok (s2, _) =>
      .ok { d with y := { s := s2, jobs := d.y.jobs.eraseIdx k }, disk := some (persist s2),
                   writes := d.writes + 1, phase := .dead }
  | .unitFails k =>
    let (s1, go) := loop d.y.s
    if ¬ go then .error .value else
    match d.y.jobs[k]? with
    | none => .error .index
    | some _ =>
      .ok { d with y := { s := s1, jobs := d.y.jobs.eraseIdx k }, phase := .dead, midStep := true }
  | .killedWaiting =>
    let (s1, go) := loop d.y.s
    if ¬ go then .error .value else
    .ok { d with y := { d.y with s := s1 }, phase := .dead, midStep := true }
  | .finish =>
    let (s1, go) := loop d.y.s
    if go then .error .value else
    .ok { d with y := { d.y with s := s1 }, disk := some (persist s1), writes := d.writes + 1,
                 stops := d.stops + 1, phase := .stopped }

def drun (d : DSys) : List DEv → Except Err DSys
  | [] => .ok d
  | e :: rest =>
    match dstep d e with
    | .error er => .error er
    | .ok d' => drun d' rest

/-- number of completed moves (`treat_output` calls that returned) in a history -/
def nDone : List DEv → Nat
  | [] => 0
  | .step .. :: t => nDone t + 1
  | .stepKilled .. :: t => nDone t + 1
  | _ :: t => nDone t

/-- a life begins: nothing in flight, every worker to be started, and the file on disk — if there
    is one — is the one the state was loaded from -/
def begin (s : St) (disk : Option Image) : DSys := { y := { s := s, jobs := [] }, disk := disk }

end Infretis.SchedDisk
