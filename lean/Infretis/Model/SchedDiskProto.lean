/-
Line-protocol handler for the scheduler-with-files system (C17, scheduler half): ops prefixed `sd-`.
Stateful: the driver keeps one `DSys` next to the replica-exchange `DState`.

  sd-begin <cstep of the file on disk | ->      capture the CURRENT `DState` sampler state (after init / load ops)
                                                as the begin of a life; `-` = no restart file on disk
  sd-ev start <t> <e> <coin> <partner> <saved>
  sd-ev initdone
  sd-ev step <k> <ACC|REJ> <t> <e> <coin> <partner> <m> <m length-prefixed weight lists>
  sd-ev stepkilled <k> <ACC|REJ> <m> <m lists>
  sd-ev unitfails <k>
  sd-ev killedwaiting
  sd-ev finish
      → `ok phase=<running|stopped|dead> cstep=<n> jobs=<n> locked=<n> disk=<cstep>:<#locked>|- writes=<n> stops=<n> mid=<0|1>`
        or `err:<kind>` (state unchanged)
-/
import Infretis.Model.RepexProto
import Infretis.Model.SchedDisk
namespace Infretis.SchedDisk
open Infretis.Proto Infretis.Repex

def showPhase : Phase → String
  | .running => "running" | .stopped => "stopped" | .dead => "dead"

def showDisk : Option Image → String
  | none => "-"
  | some im => s!"{im.cstep}:{im.locked.length}"

def showD (d : DSys) : String :=
  s!"ok phase={showPhase d.phase} cstep={d.y.s.cstep} jobs={d.y.jobs.length} locked={d.y.s.locked.length} " ++
  s!"disk={showDisk d.disk} writes={d.writes} stops={d.stops} mid={if d.midStep then 1 else 0}"

def parseOutcome (t e coin partner : String) : Option PickOutcome :=
  match parseNat? t, parseNat? e, parseNat? partner with
  | some t, some e, some p => some { t := t, e := e, coin := parseBool coin, partner := p }
  | _, _, _ => none

def parseStatus (s : String) : Status := if s = "ACC" then .acc else .rej

def parseEv : List String → Option DEv
  | ["start", t, e, coin, partner, saved] =>
    match parseOutcome t e coin partner, parseNat? saved with
    | some o, some k => some (.start o k)
    | _, _ => none
  | ["initdone"] => some .initDone
  | "step" :: k :: st :: t :: e :: coin :: partner :: m :: rest =>
    match parseNat? k, parseOutcome t e coin partner, parseNat? m with
    | some k, some o, some m =>
      match takeLists parseRat? m rest with
      | some ws => some (.step k (parseStatus st) ws o)
      | none => none
    | _, _, _ => none
  | "stepkilled" :: k :: st :: m :: rest =>
    match parseNat? k, parseNat? m with
    | some k, some m =>
      match takeLists parseRat? m rest with
      | some ws => some (.stepKilled k (parseStatus st) ws)
      | none => none
    | _, _ => none
  | ["unitfails", k] => (parseNat? k).map .unitFails
  | ["killedwaiting"] => some .killedWaiting
  | ["finish"] => some .finish
  | _ => none

/-- `none`: not an `sd-` op -/
def handleSd (st : DState) (d : Option DSys) (toks : List String) : Option (Option DSys × String) :=
  match toks with
  | ["sd-begin", c] =>
    let disk : Option (Option Image) :=
      if c = "-" then some none
      else (parseNat? c).map (fun n => some { persist st.s with cstep := n, locked := st.s.locked0 })
    match disk with
    | some dk => let d0 := begin st.s dk; some (some d0, showD d0)
    | none => some (d, "bad-op")
  | "sd-ev" :: rest =>
    match d, parseEv rest with
    | some d0, some ev =>
      match dstep d0 ev with
      | .ok d1 => some (some d1, showD d1)
      | .error er => some (d, showErr er)
    | _, _ => some (d, "bad-op")
  | op :: _ => if op.startsWith "sd-" then some (d, "bad-op") else none
  | [] => none

end Infretis.SchedDisk
