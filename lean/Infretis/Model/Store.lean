/-
Model for C14 — stored paths read back unchanged; live paths never lose files.

Part A (codec) mirrors, at token level,
  infretis/classes/formatter.py  PathExtFormatter.format / OrderPathFormatter.format /
                                 EnergyPathFormatter.format (+ apply_format), _make_header,
                                 PathStorage.output / output_path_files / _move_path,
                                 _generate_file_names, read_some_lines / _read_line_data,
                                 OutputFormatter.parse, PathExtFormatter.parse,
                                 EnergyFormatter.load, OrderFormatter.load
  infretis/classes/path.py       load_path, _load_energies_for_path, Path.update_energies
Part B (deletion) mirrors
  infretis/classes/repex.py      treat_output: the `if out_traj.path_number is None or ACC`
                                 branch incl. the delete_old block and the pn_olds FIFO,
                                 write_to_pathens' `traj_data.pop`, write_toml's `active`.

Numbers: order parameters and energies are `Int`s scaled by 10⁶ (what "{:.6f}" writes).
The lexical layer (str.format of an int / a 6-decimal float, str.split, int(), float()) is
*not* modelled: a file is a list of lines, a line a list of typed tokens `Tok`; `Tok.render`
gives the text the tie compares with the real files, token by token.
No imports outside core: this file is part of the compiled driver.
-/
namespace Infretis.Store

/-! ## Part A — the codec -/

/-- one whitespace-separated token of traj.txt / order.txt / energy.txt -/
inductive Tok where
  | hash                 -- "#": a line whose first token is this is a comment line
  | word (s : String)    -- a label or a file name (never numeric, never starting with '#')
  | int (i : Int)        -- written by "{:>10d}" / "{:>10}" of an int
  | fix6 (v : Int)       -- the number v·10⁻⁶ written by "{:>12.6f}" / "{:>14.6f}"
  | nan                  -- "nan" (float('nan') through "{:>14.6f}")
deriving DecidableEq, Repr

abbrev Line := List Tok

def natDigits6 (k : Nat) : String :=
  let s := toString k
  String.ofList (List.replicate (6 - s.length) '0') ++ s

/-- text of a token (used by the tie only; no theorem depends on the digits) -/
def Tok.render : Tok → String
  | .hash => "#"
  | .word s => s
  | .int i => toString i
  | .fix6 v =>
    let a := v.natAbs
    (if v < 0 then "-" else "") ++ toString (a / 1000000) ++ "." ++ natDigits6 (a % 1000000)
  | .nan => "nan"

/-- a float read by `float(col)` -/
inductive Num where
  | val (v : Int)     -- v·10⁻⁶
  | nan
deriving DecidableEq, Repr

/-- a phase point as far as storage is concerned -/
structure Frame where
  dir : String            -- directory part of `config[0]`
  base : String           -- os.path.basename(config[0])
  idx : Option Int        -- config[1]; `None` is written as 0
  velRev : Bool
  order : List Int        -- order parameters ×10⁶
  vpot : Option Int       -- ×10⁶; None ↦ "nan"
  ekin : Option Int
deriving DecidableEq, Repr

/-- `# Cycle: {step}, status: ACC` (traj.txt) / `…, status: ACC, move: {generated}` -/
def cycleLine (step : Nat) (move : Option (List String)) : Line :=
  match move with
  | none => [.hash, .word "Cycle:", .word (toString step ++ ","), .word "status:", .word "ACC"]
  | some mv => [.hash, .word "Cycle:", .word (toString step ++ ","), .word "status:", .word "ACC,", .word "move:"]
                 ++ mv.map Tok.word

/-- `_make_header`: "# " ++ first label, then the other labels -/
def headerLine (labels : List String) : Line := .hash :: labels.map Tok.word

/-- `if idx is None: idx = 0` -/
def idx0 : Option Int → Int
  | some k => k
  | none => 0

def trajRow (i : Nat) (f : Frame) : Line :=
  [.int i, .word f.base, .int (idx0 f.idx), .int (if f.velRev then -1 else 1)]

def orderRow (i : Nat) (f : Frame) : Line := .int i :: f.order.map Tok.fix6

/-- the float a written energy reads back as -/
def eNum : Option Int → Num
  | some v => .val v
  | none => .nan

def eTok : Option Int → Tok
  | some v => .fix6 v
  | none => .nan

/-- ENERGY_TERMS = vpot, ekin, etot, temp; a System has no `etot` / `temp` attribute → nan -/
def energyRow (i : Nat) (f : Frame) : Line := [.int i, eTok f.vpot, eTok f.ekin, .nan, .nan]

/-- `for i, phasepoint in enumerate(path.phasepoints): yield row i` -/
def rowsFrom (row : Nat → Frame → Line) : Nat → List Frame → List Line
  | _, [] => []
  | i, f :: fs => row i f :: rowsFrom row (i + 1) fs

def trajTxt (step : Nat) (fs : List Frame) : List Line :=
  cycleLine step none :: headerLine ["Step", "Filename", "index", "vel"] :: rowsFrom trajRow 0 fs

def orderTxt (step : Nat) (mv : List String) (fs : List Frame) : List Line :=
  cycleLine step (some mv) :: headerLine ["Time", "Orderp"] :: rowsFrom orderRow 0 fs

def energyTxt (step : Nat) (mv : List String) (fs : List Frame) : List Line :=
  cycleLine step (some mv) :: headerLine ["Time", "Potential", "Kinetic"] :: rowsFrom energyRow 0 fs

/-- `_generate_file_names`: the dict source → destination basename, in insertion order
    (keys = full source names `(dir, base)`; the destination is `accepted/<base>`). -/
def sources : List Frame → List (String × String)
  | [] => []
  | f :: fs =>
    let rest := sources fs
    (f.dir, f.base) :: rest.filter (fun s => s ≠ (f.dir, f.base))

/-- what `PathStorage.output` leaves in `load/<n>/` -/
structure Stored where
  traj : List Line
  order : List Line
  energy : List Line
  accepted : List String      -- basenames now present in load/<n>/accepted/
  moves : List (String × String)   -- (source dir, basename) moved there
deriving Repr

def store (step : Nat) (mv : List String) (fs : List Frame) : Stored :=
  { traj := trajTxt step fs, order := orderTxt step mv fs, energy := energyTxt step mv fs,
    accepted := (sources fs).map (·.2), moves := sources fs }

/-! ### reading back -/

inductive Err where
  | assert | stopIteration | index | value | key | nofile | notempty
deriving DecidableEq, Repr

def isComment : Line → Bool
  | .hash :: _ => true
  | _ => false

/-- `float(col)`; words raise ValueError -/
def floatTok : Tok → Option Num
  | .int i => some (.val (i * 1000000))
  | .fix6 v => some (.val v)
  | .nan => some .nan
  | _ => none

def mapOpt {α β : Type} (f : α → Option β) : List α → Option (List β)
  | [] => some []
  | a :: as =>
    match f a, mapOpt f as with
    | some b, some bs => some (b :: bs)
    | _, _ => none

/-- `OutputFormatter.parse`: `[int(col) if i == 0 else float(col)]`; `none` = ValueError.
    Only `Tok.int` survives `int()` ("1.000000" does not). -/
def parseNum : Line → Option (List Num)
  | [] => some []
  | .int i :: rest =>
    match mapOpt floatTok rest with
    | some r => some (.val (i * 1000000) :: r)
    | none => none
  | _ => none

/-- `PathExtFormatter.parse`: `line.split()` never fails -/
def parseStr : Line → Option (List Tok) := fun l => some l

/-- `read_some_lines` up to its first `yield` (that is what `next(file.load())` returns).
    `ncol = none` is the code's `-1`; `yb` = yield_block, `rc` = read_comment.
    A parsed line is appended only when it is truthy (non-empty) and has `ncol` columns. -/
def firstBlockGo {β : Type} (parse : Line → Option (List β)) :
    Option Nat → List (List β) → Bool → Bool → List Line → Option (List (List β))
  | _, acc, yb, _, [] => if yb then some acc else none
  | ncol, acc, yb, rc, l :: ls =>
    if isComment l then
      if rc then firstBlockGo parse ncol acc yb true ls
      else if yb then some acc
      else firstBlockGo parse none [] true true ls
    else
      match parse l with
      | none => firstBlockGo parse ncol acc yb false ls
      | some d =>
        let nc := match ncol with | none => d.length | some c => c
        if d.length = nc ∧ d ≠ [] then firstBlockGo parse (some nc) (acc ++ [d]) true false ls
        else firstBlockGo parse ncol acc yb false ls

def firstBlock {β : Type} (parse : Line → Option (List β)) (ls : List Line) : Except Err (List (List β)) :=
  match firstBlockGo parse none [] false false ls with
  | some b => .ok b
  | none => .error .stopIteration

/-- a loaded phase point: `config = (pdir/accepted/<base>, idx)` -/
structure LFrame where
  base : String
  idx : Int
  velRev : Bool
  order : List Num
  vpot : Option Num      -- Python None when no energy was set
  ekin : Option Num
deriving DecidableEq, Repr

def intTok : Tok → Option Int
  | .int i => some i
  | _ => none

/-- the `for i, snapshot in enumerate(traj["data"])` loop body of load_path -/
def snapshot (row : List Tok) : Except Err (String × Int × Bool) :=
  match row with
  | _ :: nm :: ix :: vl :: _ =>
    match intTok vl with
    | none => .error .value
    | some v =>
      match intTok ix with
      | none => .error .value
      | some i => .ok (nm.render, i, v == -1)
  | _ => .error .index

def snapshots : List (List Tok) → Except Err (List (String × Int × Bool))
  | [] => .ok []
  | r :: rs =>
    match snapshot r with
    | .error e => .error e
    | .ok s =>
      match snapshots rs with
      | .error e => .error e
      | .ok ss => .ok (s :: ss)

/-- `np.array(rows)[:, 1:]` — IndexError on an empty block -/
def dropFirstCol (rows : List (List Num)) : Except Err (List (List Num)) :=
  if rows = [] then .error .index else .ok (rows.map List.tail)

def zipFrames : List (String × Int × Bool) → List (List Num) → List LFrame
  | s :: ss, o :: os => { base := s.1, idx := s.2.1, velRev := s.2.2, order := o, vpot := none, ekin := none } :: zipFrames ss os
  | _, _ => []

/-- `update_energies(ekin, vpot)`: element i or None when the column ran out -/
def setEnergies : List LFrame → List (List Num) → List LFrame
  | [], _ => []
  | f :: fs, [] => { f with vpot := none, ekin := none } :: setEnergies fs []
  | f :: fs, r :: rs => { f with vpot := r[1]?, ekin := r[2]? } :: setEnergies fs rs

/-- `load_path(pdir)`; `none` for a file = it does not exist; `files` = basenames in accepted/ -/
def load (traj order energy : Option (List Line)) (files : List String) : Except Err (List LFrame) :=
  match traj, order with
  | some tl, some ol =>
    match firstBlock parseStr tl with
    | .error e => .error e
    | .ok trows =>
      match snapshots trows with
      | .error e => .error e
      | .ok snaps =>
        if ¬ snaps.all (fun s => files.contains s.1) then .error .assert else
        match firstBlock parseNum ol with
        | .error e => .error e
        | .ok orows =>
          match dropFirstCol orows with
          | .error e => .error e
          | .ok ords =>
            let fr := zipFrames snaps ords
            match energy with
            | none => .ok fr
            | some el =>
              match firstBlock parseNum el with
              | .error e => .error e
              | .ok erows =>
                match erows with
                | [] => .error .index
                | r :: _ => if r.length < 3 then .error .key else .ok (setEnergies fr erows)
  | _, _ => .error .assert

def loadStored (s : Stored) : Except Err (List LFrame) :=
  load (some s.traj) (some s.order) (some s.energy) s.accepted

/-- what the property demands of the reloaded frame -/
def expected (f : Frame) : LFrame :=
  { base := f.base, idx := idx0 f.idx, velRev := f.velRev,
    order := f.order.map Num.val, vpot := some (eNum f.vpot), ekin := some (eNum f.ekin) }

/-- a loaded phase point handed to `PathStorage.output` again (the loaded path is stored under a
    new number): its file lies in the old `accepted/` directory, NaN energies are written as "nan"
    exactly like missing ones, a NaN order parameter does not occur (written as 0 here) -/
def reframe (dir : String) (f : LFrame) : Frame :=
  { dir := dir, base := f.base, idx := some f.idx, velRev := f.velRev,
    order := f.order.map (fun x => match x with | .val v => v | .nan => 0),
    vpot := (match f.vpot with | some (.val v) => some v | _ => none),
    ekin := (match f.ekin with | some (.val v) => some v | _ => none) }

/-! ## Part B — deletion of old paths -/

/-- a file below load/ -/
inductive DFile where
  | txt (pn : Nat) (k : Nat)          -- load/pn/{order,traj,energy}.txt for k = 0,1,2
  | acc (pn : Nat) (name : String)    -- load/pn/accepted/name
deriving DecidableEq, Repr

def DFile.pn : DFile → Nat
  | .txt p _ => p
  | .acc p _ => p

inductive DDir where
  | path (pn : Nat)        -- load/pn
  | accepted (pn : Nat)    -- load/pn/accepted
deriving DecidableEq, Repr

/-- `asIs`: the delete_old_all branch before /repo commits 867b445 and e7b75fb (side files kept
    through keep_traj_fnames and any stale file are left behind, `rmdir` then fails);
    `repaired`: the current code (side files removed, then accepted/ emptied). -/
inductive Variant where
  | asIs | repaired
deriving DecidableEq, Repr

/-- the settings the delete block reads -/
structure DelCfg where
  delAll : Bool
  variant : Variant
  keep : List String
deriving Repr

structure St where
  n : Nat                              -- REPEX_state.n  (= number of ensembles + 1)
  delOld : Bool                        -- config output.delete_old
  delAll : Bool                        -- config output.delete_old_all
  variant : Variant                    -- which version of the delete_old_all branch
  keep : List String                   -- pstore.keep_traj_fnames
  trajNum : Nat                        -- config current.traj_num
  live : List Nat                      -- path numbers in the ensembles (live_paths())
  trajData : List (Nat × List String)  -- pn ↦ adress (basenames below load/pn/accepted)
  pnOlds : List (Nat × List String)    -- the pn_olds dict in insertion order
  disk : List DFile
  dirs : List DDir
  restart : List Nat                   -- `active` of the restart.toml on disk
  pending : List Nat                   -- md_items["pnum_old"] of the running treat_output
  cnt : Nat                            -- ghost: replacements since the last write_toml
  txt : List (Nat × List String)       -- ghost: what load/pn/traj.txt references
deriving Repr

def St.delCfg (s : St) : DelCfg := { delAll := s.delAll, variant := s.variant, keep := s.keep }

def lookup {α : Type} (k : Nat) : List (Nat × α) → Option α
  | [] => none
  | (k', v) :: t => if k' = k then some v else lookup k t

def erase {α : Type} (k : Nat) (l : List (Nat × α)) : List (Nat × α) := l.filter (fun e => e.1 ≠ k)

/-- `d[k] = v` on an insertion-ordered dict -/
def dictSet {α : Type} (k : Nat) (v : α) : List (Nat × α) → List (Nat × α)
  | [] => [(k, v)]
  | (k', v') :: t => if k' = k then (k, v) :: t else (k', v') :: dictSet k v t

/-- `for a in adress: os.remove(a)`; stops at the first missing file -/
def removeAll : List DFile → List DFile → List DFile × Option Err
  | [], d => (d, none)
  | f :: fs, d => if f ∈ d then removeAll fs (d.filter (· ≠ f)) else (d, some .nofile)

/-- `if os.path.isfile(t): os.remove(t)` for the three txt files -/
def removeTxts (pn : Nat) (d : List DFile) : List DFile :=
  d.filter (fun f => f ≠ .txt pn 0 ∧ f ≠ .txt pn 1 ∧ f ≠ .txt pn 2)

/-- `PathStorage.output` seen from load/: make_dirs, three txt files, moved files -/
def storeNew (s : St) (files kept : List String) : St :=
  let pn := s.trajNum
  { s with
    dirs := .path pn :: .accepted pn :: s.dirs,
    disk := [DFile.txt pn 0, .txt pn 2, .txt pn 1] ++ (files ++ kept).map (DFile.acc pn) ++ s.disk,
    txt := (pn, files) :: s.txt }

/-- `os.path.splitext(name)[0]` for a basename: cut at the last dot unless only dots precede it -/
def stemOf (s : String) : String :=
  let cs := s.toList
  let rev := cs.reverse
  match rev.idxOf? '.' with
  | none => s
  | some k =>
    let i := cs.length - 1 - k          -- index of the last '.'
    if (cs.take i).all (· == '.') then s else String.ofList (cs.take i)

/-- the names `splitext(adress)[0] + ext` the repaired code looks for -/
def sideFiles (pd : Nat) (adr keep : List String) : List DFile :=
  adr.flatMap (fun a => keep.map (fun e => DFile.acc pd (stemOf a ++ e)))

/-- `if os.path.isfile(base + ext): os.remove(base + ext)` for every adress and extension -/
def removeSides (pd : Nat) (adr keep : List String) (d : List DFile) : List DFile :=
  d.filter (fun f => f ∉ sideFiles pd adr keep)

def isAccOf (pd : Nat) : DFile → Bool
  | .acc p _ => p == pd
  | _ => false

/-- `for leftover in os.listdir(acc_dir): os.remove(...)` (commit e7b75fb): every remaining entry
    of load/pd/accepted, whatever put it there -/
def removeLeftovers (pd : Nat) (d : List DFile) : List DFile := d.filter (fun f => !isAccOf pd f)

/-- what the delete_old_all branch removes before the two `rmdir`s: (repaired) the kept side
    files, the three txt files, then whatever is left in accepted/; (asIs) only the txt files -/
def cleanDir (c : DelCfg) (pd : Nat) (adr : List String) (d : List DFile) : List DFile :=
  match c.variant with
  | .asIs => removeTxts pd d
  | .repaired => removeLeftovers pd (removeTxts pd (removeSides pd adr c.keep d))

/-- `os.rmdir(load/pd/accepted)`, `os.rmdir(load/pd)` -/
def rmdirs (pd : Nat) (disk : List DFile) (dirs : List DDir) : List DDir × Option Err :=
  if DDir.accepted pd ∉ dirs then (dirs, some .nofile)
  else if disk.any (isAccOf pd) then (dirs, some .notempty)
  else
    let dirs1 := dirs.filter (· ≠ .accepted pd)
    if DDir.path pd ∉ dirs1 then (dirs1, some .nofile)
    else if disk.any (fun f => f.pn == pd) then (dirs1, some .notempty)
    else (dirs1.filter (· ≠ .path pd), none)

/-- the body of `if len(self.pn_olds) > self.n - 2:` on (pn_olds, files, directories) -/
def delHeadCore (c : DelCfg) (olds : List (Nat × List String)) (disk : List DFile) (dirs : List DDir) :
    List (Nat × List String) × List DFile × List DDir × Option Err :=
  match olds with
  | [] => (olds, disk, dirs, some .stopIteration)          -- next(iter({}))
  | (pd, adr) :: rest =>
    let r := removeAll (adr.map (DFile.acc pd)) disk       -- for adress in del_dic["adress"]: os.remove
    match r.2 with
    | some e => (olds, r.1, dirs, some e)
    | none =>
      if c.delAll then
        let d2 := cleanDir c pd adr r.1
        let rd := rmdirs pd d2 dirs
        match rd.2 with
        | some e => (olds, d2, rd.1, some e)
        | none => (rest, d2, rd.1, none)                   -- self.pn_olds.pop(pn_old_del)
      else (rest, r.1, dirs, none)

def delHead (s : St) : St × Option Err :=
  let r := delHeadCore s.delCfg s.pnOlds s.disk s.dirs
  ({ s with pnOlds := r.1, disk := r.2.1, dirs := r.2.2.1 }, r.2.2.2)

/-- `delete_old and pn_old > self.n - 2` -/
def qualifies (s : St) (pnOld : Nat) : Bool := s.delOld && decide ((pnOld : Int) > (s.n : Int) - 2)

/-- the delete_old block (repex.py 925-953) -/
def delBlock (s : St) (pnOld : Nat) (adrOld : List String) : St × Option Err :=
  if qualifies s pnOld then
    let r := if ((s.pnOlds.length : Int) > (s.n : Int) - 2) then delHead s else (s, none)
    match r.2 with
    | some e => (r.1, some e)
    | none =>
      if ((r.1.pnOlds.length : Int) ≤ (r.1.n : Int) - 2) then
        ({ r.1 with pnOlds := dictSet pnOld adrOld r.1.pnOlds }, none)
      else (r.1, none)
  else (s, none)

/-- the state just before the delete_old block: path stored, traj_data[traj_num] set, traj_num += 1 -/
def stored (s : St) (pnOld : Nat) (files kept : List String) : St :=
  let s1 := storeNew s files kept
  { s1 with trajData := (s.trajNum, files) :: s1.trajData, trajNum := s.trajNum + 1,
            pending := s1.pending ++ [pnOld], cnt := s1.cnt + 1 }

/-- one iteration of `for ens_num in picked` for an accepted new path that replaces `pnOld`;
    `files` = out_traj.adress (basenames), `kept` = extra files moved by keep_traj_fnames. -/
def replace (s : St) (pnOld : Nat) (files kept : List String) : St × Option Err :=
  match lookup pnOld s.trajData with
  | none => (s, some .key)                       -- self.traj_data[pn_old]["ens_save_idx"]
  | some adrOld =>
    let r := delBlock (stored s pnOld files kept) pnOld adrOld
    match r.2 with
    | some e => (r.1, some e)
    | none => ({ r.1 with live := r.1.live.map (fun p => if p = pnOld then s.trajNum else p) }, none)

/-- `write_to_pathens`' `traj_data.pop(pn)` for pn in pnum_old -/
def popAll : List Nat → List (Nat × List String) → List (Nat × List String) × Option Err
  | [], td => (td, none)
  | p :: ps, td =>
    match lookup p td with
    | none => (td, some .key)
    | some _ => popAll ps (erase p td)

/-- the end of treat_output: archive the replaced paths (status ACC), write restart.toml -/
def finish (s : St) : St × Option Err :=
  let r := popAll s.pending s.trajData
  match r.2 with
  | some e => ({ s with trajData := r.1 }, some e)
  | none => ({ s with trajData := r.1, pending := [], restart := s.live, cnt := 0 }, none)

inductive Op where
  | replace (pnOld : Nat) (files kept : List String)
  | finish
  | stale (pn : Nat) (name : String)   -- environment: a file appears in load/pn/accepted (interrupted store)
deriving Repr

/-- a stale file can only lie in a directory that exists -/
def addStale (s : St) (pn : Nat) (name : String) : St :=
  if DDir.accepted pn ∈ s.dirs then { s with disk := .acc pn name :: s.disk } else s

def step (s : St) : Op → St × Option Err
  | .replace p f k => replace s p f k
  | .finish => finish s
  | .stale p nm => (addStale s p nm, none)

/-- a history; the process dies at the first exception (the state then is what is on disk) -/
def run : St → List Op → St × Option Err
  | s, [] => (s, none)
  | s, op :: ops =>
    match (step s op).2 with
    | none => run (step s op).1 ops
    | some e => ((step s op).1, some e)

/-- the state after `load_paths`: initial paths 0 … n-2 with their files -/
def initFiles : List (Nat × List String) → List DFile
  | [] => []
  | (pn, adr) :: t => [DFile.txt pn 0, .txt pn 1, .txt pn 2] ++ adr.map (DFile.acc pn) ++ initFiles t

def initDirs : List (Nat × List String) → List DDir
  | [] => []
  | (pn, _) :: t => .path pn :: .accepted pn :: initDirs t

def init (n : Nat) (delOld delAll : Bool) (paths : List (Nat × List String))
    (variant : Variant := .repaired) (keep : List String := []) : St :=
  { n := n, delOld := delOld, delAll := delAll, variant := variant, keep := keep, trajNum := n - 1, live := paths.map (·.1),
    trajData := paths, pnOlds := [], disk := initFiles paths, dirs := initDirs paths,
    restart := paths.map (·.1), pending := [], cnt := 0, txt := paths }

end Infretis.Store
