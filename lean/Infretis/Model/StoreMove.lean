/-
Model for C14: the file operations of `PathStorage._move_path` (formatter.py 874-919) on a small
file-system model — which files are moved into the path's own `accepted/` directory, what a
destination that already exists suffers, the `keep_traj_fnames` side files.

A file is `(directory, name) ↦ content tag`; directories themselves are not modelled (`make_dirs`
has created the target before; a destination that exists but is a directory is outside the model).
`shutil.move` onto a free destination on the same file system is a rename: the source entry
disappears, the destination appears with the source's content.
No imports outside core and other model files: this file is part of the compiled driver.
-/
import Infretis.Model.StorePath
namespace Infretis.Store

/-- `(os.path.dirname, os.path.basename)` of a file -/
abbrev FName := String × String
/-- the files that exist, with a tag for their content -/
abbrev FS := List (FName × Nat)
/-- the insertion-ordered dict `source → destination` of `_generate_file_names` -/
abbrev MoveDict := List (FName × FName)

def fsGet : FS → FName → Option Nat
  | [], _ => none
  | (k', c) :: t, k => if k' = k then some c else fsGet t k

/-- `os.path.isfile` -/
def fsIsfile (fs : FS) (k : FName) : Bool := (fsGet fs k).isSome

/-- `os.remove` of an existing file -/
def fsRemove (fs : FS) (k : FName) : FS := fs.filter (fun e => e.1 ≠ k)

/-- `d[k] = v` -/
def dsetF (k v : FName) : MoveDict → MoveDict
  | [] => [(k, v)]
  | (k', v') :: t => if k' = k then (k, v) :: t else (k', v') :: dsetF k v t

/-- `_generate_file_names(path_copy, target_dir)`: every distinct source file, in the order of first
    use, goes to `target_dir/<basename>` -/
def sourceDict (target : String) (frames : List Frame) : MoveDict :=
  (sources frames).map (fun s => (s, (target, s.2)))

/-- `for ext in keep_traj_fnames:` for one source file: `traj_name + ext` next to the source, if it
    is a file, is entered into the dict -/
def keepOne (fs : FS) (target : String) (src : FName) : List String → MoveDict → MoveDict
  | [], d => d
  | ext :: exts, d =>
    let nm := stemOf src.2 ++ ext
    keepOne fs target src exts (if fsIsfile fs (src.1, nm) then dsetF (src.1, nm) (target, nm) d else d)

/-- `for source_file in source.copy().keys():` -/
def keepAll (fs : FS) (target : String) (keep : List String) : List FName → MoveDict → MoveDict
  | [], d => d
  | s :: ss, d => keepAll fs target keep ss (keepOne fs target s keep d)

/-- the dict `_move_path` iterates over (`if keep_traj_fnames:` is list truthiness) -/
def moveDict (fs : FS) (target : String) (keep : List String) (frames : List Frame) : MoveDict :=
  let d := sourceDict target frames
  if keep.isEmpty then d else keepAll fs target keep (d.map (·.1)) d

/-- `for src, dest in source.items(): if src != dest: [os.remove(dest) if it is a file]; shutil.move(src, dest)`;
    a missing source raises (FileNotFoundError) and leaves what was done so far -/
def doMoves : MoveDict → FS → FS × Option Err
  | [], fs => (fs, none)
  | (src, dest) :: t, fs =>
    if src = dest then doMoves t fs
    else
      let fs1 := if fsIsfile fs dest then fsRemove fs dest else fs
      match fsGet fs1 src with
      | none => (fs1, some .nofile)
      | some c => doMoves t ((dest, c) :: fsRemove fs1 src)

/-- `PathStorage._move_path(path, target_dir, keep_traj_fnames)`: works on `path.copy()`;
    returns the file system afterwards, the returned path (frames re-addressed to `target_dir`) and
    the exception, if any -/
def movePath (keep : List String) (target : String) (p : PathObj Frame) (fs : FS) :
    FS × PathObj Frame × Option Err :=
  let c := p.copy
  let r := doMoves (moveDict fs target keep c.pts) fs
  (r.1, { c with pts := c.pts.map (fun f => { f with dir := target }) }, r.2)

/-- the regular files `load_path` can see in `target` (`os.path.isfile(target/<name>)`) -/
def accListing (fs : FS) (target : String) : List String :=
  (fs.filter (fun e => e.1.1 = target)).map (·.1.2)

/-- END TO END: `PathStorage.output(step, {path, dir})` on a file system — the three text files written
    from the path, `_move_path` into `target = dir/<n>/accepted` — followed by `load_path(dir/<n>)`
    under the default limit `deflim`, which looks for every referenced name among the files that
    are in `target` afterwards.  An exception of the storing side ends it. -/
def outputThenLoad (keep : List String) (target : String) (step : Nat) (mv : List String) (p : PathObj Frame)
    (fs : FS) (deflim : Option Int) : Except Err (PathObj LFrame) :=
  let r := movePath keep target p fs
  match r.2.2 with
  | some e => .error e
  | none =>
    loadPath .push deflim (some (trajTxt step p.pts)) (some (orderTxt step mv p.pts)) (some (energyTxt step mv p.pts))
      (accListing r.1 target)

end Infretis.Store
