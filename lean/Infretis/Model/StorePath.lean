/-
Model for C14, the `Path` object layer of storing and loading (on top of `Infretis.Store`).

Mirrors
  infretis/classes/path.py       DEFAULT_MAXLEN, Path.__init__ (maxlen, phasepoints), Path.length,
                                 Path.append (the `maxlen is None or length < maxlen` test, the
                                 silently returned False), Path.copy / empty_path (as far as the
                                 frames and maxlen are concerned), load_path's frame loop
                                 (`path = Path()` … `path.phasepoints.append(frame)`),
                                 _load_energies_for_path / Path.update_energies
  infretis/classes/formatter.py  PathStorage.output → output_path_files (written from the path it
                                 was given) and _move_path (works on `path.copy()`, i.e. on what
                                 `Path.append` lets through)

`load_path` builds the path with `Path()`, i.e. with the DEFAULT limit, and the real maximum length
is assigned only afterwards (load_paths_from_disk).  The frames therefore have to go into
`phasepoints` directly, NOT through `Path.append`: `Fill.push` is the code as it is,
`Fill.viaAppend` the variant through the limit check (a stored path longer than the default limit
would silently lose its tail).
No imports outside core and other model files: this file is part of the compiled driver.
-/
import Infretis.Model.Store
namespace Infretis.Store

/-- `DEFAULT_MAXLEN` of path.py -/
def defaultMaxlen : Int := 100000

/-- a `Path` object as far as storing and loading are concerned:
    `maxlen` (Python `None` ↦ `none`) and `phasepoints` -/
structure PathObj (α : Type) where
  maxlen : Option Int
  pts : List α
deriving Repr

/-- `Path(maxlen)` -/
def PathObj.empty {α : Type} (maxlen : Option Int) : PathObj α := { maxlen := maxlen, pts := [] }

/-- the test of `Path.append`: `self.maxlen is None or self.length < self.maxlen` -/
def PathObj.room {α : Type} (p : PathObj α) : Bool :=
  match p.maxlen with
  | none => true
  | some m => decide ((p.pts.length : Int) < m)

/-- `Path.append(phasepoint)`: the new object state and the returned bool -/
def PathObj.append {α : Type} (p : PathObj α) (x : α) : PathObj α × Bool :=
  if p.room then ({ p with pts := p.pts ++ [x] }, true) else (p, false)

/-- `path.phasepoints.append(frame)`: no limit check -/
def PathObj.push {α : Type} (p : PathObj α) (x : α) : PathObj α := { p with pts := p.pts ++ [x] }

/-- how a loop puts frames into a path -/
inductive Fill where
  | push         -- `path.phasepoints.append(frame)`  (load_path as it is)
  | viaAppend    -- `path.append(frame)`, returned bool ignored
deriving DecidableEq, Repr

/-- `for frame in frames: <put frame into path>` -/
def fill {α : Type} (v : Fill) : PathObj α → List α → PathObj α
  | p, [] => p
  | p, x :: xs =>
    match v with
    | .push => fill v (p.push x) xs
    | .viaAppend => fill v (p.append x).1 xs

/-- `Path.copy()`: `empty_path(maxlen=self.maxlen)`, then `new_path.append(phasepoint.copy())` for
    every phase point (the returned bool is ignored), `new_path.maxlen = self.maxlen` -/
def PathObj.copy {α : Type} (p : PathObj α) : PathObj α :=
  { fill .viaAppend (PathObj.empty p.maxlen) p.pts with maxlen := p.maxlen }

/-- `length ≤ maxlen` (or no limit): true of every path that was built through `Path.append` -/
def PathObj.fits {α : Type} (p : PathObj α) : Prop :=
  match p.maxlen with
  | none => True
  | some m => (p.pts.length : Int) ≤ m

instance {α : Type} (p : PathObj α) : Decidable p.fits := by
  unfold PathObj.fits; split <;> infer_instance

/-! ### PathStorage.output on a Path object -/

/-- `PathStorage.output(step, {path, dir})`: the three text files are written from the path that was
    passed in; `_move_path` then works on `path.copy()` — the sources that are moved and the path
    that is returned come from the copy. -/
def storeObj (step : Nat) (mv : List String) (p : PathObj Frame) : Stored × PathObj Frame :=
  let c := p.copy
  ({ traj := trajTxt step p.pts, order := orderTxt step mv p.pts, energy := energyTxt step mv p.pts,
     accepted := (sources c.pts).map (·.2), moves := sources c.pts },
   { c with pts := c.pts.map (fun f => { f with dir := "accepted" }) })

/-! ### load_path on a Path object -/

/-- `load_path` up to and including `zip(traj["data"], orderdata)` -/
def loadFrames (traj order : Option (List Line)) (files : List String) : Except Err (List LFrame) :=
  match traj, order with
  | some tl, some ol =>
    match firstBlock parseStr tl with
    | .error e => .error e
    | .ok trows =>
      match snapshots trows with
      | .error e => .error e
      | .ok snaps =>
        if ¬ snaps.all (fun s => files.contains s.1) then .error .assert else
        match firstBlock parseNum ol with
        | .error e => .error e
        | .ok orows =>
          match dropFirstCol orows with
          | .error e => .error e
          | .ok ords => .ok (zipFrames snaps ords)
  | _, _ => .error .assert

/-- `_load_energies_for_path(path, pdir)` on the phase points of the path -/
def loadEnergies (energy : Option (List Line)) (fr : List LFrame) : Except Err (List LFrame) :=
  match energy with
  | none => .ok fr
  | some el =>
    match firstBlock parseNum el with
    | .error e => .error e
    | .ok erows =>
      match erows with
      | [] => .error .index
      | r :: _ => if r.length < 3 then .error .key else .ok (setEnergies fr erows)

/-- `load_path(pdir)` as a Path object: `path = Path()` (limit `deflim` = the default bound at
    definition time), the frame loop `v`, then the energies on whatever is in the path. -/
def loadPath (v : Fill) (deflim : Option Int) (traj order energy : Option (List Line)) (files : List String) :
    Except Err (PathObj LFrame) :=
  match loadFrames traj order files with
  | .error e => .error e
  | .ok fr =>
    let p := fill v (PathObj.empty deflim) fr
    match loadEnergies energy p.pts with
    | .error e => .error e
    | .ok pts => .ok { p with pts := pts }

def loadStoredPath (v : Fill) (deflim : Option Int) (s : Stored) : Except Err (PathObj LFrame) :=
  loadPath v deflim (some s.traj) (some s.order) (some s.energy) s.accepted

/-! ### load_paths_from_disk -/

/-- what `load_path` finds in `load_dir/<number>`: traj.txt, order.txt, energy.txt (`none` = absent)
    and the names in `accepted/` -/
structure Archive where
  traj : Option (List Line)
  order : Option (List Line)
  energy : Option (List Line)
  files : List String

/-- a path as `load_paths_from_disk` hands it on -/
structure LoadedPath where
  number : Nat
  status : String           -- `generated[0]`: "re" after a restart, "ld" otherwise
  path : PathObj LFrame

/-- `load_paths_from_disk(config)`: `for pnumber in config["current"]["active"]: new_path = load_path(…)`,
    then `generated = (status, nan, 0, 0)`, `maxlen = simulation.tis_set.maxlength`, `path_number = pnumber`;
    the first exception ends it -/
def loadPathsFromDisk (v : Fill) (deflim : Option Int) (maxlength : Option Int) (restarted : Bool)
    (disk : Nat → Archive) : List Nat → Except Err (List LoadedPath)
  | [] => .ok []
  | pn :: rest =>
    match loadPath v deflim (disk pn).traj (disk pn).order (disk pn).energy (disk pn).files with
    | .error e => .error e
    | .ok p =>
      match loadPathsFromDisk v deflim maxlength restarted disk rest with
      | .error e => .error e
      | .ok ps => .ok ({ number := pn, status := if restarted then "re" else "ld", path := { p with maxlen := maxlength } } :: ps)

end Infretis.Store
