/-
Model for C14, part B continued: a RESTART between two `treat_output` calls.

Mirrors what a restart does to the state the delete block reads:
  infretis/setup.py / scheduler     a new REPEX_state is built from restart.toml
  infretis/classes/path.py          load_paths_from_disk: `for pnumber in config["current"]["active"]: load_path(load_dir/pnumber)`
  infretis/classes/repex.py         load_paths: traj_data[pnum]["adress"] = the files the loaded path refers to;
                                    `pn_olds` is an attribute of the new object and starts empty — the queue of
                                    replaced paths whose files await deletion is NOT persisted
The paths live after the restart are those the restart.toml on disk names (`active`); their file sets are what
their traj.txt lists (`St.txt`); `current.traj_num` is the one written by the last completed call, so a restart is
modelled between calls only (`pending = []`; a crash in the middle of a call is C08's subject).
No imports outside core and other model files: this file is part of the compiled driver.
-/
import Infretis.Model.Store
namespace Infretis.Store

/-- the state after `REPEX_state(config from restart.toml)` + `load_paths(load_paths_from_disk(config))` -/
def restartSt (s : St) : St :=
  { s with live := s.restart,
           trajData := s.restart.filterMap (fun p => (lookup p s.txt).map (fun adr => (p, adr))),
           pnOlds := [], pending := [], cnt := 0 }

/-- a history with restarts -/
inductive OpR where
  | op (o : Op)
  | restart
deriving Repr

def stepR (s : St) : OpR → St × Option Err
  | .op o => step s o
  | .restart => (restartSt s, none)

/-- the process dies at the first exception -/
def runR : St → List OpR → St × Option Err
  | s, [] => (s, none)
  | s, o :: os =>
    match (stepR s o).2 with
    | none => runR (stepR s o).1 os
    | some e => ((stepR s o).1, some e)

end Infretis.Store
