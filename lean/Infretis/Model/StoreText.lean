/-
Model for C14 at the level of the TEXT of traj.txt / order.txt / energy.txt (characters, fields,
widths), on top of the token-level model `Infretis.Store` and the `Path` object layer
(`Model/StorePath.lean`).  Text is `List Char` (ASCII; the tie only feeds ASCII).

Mirrors, branch by branch,
  infretis/classes/formatter.py
    _make_header                      (labels, width list with the `width[-1]` fall-back, "# " on the first column, spacing)
    OrderFormatter.format_data        "{:>10d}" + " {:>12.6f}" per order parameter
    OrderPathFormatter.format         "# Cycle: {step}, status: {status}, move: {move}", header, one row per phase point
    EnergyFormatter.apply_format      "{:>10d}" + 4 × " {:>14.6f}" over ENERGY_TERMS (vpot, ekin, etot, temp), None ↦ nan
    EnergyPathFormatter.format        cycle line, header (Time Potential Kinetic), rows (a System has no etot / temp)
    PathExtFormatter.format           "# Cycle: {step}, status: {status}", header, FMT "{:>10}  {:>20s}  {:>10}  {:>5}"
    PathExtFormatter.parse            line.split()
    OutputFormatter.parse             [int(col) if i == 0 else float(col)]
    _read_line_data, read_some_lines  (strip, startswith("#"), multi-line comments, ncol, malformed / short / empty lines skipped)
    OutputFormatter.load / OrderFormatter.load / EnergyFormatter.load   (first block; np.array shapes as error kinds)
    PathStorage.output_path_files     (`write(f"{line}\n")` per formatted line), PathStorage.output, _move_path
                                      (as far as the Path object and the set of moved files are concerned), _generate_file_names
  infretis/classes/path.py            load_path, _load_energies_for_path, Path.update_energies

Numbers.  A Python float handed to a formatter is `FIn`: sign and exact magnitude `n/d` (every finite
double is such a fraction; the tie passes `Fraction(abs(x))` and the sign bit, so −0.0 is covered) or NaN.
`'{:.6f}'` prints the exact binary value correctly rounded to 6 decimals, ties to even: `round6`.  What
`float(text)` gives back is carried as the decimal that stood in the file (`FVal.dec`, sign-magnitude,
`Infretis.Codec.Dec`) or NaN; the decimal → double rounding on reading is outside the model.
±∞ (`FIn.inf`, `FVal.inf`): `'{:.6f}'` prints `inf` / `-inf`, `float()` reads them back.

Characters.  Text is `List Char` = Unicode code points (the files are opened with encoding utf-8); white space is
Python's complete set (`Model/StoreWs.lean`), so `strip()` / `split()` / the comment test behave as in Python on
non-ASCII text too (U+00A0, U+0085, U+2000–200A, U+3000 … separate tokens).  Digits are ASCII only: a token of
non-ASCII digits (which `int()` / `float()` accept) is outside the reader domain.

Reader domain.  Python's `int()` / `float()` accept more spellings than the writers produce (`+1`, `1_0`,
`1e5`, `inf`, `.5`, fewer or more decimals …).  `pyInt` accepts `-`?digits, `pyFloat` accepts `nan`, `inf`, `-inf`,
`-`?digits and `-`?digits`.`dddddd (exactly six); everything else is `none` (→ ValueError).  The tie does not
compare the model on files holding a token Python accepts and the model does not.
No imports outside core and other model files: this file is part of the compiled driver.
-/
import Infretis.Model.Codec
import Infretis.Model.StorePath
import Infretis.Model.StoreWs
namespace Infretis.StoreText
-- `isWs`, `strip`, `splitWs` are the ones of `Model/StoreWs.lean` (Python's complete white-space set),
-- NOT `Infretis.Codec`'s ASCII-only ones
open Infretis.Codec (pyLines unlines Dec natDigits intDigits fmtFixed joinSp digitsVal parseCore)
open Infretis.Store (Err PathObj Fill fill idx0)

abbrev Str := List Char

/-! ## writing -/

/-- `'{:>w}'.format(s)`: left-padded with blanks, never truncated -/
def padL (w : Nat) (s : Str) : Str := List.replicate (w - s.length) ' ' ++ s

/-- a Python float (or NaN) handed to a formatter: sign bit and exact magnitude `n/d` -/
inductive FIn where
  | num (neg : Bool) (n d : Nat)
  | nan
  | inf (neg : Bool)      -- `float("inf")` / `float("-inf")`
deriving DecidableEq, Repr

/-- magnitude of `'{:.6f}'`: `n/d · 10⁶` rounded to the nearest integer, ties to even -/
def round6 (n d : Nat) : Nat :=
  let N := n * 1000000
  let q := N / d
  let r := N % d
  if 2 * r < d then q else if d < 2 * r then q + 1 else if q % 2 = 0 then q else q + 1

/-- a float as `float(text)` reads it back: the decimal in the file (×10⁻⁶, sign-magnitude) or NaN -/
inductive FVal where
  | dec (d : Dec)
  | nan
  | inf (neg : Bool)
deriving DecidableEq, Repr

/-- the value that stands in the file for `x` -/
def written : FIn → FVal
  | .num neg n d => .dec ⟨neg, round6 n d⟩
  | .nan => .nan
  | .inf neg => .inf neg

def nanStr : Str := ['n', 'a', 'n']
def infStr : Str := ['i', 'n', 'f']
def ninfStr : Str := ['-', 'i', 'n', 'f']

/-- `'{:>w.6f}'.format(x)` -/
def fmtF (w : Nat) (x : FIn) : Str :=
  match written x with
  | .dec d => fmtFixed w 6 d
  | .nan => padL w nanStr
  | .inf neg => padL w (if neg then ninfStr else infStr)

/-- a phase point as far as storage is concerned (text level) -/
structure TFrame where
  dir : Str               -- directory part of `config[0]`
  base : Str              -- os.path.basename(config[0])
  idx : Option Int        -- config[1]; `None` is written as 0
  velRev : Bool
  order : List FIn
  vpot : Option FIn       -- None ↦ nan
  ekin : Option FIn
deriving DecidableEq, Repr

/-- `try: wid = width[i] except IndexError: wid = width[-1]`; `none` = IndexError (empty list) -/
def widthAt (width : List Nat) (i : Nat) : Option Nat :=
  match width[i]? with
  | some w => some w
  | none => width.getLast?

/-- the `for i, col in enumerate(labels)` loop of `_make_header` -/
def headerCols (width : List Nat) : Nat → List Str → Option (List Str)
  | _, [] => some []
  | i, col :: rest =>
    match widthAt width i, headerCols width (i + 1) rest with
    | some wid, some t => some ((if i = 0 then ['#', ' '] ++ padL (wid - 2) col else padL wid col) :: t)
    | _, _ => none

/-- `sep.join(parts)` -/
def joinSep (sep : Str) : List Str → Str
  | [] => []
  | [a] => a
  | a :: b :: t => a ++ sep ++ joinSep sep (b :: t)

/-- `_make_header(labels, width, spacing)` -/
def makeHeader (labels : List Str) (width : List Nat) (spacing : Nat) : Option Str :=
  (headerCols width 0 labels).map (joinSep (List.replicate spacing ' '))

def orDefault (o : Option Str) : Str := match o with | some h => h | none => []

/-- OrderFormatter.__init__: labels Time, Orderp; width [10, 12] -/
def hdrOrder : Str := orDefault (makeHeader [['T', 'i', 'm', 'e'], ['O', 'r', 'd', 'e', 'r', 'p']] [10, 12] 1)
/-- EnergyPathFormatter.HEADER: labels Time, Potential, Kinetic; width [10, 14] -/
def hdrEnergy : Str := orDefault (makeHeader [['T', 'i', 'm', 'e'], ['P', 'o', 't', 'e', 'n', 't', 'i', 'a', 'l'], ['K', 'i', 'n', 'e', 't', 'i', 'c']] [10, 14] 1)
/-- PathExtFormatter.__init__: labels Step, Filename, index, vel; width [10, 20, 10, 5]; spacing 2 -/
def hdrTraj : Str := orDefault (makeHeader [['S', 't', 'e', 'p'], ['F', 'i', 'l', 'e', 'n', 'a', 'm', 'e'], ['i', 'n', 'd', 'e', 'x'], ['v', 'e', 'l']] [10, 20, 10, 5] 2)

/-- `f"# Cycle: {step}, status: ACC"` (traj.txt) / `…, move: {path.generated}` (order.txt, energy.txt) -/
def kwCycle : Str := ['#', ' ', 'C', 'y', 'c', 'l', 'e', ':', ' ']
def kwStatus : Str := [',', ' ', 's', 't', 'a', 't', 'u', 's', ':', ' ', 'A', 'C', 'C']
def kwMove : Str := [',', ' ', 'm', 'o', 'v', 'e', ':', ' ']

def cycleT (step : Nat) (move : Option Str) : Str :=
  kwCycle ++ natDigits step ++ kwStatus ++
    (match move with | none => [] | some m => kwMove ++ m)

/-- `FMT.format(i, filename_short, idx, vel)` -/
def trajRowT (i : Nat) (f : TFrame) : Str :=
  padL 10 (natDigits i) ++ [' ', ' '] ++ padL 20 f.base ++ [' ', ' '] ++ padL 10 (intDigits (idx0 f.idx)) ++
    [' ', ' '] ++ padL 5 (intDigits (if f.velRev then -1 else 1))

/-- `OrderFormatter.format_data(i, phasepoint.order)` -/
def orderRowT (i : Nat) (f : TFrame) : Str :=
  joinSp (padL 10 (natDigits i) :: f.order.map (fmtF 12))

/-- `energy.get(key, None)`; `None` is formatted as `float("nan")` -/
def eIn : Option FIn → FIn
  | some x => x
  | none => .nan

/-- `EnergyFormatter.apply_format(i, {vpot, ekin, etot: None, temp: None})` -/
def energyRowT (i : Nat) (f : TFrame) : Str :=
  joinSp [padL 10 (natDigits i), fmtF 14 (eIn f.vpot), fmtF 14 (eIn f.ekin), fmtF 14 .nan, fmtF 14 .nan]

/-- `for i, phasepoint in enumerate(path.phasepoints): yield row i` -/
def rowsFromT (row : Nat → TFrame → Str) : Nat → List TFrame → List Str
  | _, [] => []
  | i, f :: fs => row i f :: rowsFromT row (i + 1) fs

/-- the lines a formatter yields (`if not path: return` never fires: a Path object is always truthy) -/
def trajLines (step : Nat) (fs : List TFrame) : List Str :=
  cycleT step none :: hdrTraj :: rowsFromT trajRowT 0 fs
def orderLines (step : Nat) (gen : Str) (fs : List TFrame) : List Str :=
  cycleT step (some gen) :: hdrOrder :: rowsFromT orderRowT 0 fs
def energyLines (step : Nat) (gen : Str) (fs : List TFrame) : List Str :=
  cycleT step (some gen) :: hdrEnergy :: rowsFromT energyRowT 0 fs

/-- `_generate_file_names`: source → destination basename, in insertion order -/
def sourcesT : List TFrame → List (Str × Str)
  | [] => []
  | f :: fs =>
    let rest := sourcesT fs
    (f.dir, f.base) :: rest.filter (fun s => s ≠ (f.dir, f.base))

/-- what `PathStorage.output` leaves in `load/<n>/`: the three files as text -/
structure StoredT where
  traj : Str
  order : Str
  energy : Str
  accepted : List Str
  moves : List (Str × Str)
deriving Repr

/-- `PathStorage.output(step, {path, dir})` at text level: each yielded line is written with
    `write(f"{line}\n")`; files from the path given, moved sources and returned path from `path.copy()` -/
def storeT (step : Nat) (gen : Str) (p : PathObj TFrame) : StoredT × PathObj TFrame :=
  let c := p.copy
  ({ traj := unlines (trajLines step p.pts), order := unlines (orderLines step gen p.pts),
     energy := unlines (energyLines step gen p.pts),
     accepted := (sourcesT c.pts).map (·.2), moves := sourcesT c.pts },
   { c with pts := c.pts.map (fun f => { f with dir := ['a', 'c', 'c', 'e', 'p', 't', 'e', 'd'] }) })

/-! ## reading -/

/-- `stripline.startswith("#")` -/
def isCommentT (l : Str) : Bool := (strip l).head? == some '#'

/-- `int(tok)` on the reader domain: `-`? digits -/
def pyInt (s : Str) : Option Int :=
  match s with
  | [] => none
  | c :: t =>
    if c = '-' then (if t = [] then none else (digitsVal t).map (fun n => -(n : Int)))
    else (digitsVal (c :: t)).map (fun n => (n : Int))

/-- `float(tok)` on the reader domain -/
def pyFloat (s : Str) : Option FVal :=
  if s = nanStr then some .nan
  else if s = infStr then some (.inf false)
  else if s = ninfStr then some (.inf true)
  else
    match parseCore 6 s with
    | some d => some (.dec d)
    | none =>
      match s with
      | [] => none
      | c :: t =>
        if c = '-' then (if t = [] then none else (digitsVal t).map (fun n => .dec ⟨true, n * 1000000⟩))
        else (digitsVal (c :: t)).map (fun n => .dec ⟨false, n * 1000000⟩)

def mapOpt {α β : Type} (f : α → Option β) : List α → Option (List β)
  | [] => some []
  | a :: as =>
    match f a, mapOpt f as with
    | some b, some bs => some (b :: bs)
    | _, _ => none

/-- `OutputFormatter.parse(stripline)`: `[int(col) if i == 0 else float(col) for …]`; `none` = ValueError -/
def parseNumT (l : Str) : Option (List FVal) :=
  match splitWs l with
  | [] => some []
  | c0 :: rest =>
    match pyInt c0, mapOpt pyFloat rest with
    | some i, some r => some (.dec ⟨decide (i < 0), i.natAbs * 1000000⟩ :: r)
    | _, _ => none

/-- `PathExtFormatter.parse(stripline)`: `line.split()` -/
def parseStrT (l : Str) : Option (List Str) := some (splitWs l)

/-- `read_some_lines` up to its first `yield`, generic in the line type (the same loop as
    `Infretis.Store.firstBlockGo`): `ncol = none` is the code's −1, `yb` = yield_block, `rc` = read_comment;
    a parsed line is kept only when it is truthy (non-empty) and has `ncol` columns. -/
def blockGo {σ β : Type} (isC : σ → Bool) (parse : σ → Option (List β)) :
    Option Nat → List (List β) → Bool → Bool → List σ → Option (List (List β))
  | _, acc, yb, _, [] => if yb then some acc else none
  | ncol, acc, yb, rc, l :: ls =>
    if isC l then
      if rc then blockGo isC parse ncol acc yb true ls
      else if yb then some acc
      else blockGo isC parse none [] true true ls
    else
      match parse l with
      | none => blockGo isC parse ncol acc yb false ls
      | some d =>
        let nc := match ncol with | none => d.length | some c => c
        if d.length = nc ∧ d ≠ [] then blockGo isC parse (some nc) (acc ++ [d]) true false ls
        else blockGo isC parse ncol acc yb false ls

/-- `next(file.load())` on the text of a file: lines as `for line in fileh` gives them, each stripped -/
def firstBlockT {β : Type} (parse : Str → Option (List β)) (text : Str) : Except Err (List (List β)) :=
  match blockGo isCommentT (fun l => parse (strip l)) none [] false false (pyLines text) with
  | some b => .ok b
  | none => .error .stopIteration

/-- a loaded phase point: `config = (pdir/accepted/<base>, idx)` -/
structure LFrameT where
  base : Str
  idx : Int
  velRev : Bool
  order : List FVal
  vpot : Option FVal      -- Python None when no energy was set
  ekin : Option FVal
deriving DecidableEq, Repr

/-- the `for i, snapshot in enumerate(traj["data"])` loop body of load_path -/
def snapshotT (row : List Str) : Except Err (Str × Int × Bool) :=
  match row with
  | _ :: nm :: ix :: vl :: _ =>
    match pyInt vl with
    | none => .error .value
    | some v =>
      match pyInt ix with
      | none => .error .value
      | some i => .ok (nm, i, v == -1)
  | _ => .error .index

def snapshotsT : List (List Str) → Except Err (List (Str × Int × Bool))
  | [] => .ok []
  | r :: rs =>
    match snapshotT r with
    | .error e => .error e
    | .ok s =>
      match snapshotsT rs with
      | .error e => .error e
      | .ok ss => .ok (s :: ss)

/-- `np.array(rows)[:, 1:]` — IndexError on an empty block -/
def dropFirstColT {β : Type} (rows : List (List β)) : Except Err (List (List β)) :=
  match rows with
  | [] => .error .index
  | _ => .ok (rows.map List.tail)

def zipFramesT : List (Str × Int × Bool) → List (List FVal) → List LFrameT
  | s :: ss, o :: os =>
    { base := s.1, idx := s.2.1, velRev := s.2.2, order := o, vpot := none, ekin := none } :: zipFramesT ss os
  | _, _ => []

/-- `update_energies(ekin, vpot)`: element i or None when the column ran out -/
def setEnergiesT : List LFrameT → List (List FVal) → List LFrameT
  | [], _ => []
  | f :: fs, [] => { f with vpot := none, ekin := none } :: setEnergiesT fs []
  | f :: fs, r :: rs => { f with vpot := r[1]?, ekin := r[2]? } :: setEnergiesT fs rs

/-- `load_path` up to and including `zip(traj["data"], orderdata)`; `none` = the file does not exist -/
def loadFramesT (traj order : Option Str) (files : List Str) : Except Err (List LFrameT) :=
  match traj, order with
  | some tt, some ot =>
    match firstBlockT parseStrT tt with
    | .error e => .error e
    | .ok trows =>
      match snapshotsT trows with
      | .error e => .error e
      | .ok snaps =>
        if ¬ snaps.all (fun s => files.contains s.1) then .error .assert else
        match firstBlockT parseNumT ot with
        | .error e => .error e
        | .ok orows =>
          match dropFirstColT orows with
          | .error e => .error e
          | .ok ords => .ok (zipFramesT snaps ords)
  | _, _ => .error .assert

/-- `_load_energies_for_path(path, pdir)` -/
def loadEnergiesT (energy : Option Str) (fr : List LFrameT) : Except Err (List LFrameT) :=
  match energy with
  | none => .ok fr
  | some et =>
    match firstBlockT parseNumT et with
    | .error e => .error e
    | .ok erows =>
      match erows with
      | [] => .error .index
      | r :: _ => if r.length < 3 then .error .key else .ok (setEnergiesT fr erows)

/-- `load_path(pdir)` on the text of the three files, as a Path object (`Path()` with limit `deflim`) -/
def loadPathT (v : Fill) (deflim : Option Int) (traj order energy : Option Str) (files : List Str) :
    Except Err (PathObj LFrameT) :=
  match loadFramesT traj order files with
  | .error e => .error e
  | .ok fr =>
    let p := fill v (PathObj.empty deflim) fr
    match loadEnergiesT energy p.pts with
    | .error e => .error e
    | .ok pts => .ok { p with pts := pts }

def loadStoredT (v : Fill) (deflim : Option Int) (s : StoredT) : Except Err (PathObj LFrameT) :=
  loadPathT v deflim (some s.traj) (some s.order) (some s.energy) s.accepted

/-- what the property demands of the reloaded frame -/
def expectedT (f : TFrame) : LFrameT :=
  { base := f.base, idx := idx0 f.idx, velRev := f.velRev, order := f.order.map written,
    vpot := some (written (eIn f.vpot)), ekin := some (written (eIn f.ekin)) }

/-- a loaded float handed to a formatter again: the decimal `m·10⁻⁶` is (up to the double nearest to it,
    which prints as the same six decimals for |m| < 10¹⁵) the fraction `m/10⁶` -/
def reIn : FVal → FIn
  | .dec d => .num d.neg d.mag 1000000
  | .nan => .nan
  | .inf neg => .inf neg

/-- a loaded phase point handed to `PathStorage.output` again (stored under a new number) -/
def reframeT (dir : Str) (f : LFrameT) : TFrame :=
  { dir := dir, base := f.base, idx := some f.idx, velRev := f.velRev, order := f.order.map reIn,
    vpot := f.vpot.map reIn, ekin := f.ekin.map reIn }

end Infretis.StoreText
