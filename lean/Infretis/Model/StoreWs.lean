/-
Model for C14 (text level): Python's COMPLETE white-space set and the three `str` methods built on it.

Mirrors CPython's `Py_UNICODE_ISSPACE` (the table behind `str.isspace`, `str.split()` without
argument and `str.strip()` without argument), which is what
  infretis/classes/formatter.py   read_some_lines (`line.strip()`), PathExtFormatter.parse (`line.split()`),
                                  OutputFormatter.parse (`line.split()`)
see of a line of traj.txt / order.txt / energy.txt (the files are opened with encoding utf-8, so the
characters are Unicode code points, not bytes):
  U+0009–000D, U+001C–001F, U+0020, U+0085, U+00A0, U+1680, U+2000–200A, U+2028, U+2029, U+202F,
  U+205F, U+3000                                                   (29 code points; checked against
  `chr(c).isspace()`, `split()` and `strip()` for every code point by the tie on every run).
`Infretis.Codec.isWs` (shared with C19) lists only the ten ASCII ones: a file name holding U+00A0 is
one token for that predicate and two tokens for Python.  The definitions below carry the same names
as the ones in `Infretis.Codec` and are used by `Model/StoreText.lean` instead of them.
No imports: this file is part of the compiled driver.
-/
namespace Infretis.StoreText

/-- `str.isspace()` of one character: the complete set -/
def isWs (c : Char) : Bool :=
  let n := c.toNat
  (9 ≤ n && n ≤ 13) || (28 ≤ n && n ≤ 32) || n == 0x85 || n == 0xA0 || n == 0x1680 ||
  (0x2000 ≤ n && n ≤ 0x200A) || n == 0x2028 || n == 0x2029 || n == 0x202F || n == 0x205F || n == 0x3000

def lstrip (l : List Char) : List Char := l.dropWhile isWs
def rstrip (l : List Char) : List Char := (l.reverse.dropWhile isWs).reverse
/-- `str.strip()` -/
def strip (l : List Char) : List Char := lstrip (rstrip l)

/-- `str.split()` (white-space runs separate tokens, no empty tokens) -/
def splitWs : List Char → List (List Char)
  | [] => []
  | c :: t =>
    if isWs c then splitWs t
    else
      match t with
      | [] => [[c]]
      | d :: _ =>
        if isWs d then [c] :: splitWs t
        else
          match splitWs t with
          | tok :: rest => (c :: tok) :: rest
          | [] => [[c]]

end Infretis.StoreText
