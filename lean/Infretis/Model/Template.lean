import Infretis.Model.Proto
/-
Model of the two line-based input-template editors (C19):

  EngineBase._modify_input        (enginebase.py:412-450)   mdp style  `keyword = value`
  EngineBase._read_input_settings (enginebase.py:452-480)
  lammps.write_for_run            (lammps.py:161-208)       `infretis_*` variable substitution

(the CP2K section-tree editor lives in Model/TemplateCp2k.lean).

`modifyInput` / `writeForRun` mirror the code as it is NOW, i.e. after the repairs eaf64e1
(`_modify_input`), f746fff and 48a6c1e (`write_for_run`) in /repo; the definitions with suffix
`AsIs` mirror the code before eaf64e1 / f746fff, the definitions with suffix `Sub` mirror
`write_for_run` between f746fff and 48a6c1e (substring `str.replace`); both are kept as the RECORD
of the findings.

Text is `List Char` (`Str`), a file is one `Str`; Python's text-mode line iteration is
`linesKeep` (split after every '\n', terminators kept; assumption: no '\r' in the templates,
so universal-newline translation is the identity).  `str.strip/split` and the regular-expression
class `\S` use `isSpace` = Python's `str.isspace` on single characters (all 29 code points,
ASCII and non-ASCII: the three agree in CPython, `Py_UNICODE_ISSPACE`).  Settings are Python dicts in
insertion order: association lists with distinct keys, values already `str()`-ed by the caller.
The delimiter is the character '=' (the only one the engines use; `delim` is interpolated into
a regular expression by the code, which is outside the model for other delimiters).
-/
namespace Infretis.Template

abbrev Str := List Char
abbrev Settings := List (Str × Str)

/-- Python's `str.isspace` on one character (= what `str.split()`, `str.strip()` and the regular
    expression classes `\s` / `\S` of a `str` pattern use): U+0009–000D, 001C–001F, 0020, 0085,
    00A0, 1680, 2000–200A, 2028, 2029, 202F, 205F, 3000 -/
def isSpace (c : Char) : Bool :=
  c = ' ' || c = '\t' || c = '\n' || c = '\r' || c = '\x0b' || c = '\x0c' ||
  c = '\x1c' || c = '\x1d' || c = '\x1e' || c = '\x1f' ||
  c = '\u0085' || c = '\u00a0' || c = '\u1680' ||
  c = '\u2000' || c = '\u2001' || c = '\u2002' || c = '\u2003' || c = '\u2004' || c = '\u2005' ||
  c = '\u2006' || c = '\u2007' || c = '\u2008' || c = '\u2009' || c = '\u200a' ||
  c = '\u2028' || c = '\u2029' || c = '\u202f' || c = '\u205f' || c = '\u3000'

def lstrip : Str → Str
  | [] => []
  | c :: t => if isSpace c then lstrip t else c :: t

def rstrip (s : Str) : Str := (lstrip s.reverse).reverse

def strip (s : Str) : Str := rstrip (lstrip s)

/-- `str.split()` (no argument): maximal runs of non-white-space characters.
    `cur` is the token being collected, reversed. -/
def splitWSGo : Str → Str → List Str
  | cur, [] => if cur.isEmpty then [] else [cur.reverse]
  | cur, c :: t =>
    if isSpace c then
      (if cur.isEmpty then splitWSGo [] t else cur.reverse :: splitWSGo [] t)
    else splitWSGo (c :: cur) t

def splitWS (s : Str) : List Str := splitWSGo [] s

/-- text-mode iteration over a file: pieces end after each '\n'; a last piece without '\n'
    is yielded if non-empty.  `cur` is the piece being collected, reversed. -/
def linesKeepGo : Str → Str → List Str
  | cur, [] => if cur.isEmpty then [] else [cur.reverse]
  | cur, c :: t =>
    if c = '\n' then (c :: cur).reverse :: linesKeepGo [] t else linesKeepGo (c :: cur) t

def linesKeep (s : Str) : List Str := linesKeepGo [] s

def lookup (s : Settings) (k : Str) : Option Str :=
  match s with
  | [] => none
  | (k', v) :: t => if k' = k then some v else lookup t k

def keys (s : Settings) : List Str := s.map (·.1)

/-! ### `_modify_input` -/

/-- `re.compile(r"(.*?)=").match(line)`: group(1) is the text before the first '=', which must
    not be preceded by a '\n' (`.` does not match a newline). -/
def matchKey : Str → Option Str
  | [] => none
  | c :: t =>
    if c = '=' then some []
    else if c = '\n' then none
    else (matchKey t).map (c :: ·)

/-- the line `f"{keyword} {value}\n"` with `keyword = group(1) + "="` -/
def setLine (kw v : Str) : Str := kw ++ '=' :: ' ' :: v ++ ['\n']

/-- the line `f"{key} = {value}\n"` appended for settings not met in the file -/
def newLine (k v : Str) : Str := k ++ ' ' :: '=' :: ' ' :: v ++ ['\n']

/-- one iteration of the loop: what is written, and what is added to `written` -/
def editLine (s : Settings) (line : Str) : Str × Option Str :=
  match matchKey line with
  | none => (line, none)
  | some kw =>
    let k := strip kw
    match lookup s k with
    | some v => (setLine kw v, some k)
    | none => (line, some k)

def editOut (s : Settings) (line : Str) : Str := (editLine s line).1

/-- the keywords (stripped) met in the file = the final `written` set, in file order -/
def writtenKeys (lines : List Str) : List Str :=
  lines.filterMap (fun l => (matchKey l).map strip)

/-- `for key, value in settings.items(): if key not in written: write(...)` -/
def appended (s : Settings) (written : List Str) : List Str :=
  s.filterMap (fun kv => if kv.1 ∈ written then none else some (newLine kv.1 kv.2))

/-- the pieces written to the output file, in order -/
def modifyLinesAsIs (s : Settings) (lines : List Str) : List Str :=
  lines.map (editOut s) ++ appended s (writtenKeys lines)

/-- `_modify_input(source, output, settings, delim="=")` as a function on file contents -/
def modifyInputAsIs (s : Settings) (text : Str) : Str := (modifyLinesAsIs s (linesKeep text)).flatten

/-! ### `_read_input_settings` -/

/-- `line.split("=")[1]`: the text between the first and the second '=' (or the end) -/
def afterFirstEq : Str → Option Str
  | [] => none
  | c :: t => if c = '=' then some (t.takeWhile (· ≠ '=')) else afterFirstEq t

/-- dict update: an existing key keeps its position -/
def dictSet (d : Settings) (k v : Str) : Settings :=
  match d with
  | [] => [(k, v)]
  | (k', v') :: t => if k' = k then (k, v) :: t else (k', v') :: dictSet t k v

def readSettingsLines (d : Settings) : List Str → Settings
  | [] => d
  | l :: t =>
    match matchKey l, afterFirstEq l with
    | some kw, some val => readSettingsLines (dictSet d (strip kw) (strip val)) t
    | _, _ => readSettingsLines d t

def readSettings (text : Str) : Settings := readSettingsLines [] (linesKeep text)

/-! ### `write_for_run` -/

inductive Err | key | value
deriving Repr, DecidableEq

/-- `str.replace(old, new)` for non-empty `old`: leftmost non-overlapping occurrences.
    `skip` = characters of a matched occurrence still to be dropped. -/
def replaceGo (old new : Str) : Nat → Str → Str
  | _, [] => []
  | skip + 1, _ :: t => replaceGo old new skip t
  | 0, c :: t =>
    if old.isPrefixOf (c :: t) then new ++ replaceGo old new (old.length - 1) t
    else c :: replaceGo old new 0 t

/-- `s.replace(old, new)`; for empty `old` Python inserts `new` around every character
    (never reached from `write_for_run`: a token of `split()` is non-empty). -/
def replaceAll (old new s : Str) : Str :=
  if old.isEmpty then new ++ s.flatMap (fun c => c :: new) else replaceGo old new 0 s

/-- the inner `for var in input_settings.keys()` loop on one line.
    `spl` are the tokens of the ORIGINAL line (computed once, before any replacement);
    `nf` is the `not_found` dict (its keys).  `not_found.pop(var)` raises KeyError when the
    variable was already popped while treating an earlier line. -/
def wfrVarsAsIs (spl : List Str) : Settings → Str → List Str → Except Err (Str × List Str)
  | [], line, nf => .ok (line, nf)
  | (var, val) :: rest, line, nf =>
    if var ∈ spl then
      if var ∈ nf then wfrVarsAsIs spl rest (replaceAll var val line) (nf.erase var)
      else .error .key
    else wfrVarsAsIs spl rest line nf

/-- result of `write_for_run`: the pieces that reached the output file and how it ended.
    On KeyError the current line is not written; the ValueError is raised after the whole
    file has been written. -/
structure WfrResult where
  written : List Str
  err : Option Err
deriving Repr, DecidableEq

def wfrLinesAsIs (s : Settings) : List Str → List Str → List Str → WfrResult
  | [], nf, acc => { written := acc.reverse, err := if nf.isEmpty then none else some .value }
  | line :: t, nf, acc =>
    match wfrVarsAsIs (splitWS line) s line nf with
    | .error e => { written := acc.reverse, err := some e }
    | .ok (line', nf') => wfrLinesAsIs s t nf' (line' :: acc)

def writeForRunAsIs (s : Settings) (text : Str) : WfrResult := wfrLinesAsIs s (linesKeep text) (keys s) []

/-- RECORD (code before 48a6c1e) — what a line became when nothing raised: each variable that is a
    token of the original line is substring-replaced, in dict order -/
def substLine (spl : List Str) : Settings → Str → Str
  | [], line => line
  | (var, val) :: rest, line =>
    if var ∈ spl then substLine spl rest (replaceAll var val line) else substLine spl rest line

/-- number of lines on which `k` is a token -/
def occ (k : Str) (lines : List Str) : Nat := (lines.filter (fun l => decide (k ∈ splitWS l))).length

/-! ### the code as it is now (after the repairs f746fff and eaf64e1 in /repo)

The definitions with suffix `AsIs` above mirror the code BEFORE the two repairs; they are kept
as the record of the two findings (`…_asIs_…counterexample` in `Props/C19.lean`) and so that
the tie can name a regression of either repair by its old signature.
  * `_modify_input` (eaf64e1): `to_write` holds the last piece written; before an appended
    setting a "\n" is written when that piece is non-empty and does not end with "\n"
    (only the first appended setting can meet this: an appended line ends with "\n").
  * `write_for_run` (f746fff): `not_found.pop(var, None)` — no KeyError any more (`…Sub`);
    (48a6c1e): the replacement is by whole words (`wfrVars`/`wfrLines`/`writeForRun` further down). -/

/-- `to_write and not to_write.endswith("\n")` for the last piece written by the line loop
    (`to_write = ""` when the template is empty) -/
def needNL (out : List Str) : Bool :=
  match out.getLast? with
  | some p => !p.isEmpty && !(p.getLast? == some '\n')
  | none => false

/-- the pieces written to the output file, in order -/
def modifyLines (s : Settings) (lines : List Str) : List Str :=
  let out := lines.map (editOut s)
  match appended s (writtenKeys lines) with
  | [] => out
  | a :: r => if needNL out then out ++ ['\n'] :: a :: r else out ++ a :: r

/-- `_modify_input(source, output, settings, delim="=")` as a function on file contents -/
def modifyInput (s : Settings) (text : Str) : Str := (modifyLines s (linesKeep text)).flatten

/-- RECORD (code between f746fff and 48a6c1e): the inner loop on one line with `not_found.pop(var, None)` and
    the substring replacement `line.replace(var, value)` -/
def wfrVarsSub (spl : List Str) : Settings → Str → List Str → Str × List Str
  | [], line, nf => (line, nf)
  | (var, val) :: rest, line, nf =>
    if var ∈ spl then wfrVarsSub spl rest (replaceAll var val line) (nf.erase var)
    else wfrVarsSub spl rest line nf

def wfrLinesSub (s : Settings) : List Str → List Str → List Str → WfrResult
  | [], nf, acc => { written := acc.reverse, err := if nf.isEmpty then none else some .value }
  | line :: t, nf, acc =>
    let r := wfrVarsSub (splitWS line) s line nf
    wfrLinesSub s t r.2 (r.1 :: acc)

def writeForRunSub (s : Settings) (text : Str) : WfrResult := wfrLinesSub s (linesKeep text) (keys s) []

/-! ### `write_for_run` as it is now (after 48a6c1e): whole-word replacement

    value = str(input_settings[var])
    line = re.sub(r"(?<!\S)" + re.escape(var) + r"(?!\S)", lambda _m, value=value: value, line)

still inside `if var in spl` (`spl = line.split()` computed once, on the ORIGINAL line), variables in
dict order, every substitution on the CURRENT line, `not_found.pop(var, None)`.  The replacement is a
function, so the value is inserted literally (no back-reference expansion); `re.escape` makes the
variable a literal. -/

/-- `(?!\S)` at the start of the remaining text: nothing follows, or a white-space character -/
def boundaryAt : Str → Bool
  | [] => true
  | c :: _ => isSpace c

/-- `re.sub(r"(?<!\S)" + re.escape(var) + r"(?!\S)", value, line)` for non-empty `var`: scan left to
    right; `b` = the previous character is absent or white space (`(?<!\S)`); where `b` holds, `var` is a
    prefix of the rest and the character after it is absent or white space, emit `val` and skip `var`
    (`skip` = characters of the match still to be dropped), else copy the character.  (The flag is the
    last argument, bound by `fun`, so that it is no discriminant of the pattern match.)  Matches do not
    overlap and the inserted value is not scanned again. -/
def reSubGo (var val : Str) : Nat → Str → Bool → Str
  | _, [] => fun _ => []
  | skip + 1, c :: t => fun _ => reSubGo var val skip t (isSpace c)
  | 0, c :: t => fun b =>
    if b && var.isPrefixOf (c :: t) && boundaryAt ((c :: t).drop var.length) then
      val ++ reSubGo var val (var.length - 1) t (isSpace c)
    else c :: reSubGo var val 0 t (isSpace c)

/-- the whole-word replacement on one line (`var` non-empty: it is a token of `split()`; for the empty
    pattern, never reached, Python would insert at every empty word position) -/
def reSubWord (var val line : Str) : Str := reSubGo var val 0 line true

/-- the inner `for var in input_settings.keys()` loop on one line; `spl` are the tokens of the ORIGINAL line -/
def wfrVars (spl : List Str) : Settings → Str → List Str → Str × List Str
  | [], line, nf => (line, nf)
  | (var, val) :: rest, line, nf =>
    if var ∈ spl then wfrVars spl rest (reSubWord var val line) (nf.erase var)
    else wfrVars spl rest line nf

def wfrLines (s : Settings) : List Str → List Str → List Str → WfrResult
  | [], nf, acc => { written := acc.reverse, err := if nf.isEmpty then none else some .value }
  | line :: t, nf, acc =>
    let r := wfrVars (splitWS line) s line nf
    wfrLines s t r.2 (r.1 :: acc)

def writeForRun (s : Settings) (text : Str) : WfrResult := wfrLines s (linesKeep text) (keys s) []

/-- what a line becomes: each variable that is a word of the original line is whole-word replaced on the
    current line, in dict order -/
def substLineW (spl : List Str) : Settings → Str → Str
  | [], line => line
  | (var, val) :: rest, line =>
    if var ∈ spl then substLineW spl rest (reSubWord var val line) else substLineW spl rest line

/-- the per-line function of `write_for_run` -/
def substOfW (s : Settings) (l : Str) : Str := substLineW (splitWS l) s l

/-- the successive whole-word replacements of a list of variables on a piece of text -/
def chain : Settings → Str → Str
  | [], t => t
  | (k, v) :: r, t => chain r (reSubWord k v t)

/-! ### word-by-word specification of `write_for_run` (what "changes exactly the requested entries" means)

A line is `w0 ++ t₁ ++ w₁ ++ … ++ tₙ ++ wₙ` (leading white space, then words each followed by white space).
The specification replaces a word by the requested value iff the word IS a requested variable and keeps every
other character; a word that merely contains a variable name is kept. -/

def body : List (Str × Str) → Str
  | [] => []
  | tw :: r => tw.1 ++ (tw.2 ++ body r)

def decompGo : Nat → Str → List (Str × Str)
  | 0, _ => []
  | fuel + 1, s =>
    if s.isEmpty then []
    else
      let r := s.dropWhile (fun c => !isSpace c)
      (s.takeWhile (fun c => !isSpace c), r.takeWhile isSpace) :: decompGo fuel (r.dropWhile isSpace)

/-- leading white space and the (token, following white space) pairs of a line -/
def decomp (l : Str) : Str × List (Str × Str) :=
  (l.takeWhile isSpace, decompGo l.length (l.dropWhile isSpace))

/-- a word is replaced iff it is a requested variable -/
def wordOf (s : Settings) (t : Str) : Str :=
  match lookup s t with
  | some v => v
  | none => t

/-- SPEC: the line with exactly the words that are requested variables set to their values -/
def wordsLine (s : Settings) (l : Str) : Str :=
  (decomp l).1 ++ body ((decomp l).2.map (fun tw => (wordOf s tw.1, tw.2)))

/-- SPEC: the whole file, line by line -/
def wordsText (s : Settings) (text : Str) : Str := ((linesKeep text).map (wordsLine s)).flatten

/-- the variables of `s` that are words of the line, in dict order (the only ones `write_for_run` acts on) -/
def onLine (s : Settings) (l : Str) : Settings := s.filter (fun kv => decide (kv.1 ∈ splitWS l))

/-! ### line-protocol handler (ops `mdp…`, `wfr…`) -/
open Infretis.Proto

def toStr (s : String) : Str := s.toList
def ofStr (s : Str) : String := String.ofList s

/-- code points as groups of six hex digits (token `U…`, for text with characters above U+00FF) -/
def parseWide : List Char → Option Str
  | [] => some []
  | a :: b :: c :: d :: e :: f :: t =>
    match hexDigit a, hexDigit b, hexDigit c, hexDigit d, hexDigit e, hexDigit f, parseWide t with
    | some a, some b, some c, some d, some e, some f, some r =>
      some (Char.ofNat (((((a * 16 + b) * 16 + c) * 16 + d) * 16 + e) * 16 + f) :: r)
    | _, _, _, _, _, _, _ => none
  | _ => none

/-- a text token: hex of the Latin-1 bytes (one byte = one character; `-` = empty), or `U` followed by
    six hex digits per code point -/
def parseStr? (t : String) : Option Str :=
  match t.toList with
  | 'U' :: r => parseWide r
  | _ => (unhexStr t).map toStr

def hex6 (n : Nat) : List Char :=
  [hexOfNibble (n / 1048576 % 16), hexOfNibble (n / 65536 % 16), hexOfNibble (n / 4096 % 16),
   hexOfNibble (n / 256 % 16), hexOfNibble (n / 16 % 16), hexOfNibble (n % 16)]

/-- answer token for a text: Latin-1 hex when every character is below U+0100, else the `U` form -/
def showStr (s : Str) : String :=
  if s.all (fun c => c.toNat < 256) then hexStr (ofStr s)
  else String.ofList ('U' :: s.flatMap (fun c => hex6 c.toNat))

/-- settings: `n k₁ v₁ … kₙ vₙ` (hex strings) -/
def takeSettings : List String → Option (Settings × List String)
  | [] => none
  | n :: rest =>
    match parseNat? n with
    | none => none
    | some k =>
      if rest.length < 2 * k then none
      else
        let rec go : Nat → List String → Option Settings
          | 0, _ => some []
          | m + 1, a :: b :: t =>
            match parseStr? a, parseStr? b, go m t with
            | some a, some b, some r => some ((a, b) :: r)
            | _, _, _ => none
          | _ + 1, _ => none
        (go k rest).map (fun s => (s, rest.drop (2 * k)))

def showSettings (d : Settings) : String :=
  toString d.length ++ d.foldl (fun acc kv => acc ++ " " ++ showStr kv.1 ++ " " ++ showStr kv.2) ""

def showErr : Option Err → String
  | none => "ok" | some .key => "err:key" | some .value => "err:value"

def handle (toks : List String) : Option String :=
  match toks with
  | "mdpmodify" :: t :: rest =>
    match parseStr? t, takeSettings rest with
    | some t, some (s, []) => some (showStr (modifyInput s t))
    | _, _ => some "bad-op"
  | "mdpmodifyA" :: t :: rest =>
    match parseStr? t, takeSettings rest with
    | some t, some (s, []) => some (showStr (modifyInputAsIs s t))
    | _, _ => some "bad-op"
  | "wfrA" :: t :: rest =>
    match parseStr? t, takeSettings rest with
    | some t, some (s, []) =>
      let r := writeForRunAsIs s t
      some (showErr r.err ++ " " ++ showStr r.written.flatten)
    | _, _ => some "bad-op"
  | ["mdpread", t] =>
    match parseStr? t with
    | some t => some (showSettings (readSettings t))
    | none => some "bad-op"
  | "wfr" :: t :: rest =>
    match parseStr? t, takeSettings rest with
    | some t, some (s, []) =>
      let r := writeForRun s t
      some (showErr r.err ++ " " ++ showStr r.written.flatten)
    | _, _ => some "bad-op"
  | "wfrS" :: t :: rest =>
    match parseStr? t, takeSettings rest with
    | some t, some (s, []) =>
      let r := writeForRunSub s t
      some (showErr r.err ++ " " ++ showStr r.written.flatten)
    | _, _ => some "bad-op"
  | "wfrwords" :: t :: rest =>
    match parseStr? t, takeSettings rest with
    | some t, some (s, []) => some (showStr (wordsText s t))
    | _, _ => some "bad-op"
  | ["splitws", t] =>
    match parseStr? t with
    | some t => some (showList showStr (splitWS t))
    | none => some "bad-op"
  | _ => none

end Infretis.Template
