/-
Model of the CP2K input editor in infretis/classes/engines/cp2k.py (C19, part "cp2k"):
  SectionNode / dfs_print / set_parents / read_cp2k_input / _add_node / update_node /
  remove_node / update_cp2k_input            (cp2k.py:66-380)

Strings are `List Char` (`Str`) so that every function reduces in the kernel.
Python objects mutated through references are mirrored by an arena: a node is its index in
`St.arena`; `St.roots` is the Python list `nodes`; `St.ref` is the dict `node_ref`
(association list with Python dict semantics: insertion order, overwrite keeps position, pop).

`SectionNode.children` is a Python `set` hashed by identity, so its iteration order is
arbitrary.  The model keeps children in insertion order.  The only places where the code's
behaviour depends on that order are the DFS of `set_parents` (which of several same-path nodes
gets which key) and the sibling order of the printed text.  The tie therefore (a) compares
printed texts as trees up to sibling order and (b) feeds the model a template whose sibling order
is the set order observed in the running Python, or restricts to templates for which the key
assignment cannot depend on the order.

Modelled text alphabet: Unicode code points for white space (`str.strip/split` use Python's complete
`str.isspace` set, `isWs`); `upper()/lower()` = ASCII case maps (Python's full Unicode case mapping is outside the
model: the statements that involve `upper` carry the guard "section titles are ASCII", `asciiStr`), file iteration splits at
`\n` and `\r` (universal newlines; an extra empty line is skipped like any blank line).
Not modelled: aliasing of a `settings` list shared between update entries,
non-string dict values (the harness sends their `str()`).
-/
import Infretis.Model.Proto
namespace Infretis.Cp2k

abbrev Str := List Char

/-- Python exception kinds (rendered as `common.err_kind`) -/
inductive Err | index | attr | key | value | type
deriving DecidableEq, Repr

def Err.show : Err → String
  | .index => "err:index"
  | .attr => "err:other:AttributeError"
  | .key => "err:key"
  | .value => "err:value"
  | .type => "err:type"

/-! ### Python dict as association list -/

def dget {α : Type} (k : Str) : List (Str × α) → Option α
  | [] => none
  | (k', v) :: t => if k' = k then some v else dget k t

/-- `d[k] = v`: overwrite keeps the position, a new key goes last -/
def dset {α : Type} (k : Str) (v : α) : List (Str × α) → List (Str × α)
  | [] => [(k, v)]
  | (k', v') :: t => if k' = k then (k', v) :: t else (k', v') :: dset k v t

def dpop {α : Type} (k : Str) : List (Str × α) → List (Str × α)
  | [] => []
  | (k', v') :: t => if k' = k then t else (k', v') :: dpop k t

/-! ### Python string helpers on `List Char` -/

/-- Python's `str.isspace` on one character — the COMPLETE set (29 code points) that `str.strip()`, `str.split()`
    use on a `str` read with encoding utf-8: U+0009–000D, 001C–001F, 0020, 0085, 00A0, 1680, 2000–200A, 2028, 2029,
    202F, 205F, 3000.  (Until the audit of 2026-09-30 this was the ASCII subset: a data line ending in U+00A0 or a
    keyword containing U+0085 was one stripped token for the model and not for Python — `cp2k_ascii_ws_…` in
    Props/C19.lean keep the record.) -/
def isWs (c : Char) : Bool :=
  c = ' ' || c = '\t' || c = '\n' || c = '\r' || c = '\x0b' || c = '\x0c' ||
  c = '\x1c' || c = '\x1d' || c = '\x1e' || c = '\x1f' ||
  c = '\u0085' || c = '\u00a0' || c = '\u1680' ||
  c = '\u2000' || c = '\u2001' || c = '\u2002' || c = '\u2003' || c = '\u2004' || c = '\u2005' ||
  c = '\u2006' || c = '\u2007' || c = '\u2008' || c = '\u2009' || c = '\u200a' ||
  c = '\u2028' || c = '\u2029' || c = '\u202f' || c = '\u205f' || c = '\u3000'

/-- the ASCII subset the model used before (kept for the record theorems only) -/
def isWsAscii (c : Char) : Bool :=
  c = ' ' || c = '\t' || c = '\n' || c = '\r' || c = '\x0b' || c = '\x0c' ||
  c = '\x1c' || c = '\x1d' || c = '\x1e' || c = '\x1f'

def lstrip (s : Str) : Str := s.dropWhile isWs

/-- `str.strip()` -/
def strip (s : Str) : Str := (lstrip (lstrip s).reverse).reverse

/-- `str.split()`; `acc` is the current token, reversed -/
def splitWsGo : Str → Str → List Str
  | [], acc => if acc = [] then [] else [acc.reverse]
  | c :: t, acc =>
    if isWs c then (if acc = [] then splitWsGo t [] else acc.reverse :: splitWsGo t [])
    else splitWsGo t (c :: acc)

def splitWs (s : Str) : List Str := splitWsGo s []

/-- `line.split()[0]` (none = IndexError) -/
def firstTok (s : Str) : Option Str := (splitWs s).head?

def upper (s : Str) : Str := s.map Char.toUpper

/-- `sep.join(xs)` -/
def join (sep : Str) : List Str → Str
  | [] => []
  | [a] => a
  | a :: b :: t => a ++ sep ++ join sep (b :: t)

def arrow : Str := ['-', '>']

/-- `s.split("->")`; never empty.  `dash` = a '-' has been read and not yet committed. -/
def splitArrowGo : Str → Str → Bool → List Str
  | [], acc, dash => [(if dash then '-' :: acc else acc).reverse]
  | c :: t, acc, dash =>
    if dash then
      if c = '>' then acc.reverse :: splitArrowGo t [] false
      else if c = '-' then splitArrowGo t ('-' :: acc) true
      else splitArrowGo t (c :: '-' :: acc) false
    else if c = '-' then splitArrowGo t acc true
    else splitArrowGo t (c :: acc) false

def splitArrow (s : Str) : List Str := splitArrowGo s [] false

/-- lines of a text file (split at `\n` and `\r`) -/
def splitLinesGo : Str → Str → List Str
  | [], acc => [acc.reverse]
  | c :: t, acc => if c = '\n' || c = '\r' then acc.reverse :: splitLinesGo t [] else splitLinesGo t (c :: acc)

def splitLines (s : Str) : List Str := splitLinesGo s []

/-- `s.lower().startswith("end")` -/
def startsWithEnd (s : Str) : Bool :=
  match s with
  | a :: b :: c :: _ => a.toLower = 'e' && b.toLower = 'n' && c.toLower = 'd'
  | _ => false

/-! ### Nodes -/

structure Node where
  title : Str
  parent : Option Nat
  settings : List Str
  data : List Str
  children : List Nat
  level : Nat
deriving DecidableEq, Repr

structure St where
  arena : List Node
  roots : List Nat
  ref : List (Str × Nat)
deriving DecidableEq, Repr

def modifyAt (a : List Node) (i : Nat) (f : Node → Node) : List Node :=
  match a[i]? with
  | some n => a.set i (f n)
  | none => a

/-! ### read_cp2k_input -/

structure RS where
  arena : List Node
  roots : List Nat
  cur : Option Nat
deriving DecidableEq, Repr

def RS.init : RS := { arena := [], roots := [], cur := none }

/-- one iteration of `for lines in infile` -/
def readLine (rs : RS) (line : Str) : Except Err RS :=
  match strip line with
  | [] => .ok rs
  | c :: rest =>
    if c = '&' then
      if startsWithEnd rest then
        match rs.cur with
        | none => .error .attr                      -- None.parent
        | some cu =>
          match rs.arena[cu]? with
          | some n => .ok { rs with cur := n.parent }
          | none => .error .attr                    -- unreachable
      else
        match splitWs rest with
        | [] => .error .index                       -- strip[0] of "&" alone
        | t :: setts =>
          let id := rs.arena.length
          match rs.cur with
          | none =>
            .ok { arena := rs.arena ++ [{ title := upper t, parent := none, settings := setts, data := [],
                                          children := [], level := 0 }],
                  roots := rs.roots ++ [id], cur := some id }
          | some cu =>
            match rs.arena[cu]? with
            | none => .error .attr                  -- unreachable
            | some p =>
              .ok { arena := (rs.arena.set cu { p with children := p.children ++ [id] }) ++
                               [{ title := upper t, parent := some cu, settings := setts, data := [],
                                  children := [], level := p.level + 1 }],
                    roots := rs.roots, cur := some id }
    else
      match rs.cur with
      | none => .ok rs                              -- data outside any section is dropped
      | some cu => .ok { rs with arena := modifyAt rs.arena cu (fun n => { n with data := n.data ++ [c :: rest] }) }

def readLines : RS → List Str → Except Err RS
  | rs, [] => .ok rs
  | rs, l :: t =>
    match readLine rs l with
    | .error e => .error e
    | .ok rs' => readLines rs' t

def readText (text : Str) : Except Err RS := readLines RS.init (splitLines text)

/-! ### set_parents -/

/-- `get_all_parents`: titles from the root down to node `i` (fuel = arena length) -/
def titlePath (arena : List Node) : Nat → Nat → List Str
  | 0, _ => []
  | f + 1, i =>
    match arena[i]? with
    | none => []
    | some n =>
      match n.parent with
      | none => [n.title]
      | some p => titlePath arena f p ++ [n.title]

def pathKey (arena : List Node) (i : Nat) : Str := join arrow (titlePath arena arena.length i)

def settingsKey (arena : List Node) (i : Nat) : Str :=
  match arena[i]? with
  | some n => join [' '] n.settings
  | none => []

/-- the body of `dfs_set` for one node -/
def register (arena : List Node) (ref : List (Str × Nat)) (i : Nat) : List (Str × Nat) :=
  let par := pathKey arena i
  match dget par ref with
  | some prev =>
    let ref1 := dpop par ref
    let par1 := par ++ arrow ++ settingsKey arena prev
    let par2 := par ++ arrow ++ settingsKey arena i
    dset par2 i (dset par1 prev ref1)
  | none => dset par i ref

/-- `dfs_set`, children in insertion order; fuel bounds the depth -/
def dfsSet (arena : List Node) : Nat → List (Str × Nat) → Nat → List (Str × Nat)
  | 0, ref, _ => ref
  | f + 1, ref, i =>
    match arena[i]? with
    | none => ref
    | some n => n.children.foldl (fun r c => dfsSet arena f r c) (register arena ref i)

def setParents (arena : List Node) (roots : List Nat) : List (Str × Nat) :=
  roots.foldl (fun r i => dfsSet arena arena.length r i) []

def RS.toSt (rs : RS) : St := { arena := rs.arena, roots := rs.roots, ref := setParents rs.arena rs.roots }

/-! ### _add_node / update_node / remove_node -/

def newNode (t : Str) (par : Option Nat) (s d : List Str) (lvl : Nat) : Node :=
  { title := t, parent := par, settings := s, data := d, children := [], level := lvl }

/-- `_add_node`; the target is given as its reversed `split("->")` list.  `s` is the already normalised
    `list(settings) if settings else []`, `d` the already formatted data (`_format_data(data)` for a dict,
    the list itself otherwise); the recursion for a missing parent passes `[]` and `{}` → `[]`. -/
def addNode : List Str → List Str → List Str → St → Except Err St
  | [], _, _, _ => .error .index                    -- unreachable: split never returns []
  | [t], s, d, st =>
    let id := st.arena.length
    .ok { arena := st.arena ++ [newNode t none s d 0], roots := st.roots ++ [id], ref := dset t id st.ref }
  | t :: p :: ps, s, d, st =>
    let par := join arrow (p :: ps).reverse
    let target := join arrow (t :: p :: ps).reverse
    match (if (dget par st.ref).isNone then addNode (p :: ps) [] [] st else .ok st) with
    | .error e => .error e
    | .ok st1 =>
      match dget par st1.ref with
      | none => .error .key
      | some pi =>
        match st1.arena[pi]? with
        | none => .error .attr                      -- unreachable for well-formed states
        | some pn =>
          let id := st1.arena.length
          .ok { arena := (st1.arena.set pi { pn with children := pn.children ++ [id] }) ++
                           [newNode t (some pi) s d (pn.level + 1)],
                roots := st1.roots, ref := dset target id st1.ref }

/-- one entry of the `update` dict.  `data` is the dict in insertion order (value `none` = Python
    `None`); `isList` says that `data` was a Python list of ready lines (entries `(line, none)`). -/
structure Upd where
  target : Str
  /-- `value.get("settings", None)`: `none` = no "settings" entry in the update dict -/
  settings : Option (List Str)
  replace : Bool
  data : List (Str × Option Str)
  isList : Bool
deriving DecidableEq, Repr

/-- one line of `_format_data` (also the lines of both merge loops): `None` gives the bare key.
    For list data the entries are `(line, none)`, so this is the line itself. -/
def fmtEntry (kv : Str × Option Str) : Str :=
  match kv.2 with
  | none => kv.1
  | some x => kv.1 ++ [' '] ++ x

/-- first loop of the merge: rewrite existing lines; returns new lines and `done` -/
def mergeOld (data : List (Str × Option Str)) (isList : Bool) : List Str → Except Err (List Str × List Str)
  | [] => .ok ([], [])
  | line :: t =>
    match firstTok line with
    | none => .error .index
    | some key =>
      match dget key data with
      | some v =>
        if isList then .error .type                 -- list[str]
        else
          match mergeOld data isList t with
          | .error e => .error e
          | .ok (ls, done) => .ok (fmtEntry (key, v) :: ls, key :: done)
      | none =>
        match mergeOld data isList t with
        | .error e => .error e
        | .ok (ls, done) => .ok (line :: ls, done)

/-- second loop of the merge: append the keys not yet done -/
def mergeNew (isList : Bool) (done : List Str) : List (Str × Option Str) → Except Err (List Str)
  | [] => .ok []
  | (k, v) :: t =>
    if k ∈ done then mergeNew isList done t
    else if isList then .error .type
    else
      match mergeNew isList done t with
      | .error e => .error e
      | .ok r => .ok (fmtEntry (k, v) :: r)

def mergeData (u : Upd) (old : List Str) : Except Err (List Str) :=
  match mergeOld u.data u.isList old with
  | .error e => .error e
  | .ok (ls, done) =>
    match mergeNew u.isList done u.data with
    | .error e => .error e
    | .ok app => .ok (ls ++ app)

/-- the settings of a present target after `update_node`: untouched when no settings were requested
    (`settings is None`), replaced in replace mode, else extended by the requested settings that are not
    among the OLD settings (`[i for i in settings if i not in node.settings]`) -/
def newSettings (req : Option (List Str)) (replace : Bool) (old : List Str) : List Str :=
  match req with
  | none => old
  | some s => if replace then s else old ++ s.filter (fun x => decide (x ∉ old))

def updateNode (u : Upd) (st : St) : Except Err St :=
  match dget u.target st.ref with
  | none => addNode (splitArrow u.target).reverse (u.settings.getD []) (u.data.map fmtEntry) st
  | some i =>
    match st.arena[i]? with
    | none => .error .attr                          -- unreachable for well-formed states
    | some n =>
      if u.replace then
        .ok { st with arena := st.arena.set i { n with data := u.data.map (·.1), settings := newSettings u.settings true n.settings } }
      else
        match mergeData u n.data with
        | .error e => .error e
        | .ok nd => .ok { st with arena := st.arena.set i { n with data := nd, settings := newSettings u.settings false n.settings } }

/-- `remove_node`.  The final loop of the code pops node objects (not keys) from `node_ref`,
    which removes nothing: the keys of the removed node's descendants stay. -/
def removeNode (target : Str) (st : St) : Except Err St :=
  match dget target st.ref with
  | none => .ok st
  | some i =>
    let ref' := dpop target st.ref
    match st.arena[i]? with
    | none => .error .attr
    | some n =>
      match n.parent with
      | none =>
        if i ∈ st.roots then .ok { st with roots := st.roots.erase i, ref := ref' } else .error .value
      | some p =>
        match st.arena[p]? with
        | none => .error .attr
        | some pn =>
          if i ∈ pn.children then
            .ok { st with arena := st.arena.set p { pn with children := pn.children.erase i }, ref := ref' }
          else .error .key

def applyUpdates : List Upd → St → Except Err St
  | [], st => .ok st
  | u :: us, st =>
    match updateNode u st with
    | .error e => .error e
    | .ok st' => applyUpdates us st'

def applyRemoves : List Str → St → Except Err St
  | [], st => .ok st
  | r :: rs, st =>
    match removeNode r st with
    | .error e => .error e
    | .ok st' => applyRemoves rs st'

/-! ### dfs_print and the output text -/

def spaces (n : Nat) : Str := List.replicate n ' '

def headerLine (n : Node) : Str :=
  spaces (2 * n.level) ++ ['&'] ++ n.title ++ (if n.settings = [] then [] else ' ' :: join [' '] n.settings)

def endLine (n : Node) : Str := spaces (2 * n.level) ++ ['&', 'E', 'N', 'D', ' '] ++ n.title

/-- `dfs_print`, children in insertion order; fuel bounds the depth -/
def printNode (arena : List Node) : Nat → Nat → List Str
  | 0, _ => []
  | f + 1, i =>
    match arena[i]? with
    | none => []
    | some n =>
      headerLine n :: (n.data.map (fun l => spaces (2 * n.level) ++ [' ', ' '] ++ l)
        ++ n.children.flatMap (fun c => printNode arena f c) ++ [endLine n])

/-- lines written by `update_cp2k_input` (a blank line between root sections) -/
def printLines (arena : List Node) : List Nat → List Str
  | [] => []
  | [r] => printNode arena arena.length r
  | r :: r' :: rs => printNode arena arena.length r ++ [[]] ++ printLines arena (r' :: rs)

def unlines : List Str → Str
  | [] => []
  | l :: t => l ++ ['\n'] ++ unlines t

def printText (st : St) : Str := unlines (printLines st.arena st.roots)

/-- `update_cp2k_input` up to (excluding) the write -/
def updateState (text : Str) (ups : List Upd) (rems : List Str) : Except Err St :=
  match readText text with
  | .error e => .error e
  | .ok rs =>
    match applyUpdates ups rs.toSt with
    | .error e => .error e
    | .ok st1 => applyRemoves rems st1

def updateInput (text : Str) (ups : List Upd) (rems : List Str) : Except Err Str :=
  match updateState text ups rems with
  | .error e => .error e
  | .ok st => .ok (printText st)

/-! ### write_for_run_vel (cp2k.py:601-664): the edit the engine makes before every CP2K run

Numbers arrive as the text Python prints for them: `nsteps * subcycles` and `print_freq` are Python ints (`toString`
of an `Int` is the same decimal text); `timestep` (`str(float)`) and the velocity components
(`f"{veli[0]}"` of a numpy float64) are opaque strings — float formatting is outside the model. -/

/-- a Python list of ready lines as `Upd.data` -/
def listData (ls : List Str) : List (Str × Option Str) := ls.map (fun l => (l, none))

def intStr (i : Int) : Str := (toString i).toList

/-- one line `vx vy vz` of the VELOCITY section -/
def velLine (v : Str × Str × Str) : Str := v.1 ++ [' '] ++ v.2.1 ++ [' '] ++ v.2.2

/-- the `to_update` dict, in insertion order; `printFreq = none` is `print_freq is None` (→ `subcycles`) -/
def wfrVelUpdates (name timestep posfile : Str) (nsteps subcycles : Int) (printFreq : Option Int)
    (vel : List (Str × Str × Str)) : List Upd :=
  let pf : Str := intStr (printFreq.getD subcycles)
  [ { target := "GLOBAL".toList, settings := none, replace := true, isList := true,
      data := listData ["PROJECT ".toList ++ name, "RUN_TYPE MD".toList, "PRINT_LEVEL LOW".toList] },
    { target := "MOTION->MD".toList, settings := none, replace := false, isList := false,
      data := [("STEPS".toList, some (intStr (nsteps * subcycles))), ("TIMESTEP".toList, some timestep)] },
    { target := "MOTION->PRINT->RESTART".toList, settings := none, replace := true, isList := true,
      data := listData ["BACKUP_COPIES 0".toList] },
    { target := "MOTION->PRINT->RESTART->EACH".toList, settings := none, replace := false, isList := false,
      data := [("MD".toList, some pf)] },
    { target := "MOTION->PRINT->VELOCITIES->EACH".toList, settings := none, replace := false, isList := false,
      data := [("MD".toList, some pf)] },
    { target := "MOTION->PRINT->TRAJECTORY->EACH".toList, settings := none, replace := false, isList := false,
      data := [("MD".toList, some pf)] },
    { target := "FORCE_EVAL->SUBSYS->TOPOLOGY".toList, settings := none, replace := false, isList := false,
      data := [("COORD_FILE_NAME".toList, some posfile), ("COORD_FILE_FORMAT".toList, some "xyz".toList)] },
    { target := "FORCE_EVAL->SUBSYS->VELOCITY".toList, settings := none, replace := true, isList := true,
      data := listData (vel.map velLine) },
    { target := "FORCE_EVAL->DFT->SCF->PRINT->RESTART".toList, settings := none, replace := true, isList := true,
      data := listData ["BACKUP_COPIES 0".toList] } ]

def wfrVelRemoves : List Str := ["EXT_RESTART".toList, "FORCE_EVAL->SUBSYS->COORD".toList]

/-- `write_for_run_vel(infile, outfile, timestep, nsteps, subcycles, posfile, vel, name, print_freq)` as a function
    from the template text to the text of the run input -/
def writeForRunVel (text name timestep posfile : Str) (nsteps subcycles : Int) (printFreq : Option Int)
    (vel : List (Str × Str × Str)) : Except Err Str :=
  updateInput text (wfrVelUpdates name timestep posfile nsteps subcycles printFreq vel) wfrVelRemoves

/-! ### Section trees up to sibling order -/

inductive Tree where
  | node (title : Str) (settings : List Str) (data : List Str) (children : List Tree)
deriving Repr

def strLt : Str → Str → Bool
  | [], [] => false
  | [], _ :: _ => true
  | _ :: _, [] => false
  | a :: s, b :: t => if a.toNat < b.toNat then true else if b.toNat < a.toNat then false else strLt s t

def hexNib (n : Nat) : Char := Infretis.Proto.hexOfNibble n

/-- hex of the (ASCII) characters, "-" for the empty string: one token without blanks -/
def hexOf (s : Str) : Str :=
  if s = [] then ['-'] else s.flatMap (fun c => [hexNib (c.toNat / 16 % 16), hexNib (c.toNat % 16)])

def natStr (n : Nat) : Str := Nat.toDigits 10 n

def serList (xs : List Str) : Str := natStr xs.length ++ xs.flatMap (fun x => ' ' :: hexOf x)

def insertKeyed (x : Str × Tree) : List (Str × Tree) → List (Str × Tree)
  | [] => [x]
  | y :: t => if strLt y.1 x.1 then y :: insertKeyed x t else x :: y :: t

mutual
/-- order-preserving serialisation -/
def Tree.ser : Tree → Str
  | .node t s d cs =>
    ['('] ++ hexOf t ++ [' '] ++ serList s ++ [' '] ++ serList d ++ [' '] ++ natStr (lenT cs) ++ serTs cs ++ [')']
def serTs : List Tree → Str
  | [] => []
  | c :: cs => ' ' :: (c.ser ++ serTs cs)
def lenT : List Tree → Nat
  | [] => 0
  | _ :: cs => lenT cs + 1
end

mutual
/-- canonical form: children sorted (insertion sort, stable) by the serialisation of their
    canonical forms, recursively -/
def Tree.canon : Tree → Tree
  | .node t s d cs => .node t s d ((canonKeyed cs).map (·.2))
def canonKeyed : List Tree → List (Str × Tree)
  | [] => []
  | c :: cs => insertKeyed ((c.canon).ser, c.canon) (canonKeyed cs)
end

/-- canonical string of a tree -/
def Tree.cstr (t : Tree) : Str := t.canon.ser

/-- equality up to sibling order -/
def Tree.equiv (a b : Tree) : Prop := a.cstr = b.cstr

instance (a b : Tree) : Decidable (Tree.equiv a b) := inferInstanceAs (Decidable (a.cstr = b.cstr))

/-- the subtree below arena node `i` (fuel bounds the depth) -/
def toTree (arena : List Node) : Nat → Nat → Tree
  | 0, _ => .node [] [] [] []
  | f + 1, i =>
    match arena[i]? with
    | none => .node [] [] [] []
    | some n => .node n.title n.settings n.data (n.children.map (fun c => toTree arena f c))

def toForest (arena : List Node) (roots : List Nat) : List Tree := roots.map (toTree arena arena.length)

/-- canonical string of a forest: root order is kept (it is a Python list), sibling order is not -/
def forestStr (ts : List Tree) : Str := natStr ts.length ++ ts.flatMap (fun t => ' ' :: t.cstr)

def forestEquiv (a b : List Tree) : Prop := a.map Tree.cstr = b.map Tree.cstr

/-! ### the printer on section trees (specification) and the trees a printed text is read back from

`printTree lvl t` prints a tree as `dfs_print` prints the node it came from (children in list order); `Tree.ok` are the
trees whose printed text is read back unchanged: the title is one upper-case token that does not start with "END",
the section parameters are tokens, the data lines are stripped, non-empty, without line breaks and do not start with
'&'.  Every tree the reader builds is of this kind, unless a header is written `& END…` (white space after the '&'
and a name starting with "end": the reader opens a section called END…) — checked on every run by the tie through
op `cp2kspec`. -/

mutual
def printTree (lvl : Nat) : Tree → List Str
  | .node t s d cs =>
    (spaces (2 * lvl) ++ ['&'] ++ t ++ (if s = [] then [] else ' ' :: join [' '] s))
      :: (d.map (fun l => spaces (2 * lvl) ++ [' ', ' '] ++ l) ++ (printTrees (lvl + 1) cs
          ++ [spaces (2 * lvl) ++ ['&', 'E', 'N', 'D', ' '] ++ t]))
def printTrees (lvl : Nat) : List Tree → List Str
  | [] => []
  | c :: cs => printTree lvl c ++ printTrees lvl cs
end

/-- lines written for a forest (a blank line between root sections), as `printLines` does for a state -/
def printForest : List Tree → List Str
  | [] => []
  | [r] => printTree 0 r
  | r :: r' :: rs => printTree 0 r ++ [[]] ++ printForest (r' :: rs)

def tokOk (k : Str) : Bool := !k.isEmpty && k.all (fun c => !isWs c)

/-- a data line as the reader stores it: stripped, non-empty, no line break inside, not a section line -/
def dataOk (l : Str) : Bool :=
  match l with
  | [] => false
  | c :: _ => !isWs c && c != '&' && (match l.getLast? with | some z => !isWs z | none => false) &&
              l.all (fun x => x != '\n' && x != '\r')

/-- every character is ASCII: on such a title the model's `upper` (ASCII case map) IS Python's `str.upper()`
    (`'é'.upper() = 'É'`, `'ß'.upper() = 'SS'` are outside the model) -/
def asciiStr (s : Str) : Bool := s.all (fun c => c.toNat < 128)

mutual
def Tree.ok : Tree → Bool
  | .node t s d cs => tokOk t && asciiStr t && upper t == t && !startsWithEnd t && s.all tokOk && d.all dataOk && okTs cs
def okTs : List Tree → Bool
  | [] => true
  | c :: cs => c.ok && okTs cs
end

/-! ### line-protocol handler

Tokens: `str` = hex of the ASCII text or "-" (empty); `list<T>` = n T₁ … Tₙ.
  upd   := str(target) ('0'|'1')(replace) ('0'|'1')(isList) sett n {str(key) val}ⁿ
  sett  := 'n' (no "settings" entry) | 's' list<str>
  val   := 'N' | 'V'str
  cp2kread     str(text)                         → canonical forest | err:…
  cp2krefkeys  str(text)                         → sorted `hex(key)=canonical subtree` list | err:…
  cp2kupdate   str(text) list<upd> list<str>     → canonical forest of the RE-READ output text | err:… | reread-err:…
  cp2kstate    str(text) list<upd> list<str>     → canonical forest of the final state (no print/read) | err:…
  cp2ktext     str(text) list<upd> list<str>     → hex of the output text | err:…
  cp2ktwice    str(text) list<upd> list<str>     → as cp2kupdate, the edit applied again to the output text
  cp2kspec     str(text)                         → `ok|not-ok same|differs`: are all parsed trees `Tree.ok`, and is
                                                   `printText` of the parsed state = `printForest` of its forest
  cp2kwfrvel   str(text) str(name) str(timestep) str(posfile) int(nsteps) int(subcycles) ('N'|int)(print_freq)
               list<str>(velocity components, three per atom)
                                                 → canonical forest of the re-read run input of write_for_run_vel,
                                                   then the same for a second application to that run input
-/
open Infretis.Proto in
def parseStr (s : String) : Option Str := (unhexStr s).map String.toList

open Infretis.Proto in
def parseVal (s : String) : Option (Option Str) :=
  match s.toList with
  | ['N'] => some none
  | 'V' :: r => (parseStr (String.ofList r)).map some
  | _ => none

def parsePairs : Nat → List String → Option (List (Str × Option Str) × List String)
  | 0, rest => some ([], rest)
  | n + 1, k :: v :: rest =>
    match parseStr k, parseVal v, parsePairs n rest with
    | some k, some v, some (ps, rest') => some ((k, v) :: ps, rest')
    | _, _, _ => none
  | _ + 1, _ => none

open Infretis.Proto in
def parseUpd : List String → Option (Upd × List String)
  | tgt :: rep :: isl :: sflag :: rest =>
    let sett : Option (Option (List Str) × List String) :=
      if sflag = "n" then some (none, rest)
      else if sflag = "s" then (takeList parseStr rest).map (fun r => (some r.1, r.2))
      else none
    match parseStr tgt, sett with
    | some tgt, some (setts, nd :: rest1) =>
      match parseNat? nd with
      | some nd =>
        match parsePairs nd rest1 with
        | some (ps, rest2) =>
          some ({ target := tgt, settings := setts, replace := rep = "1", data := ps, isList := isl = "1" }, rest2)
        | none => none
      | none => none
    | _, _ => none
  | _ => none

def parseUpds : Nat → List String → Option (List Upd × List String)
  | 0, rest => some ([], rest)
  | n + 1, rest =>
    match parseUpd rest with
    | some (u, rest1) =>
      match parseUpds n rest1 with
      | some (us, rest2) => some (u :: us, rest2)
      | none => none
    | none => none

open Infretis.Proto in
def parseEdit : List String → Option (Str × List Upd × List Str)
  | text :: nu :: rest =>
    match parseStr text, parseNat? nu with
    | some text, some nu =>
      match parseUpds nu rest with
      | some (us, rest1) =>
        match takeList parseStr rest1 with
        | some (rems, []) => some (text, us, rems)
        | _ => none
      | none => none
    | _, _ => none
  | _ => none

def insertStr (x : Str) : List Str → List Str
  | [] => [x]
  | y :: t => if strLt y x then y :: insertStr x t else x :: y :: t

def sortStrs (xs : List Str) : List Str := xs.foldr insertStr []

def rereadStr (text : Str) : String :=
  match readText text with
  | .error e => "reread-" ++ e.show
  | .ok rs => String.ofList (forestStr (toForest rs.arena rs.roots))

def handle (toks : List String) : Option String :=
  match toks with
  | ["cp2kread", text] =>
    match parseStr text with
    | some text =>
      match readText text with
      | .error e => some e.show
      | .ok rs => some (String.ofList (forestStr (toForest rs.arena rs.roots)))
    | none => some "bad-op"
  | ["cp2krefkeys", text] =>
    match parseStr text with
    | some text =>
      match readText text with
      | .error e => some e.show
      | .ok rs =>
        let st := rs.toSt
        let items := st.ref.map (fun kv => hexOf kv.1 ++ ['='] ++ (toTree st.arena st.arena.length kv.2).cstr)
        some (String.ofList (join [' '] (natStr items.length :: sortStrs items)))
    | none => some "bad-op"
  | "cp2kupdate" :: rest =>
    match parseEdit rest with
    | some (text, us, rems) =>
      match updateInput text us rems with
      | .error e => some e.show
      | .ok out => some (rereadStr out)
    | none => some "bad-op"
  | "cp2kstate" :: rest =>
    match parseEdit rest with
    | some (text, us, rems) =>
      match updateState text us rems with
      | .error e => some e.show
      | .ok st => some (String.ofList (forestStr (toForest st.arena st.roots)))
    | none => some "bad-op"
  | "cp2ktext" :: rest =>
    match parseEdit rest with
    | some (text, us, rems) =>
      match updateInput text us rems with
      | .error e => some e.show
      | .ok out => some (String.ofList (hexOf out))
    | none => some "bad-op"
  | ["cp2kspec", text] =>
    -- is every tree of the parsed text `Tree.ok`, and does the arena printer agree with the tree printer?
    match parseStr text with
    | some text =>
      match readText text with
      | .error e => some e.show
      | .ok rs =>
        let st := rs.toSt
        let f := toForest st.arena st.roots
        some ((if okTs f then "ok" else "not-ok") ++ " " ++
              (if printText st = unlines (printForest f) then "same" else "differs"))
    | none => some "bad-op"
  | "cp2kwfrvel" :: text :: name :: ts :: posf :: nsteps :: subc :: pf :: rest =>
    -- cp2kwfrvel str(text) str(name) str(timestep) str(posfile) int int ('N'|int) list<str>(3 per atom)
    match parseStr text, parseStr name, parseStr ts, parseStr posf, Infretis.Proto.parseInt? nsteps,
          Infretis.Proto.parseInt? subc, (if pf = "N" then some none else (Infretis.Proto.parseInt? pf).map some),
          Infretis.Proto.takeList parseStr rest with
    | some text, some name, some ts, some posf, some nsteps, some subc, some pf, some (comps, []) =>
      let rec triples : List Str → Option (List (Str × Str × Str))
        | [] => some []
        | a :: b :: c :: t => (triples t).map (fun r => (a, b, c) :: r)
        | _ => none
      match triples comps with
      | none => some "bad-op"
      | some vel =>
        match writeForRunVel text name ts posf nsteps subc pf vel with
        | .error e => some e.show
        | .ok out =>
          -- the run input re-read (canonical forest), and the same after a second application to the output
          match writeForRunVel out name ts posf nsteps subc pf vel with
          | .error e => some (rereadStr out ++ " | second-" ++ e.show)
          | .ok out2 => some (rereadStr out ++ " | " ++ rereadStr out2)
    | _, _, _, _, _, _, _, _ => some "bad-op"
  | "cp2ktwice" :: rest =>
    match parseEdit rest with
    | some (text, us, rems) =>
      match updateInput text us rems with
      | .error e => some e.show
      | .ok out =>
        match updateInput out us rems with
        | .error e => some ("second-" ++ e.show)
        | .ok out2 => some (rereadStr out2)
    | none => some "bad-op"
  | _ => none

end Infretis.Cp2k
