import Infretis.Model.TemplateCp2k
/-
C19 — the `repaired` variant of the CP2K editor for the OPEN finding C19:cp2k:wfrvel:keyword-case.

`Model/TemplateCp2k.lean` is the `asIs` variant (the code as it is): `update_node` finds the entry to rewrite by
`key = line.split()[0]; if key in data`, a literal comparison, while CP2K reads keywords case-insensitively.  The
repaired variant differs at exactly that spot:

    wanted = {str(k).upper(): k for k in data}          # keys distinct up to case (else the first one wins here)
    for line in node.data:
        key = line.split()[0]
        k = wanted.get(key.upper())
        if k is not None:
            new_data.append(str(k) if data[k] is None else f"{k} {data[k]}")      # the REQUESTED spelling
            done.add(k)
        else:
            new_data.append(line)
    (second loop, replace mode, section parameters, _add_node: unchanged)

Decision: the rewritten line carries the REQUESTED spelling of the keyword (not the template's): the line then starts
with the requested key, a second application is the literal-match case, and the output no longer depends on how the
template spelt the keyword.  `upper` is the ASCII case map (CP2K keywords are ASCII).  Everything else (`addNode`,
`newSettings`, `removeNode`, printing) is shared with the `asIs` model.
-/
namespace Infretis.Cp2k

/-- `wanted.get(key.upper())`: the first requested entry whose key equals `key` up to case -/
def dgetCI (key : Str) : List (Str × Option Str) → Option (Str × Option Str)
  | [] => none
  | kv :: t => if upper kv.1 = upper key then some kv else dgetCI key t

/-- first loop of the merge, repaired: a line whose keyword is requested (up to case) is rewritten with the requested
    spelling and value -/
def mergeOldR (data : List (Str × Option Str)) (isList : Bool) : List Str → Except Err (List Str × List Str)
  | [] => .ok ([], [])
  | line :: t =>
    match firstTok line with
    | none => .error .index
    | some key =>
      match dgetCI key data with
      | some kv =>
        if isList then .error .type
        else
          match mergeOldR data isList t with
          | .error e => .error e
          | .ok (ls, done) => .ok (fmtEntry kv :: ls, kv.1 :: done)
      | none =>
        match mergeOldR data isList t with
        | .error e => .error e
        | .ok (ls, done) => .ok (line :: ls, done)

def mergeDataR (u : Upd) (old : List Str) : Except Err (List Str) :=
  match mergeOldR u.data u.isList old with
  | .error e => .error e
  | .ok (ls, done) =>
    match mergeNew u.isList done u.data with
    | .error e => .error e
    | .ok app => .ok (ls ++ app)

def updateNodeR (u : Upd) (st : St) : Except Err St :=
  match dget u.target st.ref with
  | none => addNode (splitArrow u.target).reverse (u.settings.getD []) (u.data.map fmtEntry) st
  | some i =>
    match st.arena[i]? with
    | none => .error .attr
    | some n =>
      if u.replace then
        .ok { st with arena := st.arena.set i { n with data := u.data.map (·.1), settings := newSettings u.settings true n.settings } }
      else
        match mergeDataR u n.data with
        | .error e => .error e
        | .ok nd => .ok { st with arena := st.arena.set i { n with data := nd, settings := newSettings u.settings false n.settings } }

def applyUpdatesR : List Upd → St → Except Err St
  | [], st => .ok st
  | u :: us, st =>
    match updateNodeR u st with
    | .error e => .error e
    | .ok st' => applyUpdatesR us st'

def updateStateR (text : Str) (ups : List Upd) (rems : List Str) : Except Err St :=
  match readText text with
  | .error e => .error e
  | .ok rs =>
    match applyUpdatesR ups rs.toSt with
    | .error e => .error e
    | .ok st1 => applyRemoves rems st1

def updateInputR (text : Str) (ups : List Upd) (rems : List Str) : Except Err Str :=
  match updateStateR text ups rems with
  | .error e => .error e
  | .ok st => .ok (printText st)

def writeForRunVelR (text name timestep posfile : Str) (nsteps subcycles : Int) (printFreq : Option Int)
    (vel : List (Str × Str × Str)) : Except Err Str :=
  updateInputR text (wfrVelUpdates name timestep posfile nsteps subcycles printFreq vel) wfrVelRemoves

/-! ### line protocol: the ops of `Model/TemplateCp2k.lean` with suffix `R` (same tokens, same answers) -/

def handleR (toks : List String) : Option String :=
  match toks with
  | "cp2kupdateR" :: rest =>
    match parseEdit rest with
    | some (text, us, rems) =>
      match updateInputR text us rems with
      | .error e => some e.show
      | .ok out => some (rereadStr out)
    | none => some "bad-op"
  | "cp2ktextR" :: rest =>
    match parseEdit rest with
    | some (text, us, rems) =>
      match updateInputR text us rems with
      | .error e => some e.show
      | .ok out => some (String.ofList (hexOf out))
    | none => some "bad-op"
  | "cp2kwfrvelR" :: text :: name :: ts :: posf :: nsteps :: subc :: pf :: rest =>
    match parseStr text, parseStr name, parseStr ts, parseStr posf, Infretis.Proto.parseInt? nsteps,
          Infretis.Proto.parseInt? subc, (if pf = "N" then some none else (Infretis.Proto.parseInt? pf).map some),
          Infretis.Proto.takeList parseStr rest with
    | some text, some name, some ts, some posf, some nsteps, some subc, some pf, some (comps, []) =>
      let rec triples : List Str → Option (List (Str × Str × Str))
        | [] => some []
        | a :: b :: c :: t => (triples t).map (fun r => (a, b, c) :: r)
        | _ => none
      match triples comps with
      | none => some "bad-op"
      | some vel =>
        match writeForRunVelR text name ts posf nsteps subc pf vel with
        | .error e => some e.show
        | .ok out =>
          match writeForRunVelR out name ts posf nsteps subc pf vel with
          | .error e => some (rereadStr out ++ " | second-" ++ e.show)
          | .ok out2 => some (rereadStr out ++ " | " ++ rereadStr out2)
    | _, _, _, _, _, _, _, _ => some "bad-op"
  | _ => none

end Infretis.Cp2k
