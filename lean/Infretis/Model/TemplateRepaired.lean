import Infretis.Model.Template
/-
C19 — the `repaired` variant of `EngineBase._modify_input` for the OPEN finding C19:mdp:dash-underscore-key.

`Model/Template.lean` (`modifyInput`) is the `asIs` variant: the keyword of a template line and the requested keys are
compared literally, while GROMACS reads `-` and `_` in a parameter name alike.  The repaired variant differs at exactly
that spot — names are compared after `norm = lambda k: k.replace("-", "_")`:

    wanted = {norm(k): k for k in settings}             # keys distinct up to norm (else the first one wins here)
    …
        keyword_strip = match.group(1).strip()
        if norm(keyword_strip) in wanted:
            to_write = f"{keyword} {settings[wanted[norm(keyword_strip)]]}\n"       # the TEMPLATE's spelling is kept
        written.add(norm(keyword_strip))
    …
    for key, value in settings.items():
        if norm(key) not in written: … append `key = value`

Decision: the rewritten line keeps the template's own text before the delimiter (as the code does for a literal match);
only dash/underscore are normalised, not case (the finding is about `-`/`_`; GROMACS also ignores case, a repair may
add that — on the inputs of the tie the two are indistinguishable).  Newline handling (`needNL`) is shared.
-/
namespace Infretis.Template

/-- `k.replace("-", "_")` -/
def normKey (k : Str) : Str := k.map (fun c => if c = '-' then '_' else c)

/-- the value requested for a template keyword: the first setting whose key equals it up to `normKey` -/
def lookupN (s : Settings) (k : Str) : Option Str :=
  match s with
  | [] => none
  | (k', v) :: t => if normKey k' = normKey k then some v else lookupN t k

def editLineR (s : Settings) (line : Str) : Str × Option Str :=
  match matchKey line with
  | none => (line, none)
  | some kw =>
    let k := strip kw
    match lookupN s k with
    | some v => (setLine kw v, some (normKey k))
    | none => (line, some (normKey k))

def editOutR (s : Settings) (line : Str) : Str := (editLineR s line).1

/-- the normalised keywords met in the file -/
def writtenKeysR (lines : List Str) : List Str :=
  lines.filterMap (fun l => (matchKey l).map (fun kw => normKey (strip kw)))

def appendedR (s : Settings) (written : List Str) : List Str :=
  s.filterMap (fun kv => if normKey kv.1 ∈ written then none else some (newLine kv.1 kv.2))

def modifyLinesR (s : Settings) (lines : List Str) : List Str :=
  let out := lines.map (editOutR s)
  match appendedR s (writtenKeysR lines) with
  | [] => out
  | a :: r => if needNL out then out ++ ['\n'] :: a :: r else out ++ a :: r

def modifyInputR (s : Settings) (text : Str) : Str := (modifyLinesR s (linesKeep text)).flatten

/-- op `mdpmodifyR`: same tokens and answer as `mdpmodify` -/
def handleR (toks : List String) : Option String :=
  match toks with
  | "mdpmodifyR" :: t :: rest =>
    match parseStr? t, takeSettings rest with
    | some t, some (s, []) => some (showStr (modifyInputR s t))
    | _, _ => some "bad-op"
  | _ => none

end Infretis.Template
