/-
Model of velocity regeneration at a shooting point (C16):

  EngineBase.draw_maxwellian_velocities        enginebase.py:633-662
  kinetic_energy / reset_momentum              cp2k.py:539-577 (imported by gromacs, lammps, turtlemd)
  guess_particle_mass, CP2KEngine.__init__     cp2k.py:501-536, 699-731 (mass, kb, beta)
  CP2KEngine.modify_velocities                 cp2k.py:1053-1102
  LAMMPSEngine.__init__/modify_velocities      lammps.py:400-405, 600-652
  GromacsEngine.__init__/modify_velocities     gromacs.py:188-207, 649-711 (infretis_genvel branch)
  ASEEngine.modify_velocities                  ase_engine.py:210-245 (+ ase.md.velocitydistribution)
  TurtleMDEngine.modify_velocities             turtlemdengine.py:335-376
  prepare_shooting_point / System.copy         tis.py:727-759, system.py:32-35

Numbers are core `Rat`.  `sqrt` stays outside: the model computes the *square* of every scale
that the code passes to the generator (σᵢ² = (1/β)·(1/mᵢ)); the value σᵢ itself is an explicit
argument `sig` (what `np.sqrt` returned) and the theorems carry `sigᵢ² = σᵢ²` as a hypothesis.
The Gaussian draw is an explicit argument `z` (standard normals): numpy's
`normal(loc=0, scale=σ, size)` returns `loc + σ·z`, so velocities are `σᵢ·zᵢⱼ` followed by the
transformations of the code.

Arrays of shape (npart, dim) are stored *by columns* (`List` of `dim` columns with `npart`
entries each): every numpy operation used by the code (`vel * mass`, `np.sum(.., axis=0)`,
`vel -= mom / mass.sum()`, the trace of `einsum('ij,ik->jk')`) acts column by column.
Masses are rationals here; in the code they are numpy arrays whose dtype follows the user's input
(an all-integer `mass = [2, 16]` gives an int64 array for GROMACS `masses` / TurtleMD
`particles.mass`).  The model has no dtype, so the code must not depend on it (`1 / mass` is true
division; an integer reciprocal would give σ = 0): the tie feeds float, int and int64 mass lists.
No imports: this file is compiled into the driver.
-/
namespace Infretis.Vel

/-! ### the constants of the code, as the decimal literals written there -/

/-- gromacs.py:189 `self.kb = 0.0083144621  # kJ/(K*mol)` -/
def kbGromacs : Rat := 83144621 / 10000000000
/-- cp2k.py:730 `self.kb = 3.16681534e-6  # hartree` -/
def kbCp2k : Rat := 316681534 / 100000000000000
/-- lammps.py:404 `self.kb = 1.987204259e-3  # kcal/(mol*K)` -/
def kbLammps : Rat := 1987204259 / 1000000000000
/-- ase_engine.py:90 `self.kb = 8.61733326e-5  # eV/K` (used for `beta` only, not for the draw) -/
def kbAseEngine : Rat := 861733326 / 10000000000000
/-- ase.units.kB = _k / _e with ase's default CODATA 2014 table
    (`_k = 1.38064852e-23`, `_e = 1.6021766208e-19`): what MaxwellBoltzmannDistribution uses. -/
def kbAseUnits : Rat := (138064852 / 100) / 16021766208
/-- cp2k.py:529 `particle_mass = 1822.8884858012982 * mass` -/
def cp2kMassFactor : Rat := 18228884858012982 / 10000000000000
/-- lammps.py:627 `scale = 48.88821290839617` -/
def lammpsScale : Rat := 4888821290839617 / 100000000000000

inductive Engine | gromacs | cp2k | lammps | ase | turtlemd
deriving Repr, DecidableEq

/-- defect switch (DESIGN §3): `asIs` mirrors the code today, `repaired` what a fix would do -/
inductive Variant | asIs | repaired
deriving Repr, DecidableEq

/-- the variant of both ASE spots that /repo has since commit 1dd0318
    (`MaxwellBoltzmannDistribution(..., rng=self.rgen)`, `kin_new` after `Stationary`) -/
def codeVariant : Variant := .repaired

/-- What an engine instance knows (constructor arguments / input files). -/
structure Setup where
  engine : Engine
  temperature : Rat
  /-- TurtleMD's `boltzmann` constructor argument (ignored by the other engines) -/
  boltzmann : Rat
  /-- masses as the user gave them: `masses=[..]` (GROMACS, g/mol), `Masses` of lammps.data
      (g/mol), PERIODIC_TABLE entries of the element names (CP2K, g/mol), `particles.mass`
      (TurtleMD), `atoms.get_masses()` (ASE, amu) -/
  massIn : List Rat
  /-- CP2K only: the box of the template `cp2k.inp`, used when the frame has no box header -/
  tmplBox : List Rat := []
deriving Repr

/-- Boltzmann constant used for `self._beta` -/
def kbBeta (s : Setup) : Rat :=
  match s.engine with
  | .gromacs => kbGromacs
  | .cp2k => kbCp2k
  | .lammps => kbLammps
  | .ase => kbAseEngine
  | .turtlemd => s.boltzmann

/-- `self._beta = 1 / (self.temperature * self.kb)` -/
def beta (s : Setup) : Rat := 1 / (s.temperature * kbBeta s)

/-- `self.mass` / `self.masses` as the engine holds them (CP2K converts to electron masses) -/
def mass (s : Setup) : List Rat :=
  match s.engine with
  | .cp2k => s.massIn.map (fun m => cp2kMassFactor * m)
  | _ => s.massIn

/-- `kbt = 1.0 / beta; sigma_v = np.sqrt(kbt * (1 / mass))` — the square of `sigma_v` -/
def sigmaSq (bet : Rat) (ms : List Rat) : List Rat := ms.map (fun m => (1 / bet) * (1 / m))

/-- ASE: `temp = units.kB * temperature_K; momenta = xi * np.sqrt(masses * temp)` — the square
    of the factor applied to the standard normals -/
def aseMomSq (s : Setup) : List Rat := s.massIn.map (fun m => m * (kbAseUnits * s.temperature))

/-! ### draw requests -/

inductive Stream | engineRgen | numpyGlobal
deriving Repr, DecidableEq

/-- one call of a generator method: `rgen.normal(loc, scale, size=(npart, dim))` or
    `standard_normal((npart, 3))`.  `scaleSq` are the squares of the per-particle scales
    (for `standard_normal` the request has no scale argument: `none`). -/
structure Request where
  stream : Stream
  method : String
  loc : Rat
  scaleSq : Option (List Rat)
  npart : Nat
  dim : Nat
deriving Repr, DecidableEq

/-! ### column arithmetic -/

def sumL : List Rat → Rat
  | [] => 0
  | a :: t => a + sumL t

/-- Σ aᵢ·bᵢ over the common prefix -/
def dot : List Rat → List Rat → Rat
  | a :: s, b :: t => a * b + dot s t
  | _, _ => 0

/-- element-wise product over the common prefix (numpy broadcast of a (npart,1) column) -/
def mulCol : List Rat → List Rat → List Rat
  | a :: s, b :: t => a * b :: mulCol s t
  | _, _ => []

/-- element-wise quotient `col / m` -/
def divCol : List Rat → List Rat → List Rat
  | a :: s, b :: t => a / b :: divCol s t
  | _, _ => []

/-- `mom = np.sum(vel * mass, axis=0); vel -= mom / mass.sum()` on one column -/
def resetCol (ms col : List Rat) : List Rat :=
  let mom := dot ms col
  col.map (fun v => v - mom / sumL ms)

def resetMomentum (ms : List Rat) (vel : List (List Rat)) : List (List Rat) :=
  vel.map (resetCol ms)

/-- total linear momentum, one entry per Cartesian component -/
def momentum (ms : List Rat) (vel : List (List Rat)) : List Rat := vel.map (dot ms)

/-- `0.5 * Σᵢ (mᵢ vᵢ) vᵢ` for one column: a diagonal element of the kinetic tensor -/
def kinCol (ms col : List Rat) : Rat := (1 / 2) * dot (mulCol col ms) col

/-- `kinetic_energy(vel, mass)[0]`: the trace of `0.5 * einsum('ij,ik->jk', vel*mass, vel)` -/
def kineticEnergy (ms : List Rat) (vel : List (List Rat)) : Rat :=
  sumL (vel.map (kinCol ms))

/-- the returned `dek`: a float or `float('inf')` -/
inductive Dek
  | inf
  | val (q : Rat)
deriving Repr, DecidableEq

/-- CP2K / LAMMPS / TurtleMD / ASE: `if kin_old == 0.0: dek = inf else kin_new - kin_old` -/
def dekZeroRule (kinOld kinNew : Rat) : Dek :=
  if kinOld = 0 then .inf else .val (kinNew - kinOld)

/-- GROMACS: `kin_old = system.ekin`; `if kin_old is None or kin_new is None: inf`
    (`kin_new` is never None in the infretis_genvel branch) -/
def dekNoneRule (kinOld : Option Rat) (kinNew : Rat) : Dek :=
  match kinOld with
  | none => .inf
  | some k => .val (kinNew - k)

/-! ### frames and the result of `modify_velocities` -/

/-- What the engines read from / write to a single-frame configuration file. -/
structure Frame where
  pos : List (List Rat)      -- columns
  vel : List (List Rat)      -- columns
  box : Option (List Rat)    -- flattened, in file order
  ids : List Nat             -- atom identities (names / (id,type) / g96 prefix / numbers+masses)
deriving Repr, DecidableEq

structure Result where
  request : Request
  /-- the written `genvel.<ext>` -/
  frame : Frame
  kinOld : Option Rat
  kinNew : Rat
  dek : Dek
deriving Repr

/-- each engine's own default of `zero_momentum` (the second argument of `vel_settings.get`):
    cp2k.py `get("zero_momentum", True)`; lammps.py, turtlemdengine.py, ase_engine.py and the
    infretis_genvel branch of gromacs.py `get("zero_momentum", False)` -/
def engineDefaultZeroMomentum : Engine → Bool
  | .cp2k => true
  | _ => false

/-- `vel_settings.get("zero_momentum", default)`: default is True for CP2K, False elsewhere.
    `zm` is the entry of the dict that was handed in (`none` = key absent); the dict itself is an
    input only — the code must not write to it (tie: deep compare before/after). -/
def zeroMomentumFlag (e : Engine) (zm : Option Bool) : Bool :=
  match zm with
  | some b => b
  | none => match e with
    | .cp2k => true
    | _ => false

/-- `vel = rgen.normal(loc=0.0, scale=sigma_v, size=(npart, dim))` given the standard normals:
    column j is `sigᵢ · zᵢⱼ` -/
def drawVel (sig : List Rat) (z : List (List Rat)) : List (List Rat) := z.map (mulCol sig)

/-- `modify_velocities` of GROMACS (infretis_genvel), CP2K, LAMMPS and TurtleMD.
    `sysEkin` = `system.ekin` (read by GROMACS only), `zm` = the `zero_momentum` entry,
    `sig` = the square roots delivered by numpy, `z` = the standard normals (columns). -/
def modifyNumpy (s : Setup) (src : Frame) (sysEkin : Option Rat) (zm : Option Bool)
    (sig : List Rat) (z : List (List Rat)) : Result :=
  let ms := mass s
  let kinOld : Option Rat :=
    match s.engine with
    | .gromacs => sysEkin
    | _ => some (kineticEnergy ms src.vel)
  let req : Request :=
    { stream := .engineRgen, method := "normal", loc := 0,
      scaleSq := some (sigmaSq (beta s) ms), npart := ms.length, dim := src.vel.length }
  let v0 := drawVel sig z
  let v1 := match s.engine with
    | .lammps => v0.map (fun col => col.map (fun v => v / lammpsScale))
    | _ => v0
  let v2 := if zeroMomentumFlag s.engine zm then resetMomentum ms v1 else v1
  let kinNew := kineticEnergy ms v2
  let box := match s.engine, src.box with
    | .cp2k, none => some s.tmplBox
    | _, b => b
  let dek := match s.engine with
    | .gromacs => dekNoneRule sysEkin kinNew
    | _ => match kinOld with
      | some k => dekZeroRule k kinNew
      | none => .inf
  { request := req, frame := { pos := src.pos, vel := v2, box := box, ids := src.ids },
    kinOld := kinOld, kinNew := kinNew, dek := dek }

/-- `ASEEngine.modify_velocities`.  `sigP` = `np.sqrt(masses * temp)`; momenta = `sigPᵢ·zᵢⱼ`,
    velocities = momenta / mass.  `Stationary(atoms, preserve_temperature=False)` subtracts
    `(Σp/Σm)·mᵢ` from the momenta, i.e. `Σp/Σm` from every velocity (= `resetCol`).
    Spot 1 (`vKin`): `kin_new` is taken *before* `Stationary` (asIs, until 1dd0318) / after it
    (repaired, the code now).
    Spot 2 (`vRng`): the draw goes to numpy's global state (asIs, until 1dd0318) / the engine's
    rgen (repaired, the code now). -/
def modifyAse (vKin vRng : Variant) (s : Setup) (src : Frame) (zm : Option Bool)
    (sigP : List Rat) (z : List (List Rat)) : Result :=
  let ms := s.massIn
  let kinOld := kineticEnergy ms src.vel
  let req : Request :=
    { stream := (match vRng with | .asIs => .numpyGlobal | .repaired => .engineRgen),
      method := "standard_normal", loc := 0, scaleSq := none, npart := ms.length, dim := 3 }
  let p0 := drawVel sigP z
  let v0 := p0.map (fun col => divCol col ms)
  let kinBefore := kineticEnergy ms v0
  let v1 := if zeroMomentumFlag .ase zm then resetMomentum ms v0 else v0
  let kinNew := match vKin with
    | .asIs => kinBefore
    | .repaired => kineticEnergy ms v1
  { request := req, frame := { pos := src.pos, vel := v1, box := src.box, ids := src.ids },
    kinOld := some kinOld, kinNew := kinNew, dek := dekZeroRule kinOld kinNew }

def modifyVelocities (vKin vRng : Variant) (s : Setup) (src : Frame) (sysEkin : Option Rat)
    (zm : Option Bool) (sig : List Rat) (z : List (List Rat)) : Result :=
  match s.engine with
  | .ase => modifyAse vKin vRng s src zm sig z
  | _ => modifyNumpy s src sysEkin zm sig z

/-! ### a tiny heap: `System` objects, referenced arrays, files

`System.copy` is `copy.copy(self)`: a *shallow* copy — a new object whose attributes hold the
same references.  `modify_velocities` only *rebinds* `config` and `ekin` of the object it is
given and writes two files in the engine's `exe_dir` (`conf.<ext>` by `dump_frame` and
`genvel.<ext>`); `calculate_order` rebinds `pos`, `vel`, `box` of the copy to freshly read
arrays and `prepare_shooting_point` rebinds `order`.  Nothing is mutated in place. -/

structure Sys where
  config : Nat × Option Nat   -- (file id, frame index)
  order : Nat                 -- reference to the order list
  pos : Nat                   -- references to the (unused, shared) numpy arrays / dict
  vel : Nat
  box : Nat
  temperature : Nat
  velRev : Bool
  ekin : Option Rat
  vpot : Option Rat
deriving Repr, DecidableEq

structure Heap where
  systems : List Sys                 -- address = position
  objs : List (List Rat)             -- payload of referenced objects, address = position
  files : List (Nat × List Frame)    -- association list file id ↦ frames (last write wins: head)
deriving Repr, DecidableEq

def Heap.readFile (h : Heap) (f : Nat) : Option (List Frame) :=
  (h.files.find? (fun p => p.1 = f)).map (·.2)

def Heap.writeFile (h : Heap) (f : Nat) (frames : List Frame) : Heap :=
  { h with files := (f, frames) :: h.files }

inductive Err | nofile | index
deriving Repr, DecidableEq

/-- `dump_config`: `idx is None` → copy the file unless it already is `conf`; otherwise
    `_extract_frame(pos_file, idx, out_file)`.  Returns the heap and the frame now in `conf`. -/
def dumpFrame (h : Heap) (cfg : Nat × Option Nat) (confFile : Nat) : Except Err (Heap × Frame) :=
  match h.readFile cfg.1 with
  | none => .error .nofile
  | some frames =>
    match cfg.2 with
    | none =>
      match frames.head? with
      | none => .error .index
      | some fr => if cfg.1 = confFile then .ok (h, fr) else .ok (h.writeFile confFile frames, fr)
    | some i =>
      match frames[i]? with
      | none => .error .index
      | some fr => .ok (h.writeFile confFile [fr], fr)

structure Shoot where
  heap : Heap
  /-- address of the returned (copied, modified) shooting point -/
  copy : Nat
  dek : Dek
  request : Request
deriving Repr

/-- `prepare_shooting_point` after the index has been chosen: `a` = address of
    `path.phasepoints[idx]`.  `confFile`/`genvelFile` = the engine's `exe_dir/conf.<ext>` and
    `exe_dir/genvel.<ext>`; `newOrder` = the list returned by `calculate_order`. -/
def prepareShootingPoint (vKin vRng : Variant) (s : Setup) (h : Heap) (a : Nat)
    (confFile genvelFile : Nat) (zm : Option Bool) (sig : List Rat) (z : List (List Rat))
    (newOrder : List Rat) : Except Err Shoot :=
  match h.systems[a]? with
  | none => .error .index
  | some sp =>
    -- shpt_copy = shooting_point.copy()
    let c := h.systems.length
    let h1 : Heap := { h with systems := h.systems ++ [sp] }
    -- engine.modify_velocities(shpt_copy, tis_set)
    match dumpFrame h1 sp.config confFile with
    | .error e => .error e
    | .ok (h2, fr) =>
      let r := modifyVelocities vKin vRng s fr sp.ekin zm sig z
      let h3 := h2.writeFile genvelFile [r.frame]
      -- system.config = (conf_out, 0); system.ekin = kin_new
      -- orderp = engine.calculate_order(shpt_copy): reads genvel back and *rebinds* pos, vel
      -- (negated when vel_rev) and, when the file has one, box on the copy; then
      -- shpt_copy.order = orderp
      let o := h3.objs.length
      let velPayload := if sp.velRev then r.frame.vel.flatten.map (fun v => -v) else r.frame.vel.flatten
      let (boxRef, boxObjs) : Nat × List (List Rat) := match r.frame.box with
        | some b => (o + 3, [b])
        | none => (sp.box, [])
      let sp' : Sys := { sp with config := (genvelFile, some 0), ekin := some r.kinNew, order := o,
                                 pos := o + 1, vel := o + 2, box := boxRef }
      let h4 : Heap := { h3 with systems := h.systems ++ [sp'],
                                 objs := h3.objs ++ ([newOrder, r.frame.pos.flatten, velPayload] ++ boxObjs) }
      .ok { heap := h4, copy := c, dek := r.dek, request := r.request }

/-! ### added in the extension pass: the two remaining branches of the helpers, mirrored

`draw_maxwellian_velocities(vel, mass, beta, sigma_v=None)` (enginebase.py:633-662):
  `if sigma_v is None or np.any(sigma_v < 0.0): sigma_v = np.sqrt((1/beta) * (1 / mass))`
  `npart, dim = vel.shape`; `if hasattr(self, "rgen"): vel = self.rgen.normal(0.0, sigma_v, (npart, dim))`
  `else: raise ValueError("Did not find random generator!!")`
`kinetic_energy(vel, mass)` (cp2k.py:562-579): `len(mass) == 1` → `0.5*np.outer(mom, vel)` (both flattened),
  otherwise `0.5*np.einsum('ij,ik->jk', mom, vel)`; the kinetic energy is the trace. -/

inductive DrawErr | noRgen
deriving Repr, DecidableEq

/-- the squares of the scale handed to `rgen.normal`: an explicit `sigma_v` without negative entry is used as
    given (also all zeros — falsy but valid), `None` or any negative entry → estimated from `beta` and the masses -/
def drawScaleSq (bet : Rat) (ms : List Rat) (sigmaV : Option (List Rat)) : List Rat :=
  match sigmaV with
  | none => sigmaSq bet ms
  | some sv => if sv.any (fun x => decide (x < 0)) then sigmaSq bet ms else sv.map (fun x => x * x)

/-- the one request `draw_maxwellian_velocities` makes, or ValueError when the engine has no `rgen` -/
def drawMaxwellian (hasRgen : Bool) (bet : Rat) (ms : List Rat) (sigmaV : Option (List Rat))
    (npart dim : Nat) : Except DrawErr Request :=
  if hasRgen then
    .ok { stream := .engineRgen, method := "normal", loc := 0, scaleSq := some (drawScaleSq bet ms sigmaV),
          npart := npart, dim := dim }
  else .error .noRgen

/-- `kinetic_energy(vel, mass)[0]` with its `len(mass) == 1` branch: the trace of the outer product of the
    flattened momenta and velocities is `Σ pₖ vₖ` over all entries -/
def kineticEnergyCode (ms : List Rat) (vel : List (List Rat)) : Rat :=
  if ms.length = 1 then
    (1 / 2) * dot ((vel.map (fun col => mulCol col ms)).flatten) vel.flatten
  else sumL (vel.map (kinCol ms))

inductive MassErr | unknownElement
deriving Repr, DecidableEq

/-- `guess_particle_mass(particle_no, particle_type)` (cp2k.py:522-558): `PERIODIC_TABLE.get(particle_type, None)`;
    `None` → ValueError ("not in our periodic table"), otherwise `1822.8884858012982 * mass` (g/mol → electron masses).
    `tableEntry` = the table's entry for the element name (`none` = not in the table). -/
def guessParticleMass (tableEntry : Option Rat) : Except MassErr Rat :=
  match tableEntry with
  | none => .error .unknownElement
  | some m => .ok (cp2kMassFactor * m)

end Infretis.Vel
