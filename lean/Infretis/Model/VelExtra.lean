import Infretis.Model.Vel
/-
C16, follow-up of the independent audit: three pieces of the real code that `Model/Vel.lean` left outside.

  get_atom_masses                      lammps.py:222-273   (the per-atom mass vector of the LAMMPS engine)
  TurtleMDEngine.modify_velocities     turtlemdengine.py:335-376 with `self.dim` (turtlemdengine.py:137, 200-204,
                                       246-252: the propagation reads / writes only the first `dim` components)
  numpy broadcasting in modify_velocities of GROMACS / CP2K / LAMMPS / TurtleMD when the engine's mass vector and
  the frame have different atom counts, and the `hasattr(self, "rgen")` / `getattr(self, "rgen", None)` branches

`Vel.modifyVelocities` stays what it was: the shape-consistent core.  `modifyVelocitiesS` below is the end-to-end
function (what the driver runs): it decides first what numpy decides (same shapes / length-1 broadcast / ValueError)
and whether there is a generator, and hands over to the core exactly when the shapes agree.
No imports outside the model: compiled into the driver.
-/
namespace Infretis.VelExtra
open Infretis.Vel

/-! ## 1. `get_atom_masses` (LAMMPS data file → one mass per atom, atoms in id order)

What the function works on after the text has been cut into numbers (the cutting itself is `np.genfromtxt`, tie-only):
`n_atoms`, `n_atom_types` from the header lines (0 when the line is missing), the rows `type-id mass` of the `Masses`
section and the rows of the `Atoms` section (`none`: section missing).  Type ids are floats in the code (`genfromtxt`),
rationals here. -/

inductive AtomStyle | full | charge | other
deriving Repr, DecidableEq

inductive LMErr
  | notImplemented   -- NotImplementedError: atom_style not in {"full", "charge"}
  | value            -- ValueError: no atoms / no atom types; a type without exactly one Masses row (numpy broadcast)
  | index            -- IndexError: section missing, one-row section (1-D genfromtxt result), row too short
deriving Repr, DecidableEq

/-- `col = {"full": 2, "charge": 1}`: the column of the Atoms rows that holds the type -/
def typeCol : AtomStyle → Option Nat
  | .full => some 2
  | .charge => some 1
  | .other => none

structure LammpsData where
  nAtoms : Nat
  nTypes : Nat
  massRows : Option (List (Rat × Rat))
  atoms : Option (List (List Rat))
deriving Repr

/-- the id of an Atoms row (column 0; rows are never empty after `genfromtxt`) -/
def rowId (r : List Rat) : Rat :=
  match r with
  | [] => 0
  | a :: _ => a

/-- insert a row into a list sorted by id -/
def insertById (r : List Rat) : List (List Rat) → List (List Rat)
  | [] => [r]
  | b :: l => if rowId r ≤ rowId b then r :: b :: l else b :: insertById r l

/-- `idx = np.argsort(atoms[:, 0]); atoms = atoms[idx]` (atom ids are distinct, so every sorting algorithm gives
    the same array; insertion sort here) -/
def sortById : List (List Rat) → List (List Rat)
  | [] => []
  | b :: l => insertById b (sortById l)

/-- `masses[idx] = <1-D array>`: numpy accepts exactly a one-entry array -/
def pickSingle : List Rat → Except LMErr Rat
  | [m] => .ok m
  | _ => .error .value

/-- the value assigned for type `t`.
    Code now (76f2ebe, `repaired`): `atom_type_masses[atom_type_masses[:, 0] == t, 1]` — a 1-D array holding the mass of
    every row whose id is `t`; assigning it to `masses[idx]` (shape (k, 1)) works exactly when it has ONE entry
    (ValueError "shape mismatch" for 0 or ≥ 2 entries, whether or not any atom has that type).
    Before the fix (`asIs`, the record): `atom_type_masses[t - 1, 1]` — the row at POSITION t − 1, whatever its id
    (IndexError when there are fewer rows). -/
def selMass (v : Variant) (mr : List (Rat × Rat)) (t : Nat) : Except LMErr Rat :=
  match v with
  | .repaired =>
    pickSingle ((mr.filter (fun r => decide (r.1 = (t : Rat)))).map (·.2))
  | .asIs =>
    match mr[t - 1]? with
    | some r => .ok r.2
    | none => .error .index

/-- `for atom_type in range(1, n_atom_types + 1): idx = np.where(atoms[:, col] == atom_type)[0]; masses[idx] = …`
    `tyCol[p]` = the type of the atom at position `p` of the sorted array (`none`: no such row — the header
    announced more atoms than the section holds; its mass stays 0). -/
def assignLoop (v : Variant) (mr : List (Rat × Rat)) (tyCol : List (Option Rat)) :
    List Nat → List Rat → Except LMErr (List Rat)
  | [], masses => .ok masses
  | t :: ts, masses =>
    match selMass v mr t with
    | .error e => .error e
    | .ok m =>
      assignLoop v mr tyCol ts
        (List.zipWith (fun ty old => if ty = some (t : Rat) then m else old) tyCol masses)

def getAtomMasses (v : Variant) (style : AtomStyle) (d : LammpsData) : Except LMErr (List Rat) :=
  match typeCol style with
  | none => .error .notImplemented
  | some c =>
    if d.nAtoms = 0 ∨ d.nTypes = 0 then .error .value
    else
      match d.atoms with
      | none => .error .index
      | some rows =>
        -- a one-row section comes back from genfromtxt as a 1-D array: `atoms[:, 0]` raises
        if rows.length ≤ 1 ∨ d.nAtoms < rows.length then .error .index
        else if rows.any (fun r => decide (r.length ≤ c)) then .error .index
        else
          let sorted := sortById rows
          let tyCol := (List.range d.nAtoms).map (fun p => (sorted[p]?).bind (fun r => r[c]?))
          match d.massRows with
          | none => .error .index
          | some mr => assignLoop v mr tyCol (List.range' 1 d.nTypes) (List.replicate d.nAtoms 0)

/-! ## 2. TurtleMD with `dim < 3`

The engine's `dim` is the dimensionality of its potential; `_propagate_from` hands `pos[i][:dim]`, `vel[i][:dim]` to
turtlemd and writes `vel[:, :dim] = particles.vel` into zero-initialised (npart, 3) arrays: engine-written frames
carry zeros in the components beyond `dim`.  `modify_velocities` as it is does not look at `dim` at all (`asIs` =
`Vel.modifyNumpy` unchanged: draws, writes and sums three components).  `repaired` = what the open finding
`C16:turtlemd:dim-lt-3:kinetic-energy-counts-unused-components` asks for: the kinetic energies are taken over the
first `dim` components (columns, in this by-columns model). -/

/-- the variant of this spot /repo has today -/
def codeVariantDim : Variant := .asIs

def modifyTurtleD (vDim : Variant) (dim : Nat) (s : Setup) (src : Frame) (zm : Option Bool)
    (sig : List Rat) (z : List (List Rat)) : Result :=
  let r := modifyNumpy s src none zm sig z
  match vDim with
  | .asIs => r
  | .repaired =>
    let kinOld := kineticEnergy (mass s) (src.vel.take dim)
    let kinNew := kineticEnergy (mass s) (r.frame.vel.take dim)
    { r with kinOld := some kinOld, kinNew := kinNew, dek := dekZeroRule kinOld kinNew }

/-! ## 3. shapes and the generator: what happens BEFORE the shape-consistent core applies

`mass` has shape (k, 1), the frame's `vel` shape (n, 3).  numpy: equal → element-wise; k = 1 → the single mass
broadcasts over all atoms (silently!); otherwise ValueError ("operands could not be broadcast together" in
`vel * mass` of `kinetic_energy` for CP2K / LAMMPS / TurtleMD, in `rgen.normal(scale=(k,1), size=(n,3))` for GROMACS).
ASE takes the masses from the frame itself: no mismatch possible.
Generator: `draw_maxwellian_velocities` raises ValueError without `self.rgen`; GROMACS reaches that test before any
array of the two shapes meets, the other three run `kinetic_energy(vel, mass)` first; ASE passes
`rng=getattr(self, "rgen", None)` and silently falls back to numpy's global state. -/

inductive SErr
  | shape    -- ValueError: shapes (k,1) and (n,3) do not broadcast
  | noRgen   -- ValueError("Did not find random generator!!")
deriving Repr, DecidableEq

/-- number of atoms of the frame that was read (`vel.shape[0]`): the length of a velocity column -/
def frameRows (f : Frame) : Nat :=
  match f.vel with
  | [] => 0
  | c :: _ => c.length

/-- the length-1 broadcast of GROMACS / CP2K / LAMMPS / TurtleMD: every atom is given the single mass `m` in the
    draw, in `vel * mass` and in the kinetic energy (the `len(mass) == 1` branch sums over all entries), but
    `reset_momentum` divides by `mass.sum()` = `m`, not n·m: `vel -= Σᵢ vᵢ` — the total momentum is NOT removed. -/
def modifyNumpyB (s : Setup) (src : Frame) (sysEkin : Option Rat) (zm : Option Bool)
    (sig : List Rat) (z : List (List Rat)) : Result :=
  let n := frameRows src
  let ms := mass s                               -- [m]
  let msRep := (List.replicate n ms).flatten     -- what numpy's broadcast amounts to
  let sigRep := (List.replicate n sig).flatten
  let kinOld : Option Rat :=
    match s.engine with
    | .gromacs => sysEkin
    | _ => some (kineticEnergy msRep src.vel)
  let req : Request :=
    { stream := .engineRgen, method := "normal", loc := 0,
      scaleSq := some (sigmaSq (beta s) ms), npart := n, dim := src.vel.length }
  let v0 := drawVel sigRep z
  let v1 := match s.engine with
    | .lammps => v0.map (fun col => col.map (fun v => v / lammpsScale))
    | _ => v0
  let v2 := if zeroMomentumFlag s.engine zm
    then v1.map (fun col => col.map (fun v => v - dot msRep col / sumL ms))
    else v1
  let kinNew := kineticEnergy msRep v2
  let box := match s.engine, src.box with
    | .cp2k, none => some s.tmplBox
    | _, b => b
  let dek := match s.engine with
    | .gromacs => dekNoneRule sysEkin kinNew
    | _ => match kinOld with
      | some k => dekZeroRule k kinNew
      | none => .inf
  { request := req, frame := { pos := src.pos, vel := v2, box := box, ids := src.ids },
    kinOld := kinOld, kinNew := kinNew, dek := dek }

/-- `modify_velocities`, end to end (after the frame has been read). -/
def modifyVelocitiesS (vKin vRng : Variant) (hasRgen : Bool) (s : Setup) (src : Frame)
    (sysEkin : Option Rat) (zm : Option Bool) (sig : List Rat) (z : List (List Rat)) : Except SErr Result :=
  match s.engine with
  | .ase =>
    let r := modifyAse vKin vRng s src zm sig z
    -- `rng=None` → ase uses numpy's global state, whatever the variant
    if hasRgen then .ok r else .ok { r with request := { r.request with stream := .numpyGlobal } }
  | .gromacs =>
    if !hasRgen then .error .noRgen
    else if (mass s).length = frameRows src then .ok (modifyNumpy s src sysEkin zm sig z)
    else if (mass s).length = 1 then .ok (modifyNumpyB s src sysEkin zm sig z)
    else .error .shape
  | _ =>
    if (mass s).length = frameRows src then
      if hasRgen then .ok (modifyNumpy s src sysEkin zm sig z) else .error .noRgen
    else if (mass s).length = 1 then
      if hasRgen then .ok (modifyNumpyB s src sysEkin zm sig z) else .error .noRgen
    else .error .shape

end Infretis.VelExtra
