import Infretis.Model.Vel
/-
The FILE flow of `modify_velocities`, engine by engine (C16: "never alters the frame it was taken from"):

  EngineBase.dump_frame / dump_config / _name_output / _copyfile   enginebase.py:188-233, 564-567
  CP2KEngine._extract_frame / _read_configuration                  cp2k.py:767-790, 1033-1053
  TurtleMDEngine._extract_frame / _read_configuration              turtlemdengine.py:149-175, 291-312
  LAMMPSEngine._extract_frame (read_lammpstrj frame idx)           lammps.py:580-583
  ASEEngine._extract_frame (Trajectory[idx]), `read(fname)`        ase_engine.py:94-98, 219-222
  GromacsEngine._extract_frame (.trr/.xtc/.trj | .g96 | other)     gromacs.py:363-394
  <Engine>.modify_velocities: `pos = self.dump_frame(system)`, read `pos`, write `exe_dir/genvel.<ext>`,
      `system.config = (conf_out, 0)`, `system.ekin = kin_new`; `vel_rev` is NOT touched (only the gmx-generated
      branch of GROMACS resets it, outside the property)

`Vel.dumpFrame` (kept) treats all engines alike and answers "index error" for every missing frame; this file
mirrors what each engine really does there, quirks included:
  * CP2K / TurtleMD: an index that is not in the file only LOGS an error and writes nothing — the engine then reads
    whatever `conf.xyz` an earlier call left in `exe_dir` (FileNotFoundError if there is none);
  * ASE: `ase.io.read(fname)` takes the LAST image of a multi-frame file (index −1 default), the other engines the
    first — visible when a multi-frame file is referenced with index `None` (whole-file copy);
  * GROMACS: a `.g96` source is copied whole whatever the index (SameFileError when it already is `conf.g96`),
    `.trr/.xtc/.trj` goes through `read_trr_frame` (ValueError when the frame is missing; identities come from the
    engine's topology), any other extension raises ValueError.
Frames are abstract (`Vel.Frame`); a file is its list of frames.  No imports outside the model.
-/
namespace Infretis.VelFlow
open Infretis.Vel

/-- what GROMACS's `_extract_frame` sees in `traj_file[-4:]` -/
inductive GmxSrc | trr | g96 | other
deriving Repr, DecidableEq

inductive FErr
  | nofile     -- FileNotFoundError
  | index      -- IndexError (LAMMPS, ASE: frame not in the file)
  | value      -- ValueError (GROMACS: frame not in the .trr, unknown extension)
  | sameFile   -- shutil.SameFileError (GROMACS .g96 → itself)
deriving Repr, DecidableEq

/-- the frame `modify_velocities` reads from `conf.<ext>`: `_read_configuration` stops at the first snapshot
    (CP2K, TurtleMD, LAMMPS frame 0, GROMACS single-frame .g96); `ase.io.read` without index returns the last image -/
def readConf (e : Engine) (frames : List Frame) : Option Frame :=
  match e with
  | .ase => frames.getLast?
  | _ => frames.head?

/-- `_extract_frame(traj_file, idx, out_file)`: the new content of `out_file` (`none`: nothing is written). -/
def extractFrame (e : Engine) (g : GmxSrc) (topIds : List Nat) (sameFile : Bool) (frames : List Frame)
    (i : Nat) : Except FErr (Option (List Frame)) :=
  match e with
  | .cp2k | .turtlemd => .ok ((frames[i]?).map (fun fr => [fr]))
  | .lammps | .ase =>
    match frames[i]? with
    | none => .error .index
    | some fr => .ok (some [fr])
  | .gromacs =>
    match g with
    | .trr =>
      match frames[i]? with
      | none => .error .value
      | some fr => .ok (some [{ fr with ids := topIds }])
    | .g96 => if sameFile then .error .sameFile else .ok (some frames)
    | .other => .error .value

/-- `pos = self.dump_frame(system)` followed by the read of `pos`: the heap afterwards and the frame the
    regeneration starts from. -/
def dumpFrameE (e : Engine) (g : GmxSrc) (topIds : List Nat) (h : Heap) (cfg : Nat × Option Nat)
    (confFile : Nat) : Except FErr (Heap × Frame) :=
  let written : Except FErr Heap :=
    match cfg.2 with
    | none =>
      -- `if pos_file != out_file: self._copyfile(pos_file, out_file)`
      if cfg.1 = confFile then .ok h
      else match h.readFile cfg.1 with
        | none => .error .nofile
        | some frames => .ok (h.writeFile confFile frames)
    | some i =>
      if e = .gromacs ∧ g = .other then .error .value      -- the extension is looked at before the file
      else match h.readFile cfg.1 with
        | none => .error .nofile
        | some frames =>
          match extractFrame e g topIds (cfg.1 = confFile) frames i with
          | .error er => .error er
          | .ok none => .ok h
          | .ok (some fs) => .ok (h.writeFile confFile fs)
  match written with
  | .error er => .error er
  | .ok h1 =>
    match h1.readFile confFile with
    | none => .error .nofile
    | some cf =>
      match readConf e cf with
      | none => .error .index
      | some fr => .ok (h1, fr)

structure ShootE where
  heap : Heap
  copy : Nat
  dek : Dek
  request : Request
  /-- the frame the regeneration read (for the tie: which frame of which file) -/
  readFrame : Frame
deriving Repr

/-- `prepare_shooting_point` with the engine's own file flow (same steps as `Vel.prepareShootingPoint`). -/
def prepareShootingPointE (vKin vRng : Variant) (s : Setup) (g : GmxSrc) (topIds : List Nat) (h : Heap) (a : Nat)
    (confFile genvelFile : Nat) (zm : Option Bool) (sig : List Rat) (z : List (List Rat))
    (newOrder : List Rat) : Except FErr ShootE :=
  match h.systems[a]? with
  | none => .error .index
  | some sp =>
    let c := h.systems.length
    let h1 : Heap := { h with systems := h.systems ++ [sp] }
    match dumpFrameE s.engine g topIds h1 sp.config confFile with
    | .error e => .error e
    | .ok (h2, fr) =>
      let r := modifyVelocities vKin vRng s fr sp.ekin zm sig z
      let h3 := h2.writeFile genvelFile [r.frame]
      let o := h3.objs.length
      let velPayload := if sp.velRev then r.frame.vel.flatten.map (fun v => -v) else r.frame.vel.flatten
      let (boxRef, boxObjs) : Nat × List (List Rat) := match r.frame.box with
        | some b => (o + 3, [b])
        | none => (sp.box, [])
      let sp' : Sys := { sp with config := (genvelFile, some 0), ekin := some r.kinNew, order := o,
                                 pos := o + 1, vel := o + 2, box := boxRef }
      let h4 : Heap := { h3 with systems := h.systems ++ [sp'],
                                 objs := h3.objs ++ ([newOrder, r.frame.pos.flatten, velPayload] ++ boxObjs) }
      .ok { heap := h4, copy := c, dek := r.dek, request := r.request, readFrame := fr }

end Infretis.VelFlow
