import Infretis.Model.Vel
/-
Which settings dict reaches `engine.modify_velocities`, on every route a Monte-Carlo move takes (C16):

  select_shoot                     tis.py:254-327   dispatch: one ensemble → `sh_moves[mc_move]` (shoot / wire_fencing),
                                                    two ensembles → retis_swap_zero / quantis_swap_zero
  shoot                            tis.py:330-364   `ens_set["tis_set"]["maxlength"]`, then prepare_shooting_point
  wire_fencing                     tis.py:498-528   sub_ens["tis_set"] IS ens_set["tis_set"] (alias), two in-place writes,
                                                    `range(tis_set.get("n_jumps", 2))` sub-shoots
  prepare_shooting_point           tis.py:756       `engine.modify_velocities(shpt_copy, ens_set["tis_set"])` — the only
                                                    call site of modify_velocities in the library
  retis_swap_zero/quantis_swap_zero tis.py:852-854, 1133-1134: read `maxlength`; never regenerate velocities
  <Engine>.modify_velocities       `vel_settings.get("zero_momentum", <engine default>)` — the only key the five
                                   engines read (gromacs.py:669 without infretis_genvel: `… is False` → ValueError)

A settings dict is a Python dict with scalar toml values: an insertion-ordered association list with unique keys.
`tis_set` doubles as `vel_settings`: there is no separate velocity-settings object anywhere in the library.
No imports outside the model: compiled into the driver.
-/
namespace Infretis.VelRoute
open Infretis.Vel

/-- the scalar values a `[simulation.tis_set]` entry can hold (toml bool / integer / float / string) and `None` -/
inductive SVal
  | bool (b : Bool)
  | int (i : Int)
  | float (q : Rat)
  | str (s : String)
  | none
deriving Repr, DecidableEq

/-- a Python dict: insertion-ordered, keys unique -/
abbrev Settings := List (String × SVal)

/-- `d.get(k)` / `d[k]` (`none` = key absent) -/
def getKey : Settings → String → Option SVal
  | [], _ => none
  | (k', v) :: t, k => if k' = k then some v else getKey t k

/-- `d[k] = v` in place: an existing key keeps its position, a new key is appended -/
def setKey : Settings → String → SVal → Settings
  | [], k, v => [(k, v)]
  | (k', v') :: t, k, v => if k' = k then (k', v) :: t else (k', v') :: setKey t k v

/-- Python truthiness (`if x:`) of a settings value -/
def truthy : SVal → Bool
  | .bool b => b
  | .int i => i ≠ 0
  | .float q => q ≠ 0
  | .str s => s ≠ ""
  | .none => false

/-- the keys `modify_velocities` of the five engines reads from `vel_settings` (grep `vel_settings.get(`) -/
def readKeys (_e : Engine) : List String := ["zero_momentum"]

/-- `vel_settings.get("zero_momentum", default)` seen through `if …:` — the `zm` argument of
    `Vel.modifyVelocities` (`none` = key absent, the engine's own default decides) -/
def zmEntry (d : Settings) : Option Bool := (getKey d "zero_momentum").map truthy

/-- the flag in effect in engine `e` when handed the dict `d` -/
def effectiveZeroMomentum (e : Engine) (d : Settings) : Bool := zeroMomentumFlag e (zmEntry d)

/-- gromacs.py:669 (gmx generates the velocities, `infretis_genvel` off):
    `if vel_settings.get("zero_momentum", True) is False: raise ValueError` — an identity test: only the
    bool `False` refuses, the falsy `0`, `0.0`, `""`, `None` pass -/
def gmxOwnGenvelRefuses (d : Settings) : Bool := getKey d "zero_momentum" = some (.bool false)

inductive RErr
  | keyError (k : String)
  | typeError (what : String)
deriving Repr, DecidableEq

/-- `range(ens_set["tis_set"].get("n_jumps", 2))`: absent → 2; a bool is an int in Python (True → 1 jump);
    a negative integer gives an empty range; a float (also `3.0`), a string or None make `range` raise TypeError -/
def nJumps (d : Settings) : Except RErr Nat :=
  match getKey d "n_jumps" with
  | Option.none => .ok 2
  | some (.bool b) => .ok (if b then 1 else 0)
  | some (.int i) => .ok i.toNat
  | some (.float _) => .error (.typeError "range:float")
  | some (.str _) => .error (.typeError "range:str")
  | some .none => .error (.typeError "range:NoneType")

/-- tis.py:513-521, as it is:
    `sub_ens = {…, "tis_set": ens_set["tis_set"]}` — the SAME dict object, then
    `sub_ens["tis_set"]["allowmaxlength"] = True` and
    `sub_ens["tis_set"]["maxlength"] = ens_set["tis_set"]["maxlength"]` (a self-assignment through the alias;
    KeyError when the key is absent).  The result is at once the sub-moves' settings and the ensemble's own
    `tis_set` from then on. -/
def wfSubSettings (ts : Settings) : Except RErr Settings :=
  let d1 := setKey ts "allowmaxlength" (.bool true)
  match getKey d1 "maxlength" with
  | Option.none => .error (.keyError "maxlength")
  | some m => .ok (setKey d1 "maxlength" m)

/-- what `select_shoot` dispatches to -/
inductive Move
  | sh        -- `shoot`
  | wf        -- `wire_fencing`
  | zeroSwap  -- `retis_swap_zero` / `quantis_swap_zero` (two ensembles picked)
deriving Repr, DecidableEq

structure Routed where
  /-- the `vel_settings` arguments of the successive `engine.modify_velocities` calls of the move -/
  calls : List Settings
  /-- the ensemble's `tis_set` after the move (the dict is shared, wire fencing writes to it) -/
  tisSetAfter : Settings
deriving Repr, DecidableEq

/-- The dicts that reach `modify_velocities` during one move, in call order.
    `hasSeg`: `wirefence_weight_and_pick` found a segment (`n_frames ≠ 0`; otherwise wire fencing returns "NSG"
    before touching anything).
    * `sh`: `shoot` reads `tis_set["maxlength"]` (KeyError), then `prepare_shooting_point` hands the ensemble's
      `tis_set` itself to the engine — once.
    * `wf`: every one of the `n_jumps` sub-shoots is a `shoot(sub_ens, …)` with `shooting_point=None`, so each calls
      `prepare_shooting_point` once, with `sub_ens["tis_set"]`.
    * zero swaps: `maxlength` is read, velocities are never regenerated. -/
def routeSettings (mv : Move) (ts : Settings) (hasSeg : Bool) : Except RErr Routed :=
  match mv with
  | .sh =>
    match getKey ts "maxlength" with
    | Option.none => .error (.keyError "maxlength")
    | some _ => .ok { calls := [ts], tisSetAfter := ts }
  | .wf =>
    if !hasSeg then .ok { calls := [], tisSetAfter := ts }
    else
      match wfSubSettings ts with
      | .error e => .error e
      | .ok sub =>
        match nJumps ts with
        | .error e => .error e
        | .ok n => .ok { calls := List.replicate n sub, tisSetAfter := sub }
  | .zeroSwap =>
    match getKey ts "maxlength" with
    | Option.none => .error (.keyError "maxlength")
    | some _ => .ok { calls := [], tisSetAfter := ts }

/-- what one regeneration consumes besides the settings: the dumped source frame, `system.ekin`, the square
    roots numpy delivered, the standard normals -/
structure CallInput where
  src : Frame
  sysEkin : Option Rat
  sig : List Rat
  z : List (List Rat)
deriving Repr

/-- pair the routed dicts with the per-call inputs (as many calls as there are routed dicts and inputs) -/
def regenerate (vk vr : Variant) (s : Setup) : List Settings → List CallInput → List Result
  | d :: ds, i :: is => modifyVelocities vk vr s i.src i.sysEkin (zmEntry d) i.sig i.z :: regenerate vk vr s ds is
  | _, _ => []

/-- **All velocity regenerations of one move**, end to end: route the settings, then every call runs the engine's
    `modify_velocities` with the flag read from the dict THAT call was handed. -/
def moveRegenerations (vk vr : Variant) (s : Setup) (mv : Move) (ts : Settings) (hasSeg : Bool)
    (inputs : List CallInput) : Except RErr (List Result) :=
  match routeSettings mv ts hasSeg with
  | .error e => .error e
  | .ok r => .ok (regenerate vk vr s r.calls inputs)

end Infretis.VelRoute
