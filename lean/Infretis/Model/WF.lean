/-
Model of the wire-fencing weight code in infretis/core/tis.py (C10):
  wirefence_weight_and_pick   (tis.py:188-251)
  compute_weight              (tis.py:151-185)
  calc_cv_vector              (tis.py:110-148)
and of Path.get_start_point / get_end_point / ordermax as used there.

Order parameters are compared with `<`, `≤` only, so a path is a `List Int` of order
values (the harness uses integer-valued floats, which are exact in Python).
No imports: this file is part of the compiled driver.
-/
namespace Infretis.WF

/-- scan state: `key_l`, `key_r`, `isave`, `path_arr` (in append order) -/
structure Scan where
  keyL : Bool
  keyR : Bool
  isave : Nat
  arr : List (Nat × Nat × Nat)
deriving Repr, DecidableEq

def Scan.init : Scan := { keyL := false, keyR := false, isave := 0, arr := [] }

/-- one iteration of the `for i in range(len-1)` loop, branches in the code's order -/
def step (l r : Int) (s : Scan) (i : Nat) (op1 op2 : Int) : Scan :=
  if (op1 < l ∧ op2 ≥ r) ∨ (op2 < l ∧ op1 ≥ r) then s
  else if op2 ≥ l ∧ l > op1 ∧ s.keyL = false then { s with isave := i, keyL := true }
  else if op2 < r ∧ r ≤ op1 ∧ s.keyR = false then { s with isave := i, keyR := true }
  else if s.keyR = true ∧ op2 ≥ r ∧ r > op1 then { s with keyL := false, keyR := false }
  else if (s.keyL = true ∨ s.keyR = true) ∧ ((op2 < l ∧ l ≤ op1) ∨ (op2 ≥ r ∧ r > op1)) then
    { keyL := false, keyR := false, isave := s.isave, arr := s.arr ++ [(s.isave, i + 1, i - s.isave)] }
  else s

/-- the loop over consecutive pairs, `i` = index of the first element of the list -/
def scanFrom (l r : Int) : Scan → Nat → List Int → Scan
  | s, _, [] => s
  | s, _, [_] => s
  | s, i, a :: b :: t => scanFrom l r (step l r s i a b) (i + 1) (b :: t)

def scan (l r : Int) (ops : List Int) : Scan := scanFrom l r Scan.init 0 ops

def sumLens (arr : List (Nat × Nat × Nat)) : Nat := (arr.map (fun x => x.2.2)).sum

/-- `n_frames` returned by `wirefence_weight_and_pick` -/
def weight (l r : Int) (ops : List Int) : Nat := sumLens (scan l r ops).arr

/-- the proportional pick: first segment whose cumulative count `c` satisfies
    `c / n ≥ ξ`, i.e. `c ≥ ξ·n` (ξ given as a rational `num/den`, den > 0; the harness
    sends the exact binary expansion of the float it fed to the code). -/
def pickGo (n : Nat) (xi : Rat) : Nat → List (Nat × Nat × Nat) → Option (Nat × Nat × Nat)
  | _, [] => none
  | cum, seg :: t =>
    let cum' := cum + seg.2.2
    if ((cum' : Int) : Rat) / ((n : Int) : Rat) ≥ xi then some seg else pickGo n xi cum' t

/-- segment returned when `return_seg` and `n_frames ≠ 0` (else none = empty path).
    Note: `none` can also come out with `n_frames ≠ 0` only if ξ > 1, which `random()` never gives. -/
def pick (l r : Int) (ops : List Int) (xi : Rat) : Option (Nat × Nat × Nat) :=
  let arr := (scan l r ops).arr
  let n := sumLens arr
  if n = 0 then none else pickGo n xi 0 arr

/-! ### the seed of a wire-fencing move

`wire_fencing(ens_set, trial_path, engine)` (tis.py): with `cap = tis_set.get("interface_cap", interfaces[2])`
it builds `wf_int = [interfaces[1], interfaces[1], cap]`, calls
`wirefence_weight_and_pick(trial_path, wf_int[0], wf_int[2], return_seg=True)` and, when the weight is not 0,
hands the returned segment with the sub-ensemble interfaces `wf_int` to `shoot`. -/

structure MoveSeed where
  subIntf : List Int            -- interfaces of the sub-ensemble the jumps are shot in
  seg     : Nat × Nat × Nat     -- (entry index, exit index, interior frames) of the seeding sub-path
deriving Repr, DecidableEq

/-- `none` = "NSG" without any MD (`n_frames == 0`). -/
def wfMoveSeed (i1 i2 : Int) (cap : Option Int) (ops : List Int) (xi : Rat) : Option MoveSeed :=
  let c := cap.getD i2
  (pick i1 c ops xi).map (fun seg => { subIntf := [i1, i1, c], seg := seg })

/-! ### start / end classification and the weight vector -/

inductive Side | L | R | U   -- U = undefined ('?' for start, None for end)
deriving Repr, DecidableEq

/-- `get_start_point(left,right)` on the first frame; the code asserts `left ≤ right`. -/
def startPoint (left right : Int) (first : Int) : Side :=
  if first ≤ left then .L else if first ≥ right then .R else .U

def endPoint (left right : Int) (last : Int) : Side :=
  if last ≤ left then .L else if last ≥ right then .R else .U

/-- Python's `start != end`: start is 'L' | 'R' | '?', end is 'L' | 'R' | None;
    '?' and None are different objects, so two undefined ends compare as different. -/
def sidesDiffer (s e : Side) : Bool :=
  match s, e with
  | .L, .L => false
  | .R, .R => false
  | _, _ => true

inductive Err | assert | index | value
deriving Repr, DecidableEq

/-- `compute_weight(path, [i0, i1, i2], move)`.  Errors: empty path → IndexError from
    phasepoints[0] (only after the scan); `i0 > i2` → AssertionError. -/
def computeWeight (ops : List Int) (i0 i1 i2 : Int) (wf : Bool) : Except Err Nat :=
  let w := if wf then weight i1 i2 ops else 1
  -- `get_start_point` asserts `left <= right` before it touches `phasepoints[0]`
  if i0 ≤ i2 then
    match ops.head?, ops.getLast? with
    | some first, some last =>
      if sidesDiffer (startPoint i0 i2 first) (endPoint i0 i2 last) && wf then .ok (2 * w) else .ok w
    | _, _ => .error .index
  else .error .assert

def maxOf : List Int → Option Int
  | [] => none
  | a :: t => some (t.foldl (fun m x => if x > m then x else m) a)

/-- `calc_cv_vector` for a plus path (`minus = False`).
    `moves` is the full list (`moves[idx+1]` is used for interface idx), `wf` flags. -/
def cvVectorGo (ops : List Int) (i0 : Int) (capOrLast : Int) (pmax : Int) :
    List Int → List Bool → Except Err (List Nat)
  | [], _ => .ok []
  | _ :: _, [] => .error .index
  | intf :: is, mv :: ms =>
    match (if mv then computeWeight ops i0 intf capOrLast true
           else .ok (if intf ≤ pmax then 1 else 0)) with
    | .error e => .error e
    | .ok w =>
      match cvVectorGo ops i0 capOrLast pmax is ms with
      | .error e => .error e
      | .ok ws => .ok (w :: ws)

/-- interfaces nonempty; `moves` given as wf-flags for `moves[1:]`. `cap = none` ⇒ last interface.
    Empty path → ValueError from argmax in the code (`.value`). -/
def cvVector (ops : List Int) (interfaces : List Int) (movesTail : List Bool) (cap : Option Int) :
    Except Err (List Nat) :=
  match maxOf ops, interfaces.head?, interfaces.getLast? with
  | some pmax, some i0, some ilast =>
    let c := match cap with | some c => c | none => ilast
    match cvVectorGo ops i0 c pmax interfaces.dropLast movesTail with
    | .error e => .error e
    | .ok ws => .ok (ws ++ [0])
  | none, _, _ => .error .value
  | _, _, _ => .error .index

/-- minus path: `(1,)` iff `bound ≤ max`, `bound` = λ₋₁ if given else λ₀ -/
def cvMinus (ops : List Int) (bound : Int) : Except Err (List Nat) :=
  match maxOf ops with
  | some pmax => .ok [if bound ≤ pmax then 1 else 0]
  | none => .error .value

/-! ### The specification (no scan state): frames on valid sub-paths

A frame is looked at together with its left context (`lctx`, the frames before it, nearest
first) and its right context (`rctx`, the frames after it).  It counts when it is inside
`[l, r)`, the nearest outside frame exists on both sides, and those two are not both `≥ r`
(so the sub-path connects left-left, left-right or right-left). -/

def inside (l r : Int) (x : Int) : Bool := decide (l ≤ x) && decide (x < r)

/-- nearest non-inside value of a context, all frames before it being inside -/
def firstOutside (l r : Int) : List Int → Option Int
  | [] => none
  | x :: t => if inside l r x then firstOutside l r t else some x

/-- the two bounding frames make a valid sub-path: both exist, not both on the right -/
def closes (r : Int) : Option Int → Option Int → Bool
  | some p, some q => !(decide (p ≥ r) && decide (q ≥ r))
  | _, _ => false

def validAt (l r : Int) (lctx : List Int) (x : Int) (rctx : List Int) : Bool :=
  inside l r x && closes r (firstOutside l r lctx) (firstOutside l r rctx)

/-- number of valid frames among `rest`, given the frames before them (nearest first) -/
def countFrom (l r : Int) : List Int → List Int → Nat
  | _, [] => 0
  | lctx, x :: t => (if validAt l r lctx x t then 1 else 0) + countFrom l r (x :: lctx) t

/-- the property's weight: number of frames inside `[l, r)` lying on sub-paths that connect
    left-left, left-right or right-left -/
def specWeight (l r : Int) (ops : List Int) : Nat := countFrom l r [] ops

end Infretis.WF
