/-
Extension of the wire-fencing weight model (package C10).  `Model/WF.lean` is shared and frozen; everything new
lives here.  Mirrors, as the code is (infretis/core/tis.py, infretis/classes/path.py, infretis/classes/repex.py):

  * the scan of `wirefence_weight_and_pick` WITH the branch taken and the state after every iteration
    (`branchOf`, `traceFrom`, `trace`),
  * the second half of `wirefence_weight_and_pick`: the guard `return_seg and n_frames and ens_set is not None`,
    the one `rgen.random()` request, the loop `for j in range(ipath[0], ipath[1] + 1): new_segment.append(...)`
    through `Path.append` (which refuses frames beyond `maxlen`), the copied attributes (`wfWeightAndPick`),
  * `compute_weight` with the move STRING ("wf", "ss", anything else) (`computeWeightM`),
  * `calc_cv_vector` with all its arguments (`minus`, `lambda_minus_one`, `cap`, full `moves` list, any number of
    interfaces incl. none) (`calcCvVector`),
  * `high_acc_swap` (`highAccSwap`),
  * the call sites that decide WHICH cap / interfaces / flags the weight functions receive:
    `REPEX_state.load_paths` (`loadPathsWeights`), `run_md` (`runMdWeights`), `subt_acceptance` (`subtWeight`),
    `wire_fencing` (`wfCallArgs`).

Order parameters: `List Int` (column 0 of `System.order`; `col0` models the `order[0]` look-up for frames that
carry several order-parameter columns).  No imports outside Model files: compiled into the driver.
-/
import Infretis.Model.WF

namespace Infretis.WFExt
open Infretis.WF

/-! ### 1. the scan with its branches -/

/-- which arm of the `if/elif` chain (tis.py:223-235) an iteration takes; `.none` = no arm -/
inductive Branch | jump | openL | openR | abortRR | close | none
deriving Repr, DecidableEq

/-- same conditions, same order as `Infretis.WF.step` -/
def branchOf (l r : Int) (s : Scan) (op1 op2 : Int) : Branch :=
  if (op1 < l ∧ op2 ≥ r) ∨ (op2 < l ∧ op1 ≥ r) then .jump
  else if op2 ≥ l ∧ l > op1 ∧ s.keyL = false then .openL
  else if op2 < r ∧ r ≤ op1 ∧ s.keyR = false then .openR
  else if s.keyR = true ∧ op2 ≥ r ∧ r > op1 then .abortRR
  else if (s.keyL = true ∨ s.keyR = true) ∧ ((op2 < l ∧ l ≤ op1) ∨ (op2 ≥ r ∧ r > op1)) then .close
  else .none

/-- the effect of each arm on `(key_l, key_r, isave, path_arr)` -/
def applyBranch (b : Branch) (s : Scan) (i : Nat) : Scan :=
  match b with
  | .jump => s
  | .openL => { s with isave := i, keyL := true }
  | .openR => { s with isave := i, keyR := true }
  | .abortRR => { s with keyL := false, keyR := false }
  | .close => { keyL := false, keyR := false, isave := s.isave, arr := s.arr ++ [(s.isave, i + 1, i - s.isave)] }
  | .none => s

/-- per iteration: the arm taken and the state after it -/
def traceFrom (l r : Int) : Scan → Nat → List Int → List (Branch × Scan)
  | _, _, [] => []
  | _, _, [_] => []
  | s, i, a :: b :: t =>
    let br := branchOf l r s a b
    let s' := applyBranch br s i
    (br, s') :: traceFrom l r s' (i + 1) (b :: t)

def trace (l r : Int) (ops : List Int) : List (Branch × Scan) := traceFrom l r Scan.init 0 ops

/-- state after the last iteration (`Scan.init` when the loop body never runs) -/
def traceFinal (l r : Int) (ops : List Int) : Scan :=
  match (trace l r ops).getLast? with
  | some (_, s) => s
  | none => Scan.init

/-! ### 2. the segment handed on by the pick -/

/-- `Path.append` on the order values: refused (silently, returns False) when `maxlen` is reached -/
def appendMax (maxlen : Option Nat) (acc : List Int) (x : Int) : List Int :=
  match maxlen with
  | none => acc ++ [x]
  | some m => if acc.length < m then acc ++ [x] else acc

/-- `for j in range(a, a + n): new_segment.append(path.phasepoints[j])`; IndexError if `j` is out of range -/
def rangeCopy (maxlen : Option Nat) (ops : List Int) : Nat → Nat → List Int → Except Err (List Int)
  | _, 0, acc => .ok acc
  | j, n + 1, acc =>
    match ops[j]? with
    | none => .error .index
    | some x => rangeCopy maxlen ops (j + 1) n (appendMax maxlen acc x)

/-- what `wirefence_weight_and_pick` hands back as second component -/
structure Seg where
  frames : List Int          -- order values of the segment's frames (the path's own frame objects, not copies)
  first : Nat                -- index in the old path of the segment's first frame (0 for the empty path)
  maxlen : Option Nat        -- `maxlen=path.maxlen`
  copied : Bool              -- status, time_origin copied from the path and generated = "ct" (false: empty path)
deriving Repr, DecidableEq

def Seg.empty (maxlen : Option Nat) : Seg := { frames := [], first := 0, maxlen := maxlen, copied := false }

structure PickOut where
  nFrames : Nat
  seg : Seg
  draws : Nat                -- number of `rgen.random()` requests
deriving Repr, DecidableEq

/-- `wirefence_weight_and_pick(path, l, r, return_seg, ens_set)`; `xi = none` ⇔ `ens_set is None`.
    The draw happens iff `return_seg and n_frames and ens_set is not None`; a ξ above every `c / n` (ξ > 1)
    falls through to the empty path. -/
def wfWeightAndPick (maxlen : Option Nat) (l r : Int) (ops : List Int) (returnSeg : Bool) (xi : Option Rat) :
    Except Err PickOut :=
  let arr := (scan l r ops).arr
  let n := sumLens arr
  match returnSeg, decide (n = 0), xi with
  | true, false, some x =>
    match pickGo n x 0 arr with
    | some (a, b, _) =>
      match rangeCopy maxlen ops a (b + 1 - a) [] with
      | .error e => .error e
      | .ok fr => .ok { nFrames := n, seg := { frames := fr, first := a, maxlen := maxlen, copied := true }, draws := 1 }
    | none => .ok { nFrames := n, seg := Seg.empty maxlen, draws := 1 }
  | _, _, _ => .ok { nFrames := n, seg := Seg.empty maxlen, draws := 0 }

/-- the arguments `wire_fencing` passes on: `intf_cap = tis_set.get("interface_cap", interfaces[2])`,
    `wf_int = [interfaces[1]] * 2 + [intf_cap]`, scan between `wf_int[0]` and `wf_int[2]` with `return_seg=True` -/
def wfCallArgs (i1 i2 : Int) (cap : Option Int) : List Int × Int × Int :=
  let c := cap.getD i2
  ([i1, i1, c], i1, c)

/-- `wire_fencing` up to its first `shoot`: `none` = returns "NSG" without MD (`n_frames == 0`) -/
def wfSeed (maxlen : Option Nat) (i1 i2 : Int) (cap : Option Int) (ops : List Int) (xi : Rat) :
    Except Err (Option (List Int × Seg)) :=
  let (sub, l, r) := wfCallArgs i1 i2 cap
  match wfWeightAndPick maxlen l r ops true (some xi) with
  | .error e => .error e
  | .ok o => if o.nFrames = 0 then .ok none else .ok (some (sub, o.seg))

/-! ### 3. compute_weight with the move string, calc_cv_vector with all arguments -/

/-- the `move` string: "sh" and every other string behave alike -/
inductive Move | sh | ss | wf
deriving Repr, DecidableEq

/-- `compute_weight(path, [i0, i1, i2], move)` (tis.py:151-185): the scan only for "wf", the factor 2 for
    "ss" and "wf"; `get_start_point` asserts `i0 ≤ i2` before it touches `phasepoints[0]`. -/
def computeWeightM (ops : List Int) (i0 i1 i2 : Int) (mv : Move) : Except Err Nat :=
  let w := if mv = .wf then weight i1 i2 ops else 1
  if i0 ≤ i2 then
    match ops.head?, ops.getLast? with
    | some first, some last =>
      if sidesDiffer (startPoint i0 i2 first) (endPoint i0 i2 last) && (mv = .ss || mv = .wf)
      then .ok (2 * w) else .ok w
    | _, _ => .error .index
  else .error .assert

/-- `order[0]` of every frame (IndexError for a frame without order values) -/
def col0 : List (List Int) → Except Err (List Int)
  | [] => .ok []
  | [] :: _ => .error .index
  | (x :: _) :: t =>
    match col0 t with
    | .error e => .error e
    | .ok xs => .ok (x :: xs)

structure CvArgs where
  interfaces : List Int
  moves : List Move          -- the FULL list: `moves[idx + 1]` belongs to interface `idx`
  lm1 : Option Int           -- `lambda_minus_one`; `none` = the default `False`
  cap : Option Int
  minus : Bool
deriving Repr

/-- the `for idx, intf_i in enumerate(interfaces[:-1])` loop; `mvs` = `moves[idx + 1:]` -/
def cvLoop (ops : List Int) (i0 c pmax : Int) : List Int → List Move → Except Err (List Nat)
  | [], _ => .ok []
  | _ :: _, [] => .error .index
  | intf :: is, mv :: ms =>
    match (if mv = .wf then computeWeightM ops i0 intf c .wf
           else .ok (if intf ≤ pmax then 1 else 0)) with
    | .error e => .error e
    | .ok w =>
      match cvLoop ops i0 c pmax is ms with
      | .error e => .error e
      | .ok ws => .ok (w :: ws)

/-- `calc_cv_vector(path, interfaces, moves, lambda_minus_one, cap, minus)` (tis.py:110-148).
    `path.ordermax` first (ValueError on an empty path); the minus branch never looks at `moves`/`cap`;
    no interface at all gives `(0.0,)`. -/
def calcCvVector (ops : List Int) (a : CvArgs) : Except Err (List Nat) :=
  match maxOf ops with
  | none => .error .value
  | some pmax =>
    if a.minus then
      match a.lm1 with
      | some b => .ok [if b ≤ pmax then 1 else 0]
      | none =>
        match a.interfaces.head? with
        | some i0 => .ok [if i0 ≤ pmax then 1 else 0]
        | none => .error .index
    else
      match a.interfaces.head?, a.interfaces.getLast? with
      | some i0, some ilast =>
        let c := a.cap.getD ilast
        match cvLoop ops i0 c pmax a.interfaces.dropLast (a.moves.drop 1) with
        | .error e => .error e
        | .ok ws => .ok (ws ++ [0])
      | _, _ => .ok [0]

/-! ### 4. high_acc_swap -/

structure SwapOut where
  accept : Bool              -- status "ACC" / "HAS"
  ratio : Rat                -- `p_swap_acc`
deriving Repr, DecidableEq

/-- `high_acc_swap(paths=[pa, pb], rgen, intf0=[a0,a1,a2], intf1=[b0,b1,b2], ens_moves=[m0,m1])`; ξ answers
    the one `rgen.random()` (requested on every non-raising call). -/
def highAccSwap (pa pb : List Int) (a0 a1 a2 b0 b1 b2 : Int) (m0 m1 : Move) (xi : Rat) : Except Err SwapOut :=
  match computeWeightM pa a0 a1 a2 m0 with
  | .error e => .error e
  | .ok c1o =>
  match computeWeightM pb b0 b1 b2 m1 with
  | .error e => .error e
  | .ok c2o =>
  match computeWeightM pb a0 a1 a2 m0 with
  | .error e => .error e
  | .ok c1n =>
  match computeWeightM pa b0 b1 b2 m1 with
  | .error e => .error e
  | .ok c2n =>
    let p : Rat := if c1o = 0 ∨ c2o = 0 then 1
                   else ((c1n * c2n : Nat) : Rat) / ((c1o * c2o : Nat) : Rat)
    .ok { accept := decide (xi < p), ratio := p }

/-! ### 5. the call sites: which cap, interfaces and flags reach the weight functions -/

/-- `REPEX_state.load_paths` for one plus path: `calc_cv_vector(path, config interfaces, mc_moves,
    lambda_minus_one=config λ₋₁, cap=self.cap)` — `minus` stays False, so λ₋₁ plays no role -/
def loadPathWeights (interfaces : List Int) (moves : List Move) (lm1 cap : Option Int) (ops : List Int) :
    Except Err (List Nat) :=
  calcCvVector ops { interfaces := interfaces, moves := moves, lm1 := lm1, cap := cap, minus := false }

/-- the loop over `paths[1:]` (first error wins, in path order) -/
def loadPlus (interfaces : List Int) (moves : List Move) (lm1 cap : Option Int) :
    List (List Int) → Except Err (List (List Nat))
  | [] => .ok []
  | p :: ps =>
    match loadPathWeights interfaces moves lm1 cap p with
    | .error e => .error e
    | .ok w =>
      match loadPlus interfaces moves lm1 cap ps with
      | .error e => .error e
      | .ok ws => .ok (w :: ws)

/-- `load_paths`: the plus paths first, then `paths[0].weights = (1.0,)` whatever the [0-] path is -/
def loadPathsWeights (interfaces : List Int) (moves : List Move) (lm1 cap : Option Int) :
    List (List Int) → Except Err (List (List Nat))
  | [] => .error .index
  | _ :: plus =>
    match loadPlus interfaces moves lm1 cap plus with
    | .error e => .error e
    | .ok ws => .ok ([1] :: ws)

/-- `run_md` after an accepted move, for the trial of ensemble `ensNum` (−1 = [0-]):
    `calc_cv_vector(trial, md_items["interfaces"], md_items["mc_moves"], tis_set["lambda_minus_one"],
    cap=md_items["cap"], minus=ens_num < 0)` -/
def runMdWeights (interfaces : List Int) (moves : List Move) (lm1 cap : Option Int) (ensNum : Int)
    (ops : List Int) : Except Err (List Nat) :=
  calcCvVector ops { interfaces := interfaces, moves := moves, lm1 := lm1, cap := cap,
                     minus := decide (ensNum < 0) }

/-- `subt_acceptance`: `intf[2] = tis_set.get("interface_cap", intf[2])` only when `mc_move == "wf"`, then
    `trial_path.weight = compute_weight(trial_path, intf, move)` -/
def subtWeight (l m r : Int) (cap : Option Int) (mv : Move) (ops : List Int) : Except Err Nat :=
  let r' := if mv = .wf then cap.getD r else r
  computeWeightM ops l m r' mv

/-! ### 6. audit additions: `load_paths` with the state's own size, `run_md` over all its trials

Found by the independent audit: `loadPathsWeights` above weighs every path it is given, whereas the code loops over
`range(size - 1)` with `size = self.n - 1` taken from `config["current"]["size"]` — a list that is shorter raises
IndexError, paths beyond `size` are never looked at (their `weights` stay `None`).  `runMdWeights` above is ONE call of
`calc_cv_vector`; `run_md` loops over `zip(trials, picked.keys())` (two trials after a zero swap), each trial with the
`minus` flag of its OWN ensemble number, and touches `mc_moves[ens_num + 1]` and `trial.ordermin` before. -/

/-- the loop `for i in range(size - 1)`: `k` iterations left, next path index `j` (`paths[i + 1]`) -/
def loadPlusIdx (interfaces : List Int) (moves : List Move) (lm1 cap : Option Int) (paths : List (List Int)) :
    Nat → Nat → Except Err (List (List Nat))
  | _, 0 => .ok []
  | j, k + 1 =>
    match paths[j]? with
    | none => .error .index
    | some p =>
      match loadPathWeights interfaces moves lm1 cap p with
      | .error e => .error e
      | .ok w =>
        match loadPlusIdx interfaces moves lm1 cap paths (j + 1) k with
        | .error e => .error e
        | .ok ws => .ok (w :: ws)

/-- `REPEX_state.load_paths(paths)` for a state with `size = self.n - 1` (= `config["current"]["size"]`): the plus
    paths `paths[1] … paths[size - 1]` in order (IndexError when one is missing, first error wins), THEN
    `paths[0].weights = (1.0,)` (IndexError on an empty list).  One entry per given path; `none` = the path was never
    looked at (`weights` stays `None`). -/
def loadPathsWeightsN (size : Nat) (interfaces : List Int) (moves : List Move) (lm1 cap : Option Int)
    (paths : List (List Int)) : Except Err (List (Option (List Nat))) :=
  match loadPlusIdx interfaces moves lm1 cap paths 1 (size - 1) with
  | .error e => .error e
  | .ok ws =>
    match paths with
    | [] => .error .index
    | _ :: rest => .ok (some [1] :: (ws.map some ++ List.replicate (rest.length - ws.length) none))

/-- Python's `lst[i]` succeeds: `0 ≤ i < len` or `-len ≤ i < 0` -/
def pyIndexOk (len : Nat) (i : Int) : Bool :=
  if 0 ≤ i then decide (i < (len : Int)) else decide (-i ≤ (len : Int))

/-- one iteration of the loop in `run_md` (tis.py:88-104): `md_items["mc_moves"][ens_num + 1]` (IndexError), then
    `trial.ordermin` (ValueError on an empty trial) — both whatever the status —, then, only for status "ACC",
    `calc_cv_vector(trial, interfaces, mc_moves, picked[ens_num]["ens"]["tis_set"]["lambda_minus_one"],
    cap=md_items["cap"], minus=ens_num < 0)`.  `none` = `trial.weights` not assigned. -/
def runMdOne (interfaces : List Int) (moves : List Move) (cap : Option Int) (acc : Bool) (ens : Int)
    (lm1 : Option Int) (ops : List Int) : Except Err (Option (List Nat)) :=
  if pyIndexOk moves.length (ens + 1) = false then .error .index
  else if ops.isEmpty then .error .value
  else if acc then
    match runMdWeights interfaces moves lm1 cap ens ops with
    | .error e => .error e
    | .ok w => .ok (some w)
  else .ok none

/-- `for trial, ens_num in zip(trials, picked.keys())`: stops with the shorter list, first error wins -/
def runMdAll (interfaces : List Int) (moves : List Move) (cap : Option Int) (acc : Bool) :
    List (List Int) → List (Int × Option Int) → Except Err (List (Option (List Nat)))
  | [], _ => .ok []
  | _ :: _, [] => .ok []
  | t :: ts, (e, lm1) :: ks =>
    match runMdOne interfaces moves cap acc e lm1 t with
    | .error er => .error er
    | .ok w =>
      match runMdAll interfaces moves cap acc ts ks with
      | .error er => .error er
      | .ok ws => .ok (w :: ws)

/-! ### 7. the property's sub-paths without scan state (specification of `path_arr`)

Walking the path once with `pred` = index and value of the nearest outside frame seen so far and `run` = number of
inside frames since: a sub-path `(entry index, exit index, run)` is listed at every outside frame that ends a
non-empty inside run whose two bounding frames are not both on the right.  No keys, no five-branch chain. -/
def segsFrom (l r : Int) : Option (Nat × Int) → Nat → Nat → List Int → List (Nat × Nat × Nat)
  | _, _, _, [] => []
  | pred, run, i, x :: t =>
    if inside l r x then segsFrom l r pred (run + 1) (i + 1) t
    else
      (match pred with
       | some (j, p) => if run ≠ 0 ∧ ¬ (p ≥ r ∧ x ≥ r) then [(j, i, run)] else []
       | none => []) ++ segsFrom l r (some (i, x)) 0 (i + 1) t

/-- the valid sub-paths of `[l, r)` in path order: what `path_arr` has to be -/
def specSegs (l r : Int) (ops : List Int) : List (Nat × Nat × Nat) := segsFrom l r none 0 0 ops

end Infretis.WFExt
