/-
Model of the two zero-swap moves of infretis/core/tis.py (C11):
  retis_swap_zero     (tis.py:798-1010)   incl. high_acc_swap (tis.py:1013-1061)
  quantis_swap_zero   (tis.py:1064-1324)
and of what they use from classes/path.py (append, `+=`, paste_paths, reverse(rev_v=False),
copy, check_interfaces, get_start_point, get_end_point) and from
EngineBase.propagate (enginebase.py:252-333: the velocity-reversal bookkeeping around
`_propagate_from`).

Frames.  A frame carries its order value, a *configuration* (the content of the file the
frame's `config = (file, idx)` points to: positions `x` and stored velocities `v`), the
`vel_rev` flag and the potential energy (`none` = Python `None`).  The physical phase point of
a frame is `cfg` with the velocities negated iff `vel_rev`.  `dump_phasepoint` only changes
*where* the configuration is stored, not the content, so it is the identity here (it is
logged as an engine request).

Engine.  One `propagate` call is answered by a `Script`: the frames the MD program produces
*after* the initial one, in order.  `EngineBase.propagate` (real code) reverses the stored
velocities of the initial configuration iff `reverse != system.vel_rev` and sets
`vel_rev = reverse`; every engine's `_propagate_from` then feeds the initial configuration as
frame 0 and the produced frames through `add_to_path` (shared model `Engine.feed`) with
`left, _, right = ens_set["interfaces"]`, all flagged `vel_rev = reverse`.

Numbers: order values, interfaces, energies are `Int` (the harness feeds integer-valued floats;
`-inf` is sent as an integer below every order value of the case); ξ, p are `Rat`.
`exp` stays outside: `quantisSwapZero` reports the exponent it would pass to `np.exp`
(`expArg`) and takes the result `p` as an argument.

Imports: only other Infretis.Model files (compiled into the native driver).
-/
import Infretis.Model.AddToPath
import Infretis.Model.WF

namespace Infretis.ZeroSwap
open Infretis.Engine

structure Cfg where
  x : Int
  v : Int
deriving Repr, DecidableEq

/-- `_reverse_velocities` on a stored configuration -/
def Cfg.flip (c : Cfg) : Cfg := { x := c.x, v := -c.v }

structure Frame where
  op : Int
  cfg : Cfg
  vr : Bool
  vpot : Option Int
deriving Repr, DecidableEq

/-- the physical phase point: stored velocities negated iff `vel_rev` -/
def Frame.phys (f : Frame) : Cfg := if f.vr then f.cfg.flip else f.cfg

/-- a frame as the MD program writes it (the caller flags it with `vel_rev = reverse`) -/
structure GenFrame where
  op : Int
  cfg : Cfg
  vpot : Option Int
deriving Repr, DecidableEq

/-- the answer of the engine to one `propagate` call: energy it reports for frame 0
    (the initial configuration at *its* level of theory) and the frames after it -/
structure Script where
  v0 : Option Int
  rest : List GenFrame
deriving Repr, DecidableEq

inductive Status
  | none | ACC | BTX | BTS | ZL | FTX | FTS | HAS
  | QNE | QLL | QS0 | QS1 | QEA | QRS | QLR | ZR
deriving Repr, DecidableEq

def Status.str : Status → String
  | .none => "-" | .ACC => "ACC" | .BTX => "BTX" | .BTS => "BTS" | .ZL => "0-L"
  | .FTX => "FTX" | .FTS => "FTS" | .HAS => "HAS" | .QNE => "QNE" | .QLL => "QLL"
  | .QS0 => "QS0" | .QS1 => "QS1" | .QEA => "QEA" | .QRS => "QR*" | .QLR => "QLR" | .ZR => "0+R"

inductive Err | assert | index | type | value
deriving Repr, DecidableEq

/-- what the engines are asked to do, in call order.
    `propagate engine reverse startOp startCfg maxlen left right`: `engine` 0 = engines[-1][0],
    1 = engines[0][0]; `startCfg` = content of the initial configuration file handed to
    `_propagate_from` (after the velocity reversal); `maxlen` of the path to fill.
    `dump engine tag cfg`: `dump_phasepoint` (tag 1 = "second", 0 = "second_last").
    `fresh`: the `System` object handed to the engine is a COPY (`.copy()`), not a frame object of one
    of the old paths.  Both `propagate` (re-points `config` to a scratch file, forces `vel_rev`) and
    `dump_phasepoint` (`set_pos`) mutate the object they are given, so an old path stays untouched
    exactly when every request is fresh; the code copies at every such spot and the model records it. -/
inductive Req
  | propagate (engine : Nat) (reverse : Bool) (startOp : Int) (startCfg : Cfg) (maxlen : Nat) (left right : Int)
      (fresh : Bool)
  | dump (engine : Nat) (tag : Nat) (cfg : Cfg) (fresh : Bool)
deriving Repr, DecidableEq

def Req.fresh : Req → Bool
  | .propagate _ _ _ _ _ _ _ f => f
  | .dump _ _ _ f => f

/-- ensemble settings as read by the swap functions: interfaces, tis_set["maxlength"],
    membership of 'L' / 'R' in `set(start_cond)`, `mc_move == "wf"`, tis_set.get("interface_cap") -/
structure Ens where
  i0 : Int
  i1 : Int
  i2 : Int
  maxlen : Nat
  scL : Bool
  scR : Bool
  wf : Bool
  cap : Option Int
deriving Repr, DecidableEq

/-- `min(interfaces)`, `max(interfaces)` as used by `check_interfaces` -/
def Ens.lo (e : Ens) : Int := min e.i0 (min e.i1 e.i2)
def Ens.hi (e : Ens) : Int := max e.i0 (max e.i1 e.i2)
/-- `intf_w[i][2]` -/
def Ens.w2 (e : Ens) : Int := match e.cap with | some c => c | none => e.i2

structure Result where
  accept : Bool
  status : Status
  path0 : List Frame
  path1 : List Frame
  st0 : Status          -- `.status` of the returned paths (`none` = left as it was)
  st1 : Status
  w0 : Nat              -- `.weight` set on the returned paths (0 = not set)
  w1 : Nat
  reqs : List Req
  draws : Nat           -- number of `rgen.random()` calls
  expArg : Option Rat   -- argument handed to `np.exp` (QuanTIS), `none` if not reached
deriving Repr, DecidableEq

/-! ### paths -/

def ops (p : List Frame) : List Int := p.map (·.op)

/-- `path.append(x)` with the refusal silently ignored -/
def appendMax (p : List Frame) (m : Nat) (f : Frame) : List Frame := (pathAppend p (some m) f).1

/-- `for x in xs: path.append(x)`; also `path += other` and the loops of `paste_paths`
    (those stop at the first refusal, which gives the same frames) -/
def appendAll (p : List Frame) (m : Nat) (xs : List Frame) : List Frame :=
  xs.foldl (fun acc f => appendMax acc m f) p

/-- `'L'` as start / end in `check_interfaces` (empty path: `None`) -/
def startIsL (lo : Int) (p : List Frame) : Bool :=
  match p.head? with | some f => decide (f.op ≤ lo) | none => false
def endIsL (lo : Int) (p : List Frame) : Bool :=
  match p.getLast? with | some f => decide (f.op ≤ lo) | none => false

/-! ### EngineBase.propagate -/

/-- content of the configuration file handed to `_propagate_from` -/
def startCfg (sys : Frame) (reverse : Bool) : Cfg :=
  if reverse != sys.vr then sys.cfg.flip else sys.cfg

/-- the frames offered to `add_to_path`, in order -/
def streamOf (sys : Frame) (reverse : Bool) (scr : Script) : List Frame :=
  { op := sys.op, cfg := startCfg sys reverse, vr := reverse, vpot := scr.v0 } ::
    scr.rest.map (fun g => { op := g.op, cfg := g.cfg, vr := reverse, vpot := g.vpot })

/-- `engine.propagate(path, ens_set, sys, reverse)` into an EMPTY path with `maxlen`.
    `none` = IndexError inside `add_to_path` (only for `maxlen ≤ 0`). Returns frames, success. -/
def propagate (maxlen : Nat) (left right : Int) (sys : Frame) (reverse : Bool) (scr : Script) :
    Option (List Frame × Bool) :=
  let st := streamOf sys reverse scr
  match feed left right (some maxlen) [] (ops st) 0 with
  | none => none
  | some (ops', succ, _) => some (st.take ops'.length, succ)

def propReq (engine : Nat) (maxlen : Nat) (left right : Int) (sys : Frame) (reverse : Bool) : Req :=
  -- every call site passes `x.copy()` (tis.py:891/898, 939/944, 1143-1144, 1240, 1284)
  .propagate engine reverse sys.op (startCfg sys reverse) maxlen left right true

/-! ### retis_swap_zero -/

/-- status of the new [0-] path (tis.py:915-925) -/
def status0 (e0 : Ens) (path0 : List Frame) : Status :=
  if path0.length = e0.maxlen then .BTX
  else if path0.length < 3 then .BTS
  else if !e0.scL && (startIsL e0.lo path0 || endIsL e0.lo path0) then .ZL
  else .ACC

/-- status of the new [0+] path (tis.py:968-973) -/
def status1 (e1 : Ens) (path1 : List Frame) : Status :=
  if path1.length ≥ e1.maxlen then .FTX
  else if path1.length < 3 then .FTS
  else .ACC

/-- step 1 (tis.py:886-914): backward propagation from the first frame of old [0+] with the
    [0-] interfaces into a path of `maxlen1 - 1`, reversed into `path0 (maxlen0)`, then the
    second frame of old [0+] appended. -/
def buildPath0 (e0 e1 : Ens) (allowed : Bool) (old1 : List Frame) (bw : Script) :
    Except Err (List Frame × List Req) :=
  match old1 with
  | [] => .error .index
  | first1 :: rest1 =>
    match (if allowed then propagate (e1.maxlen - 1) e0.i0 e0.i2 first1 true bw
           else some (appendMax [] (e1.maxlen - 1) first1, false)) with
    | none => .error .index
    | some (tmp, _) =>
      match rest1 with
      | [] => .error .index
      | second1 :: _ =>
        let path0 := appendMax (appendAll [] e0.maxlen tmp.reverse) e0.maxlen second1
        .ok (path0, (if allowed then [propReq 0 (e1.maxlen - 1) e0.i0 e0.i2 first1 true] else [])
                    ++ [Req.dump 1 1 second1.cfg true])

/-- step 2 (tis.py:927-957): forward propagation from the last frame of old [0-] with the
    [0+] interfaces into a path of `maxlen1 - 1`; the second-last frame of old [0-] in front. -/
def buildPath1 (e1 : Ens) (allowed : Bool) (old0 : List Frame) (last0 : Frame) (fw : Script) :
    Except Err (List Frame × List Req) :=
  if allowed then
    match propagate (e1.maxlen - 1) e1.i0 e1.i2 last0 false fw with
    | none => .error .index
    | some (tmp, _) =>
      match old0.reverse with
      | _ :: secondLast :: _ =>
        .ok (appendAll (appendMax [] e1.maxlen secondLast) e1.maxlen tmp,
             [propReq 1 (e1.maxlen - 1) e1.i0 e1.i2 last0 false, Req.dump 0 0 secondLast.cfg true])
      | _ => .error .index
  else .ok (appendMax [] (e1.maxlen - 1) last0, [])

def wfErr : WF.Err → Err
  | .assert => .assert | .index => .index | .value => .value

def cw (p : List Frame) (e : Ens) : Except Err Nat :=
  -- `get_start_point` asserts `left <= right` before it touches `phasepoints[0]`
  -- (WF.computeWeight reports the IndexError of an empty path first)
  if ¬ (e.i0 ≤ e.w2) then .error .assert else
  match WF.computeWeight (ops p) e.i0 e.i1 e.w2 e.wf with
  | .ok w => .ok w
  | .error x => .error (wfErr x)

/-- `high_acc_swap([path1, path_old1], rgen, intf_w[0], intf_w[1], ens_moves)`:
    accepted iff `ξ < c1_new*c2_new/(c1_old*c2_old)` (1 if a denominator weight is 0). -/
def highAcc (e0 e1 : Ens) (path1 old1 : List Frame) (xi : Rat) : Except Err Bool :=
  match cw path1 e0 with
  | .error x => .error x
  | .ok c1o =>
  match cw old1 e1 with
  | .error x => .error x
  | .ok c2o =>
  match cw old1 e0 with
  | .error x => .error x
  | .ok c1n =>
  match cw path1 e1 with
  | .error x => .error x
  | .ok c2n =>
    let p : Rat := if c1o = 0 ∨ c2o = 0 then 1
                   else ((c1n * c2n : Nat) : Rat) / ((c1o * c2o : Nat) : Rat)
    .ok (decide (xi < p))

/-- `path.weight = compute_weight(path, intf_w[i], move) if move in ("wf") else 1` -/
def finalWeight (p : List Frame) (e : Ens) : Except Err Nat :=
  if e.wf then cw p e else .ok 1

/-- tis.py:976-1010 -/
def finish (e0 e1 : Ens) (old1 path0 path1 : List Frame) (reqs : List Req) (xi : Rat) :
    Except Err Result :=
  let s0 := status0 e0 path0
  let s1 := status1 e1 path1
  let acc0 := decide (s0 = .ACC) && decide (s1 = .ACC)
  let st := if acc0 then Status.ACC else (if s0 ≠ .ACC then s0 else s1)
  match (if acc0 && (e0.wf || e1.wf) then
           (match highAcc e0 e1 path1 old1 xi with
            | .error x => Except.error x
            | .ok a => .ok (a, if a then Status.ACC else Status.HAS, 1))
         else .ok (acc0, st, 0)) with
  | .error x => .error x
  | .ok (acc, status, draws) =>
    let f0 := if !acc && decide (s0 = .ACC) then status else s0
    let f1 := if !acc && decide (s1 = .ACC) then status else s1
    match finalWeight path0 e0 with
    | .error x => .error x
    | .ok w0 =>
    match finalWeight path1 e1 with
    | .error x => .error x
    | .ok w1 =>
      .ok { accept := acc, status := status, path0 := path0, path1 := path1, st0 := f0, st1 := f1,
            w0 := w0, w1 := w1, reqs := reqs, draws := draws, expArg := none }

/-- `allowed` (tis.py:872-877): `get_end_point(interfaces[0], interfaces[-1]) == "R"` -/
def allowedOf (e0 : Ens) (last0 : Frame) : Bool :=
  decide (¬ last0.op ≤ e0.i0 ∧ last0.op ≥ e0.i2)

/-- the λ₋₁ early rejection (tis.py:882-884) -/
def earlyLeft (e0 : Ens) (last0 : Frame) : Bool :=
  (e0.scL && e0.scR) && decide (last0.op ≤ e0.lo)

def rejected0L (old0 old1 : List Frame) : Result :=
  { accept := false, status := .ZL, path0 := old0, path1 := old1, st0 := .none, st1 := .none,
    w0 := 0, w1 := 0, reqs := [], draws := 0, expArg := none }

/-- `retis_swap_zero(picked, engines)`; `bw` answers `engine0.propagate(reverse=True)`,
    `fw` answers `engine1.propagate(reverse=False)`; ξ answers the one `rgen.random()` of
    `high_acc_swap`. -/
def retisSwapZero (e0 e1 : Ens) (old0 old1 : List Frame) (bw fw : Script) (xi : Rat) :
    Except Err Result :=
  if ¬ (e0.i0 ≤ e0.i2) then .error .assert
  else
    match old0.getLast? with
    | none => .error .index
    | some last0 =>
      if earlyLeft e0 last0 then .ok (rejected0L old0 old1)
      else
        match buildPath0 e0 e1 (allowedOf e0 last0) old1 bw with
        | .error x => .error x
        | .ok (path0, rq0) =>
          match buildPath1 e1 (allowedOf e0 last0) old0 last0 fw with
          | .error x => .error x
          | .ok (path1, rq1) => finish e0 e1 old1 path0 path1 (rq0 ++ rq1) xi

/-! ### quantis_swap_zero -/

/-- `get_end_point(lambda0) == "R"`: last frame strictly right of λ0 -/
def endIsR (lam : Int) (p : List Frame) : Bool :=
  match p.getLast? with | some f => decide (¬ f.op ≤ lam ∧ f.op ≥ lam) | none => false

/-- status of the completed [0-] path (tis.py:1268-1278) -/
def qstatus0 (e0 : Ens) (maxlen0 : Nat) (p : List Frame) : Status :=
  if p.length ≥ maxlen0 then .BTX
  else if p.length < 3 then .BTS
  else if !e0.scL && (startIsL e0.lo p || endIsL e0.lo p) then .ZL
  else .ACC

/-- status of the completed [0+] path (tis.py:1308-1315); `new_path1.get_end_point` is a bound
    method, always truthy -/
def qstatus1 (lam : Int) (maxlen1 : Nat) (p : List Frame) : Status :=
  if p.length = maxlen1 then .FTX
  else if p.length < 3 then .FTS
  else if !(startIsL lam p) then .ZR
  else .ACC

def qres (accept : Bool) (status : Status) (p0 p1 : List Frame) (s0 s1 : Status) (w : Nat)
    (reqs : List Req) (draws : Nat) (ea : Option Rat) : Result :=
  { accept := accept, status := status, path0 := p0, path1 := p1, st0 := s0, st1 := s1,
    w0 := w, w1 := w, reqs := reqs, draws := draws, expArg := ea }

/-- the part after the energy rule (tis.py:1237-1324) -/
def quantisCompleteCore (e0 e1 : Ens) (lam : Int) (maxlen0 maxlen1 : Nat) (sc1L : Bool)
    (tmp0 tmp1 : List Frame) (scC scD : Script) (reqs : List Req) :
    Except Err (Bool × Status × List Frame × List Frame × Status × Status × Nat × List Req) :=
  match tmp0 with
  | [] => .error .index
  | sp0 :: tmp0tail =>
    if !sc1L then   -- `if start_cond1 != "L"` (dead: start_cond1 was checked to be "L")
      .ok (false, .QRS, appendMax [] (maxlen0 - 1) sp0, tmp1, .none, .QRS, 0, reqs)
    else
      match propagate (maxlen0 - 1) e0.i0 e0.i2 sp0 true scC with
      | none => .error .index
      | some (back, _) =>
        let reqs := reqs ++ [propReq 0 (maxlen0 - 1) e0.i0 e0.i2 sp0 true]
        -- paste_paths(new_path0, tmp_path0, maxlen=maxlen0)
        let new0 := appendAll (appendAll [] maxlen0 back.reverse) maxlen0 tmp0tail
        let s0 := qstatus0 e0 maxlen0 new0
        if s0 ≠ .ACC then .ok (false, s0, new0, tmp1, s0, .none, 0, reqs)
        else
          match tmp1.getLast? with
          | none => .error .index
          | some sp1 =>
            if decide (sp1.op < lam) then   -- start_cond1 != "R"
              .ok (false, .QLR, new0, appendMax [] (maxlen1 - 1) sp1, .QLR, .QLR, 0, reqs)
            else
              match propagate (maxlen1 - 1) e1.i0 e1.i2 sp1 false scD with
              | none => .error .index
              | some (forw, _) =>
                let reqs := reqs ++ [propReq 1 (maxlen1 - 1) e1.i0 e1.i2 sp1 false]
                -- paste_paths(tmp_path1.reverse(None, rev_v=False), new_path1, maxlen=maxlen1)
                let new1 := appendAll (appendAll [] maxlen1 tmp1.reverse.reverse) maxlen1 forw.tail
                let s1 := qstatus1 lam maxlen1 new1
                if s1 ≠ .ACC then .ok (false, s1, new0, new1, .ACC, s1, 0, reqs)
                else .ok (true, .ACC, new0, new1, .ACC, .ACC, 1, reqs)

/-- `quantisCompleteCore` packed into a `Result`: one number was drawn, the exponent was `ea` -/
def quantisComplete (e0 e1 : Ens) (lam : Int) (maxlen0 maxlen1 : Nat) (sc1L : Bool)
    (tmp0 tmp1 : List Frame) (scC scD : Script) (reqs : List Req) (ea : Option Rat) :
    Except Err Result :=
  match quantisCompleteCore e0 e1 lam maxlen0 maxlen1 sc1L tmp0 tmp1 scC scD reqs with
  | .error x => .error x
  | .ok (a, st, p0, p1, s0, s1, w, rq) => .ok (qres a st p0 p1 s0 s1 w rq 1 ea)

/-- `deltaV0 * engine0.beta - deltaV1 * engine1.beta` -/
def expArgOf (beta0 beta1 : Rat) (v0r0 v0r1 v1r1 v1r0 : Int) : Rat :=
  ((v0r0 - v0r1 : Int) : Rat) * beta0 - ((v1r0 - v1r1 : Int) : Rat) * beta1

/-- outcome of everything before the energy rule (tis.py:1127-1223); independent of ξ, p, accept_all -/
inductive QPre
  | err (e : Err)
  /-- an early rejection `return False, [p0, p1], status` -/
  | early (status : Status) (p0 p1 : List Frame) (s0 s1 : Status) (reqs : List Req)
  /-- both one-step paths crossed λ0: the energy rule is evaluated with exponent `ea` -/
  | reached (tmp0 tmp1 : List Frame) (reqs : List Req) (ea : Rat) (sc1L : Bool)

def quantisPre (e0 : Ens) (old0 old1 : List Frame) (scA scB : Script) (beta0 beta1 : Rat) : QPre :=
  let lam := e0.i2
  match old1 with
  | [] => .err .index
  | sp0 :: _ =>
    match old0.reverse with
    | _ :: sp1 :: _ =>
      if sp0.vpot.isNone || sp1.vpot.isNone then
        .early .QNE (appendMax [] 2 sp0) (appendMax [] 2 sp1) .QNE .QNE []
      else
        let sc0L := decide (sp0.op < lam)
        let sc1L := decide (sp1.op < lam)
        if !sc0L || !sc1L then
          .early .QLL (appendMax [] 2 sp0) (appendMax [] 2 sp1) .QLL .QLL []
        else
          match propagate 2 e0.i0 e0.i2 sp0 false scA with
          | none => .err .index
          | some (tmp0, _) =>
            let reqs := [propReq 0 2 e0.i0 e0.i2 sp0 false]
            if !(endIsR lam tmp0) then
              .early .QS0 tmp0 (appendMax [] 2 sp1) .QS0 .QS0 reqs
            else
              -- engine1 is handed ens_set0 here (tis.py:1205)
              match propagate 2 e0.i0 e0.i2 sp1 false scB with
              | none => .err .index
              | some (tmp1, _) =>
                let reqs := reqs ++ [propReq 1 2 e0.i0 e0.i2 sp1 false]
                if !(endIsR lam tmp1) then
                  .early .QS1 tmp0 tmp1 .none .QS1 reqs
                else
                  match sp1.vpot, tmp0.head?.bind (·.vpot), sp0.vpot, tmp1.head?.bind (·.vpot) with
                  | some v0r0, some v0r1, some v1r1, some v1r0 =>
                    .reached tmp0 tmp1 reqs (expArgOf beta0 beta1 v0r0 v0r1 v1r1 v1r0) sc1L
                  | _, _, _, _ => .err .type   -- `{None:.4e}` in the log line
    | _ => .err .index

/-- `quantis_swap_zero(picked, engines)`.  Scripts: `scA` engine0 one step from old[0+][0],
    `scB` engine1 one step from old[0-][-2], `scC` engine0 backward completion, `scD` engine1
    forward completion.  `p` = the value of `np.exp(expArg)`, ξ = `rgen.random()` (drawn also
    when accept_all).  The rule is `rand <= min(1.0, p)`.
    Quirks mirrored: `maxlen1` is read from ens_set0; engine1's one-step call gets ens_set0;
    on QEA `[tmp_path1, tmp_path1]` is returned; on QS1 only tmp_path1.status is set. -/
def quantisSwapZero (e0 e1 : Ens) (old0 old1 : List Frame) (scA scB scC scD : Script)
    (acceptAll : Bool) (beta0 beta1 : Rat) (xi p : Rat) : Except Err Result :=
  match quantisPre e0 old0 old1 scA scB beta0 beta1 with
  | .err e => .error e
  | .early status p0 p1 s0 s1 reqs => .ok (qres false status p0 p1 s0 s1 0 reqs 0 none)
  | .reached tmp0 tmp1 reqs ea sc1L =>
    if acceptAll || decide (xi ≤ min 1 p) then
      quantisComplete e0 e1 e0.i2 e0.maxlen e0.maxlen sc1L tmp0 tmp1 scC scD reqs (some ea)
    else
      .ok (qres false .QEA tmp1 tmp1 .QEA .QEA 0 reqs 1 (some ea))

/-! ### a deterministic engine (for the swap-twice statement and the ReversibleEngine tie) -/

/-- the script a deterministic engine with one-step map `step`, order function `opf` and
    energy `vf` produces from the stored configuration `c`: `n` further frames -/
def orbit (step : Cfg → Cfg) (opf : Cfg → Int) (vf : Cfg → Option Int) : Nat → Cfg → List GenFrame
  | 0, _ => []
  | n + 1, c => { op := opf (step c), cfg := step c, vpot := vf (step c) } :: orbit step opf vf n (step c)

def detScript (step : Cfg → Cfg) (opf : Cfg → Int) (vf : Cfg → Option Int) (n : Nat) (c : Cfg) : Script :=
  { v0 := vf c, rest := orbit step opf vf n c }

/-- `retis_swap_zero` with both engines being the same deterministic engine that runs up to
    `n` steps per call -/
def retisSwapZeroDet (step : Cfg → Cfg) (opf : Cfg → Int) (vf : Cfg → Option Int) (n : Nat)
    (e0 e1 : Ens) (old0 old1 : List Frame) (xi : Rat) : Except Err Result :=
  match old1.head?, old0.getLast? with
  | some first1, some last0 =>
    retisSwapZero e0 e1 old0 old1 (detScript step opf vf n (startCfg first1 true))
      (detScript step opf vf n (startCfg last0 false)) xi
  | _, _ => retisSwapZero e0 e1 old0 old1 ⟨none, []⟩ ⟨none, []⟩ xi

/-- exact integer position-Verlet in a double well V(x) ∝ (x² - a)²: the force is
    `-x(x² - a)/k` truncated towards zero and clamped to [-8, 8] (any integer function of `x`
    keeps the scheme exactly time-reversible on ℤ²):
    `x½ = x + v; v' = v + F(x½); x' = x½ + v'`. -/
def dwForce (a k : Int) (x : Int) : Int :=
  max (-8) (min 8 (-(Int.tdiv (x * (x * x - a)) k)))

def dwStep (a k : Int) (c : Cfg) : Cfg :=
  let xh := c.x + c.v
  let v' := c.v + dwForce a k xh
  { x := xh + v', v := v' }

end Infretis.ZeroSwap
