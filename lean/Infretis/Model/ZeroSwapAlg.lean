/-
Extension of the zero-swap model (C11), second model file of the package (Model/ZeroSwap.lean is
imported by other packages and is left untouched).

1. The path surgery of `quantis_swap_zero` written with the path algebra of C15 (Model/PathAlg.lean:
   `Path.reverse`, `paste`, heap of System objects) instead of the private list functions of
   Model/ZeroSwap.lean (`appendAll`):
     tis.py:1265       new_path0 = paste_paths(new_path0, tmp_path0, maxlen=maxlen0)
     tis.py:1303-1305  new_path1 = paste_paths(tmp_path1.reverse(None, rev_v=False), new_path1, maxlen=maxlen1)
   `Lemmas/ZeroSwapAlg.lean` proves that both formulations give the same frames (values), so the junction
   theorems of C11 are statements about the same `paste_paths` / `reverse` C15 proves its laws for.
2. Where the ξ of a zero swap is drawn in the sequence of engine requests (`retisDrawAt`, `quantisDrawAt`).
3. The status tables of both swaps as closed functions of the two per-path statuses (`retisTable`,
   `retisField1`, `quantisFields`): which status string the move returns and which status each of the two
   returned path objects carries.
4. A deterministic engine whose order parameter may depend on the velocities (`orbitV`, `retisSwapZeroDetV`):
   every engine computes the order parameter of the PHYSICAL phase point (`calculate_order` negates the
   stored velocities of a `vel_rev` frame).

Imports: only Infretis.Model files (compiled into the native driver).
-/
import Infretis.Model.ZeroSwap
import Infretis.Model.PathAlg

namespace Infretis.ZeroSwap
open Infretis.PathAlg (Heap Path Vals)

/-! ### 1. frames as System objects of the path-algebra heap -/

/-- the field values of the `System` a frame stands for: `order = [op]`, `config` = the content token of the
    configuration file, `vel_rev`, `vpot`; the other fields are not looked at by the swaps -/
def Frame.toVals (f : Frame) : Vals :=
  { config := (f.cfg.x, f.cfg.v), order := [f.op], velRev := f.vr, ekin := none, vpot := f.vpot,
    pos := 0, vel := 0, box := 0, temp := 0 }

/-- back from the heap (`none`: the System has an empty `order` list) -/
def frameOfVals (v : Vals) : Option Frame :=
  match v.order with
  | op :: _ => some { op := op, cfg := ⟨v.config.1, v.config.2⟩, vr := v.velRev, vpot := v.vpot }
  | [] => none

/-- one new System object per frame, in order; returns the references -/
def allocFrames : Heap → List Frame → Heap × List Nat
  | h, [] => (h, [])
  | h, f :: t =>
    let (h1, r) := h.alloc f.toVals
    let (h2, rs) := allocFrames h1 t
    (h2, r :: rs)

/-- a path object holding the given references (`Path(maxlen=…)` filled by an engine) -/
def pathOf (maxlen : Nat) (refs : List Nat) : Path :=
  { Path.empty (some (maxlen : Int)) 0 with frames := refs }

/-- the frames of a path as seen in a heap (`none`: dangling reference / empty `order` list) -/
def readPath (h : Heap) (p : Path) : Option (List Frame) :=
  p.frames.mapM (fun r => (h.look r).bind (fun s => frameOfVals s.v))

/-- tis.py:1265 `paste_paths(new_path0, tmp_path0, maxlen=maxlen0)` (overlap defaults to True) -/
def quantisPaste0 (back tmp0 : Path) (maxlen0 : Nat) : Except PathAlg.Err Path :=
  PathAlg.paste back tmp0 true (some (maxlen0 : Int))

/-- tis.py:1303-1305 `paste_paths(tmp_path1.reverse(None, rev_v=False), new_path1, maxlen=maxlen1)` -/
def quantisPaste1 (h : Heap) (tmp1 forw : Path) (maxlen1 : Nat) : Except PathAlg.Err (Heap × Path) :=
  let (h1, rev) := Path.reverse h tmp1 none false
  match PathAlg.paste rev forw true (some (maxlen1 : Int)) with
  | .ok p => .ok (h1, p)
  | .error e => .error e

/-- both pastes of an accepted-energy QuanTIS swap on freshly allocated System objects:
    `back` = the backward completion in [0-] (path of `maxlen0 - 1`), `tmp0`, `tmp1` = the two one-step paths
    (`maxlen = 2`), `forw` = the forward completion in [0+] (path of `maxlen1 - 1`).
    Returns frames and `time_origin` of the two pasted paths. -/
def quantisPasteRun (back tmp0 tmp1 forw : List Frame) (maxlen0 maxlen1 : Nat) :
    Option ((List Frame × Int) × (List Frame × Int)) :=
  let (h1, rb) := allocFrames Heap.empty back
  let (h2, r0) := allocFrames h1 tmp0
  let (h3, r1) := allocFrames h2 tmp1
  let (h4, rf) := allocFrames h3 forw
  match quantisPaste0 (pathOf (maxlen0 - 1) rb) (pathOf 2 r0) maxlen0 with
  | .error _ => none
  | .ok p0 =>
    match quantisPaste1 h4 (pathOf 2 r1) (pathOf (maxlen1 - 1) rf) maxlen1 with
    | .error _ => none
    | .ok (h5, p1) =>
      match readPath h5 p0, readPath h5 p1 with
      | some f0, some f1 => some ((f0, p0.timeOrigin), (f1, p1.timeOrigin))
      | _, _ => none

/-! ### 2. position of the ξ draw -/

/-- `retis_swap_zero`: the one `rgen.random()` (inside `high_acc_swap`) comes after ALL engine requests;
    value = number of requests made before the draw, `none` = no draw -/
def retisDrawAt (r : Result) : Option Nat := if r.draws = 0 then none else some r.reqs.length

/-- `quantis_swap_zero`: ξ is drawn after the two one-step propagations and before the two completions -/
def quantisDrawAt (r : Result) : Option Nat := if r.draws = 0 then none else some (min 2 r.reqs.length)

/-! ### 3. status tables -/

/-- the status string `retis_swap_zero` returns, from the statuses of the two new paths
    (`status0`, `status1`), whether one of the ensembles uses wire fencing, and the verdict of `high_acc_swap` -/
def retisTable (s0 s1 : Status) (wfAny hasAcc : Bool) : Status :=
  if s0 ≠ .ACC then s0 else if s1 ≠ .ACC then s1 else if wfAny && !hasAcc then .HAS else .ACC

/-- `.status` of the returned [0+] path object: its own failure if it has one, else the move's status -/
def retisField1 (s1 status : Status) : Status := if s1 ≠ .ACC then s1 else status

/-- `.status` of the two path objects `quantis_swap_zero` returns, per returned status
    (`none` = never assigned: a new `Path` object's default) -/
def quantisFields : Status → Status × Status
  | .QS1 => (.none, .QS1)          -- tmp_path1.status is assigned twice, tmp_path0.status never
  | .QRS => (.none, .QRS)          -- the statuses go to tmp_path0/tmp_path1, new_path0 is returned
  | .BTX => (.BTX, .none)          -- [new_path0, tmp_path1]: tmp_path1 never got a status
  | .BTS => (.BTS, .none)
  | .ZL => (.ZL, .none)
  | .FTX => (.ACC, .FTX)           -- new_path0 keeps 'ACC' although the move is rejected
  | .FTS => (.ACC, .FTS)
  | .ZR => (.ACC, .ZR)
  | s => (s, s)                    -- QNE QLL QS0 QEA QLR ACC

/-! ### 4. deterministic engine with a velocity-dependent order parameter -/

/-- the physical phase point of a stored configuration produced in direction `rev` -/
def physOf (rev : Bool) (c : Cfg) : Cfg := if rev then c.flip else c

/-- like `orbit`, but the order parameter is evaluated on the physical phase point (as
    `EngineBase.calculate_order` does for `vel_rev` frames) -/
def orbitV (step : Cfg → Cfg) (opf : Cfg → Int) (vf : Cfg → Option Int) (rev : Bool) : Nat → Cfg → List GenFrame
  | 0, _ => []
  | n + 1, c =>
    { op := opf (physOf rev (step c)), cfg := step c, vpot := vf (step c) } :: orbitV step opf vf rev n (step c)

def detScriptV (step : Cfg → Cfg) (opf : Cfg → Int) (vf : Cfg → Option Int) (rev : Bool) (n : Nat) (c : Cfg) :
    Script :=
  { v0 := vf c, rest := orbitV step opf vf rev n c }

/-- `retis_swap_zero` with both engines being the same deterministic engine (order parameter of the physical
    phase point, possibly velocity dependent) that runs up to `n` steps per call -/
def retisSwapZeroDetV (step : Cfg → Cfg) (opf : Cfg → Int) (vf : Cfg → Option Int) (n : Nat)
    (e0 e1 : Ens) (old0 old1 : List Frame) (xi : Rat) : Except Err Result :=
  match old1.head?, old0.getLast? with
  | some first1, some last0 =>
    retisSwapZero e0 e1 old0 old1 (detScriptV step opf vf true n (startCfg first1 true))
      (detScriptV step opf vf false n (startCfg last0 false)) xi
  | _, _ => retisSwapZero e0 e1 old0 old1 ⟨none, []⟩ ⟨none, []⟩ xi

/-! ### 5. the in-process engines (ASE, TurtleMD): how many frames they offer per `propagate` call

The zero swaps recognise a piece that was cut at the length limit only by `length == maxlen`
(`status0`/`status1`, `qstatus0`/`qstatus1`).  That is sound only if an MD program that is never told to stop
really offers `path.maxlen` frames.  The in-process engines decide this themselves:
  ase_engine.py:171       `for i in range(self.subcycles * path.maxlen): … if i % self.subcycles == 0: <offer a frame>`
  turtlemdengine.py:220   `steps = path.maxlen * self.subcycles`, `run()` yields the initial system plus one per step
                          (`subcycles * maxlen + 1` iterations), a frame offered when `i % self.subcycles == 0`. -/

/-- the loop indices at which a frame is offered: `[i for i in range(n) if i % sub == 0]` -/
def offeredAt (sub n : Nat) : List Nat := (List.range n).filter (fun i => i % sub == 0)

/-- number of frames an in-process engine offers to `add_to_path` for a path of `maxlen` if nothing stops it -/
def inprocOffered (sub maxlen : Nat) (ase : Bool) : Nat :=
  (offeredAt sub (if ase then sub * maxlen else sub * maxlen + 1)).length

/-- … of which the first is the initial configuration: the length of the `Script` the engine answers with -/
def inprocSteps (sub maxlen : Nat) (ase : Bool) : Nat := inprocOffered sub maxlen ase - 1

/-- what an in-process engine leaves in an EMPTY path of `maxlen` when no frame is outside the interfaces:
    (number of frames, success); `none` = IndexError (`maxlen = 0`) -/
def inprocFill (sub maxlen : Nat) (ase : Bool) : Option (Nat × Bool) :=
  let sys : Frame := { op := 0, cfg := ⟨0, 0⟩, vr := false, vpot := none }
  let scr : Script := { v0 := none, rest := List.replicate (inprocSteps sub maxlen ase) { op := 0, cfg := ⟨0, 0⟩, vpot := none } }
  match propagate maxlen (-1) 1 sys false scr with
  | none => none
  | some (fr, s) => some (fr.length, s)

/-- `retis_swap_zero` between two in-process engines of one deterministic dynamics (one `step` = `subcycles`
    integrator steps, order parameter of the physical phase point): both `propagate` calls fill a path of
    `maxlen1 - 1`, so both scripts have `inprocSteps sub (maxlen1 - 1) ase` frames -/
def retisSwapZeroInproc (step : Cfg → Cfg) (opf : Cfg → Int) (vf : Cfg → Option Int) (sub : Nat) (ase : Bool)
    (e0 e1 : Ens) (old0 old1 : List Frame) (xi : Rat) : Except Err Result :=
  retisSwapZeroDetV step opf vf (inprocSteps sub (e1.maxlen - 1) ase) e0 e1 old0 old1 xi

/-! ### 6. which configurations reach `quantis_swap_zero` (the precondition "QuanTIS runs without λ₋₁")

`quantis_swap_zero` has no λ₋₁ early reject (`Infretis.C11.quantis_lm1_left_not_rejected_counterexample`); the
combination is excluded before any move runs:
  setup.py:242      `if quantis and lambda_minus_one is not False: raise TOMLConfigError("Cannot run quantis …")`
                    (`check_config`, called by `setup_config`; `False` = the key is absent; fix b3eda5b: the test used
                    to be the truthiness of `lambda_minus_one`, which let 0.0 through)
  repex.py:1150-54  `"start_cond": ["L", "R"] if lambda_minus_one is not False and i == 0 else ("R" if i == 0 else "L")`
C18 owns `check_config` (Model/Config.lean); only this one line is mirrored here. -/

/-- setup.py:242; `lm1 = none` stands for `False` (no λ₋₁) -/
def configRejectsQuantisLm1 (quantis : Bool) (lm1 : Option Rat) : Bool := quantis && lm1.isSome

/-- repex.py:1150-1154 for ensemble 0: membership of 'L' / 'R' in `start_cond` of [0-] -/
def zeroMinusStartCond (lm1 : Option Rat) : Bool × Bool := if lm1.isSome then (true, true) else (false, true)

end Infretis.ZeroSwap
