import Infretis.Lemmas.Lattice
import Infretis.Lemmas.LatticeMovesShoot
import Infretis.Lemmas.LatticeMovesRef
import Infretis.Lemmas.LatticeMovesAlg
import Infretis.Lemmas.LatticeLength
import Mathlib.Algebra.Order.Archimedean.Basic
/-!
# C01 — sampling is unbiased: exact crossing probabilities are reproduced

Level **other**: the property is a statistical acceptance test on sampled runs of the Python;
no theorem about a model decides it.  What is proved here, for all sizes:

* `crossing_closed_form` — the reference values (k+1)/(k+2) the check compares against are
  theorems about the lattice walk's boundary-value recurrence, for every k (unbounded segment
  length), with existence (`crossing_solution_exists`) and uniqueness.
  **Reading.**  That the solution of the recurrence *is* the hitting probability of the walk is
  the standard first-step-analysis / optional-stopping argument (the walk leaves a finite segment
  almost surely, so the bounded harmonic function evaluated at the exit point has expectation
  u(x)).  That step is **not formalised**.  What is formalised about the walk's own law
  `reachBy` (finite horizon): it is monotone in the horizon and never exceeds the closed form
  (`walk_law_below_closed_form`); its convergence to it is only checked numerically by the tie.
* `estimator_algebra` — the estimator the check applies to the data rows is a weighted mean of
  crossing indicators: a ratio of non-negative sums in [0,1], 1 if all contributing paths cross,
  0 if none does, additive over chunks of rows, and invariant under exactly the rescalings a
  change of column convention produces (a common factor on every row's column-k weight and/or
  column-k fraction).  It is **not** invariant under rescaling a single row's weight vector —
  the rescaling C02's swap matrix is invariant under — `estimate_row_rescale_counterexample`.
* `shoot_detailed_balance` — for the shooting kernel on lattice paths (uniform interior index,
  step-by-step generation, acceptance min(1, n_old/n_new) as C09 states it),
  π(o)·K(o,n) = π(n)·K(n,o) for every pair of lengths; for the acceptance the snapshot's code had
  (min(1, n_old/(n_new+1)): `add_to_path` failed a trial whose last admissible frame crossed — C09
  finding, repaired in /repo by f955162) the identity fails:
  `shoot_detailed_balance_asIs_counterexample`.  The statistical tie measured that bias on the
  snapshot (first interface −1.8 %, last +1.2 %, 2·10⁵ steps × 8 runs) and its absence after the repair.
* `swap_step_invariant` — drawing the assignment of paths to ensembles from its conditional
  distribution (what the ∞-swap matrix of C02 encodes) preserves the product distribution.
* Extension (last sections; model `Infretis.LatticeMoves`, compared draw for draw with the real `tis.shoot` on the real
  plug-in engine by `harness/props/c01_ext.py`): `shoot_generates`, `shoot_accept_iff`, `shoot_rejects_unfit`,
  `shoot_length_rule_xi` — the whole shooting move on the lattice as a function of its draws: which draws give which
  accepted path, for all paths; `shoot_detailed_balance_paths`, `shoot_invariant_finite` — reversibility between any two
  concrete paths and invariance over any finite family; `swap_marginal_expect`, `swap_marginal_row_sum`,
  `swap_rao_blackwell` — the matrix of marginals of a weighted set of assignments and the Rao–Blackwell identity over
  finite sums; `estimate_of_stationary_fractions` — with stationary fractions the estimator equals the ratio of
  expectations, the high-acceptance weights cancel.  Audit pass: `mean_length_estimate_*` (the length estimator the
  check applies, as a Lean function compared exactly on every run's rows), `exit_time_law_converges` / `hit_time_law_converges` (finite-horizon laws
  of the two ingredients of the mean length → their closed forms), `shoot_matches_generic_model` (latShoot = C09's `Moves.shoot` on lattice streams).  Not proved: the measure-theoretic step draws → probabilities,
  ergodicity, reversibility of the wire-fencing kernel, permanent = Σ over permutations.
-/
namespace Infretis.C01
open Infretis.Lattice

/-! ### the exact reference -/

/-- **Closed form, every k.**  Any function that vanishes on site 0, is 1 on site k+2 and has the
    mean-value property of the symmetric walk in between takes the value (k+1)/(k+2) on site k+1
    — the conditional probability to reach λ_{k+1} before returning below λ₀ for a path that has
    just reached λ_k. -/
theorem crossing_closed_form (k : Nat) (u : Nat → Rat) (h : Harmonic (k + 2) u) :
    u (k + 1) = ((k : Rat) + 1) / ((k : Rat) + 2) := by
  have := harmonic_unique (k + 2) (by omega) u h (k + 1) (by omega)
  rw [this]; push_cast; ring

/-- such a function exists for every k (so `crossing_closed_form` is never vacuous), and the
    model's reference value `hit k` is its value on site k+1 -/
theorem crossing_solution_exists (k : Nat) :
    Harmonic (k + 2) (ruin (k + 2)) ∧ hit k = ruin (k + 2) (k + 1)
      ∧ hit k = ((k : Rat) + 1) / ((k : Rat) + 2) := by
  refine ⟨ruin_harmonic (k + 2) (by omega), rfl, ?_⟩
  simp only [hit, ruin]; push_cast; ring

example : Harmonic 3 (ruin 3) ∧ ruin 3 2 = 2 / 3 ∧ hit 1 = 2 / 3 := by
  refine ⟨ruin_harmonic 3 (by omega), by decide +kernel, by decide +kernel⟩

/-- the general statement: on a segment of any length N the solution is x ↦ x/N, everywhere -/
theorem harmonic_segment_linear (N : Nat) (hN : 0 < N) (u : Nat → Rat) (h : Harmonic N u)
    (x : Nat) (hx : x ≤ N) : u x = (x : Rat) / (N : Rat) :=
  harmonic_unique N hN u h x hx

example : Harmonic 5 (ruin 5) := ruin_harmonic 5 (by omega)

/-- what is proved about the walk's own finite-horizon law: below the closed form, and
    non-decreasing in the horizon (so its limit exists and is ≤ (k+1)/(k+2); equality is the
    unformalised optional-stopping step) -/
theorem walk_law_below_closed_form (k t : Nat) :
    reachBy (k + 2) t (k + 1) ≤ hit k ∧ reachBy (k + 2) t (k + 1) ≤ reachBy (k + 2) (t + 1) (k + 1) :=
  ⟨reachBy_le_ruin (k + 2) (by omega) t (k + 1) (by omega), reachBy_mono (k + 2) (by omega) t (k + 1)⟩

example : reachBy 3 4 2 = 5 / 8 ∧ hit 1 = 2 / 3 := by decide +kernel

/-- quantitative: the gap to the closed form after t steps is at most ρ^t·(k+2) with
    ρ = (k+2)²/((k+2)²+4) < 1 -/
theorem walk_law_gap (k t : Nat) :
    hit k - reachBy (k + 2) t (k + 1) ≤ rho (k + 2) ^ t * ((k : Rat) + 2) ∧ rho (k + 2) < 1 := by
  refine ⟨?_, rho_lt_one _⟩
  have := reachBy_gap (k + 2) (by omega) t (k + 1) (by omega)
  have e : (((k + 1 : Nat) : Rat) * (((k + 2 : Nat) : Rat) - ((k + 1 : Nat) : Rat)) + 1) = (k : Rat) + 2 := by
    push_cast; ring
  rw [e] at this
  exact this

/-- **The walk's law converges to the closed form.**  For every k and every ε > 0 there is a
    horizon T beyond which the probability (under the walk's own law, `reachBy`) of being on site
    k+2 before site 0 within t steps, started on site k+1, lies in ((k+1)/(k+2) − ε, (k+1)/(k+2)].
    The only step left unformalised for the probabilistic reading is the measure-theoretic
    identity P(ever) = lim_t P(within t steps). -/
theorem walk_law_converges (k : Nat) (ε : Rat) (hε : 0 < ε) :
    ∃ T, ∀ t, T ≤ t →
      hit k - ε < reachBy (k + 2) t (k + 1) ∧ reachBy (k + 2) t (k + 1) ≤ hit k := by
  have hk : (0 : Rat) < (k : Rat) + 2 := by positivity
  have hρ0 := rho_nonneg (k + 2)
  have hρ1 := rho_lt_one (k + 2)
  obtain ⟨T, hT⟩ := exists_pow_lt_of_lt_one (div_pos hε hk) hρ1
  refine ⟨T, fun t ht => ⟨?_, (walk_law_below_closed_form k t).1⟩⟩
  have hgap := (walk_law_gap k t).1
  have hpow : rho (k + 2) ^ t ≤ rho (k + 2) ^ T := pow_le_pow_of_le_one hρ0 (le_of_lt hρ1) ht
  have : rho (k + 2) ^ t * ((k : Rat) + 2) < ε := by
    calc rho (k + 2) ^ t * ((k : Rat) + 2) ≤ rho (k + 2) ^ T * ((k : Rat) + 2) :=
          mul_le_mul_of_nonneg_right hpow (le_of_lt hk)
      _ < ε / ((k : Rat) + 2) * ((k : Rat) + 2) := mul_lt_mul_of_pos_right hT hk
      _ = ε := div_mul_cancel₀ _ (ne_of_gt hk)
  linarith

example : hit 1 - reachBy 3 20 2 ≤ rho 3 ^ 20 * 3 ∧ hit 1 - reachBy 3 20 2 = 1 / 1572864 := by
  decide +kernel

/-! ### the estimator -/

theorem den_nonneg (k : Nat) (rows : List Row) : 0 ≤ den k rows :=
  sumOver_nonneg _ (term_nonneg k) rows

theorem num_nonneg (k : Nat) (rows : List Row) : 0 ≤ num k rows :=
  sumOver_nonneg _ (fun r => by split; exact term_nonneg k r; exact le_refl _) rows

theorem num_le_den (k : Nat) (rows : List Row) : num k rows ≤ den k rows :=
  sumOver_le _ _ rows (fun r _ => by split; exact le_refl _; exact term_nonneg k r)

/-- the estimate is the ratio of two non-negative sums with 0 ≤ num ≤ den, 0 < den -/
theorem estimate_ratio (k : Nat) (rows : List Row) (p : Rat) (h : estimate k rows = some p) :
    p = num k rows / den k rows ∧ 0 ≤ num k rows ∧ num k rows ≤ den k rows ∧ 0 < den k rows := by
  unfold estimate at h
  split at h
  · cases h
  · rename_i hd
    refine ⟨(Option.some.inj h).symm, num_nonneg k rows, num_le_den k rows, ?_⟩
    exact lt_of_le_of_ne (den_nonneg k rows) (Ne.symm hd)

/-- it lies in [0, 1] -/
theorem estimate_unit_interval (k : Nat) (rows : List Row) (p : Rat) (h : estimate k rows = some p) :
    0 ≤ p ∧ p ≤ 1 := by
  obtain ⟨hp, hn, hle, hd⟩ := estimate_ratio k rows p h
  subst hp
  exact ⟨div_nonneg hn (le_of_lt hd), (div_le_one hd).2 hle⟩

/-- 1 when every contributing path crosses -/
theorem estimate_all_cross (k : Nat) (rows : List Row) (p : Rat) (h : estimate k rows = some p)
    (hall : ∀ r ∈ rows, term k r ≠ 0 → crossed k r = true) : p = 1 := by
  obtain ⟨hp, _, _, hd⟩ := estimate_ratio k rows p h
  have : num k rows = den k rows := by
    apply sumOver_congr
    intro r hr
    by_cases ht : term k r = 0
    · simp [ht]
    · simp [hall r hr ht]
  rw [hp, this, div_self (ne_of_gt hd)]

/-- 0 when no contributing path crosses -/
theorem estimate_none_cross (k : Nat) (rows : List Row) (p : Rat) (h : estimate k rows = some p)
    (hnone : ∀ r ∈ rows, term k r ≠ 0 → crossed k r = false) : p = 0 := by
  obtain ⟨hp, _, _, _⟩ := estimate_ratio k rows p h
  have : num k rows = 0 := by
    apply sumOver_zero
    intro r hr
    by_cases ht : term k r = 0
    · simp [ht]
    · simp [hnone r hr ht]
  rw [hp, this, zero_div]

/-- additive over chunks of rows (what lets the data be summed block by block) -/
theorem num_den_append (k : Nat) (a b : List Row) :
    num k (a ++ b) = num k a + num k b ∧ den k (a ++ b) = den k a + den k b :=
  ⟨sumOver_append _ a b, sumOver_append _ a b⟩

/-- **Invariance.**  Multiplying the column-k weight of *every* row by one factor c > 0 and the
    column-k fraction of every row by one factor d > 0 (a change of the column's convention:
    frame counts versus doubled frame counts, steps versus cycles, …) leaves the estimate unchanged. -/
theorem estimate_scale_invariant (k : Nat) (c d : Rat) (hc : 0 < c) (hd : 0 < d) (rows : List Row) :
    estimate k (rows.map (Row.scaleCol k c d)) = estimate k rows := by
  have hs : d / c ≠ 0 := ne_of_gt (div_pos hd hc)
  have hden : den k (rows.map (Row.scaleCol k c d)) = d / c * den k rows :=
    sumOver_map_mul _ _ _ _ (term_scaleCol k c d hc hd) rows
  have hnum : num k (rows.map (Row.scaleCol k c d)) = d / c * num k rows := by
    apply sumOver_map_mul
    intro r
    rw [crossed_scaleCol, term_scaleCol k c d hc hd]
    split <;> simp
  unfold estimate
  rw [hden, hnum]
  by_cases h0 : den k rows = 0
  · simp [h0]
  · have : d / c * den k rows ≠ 0 := mul_ne_zero hs h0
    rw [if_neg this, if_neg h0, mul_div_mul_left _ _ hs]

/-- … but rescaling the weight vector of a *single* row (which leaves C02's swap matrix, hence
    the fractions, unchanged) changes the estimate: the weights in the data file are not a free
    convention per path. -/
theorem estimate_row_rescale_counterexample :
    let r1 : Row := { len := 5, maxOp := 5 / 2, frac := [0, 1], w := [0, 1] }
    let r2 : Row := { len := 3, maxOp := 1, frac := [0, 1], w := [0, 1] }
    estimate 1 [r1, r2] = some (1 / 2) ∧ estimate 1 [r1, { r2 with w := [0, 2] }] = some (2 / 3) := by
  decide +kernel

/-- the estimate is a weighted mean of the crossing indicators: the weights
    term/den are non-negative and sum to one -/
theorem estimate_weighted_mean (k : Nat) (rows : List Row) (p : Rat) (h : estimate k rows = some p) :
    p * den k rows = num k rows
      ∧ (∀ r, 0 ≤ term k r / den k rows)
      ∧ den k rows / den k rows = 1 := by
  obtain ⟨hp, _, _, hd⟩ := estimate_ratio k rows p h
  refine ⟨?_, fun r => div_nonneg (term_nonneg k r) (le_of_lt hd), div_self (ne_of_gt hd)⟩
  rw [hp, div_mul_cancel₀ _ (ne_of_gt hd)]

/-- **Estimator algebra**, collected. -/
theorem estimator_algebra (k : Nat) (rows : List Row) :
    -- ratio of non-negative sums
    (0 ≤ num k rows ∧ num k rows ≤ den k rows) ∧
    -- defined exactly when some row carries weight; then in [0,1]
    (∀ p, estimate k rows = some p → p = num k rows / den k rows ∧ 0 < den k rows ∧ 0 ≤ p ∧ p ≤ 1) ∧
    -- all cross → 1, none crosses → 0
    (∀ p, estimate k rows = some p → (∀ r ∈ rows, term k r ≠ 0 → crossed k r = true) → p = 1) ∧
    (∀ p, estimate k rows = some p → (∀ r ∈ rows, term k r ≠ 0 → crossed k r = false) → p = 0) ∧
    -- invariant under a common rescaling of the column
    (∀ c d : Rat, 0 < c → 0 < d → estimate k (rows.map (Row.scaleCol k c d)) = estimate k rows) := by
  refine ⟨⟨num_nonneg k rows, num_le_den k rows⟩, ?_, ?_, ?_, ?_⟩
  · intro p h
    obtain ⟨hp, _, _, hd⟩ := estimate_ratio k rows p h
    obtain ⟨h0, h1⟩ := estimate_unit_interval k rows p h
    exact ⟨hp, hd, h0, h1⟩
  · exact fun p h => estimate_all_cross k rows p h
  · exact fun p h => estimate_none_cross k rows p h
  · exact fun c d hc hd => estimate_scale_invariant k c d hc hd rows

example :
    let rows : List Row := [{ len := 5, maxOp := 5 / 2, frac := [0, 1 / 2, 1 / 3], w := [0, 1, 2] },
                            { len := 7, maxOp := 3 / 2, frac := [0, 1 / 4, 2 / 3], w := [0, 1, 1] }]
    estimate 1 rows = some 1 ∧ estimate 2 rows = some (1 / 5) ∧ estimate 0 rows = none
      ∧ estimate 2 (rows.map (Row.scaleCol 2 3 (1 / 7))) = some (1 / 5) := by
  decide +kernel

/-! ### detailed balance of the shooting kernel on lattice paths -/

/-- **Detailed balance (length rule as C09 states it).**  For an old path with `a` and a new
    path with `b` interior frames that share `c` interior (old index, new index) pairs on a common
    site, with step weight `q`:   π(old)·K(old → new) = π(new)·K(new → old). -/
theorem shoot_detailed_balance (q : Rat) (c a b : Nat) (ha : 0 < a) (hb : 0 < b) :
    pathW q a * kernel .stated q c a b = pathW q b * kernel .stated q c b a := by
  have ha' : (0 : Rat) < (a : Rat) := by exact_mod_cast ha
  have hb' : (0 : Rat) < (b : Rat) := by exact_mod_cast hb
  have key := min_factor_symm (a : Rat) (b : Rat) ha' hb'
  unfold kernel accProb
  simp only
  have e1 : (c : Rat) / (a : Rat) * pathW q b * minR 1 ((a : Rat) / (b : Rat))
      = (c : Rat) * pathW q b * (1 / (a : Rat) * minR 1 ((a : Rat) / (b : Rat))) := by ring
  have e2 : (c : Rat) / (b : Rat) * pathW q a * minR 1 ((b : Rat) / (a : Rat))
      = (c : Rat) * pathW q a * (1 / (b : Rat) * minR 1 ((b : Rat) / (a : Rat))) := by ring
  rw [e1, e2, key]; ring

example : pathW (1 / 2) 2 * kernel .stated (1 / 2) 1 2 4 = pathW (1 / 2) 4 * kernel .stated (1 / 2) 1 4 2
    ∧ pathW (1 / 2) 2 * kernel .stated (1 / 2) 1 2 4 = 1 / 1024 := by
  decide +kernel

/-- with the acceptance the snapshot's code implemented (`Variant.asIs`; a trial whose last
    admissible frame crosses was rejected: min(1, n_old/(n_new+1)); repaired by f955162) the identity fails — old path 0,1,2,1,0-like with 2 interior
    frames against a new one with 4: the longer path is under-weighted by 4/5 -/
theorem shoot_detailed_balance_asIs_counterexample :
    pathW (1 / 2) 2 * kernel .asIs (1 / 2) 1 2 4 ≠ pathW (1 / 2) 4 * kernel .asIs (1 / 2) 1 4 2
      ∧ pathW (1 / 2) 2 * kernel .asIs (1 / 2) 1 2 4 = 4 / 5 * (pathW (1 / 2) 4 * kernel .asIs (1 / 2) 1 4 2) := by
  decide +kernel

/-! ### the swap step -/

/-- **Swap step (Gibbs resampling) leaves the weights invariant.**  Enumerate the admissible
    assignments σ of paths to ensembles as a list with unnormalised weights
    `ws[σ] = Π_i W[i, σ(i)]` (the product distribution restricted to the current set of paths).
    The ∞-swap step draws the new assignment σ' with probability `ws[σ'] / Z`, whatever the old
    one was.  Then  Σ_σ ws[σ] · K(σ → σ') = ws[σ'] :  the step preserves the product distribution.
    (That the marginals of `ws/Z` are the permanent ratios is C02's statement, not repeated here.) -/
theorem swap_step_invariant (ws : List Rat) (hZ : lsum ws ≠ 0) (j : Nat) (hj : j < ws.length) :
    lsum (ws.map (fun w => w * (ws[j] / lsum ws))) = ws[j] := by
  rw [lsum_map_mul_right, mul_div_cancel₀ _ hZ]

example : lsum [1, 2, 1] ≠ 0 ∧ lsum ([1, 2, 1].map (fun w => w * (([1, 2, 1] : List Rat)[1] / lsum [1, 2, 1]))) = 2 := by
  decide +kernel

/-! ## Extension: the shooting move on concrete lattice paths, the swap step's marginals, the estimator's limit

`Infretis.LatticeMoves.latShoot` is `tis.shoot` run on the plug-in engine as a function of its draws (index, ξ, two
coin lists); the tie (`harness/props/c01_ext.py`) runs it, C09's generic `Moves.shoot` and the real `tis.shoot` on the
same draws on every run.  Reading of the next four theorems together, for an old path `o` and a new path `n` of an
ensemble [i+]:  the event "the move returns ACC with path n and `generated[3] = s'`" is exactly
  { index s with o[s] = n[s'] } × { backward coins spell n[s'-1], …, n[0] } × { forward coins spell n[s'+1], … }
  × { ξ ≤ (L_o−2)/(L_n−2) },  non-empty only if n crosses λ_i and L_n ≤ maxlength,
so (uniform index, fair coins, uniform ξ — the assumption on numpy's generator) its probability is
  #{s : o[s] = n[s']}/(L_o−2) · 2^{−(L_n−1)} · min(1, (L_o−2)/(L_n−2)), and summed over s' it is `kernelPaths o n`.
The measure-theoretic step from "set of draws" to "probability" is not formalised. -/
section Shooting
open Infretis.LatticeMoves

/-- **The move returns the path its coins spell, for all paths.**  Old path arbitrary (only `old[idx]` is read),
    any shooting index inside, any two segments leaving (0, top) (the backward one on the left), any spare coins,
    any ξ under which the new path fits: the answer is that path, accepted iff it crosses λ_i. -/
theorem shoot_generates (e : Ens) (old : List Int) (ld : Bool) (idx : Nat) (xi : Rat) (x last : Int)
    (pre post : List Int) (eb ef : List Bool)
    (hidx : 1 ≤ idx ∧ idx + 1 < old.length) (hx : old[idx]? = some x)
    (hin : 0 < x ∧ x < e.top) (hxi : ld = true ∨ 0 < xi)
    (hpre : Seg e.top x pre) (hlast : pre.getLast? = some last) (hl0 : last ≤ 0)
    (hpost : Seg e.top x post)
    (hfit : pre.length + 1 + post.length ≤ maxlenOf e old.length ld xi) :
    latShoot e old ld idx xi (coinsOf x pre ++ eb) (coinsOf x post ++ ef) =
      .ok { accept := crossMid e (pre.reverse ++ x :: post),
            status := if crossMid e (pre.reverse ++ x :: post) = true then .ACC else .NCR,
            trial := pre.reverse ++ x :: post, genNb := pre.length,
            maxlen := maxlenOf e old.length ld xi, usedB := pre.length, usedF := post.length } :=
  latShoot_generates e old ld idx xi x last pre post eb ef (by omega) hidx hx hin hxi hpre hlast hl0 hpost hfit

example :
    latShoot { mid := 2, top := 3, maxlength := 100 } [0, 1, 2, 1, 0] false 2 (1 / 2)
        (coinsOf 2 [1, 0] ++ [true]) (coinsOf 2 [1, 2, 3] ++ []) =
      .ok { accept := true, status := .ACC, trial := [0, 1, 2, 1, 2, 3], genNb := 2, maxlen := 8, usedB := 2, usedF := 3 }
    ∧ Seg 3 2 [1, 0] ∧ Seg 3 2 [1, 2, 3] := by
  refine ⟨by decide +kernel, by simp [Seg], by simp [Seg]⟩

/-- **Exact characterisation of acceptance** (both directions): the move answers `o` with `accept = true` iff the
    shooting point is inside, both coin lists start with the coins of two segments (backward one ending on the left),
    the pasted path fits the length limit and crosses λ_i, and `o` is that path with its bookkeeping. -/
theorem shoot_accept_iff (e : Ens) (old : List Int) (ld : Bool) (idx : Nat) (xi : Rat) (cb cf : List Bool) (o : Out) :
    (latShoot e old ld idx xi cb cf = .ok o ∧ o.accept = true) ↔
    ∃ x last pre post, old[idx]? = some x ∧ (1 ≤ idx ∧ idx + 1 < old.length) ∧ (0 < x ∧ x < e.top)
      ∧ (ld = true ∨ 0 < xi)
      ∧ Seg e.top x pre ∧ pre.getLast? = some last ∧ last ≤ 0 ∧ Seg e.top x post
      ∧ pre.length + 1 + post.length ≤ maxlenOf e old.length ld xi
      ∧ crossMid e (pre.reverse ++ x :: post) = true
      ∧ cb.take pre.length = coinsOf x pre ∧ cf.take post.length = coinsOf x post
      ∧ o = { accept := true, status := .ACC, trial := pre.reverse ++ x :: post, genNb := pre.length,
              maxlen := maxlenOf e old.length ld xi, usedB := pre.length, usedF := post.length } := by
  constructor
  · rintro ⟨h, hacc⟩
    obtain ⟨x, last, pre, post, hx, hidx, hin, hpre, hlast, hl0, hpost, htr, hfit, hcr, hcb, hcf, hst, hnb, hub, huf,
      hml, hxi⟩ := latShoot_acc_sound e old ld idx xi cb cf o h hacc
    refine ⟨x, last, pre, post, hx, hidx, hin, hxi, hpre, hlast, hl0, hpost, hfit, htr ▸ hcr, hcb, hcf, ?_⟩
    cases o
    simp_all
  · rintro ⟨x, last, pre, post, hx, hidx, hin, hxi, hpre, hlast, hl0, hpost, hfit, hcr, hcb, hcf, rfl⟩
    have hb : cb = coinsOf x pre ++ cb.drop pre.length := by rw [← hcb, List.take_append_drop]
    have hf : cf = coinsOf x post ++ cf.drop post.length := by rw [← hcf, List.take_append_drop]
    have := shoot_generates e old ld idx xi x last pre post (cb.drop pre.length) (cf.drop post.length)
      hidx hx hin hxi hpre hlast hl0 hpost hfit
    rw [← hb, ← hf, hcr] at this
    exact ⟨by simpa using this, rfl⟩

example : latShoot { mid := 2, top := 3, maxlength := 100 } [0, 1, 2, 1, 0] false 2 (1 / 2) [false, false] [true]
    = .ok { accept := true, status := .ACC, trial := [0, 1, 2, 3], genNb := 2, maxlen := 8, usedB := 2, usedF := 1 } := by
  decide +kernel

/-- **A spelled path that does not fit the length limit is never accepted** — with `shoot_generates` and
    `shoot_length_rule_xi`: for coins that spell a path of the ensemble, accepted ⇔ ξ·(L_new−2) ≤ L_old−2 (and
    L_new ≤ maxlength). -/
theorem shoot_rejects_unfit (e : Ens) (old : List Int) (ld : Bool) (idx : Nat) (xi : Rat) (x : Int)
    (pre post : List Int) (eb ef : List Bool) (hx : old[idx]? = some x)
    (hpre : Seg e.top x pre) (hpost : Seg e.top x post)
    (hunfit : maxlenOf e old.length ld xi < pre.length + 1 + post.length) (o : Out)
    (h : latShoot e old ld idx xi (coinsOf x pre ++ eb) (coinsOf x post ++ ef) = .ok o) : o.accept = false := by
  cases hacc : o.accept with
  | false => rfl
  | true =>
    exfalso
    obtain ⟨x', last, pre', post', hx', _, _, _, hpre', _, _, hpost', hfit, _, hcb, hcf, _⟩ :=
      (shoot_accept_iff e old ld idx xi _ _ o).1 ⟨h, hacc⟩
    rw [hx] at hx'
    cases hx'
    have e1 := seg_coins_unique e.top pre x pre' eb hpre hpre' hcb
    have e2 := seg_coins_unique e.top post x post' ef hpost hpost' hcf
    subst e1 e2
    omega

example : latShoot { mid := 1, top := 3, maxlength := 100 } [0, 1, 2, 1, 0] false 2 (39 / 64)
    (coinsOf 2 [1, 0]) (coinsOf 2 [1, 2, 1, 0]) =
    .ok { accept := false, status := .FTL, trial := [0, 1, 2, 1, 2, 1], genNb := 2, maxlen := 6, usedB := 2, usedF := 3 } := by
  decide +kernel

/-- **The length rule is the Metropolis factor.**  For ξ > 0 a new path with `b` interior frames fits the limit
    `min(int(a/ξ) + 2, maxlength)` drawn from an old path with `a` interior frames iff it fits `maxlength` and
    ξ·b ≤ a — over a uniform ξ that is probability min(1, a/b), the `accProb .stated a b` of `shoot_detailed_balance`. -/
theorem shoot_length_rule_xi (e : Ens) (a b : Nat) (xi : Rat) (hxi : 0 < xi) :
    b + 2 ≤ maxlenOf e (a + 2) false xi ↔ b + 2 ≤ e.maxlength ∧ xi * (b : Rat) ≤ (a : Rat) :=
  fits_iff_xi e a b xi hxi

example : (5 + 2 ≤ maxlenOf { mid := 1, top := 3, maxlength := 100 } (3 + 2) false (3 / 5))
    ∧ ¬ (5 + 2 ≤ maxlenOf { mid := 1, top := 3, maxlength := 100 } (3 + 2) false (39 / 64)) := by
  decide +kernel

/-- **Detailed balance between any two lattice paths.**  With the kernel assembled from the actual paths (match count of
    their interior frames, their lengths), π(o)·K(o→n) = π(n)·K(n→o) for all paths with at least one interior frame. -/
theorem shoot_detailed_balance_paths (o n : List Int) (ho : 2 < o.length) (hn : 2 < n.length) :
    pathWeight o * kernelPaths o n = pathWeight n * kernelPaths n o := by
  unfold pathWeight kernelPaths
  rw [matchCount_symm (interior n) (interior o)]
  exact shoot_detailed_balance (1 / 2) _ (o.length - 2) (n.length - 2) (by omega) (by omega)

example : pathWeight [0, 1, 2, 1, 0] * kernelPaths [0, 1, 2, 1, 0] [0, 1, 2, 1, 2, 1, 0] = 1 / 640
    ∧ matchCount (interior [0, 1, 2, 1, 0]) (interior [0, 1, 2, 1, 2, 1, 0]) = 8 := by decide +kernel

/-- **Invariance over any finite family of paths.**  Σ_{o∈S} π(o)·K(o→n) = π(n)·Σ_{o∈S} K(n→o): the probability
    flowing into `n` from `S` equals π(n) times the probability that the move started in `n` lands in `S`
    (≤ π(n), with equality in the limit S → all paths, rejections included: the path measure of the lattice walk
    restricted to the ensemble is invariant). -/
theorem shoot_invariant_finite (n : List Int) (hn : 2 < n.length) : ∀ S : List (List Int), (∀ o ∈ S, 2 < o.length) →
    rsum (S.map (fun o => pathWeight o * kernelPaths o n)) = pathWeight n * rsum (S.map (fun o => kernelPaths n o))
  | [], _ => by simp [rsum]
  | o :: t, h => by
    simp only [List.map_cons, rsum]
    rw [shoot_invariant_finite n hn t (fun o' ho' => h o' (by simp [ho'])),
      shoot_detailed_balance_paths o n (h o (by simp)) hn]
    ring

example : rsum ([[0, 1, 0], [0, 1, 2, 1, 0]].map (fun o => pathWeight o * kernelPaths o [0, 1, 2, 3]))
    = pathWeight [0, 1, 2, 3] * rsum ([[0, 1, 0], [0, 1, 2, 1, 0]].map (fun o => kernelPaths [0, 1, 2, 3] o)) :=
  shoot_invariant_finite _ (by decide) _ (by decide)


/-- **The lattice move IS the generic shooting model on lattice streams.**  `latShootRef` is C09's `Moves.shoot .repaired`
    (the branch-by-branch model of `tis.shoot`, `shoot_backwards`, `paste_paths`, `check_interfaces`, `add_to_path`) fed
    with the plug-in's streams on doubled coordinates.  Whenever the lattice move returns an answer `o` (any status), the
    generic model returns exactly `refOut o`: same accept flag and status, the same frames doubled, the same
    `generated` entries, time origin, draw requests, and engine counters (coins + 1 where that propagation ran);
    `ValueError` and `ZeroDivisionError` correspond in both directions.  Needs `2 ≤ maxlength` outside the KOB branch —
    exactly: `shoot_generic_model_differs_*` below.  So every theorem of this section about `latShoot` is a theorem about
    C09's model of the real function, not about a sibling. -/
theorem shoot_matches_generic_model (e : Ens) (old : List Int) (ld : Bool) (idx : Nat) (xi : Rat) (cb cf : List Bool)
    (hML : 2 ≤ e.maxlength) :
    (∀ o, latShoot e old ld idx xi cb cf = .ok o → latShootRef e old ld idx xi cb cf = .ok (refOut old ld idx o))
    ∧ (latShoot e old ld idx xi cb cf = .error .value ↔ latShootRef e old ld idx xi cb cf = .error .value)
    ∧ (latShoot e old ld idx xi cb cf = .error .zerodiv ↔ latShootRef e old ld idx xi cb cf = .error .zerodiv) :=
  ⟨fun o h => latShootRef_of_ok' e old ld idx xi cb cf o (fun _ => hML) h,
   latShootRef_value_iff e old ld idx xi cb cf, latShootRef_zerodiv_iff e old ld idx xi cb cf⟩

example :
    latShoot ⟨1, 2, 10⟩ [0, 1, 2] true 1 0 [false] [true] =
      .ok { accept := true, status := .ACC, trial := [0, 1, 2], genNb := 1, maxlen := 10, usedB := 1, usedF := 1 }
    ∧ latShootRef ⟨1, 2, 10⟩ [0, 1, 2] true 1 0 [false] [true] =
      .ok { accept := true, status := .ACC, trial := [0, 2, 4], genSp := 2, genIdx := 1, genNb := 1, timeOrigin := 0,
            draws := [.integers 1 2], usedB := 2, usedF := 2 } := by
  constructor <;> rfl

/-- where the two models differ (both confirmed on the real code: the plug-in's loop `for i in range(path.maxlen)` adds no
    frame at all when `maxlen − 1 = 0`, so the real move answers BTX with an empty path like `latShoot`; the generic
    engine contract "the first frame is always handed to add_to_path" gives IndexError) -/
theorem shoot_generic_model_differs_maxlength_le_1 (e : Ens) (old : List Int) (ld : Bool) (idx : Nat) (xi : Rat)
    (cb cf : List Bool) (o : Out) (hML : e.maxlength ≤ 1) (h : latShoot e old ld idx xi cb cf = .ok o)
    (hne : o.status ≠ .KOB) : latShootRef e old ld idx xi cb cf = .error .index :=
  latShootRef_short e old ld idx xi cb cf o hML h hne

example :
    latShoot ⟨1, 2, 1⟩ [0, 1, 0] true 1 0 [] [] =
      .ok { accept := false, status := .BTX, trial := [], genNb := 0, maxlen := 1, usedB := 0, usedF := 0 }
    ∧ latShootRef ⟨1, 2, 1⟩ [0, 1, 0] true 1 0 [] [] = .error .index :=
  latShootRef_counterexample_maxlength1

/-- … and scripted coins that run out (never with a generator): the lattice move refuses the script, the generic
    model's engine loop ends without a stop -/
theorem shoot_generic_model_differs_exhausted_coins :
    latShoot ⟨1, 3, 10⟩ [0, 1, 0] true 1 0 [] [] = .error .badDraw
    ∧ latShootRef ⟨1, 3, 10⟩ [0, 1, 0] true 1 0 [] [] =
      .ok { accept := false, status := .BTL, trial := [2], genSp := 2, genIdx := 1, genNb := 0, timeOrigin := 1,
            draws := [.integers 1 2], usedB := 1, usedF := 0 } :=
  latShootRef_counterexample_coins

end Shooting

/-! ### the ∞-swap step: marginals and Rao–Blackwell -/
section Swap
open Infretis.LatticeMoves

/-- **Marginal of the assignment distribution.**  For weighted assignments (σ, w(σ)) (w(σ) = Π_i W[i,σ(i)] in the code's
    case; any weights here) with path indices below M:  Σ_j marginal(i,j)·g(j) = Σ_σ w(σ)·g(σ(i)). -/
theorem swap_marginal_expect (g : Nat → Rat) (i M : Nat) (as : List (List Nat × Rat))
    (h : ∀ a ∈ as, ∀ j ∈ a.1, j < M) :
    rsum ((List.range M).map (fun j => marginalNum as i j * g j)) = rsum (as.map (fun a => a.2 * atEns a.1 i g)) :=
  marginal_expect g i M as h

/-- every row of the marginal matrix sums to the total weight (so P = marginal/total has unit row sums) -/
theorem swap_marginal_row_sum (i M N : Nat) (hi : i < N) (as : List (List Nat × Rat))
    (h : ∀ a ∈ as, a.1.length = N ∧ ∀ j ∈ a.1, j < M) :
    rsum ((List.range M).map (fun j => marginalNum as i j)) = total as := by
  have := marginal_expect (fun _ => 1) i M as (fun a ha => (h a ha).2)
  simp only [mul_one] at this
  rw [this]
  unfold total
  apply rsum_map_congr
  intro a ha
  unfold atEns
  have : i < a.1.length := by rw [(h a ha).1]; exact hi
  simp [List.getElem?_eq_getElem this]

/-- **Rao–Blackwell over finite sums.**  Recording, for every ensemble i, the whole row Σ_j marginal(i,j)·f(i,j)
    (what infretis adds to `frac`: the row of the permanent-ratio matrix) has the same total as the expectation, over
    the assignment distribution, of recording only the sampled assignment Σ_i f(i, σ(i)). -/
theorem swap_rao_blackwell (f : Nat → Nat → Rat) (N M : Nat) (as : List (List Nat × Rat))
    (h : ∀ a ∈ as, ∀ j ∈ a.1, j < M) :
    rsum ((List.range N).map (fun i => rsum ((List.range M).map (fun j => marginalNum as i j * f i j))))
      = rsum (as.map (fun a => a.2 * rsum ((List.range N).map (fun i => atEns a.1 i (f i))))) := by
  have h1 : ∀ i ∈ List.range N, rsum ((List.range M).map (fun j => marginalNum as i j * f i j))
      = rsum (as.map (fun a => a.2 * atEns a.1 i (f i))) := fun i _ => marginal_expect (f i) i M as h
  rw [rsum_map_congr _ _ _ h1, rsum_swap (fun i a => a.2 * atEns a.1 i (f i)) (List.range N) as]
  apply rsum_map_congr
  intro a _
  rw [rsum_map_mul_left]

example :
    let as : List (List Nat × Rat) := [([0, 1], 2), ([1, 0], 1)]
    marginalNum as 0 0 = 2 ∧ marginalNum as 0 1 = 1 ∧ total as = 3
      ∧ rsum ((List.range 2).map (fun i => rsum ((List.range 2).map (fun j => marginalNum as i j * ((i : Rat) + 2 * j)))))
        = rsum (as.map (fun a => a.2 * rsum ((List.range 2).map (fun i => atEns a.1 i (fun j => (i : Rat) + 2 * j))))) := by
  decide +kernel

/-- **The swap matrix the code computes, as a matrix of marginals** (instance of the two theorems above for the
    enumerated permutations with weights Π_i W[i,σ(i)] — `assignments W`; the tie compares `margMatrix W` with the real
    `REPEX_state.inf_retis` on every run): every row of the marginals sums to the permanent, and adding the rows of the
    marginal matrix to `frac` has the same total as the expectation of adding the sampled permutation. -/
theorem swap_permutations_rao_blackwell (W : List (List Rat)) (f : Nat → Nat → Rat) :
    (∀ i, i < W.length →
      rsum ((List.range W.length).map (fun j => marginalNum (assignments W) i j)) = total (assignments W)) ∧
    rsum ((List.range W.length).map (fun i =>
        rsum ((List.range W.length).map (fun j => marginalNum (assignments W) i j * f i j))))
      = rsum ((assignments W).map (fun a =>
        a.2 * rsum ((List.range W.length).map (fun i => atEns a.1 i (f i))))) :=
  ⟨fun i hi => swap_marginal_row_sum i W.length W.length hi (assignments W) (assignments_spec W),
   swap_rao_blackwell f W.length W.length (assignments W) (fun a ha => (assignments_spec W a ha).2)⟩

example :
    let W : List (List Rat) := [[1, 0, 0], [0, 2, 1], [0, 1, 1]]
    margMatrix W = some [[1, 0, 0], [0, 2 / 3, 1 / 3], [0, 1 / 3, 2 / 3]] ∧ total (assignments W) = 3
      ∧ (perms 3).length = 6 := by
  decide +kernel

end Swap

/-! ### exact path lengths: a second family of closed-form references -/
section Length
open Infretis.LatticeMoves

/-- **Exit time, every segment.**  Any solution of the first-step equations of the exit time of (0, N) is x·(N−x). -/
theorem exit_time_closed_form (N : Nat) (hN : 0 < N) (t : Nat → Rat) (h : ExitTimeEq N t) (x : Nat) (hx : x ≤ N) :
    t x = (x : Rat) * ((N : Rat) - (x : Rat)) :=
  exitTime_unique N hN t h x hx

/-- **Time to the top on the event that the top comes first.**  Any solution of the first-step equations of
    E[steps·1{N before 0}] is x·(N²−x²)/(3N); the equations have a solution (`hitTime N`), as have those of the exit time. -/
theorem hit_time_closed_form (N : Nat) (hN : 0 < N) (m : Nat → Rat) (h : HitTimeEq N m) (x : Nat) (hx : x ≤ N) :
    m x = (x : Rat) * ((N : Rat) * (N : Rat) - (x : Rat) * (x : Rat)) / (3 * (N : Rat)) :=
  hitTime_unique N hN m h x hx

theorem length_equations_solvable (N : Nat) (hN : 0 < N) : ExitTimeEq N (exitTime N) ∧ HitTimeEq N (hitTime N) :=
  ⟨exitTime_eq N, hitTime_eq N hN⟩

/-- **Mean path length of data column k with n interfaces**: 2 + (k²−1)/3 + k·(n−k) frames.
    Reading: frames on site 0 and site 1, then (strong Markov property, not formalised) the conditional time from
    site 1 to site k given k before 0, then the exit time of (0, n) from site k. -/
theorem mean_length_closed_form (n k : Nat) (hk : 0 < k) :
    meanLen n k = 2 + ((k : Rat) * (k : Rat) - 1) / 3 + (k : Rat) * ((n : Rat) - (k : Rat)) := by
  have hk' : (k : Rat) ≠ 0 := by exact_mod_cast (Nat.pos_iff_ne_zero.1 hk)
  unfold meanLen hitTime exitTime ruin
  push_cast
  field_simp

example : meanLen 4 1 = 5 ∧ meanLen 4 2 = 7 ∧ meanLen 4 3 = 23 / 3 ∧ exitTime 4 2 = 4 ∧ hitTime 3 1 = 8 / 9 := by
  decide +kernel


/-- **The walk's own law of the exit time converges to the closed form.**  `stepsBy N t x` = E[min(τ, t)] under the walk's
    law (finite-horizon recursion, like `reachBy`) lies below x·(N−x) and within ρ^t·(x(N−x)+1) of it, ρ = N²/(N²+4) < 1:
    the exit-time reference is the limit of the walk's own law, not only the solution of first-step equations.
    (The conditional part of `meanLen`, `hitTime k 1 / ruin k 1`, has no such law-level statement yet; the tie compares
    `meanLen` with an independent enumeration of the path ensemble's measure on every run.) -/
theorem exit_time_law_converges (N : Nat) (hN : 0 < N) (t x : Nat) (hx : x ≤ N) :
    stepsBy N t x ≤ exitTime N x
      ∧ exitTime N x - stepsBy N t x ≤ rho N ^ t * ((x : Rat) * ((N : Rat) - (x : Rat)) + 1) ∧ rho N < 1 := by
  obtain ⟨h1, h2⟩ := stepsBy_gap N hN t x hx
  exact ⟨by linarith, h2, rho_lt_one N⟩

example : stepsBy 4 6 2 = 7 / 2 ∧ exitTime 4 2 = 4 ∧ exitTime 4 2 - stepsBy 4 6 2 ≤ rho 4 ^ 6 * (2 * (4 - 2) + 1) := by decide +kernel

/-- **… and so does the law of the time to the top on the event "top first".**  `hitStepsBy N t x` =
    E[τ·1{site N before site 0, τ ≤ t}] under the walk's law lies below `hitTime N x` = x(N²−x²)/(3N) and within
    (t+1)·ρ^t·(x(N−x)+1) of it.  With `walk_law_converges` (the denominator `ruin k 1`) and `exit_time_law_converges`
    every ingredient of `meanLen n k` is the limit of a finite-horizon law of the walk; what stays unformalised is the
    strong Markov property that adds them up. -/
theorem hit_time_law_converges (N : Nat) (hN : 0 < N) (t x : Nat) (hx : x ≤ N) :
    hitStepsBy N t x ≤ hitTime N x
      ∧ hitTime N x - hitStepsBy N t x ≤ ((t : Rat) + 1) * rho N ^ t * ((x : Rat) * ((N : Rat) - (x : Rat)) + 1) := by
  obtain ⟨h1, h2⟩ := hitStepsBy_gap N hN t x hx
  exact ⟨by linarith, h2⟩

example : hitStepsBy 3 6 1 = 27 / 32 ∧ hitTime 3 1 = 8 / 9 := by decide +kernel

end Length

/-! ### the second estimator: reweighted mean path length (Lean twin of the check's `length_stats`) -/

/-- the reweighted mean length is a weighted mean: between any two bounds that hold for every contributing row -/
theorem mean_length_estimate_bounds (k : Nat) (rows : List Row) (m : Rat) (a b : Rat)
    (h : meanLenEst k rows = some m)
    (hab : ∀ r ∈ rows, term k r ≠ 0 → a ≤ (r.len : Rat) ∧ (r.len : Rat) ≤ b) :
    m = lenNum k rows / den k rows ∧ 0 < den k rows ∧ a ≤ m ∧ m ≤ b := by
  unfold meanLenEst at h
  split at h
  · cases h
  · rename_i hd
    have hd0 : 0 < den k rows := lt_of_le_of_ne (sumOver_nonneg _ (term_nonneg k) rows) (Ne.symm hd)
    have hm : m = lenNum k rows / den k rows := (Option.some.inj h).symm
    have hlo : a * den k rows ≤ lenNum k rows := by
      unfold den lenNum
      rw [← sumOver_mul_left]
      apply sumOver_le
      intro r hr
      by_cases ht : term k r = 0
      · simp [ht]
      · have := (hab r hr ht).1
        have h0 := term_nonneg k r
        nlinarith
    have hhi : lenNum k rows ≤ b * den k rows := by
      unfold den lenNum
      rw [← sumOver_mul_left]
      apply sumOver_le
      intro r hr
      by_cases ht : term k r = 0
      · simp [ht]
      · have := (hab r hr ht).2
        have h0 := term_nonneg k r
        nlinarith
    refine ⟨hm, hd0, ?_, ?_⟩
    · rw [hm, le_div_iff₀ hd0]; exact hlo
    · rw [hm, div_le_iff₀ hd0]; exact hhi

/-- invariant under the same column rescalings as the crossing estimate -/
theorem mean_length_estimate_scale_invariant (k : Nat) (c d : Rat) (hc : 0 < c) (hd : 0 < d) (rows : List Row) :
    meanLenEst k (rows.map (Row.scaleCol k c d)) = meanLenEst k rows := by
  have hs : d / c ≠ 0 := ne_of_gt (div_pos hd hc)
  have hden : den k (rows.map (Row.scaleCol k c d)) = d / c * den k rows :=
    sumOver_map_mul _ _ _ _ (term_scaleCol k c d hc hd) rows
  have hnum : lenNum k (rows.map (Row.scaleCol k c d)) = d / c * lenNum k rows := by
    apply sumOver_map_mul
    intro r
    rw [term_scaleCol k c d hc hd]
    show d / c * term k r * ((r.scaleCol k c d).len : Rat) = _
    simp only [Row.scaleCol]; ring
  unfold meanLenEst
  rw [hden, hnum]
  by_cases h0 : den k rows = 0
  · simp [h0]
  · have : d / c * den k rows ≠ 0 := mul_ne_zero hs h0
    rw [if_neg this, if_neg h0, mul_div_mul_left _ _ hs]

/-- with stationary fractions (term = c·ρ) the estimate is Σ ρ·len / Σ ρ: the weights cancel -/
theorem mean_length_of_stationary_fractions (k : Nat) (rows : List Row) (c : Rat) (ρ : Row → Rat) (hc : 0 < c)
    (hterm : ∀ r ∈ rows, term k r = c * ρ r) (hden : sumOver ρ rows ≠ 0) :
    meanLenEst k rows = some (sumOver (fun r => ρ r * (r.len : Rat)) rows / sumOver ρ rows) := by
  have hc0 : c ≠ 0 := ne_of_gt hc
  have hd : den k rows = c * sumOver ρ rows := by
    unfold den
    rw [sumOver_congr (term k) (fun r => c * ρ r) rows hterm, sumOver_mul_left]
  have hn : lenNum k rows = c * sumOver (fun r => ρ r * (r.len : Rat)) rows := by
    unfold lenNum
    rw [← sumOver_mul_left]
    apply sumOver_congr
    intro r hr
    rw [hterm r hr]; ring
  unfold meanLenEst
  rw [hd, hn, if_neg (mul_ne_zero hc0 hden), mul_div_mul_left _ _ hc0]

theorem len_num_append (k : Nat) (a b : List Row) : lenNum k (a ++ b) = lenNum k a + lenNum k b :=
  sumOver_append _ a b

example :
    let rows : List Row := [{ len := 5, maxOp := 5 / 2, frac := [0, 1 / 2, 1 / 3], w := [0, 1, 2] },
                            { len := 7, maxOp := 3 / 2, frac := [0, 1 / 4, 2 / 3], w := [0, 1, 1] }]
    meanLenEst 1 rows = some (17 / 3) ∧ meanLenEst 2 rows = some (33 / 5) ∧ meanLenEst 0 rows = none
      ∧ meanLenEst 2 (rows.map (Row.scaleCol 2 3 (1 / 7))) = some (33 / 5) := by
  decide +kernel

/-! ### from stationary fractions to crossing probabilities -/

/-- **The estimator's limit is the ratio of expectations.**  If the accumulated fractions are stationary — every
    contributing row has frac_k / w_k = c·ρ(r) for one constant c > 0, which is what invariance of
    π_k(p) ∝ ρ(p)·w_k(p) under the moves gives for the occupation of column k (ergodicity assumed, not proved) — then the
    estimate is exactly Σ ρ·[crossed λ_k] / Σ ρ: the high-acceptance weight w_k cancels, whatever it is. -/
theorem estimate_of_stationary_fractions (k : Nat) (rows : List Row) (c : Rat) (ρ : Row → Rat) (hc : 0 < c)
    (hterm : ∀ r ∈ rows, term k r = c * ρ r) (hden : sumOver ρ rows ≠ 0) :
    estimate k rows = some (sumOver (fun r => if crossed k r then ρ r else 0) rows / sumOver ρ rows) := by
  have hc0 : c ≠ 0 := ne_of_gt hc
  have hmul : ∀ (f : Row → Rat) (l : List Row), sumOver (fun r => c * f r) l = c * sumOver f l := by
    intro f l
    induction l with
    | nil => simp [sumOver]
    | cons r t ih => simp only [sumOver, ih]; ring
  have hd : den k rows = c * sumOver ρ rows := by
    unfold den
    rw [sumOver_congr (term k) (fun r => c * ρ r) rows hterm, hmul]
  have hn : num k rows = c * sumOver (fun r => if crossed k r then ρ r else 0) rows := by
    unfold num
    rw [← hmul]
    apply sumOver_congr
    intro r hr
    by_cases hcr : crossed k r = true
    · simp [hcr, hterm r hr]
    · simp [hcr]
  unfold estimate
  rw [hd, hn, if_neg (mul_ne_zero hc0 hden), mul_div_mul_left _ _ hc0]

/-- the hypothesis of `estimate_of_stationary_fractions` holds for a row whose column k carries
    frac = c·ρ·w with w > 0 and ρ > 0 -/
theorem term_of_weighted_fraction (k : Nat) (r : Row) (c ρ f w : Rat) (hf : r.frac[k]? = some f) (hw : r.w[k]? = some w)
    (hc : 0 < c) (hρ : 0 < ρ) (hw0 : 0 < w) (hfr : f = c * ρ * w) : term k r = c * ρ := by
  unfold term
  rw [hf, hw]
  have hf0 : 0 < f := by rw [hfr]; positivity
  simp only [hf0, hw0, and_self, if_true]
  rw [hfr, mul_div_assoc, div_self (ne_of_gt hw0), mul_one]

example :
    let rows : List Row := [{ len := 5, maxOp := 5 / 2, frac := [0, 3 * 2 * 4], w := [0, 4] },
                            { len := 7, maxOp := 1 / 2, frac := [0, 3 * 1 * 5], w := [0, 5] }]
    estimate 1 rows = some (2 / 3) ∧ term 1 rows[0] = 3 * 2 ∧ term 1 rows[1] = 3 * 1 := by
  decide +kernel

end Infretis.C01
