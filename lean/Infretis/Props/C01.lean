import Infretis.Lemmas.Lattice
import Mathlib.Algebra.Order.Archimedean.Basic
/-!
# C01 — sampling is unbiased: exact crossing probabilities are reproduced

Level **other**: the property is a statistical acceptance test on sampled runs of the Python;
no theorem about a model decides it.  What is proved here, for all sizes:

* `crossing_closed_form` — the reference values (k+1)/(k+2) the check compares against are
  theorems about the lattice walk's boundary-value recurrence, for every k (unbounded segment
  length), with existence (`crossing_solution_exists`) and uniqueness.
  **Reading.**  That the solution of the recurrence *is* the hitting probability of the walk is
  the standard first-step-analysis / optional-stopping argument (the walk leaves a finite segment
  almost surely, so the bounded harmonic function evaluated at the exit point has expectation
  u(x)).  That step is **not formalised**.  What is formalised about the walk's own law
  `reachBy` (finite horizon): it is monotone in the horizon and never exceeds the closed form
  (`walk_law_below_closed_form`); its convergence to it is only checked numerically by the tie.
* `estimator_algebra` — the estimator the check applies to the data rows is a weighted mean of
  crossing indicators: a ratio of non-negative sums in [0,1], 1 if all contributing paths cross,
  0 if none does, additive over chunks of rows, and invariant under exactly the rescalings a
  change of column convention produces (a common factor on every row's column-k weight and/or
  column-k fraction).  It is **not** invariant under rescaling a single row's weight vector —
  the rescaling C02's swap matrix is invariant under — `estimate_row_rescale_counterexample`.
* `shoot_detailed_balance` — for the shooting kernel on lattice paths (uniform interior index,
  step-by-step generation, acceptance min(1, n_old/n_new) as C09 states it),
  π(o)·K(o,n) = π(n)·K(n,o) for every pair of lengths; for the acceptance the snapshot's code had
  (min(1, n_old/(n_new+1)): `add_to_path` failed a trial whose last admissible frame crossed — C09
  finding, repaired in /repo by f955162) the identity fails:
  `shoot_detailed_balance_asIs_counterexample`.  The statistical tie measured that bias on the
  snapshot (first interface −1.8 %, last +1.2 %, 2·10⁵ steps × 8 runs) and its absence after the repair.
* `swap_step_invariant` — drawing the assignment of paths to ensembles from its conditional
  distribution (what the ∞-swap matrix of C02 encodes) preserves the product distribution.
-/
namespace Infretis.C01
open Infretis.Lattice

/-! ### the exact reference -/

/-- **Closed form, every k.**  Any function that vanishes on site 0, is 1 on site k+2 and has the
    mean-value property of the symmetric walk in between takes the value (k+1)/(k+2) on site k+1
    — the conditional probability to reach λ_{k+1} before returning below λ₀ for a path that has
    just reached λ_k. -/
theorem crossing_closed_form (k : Nat) (u : Nat → Rat) (h : Harmonic (k + 2) u) :
    u (k + 1) = ((k : Rat) + 1) / ((k : Rat) + 2) := by
  have := harmonic_unique (k + 2) (by omega) u h (k + 1) (by omega)
  rw [this]; push_cast; ring

/-- such a function exists for every k (so `crossing_closed_form` is never vacuous), and the
    model's reference value `hit k` is its value on site k+1 -/
theorem crossing_solution_exists (k : Nat) :
    Harmonic (k + 2) (ruin (k + 2)) ∧ hit k = ruin (k + 2) (k + 1)
      ∧ hit k = ((k : Rat) + 1) / ((k : Rat) + 2) := by
  refine ⟨ruin_harmonic (k + 2) (by omega), rfl, ?_⟩
  simp only [hit, ruin]; push_cast; ring

example : Harmonic 3 (ruin 3) ∧ ruin 3 2 = 2 / 3 ∧ hit 1 = 2 / 3 := by
  refine ⟨ruin_harmonic 3 (by omega), by decide +kernel, by decide +kernel⟩

/-- the general statement: on a segment of any length N the solution is x ↦ x/N, everywhere -/
theorem harmonic_segment_linear (N : Nat) (hN : 0 < N) (u : Nat → Rat) (h : Harmonic N u)
    (x : Nat) (hx : x ≤ N) : u x = (x : Rat) / (N : Rat) :=
  harmonic_unique N hN u h x hx

example : Harmonic 5 (ruin 5) := ruin_harmonic 5 (by omega)

/-- what is proved about the walk's own finite-horizon law: below the closed form, and
    non-decreasing in the horizon (so its limit exists and is ≤ (k+1)/(k+2); equality is the
    unformalised optional-stopping step) -/
theorem walk_law_below_closed_form (k t : Nat) :
    reachBy (k + 2) t (k + 1) ≤ hit k ∧ reachBy (k + 2) t (k + 1) ≤ reachBy (k + 2) (t + 1) (k + 1) :=
  ⟨reachBy_le_ruin (k + 2) (by omega) t (k + 1) (by omega), reachBy_mono (k + 2) (by omega) t (k + 1)⟩

example : reachBy 3 4 2 = 5 / 8 ∧ hit 1 = 2 / 3 := by decide +kernel

/-- quantitative: the gap to the closed form after t steps is at most ρ^t·(k+2) with
    ρ = (k+2)²/((k+2)²+4) < 1 -/
theorem walk_law_gap (k t : Nat) :
    hit k - reachBy (k + 2) t (k + 1) ≤ rho (k + 2) ^ t * ((k : Rat) + 2) ∧ rho (k + 2) < 1 := by
  refine ⟨?_, rho_lt_one _⟩
  have := reachBy_gap (k + 2) (by omega) t (k + 1) (by omega)
  have e : (((k + 1 : Nat) : Rat) * (((k + 2 : Nat) : Rat) - ((k + 1 : Nat) : Rat)) + 1) = (k : Rat) + 2 := by
    push_cast; ring
  rw [e] at this
  exact this

/-- **The walk's law converges to the closed form.**  For every k and every ε > 0 there is a
    horizon T beyond which the probability (under the walk's own law, `reachBy`) of being on site
    k+2 before site 0 within t steps, started on site k+1, lies in ((k+1)/(k+2) − ε, (k+1)/(k+2)].
    The only step left unformalised for the probabilistic reading is the measure-theoretic
    identity P(ever) = lim_t P(within t steps). -/
theorem walk_law_converges (k : Nat) (ε : Rat) (hε : 0 < ε) :
    ∃ T, ∀ t, T ≤ t →
      hit k - ε < reachBy (k + 2) t (k + 1) ∧ reachBy (k + 2) t (k + 1) ≤ hit k := by
  have hk : (0 : Rat) < (k : Rat) + 2 := by positivity
  have hρ0 := rho_nonneg (k + 2)
  have hρ1 := rho_lt_one (k + 2)
  obtain ⟨T, hT⟩ := exists_pow_lt_of_lt_one (div_pos hε hk) hρ1
  refine ⟨T, fun t ht => ⟨?_, (walk_law_below_closed_form k t).1⟩⟩
  have hgap := (walk_law_gap k t).1
  have hpow : rho (k + 2) ^ t ≤ rho (k + 2) ^ T := pow_le_pow_of_le_one hρ0 (le_of_lt hρ1) ht
  have : rho (k + 2) ^ t * ((k : Rat) + 2) < ε := by
    calc rho (k + 2) ^ t * ((k : Rat) + 2) ≤ rho (k + 2) ^ T * ((k : Rat) + 2) :=
          mul_le_mul_of_nonneg_right hpow (le_of_lt hk)
      _ < ε / ((k : Rat) + 2) * ((k : Rat) + 2) := mul_lt_mul_of_pos_right hT hk
      _ = ε := div_mul_cancel₀ _ (ne_of_gt hk)
  linarith

example : hit 1 - reachBy 3 20 2 ≤ rho 3 ^ 20 * 3 ∧ hit 1 - reachBy 3 20 2 = 1 / 1572864 := by
  decide +kernel

/-! ### the estimator -/

theorem den_nonneg (k : Nat) (rows : List Row) : 0 ≤ den k rows :=
  sumOver_nonneg _ (term_nonneg k) rows

theorem num_nonneg (k : Nat) (rows : List Row) : 0 ≤ num k rows :=
  sumOver_nonneg _ (fun r => by split; exact term_nonneg k r; exact le_refl _) rows

theorem num_le_den (k : Nat) (rows : List Row) : num k rows ≤ den k rows :=
  sumOver_le _ _ rows (fun r _ => by split; exact le_refl _; exact term_nonneg k r)

/-- the estimate is the ratio of two non-negative sums with 0 ≤ num ≤ den, 0 < den -/
theorem estimate_ratio (k : Nat) (rows : List Row) (p : Rat) (h : estimate k rows = some p) :
    p = num k rows / den k rows ∧ 0 ≤ num k rows ∧ num k rows ≤ den k rows ∧ 0 < den k rows := by
  unfold estimate at h
  split at h
  · cases h
  · rename_i hd
    refine ⟨(Option.some.inj h).symm, num_nonneg k rows, num_le_den k rows, ?_⟩
    exact lt_of_le_of_ne (den_nonneg k rows) (Ne.symm hd)

/-- it lies in [0, 1] -/
theorem estimate_unit_interval (k : Nat) (rows : List Row) (p : Rat) (h : estimate k rows = some p) :
    0 ≤ p ∧ p ≤ 1 := by
  obtain ⟨hp, hn, hle, hd⟩ := estimate_ratio k rows p h
  subst hp
  exact ⟨div_nonneg hn (le_of_lt hd), (div_le_one hd).2 hle⟩

/-- 1 when every contributing path crosses -/
theorem estimate_all_cross (k : Nat) (rows : List Row) (p : Rat) (h : estimate k rows = some p)
    (hall : ∀ r ∈ rows, term k r ≠ 0 → crossed k r = true) : p = 1 := by
  obtain ⟨hp, _, _, hd⟩ := estimate_ratio k rows p h
  have : num k rows = den k rows := by
    apply sumOver_congr
    intro r hr
    by_cases ht : term k r = 0
    · simp [ht]
    · simp [hall r hr ht]
  rw [hp, this, div_self (ne_of_gt hd)]

/-- 0 when no contributing path crosses -/
theorem estimate_none_cross (k : Nat) (rows : List Row) (p : Rat) (h : estimate k rows = some p)
    (hnone : ∀ r ∈ rows, term k r ≠ 0 → crossed k r = false) : p = 0 := by
  obtain ⟨hp, _, _, _⟩ := estimate_ratio k rows p h
  have : num k rows = 0 := by
    apply sumOver_zero
    intro r hr
    by_cases ht : term k r = 0
    · simp [ht]
    · simp [hnone r hr ht]
  rw [hp, this, zero_div]

/-- additive over chunks of rows (what lets the data be summed block by block) -/
theorem num_den_append (k : Nat) (a b : List Row) :
    num k (a ++ b) = num k a + num k b ∧ den k (a ++ b) = den k a + den k b :=
  ⟨sumOver_append _ a b, sumOver_append _ a b⟩

/-- **Invariance.**  Multiplying the column-k weight of *every* row by one factor c > 0 and the
    column-k fraction of every row by one factor d > 0 (a change of the column's convention:
    frame counts versus doubled frame counts, steps versus cycles, …) leaves the estimate unchanged. -/
theorem estimate_scale_invariant (k : Nat) (c d : Rat) (hc : 0 < c) (hd : 0 < d) (rows : List Row) :
    estimate k (rows.map (Row.scaleCol k c d)) = estimate k rows := by
  have hs : d / c ≠ 0 := ne_of_gt (div_pos hd hc)
  have hden : den k (rows.map (Row.scaleCol k c d)) = d / c * den k rows :=
    sumOver_map_mul _ _ _ _ (term_scaleCol k c d hc hd) rows
  have hnum : num k (rows.map (Row.scaleCol k c d)) = d / c * num k rows := by
    apply sumOver_map_mul
    intro r
    rw [crossed_scaleCol, term_scaleCol k c d hc hd]
    split <;> simp
  unfold estimate
  rw [hden, hnum]
  by_cases h0 : den k rows = 0
  · simp [h0]
  · have : d / c * den k rows ≠ 0 := mul_ne_zero hs h0
    rw [if_neg this, if_neg h0, mul_div_mul_left _ _ hs]

/-- … but rescaling the weight vector of a *single* row (which leaves C02's swap matrix, hence
    the fractions, unchanged) changes the estimate: the weights in the data file are not a free
    convention per path. -/
theorem estimate_row_rescale_counterexample :
    let r1 : Row := { len := 5, maxOp := 5 / 2, frac := [0, 1], w := [0, 1] }
    let r2 : Row := { len := 3, maxOp := 1, frac := [0, 1], w := [0, 1] }
    estimate 1 [r1, r2] = some (1 / 2) ∧ estimate 1 [r1, { r2 with w := [0, 2] }] = some (2 / 3) := by
  decide +kernel

/-- the estimate is a weighted mean of the crossing indicators: the weights
    term/den are non-negative and sum to one -/
theorem estimate_weighted_mean (k : Nat) (rows : List Row) (p : Rat) (h : estimate k rows = some p) :
    p * den k rows = num k rows
      ∧ (∀ r, 0 ≤ term k r / den k rows)
      ∧ den k rows / den k rows = 1 := by
  obtain ⟨hp, _, _, hd⟩ := estimate_ratio k rows p h
  refine ⟨?_, fun r => div_nonneg (term_nonneg k r) (le_of_lt hd), div_self (ne_of_gt hd)⟩
  rw [hp, div_mul_cancel₀ _ (ne_of_gt hd)]

/-- **Estimator algebra**, collected. -/
theorem estimator_algebra (k : Nat) (rows : List Row) :
    -- ratio of non-negative sums
    (0 ≤ num k rows ∧ num k rows ≤ den k rows) ∧
    -- defined exactly when some row carries weight; then in [0,1]
    (∀ p, estimate k rows = some p → p = num k rows / den k rows ∧ 0 < den k rows ∧ 0 ≤ p ∧ p ≤ 1) ∧
    -- all cross → 1, none crosses → 0
    (∀ p, estimate k rows = some p → (∀ r ∈ rows, term k r ≠ 0 → crossed k r = true) → p = 1) ∧
    (∀ p, estimate k rows = some p → (∀ r ∈ rows, term k r ≠ 0 → crossed k r = false) → p = 0) ∧
    -- invariant under a common rescaling of the column
    (∀ c d : Rat, 0 < c → 0 < d → estimate k (rows.map (Row.scaleCol k c d)) = estimate k rows) := by
  refine ⟨⟨num_nonneg k rows, num_le_den k rows⟩, ?_, ?_, ?_, ?_⟩
  · intro p h
    obtain ⟨hp, _, _, hd⟩ := estimate_ratio k rows p h
    obtain ⟨h0, h1⟩ := estimate_unit_interval k rows p h
    exact ⟨hp, hd, h0, h1⟩
  · exact fun p h => estimate_all_cross k rows p h
  · exact fun p h => estimate_none_cross k rows p h
  · exact fun c d hc hd => estimate_scale_invariant k c d hc hd rows

example :
    let rows : List Row := [{ len := 5, maxOp := 5 / 2, frac := [0, 1 / 2, 1 / 3], w := [0, 1, 2] },
                            { len := 7, maxOp := 3 / 2, frac := [0, 1 / 4, 2 / 3], w := [0, 1, 1] }]
    estimate 1 rows = some 1 ∧ estimate 2 rows = some (1 / 5) ∧ estimate 0 rows = none
      ∧ estimate 2 (rows.map (Row.scaleCol 2 3 (1 / 7))) = some (1 / 5) := by
  decide +kernel

/-! ### detailed balance of the shooting kernel on lattice paths -/

/-- **Detailed balance (length rule as C09 states it).**  For an old path with `a` and a new
    path with `b` interior frames that share `c` interior (old index, new index) pairs on a common
    site, with step weight `q`:   π(old)·K(old → new) = π(new)·K(new → old). -/
theorem shoot_detailed_balance (q : Rat) (c a b : Nat) (ha : 0 < a) (hb : 0 < b) :
    pathW q a * kernel .stated q c a b = pathW q b * kernel .stated q c b a := by
  have ha' : (0 : Rat) < (a : Rat) := by exact_mod_cast ha
  have hb' : (0 : Rat) < (b : Rat) := by exact_mod_cast hb
  have key := min_factor_symm (a : Rat) (b : Rat) ha' hb'
  unfold kernel accProb
  simp only
  have e1 : (c : Rat) / (a : Rat) * pathW q b * minR 1 ((a : Rat) / (b : Rat))
      = (c : Rat) * pathW q b * (1 / (a : Rat) * minR 1 ((a : Rat) / (b : Rat))) := by ring
  have e2 : (c : Rat) / (b : Rat) * pathW q a * minR 1 ((b : Rat) / (a : Rat))
      = (c : Rat) * pathW q a * (1 / (b : Rat) * minR 1 ((b : Rat) / (a : Rat))) := by ring
  rw [e1, e2, key]; ring

example : pathW (1 / 2) 2 * kernel .stated (1 / 2) 1 2 4 = pathW (1 / 2) 4 * kernel .stated (1 / 2) 1 4 2
    ∧ pathW (1 / 2) 2 * kernel .stated (1 / 2) 1 2 4 = 1 / 1024 := by
  decide +kernel

/-- with the acceptance the snapshot's code implemented (`Variant.asIs`; a trial whose last
    admissible frame crosses was rejected: min(1, n_old/(n_new+1)); repaired by f955162) the identity fails — old path 0,1,2,1,0-like with 2 interior
    frames against a new one with 4: the longer path is under-weighted by 4/5 -/
theorem shoot_detailed_balance_asIs_counterexample :
    pathW (1 / 2) 2 * kernel .asIs (1 / 2) 1 2 4 ≠ pathW (1 / 2) 4 * kernel .asIs (1 / 2) 1 4 2
      ∧ pathW (1 / 2) 2 * kernel .asIs (1 / 2) 1 2 4 = 4 / 5 * (pathW (1 / 2) 4 * kernel .asIs (1 / 2) 1 4 2) := by
  decide +kernel

/-! ### the swap step -/

/-- **Swap step (Gibbs resampling) leaves the weights invariant.**  Enumerate the admissible
    assignments σ of paths to ensembles as a list with unnormalised weights
    `ws[σ] = Π_i W[i, σ(i)]` (the product distribution restricted to the current set of paths).
    The ∞-swap step draws the new assignment σ' with probability `ws[σ'] / Z`, whatever the old
    one was.  Then  Σ_σ ws[σ] · K(σ → σ') = ws[σ'] :  the step preserves the product distribution.
    (That the marginals of `ws/Z` are the permanent ratios is C02's statement, not repeated here.) -/
theorem swap_step_invariant (ws : List Rat) (hZ : lsum ws ≠ 0) (j : Nat) (hj : j < ws.length) :
    lsum (ws.map (fun w => w * (ws[j] / lsum ws))) = ws[j] := by
  rw [lsum_map_mul_right, mul_div_cancel₀ _ hZ]

example : lsum [1, 2, 1] ≠ 0 ∧ lsum ([1, 2, 1].map (fun w => w * (([1, 2, 1] : List Rat)[1] / lsum [1, 2, 1]))) = 2 := by
  decide +kernel

end Infretis.C01
