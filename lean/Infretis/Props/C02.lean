import Infretis.Lemmas.PermSpec
import Infretis.Lemmas.PermBlock
import Infretis.Lemmas.PermProb
import Infretis.Lemmas.PermGlynn
import Infretis.Lemmas.PermStair
import Infretis.Lemmas.PermPipe
import Infretis.Lemmas.PermFinal
import Infretis.Lemmas.PermEmbed
import Infretis.Lemmas.PermMain
import Infretis.Lemmas.PermFull
import Infretis.Lemmas.PermMC
import Infretis.Lemmas.PermCacheInv
import Infretis.Lemmas.PermRandomInv
import Infretis.Lemmas.PermEval
import Infretis.Lemmas.PermAnyOrder
import Infretis.Lemmas.PermOnes
import Mathlib.Tactic.IntervalCases
import Mathlib.Tactic.NormNum
/-!
# C02 — swap probabilities equal the exact permanent ratios

Property theorems only (helper lemmas: `Infretis/Lemmas/Perm*.lean`).
Model and specification: `Infretis/Model/Perm.lean`
(`permC`, `minor`, `pSpec`, `probMatrix` = the property's formula verbatim;
`quickProb`, `findBlocks`, `permanentProb`, `glynn`, `infRetis` = the code).
All statements are for matrices of any size.
-/
namespace Infretis.C02
open Infretis.Perm

/-! ## 1. Laws of the specification (hold for every square matrix with non-zero permanent) -/

/-- W_MATRIX1 of test/permanents/test_permanents.py -/
def wMatrix1 : Mat :=
  [[1,0,0,0,0,0,0,0],[0,1,0,0,0,0,0,0],[0,1,1,0,0,0,0,0],[0,1,1,1,1,0,0,0],
   [0,1,1,1,1,0,0,0],[0,1,1,1,1,1,0,0],[0,1,1,1,1,1,1,1],[0,1,1,1,1,1,1,1]]

/-- W_MATRIX2 of test/permanents/test_permanents.py (high-acceptance weights) -/
def wMatrix2 : Mat :=
  [[3519,3437,3324,3263,3226,3214],[147,0,0,0,0,0],[147,147,0,0,0,0],
   [154,85,34,18,4,1],[109,92,70,45,26,11],[139,112,69,29,9,1]]

/-- a locked multi-worker state: minus row, 4 plus rows in shuffled slot order, ghost;
    slots 2 and the ghost (5) are busy -/
def wLocked : Mat :=
  [[1,0,0,0,0,0],[0,1,1,1,0,0],[0,1,1,0,0,0],[0,1,1,1,1,0],[0,1,1,1,1,0],[0,0,0,0,0,0]]
def locksLocked : List Bool := [false, false, true, false, false, true]

/-- a wire-fencing-like weighted state (per-path weights 2, 1000, 17 and a free row, slots not
    in sorted order, ghost locked) -/
def wWire : Mat :=
  [[1,0,0,0,0,0],[0,2,0,0,0,0],[0,1000,1000,1000,1000,0],[0,17,17,17,0,0],[0,3,5,1,7,0],[0,0,0,0,0,0]]
def locksWire : List Bool := [false, false, false, false, false, true]

set_option maxRecDepth 100000 in
example : permC wMatrix1 = 4 := by decide +kernel
example : permC wMatrix2 = 10508395762620 := by decide +kernel
example : permC (idle wLocked locksLocked) = 4 := by decide +kernel
example : permC (idle wWire locksWire) ≠ 0 := by decide +kernel

/-- **Doubly stochastic, columns.** Every column of the permanent-ratio matrix sums to one. -/
theorem spec_col_sum (W : Mat) (j : Nat) (hj : j < W.length) (hW : permC W ≠ 0) :
    ((List.range W.length).map (fun i => pSpec W i j)).sum = 1 :=
  Perm.spec_col_sum W j hj hW

example : ((List.range wMatrix2.length).map (fun i => pSpec wMatrix2 i 3)).sum = 1
    ∧ pSpec wMatrix2 3 3 = 1088059 / 2701651 := by decide +kernel

/-- **Doubly stochastic, rows.** Every row of the permanent-ratio matrix sums to one. -/
theorem spec_row_sum (W : Mat) (i : Nat) (hi : i < W.length) (hW : permC W ≠ 0) :
    ((List.range W.length).map (fun j => pSpec W i j)).sum = 1 :=
  Perm.spec_row_sum W i hi hW

example : ((List.range wMatrix2.length).map (fun j => pSpec wMatrix2 4 j)).sum = 1 := by
  decide +kernel

/-- **Zero weight, zero probability.** -/
theorem spec_zero_of_zero (W : Mat) (i j : Nat) (h : entry W i j = 0) : pSpec W i j = 0 :=
  Perm.spec_zero_of_zero W i j h

example : entry wMatrix2 2 3 = 0 ∧ entry wMatrix2 2 1 ≠ 0 ∧ pSpec wMatrix2 2 1 = 1 := by
  decide +kernel

/-- **Rescaling one path's weights changes nothing**: the matrix `A ++ r :: B` with row `r`
    multiplied by any `c ≠ 0` has the same permanent ratios (every entry, any position of `r`). -/
theorem spec_row_rescale (A B : Mat) (r : Row) (c : Rat) (hc : c ≠ 0) (i j : Nat) :
    pSpec (A ++ scaleRow c r :: B) i j = pSpec (A ++ r :: B) i j :=
  Perm.spec_row_rescale A B r c hc i j

example : pSpec ([[1,0,0]] ++ scaleRow 1000 [0,2,1] :: [[0,3,5]]) 1 2
    = pSpec ([[1,0,0]] ++ [0,2,1] :: [[0,3,5]]) 1 2
    ∧ pSpec ([[1,0,0]] ++ [0,2,1] :: [[0,3,5]]) 1 2 = 3 / 13 := by decide +kernel

/-- **Equivariance under reordering the live paths**: if `W'` is a permutation of the rows of
    `W` and row `k` of `W'` is row `i` of `W`, the two rows get the same probabilities. -/
theorem spec_row_perm (W W' : Mat) (h : W'.Perm W) (k i j : Nat) (hk : k < W'.length)
    (hi : i < W.length) (he : W'.getD k [] = W.getD i []) : pSpec W' k j = pSpec W i j :=
  Perm.spec_row_perm W W' h k i j hk hi he

example : [[0,2,1],[1,0,0],[0,3,5]].Perm [[1,0,0],[0,2,1],[0,3,5]]
    ∧ pSpec [[0,2,1],[1,0,0],[0,3,5]] 0 2 = pSpec [[1,0,0],[0,2,1],[0,3,5]] 1 2 := by
  refine ⟨List.Perm.swap _ _ _, ?_⟩
  decide +kernel


/-! ## 2. The fast path: `quick_prob` on staircase blocks -/

/-- **`quick_prob` = permanent ratios on every 0/1 staircase** (rows with `cnts[r]` leading ones,
    any row order) that satisfies Hall's condition `#{rows with a one in column c} − #{columns
    right of c} ≥ 1`.  The normaliser `s` of the backward column recursion equals that number,
    and the clamp of negative remainders never fires. -/
theorem quickProb_eq_spec (cnts : List Nat)
    (hall : ∀ c, c < cnts.length → 1 ≤ Dnum cnts c) :
    quickProb (stair cnts) = specMat (stair cnts) :=
  quickProb_stair_eq_spec cnts hall

example : (∀ c, c < [1, 2, 4, 4].length → 1 ≤ Dnum [1, 2, 4, 4] c)
    ∧ stair [1, 2, 4, 4] = [[1,0,0,0],[1,1,0,0],[1,1,1,1],[1,1,1,1]]
    ∧ quickProb (stair [1, 2, 4, 4]) = [[1,0,0,0],[0,1,0,0],[0,0,1/2,1/2],[0,0,1/2,1/2]] := by
  decide +kernel

/-- closed form of the permanent of a staircase: `perm = ∏_c D(c)` -/
theorem permC_staircase (cnts : List Nat) :
    permC (stair cnts) = ((List.range cnts.length).map (Dnum cnts)).prod :=
  permC_stair cnts

/-- Hall's condition is necessary: without it `quick_prob` is not the permanent ratio
    (it is then applied to a matrix without perfect matching). -/
theorem quickProb_hall_needed : quickProb (stair [1, 1]) ≠ specMat (stair [1, 1]) := by
  decide +kernel

/-! ## 3. Blocks: `find_blocks` is justified by the block-triangular factorisation -/

/-- **`perm [[A,0],[C,D]] = perm A · perm D`.** -/
theorem permC_block (a b : Nat) (top bottom : Mat) (ht : top.length = a) (hb : bottom.length = b)
    (hz : ∀ r ∈ top, ∀ c, a ≤ c → c < a + b → r.getD c 0 = 0) :
    permC (top ++ bottom) = permC top * permC (bottom.map (List.drop a)) :=
  Perm.permC_block a b top bottom ht hb hz

example : permC ([[2,1,0],[3,4,0]] ++ [[5,6,7]]) = permC [[2,1,0],[3,4,0]] * permC [[7]]
    ∧ permC ([[2,1,0],[3,4,0]] ++ [[5,6,7]]) = 77 := by decide +kernel

/-- **Block-wise = whole.** For a block-triangular `W = [[A,0],[C,D]]` with non-zero permanent the
    permanent ratios of `W` are those of `A` and of `D` on the diagonal blocks and zero on both
    off-diagonal blocks (also on `C`, where the weights are positive). -/
theorem blocks_eq_whole (a b : Nat) (top bottom : Mat) (ht : top.length = a)
    (hb : bottom.length = b) (hz : ∀ r ∈ top, ∀ c, a ≤ c → c < a + b → r.getD c 0 = 0)
    (hW : permC (top ++ bottom) ≠ 0) :
    (∀ i j, i < a → j < a → pSpec (top ++ bottom) i j = pSpec top i j)
    ∧ (∀ i j, i < b → pSpec (top ++ bottom) (a + i) (a + j) = pSpec (bottom.map (List.drop a)) i j)
    ∧ (∀ i j, i < a → a ≤ j → j < a + b → pSpec (top ++ bottom) i j = 0)
    ∧ (∀ i j, i < b → j < a → pSpec (top ++ bottom) (a + i) j = 0) :=
  ⟨fun i j hi hj => pSpec_block_top a b top bottom ht hb hz hW i j hi hj,
   fun i j hi => pSpec_block_bottom a b top bottom ht hb hz hW i j hi,
   fun i j hi h1 h2 => pSpec_block_upper a b top bottom ht hz i j hi h1 h2,
   fun i j hi hj => pSpec_block_lower a b top bottom ht hb hz i j hi hj⟩

example : permC ([[2,1,0],[3,4,0]] ++ [[5,6,7]]) ≠ 0
    ∧ pSpec ([[2,1,0],[3,4,0]] ++ [[5,6,7]]) 2 0 = 0
    ∧ pSpec ([[2,1,0],[3,4,0]] ++ [[5,6,7]]) 0 1 = 3 / 11 := by decide +kernel

/-! ## 4. and 5. The permanent path: `fast_glynn_perm` and `permanent_prob` -/

/-- **Glynn's formula with the Gray-code walk computes the permanent**, for every square matrix
    of any size `n ≥ 1`: the loop never raises, visits each sign vector once, and the sum divided
    by `2^(n-1)` is the Laplace-expansion permanent. -/
theorem glynn_eq_permC (M : Mat) (hn : 0 < M.length) (hsq : ∀ r ∈ M, r.length = M.length) :
    glynn M = .ok (permC M) :=
  Perm.glynn_eq_permC M hn hsq

example : glynn wMatrix2 = .ok 10508395762620 := by decide +kernel

/-- **`permanent_prob` = permanent ratios** on every square block (size ≥ 2) with non-zero
    permanent whose rows have a non-zero maximum: the row rescaling cancels, all row sums of
    the un-normalised matrix equal the permanent, so the division by the maximal row sum is
    exact. -/
theorem permanentProb_eq_spec (arr : Mat) (h2 : 2 ≤ arr.length)
    (hsq : ∀ r ∈ arr, r.length = arr.length) (hmax : ∀ r ∈ arr, maxL r ≠ 0)
    (hW : permC arr ≠ 0) : permanentProb arr = .ok (specMat arr) := by
  apply permanentProbWith_eq_spec glynn arr (by intro h; simp [h] at h2) hmax hW
  intro i j hi hj
  have hl : (minor (rescaled arr) i j).length = arr.length - 1 := by
    rw [length_minor _ _ _ (by simpa [rescaled, scaleAll] using hi)]
    simp [rescaled, scaleAll]
  apply Perm.glynn_eq_permC
  · rw [hl]; omega
  · intro r hr
    rw [hl]
    simp only [minor, rescaled, scaleAll, List.mem_map] at hr
    obtain ⟨r1, hr1, rfl⟩ := hr
    obtain ⟨r0, hr0, rfl⟩ := List.mem_map.mp (List.mem_of_mem_eraseIdx hr1)
    have := hsq r0 hr0
    simp only [scaleRow, List.length_eraseIdx, List.length_map, this, if_pos hj]


example : 2 ≤ wMatrix2.length ∧ (∀ r ∈ wMatrix2, r.length = wMatrix2.length)
    ∧ (∀ r ∈ wMatrix2, maxL r ≠ 0) ∧ permC wMatrix2 ≠ 0 := by decide +kernel

/-- **The fast and the permanent code paths agree** on every staircase block (size ≥ 2) that
    satisfies Hall's condition: `permanent_prob` (rescaling + Glynn + normalisation) returns
    exactly the matrix of `quick_prob`. -/
theorem quick_eq_permanent_path (cnts : List Nat) (h2 : 2 ≤ cnts.length)
    (hall : ∀ c, c < cnts.length → 1 ≤ Dnum cnts c) :
    permanentProb (stair cnts) = .ok (quickProb (stair cnts)) := by
  rw [quickProb_stair_eq_spec cnts hall]
  apply permanentProb_eq_spec
  · simpa [stair] using h2
  · intro r hr
    simp only [stair, List.mem_map] at hr
    obtain ⟨k, _, rfl⟩ := hr
    simp [stair, stairRow]
  · exact maxL_stair_ne_zero cnts hall
  · exact permC_stair_ne_zero cnts hall

example : permanentProb (stair [2, 2, 3]) = .ok (quickProb (stair [2, 2, 3]))
    ∧ quickProb (stair [2, 2, 3]) = [[1/2, 1/2, 0], [1/2, 1/2, 0], [0, 0, 1]] := by decide +kernel


/-! ## 6. The embedded specification `probMatrix`: busy rows and columns -/

/-- **Zero on busy rows and columns**: an entry of `probMatrix` in a locked row or a locked
    column is zero (`locks[i]? = some true` includes the bound `i < locks.length`). -/
theorem probMatrix_busy (W : Mat) (locks : List Bool) (hW : W.length = locks.length) (i j : Nat)
    (hb : locks[i]? = some true ∨ locks[j]? = some true) : entry (probMatrix W locks) i j = 0 :=
  Perm.probMatrix_busy W locks hW i j hb

/-- **The permanent ratio of the idle block on idle rows and columns**: slot `i` is row
    `rank locks i` (number of idle slots before it) of the idle block. -/
theorem probMatrix_idle (W : Mat) (locks : List Bool) (hW : W.length = locks.length) (i j : Nat)
    (hi : locks[i]? = some false) (hj : locks[j]? = some false) :
    entry (probMatrix W locks) i j = pSpec (idle W locks) (rank locks i) (rank locks j) :=
  Perm.probMatrix_idle W locks hW i j hi hj

example : wLocked.length = locksLocked.length ∧ locksLocked[2]? = some true
    ∧ locksLocked[3]? = some false ∧ locksLocked[4]? = some false
    ∧ entry (probMatrix wLocked locksLocked) 3 2 = 0
    ∧ rank locksLocked 3 = 2 ∧ rank locksLocked 4 = 3
    ∧ entry (probMatrix wLocked locksLocked) 3 4 = 1 / 2 := by decide +kernel


/-! ## 7. The pipeline: `inf_retis` returns the embedded permanent ratios

`Reach o N cnts` (Lemmas/PermReach.lean) is the property's family on the idle block `N`:
`o ≤ 1` minus rows `(w,0,…,0)`, `w > 0`, then plus rows that vanish on the minus column, are
positive on the next `cnts[k]` columns and zero after — any positive weights, any staircase,
any order of the plus rows.  `FullReach W locks cnts` (Lemmas/PermFull.lean) is the same for
the full state matrix with its ghost; every lock subset of it gives such an idle block. -/

/-- **The pipeline theorem.** For every weight matrix and lock vector whose idle block is in the
    reachable family and has a perfect matching (`permC ≠ 0`), and such that no block is sent to
    the Monte-Carlo routine (non-row-constant blocks have at most 12 rows), the whole of
    `inf_retis` — drop locked, the two argsorts, equal-weight test, `find_blocks`, the
    single / `quick_prob` / `permanent_prob`+Glynn branches, un-sort, the two `allclose`
    asserts, re-insertion of zeros — returns exactly `probMatrix W locks`: the permanent ratios
    on the idle block, zero on busy rows and columns.  No exception is raised. -/
theorem infRetis_eq_spec (off : Nat) (W : Mat) (locks : List Bool) (cnts : List Nat)
    (hne : idle W locks ≠ [])
    (hR : Reach (prepare off W locks).offset (idle W locks) cnts)
    (hP : permC (idle W locks) ≠ 0)
    (hsmall : ∀ bs, findBlocks (prepare off W locks).sorted (prepare off W locks).offset = .list bs →
      ∀ b ∈ bs, branchOf (subBlock (prepare off W locks).sorted b.1 b.2.1 b.2.2) ≠ .random) :
    infRetis W locks off = .ok (probMatrix W locks) :=
  infRetis_eq_probMatrix off W locks cnts hne hR hP hsmall

/-- the same without the Monte-Carlo proviso when at most 12 ensembles are idle -/
theorem infRetis_eq_spec_small (off : Nat) (W : Mat) (locks : List Bool) (cnts : List Nat)
    (hne : idle W locks ≠ [])
    (hR : Reach (prepare off W locks).offset (idle W locks) cnts)
    (hP : permC (idle W locks) ≠ 0) (h12 : (idle W locks).length ≤ 12) :
    infRetis W locks off = .ok (probMatrix W locks) :=
  infRetis_eq_probMatrix_small off W locks cnts hne hR hP h12

/-- **Any set of busy ensembles**: a full reachable state (minus row, staircase plus rows with
    arbitrary positive weights in any slot order, ghost locked) with any lock vector gives an
    idle block of the family. -/
theorem reach_of_full (W : Mat) (locks : List Bool) (cnts : List Nat)
    (hF : FullReach W locks cnts) : ∃ cnts', Reach (prepare 1 W locks).offset (idle W locks) cnts' :=
  reach_idle_of_full 1 W locks cnts rfl hF

/-- the full-state form of the pipeline theorem (up to 12 idle ensembles) -/
theorem infRetis_eq_spec_full (W : Mat) (locks : List Bool) (cnts : List Nat)
    (hF : FullReach W locks cnts) (hne : idle W locks ≠ [])
    (hP : permC (idle W locks) ≠ 0) (h12 : (idle W locks).length ≤ 12) :
    infRetis W locks 1 = .ok (probMatrix W locks) := by
  obtain ⟨cnts', hR⟩ := reach_of_full W locks cnts hF
  exact infRetis_eq_spec_small 1 W locks cnts' hne hR hP h12

/-- the locked multi-worker state is a full reachable state -/
example : FullReach wLocked locksLocked [3, 2, 4, 4] := fullReach_example

/-- … so `inf_retis` returns the specification on it (equal-weights branch) -/
example : infRetis wLocked locksLocked 1 = .ok (probMatrix wLocked locksLocked) :=
  infRetis_eq_spec_full wLocked locksLocked [3, 2, 4, 4] fullReach_example
    (by decide +kernel) (by decide +kernel) (by decide +kernel)

theorem idle_wWire : idle wWire locksWire
    = [[1,0,0,0,0],[0,2,0,0,0],[0,1000,1000,1000,1000],[0,17,17,17,0],[0,3,5,1,7]] := by
  decide +kernel

theorem offset_wWire : (prepare 1 wWire locksWire).offset = 1 := by decide +kernel

/-- the wire-fencing-like state is in the family (slots not sorted, free weights) -/
theorem reach_wWire :
    Reach (prepare 1 wWire locksWire).offset (idle wWire locksWire) [1, 4, 3, 4] := by
  rw [offset_wWire, idle_wWire]
  refine ⟨by decide, by decide, ?_, ?_⟩
  · intro _
    refine ⟨by decide, by decide +kernel, ?_⟩
    intro c h1 h2
    simp only [List.length_cons, List.length_nil] at h2
    interval_cases c <;> decide +kernel
  · intro k hk
    simp only [List.length_cons, List.length_nil] at hk
    interval_cases k
    all_goals
      refine ⟨by decide, by decide, ?_, ?_, ?_⟩
      all_goals
        intro c h1
        try intro h2
        simp only [List.length_cons, List.length_nil, List.getD_cons_zero, List.getD_cons_succ] at *
        interval_cases c <;> decide +kernel

/-- … so `inf_retis` returns the specification on it (blocks: single, single, Glynn 3×3) -/
example : infRetis wWire locksWire 1 = .ok (probMatrix wWire locksWire) :=
  infRetis_eq_spec_small 1 wWire locksWire [1, 4, 3, 4] (by decide +kernel) reach_wWire
    (by decide +kernel) (by decide +kernel)


/-! ## 8. The exact code paths are used up to 12: the Monte-Carlo marker only for larger blocks -/

/-- **Block-size threshold.** For every input whatsoever: if `inf_retis` sends blocks to the
    Monte-Carlo routine, each of them has more than 12 rows.  (With `infRetis_eq_spec` this is
    the statement that exactness can only be lost on non-row-constant blocks > 12.) -/
theorem monteCarlo_only_above_12 (W : Mat) (locks : List Bool) (off : Nat) (dims : List Nat)
    (h : infRetis W locks off = .monteCarlo dims) : ∀ d ∈ dims, 12 < d :=
  infRetis_mc_dims W locks off dims h

/-- a free 13×13 block (sorted form) -/
def free13 : Mat := (List.replicate 13 2 : Row) :: List.replicate 12 ((3 : Rat) :: List.replicate 12 1)

/-- the marker is produced for a free block of 13, while 12 rows of the same kind still take the
    permanent path (threshold on both sides) -/
example : (sortedOut { offset := 0, m := 13, sortIdx := List.range 13, sorted := free13, equal := false }).mc = [13]
    ∧ branchOf free13 = .random ∧ branchOf (free13.take 12) = .glynn ∧ branchOf (free13.take 1) = .single := by
  decide +kernel

/-! ## 9. The `prob` property and its cache `_last_prob` (model: `Infretis.PermCache`)

The sampler state machine over the operations that touch `state`, `_locks` or `_last_prob`:
the getter, `lock`, `unlock`, `pick`/`pick_traj_ens` (read, `swap`, `lock`), `pick_lock` re-issuing a recorded job
after a restart (`swap`, `lock` WITHOUT a read — op `reissue`, added by the audit pass: before, this step could only
be written with the non-public bare swap, so restart histories were outside the theorem), `add_traj`,
`sort_trajstate`, `print_state` — and the bare `swap`, which the sampler never performs on its own. -/

open Infretis.PermCache in
/-- **Cache coherence for every operation history.**  Start from any coherent state (e.g. an empty cache) and run
    ANY list of the sampler's operations that completes: every probability matrix that was handed out — by the
    getter, to `pick`/`pick_traj_ens`, inside `add_traj` and `sort_trajstate`, to `print_state` — is
    `inf_retis(abs(state), _locks)` of the state and locks AT THE MOMENT OF THE USE (never an error value), and
    the final cache is again empty or current. -/
theorem cache_coherent_every_history (c : C) (hc : Coherent c) (ops : List Op)
    (hp : ∀ op ∈ ops, isPublic op = true) (c' : C) (us : List Use) (h : run c ops = .ok (c', us)) :
    (∀ u ∈ us, u.val = compute u.at_ ∧ ∀ e, u.val ≠ Res.error e) ∧ Coherent c' :=
  let r := run_spec ops c hc hp c' us h
  ⟨r.2, r.1⟩

open Infretis.PermCache in
/-- a fresh object (`_last_prob = None`) is coherent -/
theorem cache_fresh_coherent (n : Nat) (ti : Int) (W : Mat) (locks : List Bool) (trajs : List (Option Nat)) :
    Coherent (mkC n ti W locks trajs) := coherent_of_none _ rfl

/-- slots: the [0-] path, one plus path, ghost -/
def wCache : Mat := [[1,0,0],[0,1,0],[0,0,0]]

open Infretis.PermCache in
open Infretis.PermCache in
/-- the restart scenario: the cache is full (the `add_traj`s of `load_paths` end with a read), `pick_lock` re-issues
    the job that was in flight (swap + lock, no read: a public operation), the next read recomputes — the history
    completes, both matrices handed out are current, and a bare swap stays non-public -/
example : isPublic (.reissue 0 0) = true ∧ isPublic (.rawSwap 0 0) = false
    ∧ (match run (mkC 3 (-1) wCache [false, false, true] [some 1, some 2, none]) [.read, .reissue 0 0, .read] with
       | .ok (c', us) => us.length == 2 && c'.cache.isSome && us.all (fun u => decide (u.val = compute u.at_))
       | .error _ => false) = true := by decide +kernel

open Infretis.PermCache in
/-- a history through every public operation: read, pick (swap+lock), print_state, add_traj of the finished job,
    sort_trajstate, lock, read, unlock, print_state — it completes, 7 matrices are handed out, and the cache is
    empty at the end (print_state restores None) -/
example : (match run (mkC 3 (-1) wCache [false, false, true] [some 1, some 2, none])
      [.read, .swapLock 1 1, .printState, .addTraj 0 3 [1, 0], .sort, .lock 0, .read, .unlock 0, .printState] with
    | .ok (c', us) => us.length == 7 && c'.cache.isNone
    | .error _ => false) = true := by decide +kernel

open Infretis.PermCache in
/-- **What a use of the cache is worth**: on a state of the reachable family (up to 12 idle ensembles) the
    matrix handed out is the embedded permanent-ratio matrix of the current `(|state|, locks)`. -/
theorem cache_use_eq_spec (u : Use) (hu : u.val = compute u.at_) (cnts : List Nat)
    (hF : FullReach (absMat u.at_.W) u.at_.locks cnts) (hne : idle (absMat u.at_.W) u.at_.locks ≠ [])
    (hP : permC (idle (absMat u.at_.W) u.at_.locks) ≠ 0) (h12 : (idle (absMat u.at_.W) u.at_.locks).length ≤ 12) :
    u.val = .ok (probMatrix (absMat u.at_.W) u.at_.locks) := by
  rw [hu]
  exact infRetis_eq_spec_full _ _ cnts hF hne hP h12

open Infretis.PermCache in
/-- **A bare `swap` is not an invalidation point**: `swap` leaves `_last_prob` alone, so read – swap – read hands
    out the matrix of the state BEFORE the swap.  (In the code every `swap` is followed by `lock` or by
    `_last_prob = None`: `pick`, `pick_traj_ens`, `sort_trajstate`; the theorem above covers those.) -/
theorem bare_swap_stale_counterexample :
    ¬ (∀ c' us, run (mkC 3 (-1) wCache [false, false, true] [some 1, some 2, none])
        [.read, .rawSwap 0 1, .read] = .ok (c', us) → ∀ u ∈ us, u.val = compute u.at_) := by
  intro h
  have key : (match run (mkC 3 (-1) wCache [false, false, true] [some 1, some 2, none])
        [.read, .rawSwap 0 1, .read] with
      | .ok (_, us) => us.all (fun u => decide (u.val = compute u.at_))
      | .error _ => true) = false := by decide +kernel
  cases hr : run (mkC 3 (-1) wCache [false, false, true] [some 1, some 2, none])
      [.read, .rawSwap 0 1, .read] with
  | error e => rw [hr] at key; cases key
  | ok p =>
    obtain ⟨c', us⟩ := p
    rw [hr] at key
    have hall : us.all (fun u => decide (u.val = compute u.at_)) = true := by
      rw [List.all_eq_true]
      intro u hu
      exact decide_eq_true (h c' us hr u hu)
    simp only [hall] at key
    cases key

/-! ## 10. The Monte-Carlo routine `random_prob` (model: `Infretis.PermRandom`): what holds SURELY

`random_prob` is outside exactness by design (blocks > 12 that are not row-constant).  With every draw an explicit
argument — per iteration the direction, `start` (drawn twice for odd sizes) and the `len(arr)//2` uniform
numbers — the following hold for EVERY draw sequence, not only in expectation. -/

open Infretis.PermRandom in
/-- **Zero where the weight is zero, surely.**  If the block has a non-zero diagonal (the identity assignment the
    routine starts from has non-zero weight — true for every block `find_blocks` cuts out of a sorted staircase)
    then for every number of samples and every outcome of the draws (`start ∈ {0,1}`, uniform numbers `≥ 0`) the
    returned matrix is exactly zero wherever the weight is zero: no proposal into a zero-weight state is ever
    accepted. -/
theorem randomProb_zero_where_weight_zero (arr : Mat) (draws : List Draw)
    (hdiag : ∀ c, c < arr.length → entry arr c c ≠ 0) (hd : ∀ d ∈ draws, DrawOk d)
    (r c : Nat) (hr : r < arr.length) (hc : c < arr.length) (hz : entry arr r c = 0) :
    entry (randomProb arr draws) r c = 0 :=
  randomProb_zero arr draws hdiag hd r c hr hc hz

open Infretis.PermRandom in
/-- **Rows sum to exactly one** for every block, every number of samples and every draw sequence (each visited
    state is a permutation; the normalisation is by `n + 1` = number of states counted incl. the initial one). -/
theorem randomProb_rows_sum_one (arr : Mat) (draws : List Draw) (r : Nat) (hr : r < arr.length) :
    ((randomProb arr draws).getD r []).sum = 1 :=
  randomProb_row_sum arr draws r hr

open Infretis.PermRandom in
/-- **Columns sum to exactly one** likewise: the estimate is doubly stochastic surely, so the two `allclose`
    assertions of `inf_retis` cannot fire because of the Monte-Carlo block. -/
theorem randomProb_cols_sum_one (arr : Mat) (draws : List Draw) (c : Nat) (hc : c < arr.length) :
    ((List.range arr.length).map (fun r => entry (randomProb arr draws) r c)).sum = 1 :=
  randomProb_col_sum arr draws c hc

/-- a 3×3 block (odd size: `start` is drawn) with a zero above the diagonal -/
def wRand : Mat := [[2, 1, 0], [1, 2, 4], [1, 1, 8]]

open Infretis.PermRandom in
/-- three iterations: the wrap-around pair (column 0 and the last column, left, start 0) is rejected because it
    would put path 0 on its zero weight; columns 0,1 exchange (right, start 0, 1/8 < 1/4); the pair 1,2 (right,
    start 1) is rejected for the same reason.  Draw requests: three `choice`s and one uniform number for size 3,
    one `choice` and seven uniform numbers for size 14. -/
example : (∀ c, c < wRand.length → entry wRand c c ≠ 0)
    ∧ (∀ d ∈ [Draw.mk true 1 0 [0], Draw.mk false 1 0 [1/8], Draw.mk false 0 1 [0]], DrawOk d)
    ∧ entry wRand 0 2 = 0
    ∧ randomProb wRand [Draw.mk true 1 0 [0], Draw.mk false 1 0 [1/8], Draw.mk false 0 1 [0]]
        = [[1/2, 1/2, 0], [1/2, 1/2, 0], [0, 0, 1]]
    ∧ requests 3 = [.c2, .c2, .c2, .rnd 1] ∧ requests 14 = [.c2, .rnd 7] := by
  refine ⟨by decide +kernel, ?_, by decide +kernel, by decide +kernel, by decide +kernel, by decide +kernel⟩
  intro d hd
  simp only [List.mem_cons, List.not_mem_nil, or_false] at hd
  rcases hd with rfl | rfl | rfl <;> exact ⟨by decide, by intro r hr; simp at hr; subst hr; decide +kernel⟩

/-! ## 11. The boundary of the family assumption: which code paths need the staircase shape

`permanentProb_eq_spec` and `glynn_eq_permC` above assume NOTHING about the shape or the signs of the matrix: the
permanent path is exact for every square matrix with non-zero permanent and non-zero row maxima.  The fast path
(`quick_prob`), the block decomposition (`find_blocks`) and therefore `inf_retis` as a whole rest on the staircase
shape: on a weight vector with a hole (a zero between two non-zero entries — the open C05 finding) they return a
doubly stochastic matrix that is NOT the permanent-ratio matrix, and no assertion fires. -/

/-- plus block with a hole in the first row -/
def holeBlock : Mat := [[1, 0, 1], [1, 1, 0], [1, 1, 1]]

/-- **The permanent path does not need the family; the fast path does.**  On the 0/1 block with a hole
    (permanent 3) `permanent_prob` returns the permanent ratios and `quick_prob` does not. -/
theorem quick_needs_staircase_counterexample :
    permC holeBlock ≠ 0 ∧ permanentProb holeBlock = .ok (specMat holeBlock)
      ∧ quickProb holeBlock ≠ specMat holeBlock := by
  refine ⟨by decide +kernel, ?_, by decide +kernel⟩
  exact permanentProb_eq_spec holeBlock (by decide) (by decide) (by decide +kernel) (by decide +kernel)

/-- the full state with that block: [0-] row, the three plus rows, ghost (locked) -/
def wHole : Mat := [[1,0,0,0,0],[0,1,0,1,0],[0,1,1,0,0],[0,1,1,1,0],[0,0,0,0,0]]
/-- the same with weights: the hole row (2,·,3), a short row, a free row -/
def wHoleW : Mat := [[1,0,0,0,0],[0,2,0,3,0],[0,1,1,0,0],[0,1,5,1,0],[0,0,0,0,0]]
def locksHole : List Bool := [false, false, false, false, true]

/-- all row sums and all column sums of the idle part equal one -/
def doublyStochastic (P : Mat) (locks : List Bool) : Bool :=
  let Q := idle P locks
  allOnes (Q.map List.sum) && allOnes ((List.range Q.length).map (fun j => (colOf Q j).sum))

/-- **`inf_retis` on a hole vector: silently wrong (equal-weights / `quick_prob` branch).**  The permanent ratios
    are well defined (permanent 3), `inf_retis` raises nothing, its matrix is doubly stochastic — and it is not
    the permanent-ratio matrix (it says 1/2 where the exact value is 1/3). -/
theorem infRetis_hole_quick_counterexample :
    permC (idle wHole locksHole) ≠ 0
      ∧ ∃ P, infRetis wHole locksHole 1 = .ok P ∧ doublyStochastic P locksHole = true
        ∧ P ≠ probMatrix wHole locksHole
        ∧ entry P 1 1 = 1 / 2 ∧ entry (probMatrix wHole locksHole) 1 1 = 1 / 3 := by
  have hs : argsort [0, -1, 0] = [1, 0, 2] := by
    simp [argsort, List.mergeSort, List.zipIdx, List.MergeSort.Internal.splitInTwo]
  have hi := (infRetis_of_argsorts wHole locksHole 1 [0] [0, -1, 0] [0] [1, 0, 2]
    (by decide +kernel) (by decide +kernel) (by decide +kernel) hs).1
  refine ⟨by decide +kernel,
    [[1,0,0,0,0],[0,1/2,0,1/2,0],[0,1/3,2/3,0,0],[0,1/6,1/3,1/2,0],[0,0,0,0,0]], ?_, ?_, ?_, ?_, ?_⟩
  · rw [hi]; decide +kernel
  all_goals decide +kernel

/-- **`find_blocks` on a hole vector: a decomposition that is not block-triangular.**  With weights the
    equal-weight test fails, `find_blocks` counts non-zeros per row and cuts the sorted idle block into
    (0,1) (1,3) (3,4); `inf_retis` answers with the identity (doubly stochastic, no assertion) although the
    permanent is 20 and e.g. the hole path is in ensemble index 3 with probability 9/10. -/
theorem infRetis_hole_blocks_counterexample :
    permC (idle wHoleW locksHole) ≠ 0
      ∧ findBlocks (prepare 1 wHoleW locksHole).sorted (prepare 1 wHoleW locksHole).offset
          = .list [(0, 1, -1), (1, 3, 1), (3, 4, 1)]
      ∧ ∃ P, infRetis wHoleW locksHole 1 = .ok P ∧ doublyStochastic P locksHole = true
        ∧ entry P 1 3 = 0 ∧ entry (probMatrix wHoleW locksHole) 1 3 = 9 / 10 := by
  have hs : argsort [0, -1, 0] = [1, 0, 2] := by
    simp [argsort, List.mergeSort, List.zipIdx, List.MergeSort.Internal.splitInTwo]
  have hi := infRetis_of_argsorts wHoleW locksHole 1 [0] [0, -1, 0] [0] [1, 0, 2]
    (by decide +kernel) (by decide +kernel) (by decide +kernel) hs
  refine ⟨by decide +kernel, ?_,
    [[1,0,0,0,0],[0,1,0,0,0],[0,0,1,0,0],[0,0,0,1,0],[0,0,0,0,0]], ?_, ?_, ?_, ?_⟩
  · rw [hi.2]; decide +kernel
  · rw [hi.1]; decide +kernel
  all_goals decide +kernel

/-- … while the permanent path on the WHOLE idle block is exact on both hole states (no family assumption). -/
theorem permanent_path_exact_on_hole :
    permanentProb (idle wHole locksHole) = .ok (specMat (idle wHole locksHole))
      ∧ permanentProb (idle wHoleW locksHole) = .ok (specMat (idle wHoleW locksHole)) := by
  constructor
  · exact permanentProb_eq_spec _ (by decide +kernel) (by decide +kernel) (by decide +kernel) (by decide +kernel)
  · exact permanentProb_eq_spec _ (by decide +kernel) (by decide +kernel) (by decide +kernel) (by decide +kernel)

/-! ## 12. Any tie order of the two `np.argsort` calls (audit pass)

The model's `argsort` is stable (`List.mergeSort`); numpy's default `argsort` is not.  On in-family matrices in which
several live paths end at the same ensemble with different weights the code's `sort_idx` therefore differs from the
model's (measured: 197 of 3000 random states with 8 plus ensembles and free weights), so the theorems of §7 — stated
for `infRetis`, i.e. for the stable order — did not speak about the row order the code really computes with.
`infRetisGiven W locks off a b` is `inf_retis` with the results `a`, `b` of its two argsort calls as inputs;
`Sorts keys idx` is all that is assumed about them: a permutation of the positions that reads the keys in
non-decreasing order (the tie evaluates the executable `sortsB` on every logged argsort call of the real code and
runs `infRetisGiven` with the code's own results). -/

/-- `infRetis` is `infRetisGiven` at the stable sort -/
theorem infRetis_is_given (W : Mat) (locks : List Bool) (off : Nat) :
    infRetis W locks off
      = infRetisGiven W locks off (argsort (keysMinus off W locks)) (argsort (keysPlus off W locks)) := rfl

/-- … and the stable sort is one admissible result -/
example (keys : List Int) : Sorts keys (argsort keys) := sorts_argsort keys

/-- **The pipeline theorem for every tie order.**  Whatever the two `np.argsort` calls return, as long as each
    result sorts its keys: on the reachable family (idle block in `Reach`, perfect matching, no block sent to the
    Monte-Carlo routine) `inf_retis` returns exactly `probMatrix W locks`.  In particular the result does not
    depend on the tie order. -/
theorem infRetis_any_tie_order (off : Nat) (W : Mat) (locks : List Bool) (cnts : List Nat) (a b : List Nat)
    (ha : Sorts (keysMinus off W locks) a) (hb : Sorts (keysPlus off W locks) b)
    (hne : idle W locks ≠ [])
    (hR : Reach (offsetOf off locks) (idle W locks) cnts)
    (hP : permC (idle W locks) ≠ 0)
    (hsmall : ∀ bs, findBlocks (prepareGiven off W locks a b).sorted (offsetOf off locks) = .list bs →
      ∀ bl ∈ bs, branchOf (subBlock (prepareGiven off W locks a b).sorted bl.1 bl.2.1 bl.2.2) ≠ .random) :
    infRetisGiven W locks off a b = .ok (probMatrix W locks) :=
  finishOf_eq_probMatrix off W locks cnts a b ha hb hne hR hP hsmall

/-- the same without the Monte-Carlo proviso when at most 12 ensembles are idle -/
theorem infRetis_any_tie_order_small (off : Nat) (W : Mat) (locks : List Bool) (cnts : List Nat) (a b : List Nat)
    (ha : Sorts (keysMinus off W locks) a) (hb : Sorts (keysPlus off W locks) b)
    (hne : idle W locks ≠ [])
    (hR : Reach (offsetOf off locks) (idle W locks) cnts)
    (hP : permC (idle W locks) ≠ 0) (h12 : (idle W locks).length ≤ 12) :
    infRetisGiven W locks off a b = .ok (probMatrix W locks) :=
  finishOf_eq_probMatrix_small off W locks cnts a b ha hb hne hR hP h12

/-- the full-state form (up to 12 idle ensembles), every tie order -/
theorem infRetis_any_tie_order_full (W : Mat) (locks : List Bool) (cnts : List Nat) (a b : List Nat)
    (hF : FullReach W locks cnts)
    (ha : Sorts (keysMinus 1 W locks) a) (hb : Sorts (keysPlus 1 W locks) b)
    (hne : idle W locks ≠ [])
    (hP : permC (idle W locks) ≠ 0) (h12 : (idle W locks).length ≤ 12) :
    infRetisGiven W locks 1 a b = .ok (probMatrix W locks) := by
  obtain ⟨cnts', hR⟩ := reach_of_full W locks cnts hF
  exact infRetis_any_tie_order_small 1 W locks cnts' a b ha hb hne hR hP h12

/-- the executable check used by driver and tie implies the hypothesis -/
theorem sorts_of_check (keys : List Int) (idx : List Nat) (h : sortsB keys idx = true) : Sorts keys idx :=
  sorts_of_sortsB keys idx h

/-- the wire-fencing-like state of §7 has two paths (slots 2 and 4) that end at the same ensemble with different
    weights: `[0,2,3,1]` is the other admissible result of the second argsort (the stable one is `[0,2,1,3]`); it
    puts the rows into a different order … -/
example : keysPlus 1 wWire locksWire = [-3, 0, -1, 0]
    ∧ sortsB (keysPlus 1 wWire locksWire) [0, 2, 3, 1] = true
    ∧ sortsB (keysPlus 1 wWire locksWire) [0, 2, 1, 3] = true
    ∧ (prepareGiven 1 wWire locksWire [0] [0, 2, 3, 1]).sorted
        ≠ (prepareGiven 1 wWire locksWire [0] [0, 2, 1, 3]).sorted := by decide +kernel

/-- … and `inf_retis` returns the specification with that order too -/
example : infRetisGiven wWire locksWire 1 [0] [0, 2, 3, 1] = .ok (probMatrix wWire locksWire) :=
  infRetis_any_tie_order_small 1 wWire locksWire [1, 4, 3, 4] [0] [0, 2, 3, 1]
    (sorts_of_check _ _ (by decide +kernel)) (sorts_of_check _ _ (by decide +kernel))
    (by decide +kernel) reach_wWire (by decide +kernel) (by decide +kernel)

/-! ## 13. One weight per path (shooting moves only): any number of ensembles, no size proviso (audit pass)

§7 covers more than 12 idle ensembles only through the hypothesis `hsmall` about the blocks `find_blocks` would
cut.  In the most common set-up — every move is shooting, every live path carries ONE weight — `find_blocks` is
never called: the code's equal-weight test succeeds and both halves go to `quick_prob`. -/

/-- **The equal-weights branch needs no size proviso.**  When the code's own equal-weight test succeeds,
    `inf_retis` returns `probMatrix W locks` on the reachable family for any number of idle ensembles. -/
theorem infRetis_equal_branch_any_size (off : Nat) (W : Mat) (locks : List Bool) (cnts : List Nat) (a b : List Nat)
    (ha : Sorts (keysMinus off W locks) a) (hb : Sorts (keysPlus off W locks) b)
    (hne : idle W locks ≠ [])
    (hR : Reach (offsetOf off locks) (idle W locks) cnts)
    (hP : permC (idle W locks) ≠ 0)
    (he : (prepareGiven off W locks a b).equal = true) :
    infRetisGiven W locks off a b = .ok (probMatrix W locks) :=
  finishOf_eq_probMatrix_equal off W locks cnts a b ha hb hne hR hP he

/-- **One weight per path ⇒ exact, for any number of ensembles, any lock set, any slot order, any tie order.**
    `RowConst r`: all non-zero weights of the row are equal. -/
theorem infRetis_one_weight_per_path (W : Mat) (locks : List Bool) (cnts : List Nat) (a b : List Nat)
    (hF : FullReach W locks cnts) (hrc : ∀ r ∈ W, RowConst r)
    (ha : Sorts (keysMinus 1 W locks) a) (hb : Sorts (keysPlus 1 W locks) b)
    (hne : idle W locks ≠ []) (hP : permC (idle W locks) ≠ 0) :
    infRetisGiven W locks 1 a b = .ok (probMatrix W locks) := by
  obtain ⟨cnts', hR⟩ := reach_of_full W locks cnts hF
  exact infRetis_equal_branch_any_size 1 W locks cnts' a b ha hb hne hR hP
    (equal_of_rowConst 1 W locks cnts' a b ha hb hR hP (rowConst_idle W locks hrc))

/-- the same for the model's own (stable) order: a statement about `infRetis` -/
theorem infRetis_one_weight_per_path_stable (W : Mat) (locks : List Bool) (cnts : List Nat)
    (hF : FullReach W locks cnts) (hrc : ∀ r ∈ W, RowConst r)
    (hne : idle W locks ≠ []) (hP : permC (idle W locks) ≠ 0) :
    infRetis W locks 1 = .ok (probMatrix W locks) :=
  infRetis_one_weight_per_path W locks cnts _ _ hF hrc (sorts_argsort _) (sorts_argsort _) hne hP

/-- **`inf_retis` is exact on the all-shooting state with ANY number `p` of plus ensembles** (13, 50, 1000 idle
    ensembles alike), for every tie order: non-vacuity of `infRetis_one_weight_per_path` beyond 12. -/
theorem infRetis_ones_any_size (p : Nat) (a b : List Nat)
    (ha : Sorts (keysMinus 1 (onesW p) (onesLocks p)) a) (hb : Sorts (keysPlus 1 (onesW p) (onesLocks p)) b) :
    infRetisGiven (onesW p) (onesLocks p) 1 a b = .ok (probMatrix (onesW p) (onesLocks p)) := by
  apply infRetis_one_weight_per_path _ _ _ a b (fullReach_ones p) (rowConst_ones p) ha hb
  · rw [idle_ones]; simp
  · exact permC_ones_ne p

example : infRetis (onesW 40) (onesLocks 40) 1 = .ok (probMatrix (onesW 40) (onesLocks 40)) :=
  infRetis_ones_any_size 40 _ _ (sorts_argsort _) (sorts_argsort _)

/-! ## 14. §7 and §10 composed: the Monte-Carlo blocks of the family (audit pass)

`randomProb_zero_where_weight_zero` assumes a non-zero diagonal of the block; its docstring said "true for every
block `find_blocks` cuts out of a sorted staircase" without a theorem (only the tie judged it). -/

open Infretis.PermRandom in
/-- **Every diagonal block of the sorted idle block of a family state has a non-zero diagonal, so whatever block
    `inf_retis` hands to `random_prob` (direction +1: every block right of the `[0-]` row), the Monte-Carlo estimate is
    surely zero where the weight is zero** — for every tie order, every number of samples, every draw sequence. -/
theorem monteCarlo_block_zero_where_weight_zero (off : Nat) (W : Mat) (locks : List Bool) (cnts : List Nat)
    (a b : List Nat) (ha : Sorts (keysMinus off W locks) a) (hb : Sorts (keysPlus off W locks) b)
    (hR : Reach (offsetOf off locks) (idle W locks) cnts) (hP : permC (idle W locks) ≠ 0)
    (start stop : Nat) (hstop : stop ≤ (idle W locks).length)
    (draws : List Draw) (hd : ∀ d ∈ draws, DrawOk d) (r c : Nat) (hr : r < stop - start) (hc : c < stop - start)
    (hz : entry (subBlock (prepareGiven off W locks a b).sorted start stop 1) r c = 0) :
    entry (randomProb (subBlock (prepareGiven off W locks a b).sorted start stop 1) draws) r c = 0 := by
  obtain ⟨cnts', hS⟩ := prepareGiven_sortedReach off W locks cnts a b ha hb hR hP
  have hl := prepareGiven_sorted_length off W locks a b ha hb
  have hlen : (subBlock (prepareGiven off W locks a b).sorted start stop 1).length = stop - start :=
    Blk.subBlock_length _ start stop 1 (by omega)
  apply randomProb_zero _ draws ?_ hd r c (by omega) (by omega) hz
  intro k hk
  rw [hlen] at hk
  exact subBlock_diag_ne_zero _ _ cnts' hS start stop k hk (by omega)

/-- the 13-row free block of §8 embedded in a state: hypotheses of the theorem on a block that really goes to the
    Monte-Carlo routine are satisfiable — here on the wire-fencing-like state of §7 (block rows 2..5), where the
    weight (17,17,17,0) has a zero above the diagonal -/
example : entry (subBlock (prepareGiven 1 wWire locksWire [0] [0, 2, 3, 1]).sorted 2 5 1) 0 2 = 0
    ∧ (∀ k, k < 5 - 2 → entry (subBlock (prepareGiven 1 wWire locksWire [0] [0, 2, 3, 1]).sorted 2 5 1) k k ≠ 0) := by
  refine ⟨by decide +kernel, ?_⟩
  intro k hk
  interval_cases k <;> decide +kernel

end Infretis.C02
