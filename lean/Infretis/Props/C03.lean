import Infretis.Lemmas.RepexC03Load
import Infretis.Lemmas.RepexC03AvailSys
import Infretis.Lemmas.RepexC03Step
import Infretis.Lemmas.RepexC03RRestore
import Infretis.Lemmas.RepexC03Micro
import Infretis.Lemmas.RepexC03Factory
import Infretis.Lemmas.RepexC03AvailSysR
import Infretis.Lemmas.RepexC03Submit
/-!
# C03 — a busy ensemble, path, engine or work directory is never shared

Property theorems only (helper lemmas: `Infretis/Lemmas/RepexC03{Perm,Core,Treat,Eng,Sys,Init,Load,Step,Avail,AvailSys,
R*,Micro,Factory,AvailSysR}.lean`; models: `Model/Repex.lean`, `Model/RepexMicro.lean` (sub-steps), `Model/EngFactory.lean`
(`create_engines`)).
Model: `Infretis/Model/Repex.lean` — `REPEX_state` as a state machine and the two loops of
`scheduler()` as the event system `sysStep` / `run` over explicit outcomes:
`.start o` (one iteration of `while state.initiate()`), `.initDone` (the closing `initiate()` call),
`.step k status newW o` (one iteration of `while state.loop()`: the `k`-th job in flight completes —
ANY `k`, this is the schedule quantifier — with ANY accept/reject outcome and new weights, then a new
job is drawn with ANY outcome `o` of the random choices that has positive probability).

Quantifier of every theorem below: every initial state `y0` with `Init y0` (what `load_paths`
leaves on a fresh start: every slot idle and holding its own path; any number of ensembles ≥ 1, any
weights, any number of workers, any engine table), every event list `evs` (every interleaving of
completions, every outcome), every `y` with `run y0 evs = .ok y` — i.e. every instant of every
history the sampler can go through without raising.  Slots: ensemble `ens_num` lives in slot
`ens_num + 1`; the last slot is the ghost.

Sections 1–6: fresh starts, `locked0 = []` (no jobs to re-issue from a restart file).  Section 7
(`_restart` theorems) covers the re-issue branch of `pick_lock` and chains of restarts; sections 9–11
(sub-steps, `create_engines`, engine availability across restarts, the branch structure of `pick`)
are stated for `Start` = fresh start or restart.  Section 12 (`Model/RepexSubmit.lean`,
`Lemmas/RepexC03Submit.lean`): the hand-over of work units — references are submitted, values are received.
-/
namespace Infretis.C03
open Infretis.Repex Infretis.Perm

/-- all (ensemble, path) pairs handed out to jobs in flight -/
def inflight (jobs : List Job) : List Picked := jobs.flatMap (·.picked)

theorem held_eq (jobs : List Job) : held jobs = (inflight jobs).map (fun p => (slotOf p, p.pn)) := by
  simp only [held, inflight, List.map_flatMap]
  rfl

theorem reach_inv {y0 y : Sys} {evs : List Ev} (h0 : Init y0) (hr : run y0 evs = .ok y) : Inv y :=
  run_preserves evs h0.inv hr

/-! ## A concrete history used for the non-vacuity examples

3 ensembles `[0-] [0+] [1+]` + ghost, 2 workers, one engine type with 2 instances.
History: worker 0 starts a zero swap (holds `[0-]` and `[0+]`), worker 1 starts `[1+]`, initiation
closes, the zero swap completes ACCEPTED (two new paths 3, 4) and worker 0 restarts on `[0-]`, then
worker 1's job completes REJECTED and worker 1 restarts on `[1+]`. -/

def exBlank : St := blank 4 2 10 0 3 0 [[-1, -1]] [[0], [0], [0]] false []

def exS0 : St :=
  match loadPaths exBlank [(0, [1], [0,0,0,0]), (1, [1,1,0], [0,0,0,0]), (2, [1,1,0], [0,0,0,0])] with
  | .ok s => s
  | .error _ => exBlank

def exSys : Sys := { s := exS0, jobs := [] }

def exEvs : List Ev :=
  [ .start { t := 0, e := 0, coin := true, partner := 1 },
    .start { t := 2, e := 2 },
    .initDone,
    .step 0 .acc [[1], [1, 1, 0]] { t := 0, e := 0, coin := false },
    .step 0 .rej [] { t := 2, e := 2 } ]

def exAt (k : Nat) : Sys :=
  match run exSys (exEvs.take k) with
  | .ok y => y
  | .error _ => exSys

theorem exS0_loaded : loadPaths exBlank
    [(0, [1], [0,0,0,0]), (1, [1,1,0], [0,0,0,0]), (2, [1,1,0], [0,0,0,0])] = .ok exS0 := by
  decide +kernel

/-- **`Init` is what a fresh start produces**: `REPEX_state.__init__` followed by `load_paths` on
    `n − 1` initial paths with pairwise distinct numbers below `trajNum` (any weights, any number of
    workers, any engine table), `n ≥ 2` slots, no restart jobs — if `load_paths` does not raise, the
    resulting state with nothing in flight satisfies `Init`. -/
theorem fresh_start_is_init (n workers tsteps cstep trajNum seed : Nat) (occ : List (List Int))
    (ensEng : List (List Nat)) (restarted : Bool) (paths : List (Nat × List Rat × List Rat)) (s : St)
    (hn : 2 ≤ n) (hlen : paths.length = n - 1) (hnd : (paths.map (·.1)).Nodup)
    (hlt : ∀ p ∈ paths, p.1 < trajNum)
    (h : loadPaths (blank n workers tsteps cstep trajNum seed occ ensEng restarted []) paths = .ok s) :
    Init { s := s, jobs := [] } :=
  init_of_loadPaths n workers tsteps cstep trajNum seed occ ensEng restarted paths s hn hlen hnd hlt h

theorem ex_init : Init exSys :=
  fresh_start_is_init 4 2 10 0 3 0 [[-1, -1]] [[0], [0], [0]] false _ exS0 (by decide) (by decide)
    (by decide) (by decide) exS0_loaded

/-- the whole history runs, and so does every prefix -/
theorem ex_runs (k : Nat) (hk : k ≤ 5) : run exSys (exEvs.take k) = .ok (exAt k) := by
  match k, hk with
  | 0, _ => decide +kernel
  | 1, _ => decide +kernel
  | 2, _ => decide +kernel
  | 3, _ => decide +kernel
  | 4, _ => decide +kernel
  | 5, _ => decide +kernel

/-! ## 1. Ensembles and paths of jobs in flight are pairwise disjoint -/

/-- **No ensemble is held twice**: over all jobs in flight and all their picked entries, the
    ensemble numbers are pairwise distinct (distinct jobs hold disjoint ensembles, and a job never
    lists an ensemble twice). -/
theorem inflight_ens_disjoint (y0 y : Sys) (evs : List Ev) (h0 : Init y0) (hr : run y0 evs = .ok y) :
    ((inflight y.jobs).map (·.ens)).Nodup := by
  have hi := reach_inv h0 hr
  have hn := hi.core.nodup
  rw [held_eq, List.map_map] at hn
  exact nodup_map_of_nodup_map (fun p => slotOf p) (·.ens) _ hn
    (fun x _ y _ h => by simp only [slotOf]; rw [h])

example : Init exSys ∧ run exSys (exEvs.take 2) = .ok (exAt 2)
    ∧ (inflight (exAt 2).jobs).map (·.ens) = [-1, 0, 1] :=
  ⟨ex_init, ex_runs 2 (by decide), by decide +kernel⟩

/-- **No path is held twice**: the path numbers handed to jobs in flight are pairwise distinct. -/
theorem inflight_paths_disjoint (y0 y : Sys) (evs : List Ev) (h0 : Init y0) (hr : run y0 evs = .ok y) :
    ((inflight y.jobs).map (·.pn)).Nodup := by
  have hi := reach_inv h0 hr
  have hc := hi.core
  have hn := hc.nodup
  have : (inflight y.jobs).map (·.pn) = (held y.jobs).map Prod.snd := by
    rw [held_eq, List.map_map]; rfl
  rw [this]
  refine nodup_map_of_nodup_map Prod.fst Prod.snd _ hn ?_
  intro x hx z hz hxz
  obtain ⟨e1, p1⟩ := x
  obtain ⟨e2, p2⟩ := z
  simp only at hxz
  subst hxz
  obtain ⟨h1, h2, _⟩ := hc.heldOk e1 p1 hx
  obtain ⟨h3, h4, _⟩ := hc.heldOk e2 p1 hz
  exact hc.inj e1 e2 p1 h1 h3 h2 h4

example : Init exSys ∧ run exSys exEvs = .ok (exAt 5)
    ∧ (inflight (exAt 5).jobs).map (·.pn) = [3, 2] :=
  ⟨ex_init, ex_runs 5 (by decide), by decide +kernel⟩

/-- **All live paths are distinct** (the fact behind path disjointness): two different ensemble
    slots never hold the same path number, and every ensemble slot holds a path. -/
theorem live_paths_distinct (y0 y : Sys) (evs : List Ev) (h0 : Init y0) (hr : run y0 evs = .ok y) :
    (∀ e, e < y.s.n - 1 → ∃ pn, y.s.trajs[e]? = some (some pn) ∧ pn < y.s.trajNum) ∧
    (∀ a b pn, a < y.s.n - 1 → b < y.s.n - 1 →
      y.s.trajs[a]? = some (some pn) → y.s.trajs[b]? = some (some pn) → a = b) :=
  ⟨(reach_inv h0 hr).core.live, (reach_inv h0 hr).core.inj⟩

example : (exAt 5).s.trajs = [some 3, some 4, some 2, none] ∧ (exAt 5).s.trajNum = 5 := by
  decide +kernel

/-! ## 2. Exactly the held ensembles are marked busy -/

/-- **busy ⇔ in flight.**  The lock vector has one flag per slot, the ghost is always locked, and
    an ensemble slot `e` (ensemble number `e − 1`) is locked iff some job in flight holds that
    ensemble. -/
theorem locks_iff_inflight (y0 y : Sys) (evs : List Ev) (h0 : Init y0) (hr : run y0 evs = .ok y) :
    y.s.locks.length = y.s.n ∧ y.s.locks[y.s.n - 1]? = some true ∧
    ∀ e, e < y.s.n - 1 →
      (y.s.locks[e]? = some true ↔ ∃ j ∈ y.jobs, ∃ p ∈ j.picked, p.ens = (e : Int) - 1) := by
  have hi := reach_inv h0 hr
  refine ⟨hi.core.lenL, hi.core.ghost, ?_⟩
  intro e he
  rw [hi.core.busy e he]
  simp only [held, heldJob, List.map_flatMap, List.map_map, List.mem_flatMap, List.mem_map,
    Function.comp_apply]
  constructor
  · rintro ⟨j, hj, p, hp, hs⟩
    refine ⟨j, hj, p, hp, ?_⟩
    have := (hi.jobs j hj).ensGe p hp
    simp only [slotOf] at hs
    omega
  · rintro ⟨j, hj, p, hp, hs⟩
    refine ⟨j, hj, p, hp, ?_⟩
    simp only [slotOf]
    omega

example : (exAt 2).s.locks = [true, true, true, true] ∧ (exAt 4).s.locks = [true, false, true, true]
    ∧ (inflight (exAt 4).jobs).map (·.ens) = [1, -1] := by decide +kernel

/-- an unlocked slot is held by nobody (the idle half, spelled out) -/
theorem idle_not_held (y0 y : Sys) (evs : List Ev) (h0 : Init y0) (hr : run y0 evs = .ok y)
    (e : Nat) (he : y.s.locks[e]? = some false) : ∀ p ∈ inflight y.jobs, slotOf p ≠ e := by
  have hi := reach_inv h0 hr
  have hlt := hi.core.unlocked_lt e he
  intro p hp hs
  have : e ∈ (held y.jobs).map Prod.fst := by
    rw [held_eq, List.map_map]
    exact List.mem_map.mpr ⟨p, hp, hs⟩
  rw [← hi.core.busy e hlt, he] at this
  exact absurd this (by simp)

example : (exAt 4).s.locks[1]? = some false := by decide +kernel

/-! ## 3. Every job holds a path with non-zero weight in its ensemble -/

/-- **The held path sits in the job's ensemble slot and has non-zero weight there**, at every
    instant while the job is in flight: slot `ens+1` holds path `pn_old`, and the diagonal entry of
    the weight matrix `state[ens+1, ens+1]` (the weight of that path in that ensemble) is not 0. -/
theorem picked_weight_nonzero (y0 y : Sys) (evs : List Ev) (h0 : Init y0) (hr : run y0 evs = .ok y)
    (j : Job) (hj : j ∈ y.jobs) (p : Picked) (hp : p ∈ j.picked) :
    slotOf p < y.s.n - 1 ∧ y.s.trajs[slotOf p]? = some (some p.pn) ∧
      entryM y.s.W (slotOf p) (slotOf p) ≠ 0 := by
  have hi := reach_inv h0 hr
  apply hi.core.heldOk
  simp only [held, List.mem_flatMap]
  exact ⟨j, hj, List.mem_map.mpr ⟨p, hp, rfl⟩⟩

example : (exAt 5).jobs.map (fun j => j.picked.map (fun p =>
      (slotOf p, p.pn, (exAt 5).s.trajs[slotOf p]?, entryM (exAt 5).s.W (slotOf p) (slotOf p))))
    = [[(0, 3, some (some 3), 1)], [(2, 2, some (some 2), 1)]] := by decide +kernel

/-! ## 4. Zero swaps -/

theorem two_of_ens (l : List Picked) (h : l.map (·.ens) = [-1, 0]) :
    ∃ p q, l = [p, q] ∧ p.ens = -1 ∧ q.ens = 0 := by
  cases l with
  | nil => simp at h
  | cons p l =>
    cases l with
    | nil => simp at h
    | cons q l =>
      cases l with
      | nil =>
        simp only [List.map_cons, List.map_nil, List.cons.injEq, and_true] at h
        exact ⟨p, q, rfl, h.1, h.2⟩
      | cons r l => simp at h

/-- **A job holds one ensemble, or exactly `[0-]` and `[0+]`; in the latter case both stay locked
    as long as the job is in flight.** -/
theorem zero_swap_holds_both (y0 y : Sys) (evs : List Ev) (h0 : Init y0) (hr : run y0 evs = .ok y)
    (j : Job) (hj : j ∈ y.jobs) :
    j.picked.length = 1 ∨
      (j.picked.map (·.ens) = [-1, 0] ∧ y.s.locks[0]? = some true ∧ y.s.locks[1]? = some true) := by
  have hi := reach_inv h0 hr
  rcases (hi.jobs j hj).shape with h1 | h2
  · exact Or.inl h1
  · obtain ⟨p, q, hpk, hp, hq⟩ := two_of_ens j.picked h2
    have hmem : ∀ r ∈ j.picked, y.s.locks[slotOf r]? = some true := by
      intro r hr
      apply hi.core.held_locked _ r.pn
      simp only [held, List.mem_flatMap]
      exact ⟨j, hj, List.mem_map.mpr ⟨r, hr, rfl⟩⟩
    refine Or.inr ⟨h2, ?_, ?_⟩
    · simpa [slotOf, hp] using hmem p (by rw [hpk]; simp)
    · simpa [slotOf, hq] using hmem q (by rw [hpk]; simp)

example : (exAt 3).jobs.map (fun j => j.picked.map (·.ens)) = [[-1, 0], [1]]
    ∧ (exAt 3).s.locks[0]? = some true ∧ (exAt 3).s.locks[1]? = some true := by decide +kernel

/-- **A zero swap is only started when both `[0-]` and `[0+]` are idle.**  For every call of
    `prep_md_items` (on any state whose weight matrix has one row per lock flag and which has no
    restart jobs to re-issue — true of every state the scheduler calls it on, see `prep_state_ok`):
    if the job it returns holds two ensembles, slots 0 and 1 were both unlocked when it was called. -/
theorem zero_swap_needs_both_idle (s s' : St) (prev : Option Nat) (o : PickOutcome) (saved : Nat)
    (job : Job) (ds : List Draw) (hW : s.W.length = s.locks.length) (h0 : s.locked0 = [])
    (hp : prep s prev o saved = .ok (s', job, ds)) (h2 : job.picked.length = 2) :
    s.locks[0]? = some false ∧ s.locks[1]? = some false :=
  prep_two_idle prev o saved job ds hW h0 hp h2

/-- the side conditions of `zero_swap_needs_both_idle` hold in every reachable scheduler state -/
theorem prep_state_ok (y0 y : Sys) (evs : List Ev) (h0 : Init y0) (hr : run y0 evs = .ok y) :
    y.s.W.length = y.s.locks.length ∧ y.s.locked0 = [] := by
  have hi := reach_inv h0 hr
  exact ⟨by rw [hi.core.lenW, hi.core.lenL], hi.core.l0⟩

/-- the same at the level of the scheduler: a `start` event that submits a two-ensemble job found
    both slots unlocked -/
theorem zero_swap_start_needs_both_idle (y0 y y' : Sys) (evs : List Ev) (h0 : Init y0)
    (hr : run y0 evs = .ok y) (o : PickOutcome) (saved : Nat)
    (hs : sysStep y (.start o saved) = .ok y') (job : Job) (hl : y'.jobs.getLast? = some job)
    (h2 : job.picked.length = 2) : y.s.locks[0]? = some false ∧ y.s.locks[1]? = some false := by
  obtain ⟨hW, hl0⟩ := prep_state_ok y0 y evs h0 hr
  unfold sysStep at hs
  rcases initiate_cases y.s with ⟨hin, _⟩ | ⟨ti, _, hin⟩
  · rw [hin] at hs; simp at hs
  rw [hin] at hs
  simp only [] at hs
  split at hs
  · exact absurd hs (by simp)
  split at hs
  · exact absurd hs (by simp)
  rename_i s2 job' ds hprep
  simp only [Except.ok.injEq] at hs
  subst hs
  simp only [List.getLast?_append, List.getLast?_singleton, Option.some_or, Option.some.injEq] at hl
  subst hl
  have key := fun hW hl0 => prep_two_idle none o saved job' ds hW hl0 hprep h2
  exact key hW hl0

example : exSys.s.locks[0]? = some false ∧ exSys.s.locks[1]? = some false
    ∧ sysStep exSys (.start { t := 0, e := 0, coin := true, partner := 1 }) = .ok (exAt 1)
    ∧ (exAt 1).jobs.map (fun j => j.picked.length) = [2] := by decide +kernel

/-- … and in the main loop: if the job submitted by a `step` event holds two ensembles, then each of
    `[0-]` (slot 0) and `[0+]` (slot 1) was, before the event, either idle or held by the very job
    whose completion the event processes (`treat_output` released it before the new pick). -/
theorem zero_swap_step_needs_both_idle (y0 y y' : Sys) (evs : List Ev) (h0 : Init y0)
    (hr : run y0 evs = .ok y) (k : Nat) (status : Status) (newW : List (List Rat)) (o : PickOutcome)
    (hs : sysStep y (.step k status newW o) = .ok y') (job' : Job)
    (hnew : y'.jobs = y.jobs.eraseIdx k ++ [job']) (h2 : job'.picked.length = 2) :
    ∃ job, y.jobs[k]? = some job ∧ ∀ e, e = 0 ∨ e = 1 →
      (y.s.locks[e]? = some false ∨ ∃ p ∈ job.picked, slotOf p = e) :=
  step_two_idle (reach_inv h0 hr) k status newW o hs job' hnew h2

/-- a `step` event that resubmits a zero swap: the completing job is the first zero swap -/
def exZ : Except Repex.Err Sys :=
  sysStep (exAt 3) (.step 0 .acc [[1], [1, 1, 0]] { t := 0, e := 0, coin := true, partner := 1 })

example : run exSys (exEvs.take 3) = .ok (exAt 3)
    ∧ (exZ.toOption.map (fun y' => y'.jobs.map (fun j => j.picked.map (fun p => (p.ens, p.pn)))))
        = some [[(1, 2)], [(-1, 3), (0, 4)]]
    ∧ (exAt 3).s.locks = [true, true, true, true]
    ∧ ((exAt 3).jobs[0]?.map (fun j => j.picked.map slotOf)) = some [0, 1] :=
  ⟨ex_runs 3 (by decide), by decide +kernel, by decide +kernel, by decide +kernel⟩

/-! ## 5. Worker pins, work directories, engine instances -/

/-- **Pins of jobs in flight are pairwise distinct.** -/
theorem pins_distinct (y0 y : Sys) (evs : List Ev) (h0 : Init y0) (hr : run y0 evs = .ok y) :
    (y.jobs.map (·.pin)).Nodup :=
  (reach_inv h0 hr).pins

/-- **No two jobs in flight share a work directory**: the folder is `worker<pin>` of the job's own
    pin, and the folders of jobs in flight are pairwise distinct. -/
theorem wfolder_exclusive (y0 y : Sys) (evs : List Ev) (h0 : Init y0) (hr : run y0 evs = .ok y) :
    (∀ j ∈ y.jobs, j.wfolder = j.pin) ∧ (y.jobs.map (·.wfolder)).Nodup := by
  have hi := reach_inv h0 hr
  refine ⟨fun j hj => (hi.jobs j hj).wf, ?_⟩
  have : y.jobs.map (·.wfolder) = y.jobs.map (·.pin) :=
    List.map_congr_left (fun j hj => (hi.jobs j hj).wf)
  rw [this]
  exact hi.pins

example : (exAt 5).jobs.map (fun j => (j.pin, j.wfolder)) = [(0, 0), (1, 1)]
    ∧ (exAt 4).jobs.map (fun j => (j.pin, j.wfolder)) = [(1, 1), (0, 0)] := by decide +kernel

/-- every engine instance listed by a job in flight is marked in `engine_occ` with that job's pin -/
theorem engine_cell_owned (y0 y : Sys) (evs : List Ev) (h0 : Init y0) (hr : run y0 evs = .ok y)
    (j : Job) (hj : j ∈ y.jobs) (p : Picked) (hp : p ∈ j.picked) (ki : Nat × Nat) (hki : ki ∈ p.engIdx) :
    cell y.s.occ ki.1 ki.2 = some (j.pin : Int) :=
  (reach_inv h0 hr).eng j hj p hp ki hki

/-- **No two jobs in flight share an engine instance**: if the jobs at positions `i1` and `i2` of
    the in-flight list both list the instance `(engine type, index)`, then `i1 = i2`. -/
theorem engine_instance_exclusive (y0 y : Sys) (evs : List Ev) (h0 : Init y0) (hr : run y0 evs = .ok y)
    (i1 i2 : Nat) (j1 j2 : Job) (h1 : y.jobs[i1]? = some j1) (h2 : y.jobs[i2]? = some j2)
    (p1 p2 : Picked) (hp1 : p1 ∈ j1.picked) (hp2 : p2 ∈ j2.picked) (ki : Nat × Nat)
    (hk1 : ki ∈ p1.engIdx) (hk2 : ki ∈ p2.engIdx) : i1 = i2 := by
  have hi := reach_inv h0 hr
  have c1 := hi.eng j1 (List.mem_of_getElem? h1) p1 hp1 ki hk1
  have c2 := hi.eng j2 (List.mem_of_getElem? h2) p2 hp2 ki hk2
  rw [c1] at c2
  have hpin : j1.pin = j2.pin := by simpa using c2
  have hn := hi.pins
  have hl1 := getElem?_lt_of_some _ _ _ h1
  have hl2 := getElem?_lt_of_some _ _ _ h2
  have e1 : (y.jobs.map (·.pin))[i1]? = some j1.pin := by simp [h1]
  have e2 : (y.jobs.map (·.pin))[i2]? = some j1.pin := by simp [h2, hpin]
  exact (List.getElem?_inj (by simpa using hl1) hn).mp (e1.trans e2.symm)

example : (exAt 5).jobs.map (fun j => j.picked.map (·.engIdx)) = [[[(0, 0)]], [[(0, 1)]]]
    ∧ (exAt 5).s.occ = [[0, 1]] := by decide +kernel

/-! ## 6. A free engine instance is always found

`engine_always_available`: with `min(count_k, workers)` instances of every engine type `k`, as
`create_engines` builds them (`EngInit.sized`; `count_k` = `countK` = number of ensembles whose engine
list contains `k`, which is ≤ the number of occurrences `create_engines` counts), every ensemble
having at least one engine type and all types present in `engine_occ` (`EngInit.engOk`, enforced by
`check_config`), and all cells free at the start: along every scheduler-shaped history
`assign_engines` serves every engine type of the picked ensembles, i.e. `prep_md_items` never raises
in its engine part.

Counting argument: after the worker's own cells are freed every occupied cell of type `k` belongs to
another worker with a job in flight that uses `k`; such workers are pairwise distinct, `< workers`
and different from the one being served (≤ `workers − 1` of them), occupy one `k` cell each, and hold
pairwise distinct ensembles listing `k`, none of which is the ensemble just picked (≤ `count_k − 1`).

"Scheduler-shaped" = what `scheduler()` does: `start` events only, then the closing `initiate()`
call, then `step` events only.  The restriction is needed: `run` also allows a `start` after a
`step`, which `scheduler()` never produces; a worker that completed without being resubmitted keeps
its engine cells (they are only freed by the same worker's next `prep_md_items`), so a later `start`
could find a type exhausted.

The conclusion is phrased as "the event fails only if one of its non-engine parts fails":
`pickPart` is `pick_lock()` / `pick()` — the part of `prep_md_items` before `assign_engines`. -/

/-- **During initiation** (after any number of `start` events): if `initiate()` answers yes and the
    pick succeeds, the whole `start` event succeeds — `assign_engines` found an instance of every
    engine type of the picked ensembles. -/
theorem engine_always_available_start (y0 y : Sys) (starts : List Ev) (h0 : Init y0)
    (hE : EngInit y0) (hs : ∀ ev ∈ starts, isStart ev = true) (hr : run y0 starts = .ok y)
    (o : PickOutcome) (saved : Nat) (s1 : St) (hgo : initiate y.s = (s1, true))
    (s1' : St) (ps : List Picked) (ds : List Draw) (hpick : pickPart s1 o saved = .ok (s1', ps, ds)) :
    ∃ y', sysStep y (.start o saved) = .ok y' :=
  start_available (run_starts_E starts hs (EInv.ofInit h0 hE) hr) o saved s1 hgo s1' ps ds hpick

/-- **In the main loop** (after the starts, the closing `initiate()` and any number of `step`
    events, in any completion order): if `loop()` answers yes, `treat_output` succeeds, the scheduler
    resubmits (`cstep + workers ≤ tsteps`) and the pick succeeds, the whole `step` event succeeds. -/
theorem engine_always_available_step (y0 y : Sys) (starts steps : List Ev) (h0 : Init y0)
    (hE : EngInit y0) (hs : ∀ ev ∈ starts, isStart ev = true) (ht : ∀ ev ∈ steps, isStep ev = true)
    (hr : run y0 (starts ++ .initDone :: steps) = .ok y)
    (k : Nat) (status : Status) (newW : List (List Rat)) (o : PickOutcome) (job : Job)
    (hj : y.jobs[k]? = some job) (s1 : St) (hloop : loop y.s = (s1, true))
    (s2 : St) (pns : List Nat) (it : Nat)
    (htr : treatOutput s1 job status newW (sortFuel s1) = .ok (s2, pns, it))
    (hre : s2.cstep + s2.workers ≤ s2.tsteps) (s3 : St) (ps : List Picked) (ds : List Draw)
    (hpick : pickPart s2 o 0 = .ok (s3, ps, ds)) :
    ∃ y', sysStep y (.step k status newW o) = .ok y' := by
  obtain ⟨he, hph⟩ := einv_of_shaped h0 hE starts steps hs ht hr
  have hlt : y.s.toinitiate < 0 := by
    rcases hph with h1 | h1
    · exact h1
    · exfalso
      unfold loop at hloop
      rw [if_pos (by omega)] at hloop
      simp at hloop
  exact step_available he hlt k status newW o job hj s1 hloop s2 pns it htr hre s3 ps ds hpick

theorem ex_engInit : EngInit exSys := by
  have hocc : exSys.s.occ = [[-1, -1]] := by decide +kernel
  have hens : exSys.s.ensEng = [[0], [0], [0]] := by decide +kernel
  have hn : exSys.s.n = 4 := by decide +kernel
  have hw : exSys.s.workers = 2 := by decide +kernel
  constructor
  · intro k i x hx
    rw [hocc] at hx
    match k, i with
    | 0, 0 => simpa [cell] using hx.symm
    | 0, 1 => simpa [cell] using hx.symm
    | 0, i + 2 => simp [cell] at hx
    | k + 1, i => simp [cell] at hx
  · intro k l hl
    rw [hocc] at hl
    rw [hw, hens, hn]
    match k with
    | 0 => simp at hl; subst hl; decide
    | k + 1 => simp at hl
  · intro e he
    rw [hn] at he
    rw [hens, hocc]
    match e, he with
    | 0, _ => exact ⟨by decide, fun k hk => by simp at hk; subst hk; exact ⟨_, rfl⟩⟩
    | 1, _ => exact ⟨by decide, fun k hk => by simp at hk; subst hk; exact ⟨_, rfl⟩⟩
    | 2, _ => exact ⟨by decide, fun k hk => by simp at hk; subst hk; exact ⟨_, rfl⟩⟩

example : Init exSys ∧ EngInit exSys ∧ run exSys (exEvs.take 1) = .ok (exAt 1)
    ∧ (initiate (exAt 1).s).2 = true
    ∧ (pickPart (initiate (exAt 1).s).1 { t := 2, e := 2 } 0).toBool = true :=
  ⟨ex_init, ex_engInit, ex_runs 1 (by decide), by decide +kernel, by decide +kernel⟩

/-- the hypotheses of the step form on the concrete history, at the moment the zero swap completes -/
def exStepCheck : Bool :=
  match (exAt 3).jobs[0]?, loop (exAt 3).s with
  | some job, (s1, true) =>
    match treatOutput s1 job .acc [[1], [1, 1, 0]] (sortFuel s1) with
    | .ok (s2, _, _) =>
      decide (s2.cstep + s2.workers ≤ s2.tsteps) && (pickPart s2 { t := 0, e := 0, coin := false } 0).toBool
    | .error _ => false
  | _, _ => false

example : exEvs.take 3 = exEvs.take 2 ++ .initDone :: [] ∧ run exSys (exEvs.take 3) = .ok (exAt 3)
    ∧ exStepCheck = true := ⟨rfl, ex_runs 3 (by decide), by decide +kernel⟩

/-! a second configuration where `min(count_k, workers) < workers` matters: engine type 0 is used by
`[0-]` only (one instance), type 1 by `[0+]` and `[1+]` (two instances), two workers -/

def exPaths : List (Nat × List Rat × List Rat) :=
  [(0, [1], [0,0,0,0]), (1, [1,1,0], [0,0,0,0]), (2, [1,1,0], [0,0,0,0])]

def exBlank2 : St := blank 4 2 10 0 3 0 [[-1], [-1, -1]] [[0], [1], [1]] false []

def exS2 : St :=
  match loadPaths exBlank2 exPaths with
  | .ok s => s
  | .error _ => exBlank2

def exSys2 : Sys := { s := exS2, jobs := [] }

theorem ex_init2 : Init exSys2 :=
  fresh_start_is_init 4 2 10 0 3 0 [[-1], [-1, -1]] [[0], [1], [1]] false exPaths exS2 (by decide)
    (by decide) (by decide) (by decide) (by decide +kernel)

theorem ex_engInit2 : EngInit exSys2 := by
  have hocc : exSys2.s.occ = [[-1], [-1, -1]] := by decide +kernel
  have hens : exSys2.s.ensEng = [[0], [1], [1]] := by decide +kernel
  have hn : exSys2.s.n = 4 := by decide +kernel
  have hw : exSys2.s.workers = 2 := by decide +kernel
  constructor
  · intro k i x hx
    rw [hocc] at hx
    match k, i with
    | 0, 0 => simpa [cell] using hx.symm
    | 0, i + 1 => simp [cell] at hx
    | 1, 0 => simpa [cell] using hx.symm
    | 1, 1 => simpa [cell] using hx.symm
    | 1, i + 2 => simp [cell] at hx
    | k + 2, i => simp [cell] at hx
  · intro k l hl
    rw [hocc] at hl
    rw [hw, hens, hn]
    match k with
    | 0 => simp at hl; subst hl; decide
    | 1 => simp at hl; subst hl; decide
    | k + 2 => simp at hl
  · intro e he
    rw [hn] at he
    rw [hens, hocc]
    match e, he with
    | 0, _ => exact ⟨by decide, fun k hk => by simp at hk; subst hk; exact ⟨_, rfl⟩⟩
    | 1, _ => exact ⟨by decide, fun k hk => by simp at hk; subst hk; exact ⟨_, rfl⟩⟩
    | 2, _ => exact ⟨by decide, fun k hk => by simp at hk; subst hk; exact ⟨_, rfl⟩⟩

def exEvs2 : List Ev :=
  [ .start { t := 0, e := 0, coin := false }, .start { t := 1, e := 1 }, .initDone,
    .step 0 .acc [[1]] { t := 0, e := 0, coin := false } ]

example : countK exSys2.s.ensEng exSys2.s.n 0 = 1 ∧ exSys2.s.workers = 2
    ∧ exEvs2 = [.start { t := 0, e := 0, coin := false }, .start { t := 1, e := 1 }] ++ .initDone ::
        [.step 0 .acc [[1]] { t := 0, e := 0, coin := false }]
    ∧ (run exSys2 exEvs2).toBool = true
    ∧ ((run exSys2 exEvs2).toOption.map (fun y => y.s.occ)) = some [[0], [1, -1]] :=
  ⟨by decide +kernel, by decide +kernel, rfl, by decide +kernel, by decide +kernel⟩

/-! ## 7. The same across restarts

`InitR y0`: the state after a RESTART (`restart.toml` read back, paths re-loaded): every ensemble
slot idle and holding its own path, nothing in flight, `locked0` = the jobs that were in flight at
the stop — recorded slots pairwise distinct, each recorded path in its recorded slot with non-zero
weight there, each record one ensemble or `[0-],[0+]` — to be re-issued by `pick_lock` one by one
while `toinitiate ≥ 0`.  `Start y0 := Init y0 ∨ InitR y0`.

`restart_is_initR` / `restart_closed`: restoring the image `persist y.s` of ANY state `y` reachable
from a `Start` state (same number of slots; any workers, steps, engine table, recomputed weights;
`load_paths` not raising) gives an `InitR` state again.  So the `_restart` theorems below hold at every
instant of every chain  fresh start → run → stop → restart → run → stop → restart → …

Invariant (`InvR`, RepexC03RSys): as `Inv`, and as long as `toinitiate ≥ 0` the recorded jobs still
to be re-issued are "reserved": their slots are idle and keep their recorded paths — nothing can
take them, because while `toinitiate ≥ 0` every `prep_md_items` goes through `pick_lock`, which
re-issues the next record before it ever draws a fresh pick, `treat_output` only touches locked
slots, and `sort_trajstate` only moves paths once `toinitiate = −1`.  The re-issue itself finds the
recorded path in its recorded slot (live paths are distinct), so its swap is the identity and it
locks exactly the recorded slots.  Records left over when `toinitiate` drops below 0 (fewer workers
than records, or the early close of `initiate`) are never re-issued and carry no obligation.
The fresh-start theorems of sections 1–5 are the special case `Start y0` by `Init y0`.
Engine availability (section 6) is proved there for fresh starts; section 10 extends it to restarts
(`engine_always_available_*_restart`). -/

/-- **A restart from the restart file of any reachable state is an `InitR` state** (load success as
    hypothesis; the C05 package proves it from the weight family). -/
theorem restart_is_initR (y0 y : Sys) (evs : List Ev) (h0 : Start y0) (hl : y0.s.locked = [])
    (hj : y0.jobs = []) (hr : run y0 evs = .ok y) (workers tsteps : Nat) (occ : List (List Int))
    (ensEng : List (List Nat)) (weightOf : Nat → List Rat) (s' : St)
    (h : restore (persist y.s) y.s.n workers tsteps occ ensEng weightOf = .ok s') :
    InitR { s := s', jobs := [] } :=
  restore_of_reachable_is_initR y0 y evs h0 hl hj hr workers tsteps occ ensEng weightOf s' h

/-- the class of start states with an empty record is closed under run-stop-restart: this is the
    induction step over chains of restarts -/
theorem restart_closed (y0 y : Sys) (evs : List Ev) (h0 : Start y0) (hl : y0.s.locked = [])
    (hj : y0.jobs = []) (hr : run y0 evs = .ok y) (workers tsteps : Nat) (occ : List (List Int))
    (ensEng : List (List Nat)) (weightOf : Nat → List Rat) (s' : St)
    (h : restore (persist y.s) y.s.n workers tsteps occ ensEng weightOf = .ok s') :
    Start { s := s', jobs := [] } ∧ ({ s := s', jobs := [] } : Sys).s.locked = [] ∧
      ({ s := s', jobs := [] } : Sys).jobs = [] := by
  have hR := restart_is_initR y0 y evs h0 hl hj hr workers tsteps occ ensEng weightOf s' h
  exact ⟨Or.inr hR, hR.locked, rfl⟩

/-! a concrete restart: the history of section 0 is stopped after its first event (worker 0 holds
the zero swap `[0-],[0+]` with paths 0, 1), the restart file is read back with 2 workers; then
worker 0 gets the recorded zero swap re-issued, worker 1 starts `[1+]`, initiation closes, the zero
swap completes ACCEPTED and worker 0 restarts on `[0-]`. -/

def exWeight (pn : Nat) : List Rat := if pn = 0 then [1] else [1, 1, 0]

def exR : St :=
  match restore (persist (exAt 1).s) (exAt 1).s.n 2 10 [[-1, -1]] [[0], [0], [0]] exWeight with
  | .ok s => s
  | .error _ => exBlank

def exSysR : Sys := { s := exR, jobs := [] }

def exEvsR : List Ev :=
  [ .start { t := 3, e := 3 },          -- re-issue: the outcome of the (not requested) draw is ignored
    .start { t := 2, e := 2 },
    .initDone,
    .step 0 .acc [[1], [1, 1, 0]] { t := 0, e := 0, coin := false } ]

def exRAt (k : Nat) : Sys :=
  match run exSysR (exEvsR.take k) with
  | .ok y => y
  | .error _ => exSysR

theorem ex_initR : InitR exSysR :=
  restart_is_initR exSys (exAt 1) (exEvs.take 1) (Or.inl ex_init) (by decide +kernel) rfl
    (ex_runs 1 (by decide)) 2 10 [[-1, -1]] [[0], [0], [0]] exWeight exR (by decide +kernel)

theorem ex_runsR (k : Nat) (hk : k ≤ 4) : run exSysR (exEvsR.take k) = .ok (exRAt k) := by
  match k, hk with
  | 0, _ => decide +kernel
  | 1, _ => decide +kernel
  | 2, _ => decide +kernel
  | 3, _ => decide +kernel
  | 4, _ => decide +kernel

example : exSysR.s.locked0 = [([0, 1], [0, 1])] ∧ exSysR.s.locks = [false, false, false, true]
    ∧ exSysR.s.trajs = [some 0, some 1, some 2, none] ∧ exSysR.s.restarted = true := by
  decide +kernel

/-- a second restart in the chain: stop the restarted run after two events, restore again -/
def exR2 : St :=
  match restore (persist (exRAt 2).s) (exRAt 2).s.n 2 10 [[-1, -1]] [[0], [0], [0]] exWeight with
  | .ok s => s
  | .error _ => exBlank

theorem ex_initR2 : InitR { s := exR2, jobs := [] } :=
  restart_is_initR exSysR (exRAt 2) (exEvsR.take 2) (Or.inr ex_initR) (by decide +kernel) rfl
    (ex_runsR 2 (by decide)) 2 10 [[-1, -1]] [[0], [0], [0]] exWeight exR2 (by decide +kernel)

example : exR2.locked0 = [([0, 1], [0, 1]), ([2], [2])] ∧ exR2.locks = [false, false, false, true] := by
  decide +kernel

/-- no ensemble is held twice — before or after any number of restarts -/
theorem inflight_ens_disjoint_restart (y0 y : Sys) (evs : List Ev) (h0 : Start y0) (hr : run y0 evs = .ok y) :
    ((inflight y.jobs).map (·.ens)).Nodup := by
  have hi := reach_invR h0 hr
  have hn := hi.core.nodup
  rw [held_eq, List.map_map] at hn
  exact nodup_map_of_nodup_map (fun p => slotOf p) (·.ens) _ hn
    (fun x _ y _ h => by simp only [slotOf]; rw [h])

/-- no path is held twice — before or after any number of restarts -/
theorem inflight_paths_disjoint_restart (y0 y : Sys) (evs : List Ev) (h0 : Start y0) (hr : run y0 evs = .ok y) :
    ((inflight y.jobs).map (·.pn)).Nodup := by
  have hi := reach_invR h0 hr
  have hc := hi.core
  have hn := hc.nodup
  have : (inflight y.jobs).map (·.pn) = (held y.jobs).map Prod.snd := by
    rw [held_eq, List.map_map]; rfl
  rw [this]
  refine nodup_map_of_nodup_map Prod.fst Prod.snd _ hn ?_
  intro x hx z hz hxz
  obtain ⟨e1, p1⟩ := x
  obtain ⟨e2, p2⟩ := z
  simp only at hxz
  subst hxz
  obtain ⟨h1, h2, _⟩ := hc.heldOk e1 p1 hx
  obtain ⟨h3, h4, _⟩ := hc.heldOk e2 p1 hz
  exact hc.inj e1 e2 p1 h1 h3 h2 h4

/-- all live paths are distinct — before or after any number of restarts -/
theorem live_paths_distinct_restart (y0 y : Sys) (evs : List Ev) (h0 : Start y0) (hr : run y0 evs = .ok y) :
    (∀ e, e < y.s.n - 1 → ∃ pn, y.s.trajs[e]? = some (some pn) ∧ pn < y.s.trajNum) ∧
    (∀ a b pn, a < y.s.n - 1 → b < y.s.n - 1 →
      y.s.trajs[a]? = some (some pn) → y.s.trajs[b]? = some (some pn) → a = b) :=
  ⟨(reach_invR h0 hr).core.live, (reach_invR h0 hr).core.inj⟩

/-- busy ⇔ in flight — before or after any number of restarts (recorded jobs not yet re-issued are
    idle: they are not in flight) -/
theorem locks_iff_inflight_restart (y0 y : Sys) (evs : List Ev) (h0 : Start y0) (hr : run y0 evs = .ok y) :
    y.s.locks.length = y.s.n ∧ y.s.locks[y.s.n - 1]? = some true ∧
    ∀ e, e < y.s.n - 1 →
      (y.s.locks[e]? = some true ↔ ∃ j ∈ y.jobs, ∃ p ∈ j.picked, p.ens = (e : Int) - 1) := by
  have hi := reach_invR h0 hr
  refine ⟨hi.core.lenL, hi.core.ghost, ?_⟩
  intro e he
  rw [hi.core.busy e he]
  simp only [held, heldJob, List.map_flatMap, List.map_map, List.mem_flatMap, List.mem_map,
    Function.comp_apply]
  constructor
  · rintro ⟨j, hj, p, hp, hs⟩
    refine ⟨j, hj, p, hp, ?_⟩
    have := (hi.jobs j hj).ensGe p hp
    simp only [slotOf] at hs
    omega
  · rintro ⟨j, hj, p, hp, hs⟩
    refine ⟨j, hj, p, hp, ?_⟩
    simp only [slotOf]
    omega

/-- an unlocked slot is held by nobody — before or after any number of restarts -/
theorem idle_not_held_restart (y0 y : Sys) (evs : List Ev) (h0 : Start y0) (hr : run y0 evs = .ok y)
    (e : Nat) (he : y.s.locks[e]? = some false) : ∀ p ∈ inflight y.jobs, slotOf p ≠ e := by
  have hi := reach_invR h0 hr
  have hlt := hi.core.unlocked_lt e he
  intro p hp hs
  have : e ∈ (held y.jobs).map Prod.fst := by
    rw [held_eq, List.map_map]
    exact List.mem_map.mpr ⟨p, hp, hs⟩
  rw [← hi.core.busy e hlt, he] at this
  exact absurd this (by simp)

/-- the held path sits in the job's slot with non-zero weight — also for re-issued jobs -/
theorem picked_weight_nonzero_restart (y0 y : Sys) (evs : List Ev) (h0 : Start y0) (hr : run y0 evs = .ok y)
    (j : Job) (hj : j ∈ y.jobs) (p : Picked) (hp : p ∈ j.picked) :
    slotOf p < y.s.n - 1 ∧ y.s.trajs[slotOf p]? = some (some p.pn) ∧
      entryM y.s.W (slotOf p) (slotOf p) ≠ 0 := by
  have hi := reach_invR h0 hr
  apply hi.core.heldOk
  simp only [held, List.mem_flatMap]
  exact ⟨j, hj, List.mem_map.mpr ⟨p, hp, rfl⟩⟩

/-- one ensemble or exactly `[0-],[0+]`, both locked while in flight — also for re-issued jobs -/
theorem zero_swap_holds_both_restart (y0 y : Sys) (evs : List Ev) (h0 : Start y0) (hr : run y0 evs = .ok y)
    (j : Job) (hj : j ∈ y.jobs) :
    j.picked.length = 1 ∨
      (j.picked.map (·.ens) = [-1, 0] ∧ y.s.locks[0]? = some true ∧ y.s.locks[1]? = some true) := by
  have hi := reach_invR h0 hr
  rcases (hi.jobs j hj).shape with h1 | h2
  · exact Or.inl h1
  · obtain ⟨p, q, hpk, hp, hq⟩ := two_of_ens j.picked h2
    have hmem : ∀ r ∈ j.picked, y.s.locks[slotOf r]? = some true := by
      intro r hr
      apply hi.core.held_locked _ r.pn
      simp only [held, List.mem_flatMap]
      exact ⟨j, hj, List.mem_map.mpr ⟨r, hr, rfl⟩⟩
    refine Or.inr ⟨h2, ?_, ?_⟩
    · simpa [slotOf, hp] using hmem p (by rw [hpk]; simp)
    · simpa [slotOf, hq] using hmem q (by rw [hpk]; simp)

/-- pins of jobs in flight are pairwise distinct — before or after any number of restarts -/
theorem pins_distinct_restart (y0 y : Sys) (evs : List Ev) (h0 : Start y0) (hr : run y0 evs = .ok y) :
    (y.jobs.map (·.pin)).Nodup :=
  (reach_invR h0 hr).pins

/-- no shared work directory — before or after any number of restarts -/
theorem wfolder_exclusive_restart (y0 y : Sys) (evs : List Ev) (h0 : Start y0) (hr : run y0 evs = .ok y) :
    (∀ j ∈ y.jobs, j.wfolder = j.pin) ∧ (y.jobs.map (·.wfolder)).Nodup := by
  have hi := reach_invR h0 hr
  refine ⟨fun j hj => (hi.jobs j hj).wf, ?_⟩
  have : y.jobs.map (·.wfolder) = y.jobs.map (·.pin) :=
    List.map_congr_left (fun j hj => (hi.jobs j hj).wf)
  rw [this]
  exact hi.pins

/-- listed engine cells carry the job's pin — before or after any number of restarts -/
theorem engine_cell_owned_restart (y0 y : Sys) (evs : List Ev) (h0 : Start y0) (hr : run y0 evs = .ok y)
    (j : Job) (hj : j ∈ y.jobs) (p : Picked) (hp : p ∈ j.picked) (ki : Nat × Nat) (hki : ki ∈ p.engIdx) :
    cell y.s.occ ki.1 ki.2 = some (j.pin : Int) :=
  (reach_invR h0 hr).eng j hj p hp ki hki

/-- no shared engine instance — before or after any number of restarts -/
theorem engine_instance_exclusive_restart (y0 y : Sys) (evs : List Ev) (h0 : Start y0) (hr : run y0 evs = .ok y)
    (i1 i2 : Nat) (j1 j2 : Job) (h1 : y.jobs[i1]? = some j1) (h2 : y.jobs[i2]? = some j2)
    (p1 p2 : Picked) (hp1 : p1 ∈ j1.picked) (hp2 : p2 ∈ j2.picked) (ki : Nat × Nat)
    (hk1 : ki ∈ p1.engIdx) (hk2 : ki ∈ p2.engIdx) : i1 = i2 := by
  have hi := reach_invR h0 hr
  have c1 := hi.eng j1 (List.mem_of_getElem? h1) p1 hp1 ki hk1
  have c2 := hi.eng j2 (List.mem_of_getElem? h2) p2 hp2 ki hk2
  rw [c1] at c2
  have hpin : j1.pin = j2.pin := by simpa using c2
  have hn := hi.pins
  have hl1 := getElem?_lt_of_some _ _ _ h1
  have hl2 := getElem?_lt_of_some _ _ _ h2
  have e1 : (y.jobs.map (·.pin))[i1]? = some j1.pin := by simp [h1]
  have e2 : (y.jobs.map (·.pin))[i2]? = some j1.pin := by simp [h2, hpin]
  exact (List.getElem?_inj (by simpa using hl1) hn).mp (e1.trans e2.symm)

example : Start exSysR ∧ run exSysR (exEvsR.take 1) = .ok (exRAt 1)
    ∧ (exRAt 1).jobs.map (fun j => j.picked.map (fun p => (p.ens, p.pn))) = [[(-1, 0), (0, 1)]]
    ∧ (exRAt 1).s.locks = [true, true, false, true] ∧ (exRAt 1).s.locked0 = []
    ∧ (exRAt 1).s.locked = [([-1, 0], [0, 1])] :=
  ⟨Or.inr ex_initR, ex_runsR 1 (by decide), by decide +kernel, by decide +kernel, by decide +kernel,
    by decide +kernel⟩

example : run exSysR exEvsR = .ok (exRAt 4)
    ∧ (inflight (exRAt 4).jobs).map (fun p => (p.ens, p.pn)) = [(1, 2), (-1, 3)]
    ∧ (exRAt 4).s.locks = [true, false, true, true]
    ∧ (exRAt 4).jobs.map (fun j => (j.pin, j.wfolder)) = [(1, 1), (0, 0)]
    ∧ (exRAt 4).s.occ = [[0, 1]] :=
  ⟨ex_runsR 4 (by decide), by decide +kernel, by decide +kernel, by decide +kernel, by decide +kernel⟩

theorem pickShape_two {locks : List Bool} {ps : List Picked} (h : PickShape locks ps) (h2 : ps.length = 2) :
    locks[0]? = some false ∧ locks[1]? = some false := by
  rcases h with h1 | h1
  · omega
  · exact h1.2

/-- **a zero swap is only started when both `[0-]` and `[0+]` are idle — also across restarts**, and
    also when the job is a recorded zero swap being re-issued (its two slots are reserved, hence idle):
    a `start` event that submits a two-ensemble job found slots 0 and 1 unlocked. -/
theorem zero_swap_start_needs_both_idle_restart (y0 y y' : Sys) (evs : List Ev) (h0 : Start y0)
    (hr : run y0 evs = .ok y) (o : PickOutcome) (saved : Nat)
    (hs : sysStep y (.start o saved) = .ok y') (job : Job) (hl : y'.jobs.getLast? = some job)
    (h2 : job.picked.length = 2) : y.s.locks[0]? = some false ∧ y.s.locks[1]? = some false := by
  have hi := reach_invR h0 hr
  unfold sysStep at hs
  rcases initiate_cases y.s with ⟨hin, _⟩ | ⟨ti, hti, hin⟩
  · rw [hin] at hs; simp at hs
  rw [hin] at hs
  simp only [] at hs
  split at hs
  · exact absurd hs (by simp)
  rename_i hgo
  have hgo : ti - 1 ≥ 0 := by simpa using hgo
  split at hs
  · exact absurd hs (by simp)
  rename_i s2 job' ds hprep
  simp only [Except.ok.injEq] at hs
  subst hs
  simp only [List.getLast?_append, List.getLast?_singleton, Option.some_or, Option.some.injEq] at hl
  subst hl
  have hc1 := hi.core.congrTo
    (s' := { y.s with cworker := ((y.s.workers : Int) - ti).toNat, toinitiate := ti - 1 })
    rfl rfl rfl rfl rfl (by
      show 0 ≤ ti - 1 → 0 ≤ y.s.toinitiate
      rcases hti with h1 | h1 <;> omega)
  have hshape := (prep_specR none o saved job' ds hc1 hprep).2.2.1
  exact pickShape_two hshape h2

/-- … and in the main loop, across restarts (also when the resubmitted job is a re-issued record):
    each of slots 0 and 1 was idle or held by the job whose completion the event processes. -/
theorem zero_swap_step_needs_both_idle_restart (y0 y y' : Sys) (evs : List Ev) (h0 : Start y0)
    (hr : run y0 evs = .ok y) (k : Nat) (status : Status) (newW : List (List Rat)) (o : PickOutcome)
    (hs : sysStep y (.step k status newW o) = .ok y') (job' : Job)
    (hnew : y'.jobs = y.jobs.eraseIdx k ++ [job']) (h2 : job'.picked.length = 2) :
    ∃ job, y.jobs[k]? = some job ∧ ∀ e, e = 0 ∨ e = 1 →
      (y.s.locks[e]? = some false ∨ ∃ p ∈ job.picked, slotOf p = e) := by
  have hi := reach_invR h0 hr
  obtain ⟨job, s1, s2, pns, it, hjob, hloop, htreat, hcase⟩ := step_decompose k status newW o hs
  refine ⟨job, hjob, ?_⟩
  obtain ⟨hle, hltn, _, _, _⟩ := loop_coreEqR y.s
  rw [hloop] at hle hltn
  simp only [] at hle hltn
  have hperm := held_perm_erase y.jobs k job hjob
  have hc1 : CoreR s1 (heldJob job ++ held (y.jobs.eraseIdx k)) s1.trajNum := by
    rw [hltn]
    exact (hi.core.congr hle).perm hperm
  obtain ⟨hc2, _, _, _, _, _, hn2, _, _, _⟩ := treatOutput_coreR job status newW _ pns it hc1 htreat
  rcases hcase with ⟨_, s3, job'', ds, hprep, rfl⟩ | ⟨_, rfl⟩
  · simp only [List.append_cancel_left_eq, List.cons.injEq, and_true] at hnew
    subst hnew
    have hidle := pickShape_two (prep_specR (some job.pin) o 0 job'' ds hc2 hprep).2.2.1 h2
    intro e he
    have he2 : s2.locks[e]? = some false := by
      rcases he with rfl | rfl
      · exact hidle.1
      · exact hidle.2
    have hlt : e < y.s.n - 1 := by
      have := hc2.unlocked_lt e he2
      rw [hn2, hle.n] at this
      exact this
    have hnot : e ∉ (held (y.jobs.eraseIdx k)).map Prod.fst := by
      intro hm
      have := (hc2.busy e (by rw [hn2, hle.n]; exact hlt)).mpr hm
      rw [he2] at this
      exact absurd this (by simp)
    rcases bool_getElem?_cases y.s.locks e (by rw [hi.core.lenL]; omega) with hl | hl
    · right
      have hm := (hi.core.busy e hlt).mp hl
      have hm' : e ∈ (heldJob job ++ held (y.jobs.eraseIdx k)).map Prod.fst :=
        (hperm.map Prod.fst).mem_iff.mp hm
      rw [List.map_append, List.mem_append] at hm'
      rcases hm' with h1 | h1
      · simp only [heldJob, List.map_map, List.mem_map, Function.comp_apply] at h1
        exact h1
      · exact absurd h1 hnot
    · exact Or.inl hl
  · exfalso
    have := congrArg List.length hnew
    simp at this

example : exSysR.s.locks[0]? = some false ∧ exSysR.s.locks[1]? = some false
    ∧ sysStep exSysR (.start { t := 3, e := 3 }) = .ok (exRAt 1)
    ∧ (exRAt 1).jobs.map (fun j => j.picked.length) = [2] := by decide +kernel


/-- **the record the restart file is written from lists exactly the jobs in flight** — at every
    instant of every history from a fresh start or a restart (with an empty record at its start):
    `locked` is a permutation of the (ens_nums, path numbers) of the jobs in flight.  (The
    pop-while-iterating loop of `treat_output` removes exactly the completed job's entry because path
    numbers of jobs in flight are pairwise distinct; `pick` and the re-issue branch append the new
    job's entry.) -/
theorem locked_record_matches_inflight (y0 y : Sys) (evs : List Ev) (h0 : Start y0)
    (hl : y0.s.locked = []) (hj : y0.jobs = []) (hr : run y0 evs = .ok y) :
    y.s.locked.Perm (y.jobs.map (fun j => (j.picked.map (·.ens), j.picked.map (·.pn)))) := by
  have hrec0 : RecInv y0 := by
    unfold RecInv
    rw [hl, hj]
    exact List.Perm.refl _
  exact run_recInv evs h0.inv hrec0 hr

example : (exRAt 2).s.locked = [([-1, 0], [0, 1]), ([1], [2])]
    ∧ (exRAt 2).jobs.map (fun j => (j.picked.map (·.ens), j.picked.map (·.pn))) = [([-1, 0], [0, 1]), ([1], [2])]
    ∧ (exRAt 4).s.locked = [([1], [2]), ([-1], [3])] := by decide +kernel

/-! ## 8. Engine instances are separate objects

The model's engine instance is the pair (engine type, index).  `create_engines` builds, per engine
name, `min(count, workers)` instances one after the other; seen as object identities handed out by a
fresh counter this is `engineIds`, and distinct (type, index) pairs are distinct objects.  That the
real `create_engines` behaves like this (no aliasing of one object over several slots) is checked by
the tie on the real `def_globals` with turtlemd engines (`C03:engine-objects-aliased`,
`C03:engine-object-shared`). -/

/-- object identities of the instances: `sizes[k]` fresh ids for engine type `k`, counter from `next` -/
def engineIds : Nat → List Nat → List (List Nat)
  | _, [] => []
  | next, m :: rest => List.range' next m :: engineIds (next + m) rest

theorem engineIds_flatten : ∀ (sizes : List Nat) (next : Nat),
    (engineIds next sizes).flatten = List.range' next sizes.sum := by
  intro sizes
  induction sizes with
  | nil => intro next; simp [engineIds]
  | cons m rest ih =>
    intro next
    simp only [engineIds, List.flatten_cons, ih, List.sum_cons]
    rw [List.range'_append_1]

/-- one instance slot per requested instance, and all instances of all types are pairwise distinct objects -/
theorem engine_objects_distinct (sizes : List Nat) :
    (engineIds 0 sizes).map List.length = sizes ∧ ((engineIds 0 sizes).flatten).Nodup := by
  constructor
  · suffices h : ∀ (sz : List Nat) (next : Nat), (engineIds next sz).map List.length = sz from h sizes 0
    intro sz
    induction sz with
    | nil => intro next; rfl
    | cons m rest ih => intro next; simp [engineIds, ih]
  · rw [engineIds_flatten]
    exact List.nodup_range'

example : engineIds 0 [3, 2] = [[0, 1, 2], [3, 4]] := by decide

/-! ## 9. "At every instant": the sub-steps of `treat_output` and `prep_md_items`

The theorems of sections 1–5 speak about the instants BETWEEN scheduler events.  `Infretis.Repex.Micro`
(Model/RepexMicro.lean) lists one snapshot after every statement inside `treat_output` (per picked
ensemble `add_traj`: `_trajs[ens] = traj`, `state[ens,:] = valid`, `unlock(ens)`; then every `swap` of
`sort_trajstate`) and inside `prep_md_items` (`pick`: `swap`, `lock`, for a zero swap `swap`, `lock`
again; re-issue branch of `pick_lock`: `swap`, `lock` per recorded ensemble) that writes `_locks`,
`_trajs` or `state`.  `Snap.mine` is the ghost list of what the job under treatment has not released yet
/ the job under construction has locked already.

`ExactBusy st H`: in state `st`, exactly the ensemble slots listed in `H` (and the ghost) are marked
busy, no slot is listed twice, every listed (slot, path) pair has that path in that slot with a
non-zero own-ensemble weight, and live paths are pairwise distinct.

Named transient windows (and nothing else):
* between `_trajs[ens] = traj` and `unlock(ens)` (snapshots `setTraj`, `setRow`) the slot is still busy
  and already holds the NEW path (ACC) — `mine` lists it with the new number; `treat_substeps_mine`;
* the record `locked` (what `write_toml` would dump) loses the completing job at its first picked
  ensemble while its slots stay busy until their `unlock`; `write_toml` is only called at the end of
  `treat_output` / `loop()`, where `locked_record_matches_inflight` holds again;
* inside `pick` the new job's slot is locked before the job is on record / in flight: `mine`. -/

open Infretis.Repex.Micro in
/-- exactly the slots of `H` are busy, each with its path in place, live paths distinct -/
def ExactBusy (st : St) (H : List (Nat × Nat)) : Prop :=
  st.locks.length = st.n ∧ st.locks[st.n - 1]? = some true ∧
  (∀ e, e < st.n - 1 → (st.locks[e]? = some true ↔ e ∈ H.map Prod.fst)) ∧
  (H.map Prod.fst).Nodup ∧
  (∀ e pn, (e, pn) ∈ H → e < st.n - 1 ∧ st.trajs[e]? = some (some pn) ∧ entryM st.W e e ≠ 0) ∧
  (∀ a b pn, a < st.n - 1 → b < st.n - 1 →
    st.trajs[a]? = some (some pn) → st.trajs[b]? = some (some pn) → a = b)

theorem exactBusy_of_coreR {st : St} {H : List (Nat × Nat)} {tn : Nat} (h : CoreR st H tn) :
    ExactBusy st H :=
  ⟨h.lenL, h.ghost, h.busy, h.nodup, h.heldOk, h.inj⟩

open Infretis.Repex.Micro

/-- the state `treat_output` runs on when the `k`-th job completes, with what the others hold -/
theorem coreR_at_completion {y0 y : Sys} {evs : List Ev} (h0 : Start y0) (hr : run y0 evs = .ok y)
    (k : Nat) (job : Job) (hj : y.jobs[k]? = some job) (s1 : St) (go : Bool)
    (hloop : loop y.s = (s1, go)) :
    CoreR s1 (heldJob job ++ held (y.jobs.eraseIdx k)) s1.trajNum := by
  have hi := reach_invR h0 hr
  obtain ⟨hle, hltn, _, _, _⟩ := loop_coreEqR y.s
  rw [hloop] at hle hltn
  simp only [] at hle hltn
  rw [hltn]
  exact (hi.core.congr hle).perm (held_perm_erase y.jobs k job hj)

/-- **Every sub-step of `treat_output`, any completion order, fresh start or restart.**  When the
    `k`-th job in flight completes (any `k`, any status, any new weights) in a reachable state and
    `treat_output` does not raise, then at EVERY sub-step snapshot exactly the ensembles of the OTHER
    jobs in flight plus those this job has not released yet (`mine`) are marked busy, each with its
    path in place, and live paths are pairwise distinct. -/
theorem treat_substeps_exact (y0 y : Sys) (evs : List Ev) (h0 : Start y0) (hr : run y0 evs = .ok y)
    (k : Nat) (job : Job) (hj : y.jobs[k]? = some job) (s1 : St) (hloop : loop y.s = (s1, true))
    (status : Status) (newW : List (List Rat)) (s2 : St) (pns : List Nat) (it : Nat)
    (htr : treatOutput s1 job status newW (sortFuel s1) = .ok (s2, pns, it)) :
    ∀ m ∈ treatTrace s1 job status newW (sortFuel s1),
      ExactBusy m.st (m.mine ++ held (y.jobs.eraseIdx k)) := by
  have hc1 := coreR_at_completion h0 hr k job hj s1 true hloop
  intro m hm
  exact exactBusy_of_coreR (treatTrace_coreR job status newW _ pns it hc1 htr m hm)

/-- **What `mine` is along `treat_output`**: the ensembles of a suffix `picked.drop i` of the job's
    picked list (the first `i` have been released, in order); at the `unlock` and `sort` snapshots with
    the path numbers as handed out (`pn_old`), and during `sort_trajstate` nothing is left. -/
theorem treat_substeps_mine (s s' : St) (job : Job) (status : Status) (newW : List (List Rat))
    (fuel : Nat) (pns : List Nat) (it : Nat)
    (ht : treatOutput s job status newW fuel = .ok (s', pns, it)) :
    ∀ m ∈ treatTrace s job status newW fuel, ∃ i, i ≤ job.picked.length ∧
      m.mine.map Prod.fst = (job.picked.drop i).map slotOf ∧
      ((m.tag = .unlock ∨ m.tag = .sortSwap) →
        m.mine = (job.picked.drop i).map (fun p => (slotOf p, p.pn))) ∧
      (m.tag = .sortSwap → i = job.picked.length) :=
  treatTrace_mine job status newW fuel pns it ht

/-- **The sub-steps compose to `treat_output`**: the last snapshot has the slots, weights and flags
    of the state `treat_output` returns, and the completing job holds nothing any more. -/
theorem treat_substeps_end (y0 y : Sys) (evs : List Ev) (h0 : Start y0) (hr : run y0 evs = .ok y)
    (k : Nat) (job : Job) (hj : y.jobs[k]? = some job) (s1 : St)
    (status : Status) (newW : List (List Rat)) (s2 : St) (pns : List Nat) (it : Nat)
    (htr : treatOutput s1 job status newW (sortFuel s1) = .ok (s2, pns, it)) :
    ∃ m, (treatTrace s1 job status newW (sortFuel s1)).getLast? = some m ∧ m.mine = [] ∧
      m.st.W = s2.W ∧ m.st.trajs = s2.trajs ∧ m.st.locks = s2.locks := by
  have hi := reach_invR h0 hr
  have hne : job.picked ≠ [] := by
    rcases (hi.jobs job (List.mem_of_getElem? hj)).shape with h1 | h2
    · intro h; rw [h] at h1; simp at h1
    · intro h; rw [h] at h2; simp at h2
  exact treatTrace_last job status newW _ pns it hne htr

/-- the sub-steps of the completion of the zero swap in the concrete history -/
def exTreatTr : List Snap :=
  match (exAt 3).jobs[0]? with
  | some job => treatTrace (loop (exAt 3).s).1 job .acc [[1], [1, 1, 0]] (sortFuel (loop (exAt 3).s).1)
  | none => []

/-- `treat_output` succeeds on that completion -/
def exTreatOk : Bool :=
  match (exAt 3).jobs[0]? with
  | some job => (treatOutput (loop (exAt 3).s).1 job .acc [[1], [1, 1, 0]] (sortFuel (loop (exAt 3).s).1)).toBool
  | none => false

example : run exSys (exEvs.take 3) = .ok (exAt 3) ∧ (exAt 3).jobs[0]?.isSome = true
    ∧ (loop (exAt 3).s).2 = true ∧ exTreatOk = true
    ∧ exTreatTr.map (·.tag) = [.setTraj, .setRow, .unlock, .setTraj, .setRow, .unlock]
    ∧ exTreatTr.map (·.st.locks) = [[true, true, true, true], [true, true, true, true], [false, true, true, true],
        [false, true, true, true], [false, true, true, true], [false, false, true, true]]
    ∧ exTreatTr.map (·.st.trajs) = [[some 3, some 1, some 2, none], [some 3, some 1, some 2, none],
        [some 3, some 1, some 2, none], [some 3, some 4, some 2, none], [some 3, some 4, some 2, none],
        [some 3, some 4, some 2, none]]
    ∧ exTreatTr.map (·.mine) = [[(0, 3), (1, 1)], [(0, 3), (1, 1)], [(1, 1)], [(1, 4)], [(1, 4)], []] :=
  ⟨ex_runs 3 (by decide), by decide +kernel, by decide +kernel, by decide +kernel, by decide +kernel,
    by decide +kernel, by decide +kernel, by decide +kernel⟩

/-- **Every sub-step of the pick part of `prep_md_items` during initiation** (fresh pick or re-issue
    of a recorded job), fresh start or restart: exactly the ensembles of the jobs in flight plus
    those the job under construction has locked so far (`mine`) are busy, paths in place; and the last
    snapshot has the slots / flags of the state `prep_md_items` returns, `mine` being (a permutation
    of) what the returned `md_items` lists. -/
theorem prep_substeps_exact_start (y0 y : Sys) (evs : List Ev) (h0 : Start y0) (hr : run y0 evs = .ok y)
    (s1 : St) (hgo : initiate y.s = (s1, true)) (o : PickOutcome) (saved : Nat) (s2 : St) (job : Job)
    (ds : List Draw) (hprep : prep s1 none o saved = .ok (s2, job, ds)) :
    (∀ m ∈ prepTrace s1 o saved, ExactBusy m.st (m.mine ++ held y.jobs)) ∧
    ∃ m, (prepTrace s1 o saved).getLast? = some m ∧ m.st.W = s2.W ∧ m.st.trajs = s2.trajs ∧
      m.st.locks = s2.locks ∧ m.mine.Perm (job.picked.map (fun p => (slotOf p, p.pn))) := by
  have hi := reach_invR h0 hr
  have hc1 : CoreR s1 (held y.jobs) s1.trajNum := by
    rcases initiate_cases y.s with ⟨hin, _⟩ | ⟨ti, hti, hin⟩
    · rw [hin] at hgo; simp at hgo
    · rw [hin] at hgo
      simp only [Prod.mk.injEq] at hgo
      obtain ⟨rfl, _⟩ := hgo
      exact hi.core.congrTo rfl rfl rfl rfl rfl (by
        show 0 ≤ ti - 1 → 0 ≤ y.s.toinitiate
        rcases hti with h1 | h1 <;> omega)
  exact ⟨fun m hm => exactBusy_of_coreR (prepTrace_coreR none o saved job ds hc1 hprep m hm),
    prepTrace_last none o saved job ds hc1 hprep⟩

example : (initiate exSys.s).2 = true
    ∧ (prep (initiate exSys.s).1 none { t := 0, e := 0, coin := true, partner := 1 } 0).toBool = true
    ∧ (prep (initiate exSysR.s).1 none { t := 3, e := 3 } 0).toBool = true
    ∧ (prepTrace (initiate exSys.s).1 { t := 0, e := 0, coin := true, partner := 1 } 0).map (·.tag)
      = [.pickSwap, .pickLock, .zsSwap, .zsLock]
    ∧ (prepTrace (initiate exSys.s).1 { t := 0, e := 0, coin := true, partner := 1 } 0).map (·.st.locks)
      = [[false, false, false, true], [true, false, false, true], [true, false, false, true], [true, true, false, true]]
    ∧ (prepTrace (initiate exSys.s).1 { t := 0, e := 0, coin := true, partner := 1 } 0).map (·.mine)
      = [[], [(0, 0)], [(0, 0)], [(1, 1), (0, 0)]]
    ∧ (prepTrace (initiate exSysR.s).1 { t := 3, e := 3 } 0).map (·.tag) = [.reSwap, .reLock, .reSwap, .reLock]
    ∧ (prepTrace (initiate exSysR.s).1 { t := 3, e := 3 } 0).map (·.st.locks)
      = [[false, false, false, true], [true, false, false, true], [true, false, false, true], [true, true, false, true]]
    ∧ (prepTrace (initiate exSysR.s).1 { t := 3, e := 3 } 0).map (·.mine)
      = [[], [(0, 0)], [(0, 0)], [(1, 1), (0, 0)]] :=
  ⟨by decide +kernel, by decide +kernel, by decide +kernel, by decide +kernel, by decide +kernel,
    by decide +kernel, by decide +kernel, by decide +kernel, by decide +kernel⟩

/-- **One whole `step` event, sub-step by sub-step** (the composed operation of the main loop:
    `loop()`, `treat_output` of the `k`-th job, then — iff `cstep + workers ≤ tsteps` —
    `prep_md_items` for the same worker): every snapshot of `treat_output` and every snapshot of the
    following pick keeps exactly the OTHER jobs' ensembles plus `mine` busy. -/
theorem step_substeps_exact (y0 y y' : Sys) (evs : List Ev) (h0 : Start y0) (hr : run y0 evs = .ok y)
    (k : Nat) (status : Status) (newW : List (List Rat)) (o : PickOutcome)
    (hs : sysStep y (.step k status newW o) = .ok y') :
    ∃ job s1 s2 pns it, y.jobs[k]? = some job ∧ loop y.s = (s1, true) ∧
      treatOutput s1 job status newW (sortFuel s1) = .ok (s2, pns, it) ∧
      (∀ m ∈ treatTrace s1 job status newW (sortFuel s1),
        ExactBusy m.st (m.mine ++ held (y.jobs.eraseIdx k))) ∧
      (s2.cstep + s2.workers ≤ s2.tsteps →
        (∀ m ∈ prepTrace s2 o 0, ExactBusy m.st (m.mine ++ held (y.jobs.eraseIdx k))) ∧
        ∃ job' m, y'.jobs = y.jobs.eraseIdx k ++ [job'] ∧ (prepTrace s2 o 0).getLast? = some m ∧
          m.st.W = y'.s.W ∧ m.st.trajs = y'.s.trajs ∧ m.st.locks = y'.s.locks ∧
          m.mine.Perm (job'.picked.map (fun p => (slotOf p, p.pn)))) := by
  obtain ⟨job, s1, s2, pns, it, hjob, hloop, htreat, hcase⟩ := step_decompose k status newW o hs
  have hc1 := coreR_at_completion h0 hr k job hjob s1 true hloop
  obtain ⟨hc2, _⟩ := treatOutput_coreR job status newW _ pns it hc1 htreat
  refine ⟨job, s1, s2, pns, it, hjob, hloop, htreat,
    treat_substeps_exact y0 y evs h0 hr k job hjob s1 hloop status newW s2 pns it htreat, ?_⟩
  intro hre
  rcases hcase with ⟨_, s3, job', ds, hprep, rfl⟩ | ⟨hno, _⟩
  · refine ⟨fun m hm => exactBusy_of_coreR (prepTrace_coreR _ o 0 job' ds hc2 hprep m hm), job', ?_⟩
    obtain ⟨m, hm, hW, hT, hL, hP⟩ := prepTrace_last _ o 0 job' ds hc2 hprep
    exact ⟨m, rfl, hm, hW, hT, hL, hP⟩
  · exact absurd hre hno

example : run exSys (exEvs.take 3) = .ok (exAt 3)
    ∧ sysStep (exAt 3) (.step 0 .acc [[1], [1, 1, 0]] { t := 0, e := 0, coin := false }) = .ok (exAt 4) := by
  refine ⟨ex_runs 3 (by decide), ?_⟩
  have h4 := ex_runs 4 (by decide)
  have h3 := ex_runs 3 (by decide)
  have : exEvs.take 4 = exEvs.take 3 ++ [.step 0 .acc [[1], [1, 1, 0]] { t := 0, e := 0, coin := false }] := rfl
  rw [this] at h4
  obtain ⟨y1, hr1, hr2⟩ := run_append _ _ _ _ h4
  rw [h3] at hr1
  simp only [Except.ok.injEq] at hr1
  subst hr1
  unfold run at hr2
  split at hr2
  · exact absurd hr2 (by simp)
  · rename_i y2 hstep
    simp only [run, Except.ok.injEq] at hr2
    rw [hstep, hr2]

/-! ## 10. The engine table comes from `create_engines`

`Infretis.Repex.Factory.createEngines` mirrors `factory.create_engines` (count the occurrences of
every engine name in `ensemble_engines`, dict order; per name `min(count, workers)` instances: one
`-1` in `engine_occ[name]` and one new engine object in `engines[name]` per instance).  Section 6
assumed `EngInit`; here it is DERIVED for the table `create_engines` builds, so engine availability
and exclusivity are statements about the composed boot → prep → assign → complete model. -/

open Infretis.Repex.Factory in
/-- **What `create_engines` returns**: the keys are the engine names written in `ensemble_engines`,
    each once; name `k` gets `min(#occurrences of k, workers)` instances, all free (`-1`);
    `engines[k]` has one object per instance, and all engine objects of all names are pairwise
    distinct (one `create_engine` call each). -/
theorem create_engines_spec (ensEng : List (List Nat)) (workers : Nat) :
    (∀ k, occRow (createEngines ensEng workers) k
        = List.replicate (min (ensEng.flatten.count k) workers) (-1)) ∧
    (createEngines ensEng workers).objs.map List.length
      = (createEngines ensEng workers).occ.map List.length ∧
    ((createEngines ensEng workers).objs.flatten).Nodup ∧
    (createEngines ensEng workers).names = (engineCount ensEng).map Prod.fst ∧
    (∀ k, k ∈ (createEngines ensEng workers).names ↔ k ∈ ensEng.flatten) := by
  refine ⟨occRow_createEngines ensEng workers, ?_, ?_, createLoop_names _ _ _, ?_⟩
  · obtain ⟨h1, h2⟩ := createLoop_shape workers (engineCount ensEng) 0
    unfold createEngines
    rw [h1, h2, List.map_map]
    apply List.map_congr_left
    intro a _
    simp
  · unfold createEngines
    rw [createLoop_objs_flatten]
    exact List.nodup_range'
  · intro k
    unfold createEngines
    rw [createLoop_names]
    have hl := engineCount_lookup ensEng k
    constructor
    · intro hk
      by_contra hnot
      rw [if_pos (List.count_eq_zero.mpr hnot)] at hl
      rw [List.lookup_eq_none_iff] at hl
      obtain ⟨a, ha, rfl⟩ := List.mem_map.mp hk
      have := hl a ha
      simp at this
    · intro hk
      rw [if_neg (by have := List.count_pos_iff.mpr hk; omega)] at hl
      exact List.mem_map.mpr ⟨_, lookup_mem _ _ _ hl, rfl⟩

example : Infretis.Repex.Factory.createEngines [[0], [1, 0], [1], [1]] 2
    = { names := [0, 1], objs := [[0, 1], [2, 3]], occ := [[-1, -1], [-1, -1]] } := by decide

open Infretis.Repex.Factory in
/-- **`EngInit` holds for the table `create_engines` builds** (every ensemble lists at least one
    engine — `check_config` — and the type numbers used are below `m`). -/
theorem created_engines_engInit (y : Sys) (m : Nat)
    (hocc : y.s.occ = occTable (createEngines y.s.ensEng y.s.workers) m)
    (hm : ∀ k ∈ y.s.ensEng.flatten, k < m)
    (hne : ∀ e, e < y.s.n - 1 → y.s.ensEng.getD e [] ≠ []) : EngInit y :=
  engInit_of_createEngines y m hocc hm hne

open Infretis.Repex.Factory in
/-- **Engine availability for the composed boot**: fresh start (`Init`), engine table built by
    `create_engines` from the configured `ensemble_engines` and `workers`: along every
    scheduler-shaped history no `start` event fails in its engine part. -/
theorem engine_always_available_boot_start (y0 y : Sys) (m : Nat) (starts : List Ev) (h0 : Init y0)
    (hocc : y0.s.occ = occTable (createEngines y0.s.ensEng y0.s.workers) m)
    (hm : ∀ k ∈ y0.s.ensEng.flatten, k < m)
    (hne : ∀ e, e < y0.s.n - 1 → y0.s.ensEng.getD e [] ≠ [])
    (hs : ∀ ev ∈ starts, isStart ev = true) (hr : run y0 starts = .ok y)
    (o : PickOutcome) (saved : Nat) (s1 : St) (hgo : initiate y.s = (s1, true))
    (s1' : St) (ps : List Picked) (ds : List Draw) (hpick : pickPart s1 o saved = .ok (s1', ps, ds)) :
    ∃ y', sysStep y (.start o saved) = .ok y' :=
  engine_always_available_start y0 y starts h0 (created_engines_engInit y0 m hocc hm hne) hs hr
    o saved s1 hgo s1' ps ds hpick

open Infretis.Repex.Factory in
/-- … and no `step` event of the main loop fails in its engine part. -/
theorem engine_always_available_boot_step (y0 y : Sys) (m : Nat) (starts steps : List Ev) (h0 : Init y0)
    (hocc : y0.s.occ = occTable (createEngines y0.s.ensEng y0.s.workers) m)
    (hm : ∀ k ∈ y0.s.ensEng.flatten, k < m)
    (hne : ∀ e, e < y0.s.n - 1 → y0.s.ensEng.getD e [] ≠ [])
    (hs : ∀ ev ∈ starts, isStart ev = true) (ht : ∀ ev ∈ steps, isStep ev = true)
    (hr : run y0 (starts ++ .initDone :: steps) = .ok y)
    (k : Nat) (status : Status) (newW : List (List Rat)) (o : PickOutcome) (job : Job)
    (hj : y.jobs[k]? = some job) (s1 : St) (hloop : loop y.s = (s1, true))
    (s2 : St) (pns : List Nat) (it : Nat)
    (htr : treatOutput s1 job status newW (sortFuel s1) = .ok (s2, pns, it))
    (hre : s2.cstep + s2.workers ≤ s2.tsteps) (s3 : St) (ps : List Picked) (ds : List Draw)
    (hpick : pickPart s2 o 0 = .ok (s3, ps, ds)) :
    ∃ y', sysStep y (.step k status newW o) = .ok y' :=
  engine_always_available_step y0 y starts steps h0 (created_engines_engInit y0 m hocc hm hne) hs ht hr
    k status newW o job hj s1 hloop s2 pns it htr hre s3 ps ds hpick

example : exSys2.s.occ
      = Infretis.Repex.Factory.occTable (Infretis.Repex.Factory.createEngines exSys2.s.ensEng exSys2.s.workers) 2
    ∧ (∀ k ∈ exSys2.s.ensEng.flatten, k < 2)
    ∧ (∀ e, e < exSys2.s.n - 1 → exSys2.s.ensEng.getD e [] ≠ []) ∧ Init exSys2 :=
  ⟨by decide +kernel, by decide +kernel, by decide +kernel, ex_init2⟩

open Infretis.Repex.Factory in
/-- **No two jobs in flight run with the same engine OBJECT** (fresh start or restart): `select_shoot`
    resolves the instance `(type, index)` of a picked ensemble to `ENGINES[type][index]`
    (`engineObj`); if the jobs at positions `i1`, `i2` of the in-flight list list instances that
    resolve to one object of the engines `create_engines` built, then `i1 = i2`.  (Composition of
    `engine_instance_exclusive_restart` with: every instance is a separate object.) -/
theorem engine_object_exclusive (y0 y : Sys) (evs : List Ev) (h0 : Start y0) (hr : run y0 evs = .ok y)
    (ensEng : List (List Nat)) (workers : Nat)
    (i1 i2 : Nat) (j1 j2 : Job) (h1 : y.jobs[i1]? = some j1) (h2 : y.jobs[i2]? = some j2)
    (p1 p2 : Picked) (hp1 : p1 ∈ j1.picked) (hp2 : p2 ∈ j2.picked) (ki1 ki2 : Nat × Nat)
    (hk1 : ki1 ∈ p1.engIdx) (hk2 : ki2 ∈ p2.engIdx) (o : Nat)
    (ho1 : engineObj (createEngines ensEng workers) ki1 = some o)
    (ho2 : engineObj (createEngines ensEng workers) ki2 = some o) : i1 = i2 := by
  have hki := engineObj_inj ensEng workers ki1 ki2 o ho1 ho2
  subst hki
  exact engine_instance_exclusive_restart y0 y evs h0 hr i1 i2 j1 j2 h1 h2 p1 p2 hp1 hp2 ki1 hk1 hk2

example : (exAt 5).jobs.map (fun j => j.picked.map (fun p => p.engIdx.map
      (Infretis.Repex.Factory.engineObj (Infretis.Repex.Factory.createEngines [[0], [0], [0]] 2))))
    = [[[some 0]], [[some 1]]] := by decide +kernel

/-! ### engine availability across restarts

Section 6 was proved for fresh starts.  A restarted process builds its engine table anew (all cells
free) with nothing in flight, the recorded jobs are re-issued by `pick_lock` through the very same
`prep_md_items` → `assign_engines`: the counting argument of section 6 goes through over the restart
invariant (`RepexC03AvailSysR`).  `Start y0` = fresh start or restart. -/

/-- **During initiation, fresh start or restart** (also while recorded jobs are being re-issued):
    if `initiate()` answers yes and `pick_lock()` succeeds, the whole `start` event succeeds. -/
theorem engine_always_available_start_restart (y0 y : Sys) (starts : List Ev) (h0 : Start y0)
    (hj : y0.jobs = []) (hE : EngInit y0) (hs : ∀ ev ∈ starts, isStart ev = true)
    (hr : run y0 starts = .ok y)
    (o : PickOutcome) (saved : Nat) (s1 : St) (hgo : initiate y.s = (s1, true))
    (s1' : St) (ps : List Picked) (ds : List Draw) (hpick : pickPart s1 o saved = .ok (s1', ps, ds)) :
    ∃ y', sysStep y (.start o saved) = .ok y' :=
  start_availableR (run_starts_ER starts hs (EInvR.ofStart h0 hj hE) hr) o saved s1 hgo s1' ps ds hpick

/-- **In the main loop, fresh start or restart.** -/
theorem engine_always_available_step_restart (y0 y : Sys) (starts steps : List Ev) (h0 : Start y0)
    (hj : y0.jobs = []) (hE : EngInit y0) (hs : ∀ ev ∈ starts, isStart ev = true)
    (ht : ∀ ev ∈ steps, isStep ev = true)
    (hr : run y0 (starts ++ .initDone :: steps) = .ok y)
    (k : Nat) (status : Status) (newW : List (List Rat)) (o : PickOutcome) (job : Job)
    (hjk : y.jobs[k]? = some job) (s1 : St) (hloop : loop y.s = (s1, true))
    (s2 : St) (pns : List Nat) (it : Nat)
    (htr : treatOutput s1 job status newW (sortFuel s1) = .ok (s2, pns, it))
    (hre : s2.cstep + s2.workers ≤ s2.tsteps) (s3 : St) (ps : List Picked) (ds : List Draw)
    (hpick : pickPart s2 o 0 = .ok (s3, ps, ds)) :
    ∃ y', sysStep y (.step k status newW o) = .ok y' := by
  obtain ⟨he, hph⟩ := einvR_of_shaped h0 hj hE starts steps hs ht hr
  have hlt : y.s.toinitiate < 0 := by
    rcases hph with h1 | h1
    · exact h1
    · exfalso
      unfold loop at hloop
      rw [if_pos (by omega)] at hloop
      simp at hloop
  exact step_availableR he hlt k status newW o job hjk s1 hloop s2 pns it htr hre s3 ps ds hpick

theorem ex_engInitR : EngInit exSysR := by
  have hocc : exSysR.s.occ = [[-1, -1]] := by decide +kernel
  have hens : exSysR.s.ensEng = [[0], [0], [0]] := by decide +kernel
  have hn : exSysR.s.n = 4 := by decide +kernel
  have hw : exSysR.s.workers = 2 := by decide +kernel
  constructor
  · intro k i x hx
    rw [hocc] at hx
    match k, i with
    | 0, 0 => simpa [cell] using hx.symm
    | 0, 1 => simpa [cell] using hx.symm
    | 0, i + 2 => simp [cell] at hx
    | k + 1, i => simp [cell] at hx
  · intro k l hl
    rw [hocc] at hl
    rw [hw, hens, hn]
    match k with
    | 0 => simp at hl; subst hl; decide
    | k + 1 => simp at hl
  · intro e he
    rw [hn] at he
    rw [hens, hocc]
    match e, he with
    | 0, _ => exact ⟨by decide, fun k hk => by simp at hk; subst hk; exact ⟨_, rfl⟩⟩
    | 1, _ => exact ⟨by decide, fun k hk => by simp at hk; subst hk; exact ⟨_, rfl⟩⟩
    | 2, _ => exact ⟨by decide, fun k hk => by simp at hk; subst hk; exact ⟨_, rfl⟩⟩

example : Start exSysR ∧ exSysR.jobs = [] ∧ EngInit exSysR
    ∧ run exSysR (exEvsR.take 1) = .ok (exRAt 1) ∧ (initiate (exRAt 1).s).2 = true
    ∧ (pickPart (initiate (exRAt 1).s).1 { t := 2, e := 2 } 0).toBool = true
    ∧ exEvsR = exEvsR.take 2 ++ .initDone :: exEvsR.drop 3 ∧ (run exSysR exEvsR).toBool = true :=
  ⟨Or.inr ex_initR, rfl, ex_engInitR, ex_runsR 1 (by decide), by decide +kernel, by decide +kernel, rfl,
    by decide +kernel⟩

/-! ## 11. The branch structure of `pick()` around the zero swap

`pickCore` mirrors `pick()` + `pick_traj_ens()`.  Which draws it requests and when it takes the
zero-swap branch, read off the definition (no invariant needed).  Neither `tis_set.quantis` nor
`tis_set.lambda_minus_one` is read by `pick` / `pick_traj_ens` / `pick_lock`: they change what
`select_shoot` does with a two-ensemble job, not which job is picked. -/

/-- **The coin is drawn exactly when the picked ensemble is `[0-]` or `[0+]` and the OTHER of the two
    is idle (after the picked one was locked); a zero swap starts exactly when the coin is drawn and
    falls below `zeroswap`; only then a partner is drawn.**  Slot 0 = `[0-]`, slot 1 = `[0+]`. -/
theorem zero_swap_branch (s s' : St) (o : PickOutcome) (pairs : List (Int × Option Nat)) (ds : List Draw)
    (hl : 2 ≤ s.locks.length) (hp : pickCore s o = .ok (s', pairs, ds)) :
    let coinDrawn := (o.e = 1 ∧ s.locks[0]? = some false) ∨ (o.e = 0 ∧ s.locks[1]? = some false)
    (coinDrawn ↔ 2 ≤ ds.length) ∧
    (pairs.length = 2 ↔ coinDrawn ∧ o.coin = true) ∧
    (pairs.length = 2 ↔ ds.length = 3) ∧
    (pairs.length = 1 ∨ pairs.length = 2) ∧ 1 ≤ ds.length ∧ ds.length ≤ 3 := by
  intro coinDrawn
  unfold pickCore at hp
  simp only [] at hp
  split at hp
  · exact absurd hp (by simp)
  split at hp
  · exact absurd hp (by simp)
  rename_i s2 hlk
  obtain ⟨hle, hs2⟩ := lock_ok hlk
  have hlen : (swap s o.t o.e).locks = s.locks := rfl
  rw [hlen] at hle
  have hL2 : s2.locks = s.locks.set o.e true := by rw [hs2]; rfl
  -- the zero-swap condition, in terms of the flags before the pick
  have hcond : ((o.e == off && (s2.locks.getD (off - 1) true == false)) ||
      (o.e == off - 1 && (s2.locks.getD off true == false))) = true ↔ coinDrawn := by
    simp only [coinDrawn, off, Bool.or_eq_true, Bool.and_eq_true, beq_iff_eq, hL2]
    constructor
    · rintro (⟨h1, h2⟩ | ⟨h1, h2⟩)
      · left
        refine ⟨h1, ?_⟩
        rw [h1] at h2
        rw [List.getD_eq_getElem?_getD, List.getElem?_set_ne (by decide)] at h2
        rw [List.getElem?_eq_getElem (by omega)] at h2 ⊢
        simpa using h2
      · right
        refine ⟨h1, ?_⟩
        rw [h1] at h2
        rw [List.getD_eq_getElem?_getD, List.getElem?_set_ne (by decide)] at h2
        rw [List.getElem?_eq_getElem (by omega)] at h2 ⊢
        simpa using h2
    · rintro (⟨h1, h2⟩ | ⟨h1, h2⟩)
      · left
        refine ⟨h1, ?_⟩
        rw [h1, List.getD_eq_getElem?_getD, List.getElem?_set_ne (by decide), h2]
        rfl
      · right
        refine ⟨h1, ?_⟩
        rw [h1, List.getD_eq_getElem?_getD, List.getElem?_set_ne (by decide), h2]
        rfl
  have hlen2 : ∀ (c : Prop) [Decidable c] (x y : List (Int × Option Nat)), x.length = 2 → y.length = 2 →
      (if c then x else y).length = 2 := by
    intro c _ x y hx hy
    split <;> assumption
  generalize hother : (if (o.e == off) = true then off - 1 else off) = other at hp
  generalize hzs : ((o.e == off && (s2.locks.getD (off - 1) true == false)) ||
      (o.e == off - 1 && (s2.locks.getD off true == false))) = zs at hp hcond
  split at hp
  · rename_i hzc
    simp only [Bool.and_eq_true] at hzc
    obtain ⟨hz, hcoin⟩ := hzc
    have hcd := hcond.mp hz
    split at hp
    · exact absurd hp (by simp)
    split at hp
    · exact absurd hp (by simp)
    simp only [Except.ok.injEq, Prod.mk.injEq] at hp
    obtain ⟨_, rfl, rfl⟩ := hp
    have hp2 := fun (x y : Option Nat) (u v : Option Nat) =>
      hlen2 ((o.e == off) = true) [((-1 : Int), x), ((0 : Int), y)] [((-1 : Int), u), ((0 : Int), v)] rfl rfl
    exact ⟨⟨fun _ => by simp, fun _ => hcd⟩, ⟨fun _ => ⟨hcd, hcoin⟩, fun _ => hp2 _ _ _ _⟩,
      ⟨fun _ => by simp, fun _ => hp2 _ _ _ _⟩, Or.inr (hp2 _ _ _ _), by simp, by simp⟩
  · rename_i hzc
    simp only [Except.ok.injEq, Prod.mk.injEq] at hp
    obtain ⟨_, rfl, rfl⟩ := hp
    by_cases hz : zs = true
    · have hcd := hcond.mp hz
      have hcf : ¬ o.coin = true := fun hc => hzc (by simp [hz, hc])
      rw [if_pos hz]
      exact ⟨⟨fun _ => by simp, fun _ => hcd⟩, ⟨fun h => by simp at h, fun h => absurd h.2 hcf⟩,
        ⟨fun h => by simp at h, fun h => by simp at h⟩, Or.inl rfl, by simp, by simp⟩
    · have hncd : ¬ coinDrawn := fun h => hz (hcond.mpr h)
      rw [if_neg hz]
      exact ⟨⟨fun h => absurd h hncd, fun h => by simp at h⟩,
        ⟨fun h => by simp at h, fun h => absurd h.1 hncd⟩,
        ⟨fun h => by simp at h, fun h => by simp at h⟩, Or.inl rfl, by simp, by simp⟩

example : 2 ≤ exS0.locks.length
    ∧ (pickCore exS0 { t := 0, e := 0, coin := true, partner := 1 }).toOption.map
        (fun r => (r.2.1.length, r.2.2.length)) = some (2, 3)
    ∧ (pickCore exS0 { t := 0, e := 0, coin := false, partner := 1 }).toOption.map
        (fun r => (r.2.1.length, r.2.2.length)) = some (1, 2)
    ∧ (pickCore exS0 { t := 2, e := 2, coin := true, partner := 1 }).toOption.map
        (fun r => (r.2.1.length, r.2.2.length)) = some (1, 1) := by decide +kernel

/-! ## 12. Submitted references, received values: the hand-over of work units to the workers

`runner.submit_work(md_items)` queues a REFERENCE (`aiorunner.submit_work`: `queue.put` + `sleep(0.05)`), the unit is
pickled when a worker takes it — possibly after later `prep_md_items` calls, which work IN PLACE.  Model:
`Model/RepexSubmit.lean` (heap of `md_items` objects, queue of references, `take` reads the object at take time). -/

section Submit
open Infretis.Repex.Submit

/-- **Generic hand-over theorem.**  From any coherent state, under ANY sequence of operations (new objects,
    `prep_md_items` begins / ends in place, submissions, worker takes, in any order) in which `prep_md_items` is never
    run on an object whose reference is still queued: every unit a worker takes equals the unit that was submitted,
    and every reference still queued points at an unchanged object. -/
theorem take_eq_submitted (q q' : Q) (ops : List Op) (hc : Coherent q) (hf : FreshRun q ops)
    (hr : Submit.run q ops = .ok q') :
    (∀ r ∈ q'.recv, r.got = r.sub) ∧ (∀ e ∈ q'.queue, q'.heap[e.addr]? = some e.sub) := by
  have := run_coherent ops hc hf hr
  exact ⟨this.2, this.1⟩

def exP1 : Picked := { ens := -1, pn := 0, rgen := ⟨0, [0, 0]⟩, rgenEng := ⟨0, [0, 0, 0]⟩, engIdx := [(0, 0)] }
def exP2 : Picked := { ens := 1, pn := 2, rgen := ⟨0, [1, 0]⟩, rgenEng := ⟨0, [1, 0, 0]⟩, engIdx := [(0, 1)] }
def exJ1 : Job := { pin := 0, wfolder := 0, picked := [exP1], pnumOld := [0] }
def exJ2 : Job := { pin := 1, wfolder := 1, picked := [exP2], pnumOld := [2] }

/-- the hypotheses hold on a run in which job 1 is taken while `prep_md_items` of job 2 is working on its own object -/
example : Coherent {} ∧ FreshRun {} [.alloc, .prepBegin 0, .prepEnd 0 exJ1, .submit 0, .alloc, .prepBegin 1, .take,
      .prepEnd 1 exJ2, .submit 1, .take] ∧
    (Submit.run {} [.alloc, .prepBegin 0, .prepEnd 0 exJ1, .submit 0, .alloc, .prepBegin 1, .take,
      .prepEnd 1 exJ2, .submit 1, .take]).toBool = true :=
  ⟨coherent_empty, freshRunB_sound _ _ (by decide +kernel), by decide +kernel⟩

/-- **A new object per job (the code as it is): whatever happens in between, the unit a worker takes is the unit
    submitted.**  For every list of submissions, each on a fresh copy, and EVERY interleaving with worker takes (`k0…k3`
    takes after the copy, inside `prep_md_items`, before and after `submit_work` of every submission): if the run is
    possible at all (no take from an empty queue), every taken unit was received as submitted, and taken + queued
    units are exactly the submitted jobs, in submission order. -/
theorem fresh_copy_take_eq_submitted (slots : List Slot) (q' : Q)
    (hr : Submit.run {} (freshProg 0 slots) = .ok q') :
    (∀ r ∈ q'.recv, r.got = r.sub) ∧
      q'.recv.map (·.sub) ++ q'.queue.map (·.sub) = slots.map (fun b => some b.job) := by
  have h := freshProg_spec slots (q := {}) coherent_empty hr
  refine ⟨h.1.2, ?_⟩
  have := h.2
  simpa [submittedVals] using this

/-- job 1 is taken while `prep_md_items` of job 2 is running on ITS OWN copy, job 2 after its submission -/
example : Submit.run {} (freshProg 0 [{ job := exJ1 }, { job := exJ2, k1 := 1, k3 := 1 }])
      = .ok { heap := [some exJ1, some exJ2], queue := [],
              recv := [⟨0, some exJ1, some exJ1⟩, ⟨1, some exJ2, some exJ2⟩] } := by decide +kernel

/-- **Counterexample for a shared template**: ONE object handed to `prep_md_items` for both initial jobs, both
    references queued, then two workers take: both receive job 2 (same pin, folder, ensemble, path, engine
    instance), nobody runs job 1 — although two DIFFERENT jobs were submitted. -/
theorem shared_template_counterexample :
    ∃ q', Submit.run {} (.alloc :: sharedProg 0 [{ job := exJ1 }, { job := exJ2, k3 := 2 }]) = .ok q' ∧
      q'.recv.map (·.sub) = [some exJ1, some exJ2] ∧ q'.recv.map (·.got) = [some exJ2, some exJ2] ∧ exJ1 ≠ exJ2 ∧
      ¬ ((q'.recv.filterMap (·.got)).map (·.pin)).Nodup :=
  ⟨{ heap := [some exJ2], queue := [], recv := [⟨0, some exJ1, some exJ2⟩, ⟨0, some exJ2, some exJ2⟩] },
    by decide +kernel, by decide +kernel, by decide +kernel, by decide +kernel, by decide +kernel⟩

/-- … and a worker that takes the first unit while `prep_md_items` of the second job is running on the same object
    receives a dict without `picked` (`none`): the `KeyError: 'picked'` inside the worker. -/
theorem shared_template_half_filled_counterexample :
    ∃ q', Submit.run {} (.alloc :: sharedProg 0 [{ job := exJ1 }, { job := exJ2, k1 := 1 }]) = .ok q' ∧
      q'.recv = [⟨0, some exJ1, none⟩] :=
  ⟨{ heap := [some exJ2], queue := [⟨0, some exJ2⟩], recv := [⟨0, some exJ1, none⟩] }, by decide +kernel, rfl⟩

/-- the shared program violates exactly the hypothesis of `take_eq_submitted` -/
example : ¬ FreshRun {} (.alloc :: sharedProg 0 [{ job := exJ1 }, { job := exJ2, k3 := 2 }]) := by
  intro h
  -- alloc, prepBegin 0, prepEnd 0 j1, submit 0, then prepBegin 0 with reference 0 in the queue
  have h1 := h.2 _ rfl
  have h2 := h1.2 _ rfl
  have h3 := h2.2 _ rfl
  have h4 := h3.2 _ rfl
  exact h4.1 ⟨0, some exJ1⟩ (by decide) rfl

/-- **The scheduler with a reference-queueing runner, as the code is** (`lazyStep false`: a new object per submission,
    `scheduler()`'s events interleaved with worker takes in any order, only taken units can complete).  From a fresh
    start or a restart, at every instant: the scheduler's part is the scheduler model of sections 1–11 run on the
    scheduler events alone; the values the running workers RECEIVED followed by the values still queued are exactly
    the model's jobs in flight; and every take so far delivered the unit as submitted. -/
theorem workers_receive_jobs_in_flight (y0 : Sys) (evs : List LEv) (L : LSys) (h0 : Start y0)
    (hr : lazyRun false { y := y0 } evs = .ok L) :
    run y0 (schedEvs evs) = .ok L.y ∧ L.got ++ L.q.queue.map (·.sub) = L.y.jobs.map some ∧
      (∀ r ∈ L.q.recv, r.got = r.sub) := by
  have hj : y0.jobs = [] := by
    rcases h0 with h | h
    · exact h.jobs
    · exact h.jobs
  have hi := lazyRun_fresh_inv evs (linv_start y0 hj) hr
  exact ⟨lazyRun_proj evs hr, hi.2, hi.1.2⟩

/-- **What the workers hold is never shared.**  Same quantifier: the units the running workers received are complete
    jobs `js` (a prefix of the jobs in flight), with pairwise distinct pins and work folders (`worker<pin>`), pairwise
    disjoint ensembles and paths, and no engine instance listed by two of them. -/
theorem received_units_exclusive (y0 : Sys) (evs : List LEv) (L : LSys) (h0 : Start y0)
    (hr : lazyRun false { y := y0 } evs = .ok L) :
    ∃ js : List Job, L.got = js.map some ∧ List.IsPrefix js L.y.jobs ∧
      (js.map (·.pin)).Nodup ∧ (js.map (·.wfolder)).Nodup ∧ (∀ j ∈ js, j.wfolder = j.pin) ∧
      ((inflight js).map (·.ens)).Nodup ∧ ((inflight js).map (·.pn)).Nodup ∧
      (∀ (i1 i2 : Nat) (j1 j2 : Job), js[i1]? = some j1 → js[i2]? = some j2 →
        ∀ p1 ∈ j1.picked, ∀ p2 ∈ j2.picked, ∀ ki, ki ∈ p1.engIdx → ki ∈ p2.engIdx → i1 = i2) := by
  have hj : y0.jobs = [] := by
    rcases h0 with h | h
    · exact h.jobs
    · exact h.jobs
  have hi := lazyRun_fresh_inv evs (linv_start y0 hj) hr
  have hrun := lazyRun_proj evs hr
  simp only at hrun
  have hsplit : L.y.jobs = L.y.jobs.take L.got.length ++ L.y.jobs.drop L.got.length :=
    (List.take_append_drop _ _).symm
  have hsub : List.Sublist (L.y.jobs.take L.got.length) L.y.jobs := List.take_sublist _ _
  have hinf : inflight L.y.jobs = inflight (L.y.jobs.take L.got.length) ++ inflight (L.y.jobs.drop L.got.length) := by
    simp only [inflight]
    rw [← List.flatMap_append, List.take_append_drop]
  refine ⟨L.y.jobs.take L.got.length, got_prefix hi, List.take_prefix _ _, ?_, ?_, ?_, ?_, ?_, ?_⟩
  · exact (hsub.map _).nodup (pins_distinct_restart y0 L.y _ h0 hrun)
  · exact (hsub.map _).nodup (wfolder_exclusive_restart y0 L.y _ h0 hrun).2
  · intro j hjm
    exact (wfolder_exclusive_restart y0 L.y _ h0 hrun).1 j (hsub.subset hjm)
  · have := inflight_ens_disjoint_restart y0 L.y _ h0 hrun
    rw [hinf, List.map_append] at this
    exact (List.nodup_append.mp this).1
  · have := inflight_paths_disjoint_restart y0 L.y _ h0 hrun
    rw [hinf, List.map_append] at this
    exact (List.nodup_append.mp this).1
  · intro i1 i2 j1 j2 h1 h2 p1 hp1 p2 hp2 ki hk1 hk2
    have hl1 : i1 < (L.y.jobs.take L.got.length).length := by
      rcases Nat.lt_or_ge i1 (L.y.jobs.take L.got.length).length with h | h
      · exact h
      · rw [List.getElem?_eq_none h] at h1; exact absurd h1 (by simp)
    have hl2 : i2 < (L.y.jobs.take L.got.length).length := by
      rcases Nat.lt_or_ge i2 (L.y.jobs.take L.got.length).length with h | h
      · exact h
      · rw [List.getElem?_eq_none h] at h2; exact absurd h2 (by simp)
    rw [List.length_take] at hl1 hl2
    rw [List.getElem?_take_of_lt (by omega)] at h1 h2
    exact engine_instance_exclusive_restart y0 L.y _ h0 hrun i1 i2 j1 j2 h1 h2 p1 p2 hp1 hp2 ki hk1 hk2

/-- the concrete history of section 0 with lazy takes: worker 0's zero swap is taken only after worker 1's job was
    prepared and submitted — both workers still receive their own jobs -/
def exLazy : List LEv :=
  [ .sched (.start { t := 0, e := 0, coin := true, partner := 1 }),
    .sched (.start { t := 2, e := 2 }), .take, .take, .sched .initDone ]

def exLazyEnd : LSys :=
  { y := exAt 3,
    q := { heap := (exAt 3).jobs.map some,
           queue := [],
           recv := [⟨0, (exAt 3).jobs[0]?, (exAt 3).jobs[0]?⟩, ⟨1, (exAt 3).jobs[1]?, (exAt 3).jobs[1]?⟩] },
    got := (exAt 3).jobs.map some }

example : Start exSys ∧ lazyRun false { y := exSys } exLazy = .ok exLazyEnd ∧ exLazyEnd.got = (exAt 3).jobs.map some ∧
    exLazyEnd.got.length = 2 ∧ exLazyEnd.q.queue = [] :=
  ⟨Or.inl ex_init, by decide +kernel, rfl, by decide +kernel, rfl⟩

def exSharedEnd : LSys :=
  { y := exAt 3,
    q := { heap := [(exAt 3).jobs[1]?],
           queue := [],
           recv := [⟨0, (exAt 3).jobs[0]?, (exAt 3).jobs[1]?⟩, ⟨0, (exAt 3).jobs[1]?, (exAt 3).jobs[1]?⟩] },
    got := [(exAt 3).jobs[1]?, (exAt 3).jobs[1]?] }

/-- **Counterexample, composed with the scheduler model**: the initiation loop hands the template object itself to
    `prep_md_items` (`lazyStep true`).  Same history, same takes: the scheduler's own books are those of the correct
    run (two jobs in flight with pins 0 and 1, `[0-]`,`[0+]` and `[1+]` busy), but BOTH workers received the job of
    worker 1. -/
theorem shared_template_scheduler_counterexample :
    ∃ L, lazyRun true { y := exSys } exLazy = .ok L ∧ L.y = exAt 3 ∧
      L.y.jobs.map (·.pin) = [0, 1] ∧ (L.got.filterMap id).map (·.pin) = [1, 1] ∧
      (L.got.filterMap id).map (fun j => j.picked.map (·.ens)) = [[1], [1]] ∧
      L.q.recv.map (fun r => decide (r.got = r.sub)) = [false, true] :=
  ⟨exSharedEnd, by decide +kernel, rfl, by decide +kernel, by decide +kernel, by decide +kernel, by decide +kernel⟩

end Submit

end Infretis.C03
