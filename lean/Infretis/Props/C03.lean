import Infretis.Lemmas.RepexC03Load
import Infretis.Lemmas.RepexC03AvailSys
import Infretis.Lemmas.RepexC03Step
import Infretis.Lemmas.RepexC03RRestore
/-!
# C03 — a busy ensemble, path, engine or work directory is never shared

Property theorems only (helper lemmas: `Infretis/Lemmas/RepexC03{Perm,Core,Treat,Eng,Sys,Init,Load,Step,Avail,AvailSys}.lean`).
Model: `Infretis/Model/Repex.lean` — `REPEX_state` as a state machine and the two loops of
`scheduler()` as the event system `sysStep` / `run` over explicit outcomes:
`.start o` (one iteration of `while state.initiate()`), `.initDone` (the closing `initiate()` call),
`.step k status newW o` (one iteration of `while state.loop()`: the `k`-th job in flight completes —
ANY `k`, this is the schedule quantifier — with ANY accept/reject outcome and new weights, then a new
job is drawn with ANY outcome `o` of the random choices that has positive probability).

Quantifier of every theorem below: every initial state `y0` with `Init y0` (what `load_paths`
leaves on a fresh start: every slot idle and holding its own path; any number of ensembles ≥ 1, any
weights, any number of workers, any engine table), every event list `evs` (every interleaving of
completions, every outcome), every `y` with `run y0 evs = .ok y` — i.e. every instant of every
history the sampler can go through without raising.  Slots: ensemble `ens_num` lives in slot
`ens_num + 1`; the last slot is the ghost.

Restriction (stated, not hidden): fresh starts, `locked0 = []` (no jobs to re-issue from a restart
file).  The re-issue branch of `pick_lock` re-locks whatever the restart file names and is outside
these theorems.
-/
namespace Infretis.C03
open Infretis.Repex Infretis.Perm

/-- all (ensemble, path) pairs handed out to jobs in flight -/
def inflight (jobs : List Job) : List Picked := jobs.flatMap (·.picked)

theorem held_eq (jobs : List Job) : held jobs = (inflight jobs).map (fun p => (slotOf p, p.pn)) := by
  simp only [held, inflight, List.map_flatMap]
  rfl

theorem reach_inv {y0 y : Sys} {evs : List Ev} (h0 : Init y0) (hr : run y0 evs = .ok y) : Inv y :=
  run_preserves evs h0.inv hr

/-! ## A concrete history used for the non-vacuity examples

3 ensembles `[0-] [0+] [1+]` + ghost, 2 workers, one engine type with 2 instances.
History: worker 0 starts a zero swap (holds `[0-]` and `[0+]`), worker 1 starts `[1+]`, initiation
closes, the zero swap completes ACCEPTED (two new paths 3, 4) and worker 0 restarts on `[0-]`, then
worker 1's job completes REJECTED and worker 1 restarts on `[1+]`. -/

def exBlank : St := blank 4 2 10 0 3 0 [[-1, -1]] [[0], [0], [0]] false []

def exS0 : St :=
  match loadPaths exBlank [(0, [1], [0,0,0,0]), (1, [1,1,0], [0,0,0,0]), (2, [1,1,0], [0,0,0,0])] with
  | .ok s => s
  | .error _ => exBlank

def exSys : Sys := { s := exS0, jobs := [] }

def exEvs : List Ev :=
  [ .start { t := 0, e := 0, coin := true, partner := 1 },
    .start { t := 2, e := 2 },
    .initDone,
    .step 0 .acc [[1], [1, 1, 0]] { t := 0, e := 0, coin := false },
    .step 0 .rej [] { t := 2, e := 2 } ]

def exAt (k : Nat) : Sys :=
  match run exSys (exEvs.take k) with
  | .ok y => y
  | .error _ => exSys

theorem exS0_loaded : loadPaths exBlank
    [(0, [1], [0,0,0,0]), (1, [1,1,0], [0,0,0,0]), (2, [1,1,0], [0,0,0,0])] = .ok exS0 := by
  decide +kernel

/-- **`Init` is what a fresh start produces**: `REPEX_state.__init__` followed by `load_paths` on
    `n − 1` initial paths with pairwise distinct numbers below `trajNum` (any weights, any number of
    workers, any engine table), `n ≥ 2` slots, no restart jobs — if `load_paths` does not raise, the
    resulting state with nothing in flight satisfies `Init`. -/
theorem fresh_start_is_init (n workers tsteps cstep trajNum seed : Nat) (occ : List (List Int))
    (ensEng : List (List Nat)) (restarted : Bool) (paths : List (Nat × List Rat × List Rat)) (s : St)
    (hn : 2 ≤ n) (hlen : paths.length = n - 1) (hnd : (paths.map (·.1)).Nodup)
    (hlt : ∀ p ∈ paths, p.1 < trajNum)
    (h : loadPaths (blank n workers tsteps cstep trajNum seed occ ensEng restarted []) paths = .ok s) :
    Init { s := s, jobs := [] } :=
  init_of_loadPaths n workers tsteps cstep trajNum seed occ ensEng restarted paths s hn hlen hnd hlt h

theorem ex_init : Init exSys :=
  fresh_start_is_init 4 2 10 0 3 0 [[-1, -1]] [[0], [0], [0]] false _ exS0 (by decide) (by decide)
    (by decide) (by decide) exS0_loaded

/-- the whole history runs, and so does every prefix -/
theorem ex_runs (k : Nat) (hk : k ≤ 5) : run exSys (exEvs.take k) = .ok (exAt k) := by
  match k, hk with
  | 0, _ => decide +kernel
  | 1, _ => decide +kernel
  | 2, _ => decide +kernel
  | 3, _ => decide +kernel
  | 4, _ => decide +kernel
  | 5, _ => decide +kernel

/-! ## 1. Ensembles and paths of jobs in flight are pairwise disjoint -/

/-- **No ensemble is held twice**: over all jobs in flight and all their picked entries, the
    ensemble numbers are pairwise distinct (distinct jobs hold disjoint ensembles, and a job never
    lists an ensemble twice). -/
theorem inflight_ens_disjoint (y0 y : Sys) (evs : List Ev) (h0 : Init y0) (hr : run y0 evs = .ok y) :
    ((inflight y.jobs).map (·.ens)).Nodup := by
  have hi := reach_inv h0 hr
  have hn := hi.core.nodup
  rw [held_eq, List.map_map] at hn
  exact nodup_map_of_nodup_map (fun p => slotOf p) (·.ens) _ hn
    (fun x _ y _ h => by simp only [slotOf]; rw [h])

example : Init exSys ∧ run exSys (exEvs.take 2) = .ok (exAt 2)
    ∧ (inflight (exAt 2).jobs).map (·.ens) = [-1, 0, 1] :=
  ⟨ex_init, ex_runs 2 (by decide), by decide +kernel⟩

/-- **No path is held twice**: the path numbers handed to jobs in flight are pairwise distinct. -/
theorem inflight_paths_disjoint (y0 y : Sys) (evs : List Ev) (h0 : Init y0) (hr : run y0 evs = .ok y) :
    ((inflight y.jobs).map (·.pn)).Nodup := by
  have hi := reach_inv h0 hr
  have hc := hi.core
  have hn := hc.nodup
  have : (inflight y.jobs).map (·.pn) = (held y.jobs).map Prod.snd := by
    rw [held_eq, List.map_map]; rfl
  rw [this]
  refine nodup_map_of_nodup_map Prod.fst Prod.snd _ hn ?_
  intro x hx z hz hxz
  obtain ⟨e1, p1⟩ := x
  obtain ⟨e2, p2⟩ := z
  simp only at hxz
  subst hxz
  obtain ⟨h1, h2, _⟩ := hc.heldOk e1 p1 hx
  obtain ⟨h3, h4, _⟩ := hc.heldOk e2 p1 hz
  exact hc.inj e1 e2 p1 h1 h3 h2 h4

example : Init exSys ∧ run exSys exEvs = .ok (exAt 5)
    ∧ (inflight (exAt 5).jobs).map (·.pn) = [3, 2] :=
  ⟨ex_init, ex_runs 5 (by decide), by decide +kernel⟩

/-- **All live paths are distinct** (the fact behind path disjointness): two different ensemble
    slots never hold the same path number, and every ensemble slot holds a path. -/
theorem live_paths_distinct (y0 y : Sys) (evs : List Ev) (h0 : Init y0) (hr : run y0 evs = .ok y) :
    (∀ e, e < y.s.n - 1 → ∃ pn, y.s.trajs[e]? = some (some pn) ∧ pn < y.s.trajNum) ∧
    (∀ a b pn, a < y.s.n - 1 → b < y.s.n - 1 →
      y.s.trajs[a]? = some (some pn) → y.s.trajs[b]? = some (some pn) → a = b) :=
  ⟨(reach_inv h0 hr).core.live, (reach_inv h0 hr).core.inj⟩

example : (exAt 5).s.trajs = [some 3, some 4, some 2, none] ∧ (exAt 5).s.trajNum = 5 := by
  decide +kernel

/-! ## 2. Exactly the held ensembles are marked busy -/

/-- **busy ⇔ in flight.**  The lock vector has one flag per slot, the ghost is always locked, and
    an ensemble slot `e` (ensemble number `e − 1`) is locked iff some job in flight holds that
    ensemble. -/
theorem locks_iff_inflight (y0 y : Sys) (evs : List Ev) (h0 : Init y0) (hr : run y0 evs = .ok y) :
    y.s.locks.length = y.s.n ∧ y.s.locks[y.s.n - 1]? = some true ∧
    ∀ e, e < y.s.n - 1 →
      (y.s.locks[e]? = some true ↔ ∃ j ∈ y.jobs, ∃ p ∈ j.picked, p.ens = (e : Int) - 1) := by
  have hi := reach_inv h0 hr
  refine ⟨hi.core.lenL, hi.core.ghost, ?_⟩
  intro e he
  rw [hi.core.busy e he]
  simp only [held, heldJob, List.map_flatMap, List.map_map, List.mem_flatMap, List.mem_map,
    Function.comp_apply]
  constructor
  · rintro ⟨j, hj, p, hp, hs⟩
    refine ⟨j, hj, p, hp, ?_⟩
    have := (hi.jobs j hj).ensGe p hp
    simp only [slotOf] at hs
    omega
  · rintro ⟨j, hj, p, hp, hs⟩
    refine ⟨j, hj, p, hp, ?_⟩
    simp only [slotOf]
    omega

example : (exAt 2).s.locks = [true, true, true, true] ∧ (exAt 4).s.locks = [true, false, true, true]
    ∧ (inflight (exAt 4).jobs).map (·.ens) = [1, -1] := by decide +kernel

/-- an unlocked slot is held by nobody (the idle half, spelled out) -/
theorem idle_not_held (y0 y : Sys) (evs : List Ev) (h0 : Init y0) (hr : run y0 evs = .ok y)
    (e : Nat) (he : y.s.locks[e]? = some false) : ∀ p ∈ inflight y.jobs, slotOf p ≠ e := by
  have hi := reach_inv h0 hr
  have hlt := hi.core.unlocked_lt e he
  intro p hp hs
  have : e ∈ (held y.jobs).map Prod.fst := by
    rw [held_eq, List.map_map]
    exact List.mem_map.mpr ⟨p, hp, hs⟩
  rw [← hi.core.busy e hlt, he] at this
  exact absurd this (by simp)

example : (exAt 4).s.locks[1]? = some false := by decide +kernel

/-! ## 3. Every job holds a path with non-zero weight in its ensemble -/

/-- **The held path sits in the job's ensemble slot and has non-zero weight there**, at every
    instant while the job is in flight: slot `ens+1` holds path `pn_old`, and the diagonal entry of
    the weight matrix `state[ens+1, ens+1]` (the weight of that path in that ensemble) is not 0. -/
theorem picked_weight_nonzero (y0 y : Sys) (evs : List Ev) (h0 : Init y0) (hr : run y0 evs = .ok y)
    (j : Job) (hj : j ∈ y.jobs) (p : Picked) (hp : p ∈ j.picked) :
    slotOf p < y.s.n - 1 ∧ y.s.trajs[slotOf p]? = some (some p.pn) ∧
      entryM y.s.W (slotOf p) (slotOf p) ≠ 0 := by
  have hi := reach_inv h0 hr
  apply hi.core.heldOk
  simp only [held, List.mem_flatMap]
  exact ⟨j, hj, List.mem_map.mpr ⟨p, hp, rfl⟩⟩

example : (exAt 5).jobs.map (fun j => j.picked.map (fun p =>
      (slotOf p, p.pn, (exAt 5).s.trajs[slotOf p]?, entryM (exAt 5).s.W (slotOf p) (slotOf p))))
    = [[(0, 3, some (some 3), 1)], [(2, 2, some (some 2), 1)]] := by decide +kernel

/-! ## 4. Zero swaps -/

theorem two_of_ens (l : List Picked) (h : l.map (·.ens) = [-1, 0]) :
    ∃ p q, l = [p, q] ∧ p.ens = -1 ∧ q.ens = 0 := by
  cases l with
  | nil => simp at h
  | cons p l =>
    cases l with
    | nil => simp at h
    | cons q l =>
      cases l with
      | nil =>
        simp only [List.map_cons, List.map_nil, List.cons.injEq, and_true] at h
        exact ⟨p, q, rfl, h.1, h.2⟩
      | cons r l => simp at h

/-- **A job holds one ensemble, or exactly `[0-]` and `[0+]`; in the latter case both stay locked
    as long as the job is in flight.** -/
theorem zero_swap_holds_both (y0 y : Sys) (evs : List Ev) (h0 : Init y0) (hr : run y0 evs = .ok y)
    (j : Job) (hj : j ∈ y.jobs) :
    j.picked.length = 1 ∨
      (j.picked.map (·.ens) = [-1, 0] ∧ y.s.locks[0]? = some true ∧ y.s.locks[1]? = some true) := by
  have hi := reach_inv h0 hr
  rcases (hi.jobs j hj).shape with h1 | h2
  · exact Or.inl h1
  · obtain ⟨p, q, hpk, hp, hq⟩ := two_of_ens j.picked h2
    have hmem : ∀ r ∈ j.picked, y.s.locks[slotOf r]? = some true := by
      intro r hr
      apply hi.core.held_locked _ r.pn
      simp only [held, List.mem_flatMap]
      exact ⟨j, hj, List.mem_map.mpr ⟨r, hr, rfl⟩⟩
    refine Or.inr ⟨h2, ?_, ?_⟩
    · simpa [slotOf, hp] using hmem p (by rw [hpk]; simp)
    · simpa [slotOf, hq] using hmem q (by rw [hpk]; simp)

example : (exAt 3).jobs.map (fun j => j.picked.map (·.ens)) = [[-1, 0], [1]]
    ∧ (exAt 3).s.locks[0]? = some true ∧ (exAt 3).s.locks[1]? = some true := by decide +kernel

/-- **A zero swap is only started when both `[0-]` and `[0+]` are idle.**  For every call of
    `prep_md_items` (on any state whose weight matrix has one row per lock flag and which has no
    restart jobs to re-issue — true of every state the scheduler calls it on, see `prep_state_ok`):
    if the job it returns holds two ensembles, slots 0 and 1 were both unlocked when it was called. -/
theorem zero_swap_needs_both_idle (s s' : St) (prev : Option Nat) (o : PickOutcome) (saved : Nat)
    (job : Job) (ds : List Draw) (hW : s.W.length = s.locks.length) (h0 : s.locked0 = [])
    (hp : prep s prev o saved = .ok (s', job, ds)) (h2 : job.picked.length = 2) :
    s.locks[0]? = some false ∧ s.locks[1]? = some false :=
  prep_two_idle prev o saved job ds hW h0 hp h2

/-- the side conditions of `zero_swap_needs_both_idle` hold in every reachable scheduler state -/
theorem prep_state_ok (y0 y : Sys) (evs : List Ev) (h0 : Init y0) (hr : run y0 evs = .ok y) :
    y.s.W.length = y.s.locks.length ∧ y.s.locked0 = [] := by
  have hi := reach_inv h0 hr
  exact ⟨by rw [hi.core.lenW, hi.core.lenL], hi.core.l0⟩

/-- the same at the level of the scheduler: a `start` event that submits a two-ensemble job found
    both slots unlocked -/
theorem zero_swap_start_needs_both_idle (y0 y y' : Sys) (evs : List Ev) (h0 : Init y0)
    (hr : run y0 evs = .ok y) (o : PickOutcome) (saved : Nat)
    (hs : sysStep y (.start o saved) = .ok y') (job : Job) (hl : y'.jobs.getLast? = some job)
    (h2 : job.picked.length = 2) : y.s.locks[0]? = some false ∧ y.s.locks[1]? = some false := by
  obtain ⟨hW, hl0⟩ := prep_state_ok y0 y evs h0 hr
  unfold sysStep at hs
  rcases initiate_cases y.s with ⟨hin, _⟩ | ⟨ti, _, hin⟩
  · rw [hin] at hs; simp at hs
  rw [hin] at hs
  simp only [] at hs
  split at hs
  · exact absurd hs (by simp)
  split at hs
  · exact absurd hs (by simp)
  rename_i s2 job' ds hprep
  simp only [Except.ok.injEq] at hs
  subst hs
  simp only [List.getLast?_append, List.getLast?_singleton, Option.some_or, Option.some.injEq] at hl
  subst hl
  have key := fun hW hl0 => prep_two_idle none o saved job' ds hW hl0 hprep h2
  exact key hW hl0

example : exSys.s.locks[0]? = some false ∧ exSys.s.locks[1]? = some false
    ∧ sysStep exSys (.start { t := 0, e := 0, coin := true, partner := 1 }) = .ok (exAt 1)
    ∧ (exAt 1).jobs.map (fun j => j.picked.length) = [2] := by decide +kernel

/-- … and in the main loop: if the job submitted by a `step` event holds two ensembles, then each of
    `[0-]` (slot 0) and `[0+]` (slot 1) was, before the event, either idle or held by the very job
    whose completion the event processes (`treat_output` released it before the new pick). -/
theorem zero_swap_step_needs_both_idle (y0 y y' : Sys) (evs : List Ev) (h0 : Init y0)
    (hr : run y0 evs = .ok y) (k : Nat) (status : Status) (newW : List (List Rat)) (o : PickOutcome)
    (hs : sysStep y (.step k status newW o) = .ok y') (job' : Job)
    (hnew : y'.jobs = y.jobs.eraseIdx k ++ [job']) (h2 : job'.picked.length = 2) :
    ∃ job, y.jobs[k]? = some job ∧ ∀ e, e = 0 ∨ e = 1 →
      (y.s.locks[e]? = some false ∨ ∃ p ∈ job.picked, slotOf p = e) :=
  step_two_idle (reach_inv h0 hr) k status newW o hs job' hnew h2

/-- a `step` event that resubmits a zero swap: the completing job is the first zero swap -/
def exZ : Except Repex.Err Sys :=
  sysStep (exAt 3) (.step 0 .acc [[1], [1, 1, 0]] { t := 0, e := 0, coin := true, partner := 1 })

example : run exSys (exEvs.take 3) = .ok (exAt 3)
    ∧ (exZ.toOption.map (fun y' => y'.jobs.map (fun j => j.picked.map (fun p => (p.ens, p.pn)))))
        = some [[(1, 2)], [(-1, 3), (0, 4)]]
    ∧ (exAt 3).s.locks = [true, true, true, true]
    ∧ ((exAt 3).jobs[0]?.map (fun j => j.picked.map slotOf)) = some [0, 1] :=
  ⟨ex_runs 3 (by decide), by decide +kernel, by decide +kernel, by decide +kernel⟩

/-! ## 5. Worker pins, work directories, engine instances -/

/-- **Pins of jobs in flight are pairwise distinct.** -/
theorem pins_distinct (y0 y : Sys) (evs : List Ev) (h0 : Init y0) (hr : run y0 evs = .ok y) :
    (y.jobs.map (·.pin)).Nodup :=
  (reach_inv h0 hr).pins

/-- **No two jobs in flight share a work directory**: the folder is `worker<pin>` of the job's own
    pin, and the folders of jobs in flight are pairwise distinct. -/
theorem wfolder_exclusive (y0 y : Sys) (evs : List Ev) (h0 : Init y0) (hr : run y0 evs = .ok y) :
    (∀ j ∈ y.jobs, j.wfolder = j.pin) ∧ (y.jobs.map (·.wfolder)).Nodup := by
  have hi := reach_inv h0 hr
  refine ⟨fun j hj => (hi.jobs j hj).wf, ?_⟩
  have : y.jobs.map (·.wfolder) = y.jobs.map (·.pin) :=
    List.map_congr_left (fun j hj => (hi.jobs j hj).wf)
  rw [this]
  exact hi.pins

example : (exAt 5).jobs.map (fun j => (j.pin, j.wfolder)) = [(0, 0), (1, 1)]
    ∧ (exAt 4).jobs.map (fun j => (j.pin, j.wfolder)) = [(1, 1), (0, 0)] := by decide +kernel

/-- every engine instance listed by a job in flight is marked in `engine_occ` with that job's pin -/
theorem engine_cell_owned (y0 y : Sys) (evs : List Ev) (h0 : Init y0) (hr : run y0 evs = .ok y)
    (j : Job) (hj : j ∈ y.jobs) (p : Picked) (hp : p ∈ j.picked) (ki : Nat × Nat) (hki : ki ∈ p.engIdx) :
    cell y.s.occ ki.1 ki.2 = some (j.pin : Int) :=
  (reach_inv h0 hr).eng j hj p hp ki hki

/-- **No two jobs in flight share an engine instance**: if the jobs at positions `i1` and `i2` of
    the in-flight list both list the instance `(engine type, index)`, then `i1 = i2`. -/
theorem engine_instance_exclusive (y0 y : Sys) (evs : List Ev) (h0 : Init y0) (hr : run y0 evs = .ok y)
    (i1 i2 : Nat) (j1 j2 : Job) (h1 : y.jobs[i1]? = some j1) (h2 : y.jobs[i2]? = some j2)
    (p1 p2 : Picked) (hp1 : p1 ∈ j1.picked) (hp2 : p2 ∈ j2.picked) (ki : Nat × Nat)
    (hk1 : ki ∈ p1.engIdx) (hk2 : ki ∈ p2.engIdx) : i1 = i2 := by
  have hi := reach_inv h0 hr
  have c1 := hi.eng j1 (List.mem_of_getElem? h1) p1 hp1 ki hk1
  have c2 := hi.eng j2 (List.mem_of_getElem? h2) p2 hp2 ki hk2
  rw [c1] at c2
  have hpin : j1.pin = j2.pin := by simpa using c2
  have hn := hi.pins
  have hl1 := getElem?_lt_of_some _ _ _ h1
  have hl2 := getElem?_lt_of_some _ _ _ h2
  have e1 : (y.jobs.map (·.pin))[i1]? = some j1.pin := by simp [h1]
  have e2 : (y.jobs.map (·.pin))[i2]? = some j1.pin := by simp [h2, hpin]
  exact (List.getElem?_inj (by simpa using hl1) hn).mp (e1.trans e2.symm)

example : (exAt 5).jobs.map (fun j => j.picked.map (·.engIdx)) = [[[(0, 0)]], [[(0, 1)]]]
    ∧ (exAt 5).s.occ = [[0, 1]] := by decide +kernel

/-! ## 6. A free engine instance is always found

`engine_always_available`: with `min(count_k, workers)` instances of every engine type `k`, as
`create_engines` builds them (`EngInit.sized`; `count_k` = `countK` = number of ensembles whose engine
list contains `k`, which is ≤ the number of occurrences `create_engines` counts), every ensemble
having at least one engine type and all types present in `engine_occ` (`EngInit.engOk`, enforced by
`check_config`), and all cells free at the start: along every scheduler-shaped history
`assign_engines` serves every engine type of the picked ensembles, i.e. `prep_md_items` never raises
in its engine part.

Counting argument: after the worker's own cells are freed every occupied cell of type `k` belongs to
another worker with a job in flight that uses `k`; such workers are pairwise distinct, `< workers`
and different from the one being served (≤ `workers − 1` of them), occupy one `k` cell each, and hold
pairwise distinct ensembles listing `k`, none of which is the ensemble just picked (≤ `count_k − 1`).

"Scheduler-shaped" = what `scheduler()` does: `start` events only, then the closing `initiate()`
call, then `step` events only.  The restriction is needed: `run` also allows a `start` after a
`step`, which `scheduler()` never produces; a worker that completed without being resubmitted keeps
its engine cells (they are only freed by the same worker's next `prep_md_items`), so a later `start`
could find a type exhausted.

The conclusion is phrased as "the event fails only if one of its non-engine parts fails":
`pickPart` is `pick_lock()` / `pick()` — the part of `prep_md_items` before `assign_engines`. -/

/-- **During initiation** (after any number of `start` events): if `initiate()` answers yes and the
    pick succeeds, the whole `start` event succeeds — `assign_engines` found an instance of every
    engine type of the picked ensembles. -/
theorem engine_always_available_start (y0 y : Sys) (starts : List Ev) (h0 : Init y0)
    (hE : EngInit y0) (hs : ∀ ev ∈ starts, isStart ev = true) (hr : run y0 starts = .ok y)
    (o : PickOutcome) (saved : Nat) (s1 : St) (hgo : initiate y.s = (s1, true))
    (s1' : St) (ps : List Picked) (ds : List Draw) (hpick : pickPart s1 o saved = .ok (s1', ps, ds)) :
    ∃ y', sysStep y (.start o saved) = .ok y' :=
  start_available (run_starts_E starts hs (EInv.ofInit h0 hE) hr) o saved s1 hgo s1' ps ds hpick

/-- **In the main loop** (after the starts, the closing `initiate()` and any number of `step`
    events, in any completion order): if `loop()` answers yes, `treat_output` succeeds, the scheduler
    resubmits (`cstep + workers ≤ tsteps`) and the pick succeeds, the whole `step` event succeeds. -/
theorem engine_always_available_step (y0 y : Sys) (starts steps : List Ev) (h0 : Init y0)
    (hE : EngInit y0) (hs : ∀ ev ∈ starts, isStart ev = true) (ht : ∀ ev ∈ steps, isStep ev = true)
    (hr : run y0 (starts ++ .initDone :: steps) = .ok y)
    (k : Nat) (status : Status) (newW : List (List Rat)) (o : PickOutcome) (job : Job)
    (hj : y.jobs[k]? = some job) (s1 : St) (hloop : loop y.s = (s1, true))
    (s2 : St) (pns : List Nat) (it : Nat)
    (htr : treatOutput s1 job status newW (sortFuel s1) = .ok (s2, pns, it))
    (hre : s2.cstep + s2.workers ≤ s2.tsteps) (s3 : St) (ps : List Picked) (ds : List Draw)
    (hpick : pickPart s2 o 0 = .ok (s3, ps, ds)) :
    ∃ y', sysStep y (.step k status newW o) = .ok y' := by
  obtain ⟨he, hph⟩ := einv_of_shaped h0 hE starts steps hs ht hr
  have hlt : y.s.toinitiate < 0 := by
    rcases hph with h1 | h1
    · exact h1
    · exfalso
      unfold loop at hloop
      rw [if_pos (by omega)] at hloop
      simp at hloop
  exact step_available he hlt k status newW o job hj s1 hloop s2 pns it htr hre s3 ps ds hpick

theorem ex_engInit : EngInit exSys := by
  have hocc : exSys.s.occ = [[-1, -1]] := by decide +kernel
  have hens : exSys.s.ensEng = [[0], [0], [0]] := by decide +kernel
  have hn : exSys.s.n = 4 := by decide +kernel
  have hw : exSys.s.workers = 2 := by decide +kernel
  constructor
  · intro k i x hx
    rw [hocc] at hx
    match k, i with
    | 0, 0 => simpa [cell] using hx.symm
    | 0, 1 => simpa [cell] using hx.symm
    | 0, i + 2 => simp [cell] at hx
    | k + 1, i => simp [cell] at hx
  · intro k l hl
    rw [hocc] at hl
    rw [hw, hens, hn]
    match k with
    | 0 => simp at hl; subst hl; decide
    | k + 1 => simp at hl
  · intro e he
    rw [hn] at he
    rw [hens, hocc]
    match e, he with
    | 0, _ => exact ⟨by decide, fun k hk => by simp at hk; subst hk; exact ⟨_, rfl⟩⟩
    | 1, _ => exact ⟨by decide, fun k hk => by simp at hk; subst hk; exact ⟨_, rfl⟩⟩
    | 2, _ => exact ⟨by decide, fun k hk => by simp at hk; subst hk; exact ⟨_, rfl⟩⟩

example : Init exSys ∧ EngInit exSys ∧ run exSys (exEvs.take 1) = .ok (exAt 1)
    ∧ (initiate (exAt 1).s).2 = true
    ∧ (pickPart (initiate (exAt 1).s).1 { t := 2, e := 2 } 0).toBool = true :=
  ⟨ex_init, ex_engInit, ex_runs 1 (by decide), by decide +kernel, by decide +kernel⟩

/-- the hypotheses of the step form on the concrete history, at the moment the zero swap completes -/
def exStepCheck : Bool :=
  match (exAt 3).jobs[0]?, loop (exAt 3).s with
  | some job, (s1, true) =>
    match treatOutput s1 job .acc [[1], [1, 1, 0]] (sortFuel s1) with
    | .ok (s2, _, _) =>
      decide (s2.cstep + s2.workers ≤ s2.tsteps) && (pickPart s2 { t := 0, e := 0, coin := false } 0).toBool
    | .error _ => false
  | _, _ => false

example : exEvs.take 3 = exEvs.take 2 ++ .initDone :: [] ∧ run exSys (exEvs.take 3) = .ok (exAt 3)
    ∧ exStepCheck = true := ⟨rfl, ex_runs 3 (by decide), by decide +kernel⟩

/-! a second configuration where `min(count_k, workers) < workers` matters: engine type 0 is used by
`[0-]` only (one instance), type 1 by `[0+]` and `[1+]` (two instances), two workers -/

def exPaths : List (Nat × List Rat × List Rat) :=
  [(0, [1], [0,0,0,0]), (1, [1,1,0], [0,0,0,0]), (2, [1,1,0], [0,0,0,0])]

def exBlank2 : St := blank 4 2 10 0 3 0 [[-1], [-1, -1]] [[0], [1], [1]] false []

def exS2 : St :=
  match loadPaths exBlank2 exPaths with
  | .ok s => s
  | .error _ => exBlank2

def exSys2 : Sys := { s := exS2, jobs := [] }

theorem ex_init2 : Init exSys2 :=
  fresh_start_is_init 4 2 10 0 3 0 [[-1], [-1, -1]] [[0], [1], [1]] false exPaths exS2 (by decide)
    (by decide) (by decide) (by decide) (by decide +kernel)

theorem ex_engInit2 : EngInit exSys2 := by
  have hocc : exSys2.s.occ = [[-1], [-1, -1]] := by decide +kernel
  have hens : exSys2.s.ensEng = [[0], [1], [1]] := by decide +kernel
  have hn : exSys2.s.n = 4 := by decide +kernel
  have hw : exSys2.s.workers = 2 := by decide +kernel
  constructor
  · intro k i x hx
    rw [hocc] at hx
    match k, i with
    | 0, 0 => simpa [cell] using hx.symm
    | 0, i + 1 => simp [cell] at hx
    | 1, 0 => simpa [cell] using hx.symm
    | 1, 1 => simpa [cell] using hx.symm
    | 1, i + 2 => simp [cell] at hx
    | k + 2, i => simp [cell] at hx
  · intro k l hl
    rw [hocc] at hl
    rw [hw, hens, hn]
    match k with
    | 0 => simp at hl; subst hl; decide
    | 1 => simp at hl; subst hl; decide
    | k + 2 => simp at hl
  · intro e he
    rw [hn] at he
    rw [hens, hocc]
    match e, he with
    | 0, _ => exact ⟨by decide, fun k hk => by simp at hk; subst hk; exact ⟨_, rfl⟩⟩
    | 1, _ => exact ⟨by decide, fun k hk => by simp at hk; subst hk; exact ⟨_, rfl⟩⟩
    | 2, _ => exact ⟨by decide, fun k hk => by simp at hk; subst hk; exact ⟨_, rfl⟩⟩

def exEvs2 : List Ev :=
  [ .start { t := 0, e := 0, coin := false }, .start { t := 1, e := 1 }, .initDone,
    .step 0 .acc [[1]] { t := 0, e := 0, coin := false } ]

example : countK exSys2.s.ensEng exSys2.s.n 0 = 1 ∧ exSys2.s.workers = 2
    ∧ exEvs2 = [.start { t := 0, e := 0, coin := false }, .start { t := 1, e := 1 }] ++ .initDone ::
        [.step 0 .acc [[1]] { t := 0, e := 0, coin := false }]
    ∧ (run exSys2 exEvs2).toBool = true
    ∧ ((run exSys2 exEvs2).toOption.map (fun y => y.s.occ)) = some [[0], [1, -1]] :=
  ⟨by decide +kernel, by decide +kernel, rfl, by decide +kernel, by decide +kernel⟩

/-! ## 7. The same across restarts

`InitR y0`: the state after a RESTART (`restart.toml` read back, paths re-loaded): every ensemble
slot idle and holding its own path, nothing in flight, `locked0` = the jobs that were in flight at
the stop — recorded slots pairwise distinct, each recorded path in its recorded slot with non-zero
weight there, each record one ensemble or `[0-],[0+]` — to be re-issued by `pick_lock` one by one
while `toinitiate ≥ 0`.  `Start y0 := Init y0 ∨ InitR y0`.

`restart_is_initR` / `restart_closed`: restoring the image `persist y.s` of ANY state `y` reachable
from a `Start` state (same number of slots; any workers, steps, engine table, recomputed weights;
`load_paths` not raising) gives an `InitR` state again.  So the `_restart` theorems below hold at every
instant of every chain  fresh start → run → stop → restart → run → stop → restart → …

Invariant (`InvR`, RepexC03RSys): as `Inv`, and as long as `toinitiate ≥ 0` the recorded jobs still
to be re-issued are "reserved": their slots are idle and keep their recorded paths — nothing can
take them, because while `toinitiate ≥ 0` every `prep_md_items` goes through `pick_lock`, which
re-issues the next record before it ever draws a fresh pick, `treat_output` only touches locked
slots, and `sort_trajstate` only moves paths once `toinitiate = −1`.  The re-issue itself finds the
recorded path in its recorded slot (live paths are distinct), so its swap is the identity and it
locks exactly the recorded slots.  Records left over when `toinitiate` drops below 0 (fewer workers
than records, or the early close of `initiate`) are never re-issued and carry no obligation.
The fresh-start theorems of sections 1–5 are the special case `Start y0` by `Init y0`.
Engine availability (section 6) is proved for fresh starts only. -/

/-- **A restart from the restart file of any reachable state is an `InitR` state** (load success as
    hypothesis; the C05 package proves it from the weight family). -/
theorem restart_is_initR (y0 y : Sys) (evs : List Ev) (h0 : Start y0) (hl : y0.s.locked = [])
    (hj : y0.jobs = []) (hr : run y0 evs = .ok y) (workers tsteps : Nat) (occ : List (List Int))
    (ensEng : List (List Nat)) (weightOf : Nat → List Rat) (s' : St)
    (h : restore (persist y.s) y.s.n workers tsteps occ ensEng weightOf = .ok s') :
    InitR { s := s', jobs := [] } :=
  restore_of_reachable_is_initR y0 y evs h0 hl hj hr workers tsteps occ ensEng weightOf s' h

/-- the class of start states with an empty record is closed under run-stop-restart: this is the
    induction step over chains of restarts -/
theorem restart_closed (y0 y : Sys) (evs : List Ev) (h0 : Start y0) (hl : y0.s.locked = [])
    (hj : y0.jobs = []) (hr : run y0 evs = .ok y) (workers tsteps : Nat) (occ : List (List Int))
    (ensEng : List (List Nat)) (weightOf : Nat → List Rat) (s' : St)
    (h : restore (persist y.s) y.s.n workers tsteps occ ensEng weightOf = .ok s') :
    Start { s := s', jobs := [] } ∧ ({ s := s', jobs := [] } : Sys).s.locked = [] ∧
      ({ s := s', jobs := [] } : Sys).jobs = [] := by
  have hR := restart_is_initR y0 y evs h0 hl hj hr workers tsteps occ ensEng weightOf s' h
  exact ⟨Or.inr hR, hR.locked, rfl⟩

/-! a concrete restart: the history of section 0 is stopped after its first event (worker 0 holds
the zero swap `[0-],[0+]` with paths 0, 1), the restart file is read back with 2 workers; then
worker 0 gets the recorded zero swap re-issued, worker 1 starts `[1+]`, initiation closes, the zero
swap completes ACCEPTED and worker 0 restarts on `[0-]`. -/

def exWeight (pn : Nat) : List Rat := if pn = 0 then [1] else [1, 1, 0]

def exR : St :=
  match restore (persist (exAt 1).s) (exAt 1).s.n 2 10 [[-1, -1]] [[0], [0], [0]] exWeight with
  | .ok s => s
  | .error _ => exBlank

def exSysR : Sys := { s := exR, jobs := [] }

def exEvsR : List Ev :=
  [ .start { t := 3, e := 3 },          -- re-issue: the outcome of the (not requested) draw is ignored
    .start { t := 2, e := 2 },
    .initDone,
    .step 0 .acc [[1], [1, 1, 0]] { t := 0, e := 0, coin := false } ]

def exRAt (k : Nat) : Sys :=
  match run exSysR (exEvsR.take k) with
  | .ok y => y
  | .error _ => exSysR

theorem ex_initR : InitR exSysR :=
  restart_is_initR exSys (exAt 1) (exEvs.take 1) (Or.inl ex_init) (by decide +kernel) rfl
    (ex_runs 1 (by decide)) 2 10 [[-1, -1]] [[0], [0], [0]] exWeight exR (by decide +kernel)

theorem ex_runsR (k : Nat) (hk : k ≤ 4) : run exSysR (exEvsR.take k) = .ok (exRAt k) := by
  match k, hk with
  | 0, _ => decide +kernel
  | 1, _ => decide +kernel
  | 2, _ => decide +kernel
  | 3, _ => decide +kernel
  | 4, _ => decide +kernel

example : exSysR.s.locked0 = [([0, 1], [0, 1])] ∧ exSysR.s.locks = [false, false, false, true]
    ∧ exSysR.s.trajs = [some 0, some 1, some 2, none] ∧ exSysR.s.restarted = true := by
  decide +kernel

/-- a second restart in the chain: stop the restarted run after two events, restore again -/
def exR2 : St :=
  match restore (persist (exRAt 2).s) (exRAt 2).s.n 2 10 [[-1, -1]] [[0], [0], [0]] exWeight with
  | .ok s => s
  | .error _ => exBlank

theorem ex_initR2 : InitR { s := exR2, jobs := [] } :=
  restart_is_initR exSysR (exRAt 2) (exEvsR.take 2) (Or.inr ex_initR) (by decide +kernel) rfl
    (ex_runsR 2 (by decide)) 2 10 [[-1, -1]] [[0], [0], [0]] exWeight exR2 (by decide +kernel)

example : exR2.locked0 = [([0, 1], [0, 1]), ([2], [2])] ∧ exR2.locks = [false, false, false, true] := by
  decide +kernel

/-- no ensemble is held twice — before or after any number of restarts -/
theorem inflight_ens_disjoint_restart (y0 y : Sys) (evs : List Ev) (h0 : Start y0) (hr : run y0 evs = .ok y) :
    ((inflight y.jobs).map (·.ens)).Nodup := by
  have hi := reach_invR h0 hr
  have hn := hi.core.nodup
  rw [held_eq, List.map_map] at hn
  exact nodup_map_of_nodup_map (fun p => slotOf p) (·.ens) _ hn
    (fun x _ y _ h => by simp only [slotOf]; rw [h])

/-- no path is held twice — before or after any number of restarts -/
theorem inflight_paths_disjoint_restart (y0 y : Sys) (evs : List Ev) (h0 : Start y0) (hr : run y0 evs = .ok y) :
    ((inflight y.jobs).map (·.pn)).Nodup := by
  have hi := reach_invR h0 hr
  have hc := hi.core
  have hn := hc.nodup
  have : (inflight y.jobs).map (·.pn) = (held y.jobs).map Prod.snd := by
    rw [held_eq, List.map_map]; rfl
  rw [this]
  refine nodup_map_of_nodup_map Prod.fst Prod.snd _ hn ?_
  intro x hx z hz hxz
  obtain ⟨e1, p1⟩ := x
  obtain ⟨e2, p2⟩ := z
  simp only at hxz
  subst hxz
  obtain ⟨h1, h2, _⟩ := hc.heldOk e1 p1 hx
  obtain ⟨h3, h4, _⟩ := hc.heldOk e2 p1 hz
  exact hc.inj e1 e2 p1 h1 h3 h2 h4

/-- all live paths are distinct — before or after any number of restarts -/
theorem live_paths_distinct_restart (y0 y : Sys) (evs : List Ev) (h0 : Start y0) (hr : run y0 evs = .ok y) :
    (∀ e, e < y.s.n - 1 → ∃ pn, y.s.trajs[e]? = some (some pn) ∧ pn < y.s.trajNum) ∧
    (∀ a b pn, a < y.s.n - 1 → b < y.s.n - 1 →
      y.s.trajs[a]? = some (some pn) → y.s.trajs[b]? = some (some pn) → a = b) :=
  ⟨(reach_invR h0 hr).core.live, (reach_invR h0 hr).core.inj⟩

/-- busy ⇔ in flight — before or after any number of restarts (recorded jobs not yet re-issued are
    idle: they are not in flight) -/
theorem locks_iff_inflight_restart (y0 y : Sys) (evs : List Ev) (h0 : Start y0) (hr : run y0 evs = .ok y) :
    y.s.locks.length = y.s.n ∧ y.s.locks[y.s.n - 1]? = some true ∧
    ∀ e, e < y.s.n - 1 →
      (y.s.locks[e]? = some true ↔ ∃ j ∈ y.jobs, ∃ p ∈ j.picked, p.ens = (e : Int) - 1) := by
  have hi := reach_invR h0 hr
  refine ⟨hi.core.lenL, hi.core.ghost, ?_⟩
  intro e he
  rw [hi.core.busy e he]
  simp only [held, heldJob, List.map_flatMap, List.map_map, List.mem_flatMap, List.mem_map,
    Function.comp_apply]
  constructor
  · rintro ⟨j, hj, p, hp, hs⟩
    refine ⟨j, hj, p, hp, ?_⟩
    have := (hi.jobs j hj).ensGe p hp
    simp only [slotOf] at hs
    omega
  · rintro ⟨j, hj, p, hp, hs⟩
    refine ⟨j, hj, p, hp, ?_⟩
    simp only [slotOf]
    omega

/-- an unlocked slot is held by nobody — before or after any number of restarts -/
theorem idle_not_held_restart (y0 y : Sys) (evs : List Ev) (h0 : Start y0) (hr : run y0 evs = .ok y)
    (e : Nat) (he : y.s.locks[e]? = some false) : ∀ p ∈ inflight y.jobs, slotOf p ≠ e := by
  have hi := reach_invR h0 hr
  have hlt := hi.core.unlocked_lt e he
  intro p hp hs
  have : e ∈ (held y.jobs).map Prod.fst := by
    rw [held_eq, List.map_map]
    exact List.mem_map.mpr ⟨p, hp, hs⟩
  rw [← hi.core.busy e hlt, he] at this
  exact absurd this (by simp)

/-- the held path sits in the job's slot with non-zero weight — also for re-issued jobs -/
theorem picked_weight_nonzero_restart (y0 y : Sys) (evs : List Ev) (h0 : Start y0) (hr : run y0 evs = .ok y)
    (j : Job) (hj : j ∈ y.jobs) (p : Picked) (hp : p ∈ j.picked) :
    slotOf p < y.s.n - 1 ∧ y.s.trajs[slotOf p]? = some (some p.pn) ∧
      entryM y.s.W (slotOf p) (slotOf p) ≠ 0 := by
  have hi := reach_invR h0 hr
  apply hi.core.heldOk
  simp only [held, List.mem_flatMap]
  exact ⟨j, hj, List.mem_map.mpr ⟨p, hp, rfl⟩⟩

/-- one ensemble or exactly `[0-],[0+]`, both locked while in flight — also for re-issued jobs -/
theorem zero_swap_holds_both_restart (y0 y : Sys) (evs : List Ev) (h0 : Start y0) (hr : run y0 evs = .ok y)
    (j : Job) (hj : j ∈ y.jobs) :
    j.picked.length = 1 ∨
      (j.picked.map (·.ens) = [-1, 0] ∧ y.s.locks[0]? = some true ∧ y.s.locks[1]? = some true) := by
  have hi := reach_invR h0 hr
  rcases (hi.jobs j hj).shape with h1 | h2
  · exact Or.inl h1
  · obtain ⟨p, q, hpk, hp, hq⟩ := two_of_ens j.picked h2
    have hmem : ∀ r ∈ j.picked, y.s.locks[slotOf r]? = some true := by
      intro r hr
      apply hi.core.held_locked _ r.pn
      simp only [held, List.mem_flatMap]
      exact ⟨j, hj, List.mem_map.mpr ⟨r, hr, rfl⟩⟩
    refine Or.inr ⟨h2, ?_, ?_⟩
    · simpa [slotOf, hp] using hmem p (by rw [hpk]; simp)
    · simpa [slotOf, hq] using hmem q (by rw [hpk]; simp)

/-- pins of jobs in flight are pairwise distinct — before or after any number of restarts -/
theorem pins_distinct_restart (y0 y : Sys) (evs : List Ev) (h0 : Start y0) (hr : run y0 evs = .ok y) :
    (y.jobs.map (·.pin)).Nodup :=
  (reach_invR h0 hr).pins

/-- no shared work directory — before or after any number of restarts -/
theorem wfolder_exclusive_restart (y0 y : Sys) (evs : List Ev) (h0 : Start y0) (hr : run y0 evs = .ok y) :
    (∀ j ∈ y.jobs, j.wfolder = j.pin) ∧ (y.jobs.map (·.wfolder)).Nodup := by
  have hi := reach_invR h0 hr
  refine ⟨fun j hj => (hi.jobs j hj).wf, ?_⟩
  have : y.jobs.map (·.wfolder) = y.jobs.map (·.pin) :=
    List.map_congr_left (fun j hj => (hi.jobs j hj).wf)
  rw [this]
  exact hi.pins

/-- listed engine cells carry the job's pin — before or after any number of restarts -/
theorem engine_cell_owned_restart (y0 y : Sys) (evs : List Ev) (h0 : Start y0) (hr : run y0 evs = .ok y)
    (j : Job) (hj : j ∈ y.jobs) (p : Picked) (hp : p ∈ j.picked) (ki : Nat × Nat) (hki : ki ∈ p.engIdx) :
    cell y.s.occ ki.1 ki.2 = some (j.pin : Int) :=
  (reach_invR h0 hr).eng j hj p hp ki hki

/-- no shared engine instance — before or after any number of restarts -/
theorem engine_instance_exclusive_restart (y0 y : Sys) (evs : List Ev) (h0 : Start y0) (hr : run y0 evs = .ok y)
    (i1 i2 : Nat) (j1 j2 : Job) (h1 : y.jobs[i1]? = some j1) (h2 : y.jobs[i2]? = some j2)
    (p1 p2 : Picked) (hp1 : p1 ∈ j1.picked) (hp2 : p2 ∈ j2.picked) (ki : Nat × Nat)
    (hk1 : ki ∈ p1.engIdx) (hk2 : ki ∈ p2.engIdx) : i1 = i2 := by
  have hi := reach_invR h0 hr
  have c1 := hi.eng j1 (List.mem_of_getElem? h1) p1 hp1 ki hk1
  have c2 := hi.eng j2 (List.mem_of_getElem? h2) p2 hp2 ki hk2
  rw [c1] at c2
  have hpin : j1.pin = j2.pin := by simpa using c2
  have hn := hi.pins
  have hl1 := getElem?_lt_of_some _ _ _ h1
  have hl2 := getElem?_lt_of_some _ _ _ h2
  have e1 : (y.jobs.map (·.pin))[i1]? = some j1.pin := by simp [h1]
  have e2 : (y.jobs.map (·.pin))[i2]? = some j1.pin := by simp [h2, hpin]
  exact (List.getElem?_inj (by simpa using hl1) hn).mp (e1.trans e2.symm)

example : Start exSysR ∧ run exSysR (exEvsR.take 1) = .ok (exRAt 1)
    ∧ (exRAt 1).jobs.map (fun j => j.picked.map (fun p => (p.ens, p.pn))) = [[(-1, 0), (0, 1)]]
    ∧ (exRAt 1).s.locks = [true, true, false, true] ∧ (exRAt 1).s.locked0 = []
    ∧ (exRAt 1).s.locked = [([-1, 0], [0, 1])] :=
  ⟨Or.inr ex_initR, ex_runsR 1 (by decide), by decide +kernel, by decide +kernel, by decide +kernel,
    by decide +kernel⟩

example : run exSysR exEvsR = .ok (exRAt 4)
    ∧ (inflight (exRAt 4).jobs).map (fun p => (p.ens, p.pn)) = [(1, 2), (-1, 3)]
    ∧ (exRAt 4).s.locks = [true, false, true, true]
    ∧ (exRAt 4).jobs.map (fun j => (j.pin, j.wfolder)) = [(1, 1), (0, 0)]
    ∧ (exRAt 4).s.occ = [[0, 1]] :=
  ⟨ex_runsR 4 (by decide), by decide +kernel, by decide +kernel, by decide +kernel, by decide +kernel⟩

theorem pickShape_two {locks : List Bool} {ps : List Picked} (h : PickShape locks ps) (h2 : ps.length = 2) :
    locks[0]? = some false ∧ locks[1]? = some false := by
  rcases h with h1 | h1
  · omega
  · exact h1.2

/-- **a zero swap is only started when both `[0-]` and `[0+]` are idle — also across restarts**, and
    also when the job is a recorded zero swap being re-issued (its two slots are reserved, hence idle):
    a `start` event that submits a two-ensemble job found slots 0 and 1 unlocked. -/
theorem zero_swap_start_needs_both_idle_restart (y0 y y' : Sys) (evs : List Ev) (h0 : Start y0)
    (hr : run y0 evs = .ok y) (o : PickOutcome) (saved : Nat)
    (hs : sysStep y (.start o saved) = .ok y') (job : Job) (hl : y'.jobs.getLast? = some job)
    (h2 : job.picked.length = 2) : y.s.locks[0]? = some false ∧ y.s.locks[1]? = some false := by
  have hi := reach_invR h0 hr
  unfold sysStep at hs
  rcases initiate_cases y.s with ⟨hin, _⟩ | ⟨ti, hti, hin⟩
  · rw [hin] at hs; simp at hs
  rw [hin] at hs
  simp only [] at hs
  split at hs
  · exact absurd hs (by simp)
  rename_i hgo
  have hgo : ti - 1 ≥ 0 := by simpa using hgo
  split at hs
  · exact absurd hs (by simp)
  rename_i s2 job' ds hprep
  simp only [Except.ok.injEq] at hs
  subst hs
  simp only [List.getLast?_append, List.getLast?_singleton, Option.some_or, Option.some.injEq] at hl
  subst hl
  have hc1 := hi.core.congrTo
    (s' := { y.s with cworker := ((y.s.workers : Int) - ti).toNat, toinitiate := ti - 1 })
    rfl rfl rfl rfl rfl (by
      show 0 ≤ ti - 1 → 0 ≤ y.s.toinitiate
      rcases hti with h1 | h1 <;> omega)
  have hshape := (prep_specR none o saved job' ds hc1 hprep).2.2.1
  exact pickShape_two hshape h2

/-- … and in the main loop, across restarts (also when the resubmitted job is a re-issued record):
    each of slots 0 and 1 was idle or held by the job whose completion the event processes. -/
theorem zero_swap_step_needs_both_idle_restart (y0 y y' : Sys) (evs : List Ev) (h0 : Start y0)
    (hr : run y0 evs = .ok y) (k : Nat) (status : Status) (newW : List (List Rat)) (o : PickOutcome)
    (hs : sysStep y (.step k status newW o) = .ok y') (job' : Job)
    (hnew : y'.jobs = y.jobs.eraseIdx k ++ [job']) (h2 : job'.picked.length = 2) :
    ∃ job, y.jobs[k]? = some job ∧ ∀ e, e = 0 ∨ e = 1 →
      (y.s.locks[e]? = some false ∨ ∃ p ∈ job.picked, slotOf p = e) := by
  have hi := reach_invR h0 hr
  obtain ⟨job, s1, s2, pns, it, hjob, hloop, htreat, hcase⟩ := step_decompose k status newW o hs
  refine ⟨job, hjob, ?_⟩
  obtain ⟨hle, hltn, _, _, _⟩ := loop_coreEqR y.s
  rw [hloop] at hle hltn
  simp only [] at hle hltn
  have hperm := held_perm_erase y.jobs k job hjob
  have hc1 : CoreR s1 (heldJob job ++ held (y.jobs.eraseIdx k)) s1.trajNum := by
    rw [hltn]
    exact (hi.core.congr hle).perm hperm
  obtain ⟨hc2, _, _, _, _, _, hn2, _, _, _⟩ := treatOutput_coreR job status newW _ pns it hc1 htreat
  rcases hcase with ⟨_, s3, job'', ds, hprep, rfl⟩ | ⟨_, rfl⟩
  · simp only [List.append_cancel_left_eq, List.cons.injEq, and_true] at hnew
    subst hnew
    have hidle := pickShape_two (prep_specR (some job.pin) o 0 job'' ds hc2 hprep).2.2.1 h2
    intro e he
    have he2 : s2.locks[e]? = some false := by
      rcases he with rfl | rfl
      · exact hidle.1
      · exact hidle.2
    have hlt : e < y.s.n - 1 := by
      have := hc2.unlocked_lt e he2
      rw [hn2, hle.n] at this
      exact this
    have hnot : e ∉ (held (y.jobs.eraseIdx k)).map Prod.fst := by
      intro hm
      have := (hc2.busy e (by rw [hn2, hle.n]; exact hlt)).mpr hm
      rw [he2] at this
      exact absurd this (by simp)
    rcases bool_getElem?_cases y.s.locks e (by rw [hi.core.lenL]; omega) with hl | hl
    · right
      have hm := (hi.core.busy e hlt).mp hl
      have hm' : e ∈ (heldJob job ++ held (y.jobs.eraseIdx k)).map Prod.fst :=
        (hperm.map Prod.fst).mem_iff.mp hm
      rw [List.map_append, List.mem_append] at hm'
      rcases hm' with h1 | h1
      · simp only [heldJob, List.map_map, List.mem_map, Function.comp_apply] at h1
        exact h1
      · exact absurd h1 hnot
    · exact Or.inl hl
  · exfalso
    have := congrArg List.length hnew
    simp at this

example : exSysR.s.locks[0]? = some false ∧ exSysR.s.locks[1]? = some false
    ∧ sysStep exSysR (.start { t := 3, e := 3 }) = .ok (exRAt 1)
    ∧ (exRAt 1).jobs.map (fun j => j.picked.length) = [2] := by decide +kernel


/-- **the record the restart file is written from lists exactly the jobs in flight** — at every
    instant of every history from a fresh start or a restart (with an empty record at its start):
    `locked` is a permutation of the (ens_nums, path numbers) of the jobs in flight.  (The
    pop-while-iterating loop of `treat_output` removes exactly the completed job's entry because path
    numbers of jobs in flight are pairwise distinct; `pick` and the re-issue branch append the new
    job's entry.) -/
theorem locked_record_matches_inflight (y0 y : Sys) (evs : List Ev) (h0 : Start y0)
    (hl : y0.s.locked = []) (hj : y0.jobs = []) (hr : run y0 evs = .ok y) :
    y.s.locked.Perm (y.jobs.map (fun j => (j.picked.map (·.ens), j.picked.map (·.pn)))) := by
  have hrec0 : RecInv y0 := by
    unfold RecInv
    rw [hl, hj]
    exact List.Perm.refl _
  exact run_recInv evs h0.inv hrec0 hr

example : (exRAt 2).s.locked = [([-1, 0], [0, 1]), ([1], [2])]
    ∧ (exRAt 2).jobs.map (fun j => (j.picked.map (·.ens), j.picked.map (·.pn))) = [([-1, 0], [0, 1]), ([1], [2])]
    ∧ (exRAt 4).s.locked = [([1], [2]), ([-1], [3])] := by decide +kernel

/-! ## 8. Engine instances are separate objects

The model's engine instance is the pair (engine type, index).  `create_engines` builds, per engine
name, `min(count, workers)` instances one after the other; seen as object identities handed out by a
fresh counter this is `engineIds`, and distinct (type, index) pairs are distinct objects.  That the
real `create_engines` behaves like this (no aliasing of one object over several slots) is checked by
the tie on the real `def_globals` with turtlemd engines (`C03:engine-objects-aliased`,
`C03:engine-object-shared`). -/

/-- object identities of the instances: `sizes[k]` fresh ids for engine type `k`, counter from `next` -/
def engineIds : Nat → List Nat → List (List Nat)
  | _, [] => []
  | next, m :: rest => List.range' next m :: engineIds (next + m) rest

theorem engineIds_flatten : ∀ (sizes : List Nat) (next : Nat),
    (engineIds next sizes).flatten = List.range' next sizes.sum := by
  intro sizes
  induction sizes with
  | nil => intro next; simp [engineIds]
  | cons m rest ih =>
    intro next
    simp only [engineIds, List.flatten_cons, ih, List.sum_cons]
    rw [List.range'_append_1]

/-- one instance slot per requested instance, and all instances of all types are pairwise distinct objects -/
theorem engine_objects_distinct (sizes : List Nat) :
    (engineIds 0 sizes).map List.length = sizes ∧ ((engineIds 0 sizes).flatten).Nodup := by
  constructor
  · suffices h : ∀ (sz : List Nat) (next : Nat), (engineIds next sz).map List.length = sz from h sizes 0
    intro sz
    induction sz with
    | nil => intro next; rfl
    | cons m rest ih => intro next; simp [engineIds, ih]
  · rw [engineIds_flatten]
    exact List.nodup_range'

example : engineIds 0 [3, 2] = [[0, 1, 2], [3, 4]] := by decide

end Infretis.C03
