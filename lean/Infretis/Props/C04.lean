import Infretis.Lemmas.RepexC04C05
import Infretis.Lemmas.RepexC04Crash
import Infretis.Lemmas.RepexC04Resume
import Infretis.Lemmas.RepexC04RHist
import Infretis.Lemmas.RepexC04Finish
import Infretis.Lemmas.RepexC04Np
/-!
# C04 — fractional weights are conserved and accounted for exactly once

Property theorems only (helper lemmas: `Infretis/Lemmas/RepexC04{Rec,Rows,Treat,Check,Frame,Hist,Once,Restart,C05,Crash,Data,Sup,Disk,Start,Chain,Mid,DiskG,Resume}.lean`;
the history theorems use C03's scheduler invariant `Inv` from `RepexC03{Core,Treat,Sys,Init,Load}.lean`).
Model: `Infretis/Model/Repex.lean` (`recordFrac` = the "record weights" loop of `treat_output`,
`writeRows` = `write_to_pathens`, `treatOutput`, the scheduler events `sysStep`/`run`, the restart
image `persist`/`restore`) and `Infretis/Model/DataFile.lean` (§9–§12: the written row `fmtCols`, the data file
as lines, `clean_data_file` = `cleanLines`, `write_toml`'s fraction section `persistD`, the disk `DSys`/`dStep`,
stops `stopDisk`, the restart `restartClean` + `restore`); the swap-probability matrix is the specification
`Perm.probMatrix` (C02 ties `inf_retis` to it).

Vocabulary
* `colTotal l c`     = `Σ_key l[key][c]`     column total of a table of fraction vectors
* `rowsTotal rows c` = the same over the `frac` part of the data-file rows
* `fracAt l k c`     = entry `c` of the vector of path `k`
* `SlotWF s`   slot/lock well-formedness at recording time: `W`, `trajs`, `locks` have `n` entries, the
               ghost (last slot) is locked, every idle slot holds a path, distinct slots hold distinct
               paths.  (All of it is part of C03's invariant `Core`.)
* `Matchable s`  the idle block has a non-zero permanent (C05 shows that the sampler keeps it).
* `FracWF s`   the fraction table has pairwise distinct keys `< trajNum` and vectors of length `n`.
Slots: ensemble `ens_num` lives in slot/column `ens_num + 1`; the last slot/column is the ghost.
-/
namespace Infretis.C04
open Infretis.Repex Infretis.Repex.Frac Infretis.Perm Infretis.Repex.Data

/-! ## 1. One recording adds one unit per idle column -/

/-- **One "record weights" pass.**  On a well-formed matchable state, if `recordFrac s = ok s'`:
    1. every idle column gains exactly 1 in total, every other column (busy, ghost, out of range) 0;
    2. nothing but `frac` changes and the set of keys is the same;
    3. only vectors of idle live paths change;
    4. the vector of the path `pn` sitting in the idle slot `i` gains `probMatrix[i][c]` in entry `c`,
       which is the permanent ratio of the idle block when column `c` is idle, `0` when column `c` is
       not idle, `0` when `W[i][c] = 0`, and `≥ 0` when all weights are `≥ 0`. -/
theorem recordFrac_adds_one_per_idle_column {s s' : St} (wf : SlotWF s) (hM : Matchable s)
    (hk : (s.frac.map Prod.fst).Nodup) (hl : ∀ kv ∈ s.frac, kv.2.length = s.n)
    (h : recordFrac s = .ok s') :
    (∀ c, colTotal s'.frac c - colTotal s.frac c = if s.locks[c]? = some false then 1 else 0) ∧
    s' = { s with frac := s'.frac } ∧ s'.frac.map Prod.fst = s.frac.map Prod.fst ∧
    (∀ k, (∀ i, i < s.n - 1 → s.locks[i]? = some false → s.trajs[i]? ≠ some (some k)) →
        s'.frac.lookup k = s.frac.lookup k) ∧
    (∀ i pn, i < s.n - 1 → s.locks[i]? = some false → s.trajs[i]? = some (some pn) → ∀ c,
        fracAt s'.frac pn c - fracAt s.frac pn c = entry (prob s) i c ∧
        (s.locks[c]? = some false →
          entry (prob s) i c = pSpec (idle s.W s.locks) (rank s.locks i) (rank s.locks c)) ∧
        (s.locks[c]? ≠ some false → entry (prob s) i c = 0) ∧
        (entry s.W i c = 0 → entry (prob s) i c = 0) ∧
        ((∀ r ∈ s.W, ∀ x ∈ r, 0 ≤ x) → 0 ≤ entry (prob s) i c)) := by
  have hW : s.W.length = s.locks.length := by rw [wf.lenW, wf.lenL]
  obtain ⟨h1, h2, _, _, h5, h6⟩ := recordFrac_spec wf hk hl h
  refine ⟨?_, h1, h2, h6, ?_⟩
  · intro c
    rw [recordFrac_col wf hM hk hl h c]
    ring
  · intro i pn hi hli htr c
    refine ⟨?_, ?_, ?_, ?_, ?_⟩
    · rw [h5 i pn hi hli htr c]; ring
    · intro hc; exact probMatrix_idle s.W s.locks hW i c hli hc
    · intro hc; exact probMatrix_zero_of_not_idle s.W s.locks hW i c (Or.inr hc)
    · intro hz; exact probMatrix_zero_of_weight_zero s.W s.locks hW i c hz
    · intro hnn; exact probMatrix_nonneg s.W s.locks hW hnn i c

/-- column sums of the swap-probability matrix itself: 1 for an idle column, else 0 -/
theorem prob_column_sum {s : St} (wf : SlotWF s) (hM : Matchable s) (c : Nat) :
    ((List.range s.n).map (fun i => entry (prob s) i c)).sum
      = if s.locks[c]? = some false then 1 else 0 := by
  have := probMatrix_col_sum s.W s.locks (by rw [wf.lenW, wf.lenL]) hM c
  rw [wf.lenL] at this
  exact this

/-- Example state: 3 ensembles + ghost; `[0-]` (slot 0, path 5) is busy, `[0+]` and `[1+]` idle with
    paths 3 and 4; idle block `[[1,1],[1,2]]`, permanent 3. -/
def exRec : St :=
  { blank 4 2 10 3 6 0 [[-1, -1]] [[0], [0], [0]] false [] with
    W := [[1,0,0,0], [0,1,1,0], [0,1,2,0], [0,0,0,0]],
    trajs := [some 5, some 3, some 4, none],
    locks := [true, false, false, true],
    toinitiate := -1,
    frac := [(3, [0, 1/2, 1/2, 0]), (4, [0, 0, 1, 0]), (5, [1, 0, 0, 0])],
    wts := [(3, [1, 1]), (4, [1, 2]), (5, [1])] }

example : slotOk exRec = true ∧ Matchable exRec ∧ (exRec.frac.map Prod.fst).Nodup ∧
    (∀ kv ∈ exRec.frac, kv.2.length = exRec.n) ∧
    recordFrac exRec = .ok { exRec with
      frac := [(3, [0, 1/2 + 2/3, 1/2 + 1/3, 0]), (4, [0, 1/3, 1 + 2/3, 0]), (5, [1, 0, 0, 0])] } := by
  decide +kernel

/-! ## 2. The data file receives exactly what leaves the table -/

/-- **`write_to_pathens`.**  If `writeRows s l = ok s'` (table keys distinct): the data file grows by
    exactly one row per listed number, in order, each carrying the `frac` (and `weights`) vector the
    path had; exactly the listed keys leave `frac` and `wts`; nothing else changes; the listed
    numbers are pairwise distinct; for every column the total over (data rows + table) is unchanged. -/
theorem writeRows_moves_mass (l : List Nat) (s s' : St) (hk : (s.frac.map Prod.fst).Nodup)
    (h : writeRows s l = .ok s') :
    (∃ news : List (Nat × List Rat × List Rat), s'.rows = s.rows ++ news ∧ news.map (·.1) = l ∧
        ∀ r ∈ news, s.frac.lookup r.1 = some r.2.1 ∧ s.wts.lookup r.1 = some r.2.2) ∧
    s'.frac = s.frac.filter (fun kv => !l.contains kv.1) ∧
    s'.wts = s.wts.filter (fun kv => !l.contains kv.1) ∧
    s' = { s with rows := s'.rows, frac := s'.frac, wts := s'.wts } ∧
    l.Nodup ∧
    (∀ c, rowsTotal s'.rows c + colTotal s'.frac c = rowsTotal s.rows c + colTotal s.frac c) :=
  writeRows_spec l s s' hk h

example : (exRec.frac.map Prod.fst).Nodup ∧
    writeRows exRec [5, 3] = .ok { exRec with
      rows := [(5, [1, 0, 0, 0], [1]), (3, [0, 1/2, 1/2, 0], [1, 1])],
      frac := [(4, [0, 0, 1, 0])], wts := [(4, [1, 2])] } := by
  decide +kernel

/-! ## 3. Conservation across one `treat_output` -/

/-- **One completed move.**  Let `s1` be the recording state (`recState`: the job's ensembles got
    their new/old paths back and are unlocked; new paths entered the table with zero vectors).
    `treatOutput` ends with the locks of `s1`, which are the locks of `s` with the job's slots
    released.  If the table of `s` is well formed and `s1` is slot-well-formed, the table stays well
    formed, and if moreover `s1` is matchable then for every column `c`
    `total(rows) + total(frac)` grows by exactly 1 if `c` is idle after the release, by 0 otherwise. -/
theorem treatOutput_conservation {s s' : St} {job : Job} {status : Status} {newW : List (List Rat)}
    {fuel : Nat} {pns : List Nat} {it : Nat} (fw : FracWF s)
    (h : treatOutput s job status newW fuel = .ok (s', pns, it)) :
    ∃ s1 tn, recState s job status newW = .ok (s1, tn, pns) ∧
      s1.locks = unlockAll s.locks (job.picked.map (fun p => (p.ens + 1).toNat)) ∧
      s'.locks = s1.locks ∧ s'.n = s.n ∧ s'.trajNum = tn ∧
      tn = s.trajNum + (if status = .acc then job.picked.length else 0) ∧
      (SlotWF s1 →
        FracWF s' ∧
        (Matchable s1 → ∀ c, rowsTotal s'.rows c + colTotal s'.frac c
          = rowsTotal s.rows c + colTotal s.frac c + (if s'.locks[c]? = some false then 1 else 0))) :=
  treatOutput_total fw h

/-- the job holding `[0-]` with path 5 in `exRec` -/
def exJob : Job :=
  { pin := 0, wfolder := 0, pnumOld := [5],
    picked := [{ ens := -1, pn := 5, rgen := ⟨0, [0, 0]⟩, rgenEng := ⟨0, [0, 0, 0]⟩, engIdx := [(0, 0)] }] }

def exRecSt : St :=
  match recState exRec exJob .acc [[1]] with
  | .ok (s, _, _) => s
  | .error _ => exRec

def exAfter : St :=
  match treatOutput exRec exJob .acc [[1]] 20 with
  | .ok (s, _, _) => s
  | .error _ => exRec

/-- ACC of the `[0-]` job: path 5 is replaced by the new path 6; all three ensemble columns are idle at
    recording time; the row of path 5 goes to the data file. -/
example : fracOk exRec = true ∧ treatOutput exRec exJob .acc [[1]] 20 = .ok (exAfter, [6], 0) ∧
    recState exRec exJob .acc [[1]] = .ok (exRecSt, 7, [6]) ∧ slotOk exRecSt = true ∧
    Matchable exRecSt ∧ exAfter.locks = [false, false, false, true] ∧
    exAfter.rows = [(5, [1, 0, 0, 0], [1])] ∧
    exAfter.frac = [(3, [0, 1/2 + 2/3, 1/2 + 1/3, 0]), (4, [0, 1/3, 1 + 2/3, 0]), (6, [1, 0, 0, 0])] := by
  decide +kernel

/-! ## 4. Conservation over whole histories

Quantifier: every fresh start `y0` (`FracInit`: C03's `Init` — what `load_paths` leaves — with a
well-formed all-zero fraction table and an empty data file), every event list `evs` (any
interleaving of completions, any accept/reject outcome, any number of workers), every `y` with
`run y0 evs = ok y`.  `idleSteps y0 evs c` counts, by recursion alongside `run`, the completed
steps of the history at whose recording time (`recState`) column `c` was idle.
`MatchableAlong y0 evs` = at each of these recordings the idle block has a non-zero permanent
(C05's invariant; carried as a hypothesis here). -/

/-- **Conservation.**  Data-file rows plus the fractions of the paths still in the table sum, per
    column, to the number of completed steps at which that column was idle. -/
theorem conservation (y0 y : Sys) (evs : List Ev) (h0 : FracInit y0) (hr : run y0 evs = .ok y)
    (hm : MatchableAlong y0 evs) (c : Nat) :
    rowsTotal y.s.rows c + colTotal y.s.frac c = (idleSteps y0 evs c : Rat) := by
  obtain ⟨_, _, ht, _⟩ := run_total evs h0.hinv h0.jinv hr hm
  have := ht c
  rw [h0.total_zero c] at this
  unfold total at this
  rw [this]; ring

/-- the same from any state satisfying the invariants (used across restarts): the totals grow by
    the number of idle recordings of the continuation -/
theorem conservation_from (y0 y : Sys) (evs : List Ev) (hi : HInv y0) (hj : JInv y0)
    (hr : run y0 evs = .ok y) (hm : MatchableAlong y0 evs) (c : Nat) :
    rowsTotal y.s.rows c + colTotal y.s.frac c
      = rowsTotal y0.s.rows c + colTotal y0.s.frac c + (idleSteps y0 evs c : Rat) ∧ HInv y ∧ JInv y := by
  obtain ⟨h1, h2, ht, _⟩ := run_total evs hi hj hr hm
  exact ⟨ht c, h1, h2⟩

/-- **One worker: every ensemble column total equals the step counter.** -/
theorem conservation_one_worker (y0 y : Sys) (evs : List Ev) (h0 : FracInit y0)
    (hw : y0.s.workers = 1) (hc0 : y0.s.cstep = 0) (hr : run y0 evs = .ok y)
    (hm : MatchableAlong y0 evs) (c : Nat) (hc : c < y.s.n - 1) :
    rowsTotal y.s.rows c + colTotal y.s.frac c = (y.s.cstep : Rat) := by
  obtain ⟨_, _, _, hn, _, hcs⟩ := run_total evs h0.hinv h0.jinv hr hm
  rw [conservation y0 y evs h0 hr hm c, hcs hw c (by rw [← hn]; exact hc), hc0]
  simp

/-- with one worker every completed step is an idle recording for every ensemble column -/
theorem one_worker_all_idle (y0 y : Sys) (evs : List Ev) (h0 : FracInit y0)
    (hw : y0.s.workers = 1) (hr : run y0 evs = .ok y) (hm : MatchableAlong y0 evs) (c : Nat)
    (hc : c < y0.s.n - 1) : y.s.cstep = y0.s.cstep + idleSteps y0 evs c := by
  obtain ⟨_, _, _, _, _, hcs⟩ := run_total evs h0.hinv h0.jinv hr hm
  exact hcs hw c hc

/-! ### a two-worker and a one-worker history -/

def exPaths : List (Nat × List Rat × List Rat) :=
  [(0, [1], [0,0,0,0]), (1, [1,1,0], [0,0,0,0]), (2, [1,1,0], [0,0,0,0])]

def exBlank : St := blank 4 2 10 0 3 0 [[-1, -1]] [[0], [0], [0]] false []

def exS0 : St :=
  match loadPaths exBlank exPaths with
  | .ok s => s
  | .error _ => exBlank

def exSys : Sys := { s := exS0, jobs := [] }

/-- worker 0 starts a zero swap (holds `[0-]`, `[0+]`), worker 1 starts `[1+]`, initiation closes,
    the zero swap completes ACCEPTED (`[1+]` busy at the recording) and worker 0 restarts on `[0-]`,
    then worker 1's job completes REJECTED (`[0-]` busy at the recording). -/
def exEvs : List Ev :=
  [ .start { t := 0, e := 0, coin := true, partner := 1 },
    .start { t := 2, e := 2 },
    .initDone,
    .step 0 .acc [[1], [1, 1, 0]] { t := 0, e := 0, coin := false },
    .step 0 .rej [] { t := 2, e := 2 } ]

def exEnd : Sys := match run exSys exEvs with | .ok y => y | .error _ => exSys

theorem ex_fracInit : FracInit exSys :=
  ⟨init_of_loadPaths 4 2 10 0 3 0 [[-1, -1]] [[0], [0], [0]] false exPaths exS0 (by decide) (by decide)
      (by decide) (by decide) (by decide +kernel),
   fracWF_of_fracOk (by decide +kernel), by decide +kernel, by decide +kernel⟩

example : FracInit exSys ∧ run exSys exEvs = .ok exEnd ∧ MatchableAlong exSys exEvs ∧
    (List.range 5).map (idleSteps exSys exEvs) = [1, 2, 1, 0, 0] ∧
    exEnd.s.rows = [(0, [0, 0, 0, 0], [1]), (1, [0, 0, 0, 0], [1, 1, 0])] ∧
    exEnd.s.frac = [(2, [0, 1/2, 1/2, 0]), (3, [1, 0, 0, 0]), (4, [0, 3/2, 1/2, 0])] :=
  ⟨ex_fracInit, by decide +kernel, matchableAlong_of_B _ _ (by decide +kernel), by decide +kernel,
   by decide +kernel, by decide +kernel⟩

def exBlank1 : St := blank 4 1 10 0 3 0 [[-1]] [[0], [0], [0]] false []

def exS1 : St :=
  match loadPaths exBlank1 exPaths with
  | .ok s => s
  | .error _ => exBlank1

def exSys1 : Sys := { s := exS1, jobs := [] }

/-- one worker: `[1+]` accepted (new weights `[1,2,0]`), `[0-]` rejected, `[0+]` accepted -/
def exEvs1 : List Ev :=
  [ .start { t := 1, e := 2 },
    .initDone,
    .step 0 .acc [[1, 2, 0]] { t := 0, e := 0, coin := false },
    .step 0 .rej [] { t := 2, e := 1 },
    .step 0 .acc [[1, 1, 1]] { t := 2, e := 2 } ]

def exEnd1 : Sys := match run exSys1 exEvs1 with | .ok y => y | .error _ => exSys1

theorem ex_fracInit1 : FracInit exSys1 :=
  ⟨init_of_loadPaths 4 1 10 0 3 0 [[-1]] [[0], [0], [0]] false exPaths exS1 (by decide) (by decide)
      (by decide) (by decide) (by decide +kernel),
   fracWF_of_fracOk (by decide +kernel), by decide +kernel, by decide +kernel⟩

example : FracInit exSys1 ∧ exSys1.s.workers = 1 ∧ exSys1.s.cstep = 0 ∧
    run exSys1 exEvs1 = .ok exEnd1 ∧ MatchableAlong exSys1 exEvs1 ∧ exEnd1.s.cstep = 3 ∧
    exEnd1.s.n = 4 ∧
    exEnd1.s.rows = [(1, [0, 0, 0, 0], [1, 1, 0]), (3, [0, 2/3, 4/3, 0], [1, 2, 0])] ∧
    exEnd1.s.frac = [(2, [0, 11/6, 7/6, 0]), (0, [3, 0, 0, 0]), (4, [0, 1/2, 1/2, 0])] :=
  ⟨ex_fracInit1, by decide +kernel, by decide +kernel, by decide +kernel,
   matchableAlong_of_B _ _ (by decide +kernel), by decide +kernel, by decide +kernel,
   by decide +kernel, by decide +kernel⟩

/-! ## 5. A path's row is written exactly once, when it is replaced, never while it is live

`RowInit y0` = `FracInit y0` and every path sitting in a slot has a table entry and the path numbers
in the slots are pairwise distinct (what `load_paths` leaves).  `writtenAt y ev` = the old path
numbers of the completing job when `ev` is a `.step` with status ACC, `[]` otherwise;
`writtenAlong y0 evs` = their concatenation along the history.  No matchability needed. -/

/-- **Written once.**  In every reachable state: the path numbers of the data-file rows are pairwise
    distinct; none of them is live (sits in a slot); none of them is still in the fraction table
    (`restart.toml [current.frac]`); the rows are exactly those written by the accepted completions of
    the history, in order; live path numbers are pairwise distinct and, like the written ones, below
    the path counter (so the fresh numbers `trajNum, trajNum+1, …` are new). -/
theorem row_written_once (y0 y : Sys) (evs : List Ev) (h0 : RowInit y0) (hr : run y0 evs = .ok y) :
    (y.s.rows.map (·.1)).Nodup ∧
    (∀ pn ∈ y.s.rows.map (·.1), some pn ∉ y.s.trajs) ∧
    (∀ pn ∈ y.s.rows.map (·.1), pn ∉ y.s.frac.map Prod.fst) ∧
    y.s.rows.map (·.1) = writtenAlong y0 evs ∧
    (y.s.trajs.filterMap id).Nodup ∧
    (∀ pn, some pn ∈ y.s.trajs → pn < y.s.trajNum) ∧
    (∀ pn ∈ y.s.rows.map (·.1), pn < y.s.trajNum) := by
  obtain ⟨hi, r, hrows⟩ := run_rinv evs h0.fi.hinv h0.rinv hr
  refine ⟨r.rowsNodup, ?_, r.rowsFrac, ?_, r.liveNodup, ?_, r.rowsBound⟩
  · intro pn hpn hm
    exact r.rowsFrac pn hpn (r.liveFrac pn hm)
  · rw [hrows, h0.fi.rows]; simp
  · intro pn hm
    exact hi.fw.bound pn (r.liveFrac pn hm)

/-- **Written when replaced.**  One event from a reachable state appends rows exactly for
    `writtenAt y ev`: for a `.step` completing job `job` these are the paths the job held
    (`job.picked`'s path numbers) if the move was accepted and none if it was rejected; every one of
    them was live before the event and is not live after it. -/
theorem row_written_when_replaced (y0 y y' : Sys) (evs : List Ev) (ev : Ev) (h0 : RowInit y0)
    (hr : run y0 evs = .ok y) (hs : sysStep y ev = .ok y') :
    y'.s.rows.map (·.1) = y.s.rows.map (·.1) ++ writtenAt y ev ∧
    (∀ pn ∈ writtenAt y ev, some pn ∈ y.s.trajs ∧ some pn ∉ y'.s.trajs) ∧
    (∀ k status newW o job, ev = .step k status newW o → y.jobs[k]? = some job →
      writtenAt y ev = if status = .acc then job.picked.map (·.pn) else []) := by
  obtain ⟨hi, r, _⟩ := run_rinv evs h0.fi.hinv h0.rinv hr
  obtain ⟨_, h1, h2⟩ := sysStep_rinv ev hi r hs
  refine ⟨h1, h2, ?_⟩
  intro k status newW o job hev hjob
  subst hev
  simp only [writtenAt, hjob, written]
  rw [r.jobsOld job (List.mem_of_getElem? hjob)]

/-- **`RowInit` (hence `FracInit`) is what a fresh start produces**: `REPEX_state.__init__` followed
    by `load_paths` on `n − 1` initial paths with pairwise distinct numbers below `trajNum` and all-zero
    fraction vectors of length `n` (any weights, workers, engine table), `n ≥ 2`, no restart jobs —
    if `load_paths` does not raise, the state with nothing in flight satisfies `RowInit`. -/
theorem fresh_start_is_rowInit (n workers tsteps cstep trajNum seed : Nat) (occ : List (List Int))
    (ensEng : List (List Nat)) (restarted : Bool) (paths : List (Nat × List Rat × List Rat)) (s : St)
    (hn : 2 ≤ n) (hlen : paths.length = n - 1) (hnd : (paths.map (·.1)).Nodup)
    (hlt : ∀ p ∈ paths, p.1 < trajNum) (hz : ∀ p ∈ paths, p.2.2 = List.replicate n 0)
    (h : loadPaths (blank n workers tsteps cstep trajNum seed occ ensEng restarted []) paths = .ok s) :
    RowInit ⟨s, []⟩ :=
  rowInit_of_loadPaths n workers tsteps cstep trajNum seed occ ensEng restarted paths s hn hlen hnd hlt hz h

theorem ex_rowInit : RowInit exSys :=
  fresh_start_is_rowInit 4 2 10 0 3 0 [[-1, -1]] [[0], [0], [0]] false exPaths exS0 (by decide)
    (by decide) (by decide) (by decide) (by decide +kernel) (by decide +kernel)

theorem ex_rowInit1 : RowInit exSys1 := rowInit_of_liveOk ex_fracInit1 (by decide +kernel)

example : RowInit exSys ∧ run exSys exEvs = .ok exEnd ∧ writtenAlong exSys exEvs = [0, 1] ∧
    exEnd.s.trajs = [some 3, some 4, some 2, none] ∧ exEnd.s.frac.map Prod.fst = [2, 3, 4] :=
  ⟨ex_rowInit, by decide +kernel, by decide +kernel, by decide +kernel, by decide +kernel⟩

/-- the fourth event of the two-worker history (the zero swap completes ACCEPTED) writes paths 0, 1 -/
example : run exSys (exEvs.take 3) = .ok (match run exSys (exEvs.take 3) with | .ok y => y | .error _ => exSys) ∧
    writtenAt (match run exSys (exEvs.take 3) with | .ok y => y | .error _ => exSys)
      (.step 0 .acc [[1], [1, 1, 0]] { t := 0, e := 0, coin := false }) = [0, 1] := by
  decide +kernel

example : RowInit exSys1 ∧ run exSys1 exEvs1 = .ok exEnd1 ∧ writtenAlong exSys1 exEvs1 = [1, 3] :=
  ⟨ex_rowInit1, by decide +kernel, by decide +kernel⟩

/-! ## 6. Restarts

`persist s` is what `write_toml` stores (`[current]`: active paths, `frac`, counters);
`restore im n …` is `REPEX_state.__init__` + `load_paths` on the image (`weightOf pn` = the weight
vector recomputed from the stored path).  The data-file list of the model starts empty in the new
run (the file on disk is appended to), so across a restart the law reads
`rows(before) + rows(after) + table(after) = idle recordings(before) + idle recordings(after)`. -/

/-- **The restart image keeps the fractions.**  After `restore (persist s)`: every live path of `s`
    has exactly the vector it had in `s` (a zero vector if it had none); the restored table holds
    exactly the live paths; the path counter is kept; and if the table of `s` held exactly its live
    paths (distinct keys), every column total of the table is the same. -/
theorem restart_preserves_frac {s s' : St} {n workers tsteps : Nat} {occ : List (List Int)}
    {ensEng : List (List Nat)} {weightOf : Nat → List Rat}
    (h : restore (persist s) n workers tsteps occ ensEng weightOf = .ok s') :
    (∀ pn, some pn ∈ livePaths s →
        s'.frac.lookup pn = some ((s.frac.lookup pn).getD (List.replicate n 0))) ∧
    (∀ pn v, some pn ∈ livePaths s → s.frac.lookup pn = some v → s'.frac.lookup pn = some v) ∧
    (s'.frac.map Prod.fst).Perm ((livePaths s).filterMap id) ∧ s'.rows = [] ∧
    s'.trajNum = s.trajNum ∧
    ((s.frac.map Prod.fst).Nodup → (s.frac.map Prod.fst).Perm ((livePaths s).filterMap id) →
        ∀ c, colTotal s'.frac c = colTotal s.frac c) := by
  obtain ⟨hk, _, hr, _, ht⟩ := restore_frac h
  refine ⟨restore_lookup h, ?_, hk, hr, ht, fun h1 h2 c => restore_colTotal h h1 h2 c⟩
  intro pn v hl hv
  rw [restore_lookup h pn hl, hv]
  rfl

/-- **Conservation across one restart** (chains follow by repeating the argument, since the
    restored state is a start state again — `restore_init`).  A fresh start runs `evs1` to a
    quiescent state `y1` (nothing in flight, nothing recorded as locked, the table holding exactly
    the live paths), its image is restored with any worker count / step target, and the new run
    performs `evs2`.  Then for every column: rows of the first run + rows of the second run + the
    live fractions = idle recordings of the first run + idle recordings of the second run. -/
theorem restart_conservation (y0 y1 y3 : Sys) (evs1 evs2 : List Ev) (h0 : RowInit y0)
    (hr1 : run y0 evs1 = .ok y1) (hm1 : MatchableAlong y0 evs1)
    (hlk : y1.s.locked = [])
    (htab : (y1.s.frac.map Prod.fst).Perm ((livePaths y1.s).filterMap id))
    (workers tsteps : Nat) (occ : List (List Int)) (ensEng : List (List Nat))
    (weightOf : Nat → List Rat) (s2 : St)
    (hrs : restore (persist y1.s) y1.s.n workers tsteps occ ensEng weightOf = .ok s2)
    (hr2 : run ⟨s2, []⟩ evs2 = .ok y3) (hm2 : MatchableAlong ⟨s2, []⟩ evs2) (c : Nat) :
    rowsTotal y1.s.rows c + (rowsTotal y3.s.rows c + colTotal y3.s.frac c)
      = (idleSteps y0 evs1 c : Rat) + (idleSteps ⟨s2, []⟩ evs2 c : Rat) := by
  obtain ⟨hi1, r1, _⟩ := run_rinv evs1 h0.fi.hinv h0.rinv hr1
  have hc1 := conservation y0 y1 evs1 h0.fi hr1 hm1 c
  obtain ⟨hinit2, fw2⟩ := restore_init hi1 r1 hlk hrs
  obtain ⟨hc3, _, _⟩ := conservation_from ⟨s2, []⟩ y3 evs2 ⟨hinit2.inv, fw2⟩ (jinv_of_init hinit2) hr2 hm2 c
  obtain ⟨_, _, hrows2, _, _⟩ := restore_frac hrs
  rw [hc3]
  show _ + (rowsTotal s2.rows c + colTotal s2.frac c + _) = _
  rw [hrows2, restore_colTotal hrs hi1.fw.keys htab c, ← hc1]
  simp only [rowsTotal_nil]
  ring

/-- **A restored quiescent state is a start state again**: it satisfies C03's `Init` (hence all
    scheduler invariants) and the table invariant, so `conservation_from` and `restart_conservation`
    apply again from it — this is the induction step for chains of restarts. -/
theorem restart_is_start_state (y0 y1 : Sys) (evs1 : List Ev) (h0 : RowInit y0)
    (hr1 : run y0 evs1 = .ok y1) (hlk : y1.s.locked = [])
    (workers tsteps : Nat) (occ : List (List Int)) (ensEng : List (List Nat))
    (weightOf : Nat → List Rat) (s2 : St)
    (hrs : restore (persist y1.s) y1.s.n workers tsteps occ ensEng weightOf = .ok s2) :
    Init ⟨s2, []⟩ ∧ HInv ⟨s2, []⟩ ∧ JInv ⟨s2, []⟩ := by
  obtain ⟨hi1, r1, _⟩ := run_rinv evs1 h0.fi.hinv h0.rinv hr1
  obtain ⟨hinit2, fw2⟩ := restore_init hi1 r1 hlk hrs
  exact ⟨hinit2, ⟨hinit2.inv, fw2⟩, jinv_of_init hinit2⟩

/-! ### a one-worker run to its last step, restart with a larger step target, two more steps -/

def exBlankQ : St := blank 4 1 3 0 3 0 [[-1]] [[0], [0], [0]] false []

def exSQ : St := match loadPaths exBlankQ exPaths with | .ok s => s | .error _ => exBlankQ

def exSysQ : Sys := { s := exSQ, jobs := [] }

def exEndQ : Sys := match run exSysQ exEvs1 with | .ok y => y | .error _ => exSysQ

/-- weights recomputed from the stored paths -/
def exW (pn : Nat) : List Rat := (exEndQ.s.wts.lookup pn).getD []

def exS2 : St :=
  match restore (persist exEndQ.s) 4 1 6 [[-1]] [[0], [0], [0]] exW with
  | .ok s => s
  | .error _ => exBlankQ

def exEvs2 : List Ev :=
  [ .start { t := 1, e := 1 }, .initDone,
    .step 0 .acc [[2, 1, 0]] { t := 0, e := 0, coin := false },
    .step 0 .rej [] { t := 2, e := 2 } ]

def exEnd3 : Sys := match run ⟨exS2, []⟩ exEvs2 with | .ok y => y | .error _ => exSysQ

theorem ex_rowInitQ : RowInit exSysQ :=
  rowInit_of_liveOk
    ⟨init_of_loadPaths 4 1 3 0 3 0 [[-1]] [[0], [0], [0]] false exPaths exSQ (by decide) (by decide)
        (by decide) (by decide) (by decide +kernel),
     fracWF_of_fracOk (by decide +kernel), by decide +kernel, by decide +kernel⟩
    (by decide +kernel)

example : restore (persist exEndQ.s) 4 1 6 [[-1]] [[0], [0], [0]] exW = .ok exS2 ∧
    exEndQ.s.frac = [(2, [0, 11/6, 7/6, 0]), (0, [3, 0, 0, 0]), (4, [0, 1/2, 1/2, 0])] ∧
    exS2.frac = [(4, [0, 1/2, 1/2, 0]), (2, [0, 11/6, 7/6, 0]), (0, [3, 0, 0, 0])] ∧
    livePaths exEndQ.s = [some 0, some 4, some 2] := by
  decide +kernel

example : RowInit exSysQ ∧ run exSysQ exEvs1 = .ok exEndQ ∧ MatchableAlong exSysQ exEvs1 ∧
    exEndQ.s.locked = [] ∧
    (exEndQ.s.frac.map Prod.fst).Perm ((livePaths exEndQ.s).filterMap id) ∧
    restore (persist exEndQ.s) exEndQ.s.n 1 6 [[-1]] [[0], [0], [0]] exW = .ok exS2 ∧
    run ⟨exS2, []⟩ exEvs2 = .ok exEnd3 ∧ MatchableAlong ⟨exS2, []⟩ exEvs2 ∧
    (List.range 4).map (idleSteps exSysQ exEvs1) = [3, 3, 3, 0] ∧
    (List.range 4).map (idleSteps ⟨exS2, []⟩ exEvs2) = [2, 2, 2, 0] ∧
    exEnd3.s.rows = [(4, [0, 1/2, 1/2, 0], [1, 1, 1])] ∧
    exEnd3.s.frac = [(2, [0, 5/2, 5/2, 0]), (0, [5, 0, 0, 0]), (5, [0, 4/3, 2/3, 0])] :=
  ⟨ex_rowInitQ, by decide +kernel, matchableAlong_of_B _ _ (by decide +kernel), by decide +kernel,
   by decide +kernel, by decide +kernel, by decide +kernel,
   matchableAlong_of_B _ _ (by decide +kernel), by decide +kernel, by decide +kernel,
   by decide +kernel, by decide +kernel⟩

/-! ## 7. The same laws without the matchability hypothesis (C05 plugged in)

C05 proves that the family invariant `Inv5` (family rows + positive permanent of the idle block)
holds along every history from an `Init5` start (`load_paths` on paths of C02's weight family,
`fresh_start_is_init5` in C05) whose accepted outcomes are family vectors (`HistOk`, checked along
the run).  `RepexC04C05.lean` carries it to the recording state inside `treat_output`
(`recState_fam`), so `HistOk` replaces `MatchableAlong`. -/

/-- **Conservation, no matchability hypothesis.** -/
theorem conservation_reachable (y0 y : Sys) (evs : List Ev) (h0 : FracInit y0) (h5 : Init5 y0)
    (hh : HistOk y0 evs) (hr : run y0 evs = .ok y) (c : Nat) :
    rowsTotal y.s.rows c + colTotal y.s.frac c = (idleSteps y0 evs c : Rat) :=
  conservation y0 y evs h0 hr (matchableAlong_of_histOk evs y0 h5.inv5 hh) c

/-- **One worker: every ensemble column total equals the step counter, no matchability hypothesis.** -/
theorem conservation_one_worker_reachable (y0 y : Sys) (evs : List Ev) (h0 : FracInit y0)
    (h5 : Init5 y0) (hh : HistOk y0 evs) (hw : y0.s.workers = 1) (hc0 : y0.s.cstep = 0)
    (hr : run y0 evs = .ok y) (c : Nat) (hc : c < y.s.n - 1) :
    rowsTotal y.s.rows c + colTotal y.s.frac c = (y.s.cstep : Rat) :=
  conservation_one_worker y0 y evs h0 hw hc0 hr (matchableAlong_of_histOk evs y0 h5.inv5 hh) c hc

/-- with one worker every completed step is an idle recording for every ensemble column, no matchability
    hypothesis -/
theorem one_worker_all_idle_reachable (y0 y : Sys) (evs : List Ev) (h0 : FracInit y0) (h5 : Init5 y0)
    (hh : HistOk y0 evs) (hw : y0.s.workers = 1) (hr : run y0 evs = .ok y) (c : Nat)
    (hc : c < y0.s.n - 1) : y.s.cstep = y0.s.cstep + idleSteps y0 evs c :=
  one_worker_all_idle y0 y evs h0 hw hr (matchableAlong_of_histOk evs y0 h5.inv5 hh) c hc

/-- **Each completed step adds exactly one unit per idle column.**  `y` reachable as above, one more
    completed step (any job `k`, any status, outcome in the family) leading to `y'`.  With `sR` the
    recording state (the job's slots released, new paths in the table with zero vectors — so `sR`
    has the data file and the column totals of `y`) and `s2` the state after "record weights":
    every idle column gains exactly 1 and every other column 0; only `frac` changes; only vectors of
    idle live paths change; the path in idle slot `i` gains `probMatrix[i][c]` in entry `c` — the
    permanent ratio of the idle block for idle `c`, `0` for busy `c`, `0` where `W[i][c] = 0`, never
    negative; and over the whole step `rows + frac` grows by exactly that 1 or 0 per column. -/
theorem step_adds_one_per_idle_column_reachable (y0 y y' : Sys) (evs : List Ev) (h0 : FracInit y0)
    (h5 : Init5 y0) (hh : HistOk y0 evs) (hr : run y0 evs = .ok y)
    (k : Nat) (status : Status) (newW : List (List Rat)) (o : PickOutcome)
    (hev : EvOk y (.step k status newW o)) (hs : sysStep y (.step k status newW o) = .ok y') :
    ∃ job sR tn pns s2, y.jobs[k]? = some job ∧
      recState (loop y.s).1 job status newW = .ok (sR, tn, pns) ∧ recordFrac sR = .ok s2 ∧
      sR.n = y.s.n ∧ sR.rows = y.s.rows ∧ (∀ c, colTotal sR.frac c = colTotal y.s.frac c) ∧
      (∀ c, colTotal s2.frac c - colTotal sR.frac c = if sR.locks[c]? = some false then 1 else 0) ∧
      s2 = { sR with frac := s2.frac } ∧ s2.frac.map Prod.fst = sR.frac.map Prod.fst ∧
      (∀ q, (∀ i, i < sR.n - 1 → sR.locks[i]? = some false → sR.trajs[i]? ≠ some (some q)) →
          s2.frac.lookup q = sR.frac.lookup q) ∧
      (∀ i pn, i < sR.n - 1 → sR.locks[i]? = some false → sR.trajs[i]? = some (some pn) → ∀ c,
          fracAt s2.frac pn c - fracAt sR.frac pn c = entry (prob sR) i c ∧
          (sR.locks[c]? = some false →
            entry (prob sR) i c = pSpec (idle sR.W sR.locks) (rank sR.locks i) (rank sR.locks c)) ∧
          (sR.locks[c]? ≠ some false → entry (prob sR) i c = 0) ∧
          (entry sR.W i c = 0 → entry (prob sR) i c = 0) ∧ 0 ≤ entry (prob sR) i c) ∧
      (∀ c, rowsTotal y'.s.rows c + colTotal y'.s.frac c
          = rowsTotal y.s.rows c + colTotal y.s.frac c + (if sR.locks[c]? = some false then 1 else 0)) := by
  have hm := matchableAlong_of_histOk evs y0 h5.inv5 hh
  obtain ⟨hi, _, _⟩ := run_total evs h0.hinv h0.jinv hr hm
  have hi5 := (run_preserves5 evs h5.inv5 hh hr).1
  obtain ⟨job, sR, tn, pns, s2, hjob, hrec, hrf, wf, hM, hk, hl, hn, hcol, hrows, htot⟩ :=
    step_record hi hi5 hev hs
  obtain ⟨a1, a2, a3, a4, a5⟩ := recordFrac_adds_one_per_idle_column wf hM hk hl hrf
  have hfam := recState_fam hi5 hev hjob hrec
  have hnn : ∀ i c, 0 ≤ entry (prob sR) i c :=
    fun i c => Infretis.Perm.C05.probMatrix_nonneg sR.W sR.locks (by rw [wf.lenW, wf.lenL])
      (rows_nonneg sR.n sR.W sR.locks wf.lenL wf.ghost hfam.rows) hfam.perm i c
  refine ⟨job, sR, tn, pns, s2, hjob, hrec, hrf, hn, hrows, hcol, a1, a2, a3, a4, ?_, htot⟩
  intro i pn hi' hl' ht c
  obtain ⟨b1, b2, b3, b4, _⟩ := a5 i pn hi' hl' ht c
  exact ⟨b1, b2, b3, b4, hnn i c⟩

/-! ### the two example histories satisfy the C05 hypotheses -/

theorem exPaths_fam (i : Nat) (hi : i < exPaths.length) : VecOk 4 ((i : Int) - 1) (exPaths[i]).2.1 := by
  have : i = 0 ∨ i = 1 ∨ i = 2 := by
    simp only [exPaths, List.length_cons, List.length_nil] at hi; omega
  rcases this with rfl | rfl | rfl
  · show VecOk 4 (-1) [1]
    exact vecOk_of_B (by decide +kernel)
  · show VecOk 4 0 [1, 1, 0]
    exact vecOk_of_B (by decide +kernel)
  · show VecOk 4 1 [1, 1, 0]
    exact vecOk_of_B (by decide +kernel)

theorem ex_init5 : Init5 exSys :=
  init5_of_loadPaths 4 2 10 0 3 0 [[-1, -1]] [[0], [0], [0]] false exPaths exS0 (by decide) (by decide)
    (by decide) (by decide) exPaths_fam (by decide +kernel)

theorem ex_init5_1 : Init5 exSys1 :=
  init5_of_loadPaths 4 1 10 0 3 0 [[-1]] [[0], [0], [0]] false exPaths exS1 (by decide) (by decide)
    (by decide) (by decide) exPaths_fam (by decide +kernel)

theorem ex_histOk : HistOk exSys exEvs := histOk_of_B _ _ (by decide +kernel)

/-- (the last outcome of `exEvs1`, weights `[1,1,1]` for `[1+]`, has a non-zero ghost-column weight and
    is outside C02's family; the family history stops before it) -/
theorem ex_histOk1 : HistOk exSys1 (exEvs1.take 4) := histOk_of_B _ _ (by decide +kernel)

def exEnd1b : Sys := match run exSys1 (exEvs1.take 4) with | .ok y => y | .error _ => exSys1

example : FracInit exSys ∧ Init5 exSys ∧ HistOk exSys exEvs ∧ run exSys exEvs = .ok exEnd ∧
    (List.range 5).map (idleSteps exSys exEvs) = [1, 2, 1, 0, 0] ∧
    (List.range 5).map (fun c => rowsTotal exEnd.s.rows c + colTotal exEnd.s.frac c) = [1, 2, 1, 0, 0] :=
  ⟨ex_fracInit, ex_init5, ex_histOk, by decide +kernel, by decide +kernel, by decide +kernel⟩

example : FracInit exSys1 ∧ Init5 exSys1 ∧ HistOk exSys1 (exEvs1.take 4) ∧ exSys1.s.workers = 1 ∧
    exSys1.s.cstep = 0 ∧ run exSys1 (exEvs1.take 4) = .ok exEnd1b ∧ exEnd1b.s.cstep = 2 ∧
    (List.range 3).map (fun c => rowsTotal exEnd1b.s.rows c + colTotal exEnd1b.s.frac c) = [2, 2, 2] :=
  ⟨ex_fracInit1, ex_init5_1, ex_histOk1, by decide +kernel, by decide +kernel, by decide +kernel,
   by decide +kernel, by decide +kernel⟩

/-- the state of the two-worker history after the initiation (two jobs in flight) -/
def exMid : Sys := match run exSys (exEvs.take 3) with | .ok y => y | .error _ => exSys

def exMidNext : Sys :=
  match sysStep exMid (.step 0 .acc [[1], [1, 1, 0]] { t := 0, e := 0, coin := false }) with
  | .ok y => y
  | .error _ => exMid

def exMidRec : St :=
  match exMid.jobs[0]? with
  | some job =>
    (match recState (loop exMid.s).1 job .acc [[1], [1, 1, 0]] with
     | .ok (s, _, _) => s
     | .error _ => exMid.s)
  | none => exMid.s

/-- the zero swap completes ACCEPTED while `[1+]` is busy: columns 0 and 1 gain one unit, column 2 and
    the ghost column nothing -/
example : FracInit exSys ∧ Init5 exSys ∧ HistOk exSys (exEvs.take 3) ∧
    run exSys (exEvs.take 3) = .ok exMid ∧
    EvOk exMid (.step 0 .acc [[1], [1, 1, 0]] { t := 0, e := 0, coin := false }) ∧
    sysStep exMid (.step 0 .acc [[1], [1, 1, 0]] { t := 0, e := 0, coin := false }) = .ok exMidNext ∧
    exMidRec.locks = [false, false, true, true] ∧
    (List.range 4).map (fun c => rowsTotal exMid.s.rows c + colTotal exMid.s.frac c) = [0, 0, 0, 0] ∧
    (List.range 4).map (fun c => rowsTotal exMidNext.s.rows c + colTotal exMidNext.s.frac c)
      = [1, 1, 0, 0] :=
  ⟨ex_fracInit, ex_init5, histOk_of_B _ _ (by decide +kernel), by decide +kernel,
   evOk_of_B (by decide +kernel), by decide +kernel, by decide +kernel, by decide +kernel,
   by decide +kernel⟩

/-! ## 8. A stop inside `treat_output`, then a restart

Weight-relevant disk effects of one `treat_output`, in the code's order: (1) `write_to_pathens`
appends the rows of the replaced paths, (2) `write_toml` replaces `restart.toml` atomically by the
image of the new state.  `crashDisk s0 s' j renamed` is what a stop leaves: before the replace the old
image with any number `j` of whole new rows already in the data file (a torn row is dropped at the
restart), after it the new image with all rows.  `cleanRows` is `clean_data_file` (rows of paths
active in the restart file are dropped), `restore` is `load_paths` on the image.

`_partial`: what the theorem covers is the law on (data file + restart file) right after the
restart's clean-up, for every stop of every completed step of every history.  Not covered, and why:
* the restart file present before the step is taken to be the image of the state the step starts
  from (`persist y.s`); the real file was written at the end of the previous `treat_output`, before
  the next `prep_md_items`, and differs from it in `locked`, slot order and stream position — fields
  the restore of the weights does not read, but a separate disk object is not modelled;
* the continuation after a restart with a job in flight (`locked0 ≠ []`, the re-issue branch of
  `pick_lock`) is outside C03's invariants (they assume `locked0 = []`), so "…and stays conserved to
  step N" follows only for quiescent images (`restart_is_start_state`, `restart_conservation`);
* the table is assumed to hold exactly the live paths before and after the step (hypotheses
  `htab`, `htab'`; `live ⊆ table` is proved, the converse needs "the ghost slot holds no path");
* path-store / deletion effects carry no weights and are C08's `Fs` model.
The tie evaluates the full statement (continued to N) on the real files for every stop.
(The first and the third gap are closed in §12: `crash_restart_conservation` is the full statement on the two
files for every reachable state; the second is closed for quiescent images in §13.) -/

theorem crash_restart_conservation_partial (y0 y y' : Sys) (evs : List Ev) (h0 : RowInit y0)
    (hr : run y0 evs = .ok y) (hm : MatchableAlong y0 evs)
    (k : Nat) (status : Status) (newW : List (List Rat)) (o : PickOutcome)
    (hs : sysStep y (.step k status newW o) = .ok y') (hmm : matchableAt y (.step k status newW o)) :
    ∃ job s' pns it, y.jobs[k]? = some job ∧
      treatOutput (loop y.s).1 job status newW (sortFuel (loop y.s).1) = .ok (s', pns, it) ∧
      ((y.s.frac.map Prod.fst).Perm ((livePaths y.s).filterMap id) →
       (s'.frac.map Prod.fst).Perm ((livePaths s').filterMap id) →
       ∀ (j : Nat) (renamed : Bool) (n workers tsteps : Nat) (occ : List (List Int))
         (ensEng : List (List Nat)) (weightOf : Nat → List Rat) (sR : St),
         restore (crashDisk y.s s' j renamed).img n workers tsteps occ ensEng weightOf = .ok sR →
         (crashDisk y.s s' j renamed).img.cstep = (if renamed then y.s.cstep + 1 else y.s.cstep) ∧
         ∀ c, rowsTotal (cleanRows (crashDisk y.s s' j renamed).rows
                (crashDisk y.s s' j renamed).img.active) c + colTotal sR.frac c
              = (idleSteps y0 evs c : Rat)
                + (if renamed then (idleAt y (.step k status newW o) c : Rat) else 0)) := by
  obtain ⟨hi, r, _⟩ := run_rinv evs h0.fi.hinv h0.rinv hr
  have hc := conservation y0 y evs h0.fi hr hm
  obtain ⟨job, s', pns, it, hjob, htreat, hmain⟩ := crash_step_total hi r hs hmm
  refine ⟨job, s', pns, it, hjob, htreat, ?_⟩
  intro htab htab' j renamed n workers tsteps occ ensEng weightOf sR hres
  obtain ⟨h1, h2⟩ := hmain htab htab' j renamed n workers tsteps occ ensEng weightOf sR hres
  refine ⟨h1, fun c => ?_⟩
  rw [h2 c]
  unfold total
  rw [hc c]

/-- the state after the `treat_output` of the zero-swap completion in `exMid` -/
def exMidTreated : St :=
  match exMid.jobs[0]? with
  | some job =>
    (match treatOutput (loop exMid.s).1 job .acc [[1], [1, 1, 0]] (sortFuel (loop exMid.s).1) with
     | .ok (s, _, _) => s
     | .error _ => exMid.s)
  | none => exMid.s

def exMidW (pn : Nat) : List Rat := ((exMid.s.wts ++ exMidTreated.wts).lookup pn).getD []

def exCrashRestored (j : Nat) (renamed : Bool) : St :=
  match restore (crashDisk exMid.s exMidTreated j renamed).img 4 2 10 [[-1, -1]] [[0], [0], [0]] exMidW with
  | .ok s => s
  | .error _ => exMid.s

/-- zero swap accepted (two rows, first completed step): a stop after the first row was appended
    (old restart file, step counter 0: the row is dropped at the restart, totals `[0,0,0]`) and a stop
    after the replace of the restart file (step counter 1, both rows kept, totals `[1,1,0]` — `[1+]`
    was busy at the recording) -/
example : exMidTreated.rows.map (·.1) = [0, 1] ∧
    (crashDisk exMid.s exMidTreated 1 false).rows.map (·.1) = [0] ∧
    cleanRows (crashDisk exMid.s exMidTreated 1 false).rows
      (crashDisk exMid.s exMidTreated 1 false).img.active = [] ∧
    restore (crashDisk exMid.s exMidTreated 1 false).img 4 2 10 [[-1, -1]] [[0], [0], [0]] exMidW
      = .ok (exCrashRestored 1 false) ∧
    (List.range 3).map (fun c => colTotal (exCrashRestored 1 false).frac c) = [0, 0, 0] ∧
    (crashDisk exMid.s exMidTreated 1 false).img.cstep = 0 ∧
    restore (crashDisk exMid.s exMidTreated 2 true).img 4 2 10 [[-1, -1]] [[0], [0], [0]] exMidW
      = .ok (exCrashRestored 2 true) ∧
    (List.range 3).map (fun c => rowsTotal (cleanRows (crashDisk exMid.s exMidTreated 2 true).rows
        (crashDisk exMid.s exMidTreated 2 true).img.active) c + colTotal (exCrashRestored 2 true).frac c)
      = [1, 1, 0] ∧
    (crashDisk exMid.s exMidTreated 2 true).img.cstep = 1 := by
  decide +kernel

/-! ## 9. What `write_to_pathens` writes for one path

`fmtCols size frac weights` (Model/DataFile.lean) = the `frac` and `weight` column lists of the row, `Cell.dash` =
`----`.  `shown w c`: a `[0-]` path (one weight) shows column 0 only, every other path the columns `1 … n−2`;
`padW size w` = the weight vector as `add_traj` pads it.  `readCell`: `----` counts as 0. -/

/-- **Masking, all inputs.**  Whatever the table entry looks like: the two column lists have the same length and
    a weight column is `----` exactly where the fraction column is. -/
theorem row_mask_all_inputs (size : Nat) (f w : List Rat) (fc wc : List Cell)
    (h : fmtCols size f w = .ok (fc, wc)) :
    fc.length = wc.length ∧ ∀ c, fc.getD c .dash = .dash ↔ wc.getD c .dash = .dash :=
  fmtCols_mask_eq size f w fc wc h

/-- **parse ∘ format = id on the column tokens, all inputs**: the `2·k` tokens after the three leading ones, split
    in the middle as the reader does, are exactly the fraction list and the weight list that were written. -/
theorem row_parse_format (size : Nat) (f w : List Rat) (fc wc : List Cell)
    (h : fmtCols size f w = .ok (fc, wc)) : splitCols (fc ++ wc) = (fc, wc) :=
  splitCols_append fc wc (fmtCols_mask_eq size f w fc wc h).1

example : fmtCols 4 [0, 2/3, 4/3, 0] [1, 2, 0] = .ok ([.dash, .num (2/3), .num (4/3)], [.dash, .num 1, .num 2]) ∧
    splitCols [Cell.dash, .num (2/3), .num (4/3), .dash, .num 1, .num 2]
      = ([.dash, .num (2/3), .num (4/3)], [.dash, .num 1, .num 2]) := by
  decide +kernel

/-- **The columns of a row of the sampler's shape** (`n` fractions; one weight or `n − 1` weights, `n ≥ 2`):
    `n − 1` fraction and `n − 1` weight columns; column `c` shows the fraction `f[c]` and the padded weight
    `padW[c]` — the path's weight in ensemble column `c` at the time it is replaced — if the row shows that column
    and the fraction is non-zero, and `----` in both lists otherwise. -/
theorem row_columns (size : Nat) (f w : List Rat) (fc wc : List Cell) (sh : Shape size f w)
    (h : fmtCols size f w = .ok (fc, wc)) :
    fc.length = size - 1 ∧ wc.length = size - 1 ∧
    ∀ c, c < size - 1 →
      fc.getD c .dash = (if shown w c = true ∧ f.getD c 0 ≠ 0 then .num (f.getD c 0) else .dash) ∧
      wc.getD c .dash = (if shown w c = true ∧ f.getD c 0 ≠ 0 then .num ((padW size w).getD c 0) else .dash) :=
  fmtCols_read size f w fc wc sh h

/-- **Reading the row gives the fractions back** in every ensemble column, when the entry carries nothing in a
    column its row does not show (`RowSup`; `support_reachable` below: every reachable entry does). -/
theorem row_reads_back (size : Nat) (f w : List Rat) (fc wc : List Cell) (rs : RowSup size f w)
    (h : fmtCols size f w = .ok (fc, wc)) (c : Nat) (hc : c < size - 1) :
    (fc.map readCell).getD c 0 = f.getD c 0 :=
  fmtCols_readback size f w fc wc rs h c hc

theorem ex_rowSup_plus : RowSup 4 [0, 2/3, 4/3, 0] [1, 2, 0] :=
  ⟨⟨by decide, by decide, by decide⟩, by decide, by decide +kernel⟩

theorem ex_rowSup_minus : RowSup 4 [3, 0, 0, 0] [1] :=
  ⟨⟨by decide, by decide, by decide⟩, by decide, by decide +kernel⟩

example : RowSup 4 [0, 2/3, 4/3, 0] [1, 2, 0] ∧
    fmtCols 4 [0, 2/3, 4/3, 0] [1, 2, 0] = .ok ([.dash, .num (2/3), .num (4/3)], [.dash, .num 1, .num 2]) ∧
    RowSup 4 [3, 0, 0, 0] [1] ∧
    fmtCols 4 [3, 0, 0, 0] [1] = .ok ([.num 3, .dash, .dash], [.num 1, .dash, .dash]) ∧
    -- a plus path that never collected weight in `[2+]`: both columns masked
    fmtCols 4 [0, 1/2, 0, 0] [1, 1, 0] = .ok ([.dash, .num (1/2), .dash], [.dash, .num 1, .dash]) ∧
    -- not a shape the sampler produces (an empty fraction vector): IndexError
    fmtCols 4 [] [1] = .error .index :=
  ⟨ex_rowSup_plus, by decide +kernel, ex_rowSup_minus, by decide +kernel, by decide +kernel, by decide +kernel⟩

/-! ## 10. A path never carries weight in a column its row does not show -/

/-- **Support, every reachable state** (fresh start, outcomes in C02's weight family): for every path with a
    weight record, the fraction vector vanishes in every ensemble column its data row would mask by position
    (`shown w c = false`) and in the ghost column; every row written so far has the sampler's shape and the same
    support.  So the `----` written for position (not for a zero fraction) never hides weight. -/
theorem support_reachable (y0 y : Sys) (evs : List Ev) (h0 : FracInit y0) (h5 : Init5 y0)
    (hh : HistOk y0 evs) (hr : run y0 evs = .ok y) :
    (∀ pn w, y.s.wts.lookup pn = some w →
      (∀ c, c < y.s.n - 1 → shown w c = false → fracAt y.s.frac pn c = 0) ∧ fracAt y.s.frac pn (y.s.n - 1) = 0) ∧
    (∀ r ∈ y.s.rows, RowSup y.s.n r.2.1 r.2.2) :=
  ⟨(reachable_sup h0 h5 hh hr).tab, (reachable_sup h0 h5 hh hr).rows⟩

example : FracInit exSys ∧ Init5 exSys ∧ HistOk exSys exEvs ∧ run exSys exEvs = .ok exEnd ∧
    exEnd.s.wts = [(2, [1, 1, 0]), (3, [1]), (4, [1, 1, 0])] ∧
    exEnd.s.frac = [(2, [0, 1/2, 1/2, 0]), (3, [1, 0, 0, 0]), (4, [0, 3/2, 1/2, 0])] :=
  ⟨ex_fracInit, ex_init5, ex_histOk, by decide +kernel, by decide +kernel, by decide +kernel⟩

/-! ## 11. The law on the two files, along every history

`DSys` = sampler + jobs in flight + `infretis_data.txt` (lines) + `restart.toml` (image) + the per-column count
`cnt` of completed steps at whose recording the column was idle (`dStep` adds `idleInc` of the locks `treat_output`
leaves: 1 per idle column).  `dStep` performs `treat_output`'s two weight-relevant effects in the code's order
(`treatDisk`: rows appended, then the restart image replaced by `persistD` = `write_toml`); `prep_md_items` and
`initiate` write nothing.  `lineTotal` = column total of the fractions the row lines SHOW (`----` as 0),
`liveTotal im` = column total of `[current.frac]` over the paths in `[current.active]`,
`diskTotal = lineTotal + liveTotal`.  `DiskStart y0` = `RowInit` + C05's `Init5` + C06's `Tidy`. -/

/-- **`DiskStart` is what a fresh start produces** (`load_paths` on `n − 1` initial paths with distinct numbers
    below `traj_num`, zero fractions, weights in C02's family). -/
theorem fresh_start_is_diskStart (n workers tsteps cstep trajNum seed : Nat) (occ : List (List Int))
    (ensEng : List (List Nat)) (restarted : Bool) (paths : List (Nat × List Rat × List Rat)) (s : St)
    (hn : 2 ≤ n) (hlen : paths.length = n - 1) (hnd : (paths.map (·.1)).Nodup)
    (hlt : ∀ p ∈ paths, p.1 < trajNum) (hz : ∀ p ∈ paths, p.2.2 = List.replicate n 0)
    (hfam : ∀ (i : Nat) (hi : i < paths.length), VecOk n ((i : Int) - 1) (paths[i]).2.1)
    (h : loadPaths (blank n workers tsteps cstep trajNum seed occ ensEng restarted []) paths = .ok s) :
    DiskStart ⟨s, []⟩ :=
  diskStart_of_loadPaths n workers tsteps cstep trajNum seed occ ensEng restarted paths s hn hlen hnd hlt hz hfam h

/-- **Conservation on what is written.**  Every history `evs` (any interleaving, any outcomes in the weight
    family, any number of workers) from a fresh start on a fresh disk, leading to `z`:
    1. the sampler part of `z` is `run y0 evs`;
    2. the explicit count is the number of idle recordings: `cnt[c] = idleSteps y0 evs c`;
    3. for every ensemble column, the fractions the data file shows + the fraction table = that count;
    4. once a restart file exists: its step / path counters are the sampler's, and data file + live weights of
       the restart file = that count — the law of the property, on the two files;
    5. the rows of the data file are those of the accepted completions, each path once, none of them active in
       the restart file. -/
theorem files_conservation_reachable (y0 : Sys) (evs : List Ev) (z : DSys) (h0 : DiskStart y0)
    (hh : HistOk y0 evs) (hr : dRun (freshSys y0) evs = .ok z) :
    run y0 evs = .ok z.y ∧
    (∀ c, z.cnt.getD c 0 = idleSteps y0 evs c) ∧
    (∀ c, c < z.y.s.n - 1 → lineTotal z.d.lines c + colTotal z.y.s.frac c = (idleSteps y0 evs c : Rat)) ∧
    (∀ im, z.d.img = some im → im.cstep = z.y.s.cstep ∧ im.trajNum = z.y.s.trajNum ∧
        ∀ c, c < z.y.s.n - 1 → diskTotal z.d.lines im c = (idleSteps y0 evs c : Rat)) ∧
    (dataRows z.d.lines).map (·.1) = writtenAlong y0 evs ∧ ((dataRows z.d.lines).map (·.1)).Nodup ∧
    (∀ im, z.d.img = some im → ∀ pn ∈ (dataRows z.d.lines).map (·.1), pn ∉ activeKeys im) := by
  obtain ⟨a1, a2, a3, a4⟩ := dRun_spec evs (z := freshSys y0) h0.reach4 (freshSys_inv h0.ri) hh hr
  have a1' : run y0 evs = .ok z.y := a1
  obtain ⟨t1, t2⟩ := disk_totals a2 a3
  have hcons := conservation_reachable y0 z.y evs h0.ri.fi h0.i5 hh a1'
  obtain ⟨w1, _, _, w4, _⟩ := row_written_once y0 z.y evs h0.ri a1'
  refine ⟨a1', ?_, ?_, ?_, ?_, ?_, ?_⟩
  · intro c
    have := a4 c
    simp only [freshSys, getD_replicate_zero_nat, Nat.zero_add] at this
    exact this
  · intro c hc
    rw [t1 c hc]; exact hcons c
  · intro im him
    have io := a3.img im him
    refine ⟨io.cstep, io.tn, fun c hc => ?_⟩
    unfold diskTotal
    rw [t1 c hc, t2 im him c]; exact hcons c
  · rw [disk_rows a3]; exact w4
  · rw [disk_rows a3]; exact w1
  · intro im him pn hpn hact
    rw [disk_rows a3] at hpn
    exact a2.rinv.rowsFrac pn hpn ((a3.img im him).act.mem_iff.mp hact)

/-- **One worker: data file + live weights of the restart file = the restart file's step counter**, in every
    ensemble column. -/
theorem files_conservation_one_worker (y0 : Sys) (evs : List Ev) (z : DSys) (h0 : DiskStart y0)
    (hh : HistOk y0 evs) (hw : y0.s.workers = 1) (hc0 : y0.s.cstep = 0)
    (hr : dRun (freshSys y0) evs = .ok z) (im : Image) (him : z.d.img = some im) (c : Nat)
    (hc : c < z.y.s.n - 1) : diskTotal z.d.lines im c = (im.cstep : Rat) := by
  obtain ⟨a1, _, _, a4, _⟩ := files_conservation_reachable y0 evs z h0 hh hr
  obtain ⟨b1, _, b3⟩ := a4 im him
  have hm := matchableAlong_of_histOk evs y0 h0.i5.inv5 hh
  obtain ⟨_, _, _, hn, _, hcs⟩ := run_total evs h0.ri.fi.hinv h0.ri.fi.jinv a1 hm
  rw [b3 c hc, b1, hcs hw c (by rw [← hn]; exact hc), hc0]
  simp

theorem exDiskStart1 : DiskStart exSys1 :=
  fresh_start_is_diskStart 4 1 10 0 3 0 [[-1]] [[0], [0], [0]] false exPaths exS1 (by decide) (by decide)
    (by decide) (by decide) (by decide) exPaths_fam (by decide +kernel)

theorem exDiskStart : DiskStart exSys :=
  fresh_start_is_diskStart 4 2 10 0 3 0 [[-1, -1]] [[0], [0], [0]] false exPaths exS0 (by decide) (by decide)
    (by decide) (by decide) (by decide) exPaths_fam (by decide +kernel)

/-- one worker: `[1+]` accepted (new weights `[1,2,0]`), `[0-]` rejected, `[0+]` accepted (new weights `[1,1,0]`) -/
def exEvsD : List Ev := exEvs1.take 4 ++ [.step 0 .acc [[1, 1, 0]] { t := 2, e := 2 }]

def exZ : DSys := match dRun (freshSys exSys1) exEvsD with | .ok z => z | .error _ => freshSys exSys1

theorem ex_histOkD : HistOk exSys1 exEvsD := histOk_of_B _ _ (by decide +kernel)

/-- three completed steps: the data file holds the header, the row of path 1 (replaced before it collected
    anything: all `----`) and the row of path 3; the restart file is the one of step 3 -/
example : DiskStart exSys1 ∧ HistOk exSys1 exEvsD ∧ dRun (freshSys exSys1) exEvsD = .ok exZ ∧
    exZ.d.lines.drop 3 =
      [{ hash := false, term := true, key := some 1, frac := [.dash, .dash, .dash], wts := [.dash, .dash, .dash] },
       { hash := false, term := true, key := some 3, frac := [.dash, .num (2/3), .num (4/3)],
         wts := [.dash, .num 1, .num 2] }] ∧
    exZ.d.img.map (·.active) = some [some 0, some 4, some 2] ∧ exZ.d.img.map (·.cstep) = some 3 ∧
    exZ.d.img.map (·.trajNum) = some 5 ∧
    exZ.d.img.map (·.frac) = some [(0, [3, 0, 0, 0]), (2, [0, 11/6, 7/6, 0]), (4, [0, 1/2, 1/2, 0])] ∧
    exZ.cnt = [3, 3, 3, 0] ∧
    (List.range 3).map (fun c => lineTotal exZ.d.lines c) = [0, 2/3, 4/3] ∧
    (exZ.d.img.map (fun im => (List.range 3).map (fun c => diskTotal exZ.d.lines im c))) = some ([3, 3, 3] : List Rat) :=
  ⟨exDiskStart1, ex_histOkD, by decide +kernel, by decide +kernel, by decide +kernel, by decide +kernel,
   by decide +kernel, by decide +kernel, by decide +kernel, by decide +kernel, by decide +kernel⟩

/-- two workers: after the history `exEvs` (zero swap accepted while `[1+]` busy, then `[1+]` rejected while `[0-]`
    busy) the counts are `[1, 2, 1]` -/
def exZ2 : DSys := match dRun (freshSys exSys) exEvs with | .ok z => z | .error _ => freshSys exSys

example : DiskStart exSys ∧ HistOk exSys exEvs ∧ dRun (freshSys exSys) exEvs = .ok exZ2 ∧
    exZ2.cnt = [1, 2, 1, 0] ∧
    exZ2.d.img.map (·.cstep) = some 2 ∧
    (exZ2.d.img.map (fun im => (List.range 3).map (fun c => diskTotal exZ2.d.lines im c)))
      = some ([1, 2, 1] : List Rat) :=
  ⟨exDiskStart, ex_histOk, by decide +kernel, by decide +kernel, by decide +kernel, by decide +kernel⟩

/-! ## 12. A stop anywhere inside `treat_output`, then a restart: the law on the files, in full

This replaces `crash_restart_conservation_partial` (§8, kept): the restart file is a separate object of the
model (`Disk.img`, written by the previous `treat_output`, untouched by `prep_md_items`), the table is shown to
hold exactly the live paths in every reachable state (C06's `Tidy`), and the statement is about what the two
files show.  `Stop`: `renamed = false` — the stop falls before the `os.replace` of `restart.toml`, `j` whole new
rows have reached the data file, possibly followed by a torn piece of the next one (`torn`); `renamed = true` —
after it.  `restartClean` = the restart's `clean_data_file` on that disk, `restore` = `__init__` + `load_paths`. -/

/-- **Crash + restart, every reachable state, every stop.**  `z` reachable on the disk, one more completed step
    to `z'`, stopped at `p` (before the replace a restart file must exist, i.e. at least one step was completed
    before).  The restart finds a restart file and, after `clean_data_file`:
    1. the restart file's step counter is the number of steps it accounts for (`cstep` resp. `cstep + 1`);
    2. in every ensemble column, the fractions the data file shows + the live weights of the restart file
       = the idle recordings of the history, plus this step's if the restart file is the new one — nothing lost,
       nothing counted twice, whichever effect the stop fell between;
    3. every path has at most one row and no row belongs to a path active in the restart file;
    4. `load_paths` on that restart file rebuilds a table holding exactly the active paths whose column totals
       are those live weights, with the restart file's path counter. -/
theorem crash_restart_conservation (y0 : Sys) (evs : List Ev) (z z' : DSys) (h0 : DiskStart y0)
    (hh : HistOk y0 evs) (hr : dRun (freshSys y0) evs = .ok z)
    (k : Nat) (status : Status) (newW : List (List Rat)) (o : PickOutcome)
    (hev : EvOk z.y (.step k status newW o)) (hs : dStep z (.step k status newW o) = .ok z') (p : Stop)
    (himg : p.renamed = false → ∃ im, z.d.img = some im) :
    ∃ lines im, (∃ ls' s2, restartClean (stopDisk z.d ls' (persistD s2) p) = some (lines, im) ∧
        z'.d = { lines := z.d.lines ++ ls', img := some (persistD s2) }) ∧
      im.cstep = (if p.renamed then z.y.s.cstep + 1 else z.y.s.cstep) ∧
      (∀ c, c < z.y.s.n - 1 → diskTotal lines im c
          = (idleSteps y0 evs c : Rat) + (if p.renamed then (idleAt z.y (.step k status newW o) c : Rat) else 0)) ∧
      ((dataRows lines).map (·.1)).Nodup ∧ (∀ pn ∈ (dataRows lines).map (·.1), pn ∉ activeKeys im) ∧
      (∀ (n workers tsteps : Nat) (occ : List (List Int)) (ensEng : List (List Nat)) (weightOf : Nat → List Rat)
        (sR : St), restore im n workers tsteps occ ensEng weightOf = .ok sR →
          (sR.frac.map Prod.fst).Perm (activeKeys im) ∧ (∀ c, colTotal sR.frac c = liveTotal im c) ∧
          sR.trajNum = im.trajNum) := by
  obtain ⟨a1, a2, a3, _⟩ := dRun_spec evs (z := freshSys y0) h0.reach4 (freshSys_inv h0.ri) hh hr
  have a1' : run y0 evs = .ok z.y := a1
  obtain ⟨lines, im, hx, hcs, htot, hnd, hna⟩ := stop_restart_totals a2 a3 hev hs p himg
  have hcons := conservation_reachable y0 z.y evs h0.ri.fi h0.i5 hh a1'
  have hm := matchableAlong_of_histOk evs y0 h0.i5.inv5 hh
  obtain ⟨_, hj, _⟩ := run_total evs h0.ri.fi.hinv h0.ri.fi.jinv a1' hm
  obtain ⟨_, _, hstep, _⟩ := sysStep_total _ a2.hinv hj (dStep_sys hs) (matchableAt_of_inv5 a2.inv5 hev)
  refine ⟨lines, im, hx, hcs, ?_, hnd, hna, ?_⟩
  · intro c hc
    rw [htot c hc]
    cases p.renamed with
    | true =>
      simp only [if_true]
      rw [hstep c]
      unfold total
      rw [hcons c]
    | false =>
      simp only [Bool.false_eq_true, if_false, add_zero]
      unfold total
      exact hcons c
  · intro n workers tsteps occ ensEng weightOf sR hres
    obtain ⟨r1, _, r3, _, _, r6⟩ := restore_image hres
    exact ⟨r1, r3, r6⟩

/-- **One worker: after crash + restart, data file + live weights of the restart file = the restart file's step
    counter** in every ensemble column. -/
theorem crash_restart_one_worker (y0 : Sys) (evs : List Ev) (z z' : DSys) (h0 : DiskStart y0)
    (hh : HistOk y0 evs) (hw : y0.s.workers = 1) (hc0 : y0.s.cstep = 0)
    (hr : dRun (freshSys y0) evs = .ok z)
    (k : Nat) (status : Status) (newW : List (List Rat)) (o : PickOutcome)
    (hev : EvOk z.y (.step k status newW o)) (hs : dStep z (.step k status newW o) = .ok z') (p : Stop)
    (himg : p.renamed = false → ∃ im, z.d.img = some im) :
    ∃ lines im, (∃ ls' s2, restartClean (stopDisk z.d ls' (persistD s2) p) = some (lines, im) ∧
        z'.d = { lines := z.d.lines ++ ls', img := some (persistD s2) }) ∧
      ∀ c, c < z.y.s.n - 1 → diskTotal lines im c = (im.cstep : Rat) := by
  obtain ⟨lines, im, hx, hcs, htot, _⟩ :=
    crash_restart_conservation y0 evs z z' h0 hh hr k status newW o hev hs p himg
  obtain ⟨a1, a2, _, _⟩ := dRun_spec evs (z := freshSys y0) h0.reach4 (freshSys_inv h0.ri) hh hr
  have a1' : run y0 evs = .ok z.y := a1
  have hm := matchableAlong_of_histOk evs y0 h0.i5.inv5 hh
  obtain ⟨_, hj, _, hn, hwk, hcstep⟩ := run_total evs h0.ri.fi.hinv h0.ri.fi.jinv a1' hm
  obtain ⟨_, _, _, _, _, hone⟩ := sysStep_total _ a2.hinv hj (dStep_sys hs) (matchableAt_of_inv5 a2.inv5 hev)
  obtain ⟨job, s2, sf⟩ := step_facts a2 (dStep_sys hs)
  refine ⟨lines, im, hx, ?_⟩
  intro c hc
  have hc' : c < y0.s.n - 1 := by rw [← hn]; exact hc
  rw [htot c hc, hcs]
  have e1 := hcstep hw c hc'
  have e2 := hone (hwk.trans hw) c hc
  have e3 : z'.y.s.cstep = z.y.s.cstep + 1 := by rw [sf.keep.cstep, sf.cstep]
  cases p.renamed with
  | true =>
    simp only [if_true]
    have : idleAt z.y (.step k status newW o) c = 1 := by omega
    rw [this, e1, hc0]
    push_cast
    ring
  | false =>
    simp only [Bool.false_eq_true, if_false, add_zero]
    rw [e1, hc0]
    simp

/-- the next completed step of the one-worker history `exEvsD`: `[1+]` (path 2) accepted, new weights `[1,1,0]` -/
def exStepD : Ev := .step 0 .acc [[1, 1, 0]] { t := 1, e := 1 }

def exZn : DSys := match dStep exZ exStepD with | .ok z => z | .error _ => exZ

/-- what the restart finds for a stop of that step after its row (path 2) was appended, with a torn piece of
    nothing more, before the replace: the old restart file (step 3), the new row dropped, totals `[3,3,3]`;
    and after the replace: the new restart file (step 4), three rows, totals `[4,4,4]` -/
example : DiskStart exSys1 ∧ HistOk exSys1 exEvsD ∧ dRun (freshSys exSys1) exEvsD = .ok exZ ∧
    EvOk exZ.y exStepD ∧ dStep exZ exStepD = .ok exZn ∧
    (dataRows exZn.d.lines).map (·.1) = [1, 3, 2] ∧
    ((restartClean (stopDisk exZ.d (exZn.d.lines.drop 5) ((exZn.d.img).getD (persistD exZ.y.s))
        { j := 1, torn := some none, renamed := false })).map
      (fun li => ((dataRows li.1).map (·.1), li.2.cstep, (List.range 3).map (fun c => diskTotal li.1 li.2 c))))
      = some ([1, 3], 3, ([3, 3, 3] : List Rat)) ∧
    ((restartClean (stopDisk exZ.d (exZn.d.lines.drop 5) ((exZn.d.img).getD (persistD exZ.y.s))
        { j := 1, renamed := true })).map
      (fun li => ((dataRows li.1).map (·.1), li.2.cstep, (List.range 3).map (fun c => diskTotal li.1 li.2 c))))
      = some ([1, 3, 2], 4, ([4, 4, 4] : List Rat)) :=
  ⟨exDiskStart1, ex_histOkD, by decide +kernel, evOk_of_B (by decide +kernel), by decide +kernel,
   by decide +kernel, by decide +kernel, by decide +kernel⟩

/-! ## 13. Chains of restarts, no matchability hypothesis

`Reach4 y` bundles the invariants of the packages the weight accounting rests on: C03's scheduler invariant with
this package's table invariant (`HInv`), "written once" (`RInv`), C05's family invariant with the positive
permanent of the idle block (`Inv5`), C06's tidy tables (`TidyY`: both tables keyed exactly by the live paths, ghost
slot empty) and the support invariant (`SupInv`).  `JInv`: no more jobs in flight than workers.
Every fresh start satisfies them (`fresh_start_reach4`), every event of a history whose outcomes are in the
weight family keeps them (`conservation_from_reachable`), and the state rebuilt from the restart image of a
quiescent state satisfies them again (`restart_is_start_state_reachable`) — so the conservation law holds over
chains of restarts of any length, without hypotheses on the states in between. -/

theorem fresh_start_reach4 (y0 : Sys) (h0 : DiskStart y0) : Reach4 y0 ∧ JInv y0 :=
  ⟨h0.reach4, h0.ri.fi.jinv⟩

/-- **Conservation from any state satisfying the invariants**: over a history with outcomes in the weight
    family, rows + table grow, per column, by the number of idle recordings; the invariants hold at the end. -/
theorem conservation_from_reachable (y y' : Sys) (evs : List Ev) (hr : Reach4 y) (hj : JInv y)
    (hh : HistOk y evs) (hrun : run y evs = .ok y') :
    Reach4 y' ∧ JInv y' ∧ y'.s.n = y.s.n ∧
    ∀ c, rowsTotal y'.s.rows c + colTotal y'.s.frac c
      = rowsTotal y.s.rows c + colTotal y.s.frac c + (idleSteps y evs c : Rat) := by
  obtain ⟨a1, a2, a3, a4⟩ := run_from_reach4 evs hr hj hh hrun
  exact ⟨a1, a2, a4, fun c => a3 c⟩

/-- **A quiescent restart is a start state again, for every invariant.**  `y1` any state satisfying the
    invariants with nothing recorded as in flight; its image is restored (any worker count, step target, engine
    table; the stored paths have the weights on record).  The restored state satisfies the invariants again, its
    table has the column totals of `y1`'s, its model row list is empty (the data file on disk goes on). -/
theorem restart_is_start_state_reachable (y1 : Sys) (hr : Reach4 y1) (hlk : y1.s.locked = [])
    (workers tsteps : Nat) (occ : List (List Int)) (ensEng : List (List Nat)) (s2 : St)
    (hrs : restore (persist y1.s) y1.s.n workers tsteps occ ensEng
      (fun pn => (y1.s.wts.lookup pn).getD []) = .ok s2) :
    Reach4 ⟨s2, []⟩ ∧ JInv ⟨s2, []⟩ ∧ (∀ c, colTotal s2.frac c = colTotal y1.s.frac c) ∧ s2.rows = [] ∧
      s2.n = y1.s.n := by
  obtain ⟨a1, a2, _, a4, a5, a6⟩ := restore_reach4 hr hlk hrs
  exact ⟨a1, a2, a4, a5, a6⟩

/-- **Conservation across a restart, no matchability hypothesis** (`restart_conservation` with C05 plugged in and
    the "table = live paths" hypothesis discharged): fresh start, history `evs1` to a quiescent state, restart,
    history `evs2`.  Rows of the first run + rows of the second run + live fractions = idle recordings of both. -/
theorem restart_conservation_reachable (y0 y1 y3 : Sys) (evs1 evs2 : List Ev) (h0 : DiskStart y0)
    (hh1 : HistOk y0 evs1) (hr1 : run y0 evs1 = .ok y1) (hlk : y1.s.locked = [])
    (workers tsteps : Nat) (occ : List (List Int)) (ensEng : List (List Nat)) (s2 : St)
    (hrs : restore (persist y1.s) y1.s.n workers tsteps occ ensEng
      (fun pn => (y1.s.wts.lookup pn).getD []) = .ok s2)
    (hh2 : HistOk ⟨s2, []⟩ evs2) (hr2 : run ⟨s2, []⟩ evs2 = .ok y3) (c : Nat) :
    rowsTotal y1.s.rows c + (rowsTotal y3.s.rows c + colTotal y3.s.frac c)
      = (idleSteps y0 evs1 c : Rat) + (idleSteps ⟨s2, []⟩ evs2 c : Rat) := by
  obtain ⟨b1, b2, _, b4⟩ := conservation_from_reachable y0 y1 evs1 h0.reach4 h0.ri.fi.jinv hh1 hr1
  obtain ⟨c1, c2, c3, c4, _⟩ := restart_is_start_state_reachable y1 b1 hlk workers tsteps occ ensEng s2 hrs
  obtain ⟨_, _, _, d4⟩ := conservation_from_reachable ⟨s2, []⟩ y3 evs2 c1 c2 hh2 hr2
  have e1 := b4 c
  have e2 := d4 c
  have z0 := h0.ri.fi.total_zero c
  unfold total at z0
  simp only [c4, rowsTotal_nil, zero_add, c3 c] at e2
  rw [e2]
  linarith

/-! ### a one-worker run to its step target, restart with a larger target, a second run; a second restart -/

theorem exDiskStartQ : DiskStart exSysQ :=
  fresh_start_is_diskStart 4 1 3 0 3 0 [[-1]] [[0], [0], [0]] false exPaths exSQ (by decide) (by decide)
    (by decide) (by decide) (by decide) exPaths_fam (by decide +kernel)

def exEndQD : Sys := match run exSysQ exEvsD with | .ok y => y | .error _ => exSysQ

def exS2D : St :=
  match restore (persist exEndQD.s) 4 1 6 [[-1]] [[0], [0], [0]] (fun pn => (exEndQD.s.wts.lookup pn).getD []) with
  | .ok s => s
  | .error _ => exBlankQ

def exEnd3D : Sys := match run ⟨exS2D, []⟩ exEvs2 with | .ok y => y | .error _ => exSysQ

example : DiskStart exSysQ ∧ HistOk exSysQ exEvsD ∧ run exSysQ exEvsD = .ok exEndQD ∧ exEndQD.s.locked = [] ∧
    restore (persist exEndQD.s) exEndQD.s.n 1 6 [[-1]] [[0], [0], [0]]
      (fun pn => (exEndQD.s.wts.lookup pn).getD []) = .ok exS2D ∧
    HistOk ⟨exS2D, []⟩ exEvs2 ∧ run ⟨exS2D, []⟩ exEvs2 = .ok exEnd3D ∧
    (List.range 4).map (idleSteps exSysQ exEvsD) = [3, 3, 3, 0] ∧
    (List.range 4).map (idleSteps ⟨exS2D, []⟩ exEvs2) = [2, 2, 2, 0] ∧
    (List.range 3).map (fun c => rowsTotal exEndQD.s.rows c + (rowsTotal exEnd3D.s.rows c + colTotal exEnd3D.s.frac c))
      = [5, 5, 5] :=
  ⟨exDiskStartQ, histOk_of_B _ _ (by decide +kernel), by decide +kernel, by decide +kernel, by decide +kernel,
   histOk_of_B _ _ (by decide +kernel), by decide +kernel, by decide +kernel, by decide +kernel, by decide +kernel⟩

/-! ## 14. Histories with stops and restarts, to any depth: the law on the two files

`Reachable one z` (Lemmas/RepexC04Resume.lean): `z` is a disk state (sampler + data file + restart file + counts)
obtained from a fresh start on a fresh disk by any sequence of
* scheduler events with outcomes in the weight family (`dStep`: any interleaving, any number of workers), and
* restarts: the next completed step is stopped anywhere inside its two weight-relevant disk effects (any number
  of whole new rows, a torn piece, before or after the `os.replace`), the restart file found records no job in
  flight, and `restartSys` = `clean_data_file` + `REPEX_state.__init__` + `load_paths` rebuilds the sampler (any worker
  count, step target, engine table); the counts go on from the recordings the restart file accounts for.
`one = true`: one worker throughout, step counter 0 at the fresh start. -/

/-- **The law on the files, for every reachable disk state.**
    1. in every ensemble column, the fractions the data file SHOWS + the fraction table = the count of completed
       steps at whose recording the column was idle;
    2. once a restart file exists: its step counter is the sampler's and the data file + the live weights of the
       restart file = that count;
    3. every path has at most one row in the data file, and no row belongs to a path active in the restart file;
    4. with one worker the count of every ensemble column is the step counter. -/
theorem files_law_reachable (one : Bool) (z : DSys) (hz : Reachable one z) :
    (∀ c, c < z.y.s.n - 1 → lineTotal z.d.lines c + colTotal z.y.s.frac c = (z.cnt.getD c 0 : Rat)) ∧
    (∀ im, z.d.img = some im → im.cstep = z.y.s.cstep ∧
        ∀ c, c < z.y.s.n - 1 → diskTotal z.d.lines im c = (z.cnt.getD c 0 : Rat)) ∧
    (lineKeys z.d.lines).Nodup ∧
    (∀ im, z.d.img = some im → ∀ pn ∈ lineKeys z.d.lines, pn ∉ activeKeys im) ∧
    (one = true → z.y.s.workers = 1 ∧ ∀ c, c < z.y.s.n - 1 → z.cnt.getD c 0 = z.y.s.cstep) := by
  obtain ⟨hg, h1⟩ := reachable_good hz
  refine ⟨hg.d.law, ?_, ?_, ?_, h1⟩
  · intro im him
    obtain ⟨_, _, f3⟩ := good_disk_facts hg im him
    exact ⟨(hg.d.img im him).cstep, f3⟩
  · obtain ⟨pre, ls, hl1, hl2, _, hnd⟩ := hg.d.lines
    rw [hl2, lineKeys_append]
    have : lineKeys ls = z.y.s.rows.map (·.1) := (fmtRows_rows _ _ hl1).1
    rw [this]; exact hnd
  · intro im him pn hpn hact
    obtain ⟨f1, _, _⟩ := good_disk_facts hg im him
    unfold lineKeys dataRows at hpn
    simp only [List.mem_map, List.mem_filterMap] at hpn
    obtain ⟨x, ⟨l, hl, hle⟩, rfl⟩ := hpn
    split at hle
    · rename_i hcond
      cases hk : l.key with
      | none => rw [hk] at hle; simp at hle
      | some q =>
        rw [hk] at hle
        simp only [Option.map_some, Option.some.injEq] at hle
        subst hle
        rcases f1 l hl with h' | ⟨_, h'⟩
        · simp [h'] at hcond
        · exact (h' q hk).2 hact
    · exact absurd hle (by simp)

/-- **One worker, any number of stops and restarts: data file + live weights of the restart file = the restart
    file's step counter**, in every ensemble column. -/
theorem files_law_one_worker (z : DSys) (hz : Reachable true z) (im : Image) (him : z.d.img = some im)
    (c : Nat) (hc : c < z.y.s.n - 1) : diskTotal z.d.lines im c = (im.cstep : Rat) := by
  obtain ⟨_, a2, _, _, a5⟩ := files_law_reachable true z hz
  obtain ⟨b1, b2⟩ := a2 im him
  rw [b2 c hc, (a5 rfl).2 c hc, b1]

/-! ### three steps, a stop inside the fourth after its row was appended (torn piece following, old restart file),
restart with a larger step target, two more events -/

theorem exReachZ : Reachable true exZ :=
  reachable_of_dRun exEvsD (Reachable.fresh exDiskStart1 (fun _ => ⟨by decide +kernel, by decide +kernel⟩))
    ex_histOkD (by decide +kernel)

def exMidD : St := match treatPart exZ.y 0 .acc [[1, 1, 0]] with | .ok (_, s2) => s2 | .error _ => exZ.y.s

def exStopD : Stop := { j := 1, torn := some none, renamed := false }

def exZr : DSys :=
  match restartSys (stopDisk exZ.d (exZn.d.lines.drop 5) (persistD exMidD) exStopD) exZ.cnt 4 1 8 [[-1]] [[0], [0], [0]]
      (fun pn => (exZ.y.s.wts.lookup pn).getD []) with
  | .ok z => z
  | .error _ => exZ

theorem exReachZr : Reachable true exZr :=
  Reachable.restart (z' := exZn) (k := 0) (status := .acc) (newW := [[1, 1, 0]]) (o := { t := 1, e := 1 }) (p := exStopD) (s2 := exMidD) (ls' := exZn.d.lines.drop 5)
    (lines := exZ.d.lines) (im := (exZ.d.img).getD (persistD exZ.y.s)) (workers := 1) (tsteps := 8)
    (occ := [[-1]]) (ensEng := [[0], [0], [0]])
    exReachZ (evOk_of_B (by decide +kernel)) (by decide +kernel) (by decide +kernel) (by decide +kernel)
    (by decide +kernel) (fun _ => rfl) (by decide +kernel)

def exEvsR : List Ev := [.start { t := 1, e := 1 }, .initDone, .step 0 .acc [[1, 1, 0]] { t := 0, e := 0 }]

def exZr2 : DSys := match dRun exZr exEvsR with | .ok z => z | .error _ => exZr

/-- after the restart the run goes on from step 3 (the restart file's): the row of path 2 that the stopped step
    had appended is gone (path 2 is live again); the restarted run makes its own fourth step ([0+], path 4
    replaced); data file + live weights are the step counter again -/
example : Reachable true exZr ∧ exZr.y.s.cstep = 3 ∧ exZr.cnt = [3, 3, 3, 0] ∧ lineKeys exZr.d.lines = [1, 3] ∧
    HistOk exZr.y exEvsR ∧ dRun exZr exEvsR = .ok exZr2 ∧ exZr2.y.s.cstep = 4 ∧ exZr2.cnt = [4, 4, 4, 0] ∧
    lineKeys exZr2.d.lines = [1, 3, 4] ∧
    (exZr2.d.img.map (fun im => (List.range 3).map (fun c => diskTotal exZr2.d.lines im c)))
      = some ([4, 4, 4] : List Rat) :=
  ⟨exReachZr, by decide +kernel, by decide +kernel, by decide +kernel, histOk_of_B _ _ (by decide +kernel),
   by decide +kernel, by decide +kernel, by decide +kernel, by decide +kernel, by decide +kernel⟩

/-! ## 15. A restart with jobs in flight (several workers, stop in mid-run)

With `W ≥ 2` workers the restart file written by a completed step records the `W − 1` jobs of the other workers
(`[current.locked]`), and the restarted run re-issues them (`pick_lock`, `locked0 ≠ []`) before it draws new
ones.  §6/§13/§14 ask for a restart file without such records.  Here the hypothesis is dropped, on the model's
row list (not on the file lines) and ONE in-flight restart deep: the state rebuilt from the image of ANY state
reached from a fresh start (also through quiescent restarts: any `Reach4` state with an exact `locked` record)
satisfies C03's restart invariant `InitR`, C05's family invariant and the table invariant, has the column totals
it had, and every history from it (outcomes in the weight family) conserves.  Not re-established for the states of
the continued run: the disk invariants of §14, "written once" and C06's `Tidy` (their proofs go through `Init`);
so a SECOND in-flight restart, and the statement on the file lines, stay with the tie.

Full statement still open (`files_law_reachable` without `hq : im.locked = []` in `Reachable.restart`):
  for every `z` obtained from a fresh start on a fresh disk by scheduler events, stops anywhere inside
  `treat_output`'s two disk effects and restarts from whatever restart file is found (any `[current.locked]`,
  any worker count), in every ensemble column `lineTotal z.d.lines c + colTotal z.y.s.frac c = z.cnt[c]`, the
  restart file (if any) has the sampler's step counter and `diskTotal z.d.lines im c = z.cnt[c]`, every path has at
  most one row and none of an active path.  What is missing is `Good` (= `Reach4` + `DiskInvG`) for the restored
  state when `locked0 ≠ []`: `HInv`/`RInv`/`Tidy`/`SupInv` re-proved over `InvR` instead of `Inv`. -/

/-- **The state rebuilt from a restart image with jobs in flight is a start state again.**  `y1` any state with the
    invariants of §13 whose `locked` record lists exactly the jobs in flight (every state reached from a fresh
    start: `reach_recInv`; the mid-state of a completed step, whose image is what `write_toml` stores:
    `mid_reach4`, `mid_recInv`).  Its image restored with any worker count / step target / engine table and the
    weights on record: C03's `InitR` (all slots idle, the recorded jobs reserved for re-issue), C05's `Inv5`, the
    table invariant, nothing in flight, the column totals of `y1`'s table, an empty model row list. -/
theorem restart_inflight_is_start_state (y1 : Sys) (hr : Reach4 y1) (hrec : RecInv y1)
    (workers tsteps : Nat) (occ : List (List Int)) (ensEng : List (List Nat)) (s2 : St)
    (hrs : restore (persist y1.s) y1.s.n workers tsteps occ ensEng
      (fun pn => (y1.s.wts.lookup pn).getD []) = .ok s2) :
    InitR ⟨s2, []⟩ ∧ Inv5 ⟨s2, []⟩ ∧ FracWF s2 ∧ JInv ⟨s2, []⟩ ∧
      (∀ c, colTotal s2.frac c = colTotal y1.s.frac c) ∧ s2.rows = [] ∧ s2.n = y1.s.n ∧ s2.workers = workers :=
  restore_inflight hr hrec hrs

/-- **Conservation from a restored state with recorded jobs**: any history (re-issue of the recorded jobs, new
    picks, completions in any order; outcomes in the weight family) from a state with C03's `InvR`, C05's `Inv5`
    and the table invariant: rows + table grow, per column, by the idle recordings; the invariants hold at the
    end; with one worker the step counter grows by the same number. -/
theorem conservation_from_inflight (y y' : Sys) (evs : List Ev) (h5 : Inv5 y) (fw : FracWF y.s) (hj : JInv y)
    (hh : HistOk y evs) (hrun : run y evs = .ok y') :
    InvR y' ∧ Inv5 y' ∧ FracWF y'.s ∧ JInv y' ∧ y'.s.n = y.s.n ∧
    (∀ c, rowsTotal y'.s.rows c + colTotal y'.s.frac c
      = rowsTotal y.s.rows c + colTotal y.s.frac c + (idleSteps y evs c : Rat)) ∧
    (y.s.workers = 1 → ∀ c, c < y.s.n - 1 → y'.s.cstep = y.s.cstep + idleSteps y evs c) := by
  have hm := matchableAlong_of_histOk evs y h5 hh
  obtain ⟨a1, a2, a3, a4, a5, _, a7⟩ := run_totalR evs h5.inv fw hj hrun hm
  exact ⟨a1, (run_preserves5 evs h5 hh hrun).1, a2, a3, a5, fun c => a4 c, a7⟩

/-- **Conservation across a restart with jobs in flight, no hypothesis on the `locked` record**
    (`restart_conservation_reachable` without `hlk`): fresh start, any history `evs1` to ANY state `y1` (any number
    of workers, jobs in flight), its image restored with any worker count / step target, any history `evs2` of the
    restarted run.  Rows of the first run + rows of the second run + live fractions = idle recordings of both. -/
theorem restart_inflight_conservation (y0 y1 y3 : Sys) (evs1 evs2 : List Ev) (h0 : DiskStart y0)
    (hl0 : y0.s.locked = []) (hh1 : HistOk y0 evs1) (hr1 : run y0 evs1 = .ok y1)
    (workers tsteps : Nat) (occ : List (List Int)) (ensEng : List (List Nat)) (s2 : St)
    (hrs : restore (persist y1.s) y1.s.n workers tsteps occ ensEng
      (fun pn => (y1.s.wts.lookup pn).getD []) = .ok s2)
    (hh2 : HistOk ⟨s2, []⟩ evs2) (hr2 : run ⟨s2, []⟩ evs2 = .ok y3) (c : Nat) :
    rowsTotal y1.s.rows c + (rowsTotal y3.s.rows c + colTotal y3.s.frac c)
      = (idleSteps y0 evs1 c : Rat) + (idleSteps ⟨s2, []⟩ evs2 c : Rat) := by
  have r1 := run_reach4 evs1 h0.reach4 hh1 hr1
  have hrec := reach_recInv h0.ri.fi.init hl0 hr1
  obtain ⟨_, b5, bfw, bj, bcol, brows, _, _⟩ :=
    restart_inflight_is_start_state y1 r1 hrec workers tsteps occ ensEng s2 hrs
  obtain ⟨_, _, _, _, _, d, _⟩ := conservation_from_inflight ⟨s2, []⟩ y3 evs2 b5 bfw bj hh2 hr2
  have e1 := conservation_reachable y0 y1 evs1 h0.ri.fi h0.i5 hh1 hr1 c
  have e2 := d c
  simp only [brows, rowsTotal_nil, zero_add, bcol c] at e2
  rw [e2]
  linarith

/-- **The same for the restart file as it is on disk**: the image `write_toml` stores at the end of a completed
    step is the one of the mid-state (before the freed worker's next `prep_md_items`).  `y` reached from a fresh
    start, one more completed step (any job `k`, any status, outcome in the family); `sM` = the state
    `treat_output` leaves.  Its image (`persistD`: the fraction section in the order written) restored with any
    worker count — the `locked` record holds the other workers' jobs — and any history of the restarted run:
    rows up to and including this step + rows of the restarted run + live fractions = idle recordings of the
    history + this step's + the restarted run's. -/
theorem midstep_restart_inflight_conservation (y0 y y' y3 : Sys) (evs evs2 : List Ev) (h0 : DiskStart y0)
    (hl0 : y0.s.locked = []) (hh : HistOk y0 evs) (hr : run y0 evs = .ok y)
    (k : Nat) (status : Status) (newW : List (List Rat)) (o : PickOutcome)
    (hev : EvOk y (.step k status newW o)) (hs : sysStep y (.step k status newW o) = .ok y') :
    ∃ job sM pns it, y.jobs[k]? = some job ∧
      treatOutput (loop y.s).1 job status newW (sortFuel (loop y.s).1) = .ok (sM, pns, it) ∧
      ∀ (workers tsteps : Nat) (occ : List (List Int)) (ensEng : List (List Nat)) (sR : St),
        restore (persistD sM) sM.n workers tsteps occ ensEng (fun pn => (sM.wts.lookup pn).getD []) = .ok sR →
        HistOk ⟨sR, []⟩ evs2 → run ⟨sR, []⟩ evs2 = .ok y3 →
        InvR y3 ∧ FracWF y3.s ∧ ∀ c,
          rowsTotal sM.rows c + (rowsTotal y3.s.rows c + colTotal y3.s.frac c)
            = (idleSteps y0 evs c : Rat) + (idleAt y (.step k status newW o) c : Rat)
              + (idleSteps ⟨sR, []⟩ evs2 c : Rat) := by
  have r := run_reach4 evs h0.reach4 hh hr
  have hrec := reach_recInv h0.ri.fi.init hl0 hr
  obtain ⟨job, sM, pns, it, hjob, htreat, _, rM, hk⟩ := mid_reach4 r hev hs
  have hrecM : RecInv ⟨sM, y.jobs.eraseIdx k⟩ :=
    mid_recInv (Inv.toInvR r.hinv.inv) hrec hs job sM pns it hjob htreat
  refine ⟨job, sM, pns, it, hjob, htreat, ?_⟩
  intro workers tsteps occ ensEng sR hres hh2 hr2
  rw [restore_persistD] at hres
  obtain ⟨_, b5, bfw, bj, bcol, brows, _, _⟩ :=
    restart_inflight_is_start_state ⟨sM, y.jobs.eraseIdx k⟩ rM hrecM workers tsteps occ ensEng sR hres
  obtain ⟨d1, _, d3, _, _, d, _⟩ := conservation_from_inflight ⟨sR, []⟩ y3 evs2 b5 bfw bj hh2 hr2
  refine ⟨d1, d3, fun c => ?_⟩
  have e1 := conservation_reachable y0 y evs h0.ri.fi h0.i5 hh hr c
  have hm := matchableAlong_of_histOk evs y0 h0.i5.inv5 hh
  obtain ⟨_, hj, _⟩ := run_total evs h0.ri.fi.hinv h0.ri.fi.jinv hr hm
  obtain ⟨_, _, hstep, _⟩ := sysStep_total _ r.hinv hj hs (matchableAt_of_inv5 r.inv5 hev)
  have e2 := hstep c
  unfold total at e2
  rw [hk.frac, hk.rows] at e2
  have e3 := d c
  simp only [brows, rowsTotal_nil, zero_add, bcol c] at e3
  rw [e3]
  linarith

/-! ### two workers: stop after the first completed step of `exEvs` (the other worker's job on record), restart -/

/-- the mid-state of the zero-swap completion in `exMid` is `exMidTreated`; its image records the other worker's job: slot 2 (`[1+]`), path 2 -/
def exInflightS : St :=
  match restore (persistD exMidTreated) 4 2 10 [[-1, -1]] [[0], [0], [0]]
      (fun pn => (exMidTreated.wts.lookup pn).getD []) with
  | .ok s => s
  | .error _ => exMid.s

/-- the restarted run: worker 0 re-issues the recorded `[1+]` job (the outcome is ignored), worker 1 picks `[0+]`,
    initiation closes, the re-issued job completes ACCEPTED -/
def exInflightEvs : List Ev :=
  [ .start { t := 0, e := 0 }, .start { t := 1, e := 1 }, .initDone,
    .step 0 .acc [[1, 1, 0]] { t := 2, e := 2 } ]

def exInflightEnd : Sys := match run ⟨exInflightS, []⟩ exInflightEvs with | .ok y => y | .error _ => exMid

example : DiskStart exSys ∧ exSys.s.locked = [] ∧ HistOk exSys (exEvs.take 3) ∧ run exSys (exEvs.take 3) = .ok exMid ∧
    EvOk exMid (.step 0 .acc [[1], [1, 1, 0]] { t := 0, e := 0, coin := false }) ∧
    sysStep exMid (.step 0 .acc [[1], [1, 1, 0]] { t := 0, e := 0, coin := false }) = .ok exMidNext ∧
    (persistD exMidTreated).locked = [([2], [2])] ∧
    restore (persistD exMidTreated) 4 2 10 [[-1, -1]] [[0], [0], [0]]
      (fun pn => (exMidTreated.wts.lookup pn).getD []) = .ok exInflightS ∧
    exInflightS.locked0 = [([2], [2])] ∧
    HistOk ⟨exInflightS, []⟩ exInflightEvs ∧ run ⟨exInflightS, []⟩ exInflightEvs = .ok exInflightEnd ∧
    exInflightEnd.jobs.map (·.pnumOld) = [[4], [5]] ∧
    (List.range 4).map (idleSteps ⟨exInflightS, []⟩ exInflightEvs) = [1, 0, 1, 0] ∧
    (List.range 3).map (fun c => rowsTotal exMidTreated.rows c
        + (rowsTotal exInflightEnd.s.rows c + colTotal exInflightEnd.s.frac c)) = [2, 1, 1] :=
  ⟨exDiskStart, by decide +kernel, histOk_of_B _ _ (by decide +kernel), by decide +kernel,
   evOk_of_B (by decide +kernel), by decide +kernel, by decide +kernel, by decide +kernel, by decide +kernel,
   histOk_of_B _ _ (by decide +kernel), by decide +kernel, by decide +kernel, by decide +kernel, by decide +kernel⟩

/-! ## 16. The end-of-run `write_toml` and "rewrite only if changed"

`loop()` calls `write_toml` once more when the step target is reached (`finishDisk`); this is the restart file a
user continues a finished run from.  `clean_data_file` rewrites the data file only if it dropped a line
(`cleanRewrites`). -/

/-- no row of the data file of a good disk state belongs to a path active in its restart file -/
theorem good_no_active_row {Z : DSys} (hg : Good Z) (im : Image) (him : Z.d.img = some im) :
    ∀ pn ∈ lineKeys Z.d.lines, pn ∉ activeKeys im := by
  intro pn hpn hact
  obtain ⟨f1, _, _⟩ := good_disk_facts hg im him
  unfold lineKeys dataRows at hpn
  simp only [List.mem_map, List.mem_filterMap] at hpn
  obtain ⟨x, ⟨l, hl, hle⟩, rfl⟩ := hpn
  split at hle
  · rename_i hcond
    cases hk : l.key with
    | none => rw [hk] at hle; simp at hle
    | some q =>
      rw [hk] at hle
      simp only [Option.map_some, Option.some.injEq] at hle
      subst hle
      rcases f1 l hl with h' | ⟨_, h'⟩
      · simp [h'] at hcond
      · exact (h' q hk).2 hact
  · exact absurd hle (by simp)

/-- **The end-of-run `write_toml` keeps the law, for every reachable disk state.**  `finishDisk` leaves the data
    file alone; below the step target it does nothing, at the step target the restart file becomes the image of the
    current sampler state.  Either way, for the restart file `im` on the resulting disk: its step and path
    counters are the sampler's, data file + live weights of `im` = the count of idle recordings in every ensemble
    column (one worker: = `im.cstep`), no row belongs to a path active in `im`, and a restart's
    `clean_data_file` neither drops a line nor rewrites the file. -/
theorem finishDisk_keeps_law (one : Bool) (z : DSys) (hz : Reachable one z) :
    (finishDisk z.d z.y.s).lines = z.d.lines ∧
    (z.y.s.cstep ≥ z.y.s.tsteps → (finishDisk z.d z.y.s).img = some (persistD z.y.s)) ∧
    (¬ z.y.s.cstep ≥ z.y.s.tsteps → finishDisk z.d z.y.s = z.d) ∧
    ∀ im, (finishDisk z.d z.y.s).img = some im →
      im.cstep = z.y.s.cstep ∧ im.trajNum = z.y.s.trajNum ∧
      (∀ c, c < z.y.s.n - 1 → diskTotal (finishDisk z.d z.y.s).lines im c = (z.cnt.getD c 0 : Rat)) ∧
      (∀ pn ∈ lineKeys (finishDisk z.d z.y.s).lines, pn ∉ activeKeys im) ∧
      cleanLines (activeKeys im) (finishDisk z.d z.y.s).lines = (finishDisk z.d z.y.s).lines ∧
      cleanRewrites (activeKeys im) (finishDisk z.d z.y.s).lines = false ∧
      (one = true → ∀ c, c < z.y.s.n - 1 → diskTotal (finishDisk z.d z.y.s).lines im c = (im.cstep : Rat)) := by
  obtain ⟨hg, h1⟩ := reachable_good hz
  have hF := finish_good hg
  refine ⟨finishDisk_lines _ _, finishDisk_img_of_done _ _, finishDisk_of_not_done _ _, ?_⟩
  intro im him
  have ig := hF.d.img im him
  obtain ⟨_, _, f3⟩ := good_disk_facts hF im him
  have hc := clean_noopG hF im him
  refine ⟨ig.cstep, ig.tn, f3, good_no_active_row hF im him, hc, (cleanRewrites_false_iff _ _).mpr hc, ?_⟩
  intro ho c hcn
  rw [f3 c hcn, (h1 ho).2 c hcn, ig.cstep]

/-- **`clean_data_file` rewrites the data file iff it drops a line** (all inputs), and what it keeps is never
    longer than what it found. -/
theorem clean_rewrites_iff_dropped (active : List Nat) (lines : List DLine) :
    (cleanRewrites active lines = true ↔ cleanLines active lines ≠ lines) ∧
    (cleanRewrites active lines = false ↔ cleanLines active lines = lines) ∧
    (cleanLines active lines).length ≤ lines.length :=
  ⟨cleanRewrites_iff active lines, cleanRewrites_false_iff active lines, List.length_filter_le _ _⟩

/-! ### a one-worker run to its step target 3: the restart file of the finished run -/

def exZQ : DSys := match dRun (freshSys exSysQ) exEvsD with | .ok z => z | .error _ => freshSys exSysQ

theorem exReachZQ : Reachable true exZQ :=
  reachable_of_dRun exEvsD (Reachable.fresh exDiskStartQ (fun _ => ⟨by decide +kernel, by decide +kernel⟩))
    (histOk_of_B _ _ (by decide +kernel)) (by decide +kernel)

example : Reachable true exZQ ∧ exZQ.y.s.cstep ≥ exZQ.y.s.tsteps ∧
    (finishDisk exZQ.d exZQ.y.s).img.map (·.cstep) = some 3 ∧
    (finishDisk exZQ.d exZQ.y.s).img.map (·.active) = some [some 0, some 4, some 2] ∧
    ((finishDisk exZQ.d exZQ.y.s).img.map (fun im =>
        (List.range 3).map (fun c => diskTotal (finishDisk exZQ.d exZQ.y.s).lines im c))) = some ([3, 3, 3] : List Rat) ∧
    -- below the step target nothing is written
    ¬ exZ.y.s.cstep ≥ exZ.y.s.tsteps ∧ finishDisk exZ.d exZ.y.s = exZ.d ∧
    -- a stop that left a whole new row behind: the restart's clean-up drops it and rewrites the file
    cleanRewrites [0, 4, 2] (exZ.d.lines ++ [{ hash := false, term := true, key := some 2 }]) = true ∧
    cleanLines [0, 4, 2] (exZ.d.lines ++ [{ hash := false, term := true, key := some 2 }]) = exZ.d.lines ∧
    cleanRewrites [0, 4, 2] exZ.d.lines = false :=
  ⟨exReachZQ, by decide +kernel, by decide +kernel, by decide +kernel, by decide +kernel, by decide +kernel,
   by decide +kernel, by decide +kernel, by decide +kernel, by decide +kernel⟩

/-! ## 17. "Record weights" on a malformed fraction table (numpy's shape check)

`Repex.addVec` is `List.zipWith`: on a vector that does not have `n` entries (a hand-edited `[current.frac]`; a
restart file written for another number of interfaces is refused by `check_config` since 971ccbc) it truncates silently, whereas the code's
`traj_data[live]["frac"] += P[idx, :]` raises `ValueError` — after crediting the paths earlier in `live_paths()`,
before anything is written.  The driver runs `treatOutputChecked` (Model/DataFileNp.lean), which mirrors that.
Every theorem above is about `treatOutput`; these theorems say the two are the same wherever the theorems apply. -/

/-- **No raise ⇒ same state.**  Whenever the checked loop goes through, `recordFrac` returns the same state. -/
theorem record_checked_no_raise {s s' : St} (h : recordFracChecked s = (s', none)) : recordFrac s = .ok s' :=
  recordFracChecked_none h

/-- **Well-formed table ⇒ same behaviour, error for error.**  Slot-well-formed state, all vectors of length `n`. -/
theorem record_checked_eq_wellformed {s : St} (wf : SlotWF s) (hl : ∀ kv ∈ s.frac, kv.2.length = s.n) :
    (match recordFrac s with
     | .ok s' => recordFracChecked s = (s', none)
     | .error e => (recordFracChecked s).2 = some e) :=
  recordFracChecked_wf wf hl

/-- **`treat_output` with the checked loop = `treatOutput` in every reachable state** (fresh start, any history
    with outcomes in the weight family, any completing job, any status). -/
theorem treat_checked_eq_reachable (y0 y y' : Sys) (evs : List Ev) (h0 : FracInit y0) (h5 : Init5 y0)
    (hh : HistOk y0 evs) (hr : run y0 evs = .ok y)
    (k : Nat) (status : Status) (newW : List (List Rat)) (o : PickOutcome)
    (hev : EvOk y (.step k status newW o)) (hs : sysStep y (.step k status newW o) = .ok y') :
    ∃ job, y.jobs[k]? = some job ∧
      (treatOutputChecked (loop y.s).1 job status newW (sortFuel (loop y.s).1)).toExcept
        = treatOutput (loop y.s).1 job status newW (sortFuel (loop y.s).1) := by
  have hm := matchableAlong_of_histOk evs y0 h5.inv5 hh
  obtain ⟨hi, _, _⟩ := run_total evs h0.hinv h0.jinv hr hm
  have hi5 := (run_preserves5 evs h5.inv5 hh hr).1
  obtain ⟨job, sR, tn, pns, _, hjob, hrec, _, wf, _, _, hl, _⟩ := step_record hi hi5 hev hs
  refine ⟨job, hjob, treatOutputChecked_eq _ job status newW _ ?_⟩
  intro s1 tn' pns' h1
  rw [hrec] at h1
  simp only [Except.ok.injEq, Prod.mk.injEq] at h1
  obtain ⟨rfl, _, _⟩ := h1
  exact ⟨wf, hl⟩

/-- `exRec` with the vector of path 3 cut to two entries (as a malformed restart file would load it) -/
def exRecBad : St := { exRec with frac := [(3, [0, 1/2]), (4, [0, 0, 1, 0]), (5, [1, 0, 0, 0])] }

/-- the vector of path 4 cut instead: path 3 (earlier in `live_paths()`) is credited before the raise -/
def exRecBad2 : St := { exRec with frac := [(3, [0, 1/2, 1/2, 0]), (4, [0, 0, 1]), (5, [1, 0, 0, 0])] }

/-- the code raises `ValueError` (nothing credited when the first idle path is the malformed one; partial credit
    when it is a later one), the unchecked loop truncates and goes on; on the well-formed `exRec` both agree -/
example : recordFracChecked exRecBad = (exRecBad, some .value) ∧
    recordFrac exRecBad = .ok { exRecBad with
      frac := [(3, [0, 1/2 + 2/3]), (4, [0, 1/3, 1 + 2/3, 0]), (5, [1, 0, 0, 0])] } ∧
    recordFracChecked exRecBad2 = ({ exRecBad2 with
      frac := [(3, [0, 1/2 + 2/3, 1/2 + 1/3, 0]), (4, [0, 0, 1]), (5, [1, 0, 0, 0])] }, some .value) ∧
    recordFracChecked exRec = ({ exRec with
      frac := [(3, [0, 1/2 + 2/3, 1/2 + 1/3, 0]), (4, [0, 1/3, 1 + 2/3, 0]), (5, [1, 0, 0, 0])] }, none) ∧
    slotOk exRec = true ∧ (∀ kv ∈ exRec.frac, kv.2.length = exRec.n) := by
  decide +kernel

example : FracInit exSys ∧ Init5 exSys ∧ HistOk exSys (exEvs.take 3) ∧ run exSys (exEvs.take 3) = .ok exMid ∧
    EvOk exMid (.step 0 .acc [[1], [1, 1, 0]] { t := 0, e := 0, coin := false }) ∧
    sysStep exMid (.step 0 .acc [[1], [1, 1, 0]] { t := 0, e := 0, coin := false }) = .ok exMidNext :=
  ⟨ex_fracInit, ex_init5, histOk_of_B _ _ (by decide +kernel), by decide +kernel,
   evOk_of_B (by decide +kernel), by decide +kernel⟩

end Infretis.C04
