import Infretis.Lemmas.RepexC04C05
import Infretis.Lemmas.RepexC04Crash
/-!
# C04 — fractional weights are conserved and accounted for exactly once

Property theorems only (helper lemmas: `Infretis/Lemmas/RepexC04{Rec,Rows,Treat,Check,Frame,Hist,Once,Restart,C05,Crash}.lean`;
the history theorems use C03's scheduler invariant `Inv` from `RepexC03{Core,Treat,Sys,Init,Load}.lean`).
Model: `Infretis/Model/Repex.lean` (`recordFrac` = the "record weights" loop of `treat_output`,
`writeRows` = `write_to_pathens`, `treatOutput`, the scheduler events `sysStep`/`run`, the restart
image `persist`/`restore`); the swap-probability matrix is the specification
`Perm.probMatrix` (C02 ties `inf_retis` to it).

Vocabulary
* `colTotal l c`     = `Σ_key l[key][c]`     column total of a table of fraction vectors
* `rowsTotal rows c` = the same over the `frac` part of the data-file rows
* `fracAt l k c`     = entry `c` of the vector of path `k`
* `SlotWF s`   slot/lock well-formedness at recording time: `W`, `trajs`, `locks` have `n` entries, the
               ghost (last slot) is locked, every idle slot holds a path, distinct slots hold distinct
               paths.  (All of it is part of C03's invariant `Core`.)
* `Matchable s`  the idle block has a non-zero permanent (C05 shows that the sampler keeps it).
* `FracWF s`   the fraction table has pairwise distinct keys `< trajNum` and vectors of length `n`.
Slots: ensemble `ens_num` lives in slot/column `ens_num + 1`; the last slot/column is the ghost.
-/
namespace Infretis.C04
open Infretis.Repex Infretis.Repex.Frac Infretis.Perm

/-! ## 1. One recording adds one unit per idle column -/

/-- **One "record weights" pass.**  On a well-formed matchable state, if `recordFrac s = ok s'`:
    1. every idle column gains exactly 1 in total, every other column (busy, ghost, out of range) 0;
    2. nothing but `frac` changes and the set of keys is the same;
    3. only vectors of idle live paths change;
    4. the vector of the path `pn` sitting in the idle slot `i` gains `probMatrix[i][c]` in entry `c`,
       which is the permanent ratio of the idle block when column `c` is idle, `0` when column `c` is
       not idle, `0` when `W[i][c] = 0`, and `≥ 0` when all weights are `≥ 0`. -/
theorem recordFrac_adds_one_per_idle_column {s s' : St} (wf : SlotWF s) (hM : Matchable s)
    (hk : (s.frac.map Prod.fst).Nodup) (hl : ∀ kv ∈ s.frac, kv.2.length = s.n)
    (h : recordFrac s = .ok s') :
    (∀ c, colTotal s'.frac c - colTotal s.frac c = if s.locks[c]? = some false then 1 else 0) ∧
    s' = { s with frac := s'.frac } ∧ s'.frac.map Prod.fst = s.frac.map Prod.fst ∧
    (∀ k, (∀ i, i < s.n - 1 → s.locks[i]? = some false → s.trajs[i]? ≠ some (some k)) →
        s'.frac.lookup k = s.frac.lookup k) ∧
    (∀ i pn, i < s.n - 1 → s.locks[i]? = some false → s.trajs[i]? = some (some pn) → ∀ c,
        fracAt s'.frac pn c - fracAt s.frac pn c = entry (prob s) i c ∧
        (s.locks[c]? = some false →
          entry (prob s) i c = pSpec (idle s.W s.locks) (rank s.locks i) (rank s.locks c)) ∧
        (s.locks[c]? ≠ some false → entry (prob s) i c = 0) ∧
        (entry s.W i c = 0 → entry (prob s) i c = 0) ∧
        ((∀ r ∈ s.W, ∀ x ∈ r, 0 ≤ x) → 0 ≤ entry (prob s) i c)) := by
  have hW : s.W.length = s.locks.length := by rw [wf.lenW, wf.lenL]
  obtain ⟨h1, h2, _, _, h5, h6⟩ := recordFrac_spec wf hk hl h
  refine ⟨?_, h1, h2, h6, ?_⟩
  · intro c
    rw [recordFrac_col wf hM hk hl h c]
    ring
  · intro i pn hi hli htr c
    refine ⟨?_, ?_, ?_, ?_, ?_⟩
    · rw [h5 i pn hi hli htr c]; ring
    · intro hc; exact probMatrix_idle s.W s.locks hW i c hli hc
    · intro hc; exact probMatrix_zero_of_not_idle s.W s.locks hW i c (Or.inr hc)
    · intro hz; exact probMatrix_zero_of_weight_zero s.W s.locks hW i c hz
    · intro hnn; exact probMatrix_nonneg s.W s.locks hW hnn i c

/-- column sums of the swap-probability matrix itself: 1 for an idle column, else 0 -/
theorem prob_column_sum {s : St} (wf : SlotWF s) (hM : Matchable s) (c : Nat) :
    ((List.range s.n).map (fun i => entry (prob s) i c)).sum
      = if s.locks[c]? = some false then 1 else 0 := by
  have := probMatrix_col_sum s.W s.locks (by rw [wf.lenW, wf.lenL]) hM c
  rw [wf.lenL] at this
  exact this

/-- Example state: 3 ensembles + ghost; `[0-]` (slot 0, path 5) is busy, `[0+]` and `[1+]` idle with
    paths 3 and 4; idle block `[[1,1],[1,2]]`, permanent 3. -/
def exRec : St :=
  { blank 4 2 10 3 6 0 [[-1, -1]] [[0], [0], [0]] false [] with
    W := [[1,0,0,0], [0,1,1,0], [0,1,2,0], [0,0,0,0]],
    trajs := [some 5, some 3, some 4, none],
    locks := [true, false, false, true],
    toinitiate := -1,
    frac := [(3, [0, 1/2, 1/2, 0]), (4, [0, 0, 1, 0]), (5, [1, 0, 0, 0])],
    wts := [(3, [1, 1]), (4, [1, 2]), (5, [1])] }

example : slotOk exRec = true ∧ Matchable exRec ∧ (exRec.frac.map Prod.fst).Nodup ∧
    (∀ kv ∈ exRec.frac, kv.2.length = exRec.n) ∧
    recordFrac exRec = .ok { exRec with
      frac := [(3, [0, 1/2 + 2/3, 1/2 + 1/3, 0]), (4, [0, 1/3, 1 + 2/3, 0]), (5, [1, 0, 0, 0])] } := by
  decide +kernel

/-! ## 2. The data file receives exactly what leaves the table -/

/-- **`write_to_pathens`.**  If `writeRows s l = ok s'` (table keys distinct): the data file grows by
    exactly one row per listed number, in order, each carrying the `frac` (and `weights`) vector the
    path had; exactly the listed keys leave `frac` and `wts`; nothing else changes; the listed
    numbers are pairwise distinct; for every column the total over (data rows + table) is unchanged. -/
theorem writeRows_moves_mass (l : List Nat) (s s' : St) (hk : (s.frac.map Prod.fst).Nodup)
    (h : writeRows s l = .ok s') :
    (∃ news : List (Nat × List Rat × List Rat), s'.rows = s.rows ++ news ∧ news.map (·.1) = l ∧
        ∀ r ∈ news, s.frac.lookup r.1 = some r.2.1 ∧ s.wts.lookup r.1 = some r.2.2) ∧
    s'.frac = s.frac.filter (fun kv => !l.contains kv.1) ∧
    s'.wts = s.wts.filter (fun kv => !l.contains kv.1) ∧
    s' = { s with rows := s'.rows, frac := s'.frac, wts := s'.wts } ∧
    l.Nodup ∧
    (∀ c, rowsTotal s'.rows c + colTotal s'.frac c = rowsTotal s.rows c + colTotal s.frac c) :=
  writeRows_spec l s s' hk h

example : (exRec.frac.map Prod.fst).Nodup ∧
    writeRows exRec [5, 3] = .ok { exRec with
      rows := [(5, [1, 0, 0, 0], [1]), (3, [0, 1/2, 1/2, 0], [1, 1])],
      frac := [(4, [0, 0, 1, 0])], wts := [(4, [1, 2])] } := by
  decide +kernel

/-! ## 3. Conservation across one `treat_output` -/

/-- **One completed move.**  Let `s1` be the recording state (`recState`: the job's ensembles got
    their new/old paths back and are unlocked; new paths entered the table with zero vectors).
    `treatOutput` ends with the locks of `s1`, which are the locks of `s` with the job's slots
    released.  If the table of `s` is well formed and `s1` is slot-well-formed, the table stays well
    formed, and if moreover `s1` is matchable then for every column `c`
    `total(rows) + total(frac)` grows by exactly 1 if `c` is idle after the release, by 0 otherwise. -/
theorem treatOutput_conservation {s s' : St} {job : Job} {status : Status} {newW : List (List Rat)}
    {fuel : Nat} {pns : List Nat} {it : Nat} (fw : FracWF s)
    (h : treatOutput s job status newW fuel = .ok (s', pns, it)) :
    ∃ s1 tn, recState s job status newW = .ok (s1, tn, pns) ∧
      s1.locks = unlockAll s.locks (job.picked.map (fun p => (p.ens + 1).toNat)) ∧
      s'.locks = s1.locks ∧ s'.n = s.n ∧ s'.trajNum = tn ∧
      tn = s.trajNum + (if status = .acc then job.picked.length else 0) ∧
      (SlotWF s1 →
        FracWF s' ∧
        (Matchable s1 → ∀ c, rowsTotal s'.rows c + colTotal s'.frac c
          = rowsTotal s.rows c + colTotal s.frac c + (if s'.locks[c]? = some false then 1 else 0))) :=
  treatOutput_total fw h

/-- the job holding `[0-]` with path 5 in `exRec` -/
def exJob : Job :=
  { pin := 0, wfolder := 0, pnumOld := [5],
    picked := [{ ens := -1, pn := 5, rgen := ⟨0, [0, 0]⟩, rgenEng := ⟨0, [0, 0, 0]⟩, engIdx := [(0, 0)] }] }

def exRecSt : St :=
  match recState exRec exJob .acc [[1]] with
  | .ok (s, _, _) => s
  | .error _ => exRec

def exAfter : St :=
  match treatOutput exRec exJob .acc [[1]] 20 with
  | .ok (s, _, _) => s
  | .error _ => exRec

/-- ACC of the `[0-]` job: path 5 is replaced by the new path 6; all three ensemble columns are idle at
    recording time; the row of path 5 goes to the data file. -/
example : fracOk exRec = true ∧ treatOutput exRec exJob .acc [[1]] 20 = .ok (exAfter, [6], 0) ∧
    recState exRec exJob .acc [[1]] = .ok (exRecSt, 7, [6]) ∧ slotOk exRecSt = true ∧
    Matchable exRecSt ∧ exAfter.locks = [false, false, false, true] ∧
    exAfter.rows = [(5, [1, 0, 0, 0], [1])] ∧
    exAfter.frac = [(3, [0, 1/2 + 2/3, 1/2 + 1/3, 0]), (4, [0, 1/3, 1 + 2/3, 0]), (6, [1, 0, 0, 0])] := by
  decide +kernel

/-! ## 4. Conservation over whole histories

Quantifier: every fresh start `y0` (`FracInit`: C03's `Init` — what `load_paths` leaves — with a
well-formed all-zero fraction table and an empty data file), every event list `evs` (any
interleaving of completions, any accept/reject outcome, any number of workers), every `y` with
`run y0 evs = ok y`.  `idleSteps y0 evs c` counts, by recursion alongside `run`, the completed
steps of the history at whose recording time (`recState`) column `c` was idle.
`MatchableAlong y0 evs` = at each of these recordings the idle block has a non-zero permanent
(C05's invariant; carried as a hypothesis here). -/

/-- **Conservation.**  Data-file rows plus the fractions of the paths still in the table sum, per
    column, to the number of completed steps at which that column was idle. -/
theorem conservation (y0 y : Sys) (evs : List Ev) (h0 : FracInit y0) (hr : run y0 evs = .ok y)
    (hm : MatchableAlong y0 evs) (c : Nat) :
    rowsTotal y.s.rows c + colTotal y.s.frac c = (idleSteps y0 evs c : Rat) := by
  obtain ⟨_, _, ht, _⟩ := run_total evs h0.hinv h0.jinv hr hm
  have := ht c
  rw [h0.total_zero c] at this
  unfold total at this
  rw [this]; ring

/-- the same from any state satisfying the invariants (used across restarts): the totals grow by
    the number of idle recordings of the continuation -/
theorem conservation_from (y0 y : Sys) (evs : List Ev) (hi : HInv y0) (hj : JInv y0)
    (hr : run y0 evs = .ok y) (hm : MatchableAlong y0 evs) (c : Nat) :
    rowsTotal y.s.rows c + colTotal y.s.frac c
      = rowsTotal y0.s.rows c + colTotal y0.s.frac c + (idleSteps y0 evs c : Rat) ∧ HInv y ∧ JInv y := by
  obtain ⟨h1, h2, ht, _⟩ := run_total evs hi hj hr hm
  exact ⟨ht c, h1, h2⟩

/-- **One worker: every ensemble column total equals the step counter.** -/
theorem conservation_one_worker (y0 y : Sys) (evs : List Ev) (h0 : FracInit y0)
    (hw : y0.s.workers = 1) (hc0 : y0.s.cstep = 0) (hr : run y0 evs = .ok y)
    (hm : MatchableAlong y0 evs) (c : Nat) (hc : c < y.s.n - 1) :
    rowsTotal y.s.rows c + colTotal y.s.frac c = (y.s.cstep : Rat) := by
  obtain ⟨_, _, _, hn, _, hcs⟩ := run_total evs h0.hinv h0.jinv hr hm
  rw [conservation y0 y evs h0 hr hm c, hcs hw c (by rw [← hn]; exact hc), hc0]
  simp

/-- with one worker every completed step is an idle recording for every ensemble column -/
theorem one_worker_all_idle (y0 y : Sys) (evs : List Ev) (h0 : FracInit y0)
    (hw : y0.s.workers = 1) (hr : run y0 evs = .ok y) (hm : MatchableAlong y0 evs) (c : Nat)
    (hc : c < y0.s.n - 1) : y.s.cstep = y0.s.cstep + idleSteps y0 evs c := by
  obtain ⟨_, _, _, _, _, hcs⟩ := run_total evs h0.hinv h0.jinv hr hm
  exact hcs hw c hc

/-! ### a two-worker and a one-worker history -/

def exPaths : List (Nat × List Rat × List Rat) :=
  [(0, [1], [0,0,0,0]), (1, [1,1,0], [0,0,0,0]), (2, [1,1,0], [0,0,0,0])]

def exBlank : St := blank 4 2 10 0 3 0 [[-1, -1]] [[0], [0], [0]] false []

def exS0 : St :=
  match loadPaths exBlank exPaths with
  | .ok s => s
  | .error _ => exBlank

def exSys : Sys := { s := exS0, jobs := [] }

/-- worker 0 starts a zero swap (holds `[0-]`, `[0+]`), worker 1 starts `[1+]`, initiation closes,
    the zero swap completes ACCEPTED (`[1+]` busy at the recording) and worker 0 restarts on `[0-]`,
    then worker 1's job completes REJECTED (`[0-]` busy at the recording). -/
def exEvs : List Ev :=
  [ .start { t := 0, e := 0, coin := true, partner := 1 },
    .start { t := 2, e := 2 },
    .initDone,
    .step 0 .acc [[1], [1, 1, 0]] { t := 0, e := 0, coin := false },
    .step 0 .rej [] { t := 2, e := 2 } ]

def exEnd : Sys := match run exSys exEvs with | .ok y => y | .error _ => exSys

theorem ex_fracInit : FracInit exSys :=
  ⟨init_of_loadPaths 4 2 10 0 3 0 [[-1, -1]] [[0], [0], [0]] false exPaths exS0 (by decide) (by decide)
      (by decide) (by decide) (by decide +kernel),
   fracWF_of_fracOk (by decide +kernel), by decide +kernel, by decide +kernel⟩

example : FracInit exSys ∧ run exSys exEvs = .ok exEnd ∧ MatchableAlong exSys exEvs ∧
    (List.range 5).map (idleSteps exSys exEvs) = [1, 2, 1, 0, 0] ∧
    exEnd.s.rows = [(0, [0, 0, 0, 0], [1]), (1, [0, 0, 0, 0], [1, 1, 0])] ∧
    exEnd.s.frac = [(2, [0, 1/2, 1/2, 0]), (3, [1, 0, 0, 0]), (4, [0, 3/2, 1/2, 0])] :=
  ⟨ex_fracInit, by decide +kernel, matchableAlong_of_B _ _ (by decide +kernel), by decide +kernel,
   by decide +kernel, by decide +kernel⟩

def exBlank1 : St := blank 4 1 10 0 3 0 [[-1]] [[0], [0], [0]] false []

def exS1 : St :=
  match loadPaths exBlank1 exPaths with
  | .ok s => s
  | .error _ => exBlank1

def exSys1 : Sys := { s := exS1, jobs := [] }

/-- one worker: `[1+]` accepted (new weights `[1,2,0]`), `[0-]` rejected, `[0+]` accepted -/
def exEvs1 : List Ev :=
  [ .start { t := 1, e := 2 },
    .initDone,
    .step 0 .acc [[1, 2, 0]] { t := 0, e := 0, coin := false },
    .step 0 .rej [] { t := 2, e := 1 },
    .step 0 .acc [[1, 1, 1]] { t := 2, e := 2 } ]

def exEnd1 : Sys := match run exSys1 exEvs1 with | .ok y => y | .error _ => exSys1

theorem ex_fracInit1 : FracInit exSys1 :=
  ⟨init_of_loadPaths 4 1 10 0 3 0 [[-1]] [[0], [0], [0]] false exPaths exS1 (by decide) (by decide)
      (by decide) (by decide) (by decide +kernel),
   fracWF_of_fracOk (by decide +kernel), by decide +kernel, by decide +kernel⟩

example : FracInit exSys1 ∧ exSys1.s.workers = 1 ∧ exSys1.s.cstep = 0 ∧
    run exSys1 exEvs1 = .ok exEnd1 ∧ MatchableAlong exSys1 exEvs1 ∧ exEnd1.s.cstep = 3 ∧
    exEnd1.s.n = 4 ∧
    exEnd1.s.rows = [(1, [0, 0, 0, 0], [1, 1, 0]), (3, [0, 2/3, 4/3, 0], [1, 2, 0])] ∧
    exEnd1.s.frac = [(2, [0, 11/6, 7/6, 0]), (0, [3, 0, 0, 0]), (4, [0, 1/2, 1/2, 0])] :=
  ⟨ex_fracInit1, by decide +kernel, by decide +kernel, by decide +kernel,
   matchableAlong_of_B _ _ (by decide +kernel), by decide +kernel, by decide +kernel,
   by decide +kernel, by decide +kernel⟩

/-! ## 5. A path's row is written exactly once, when it is replaced, never while it is live

`RowInit y0` = `FracInit y0` and every path sitting in a slot has a table entry and the path numbers
in the slots are pairwise distinct (what `load_paths` leaves).  `writtenAt y ev` = the old path
numbers of the completing job when `ev` is a `.step` with status ACC, `[]` otherwise;
`writtenAlong y0 evs` = their concatenation along the history.  No matchability needed. -/

/-- **Written once.**  In every reachable state: the path numbers of the data-file rows are pairwise
    distinct; none of them is live (sits in a slot); none of them is still in the fraction table
    (`restart.toml [current.frac]`); the rows are exactly those written by the accepted completions of
    the history, in order; live path numbers are pairwise distinct and, like the written ones, below
    the path counter (so the fresh numbers `trajNum, trajNum+1, …` are new). -/
theorem row_written_once (y0 y : Sys) (evs : List Ev) (h0 : RowInit y0) (hr : run y0 evs = .ok y) :
    (y.s.rows.map (·.1)).Nodup ∧
    (∀ pn ∈ y.s.rows.map (·.1), some pn ∉ y.s.trajs) ∧
    (∀ pn ∈ y.s.rows.map (·.1), pn ∉ y.s.frac.map Prod.fst) ∧
    y.s.rows.map (·.1) = writtenAlong y0 evs ∧
    (y.s.trajs.filterMap id).Nodup ∧
    (∀ pn, some pn ∈ y.s.trajs → pn < y.s.trajNum) ∧
    (∀ pn ∈ y.s.rows.map (·.1), pn < y.s.trajNum) := by
  obtain ⟨hi, r, hrows⟩ := run_rinv evs h0.fi.hinv h0.rinv hr
  refine ⟨r.rowsNodup, ?_, r.rowsFrac, ?_, r.liveNodup, ?_, r.rowsBound⟩
  · intro pn hpn hm
    exact r.rowsFrac pn hpn (r.liveFrac pn hm)
  · rw [hrows, h0.fi.rows]; simp
  · intro pn hm
    exact hi.fw.bound pn (r.liveFrac pn hm)

/-- **Written when replaced.**  One event from a reachable state appends rows exactly for
    `writtenAt y ev`: for a `.step` completing job `job` these are the paths the job held
    (`job.picked`'s path numbers) if the move was accepted and none if it was rejected; every one of
    them was live before the event and is not live after it. -/
theorem row_written_when_replaced (y0 y y' : Sys) (evs : List Ev) (ev : Ev) (h0 : RowInit y0)
    (hr : run y0 evs = .ok y) (hs : sysStep y ev = .ok y') :
    y'.s.rows.map (·.1) = y.s.rows.map (·.1) ++ writtenAt y ev ∧
    (∀ pn ∈ writtenAt y ev, some pn ∈ y.s.trajs ∧ some pn ∉ y'.s.trajs) ∧
    (∀ k status newW o job, ev = .step k status newW o → y.jobs[k]? = some job →
      writtenAt y ev = if status = .acc then job.picked.map (·.pn) else []) := by
  obtain ⟨hi, r, _⟩ := run_rinv evs h0.fi.hinv h0.rinv hr
  obtain ⟨_, h1, h2⟩ := sysStep_rinv ev hi r hs
  refine ⟨h1, h2, ?_⟩
  intro k status newW o job hev hjob
  subst hev
  simp only [writtenAt, hjob, written]
  rw [r.jobsOld job (List.mem_of_getElem? hjob)]

/-- **`RowInit` (hence `FracInit`) is what a fresh start produces**: `REPEX_state.__init__` followed
    by `load_paths` on `n − 1` initial paths with pairwise distinct numbers below `trajNum` and all-zero
    fraction vectors of length `n` (any weights, workers, engine table), `n ≥ 2`, no restart jobs —
    if `load_paths` does not raise, the state with nothing in flight satisfies `RowInit`. -/
theorem fresh_start_is_rowInit (n workers tsteps cstep trajNum seed : Nat) (occ : List (List Int))
    (ensEng : List (List Nat)) (restarted : Bool) (paths : List (Nat × List Rat × List Rat)) (s : St)
    (hn : 2 ≤ n) (hlen : paths.length = n - 1) (hnd : (paths.map (·.1)).Nodup)
    (hlt : ∀ p ∈ paths, p.1 < trajNum) (hz : ∀ p ∈ paths, p.2.2 = List.replicate n 0)
    (h : loadPaths (blank n workers tsteps cstep trajNum seed occ ensEng restarted []) paths = .ok s) :
    RowInit ⟨s, []⟩ :=
  rowInit_of_loadPaths n workers tsteps cstep trajNum seed occ ensEng restarted paths s hn hlen hnd hlt hz h

theorem ex_rowInit : RowInit exSys :=
  fresh_start_is_rowInit 4 2 10 0 3 0 [[-1, -1]] [[0], [0], [0]] false exPaths exS0 (by decide)
    (by decide) (by decide) (by decide) (by decide +kernel) (by decide +kernel)

theorem ex_rowInit1 : RowInit exSys1 := rowInit_of_liveOk ex_fracInit1 (by decide +kernel)

example : RowInit exSys ∧ run exSys exEvs = .ok exEnd ∧ writtenAlong exSys exEvs = [0, 1] ∧
    exEnd.s.trajs = [some 3, some 4, some 2, none] ∧ exEnd.s.frac.map Prod.fst = [2, 3, 4] :=
  ⟨ex_rowInit, by decide +kernel, by decide +kernel, by decide +kernel, by decide +kernel⟩

/-- the fourth event of the two-worker history (the zero swap completes ACCEPTED) writes paths 0, 1 -/
example : run exSys (exEvs.take 3) = .ok (match run exSys (exEvs.take 3) with | .ok y => y | .error _ => exSys) ∧
    writtenAt (match run exSys (exEvs.take 3) with | .ok y => y | .error _ => exSys)
      (.step 0 .acc [[1], [1, 1, 0]] { t := 0, e := 0, coin := false }) = [0, 1] := by
  decide +kernel

example : RowInit exSys1 ∧ run exSys1 exEvs1 = .ok exEnd1 ∧ writtenAlong exSys1 exEvs1 = [1, 3] :=
  ⟨ex_rowInit1, by decide +kernel, by decide +kernel⟩

/-! ## 6. Restarts

`persist s` is what `write_toml` stores (`[current]`: active paths, `frac`, counters);
`restore im n …` is `REPEX_state.__init__` + `load_paths` on the image (`weightOf pn` = the weight
vector recomputed from the stored path).  The data-file list of the model starts empty in the new
run (the file on disk is appended to), so across a restart the law reads
`rows(before) + rows(after) + table(after) = idle recordings(before) + idle recordings(after)`. -/

/-- **The restart image keeps the fractions.**  After `restore (persist s)`: every live path of `s`
    has exactly the vector it had in `s` (a zero vector if it had none); the restored table holds
    exactly the live paths; the path counter is kept; and if the table of `s` held exactly its live
    paths (distinct keys), every column total of the table is the same. -/
theorem restart_preserves_frac {s s' : St} {n workers tsteps : Nat} {occ : List (List Int)}
    {ensEng : List (List Nat)} {weightOf : Nat → List Rat}
    (h : restore (persist s) n workers tsteps occ ensEng weightOf = .ok s') :
    (∀ pn, some pn ∈ livePaths s →
        s'.frac.lookup pn = some ((s.frac.lookup pn).getD (List.replicate n 0))) ∧
    (∀ pn v, some pn ∈ livePaths s → s.frac.lookup pn = some v → s'.frac.lookup pn = some v) ∧
    (s'.frac.map Prod.fst).Perm ((livePaths s).filterMap id) ∧ s'.rows = [] ∧
    s'.trajNum = s.trajNum ∧
    ((s.frac.map Prod.fst).Nodup → (s.frac.map Prod.fst).Perm ((livePaths s).filterMap id) →
        ∀ c, colTotal s'.frac c = colTotal s.frac c) := by
  obtain ⟨hk, _, hr, _, ht⟩ := restore_frac h
  refine ⟨restore_lookup h, ?_, hk, hr, ht, fun h1 h2 c => restore_colTotal h h1 h2 c⟩
  intro pn v hl hv
  rw [restore_lookup h pn hl, hv]
  rfl

/-- **Conservation across one restart** (chains follow by repeating the argument, since the
    restored state is a start state again — `restore_init`).  A fresh start runs `evs1` to a
    quiescent state `y1` (nothing in flight, nothing recorded as locked, the table holding exactly
    the live paths), its image is restored with any worker count / step target, and the new run
    performs `evs2`.  Then for every column: rows of the first run + rows of the second run + the
    live fractions = idle recordings of the first run + idle recordings of the second run. -/
theorem restart_conservation (y0 y1 y3 : Sys) (evs1 evs2 : List Ev) (h0 : RowInit y0)
    (hr1 : run y0 evs1 = .ok y1) (hm1 : MatchableAlong y0 evs1)
    (hlk : y1.s.locked = [])
    (htab : (y1.s.frac.map Prod.fst).Perm ((livePaths y1.s).filterMap id))
    (workers tsteps : Nat) (occ : List (List Int)) (ensEng : List (List Nat))
    (weightOf : Nat → List Rat) (s2 : St)
    (hrs : restore (persist y1.s) y1.s.n workers tsteps occ ensEng weightOf = .ok s2)
    (hr2 : run ⟨s2, []⟩ evs2 = .ok y3) (hm2 : MatchableAlong ⟨s2, []⟩ evs2) (c : Nat) :
    rowsTotal y1.s.rows c + (rowsTotal y3.s.rows c + colTotal y3.s.frac c)
      = (idleSteps y0 evs1 c : Rat) + (idleSteps ⟨s2, []⟩ evs2 c : Rat) := by
  obtain ⟨hi1, r1, _⟩ := run_rinv evs1 h0.fi.hinv h0.rinv hr1
  have hc1 := conservation y0 y1 evs1 h0.fi hr1 hm1 c
  obtain ⟨hinit2, fw2⟩ := restore_init hi1 r1 hlk hrs
  obtain ⟨hc3, _, _⟩ := conservation_from ⟨s2, []⟩ y3 evs2 ⟨hinit2.inv, fw2⟩ (jinv_of_init hinit2) hr2 hm2 c
  obtain ⟨_, _, hrows2, _, _⟩ := restore_frac hrs
  rw [hc3]
  show _ + (rowsTotal s2.rows c + colTotal s2.frac c + _) = _
  rw [hrows2, restore_colTotal hrs hi1.fw.keys htab c, ← hc1]
  simp only [rowsTotal_nil]
  ring

/-- **A restored quiescent state is a start state again**: it satisfies C03's `Init` (hence all
    scheduler invariants) and the table invariant, so `conservation_from` and `restart_conservation`
    apply again from it — this is the induction step for chains of restarts. -/
theorem restart_is_start_state (y0 y1 : Sys) (evs1 : List Ev) (h0 : RowInit y0)
    (hr1 : run y0 evs1 = .ok y1) (hlk : y1.s.locked = [])
    (workers tsteps : Nat) (occ : List (List Int)) (ensEng : List (List Nat))
    (weightOf : Nat → List Rat) (s2 : St)
    (hrs : restore (persist y1.s) y1.s.n workers tsteps occ ensEng weightOf = .ok s2) :
    Init ⟨s2, []⟩ ∧ HInv ⟨s2, []⟩ ∧ JInv ⟨s2, []⟩ := by
  obtain ⟨hi1, r1, _⟩ := run_rinv evs1 h0.fi.hinv h0.rinv hr1
  obtain ⟨hinit2, fw2⟩ := restore_init hi1 r1 hlk hrs
  exact ⟨hinit2, ⟨hinit2.inv, fw2⟩, jinv_of_init hinit2⟩

/-! ### a one-worker run to its last step, restart with a larger step target, two more steps -/

def exBlankQ : St := blank 4 1 3 0 3 0 [[-1]] [[0], [0], [0]] false []

def exSQ : St := match loadPaths exBlankQ exPaths with | .ok s => s | .error _ => exBlankQ

def exSysQ : Sys := { s := exSQ, jobs := [] }

def exEndQ : Sys := match run exSysQ exEvs1 with | .ok y => y | .error _ => exSysQ

/-- weights recomputed from the stored paths -/
def exW (pn : Nat) : List Rat := (exEndQ.s.wts.lookup pn).getD []

def exS2 : St :=
  match restore (persist exEndQ.s) 4 1 6 [[-1]] [[0], [0], [0]] exW with
  | .ok s => s
  | .error _ => exBlankQ

def exEvs2 : List Ev :=
  [ .start { t := 1, e := 1 }, .initDone,
    .step 0 .acc [[2, 1, 0]] { t := 0, e := 0, coin := false },
    .step 0 .rej [] { t := 2, e := 2 } ]

def exEnd3 : Sys := match run ⟨exS2, []⟩ exEvs2 with | .ok y => y | .error _ => exSysQ

theorem ex_rowInitQ : RowInit exSysQ :=
  rowInit_of_liveOk
    ⟨init_of_loadPaths 4 1 3 0 3 0 [[-1]] [[0], [0], [0]] false exPaths exSQ (by decide) (by decide)
        (by decide) (by decide) (by decide +kernel),
     fracWF_of_fracOk (by decide +kernel), by decide +kernel, by decide +kernel⟩
    (by decide +kernel)

example : restore (persist exEndQ.s) 4 1 6 [[-1]] [[0], [0], [0]] exW = .ok exS2 ∧
    exEndQ.s.frac = [(2, [0, 11/6, 7/6, 0]), (0, [3, 0, 0, 0]), (4, [0, 1/2, 1/2, 0])] ∧
    exS2.frac = [(4, [0, 1/2, 1/2, 0]), (2, [0, 11/6, 7/6, 0]), (0, [3, 0, 0, 0])] ∧
    livePaths exEndQ.s = [some 0, some 4, some 2] := by
  decide +kernel

example : RowInit exSysQ ∧ run exSysQ exEvs1 = .ok exEndQ ∧ MatchableAlong exSysQ exEvs1 ∧
    exEndQ.s.locked = [] ∧
    (exEndQ.s.frac.map Prod.fst).Perm ((livePaths exEndQ.s).filterMap id) ∧
    restore (persist exEndQ.s) exEndQ.s.n 1 6 [[-1]] [[0], [0], [0]] exW = .ok exS2 ∧
    run ⟨exS2, []⟩ exEvs2 = .ok exEnd3 ∧ MatchableAlong ⟨exS2, []⟩ exEvs2 ∧
    (List.range 4).map (idleSteps exSysQ exEvs1) = [3, 3, 3, 0] ∧
    (List.range 4).map (idleSteps ⟨exS2, []⟩ exEvs2) = [2, 2, 2, 0] ∧
    exEnd3.s.rows = [(4, [0, 1/2, 1/2, 0], [1, 1, 1])] ∧
    exEnd3.s.frac = [(2, [0, 5/2, 5/2, 0]), (0, [5, 0, 0, 0]), (5, [0, 4/3, 2/3, 0])] :=
  ⟨ex_rowInitQ, by decide +kernel, matchableAlong_of_B _ _ (by decide +kernel), by decide +kernel,
   by decide +kernel, by decide +kernel, by decide +kernel,
   matchableAlong_of_B _ _ (by decide +kernel), by decide +kernel, by decide +kernel,
   by decide +kernel, by decide +kernel⟩

/-! ## 7. The same laws without the matchability hypothesis (C05 plugged in)

C05 proves that the family invariant `Inv5` (family rows + positive permanent of the idle block)
holds along every history from an `Init5` start (`load_paths` on paths of C02's weight family,
`fresh_start_is_init5` in C05) whose accepted outcomes are family vectors (`HistOk`, checked along
the run).  `RepexC04C05.lean` carries it to the recording state inside `treat_output`
(`recState_fam`), so `HistOk` replaces `MatchableAlong`. -/

/-- **Conservation, no matchability hypothesis.** -/
theorem conservation_reachable (y0 y : Sys) (evs : List Ev) (h0 : FracInit y0) (h5 : Init5 y0)
    (hh : HistOk y0 evs) (hr : run y0 evs = .ok y) (c : Nat) :
    rowsTotal y.s.rows c + colTotal y.s.frac c = (idleSteps y0 evs c : Rat) :=
  conservation y0 y evs h0 hr (matchableAlong_of_histOk evs y0 h5.inv5 hh) c

/-- **One worker: every ensemble column total equals the step counter, no matchability hypothesis.** -/
theorem conservation_one_worker_reachable (y0 y : Sys) (evs : List Ev) (h0 : FracInit y0)
    (h5 : Init5 y0) (hh : HistOk y0 evs) (hw : y0.s.workers = 1) (hc0 : y0.s.cstep = 0)
    (hr : run y0 evs = .ok y) (c : Nat) (hc : c < y.s.n - 1) :
    rowsTotal y.s.rows c + colTotal y.s.frac c = (y.s.cstep : Rat) :=
  conservation_one_worker y0 y evs h0 hw hc0 hr (matchableAlong_of_histOk evs y0 h5.inv5 hh) c hc

/-- **Each completed step adds exactly one unit per idle column.**  `y` reachable as above, one more
    completed step (any job `k`, any status, outcome in the family) leading to `y'`.  With `sR` the
    recording state (the job's slots released, new paths in the table with zero vectors — so `sR`
    has the data file and the column totals of `y`) and `s2` the state after "record weights":
    every idle column gains exactly 1 and every other column 0; only `frac` changes; only vectors of
    idle live paths change; the path in idle slot `i` gains `probMatrix[i][c]` in entry `c` — the
    permanent ratio of the idle block for idle `c`, `0` for busy `c`, `0` where `W[i][c] = 0`, never
    negative; and over the whole step `rows + frac` grows by exactly that 1 or 0 per column. -/
theorem step_adds_one_per_idle_column_reachable (y0 y y' : Sys) (evs : List Ev) (h0 : FracInit y0)
    (h5 : Init5 y0) (hh : HistOk y0 evs) (hr : run y0 evs = .ok y)
    (k : Nat) (status : Status) (newW : List (List Rat)) (o : PickOutcome)
    (hev : EvOk y (.step k status newW o)) (hs : sysStep y (.step k status newW o) = .ok y') :
    ∃ job sR tn pns s2, y.jobs[k]? = some job ∧
      recState (loop y.s).1 job status newW = .ok (sR, tn, pns) ∧ recordFrac sR = .ok s2 ∧
      sR.n = y.s.n ∧ sR.rows = y.s.rows ∧ (∀ c, colTotal sR.frac c = colTotal y.s.frac c) ∧
      (∀ c, colTotal s2.frac c - colTotal sR.frac c = if sR.locks[c]? = some false then 1 else 0) ∧
      s2 = { sR with frac := s2.frac } ∧ s2.frac.map Prod.fst = sR.frac.map Prod.fst ∧
      (∀ q, (∀ i, i < sR.n - 1 → sR.locks[i]? = some false → sR.trajs[i]? ≠ some (some q)) →
          s2.frac.lookup q = sR.frac.lookup q) ∧
      (∀ i pn, i < sR.n - 1 → sR.locks[i]? = some false → sR.trajs[i]? = some (some pn) → ∀ c,
          fracAt s2.frac pn c - fracAt sR.frac pn c = entry (prob sR) i c ∧
          (sR.locks[c]? = some false →
            entry (prob sR) i c = pSpec (idle sR.W sR.locks) (rank sR.locks i) (rank sR.locks c)) ∧
          (sR.locks[c]? ≠ some false → entry (prob sR) i c = 0) ∧
          (entry sR.W i c = 0 → entry (prob sR) i c = 0) ∧ 0 ≤ entry (prob sR) i c) ∧
      (∀ c, rowsTotal y'.s.rows c + colTotal y'.s.frac c
          = rowsTotal y.s.rows c + colTotal y.s.frac c + (if sR.locks[c]? = some false then 1 else 0)) := by
  have hm := matchableAlong_of_histOk evs y0 h5.inv5 hh
  obtain ⟨hi, _, _⟩ := run_total evs h0.hinv h0.jinv hr hm
  have hi5 := (run_preserves5 evs h5.inv5 hh hr).1
  obtain ⟨job, sR, tn, pns, s2, hjob, hrec, hrf, wf, hM, hk, hl, hn, hcol, hrows, htot⟩ :=
    step_record hi hi5 hev hs
  obtain ⟨a1, a2, a3, a4, a5⟩ := recordFrac_adds_one_per_idle_column wf hM hk hl hrf
  have hfam := recState_fam hi5 hev hjob hrec
  have hnn : ∀ i c, 0 ≤ entry (prob sR) i c :=
    fun i c => Infretis.Perm.C05.probMatrix_nonneg sR.W sR.locks (by rw [wf.lenW, wf.lenL])
      (rows_nonneg sR.n sR.W sR.locks wf.lenL wf.ghost hfam.rows) hfam.perm i c
  refine ⟨job, sR, tn, pns, s2, hjob, hrec, hrf, hn, hrows, hcol, a1, a2, a3, a4, ?_, htot⟩
  intro i pn hi' hl' ht c
  obtain ⟨b1, b2, b3, b4, _⟩ := a5 i pn hi' hl' ht c
  exact ⟨b1, b2, b3, b4, hnn i c⟩

/-! ### the two example histories satisfy the C05 hypotheses -/

theorem exPaths_fam (i : Nat) (hi : i < exPaths.length) : VecOk 4 ((i : Int) - 1) (exPaths[i]).2.1 := by
  have : i = 0 ∨ i = 1 ∨ i = 2 := by
    simp only [exPaths, List.length_cons, List.length_nil] at hi; omega
  rcases this with rfl | rfl | rfl
  · show VecOk 4 (-1) [1]
    exact vecOk_of_B (by decide +kernel)
  · show VecOk 4 0 [1, 1, 0]
    exact vecOk_of_B (by decide +kernel)
  · show VecOk 4 1 [1, 1, 0]
    exact vecOk_of_B (by decide +kernel)

theorem ex_init5 : Init5 exSys :=
  init5_of_loadPaths 4 2 10 0 3 0 [[-1, -1]] [[0], [0], [0]] false exPaths exS0 (by decide) (by decide)
    (by decide) (by decide) exPaths_fam (by decide +kernel)

theorem ex_init5_1 : Init5 exSys1 :=
  init5_of_loadPaths 4 1 10 0 3 0 [[-1]] [[0], [0], [0]] false exPaths exS1 (by decide) (by decide)
    (by decide) (by decide) exPaths_fam (by decide +kernel)

theorem ex_histOk : HistOk exSys exEvs := histOk_of_B _ _ (by decide +kernel)

/-- (the last outcome of `exEvs1`, weights `[1,1,1]` for `[1+]`, has a non-zero ghost-column weight and
    is outside C02's family; the family history stops before it) -/
theorem ex_histOk1 : HistOk exSys1 (exEvs1.take 4) := histOk_of_B _ _ (by decide +kernel)

def exEnd1b : Sys := match run exSys1 (exEvs1.take 4) with | .ok y => y | .error _ => exSys1

example : FracInit exSys ∧ Init5 exSys ∧ HistOk exSys exEvs ∧ run exSys exEvs = .ok exEnd ∧
    (List.range 5).map (idleSteps exSys exEvs) = [1, 2, 1, 0, 0] ∧
    (List.range 5).map (fun c => rowsTotal exEnd.s.rows c + colTotal exEnd.s.frac c) = [1, 2, 1, 0, 0] :=
  ⟨ex_fracInit, ex_init5, ex_histOk, by decide +kernel, by decide +kernel, by decide +kernel⟩

example : FracInit exSys1 ∧ Init5 exSys1 ∧ HistOk exSys1 (exEvs1.take 4) ∧ exSys1.s.workers = 1 ∧
    exSys1.s.cstep = 0 ∧ run exSys1 (exEvs1.take 4) = .ok exEnd1b ∧ exEnd1b.s.cstep = 2 ∧
    (List.range 3).map (fun c => rowsTotal exEnd1b.s.rows c + colTotal exEnd1b.s.frac c) = [2, 2, 2] :=
  ⟨ex_fracInit1, ex_init5_1, ex_histOk1, by decide +kernel, by decide +kernel, by decide +kernel,
   by decide +kernel, by decide +kernel⟩

/-- the state of the two-worker history after the initiation (two jobs in flight) -/
def exMid : Sys := match run exSys (exEvs.take 3) with | .ok y => y | .error _ => exSys

def exMidNext : Sys :=
  match sysStep exMid (.step 0 .acc [[1], [1, 1, 0]] { t := 0, e := 0, coin := false }) with
  | .ok y => y
  | .error _ => exMid

def exMidRec : St :=
  match exMid.jobs[0]? with
  | some job =>
    (match recState (loop exMid.s).1 job .acc [[1], [1, 1, 0]] with
     | .ok (s, _, _) => s
     | .error _ => exMid.s)
  | none => exMid.s

/-- the zero swap completes ACCEPTED while `[1+]` is busy: columns 0 and 1 gain one unit, column 2 and
    the ghost column nothing -/
example : FracInit exSys ∧ Init5 exSys ∧ HistOk exSys (exEvs.take 3) ∧
    run exSys (exEvs.take 3) = .ok exMid ∧
    EvOk exMid (.step 0 .acc [[1], [1, 1, 0]] { t := 0, e := 0, coin := false }) ∧
    sysStep exMid (.step 0 .acc [[1], [1, 1, 0]] { t := 0, e := 0, coin := false }) = .ok exMidNext ∧
    exMidRec.locks = [false, false, true, true] ∧
    (List.range 4).map (fun c => rowsTotal exMid.s.rows c + colTotal exMid.s.frac c) = [0, 0, 0, 0] ∧
    (List.range 4).map (fun c => rowsTotal exMidNext.s.rows c + colTotal exMidNext.s.frac c)
      = [1, 1, 0, 0] :=
  ⟨ex_fracInit, ex_init5, histOk_of_B _ _ (by decide +kernel), by decide +kernel,
   evOk_of_B (by decide +kernel), by decide +kernel, by decide +kernel, by decide +kernel,
   by decide +kernel⟩

/-! ## 8. A stop inside `treat_output`, then a restart

Weight-relevant disk effects of one `treat_output`, in the code's order: (1) `write_to_pathens`
appends the rows of the replaced paths, (2) `write_toml` replaces `restart.toml` atomically by the
image of the new state.  `crashDisk s0 s' j renamed` is what a stop leaves: before the replace the old
image with any number `j` of whole new rows already in the data file (a torn row is dropped at the
restart), after it the new image with all rows.  `cleanRows` is `clean_data_file` (rows of paths
active in the restart file are dropped), `restore` is `load_paths` on the image.

`_partial`: what the theorem covers is the law on (data file + restart file) right after the
restart's clean-up, for every stop of every completed step of every history.  Not covered, and why:
* the restart file present before the step is taken to be the image of the state the step starts
  from (`persist y.s`); the real file was written at the end of the previous `treat_output`, before
  the next `prep_md_items`, and differs from it in `locked`, slot order and stream position — fields
  the restore of the weights does not read, but a separate disk object is not modelled;
* the continuation after a restart with a job in flight (`locked0 ≠ []`, the re-issue branch of
  `pick_lock`) is outside C03's invariants (they assume `locked0 = []`), so "…and stays conserved to
  step N" follows only for quiescent images (`restart_is_start_state`, `restart_conservation`);
* the table is assumed to hold exactly the live paths before and after the step (hypotheses
  `htab`, `htab'`; `live ⊆ table` is proved, the converse needs "the ghost slot holds no path");
* path-store / deletion effects carry no weights and are C08's `Fs` model.
The tie evaluates the full statement (continued to N) on the real files for every stop. -/

theorem crash_restart_conservation_partial (y0 y y' : Sys) (evs : List Ev) (h0 : RowInit y0)
    (hr : run y0 evs = .ok y) (hm : MatchableAlong y0 evs)
    (k : Nat) (status : Status) (newW : List (List Rat)) (o : PickOutcome)
    (hs : sysStep y (.step k status newW o) = .ok y') (hmm : matchableAt y (.step k status newW o)) :
    ∃ job s' pns it, y.jobs[k]? = some job ∧
      treatOutput (loop y.s).1 job status newW (sortFuel (loop y.s).1) = .ok (s', pns, it) ∧
      ((y.s.frac.map Prod.fst).Perm ((livePaths y.s).filterMap id) →
       (s'.frac.map Prod.fst).Perm ((livePaths s').filterMap id) →
       ∀ (j : Nat) (renamed : Bool) (n workers tsteps : Nat) (occ : List (List Int))
         (ensEng : List (List Nat)) (weightOf : Nat → List Rat) (sR : St),
         restore (crashDisk y.s s' j renamed).img n workers tsteps occ ensEng weightOf = .ok sR →
         (crashDisk y.s s' j renamed).img.cstep = (if renamed then y.s.cstep + 1 else y.s.cstep) ∧
         ∀ c, rowsTotal (cleanRows (crashDisk y.s s' j renamed).rows
                (crashDisk y.s s' j renamed).img.active) c + colTotal sR.frac c
              = (idleSteps y0 evs c : Rat)
                + (if renamed then (idleAt y (.step k status newW o) c : Rat) else 0)) := by
  obtain ⟨hi, r, _⟩ := run_rinv evs h0.fi.hinv h0.rinv hr
  have hc := conservation y0 y evs h0.fi hr hm
  obtain ⟨job, s', pns, it, hjob, htreat, hmain⟩ := crash_step_total hi r hs hmm
  refine ⟨job, s', pns, it, hjob, htreat, ?_⟩
  intro htab htab' j renamed n workers tsteps occ ensEng weightOf sR hres
  obtain ⟨h1, h2⟩ := hmain htab htab' j renamed n workers tsteps occ ensEng weightOf sR hres
  refine ⟨h1, fun c => ?_⟩
  rw [h2 c]
  unfold total
  rw [hc c]

/-- the state after the `treat_output` of the zero-swap completion in `exMid` -/
def exMidTreated : St :=
  match exMid.jobs[0]? with
  | some job =>
    (match treatOutput (loop exMid.s).1 job .acc [[1], [1, 1, 0]] (sortFuel (loop exMid.s).1) with
     | .ok (s, _, _) => s
     | .error _ => exMid.s)
  | none => exMid.s

def exMidW (pn : Nat) : List Rat := ((exMid.s.wts ++ exMidTreated.wts).lookup pn).getD []

def exCrashRestored (j : Nat) (renamed : Bool) : St :=
  match restore (crashDisk exMid.s exMidTreated j renamed).img 4 2 10 [[-1, -1]] [[0], [0], [0]] exMidW with
  | .ok s => s
  | .error _ => exMid.s

/-- zero swap accepted (two rows, first completed step): a stop after the first row was appended
    (old restart file, step counter 0: the row is dropped at the restart, totals `[0,0,0]`) and a stop
    after the replace of the restart file (step counter 1, both rows kept, totals `[1,1,0]` — `[1+]`
    was busy at the recording) -/
example : exMidTreated.rows.map (·.1) = [0, 1] ∧
    (crashDisk exMid.s exMidTreated 1 false).rows.map (·.1) = [0] ∧
    cleanRows (crashDisk exMid.s exMidTreated 1 false).rows
      (crashDisk exMid.s exMidTreated 1 false).img.active = [] ∧
    restore (crashDisk exMid.s exMidTreated 1 false).img 4 2 10 [[-1, -1]] [[0], [0], [0]] exMidW
      = .ok (exCrashRestored 1 false) ∧
    (List.range 3).map (fun c => colTotal (exCrashRestored 1 false).frac c) = [0, 0, 0] ∧
    (crashDisk exMid.s exMidTreated 1 false).img.cstep = 0 ∧
    restore (crashDisk exMid.s exMidTreated 2 true).img 4 2 10 [[-1, -1]] [[0], [0], [0]] exMidW
      = .ok (exCrashRestored 2 true) ∧
    (List.range 3).map (fun c => rowsTotal (cleanRows (crashDisk exMid.s exMidTreated 2 true).rows
        (crashDisk exMid.s exMidTreated 2 true).img.active) c + colTotal (exCrashRestored 2 true).frac c)
      = [1, 1, 0] ∧
    (crashDisk exMid.s exMidTreated 2 true).img.cstep = 1 := by
  decide +kernel

end Infretis.C04
