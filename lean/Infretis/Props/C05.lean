import Infretis.Lemmas.RepexC05Count
import Infretis.Lemmas.RepexC05Load
import Infretis.Lemmas.RepexC03RRestore
import Infretis.Lemmas.RepexC05Family
import Infretis.Lemmas.PermSort
import Infretis.Lemmas.RepexC05Chain
import Infretis.Lemmas.RepexC05Progress
/-!
# C05 — the sampler never stalls: a job can always be drawn, sorting terminates

Property theorems only.  Model: `Infretis/Model/Repex.lean` (state machine of `REPEX_state` and the
scheduler loop) with `Infretis/Model/Perm.lean` (`probMatrix` = permanent ratios of the idle block).
Lemmas: `Infretis/Lemmas/RepexC05*.lean`, on top of C03's slot/lock invariant
(`Infretis/Lemmas/RepexC03*.lean`) and C02's permanent library.

Scope.  Histories are quantified over outcomes whose weight vectors are in C02's family
(`VecOk`: the `[0-]` row is `(w,0,…,0)`, `w > 0`; a plus row is zero in column 0, positive on
columns `1..cnt`, zero after, `cnt ≤ n-2`); any number of ensembles `n - 1 ≥ 1` (+ ghost), any
number of workers, any completion order, any accept/reject history (`HistOk`).  Fresh starts and
restarts without recorded in-flight jobs (`locked0 = []`, as in C03's `Init`).

All theorems are for the general case (any number of workers); in particular `sort_terminates`
is NOT restricted to one worker.
-/
namespace Infretis.C05
open Infretis.Repex Infretis.Perm Infretis.Perm.C05

/-! ## Reachable states -/

/-- reachable from a fresh start: some initial state as `load_paths` leaves it, some history with
    outcomes in the weight family, run by the scheduler model -/
def Reachable (y : Sys) : Prop := ∃ y0 evs, Init5 y0 ∧ HistOk y0 evs ∧ run y0 evs = .ok y

/-- reachable from a fresh start **or from a restart** (`Start5 = Init5 ∨ Init5R`: the state
    `load_paths` rebuilds from a restart file, recorded in-flight jobs waiting for re-issue);
    `restart_is_start5` shows restarts of reachable states are such start states again, so this
    covers any chain of restarts -/
def ReachableR (y : Sys) : Prop := ∃ y0 evs, Start5 y0 ∧ HistOk y0 evs ∧ run y0 evs = .ok y

theorem Reachable.toR {y : Sys} (h : Reachable y) : ReachableR y := by
  obtain ⟨y0, evs, h0, hh, hr⟩ := h
  exact ⟨y0, evs, Or.inl h0, hh, hr⟩

theorem reach_inv5R {y : Sys} (h : ReachableR y) : Inv5 y := by
  obtain ⟨y0, evs, h0, hh, hr⟩ := h
  exact (run_preserves5 evs h0.inv5 hh hr).1

theorem reach_inv5 {y : Sys} (h : Reachable y) : Inv5 y := reach_inv5R h.toR

/-- **`Init5` is what a fresh start produces**: `REPEX_state.__init__` + `load_paths` on `n − 1`
    initial paths with distinct numbers below `traj_num` and weight vectors in the family. -/
theorem fresh_start_is_init5 (n workers tsteps cstep trajNum seed : Nat) (occ : List (List Int))
    (ensEng : List (List Nat)) (restarted : Bool) (paths : List (Nat × List Rat × List Rat)) (s : St)
    (hn : 2 ≤ n) (hlen : paths.length = n - 1) (hnd : (paths.map (·.1)).Nodup)
    (hlt : ∀ p ∈ paths, p.1 < trajNum)
    (hfam : ∀ (i : Nat) (hi : i < paths.length), VecOk n ((i : Int) - 1) (paths[i]).2.1)
    (h : loadPaths (blank n workers tsteps cstep trajNum seed occ ensEng restarted []) paths = .ok s) :
    Init5 { s := s, jobs := [] } :=
  init5_of_loadPaths n workers tsteps cstep trajNum seed occ ensEng restarted paths s hn hlen hnd hlt hfam h

/-! ## A concrete history used for the non-vacuity examples

3 ensembles `[0-] [0+] [1+]` + ghost, 2 workers.  Worker 0 starts a zero swap (holds `[0-]`, `[0+]`),
worker 1 starts `[1+]`, initiation closes, the zero swap completes ACCEPTED (new paths 3, 4) and
worker 0 restarts on `[0-]`, then worker 1's job completes REJECTED and worker 1 restarts. -/

def exPaths : List (Nat × List Rat × List Rat) :=
  [(0, [1], [0,0,0,0]), (1, [1,1,0], [0,0,0,0]), (2, [1,1,0], [0,0,0,0])]

def exBlank : St := blank 4 2 10 0 3 0 [[-1, -1]] [[0], [0], [0]] false []

def exS0 : St :=
  match loadPaths exBlank exPaths with
  | .ok s => s
  | .error _ => exBlank

def exSys : Sys := { s := exS0, jobs := [] }

def exEvs : List Ev :=
  [ .start { t := 0, e := 0, coin := true, partner := 1 },
    .start { t := 2, e := 2 },
    .initDone,
    .step 0 .acc [[1], [1, 1, 0]] { t := 0, e := 0, coin := false },
    .step 0 .rej [] { t := 2, e := 2 } ]

def exAt (k : Nat) : Sys :=
  match run exSys (exEvs.take k) with
  | .ok y => y
  | .error _ => exSys

theorem exS0_loaded : loadPaths exBlank exPaths = .ok exS0 := by decide +kernel

theorem vecOk_minus_one : VecOk 4 (-1) [1] :=
  ⟨fun _ => by unfold IsMinusRow; decide +kernel, fun h => absurd h (by decide)⟩

theorem vecOk_plus (e : Int) (he : 0 ≤ e) : VecOk 4 e [1, 1, 0] := by
  refine ⟨fun h => absurd h (by omega), fun _ => ⟨2, ?_, by decide⟩⟩
  have : padN 4 e [1, 1, 0] = [0, 1, 1, 0] := by
    unfold padN; rw [if_pos he]; rfl
  rw [this]
  unfold IsPlusRow; decide +kernel

theorem ex_init5 : Init5 exSys := by
  apply fresh_start_is_init5 4 2 10 0 3 0 [[-1, -1]] [[0], [0], [0]] false exPaths exS0 (by decide)
    (by decide) (by decide) (by decide) _ exS0_loaded
  intro i hi
  have : i = 0 ∨ i = 1 ∨ i = 2 := by
    simp only [exPaths, List.length_cons, List.length_nil] at hi; omega
  rcases this with rfl | rfl | rfl
  · exact vecOk_minus_one
  · exact vecOk_plus _ (by decide)
  · exact vecOk_plus _ (by decide)

theorem ex_step (k : Nat) (hk : k < 5) :
    ∃ ev, exEvs[k]? = some ev ∧ sysStep (exAt k) ev = .ok (exAt (k + 1)) := by
  match k, hk with
  | 0, _ => exact ⟨_, rfl, by decide +kernel⟩
  | 1, _ => exact ⟨_, rfl, by decide +kernel⟩
  | 2, _ => exact ⟨_, rfl, by decide +kernel⟩
  | 3, _ => exact ⟨_, rfl, by decide +kernel⟩
  | 4, _ => exact ⟨_, rfl, by decide +kernel⟩

theorem ex_runs (k : Nat) (hk : k ≤ 5) : run exSys (exEvs.take k) = .ok (exAt k) := by
  match k, hk with
  | 0, _ => decide +kernel
  | 1, _ => decide +kernel
  | 2, _ => decide +kernel
  | 3, _ => decide +kernel
  | 4, _ => decide +kernel
  | 5, _ => decide +kernel

theorem histOk_cons {y y1 : Sys} {ev : Ev} {rest : List Ev} (hstep : sysStep y ev = .ok y1)
    (hev : EvOk y ev) (hrest : HistOk y1 rest) : HistOk y (ev :: rest) := by
  refine ⟨hev, fun y' h => ?_⟩
  rw [hstep] at h
  simp only [Except.ok.injEq] at h
  subst h; exact hrest

/-- the accepted step of the example brings in family vectors -/
theorem ex_evOk3 : EvOk (exAt 3) (.step 0 .acc [[1], [1, 1, 0]] { t := 0, e := 0, coin := false }) := by
  intro _ job hjob pw hpw
  have hens : (exAt 3).jobs.map (fun j => j.picked.map (·.ens)) = [[-1, 0], [1]] := by decide +kernel
  have hn : (exAt 3).s.n = 4 := by decide +kernel
  have hj : job.picked.map (·.ens) = [-1, 0] := by
    have := congrArg (fun l => l[0]?) hens
    simp only [List.getElem?_map, hjob, Option.map_some, List.getElem?_cons_zero, Option.some.injEq] at this
    exact this
  rw [hn]
  -- the two picked ensembles are -1 and 0
  obtain ⟨p1, p2, hp⟩ : ∃ p1 p2, job.picked = [p1, p2] := by
    match hpk : job.picked with
    | [p1, p2] => exact ⟨p1, p2, rfl⟩
    | [] => rw [hpk] at hj; simp at hj
    | [_] => rw [hpk] at hj; simp at hj
    | _ :: _ :: _ :: _ => rw [hpk] at hj; simp at hj
  rw [hp] at hj hpw
  simp only [List.map_cons, List.map_nil, List.cons.injEq, and_true] at hj
  simp only [List.zip_cons_cons, List.zip_nil_right, List.mem_cons, List.not_mem_nil, or_false] at hpw
  rcases hpw with rfl | rfl
  · show VecOk 4 p1.ens [1]
    rw [hj.1]; exact vecOk_minus_one
  · show VecOk 4 p2.ens [1, 1, 0]
    rw [hj.2]; exact vecOk_plus 0 (by decide)

theorem ex_histOk : HistOk exSys exEvs := by
  have h0 : exAt 0 = exSys := by decide +kernel
  rw [← h0]
  obtain ⟨ev0, he0, hs0⟩ := ex_step 0 (by decide)
  obtain ⟨ev1, he1, hs1⟩ := ex_step 1 (by decide)
  obtain ⟨ev2, he2, hs2⟩ := ex_step 2 (by decide)
  obtain ⟨ev3, he3, hs3⟩ := ex_step 3 (by decide)
  obtain ⟨ev4, he4, hs4⟩ := ex_step 4 (by decide)
  simp only [exEvs, List.getElem?_cons_zero, List.getElem?_cons_succ, Option.some.injEq] at he0 he1 he2 he3 he4
  subst he0 he1 he2 he3 he4
  exact histOk_cons hs0 trivial (histOk_cons hs1 trivial (histOk_cons hs2 trivial
    (histOk_cons hs3 ex_evOk3 (histOk_cons hs4 (fun h => absurd h (by decide)) trivial))))

theorem histOk_take : ∀ (evs : List Ev) (y : Sys) (k : Nat), HistOk y evs → HistOk y (evs.take k) := by
  intro evs
  induction evs with
  | nil => intro y k h; simpa using h
  | cons ev rest ih =>
    intro y k h
    cases k with
    | zero => exact trivial
    | succ k => exact ⟨h.1, fun y' hy' => ih y' k (h.2 y' hy')⟩

theorem ex_reachable (k : Nat) (hk : k ≤ 5) : Reachable (exAt k) :=
  ⟨exSys, exEvs.take k, ex_init5, histOk_take _ _ _ ex_histOk, ex_runs k hk⟩

/-! ## A. The idle block always admits a perfect matching; `pick` is defined -/

/-- the idle block of the weight matrix is non-negative with a positive permanent -/
def Matchable (s : St) : Prop := NonNegM (idle s.W s.locks) ∧ 0 < permC (idle s.W s.locks)

/-- **Bridge to the combinatorial form.**  For the (non-negative) idle block: the permanent is
    positive iff there is a perfect matching — an assignment `σ` of a distinct row to every
    column with non-zero entries (`PMatch`, rows given by their position among the rows not yet
    used). -/
theorem matchable_iff_matching (s : St) (hnn : NonNegM (idle s.W s.locks)) :
    Matchable s ↔ ∃ σ, PMatch (idle s.W s.locks).length (idle s.W s.locks) σ := by
  unfold Matchable
  rw [← permC_pos_iff_pmatch _ hnn]
  exact ⟨fun h => h.2, fun h => ⟨hnn, h⟩⟩

example : PMatch 3 (idle (exAt 0).s.W (exAt 0).s.locks) [2, 1, 0]
    ∧ (idle (exAt 0).s.W (exAt 0).s.locks).length = 3 := by
  have hN : idle (exAt 0).s.W (exAt 0).s.locks = [[1, 0, 0], [0, 1, 1], [0, 1, 1]] := by decide +kernel
  rw [hN]
  simp only [PMatch]
  decide +kernel

/-- **An edge of positive probability extends to a perfect matching**: if `pSpec N i j > 0` for a
    non-negative matrix with positive permanent, the entry is non-zero and the minor (row `i` and
    column `j` removed) still has a perfect matching. -/
theorem edge_extends (N : Mat) (hnn : NonNegM N) (hP : 0 < permC N) (i j : Nat)
    (h : 0 < pSpec N i j) :
    entry N i j ≠ 0 ∧ 0 < permC (minor N i j) ∧
      ∃ σ, PMatch (minor N i j).length (minor N i j) σ := by
  obtain ⟨h1, h2⟩ := pSpec_pos N hnn hP i j h
  exact ⟨ne_of_gt h1, h2, (permC_pos_iff_pmatch _ (hnn.minor i j)).mp h2⟩

example : NonNegM [[1, 1], [0, 2]] ∧ 0 < permC [[1, 1], [0, 2]] ∧ 0 < pSpec [[1, 1], [0, 2]] 0 0 := by
  refine ⟨?_, by decide +kernel, by decide +kernel⟩
  intro r hr x hx
  simp only [List.mem_cons, List.not_mem_nil, or_false] at hr
  rcases hr with rfl | rfl <;>
  · simp only [List.mem_cons, List.not_mem_nil, or_false] at hx
    rcases hx with rfl | rfl <;> decide +kernel

/-- `pick` keeps the idle block matchable: an outcome `(t, e)` of positive probability followed by
    `swap(t, e)`, `lock(e)` leaves (a row permutation of) the minor, whose permanent is positive. -/
theorem matchable_pick {s s2 : St} {H : List (Nat × Nat)} {tn tn' : Nat} (hc : Core s H tn')
    (hf : Fam s tn) (t e : Nat) (hpos : 0 < entryM (prob s) t e)
    (hl : lock (swap s t e) e = .ok s2) : Matchable s2 := by
  obtain ⟨pn, _, hc2, _⟩ := lockStep_core hc t e hpos hl
  have hf2 := lockStep_fam hc.toR hf t e hpos hl
  exact ⟨hf2.nonneg hc2.toR, hf2.perm⟩

example : Inv5 exSys ∧ 0 < entryM (prob exSys.s) 0 0
    ∧ (match lock (swap exSys.s 0 0) 0 with | .ok _ => true | .error _ => false) = true :=
  ⟨ex_init5.inv5, by decide +kernel, by decide +kernel⟩

/-- `add_traj` keeps the idle block matchable: the returned row is non-zero in its own column, so
    the old matching is extended by `(e, e)`. -/
theorem matchable_addTraj {s s' : St} {H : List (Nat × Nat)} {tn tn0 : Nat} (e pnOld pn : Nat)
    (ens : Int) (valid : List Rat)
    (hc : Core s ((e, pnOld) :: H) tn0) (hf : Fam s tn) (ha : addTraj s ens pn valid = .ok s')
    (he : (ens + 1).toNat = e) (hens : -1 ≤ ens)
    (hrow : RowOk s.n e (padValid s ens valid)) (hlook : s.wts.lookup pn = some valid) :
    0 < permC (idle s'.W s'.locks) :=
  (addTraj_fam e pnOld pn ens valid hc.toR hf ha he hens hrow hlook).perm

/-- a swap of `sort_trajstate` keeps the idle block matchable (it permutes idle rows) -/
theorem matchable_sort {s s' : St} {H : List (Nat × Nat)} {tn tn' : Nat} (hc : Core s H tn')
    (hf : Fam s tn) (hs : sortStep s = .ok (some s')) : Matchable s' := by
  rcases sortStep_progress hc.toR hf with hnone | ⟨s1, hsome, hc1, _, hf1, _⟩
  · rw [hnone] at hs; simp at hs
  · rw [hsome] at hs
    simp only [Except.ok.injEq, Option.some.injEq] at hs
    subst hs
    exact ⟨hf1.nonneg hc1, hf1.perm⟩

/-- non-vacuity: the zero-swap job of the example holds slots 0 and 1; its `[0-]` path goes back -/
example : Inv5 (exAt 1) ∧ held (exAt 1).jobs = [(0, 0), (1, 1)] ∧ (exAt 1).s.wts.lookup 0 = some [1]
    ∧ RowOk (exAt 1).s.n 0 (padValid (exAt 1).s (-1) [1])
    ∧ (match addTraj (exAt 1).s (-1) 0 [1] with | .ok _ => true | .error _ => false) = true := by
  refine ⟨reach_inv5 (ex_reachable 1 (by decide)), by decide +kernel, by decide +kernel, ?_, by decide +kernel⟩
  have hn : (exAt 1).s.n = 4 := by decide +kernel
  have hp : padValid (exAt 1).s (-1) [1] = [1, 0, 0, 0] := by decide +kernel
  rw [hn, hp]
  exact ⟨fun _ => by unfold IsMinusRow; decide +kernel, fun h => absurd h (by decide)⟩

/-- **`matchable_invariant`**: in every reachable state the idle block of the weight matrix admits
    a perfect matching (non-negative entries, positive permanent). -/
theorem matchable_invariant_restart {y : Sys} (hr : ReachableR y) : Matchable y.s := by
  have h := reach_inv5R hr
  exact ⟨h.fam.nonneg h.inv.core, h.fam.perm⟩

example : Reachable (exAt 5) ∧ (exAt 5).s.locks = [true, false, true, true]
    ∧ idle (exAt 5).s.W (exAt 5).s.locks = [[1]] :=
  ⟨ex_reachable 5 (by decide), by decide +kernel, by decide +kernel⟩

/-- **`pick_defined`**: in every reachable state the probability matrix handed to `choice` has
    non-negative entries summing to the number of idle slots, which is positive as soon as one slot
    is idle: `P / ΣP` is a probability vector (finite, sums to one). -/
theorem pick_defined_restart {y : Sys} (hr : ReachableR y) :
    ((prob y.s).map List.sum).sum = (nIdle y.s.locks : Rat) ∧
    (∀ i j, 0 ≤ entryM (prob y.s) i j) ∧
    (∀ i : Nat, y.s.locks[i]? = some false → 0 < ((prob y.s).map List.sum).sum) := by
  have h := reach_inv5R hr
  obtain ⟨h1, h2⟩ := prob_total h.inv.core h.fam
  refine ⟨h1, h2, fun i hi => ?_⟩
  rw [h1]
  exact_mod_cast nIdle_pos_of_idle y.s.locks i hi

example : Reachable (exAt 4) ∧ (exAt 4).s.locks[1]? = some false
    ∧ ((prob (exAt 4).s).map List.sum).sum = 1 :=
  ⟨ex_reachable 4 (by decide), by decide +kernel, by decide +kernel⟩

/-- **A job can always be drawn**: in a reachable state with an idle slot some outcome has positive
    probability and `pick()` succeeds with it. -/
theorem job_can_be_drawn_restart {y : Sys} (hr : ReachableR y) (i : Nat) (hi : y.s.locks[i]? = some false) :
    ∃ o, 0 < entryM (prob y.s) o.t o.e ∧ ∃ r, pick y.s o = .ok r := by
  have h := reach_inv5R hr
  exact pick_possible h.inv.core h.fam i hi

example : Reachable (exAt 0) ∧ (exAt 0).s.locks[0]? = some false :=
  ⟨ex_reachable 0 (by decide), by decide +kernel⟩

/-- **An idle worker can always be given a job**: right after `treat_output` of a completed job —
    the moment the scheduler draws the worker's next job — the released ensemble is idle, some
    outcome has positive probability, and `pick()` succeeds with it. -/
theorem idle_worker_gets_job_restart {y y' : Sys} (hr : ReachableR y) (k : Nat) (status : Status)
    (newW : List (List Rat)) (o : PickOutcome) (hev : EvOk y (.step k status newW o))
    (h : sysStep y (.step k status newW o) = .ok y') :
    ∃ (s2 : St) (job : Job) (pns : List Nat) (it : Nat), y.jobs[k]? = some job ∧
      treatOutput (loop y.s).1 job status newW (sortFuel (loop y.s).1) = .ok (s2, pns, it) ∧
      (∃ i : Nat, s2.locks[i]? = some false) ∧
      ∃ o', 0 < entryM (prob s2) o'.t o'.e ∧ ∃ r, pick s2 o' = .ok r := by
  have hi := reach_inv5R hr
  obtain ⟨_, _, s2, job, pns, it, hjob, htreat, hc2, hf2, _, _, _, ⟨i, hidle⟩, _⟩ :=
    step_preserves5 k status newW o hi hev h
  exact ⟨s2, job, pns, it, hjob, htreat, ⟨i, hidle⟩, pick_possible hc2 hf2 i hidle⟩

example : Reachable (exAt 4) ∧ EvOk (exAt 4) (.step 0 .rej [] { t := 2, e := 2 })
    ∧ sysStep (exAt 4) (.step 0 .rej [] { t := 2, e := 2 }) = .ok (exAt 5) :=
  ⟨ex_reachable 4 (by decide), fun h => absurd h (by decide), by decide +kernel⟩

/-- **During the initiation phase a job can be drawn for every worker that is started**, with any
    permitted number of workers (at most ensembles − 1, i.e. `workers + 2 ≤ n`): some ensemble is
    idle, some outcome has positive probability and `pick()` succeeds with it. -/
theorem start_can_draw_restart {y : Sys} (hr : ReachableR y) (hw : y.s.workers + 2 ≤ y.s.n)
    (hto : 1 ≤ y.s.toinitiate) :
    (∃ i : Nat, y.s.locks[i]? = some false) ∧
      ∃ o, 0 < entryM (prob y.s) o.t o.e ∧ ∃ r, pick y.s o = .ok r := by
  have h := reach_inv5R hr
  obtain ⟨i, hi⟩ := start_has_idle_slot h.inv hw hto
  exact ⟨⟨i, hi⟩, pick_possible h.inv.core h.fam i hi⟩

example : Reachable (exAt 1) ∧ (exAt 1).s.workers + 2 ≤ (exAt 1).s.n ∧ 1 ≤ (exAt 1).s.toinitiate
    ∧ (exAt 1).s.locks = [true, true, false, true] :=
  ⟨ex_reachable 1 (by decide), by decide +kernel, by decide +kernel, by decide +kernel⟩

/-! ## B. Sorting terminates and leaves a non-zero diagonal -/

/-- **`sorted_diagonal_nonzero`**: when `sort_trajstate` returns (initiation over), every real slot
    has a non-zero weight of its path in its own ensemble; sorting only permutes idle rows: the
    locks, the rows and paths of locked slots are unchanged, rows and paths are permuted. -/
theorem sorted_diagonal_nonzero {s s' : St} {H : List (Nat × Nat)} {tn k : Nat} (fuel : Nat)
    (hc : Core s H tn) (hs : sortTrajstate fuel s = .ok (s', k)) (hto : s.toinitiate = -1) :
    (∀ i, i < s'.n - 1 → entryM s'.W i i ≠ 0) ∧
    s'.locks = s.locks ∧ s'.W.Perm s.W ∧ s'.trajs.Perm s.trajs ∧
    (∀ i : Nat, s.locks[i]? = some true → s'.W[i]? = s.W[i]? ∧ s'.trajs[i]? = s.trajs[i]?) := by
  obtain ⟨_, ha⟩ := sortTrajstate_core fuel hc hs
  obtain ⟨h1, h2, h3, h4, _⟩ := sortTrajstate_frame fuel hc.toR hs
  refine ⟨?_, h1, h2, h3, h4⟩
  exact diag_of_sortStep_none (sortTrajstate_fix fuel hs) (by rw [ha.toinitiate]; exact hto)

example : (∃ H tn, Core (exAt 3).s H tn) ∧ (exAt 3).s.toinitiate = -1
    ∧ sortTrajstate 20 (exAt 3).s = .ok ((exAt 3).s, 0) :=
  ⟨⟨_, _, (run_preserves _ ex_init5.init.inv (ex_runs 3 (by decide))).core⟩, by decide +kernel,
    by decide +kernel⟩

/-- `treat_output` is `preSort` (per-ensemble loop, "record weights", data rows) followed by
    `sort_trajstate`; the result gets the new `traj_num` and the worker's pin. -/
theorem treat_output_is_presort_then_sort (s : St) (job : Job) (status : Status)
    (newW : List (List Rat)) (fuel : Nat) :
    treatOutput s job status newW fuel =
      match preSort s job status newW with
      | .error er => .error er
      | .ok (s3, tn, pnNews) =>
        match sortTrajstate fuel s3 with
        | .error er => .error er
        | .ok (s4, iters) => .ok ({ s4 with trajNum := tn, cworker := job.pin }, pnNews, iters) :=
  treatOutput_eq s job status newW fuel

/-- **`sort_terminates`** (any number of workers).  `treat_output` is `preSort` followed by
    `sort_trajstate` (`treatOutput_eq`).  For every reachable state, every completing job and every
    outcome in the family: on the state `s3` the per-ensemble loop, "record weights" and the data
    rows leave behind, `sort_trajstate` with the scheduler's fuel `n² + 4` returns — it neither runs
    out of fuel (`.stall`: a non-terminating `while`) nor hits one of its two `.index` failures
    (`.value`), nor any other error. -/
theorem sort_terminates_restart {y : Sys} (hr : ReachableR y) (k : Nat) (status : Status)
    (newW : List (List Rat)) (o : PickOutcome) (hev : EvOk y (.step k status newW o))
    (job : Job) (hjob : y.jobs[k]? = some job) (s3 : St) (tn : Nat) (pns : List Nat)
    (hpre : preSort (loop y.s).1 job status newW = .ok (s3, tn, pns)) :
    ∃ s4 it, sortTrajstate (sortFuel (loop y.s).1) s3 = .ok (s4, it) := by
  have hi := reach_inv5R hr
  obtain ⟨hce, hfe, htn, _⟩ := loop_frame y.s
  have hperm := held_perm_erase y.jobs k job hjob
  have hc1 : CoreR (loop y.s).1 (heldJob job ++ held (y.jobs.eraseIdx k)) (loop y.s).1.trajNum := by
    rw [htn]
    exact (hi.inv.core.congr hce).perm hperm
  have hf1 : Fam (loop y.s).1 (loop y.s).1.trajNum := by rw [htn]; exact hi.fam.congr hfe
  have hjmem : job ∈ y.jobs := List.mem_of_getElem? hjob
  have hvec : status = .acc → ∀ pw ∈ job.picked.zip newW, VecOk (loop y.s).1.n pw.1.ens pw.2 := by
    intro ha
    rw [hce.n]
    exact hev ha job hjob
  obtain ⟨hc3, hf3, ha3, _, _⟩ := preSort_inv job status newW tn pns hc1 hf1
    (hi.inv.jobs job hjmem).ensGe (hi.pnum job hjmem) hvec hpre
  obtain ⟨s4, it, hs, _⟩ := sort_after_preSort (sortFuel (loop y.s).1) hc3 hf3
    (by unfold sortFuel; rw [ha3.n]; omega)
  exact ⟨s4, it, hs⟩

/-- the same for any state satisfying the invariants, with the measure made explicit: the loop
    runs at most `mu s ≤ n²` times -/
theorem sort_terminates_state {s : St} {H : List (Nat × Nat)} {tn tn' : Nat} (hc : Core s H tn')
    (hf : Fam s tn) : mu s ≤ s.n * s.n ∧ ∃ s' it, sortTrajstate (sortFuel s) s = .ok (s', it) := by
  refine ⟨mu_le s hc.lenW, ?_⟩
  obtain ⟨s', it, hs, _⟩ := sortTrajstate_terminates (sortFuel s) hc.toR hf
    (Nat.lt_of_le_of_lt (mu_le s hc.lenW) (by unfold sortFuel; omega))
  exact ⟨s', it, hs⟩

/-- non-vacuity: the hypotheses of `sort_terminates` are met by the accepted step of the example -/
example : Reachable (exAt 3) ∧ EvOk (exAt 3) (.step 0 .acc [[1], [1, 1, 0]] { t := 0, e := 0, coin := false })
    ∧ ((exAt 3).jobs[0]?).isSome = true
    ∧ (match (exAt 3).jobs[0]? with
       | some job => (match preSort (loop (exAt 3).s).1 job .acc [[1], [1, 1, 0]] with
                      | .ok _ => true | .error _ => false)
       | none => false) = true :=
  ⟨ex_reachable 3 (by decide), ex_evOk3, by decide +kernel, by decide +kernel⟩

/-- a state where the loop really has to move rows: slot 2 holds a row that is zero there -/
example : sortStep { exS0 with toinitiate := -1, W := [[1,0,0,0],[0,1,1,0],[0,1,0,0],[0,0,0,0]] }
      = .ok (some { exS0 with toinitiate := -1, W := [[1,0,0,0],[0,1,0,0],[0,1,1,0],[0,0,0,0]],
                               trajs := [some 0, some 2, some 1, none] }) := by
  decide +kernel

/-- a crafted state with three idle slots whose diagonal weight is zero (`[0-]` held by a job): the
    rows of the four plus slots are cyclically shifted; the loop needs three swaps (measure `mu = 8`) -/
def exSort6 : St := { blank 6 2 50 0 9 0 [[-1, -1]] [[0], [0], [0], [0], [0]] false [] with
  toinitiate := -1,
  W := [[1,0,0,0,0,0],[0,1,1,1,1,0],[0,1,0,0,0,0],[0,2,2,0,0,0],[0,1,1,1,0,0],[0,0,0,0,0,0]],
  trajs := [some 0, some 4, some 1, some 2, some 3, none],
  locks := [true, false, false, false, false, true] }

example : mu exSort6 = 8 ∧
    (match sortTrajstate (sortFuel exSort6) exSort6 with
     | .ok (s', k) => (s'.W, s'.trajs, s'.locks, k)
     | .error _ => ([], [], [], 99))
    = ([[1,0,0,0,0,0],[0,1,0,0,0,0],[0,2,2,0,0,0],[0,1,1,1,0,0],[0,1,1,1,1,0],[0,0,0,0,0,0]],
       [some 0, some 1, some 2, some 3, some 4, none], [true, false, false, false, false, true], 3) := by
  decide +kernel

/-! ## C. Live paths are distinct, path numbers are never reused -/

/-- **`live_paths_distinct`**: in every reachable state every real slot holds a path, numbered
    below `traj_num`, and distinct slots hold distinct paths. -/
theorem live_paths_distinct_restart {y : Sys} (hr : ReachableR y) :
    (∀ e, e < y.s.n - 1 → ∃ pn, y.s.trajs[e]? = some (some pn) ∧ pn < y.s.trajNum) ∧
    (∀ a b pn, a < y.s.n - 1 → b < y.s.n - 1 →
      y.s.trajs[a]? = some (some pn) → y.s.trajs[b]? = some (some pn) → a = b) := by
  have h := (reach_inv5R hr).inv.core
  exact ⟨h.live, h.inj⟩

example : Reachable (exAt 5) ∧ (exAt 5).s.trajs = [some 3, some 4, some 2, none]
    ∧ (exAt 5).s.trajNum = 5 :=
  ⟨ex_reachable 5 (by decide), by decide +kernel, by decide +kernel⟩

/-- `traj_num` never decreases along a history -/
theorem trajNum_mono {y0 y : Sys} {evs : List Ev} (h0 : Init5 y0) (hh : HistOk y0 evs)
    (hr : run y0 evs = .ok y) : y0.s.trajNum ≤ y.s.trajNum :=
  (run_preserves5 evs h0.inv5 hh hr).2

/-- **`path_numbers_fresh`**: the numbers `treat_output` hands out for an accepted move start at the
    old `traj_num` and stay below the new one; none of them was ever used: it is not a live path,
    not a key of `traj_data` (weights or fractions) and not in a row of the data file. -/
theorem path_numbers_fresh_restart {y y' : Sys} (hr : ReachableR y) (k : Nat) (newW : List (List Rat))
    (o : PickOutcome) (hev : EvOk y (.step k .acc newW o))
    (h : sysStep y (.step k .acc newW o) = .ok y') :
    y.s.trajNum ≤ y'.s.trajNum ∧
    ∃ (s2 : St) (job : Job) (pns : List Nat) (it : Nat), y.jobs[k]? = some job ∧
      treatOutput (loop y.s).1 job .acc newW (sortFuel (loop y.s).1) = .ok (s2, pns, it) ∧
      ∀ q ∈ pns, y.s.trajNum ≤ q ∧ q < y'.s.trajNum ∧
        (∀ e, e < y.s.n - 1 → y.s.trajs[e]? ≠ some (some q)) ∧
        q ∉ y.s.wts.map Prod.fst ∧ q ∉ y.s.frac.map Prod.fst ∧ q ∉ y.s.rows.map (·.1) := by
  have hi := reach_inv5R hr
  obtain ⟨_, hle, s2, job, pns, it, hjob, htreat, _, _, htn2, _, hfresh, _⟩ :=
    step_preserves5 k .acc newW o hi hev h
  refine ⟨hle, s2, job, pns, it, hjob, htreat, ?_⟩
  intro q hq
  obtain ⟨h1, h2⟩ := hfresh rfl q hq
  refine ⟨h1, by rw [← htn2]; exact h2, ?_, ?_, ?_, ?_⟩
  · intro e he hcontra
    obtain ⟨pn, hpn, hlt⟩ := hi.inv.core.live e he
    rw [hpn] at hcontra
    simp only [Option.some.injEq] at hcontra
    omega
  · intro hm; have := hi.fam.wkeys q hm; omega
  · intro hm; have := hi.fam.fkeys q hm; omega
  · intro hm
    obtain ⟨x, hx, rfl⟩ := List.mem_map.mp hm
    have := hi.fam.rkeys x hx; omega

example : Reachable (exAt 3) ∧ EvOk (exAt 3) (.step 0 .acc [[1], [1, 1, 0]] { t := 0, e := 0, coin := false })
    ∧ sysStep (exAt 3) (.step 0 .acc [[1], [1, 1, 0]] { t := 0, e := 0, coin := false }) = .ok (exAt 4)
    ∧ (exAt 3).s.trajNum = 3 ∧ (exAt 4).s.trajNum = 5 :=
  ⟨ex_reachable 3 (by decide), ex_evOk3, by decide +kernel, by decide +kernel, by decide +kernel⟩

/-! ## D. The restart file written after a step loads -/

/-- **`restart_file_loads`**: for a reachable state after the initiation phase and a completing step,
    the state `s2` `treat_output` leaves behind — the moment `write_toml` runs — has a non-zero
    diagonal, and `restore (persist s2)` with the live paths' recorded weight vectors passes every
    assertion of `load_paths` (whatever workers / steps / engine table the restart is given). -/
theorem restart_file_loads_restart {y y' : Sys} (hr : ReachableR y) (k : Nat) (status : Status)
    (newW : List (List Rat)) (o : PickOutcome) (hev : EvOk y (.step k status newW o))
    (hto : y.s.toinitiate = -1) (h : sysStep y (.step k status newW o) = .ok y') :
    ∃ (s2 : St) (job : Job) (pns : List Nat) (it : Nat), y.jobs[k]? = some job ∧
      treatOutput (loop y.s).1 job status newW (sortFuel (loop y.s).1) = .ok (s2, pns, it) ∧
      (∀ i, i < s2.n - 1 → entryM s2.W i i ≠ 0) ∧
      ∀ (workers tsteps : Nat) (occ : List (List Int)) (ensEng : List (List Nat)),
        ∃ s'', restore (persist s2) s2.n workers tsteps occ ensEng
          (fun pn => (s2.wts.lookup pn).getD []) = .ok s'' := by
  have hi := reach_inv5R hr
  obtain ⟨_, _, s2, job, pns, it, hjob, htreat, hc2, hf2, _, hdiag, _, _⟩ :=
    step_preserves5 k status newW o hi hev h
  exact ⟨s2, job, pns, it, hjob, htreat, hdiag hto, fun workers tsteps occ ensEng =>
    restore_loadsR hc2 hf2 (hdiag hto) workers tsteps occ ensEng⟩

example : Reachable (exAt 4) ∧ EvOk (exAt 4) (.step 0 .rej [] { t := 2, e := 2 })
    ∧ (exAt 4).s.toinitiate = -1
    ∧ sysStep (exAt 4) (.step 0 .rej [] { t := 2, e := 2 }) = .ok (exAt 5) :=
  ⟨ex_reachable 4 (by decide), fun h => absurd h (by decide), by decide +kernel, by decide +kernel⟩

/-! ## The fresh-start special cases (a run reachable from a fresh start is a `ReachableR` run) -/

theorem matchable_invariant {y : Sys} (hr : Reachable y) : Matchable y.s :=
  matchable_invariant_restart hr.toR

theorem pick_defined {y : Sys} (hr : Reachable y) :
    ((prob y.s).map List.sum).sum = (nIdle y.s.locks : Rat) ∧
    (∀ i j, 0 ≤ entryM (prob y.s) i j) ∧
    (∀ i : Nat, y.s.locks[i]? = some false → 0 < ((prob y.s).map List.sum).sum) :=
  pick_defined_restart hr.toR

theorem job_can_be_drawn {y : Sys} (hr : Reachable y) (i : Nat) (hi : y.s.locks[i]? = some false) :
    ∃ o, 0 < entryM (prob y.s) o.t o.e ∧ ∃ r, pick y.s o = .ok r :=
  job_can_be_drawn_restart hr.toR i hi

theorem idle_worker_gets_job {y y' : Sys} (hr : Reachable y) (k : Nat) (status : Status)
    (newW : List (List Rat)) (o : PickOutcome) (hev : EvOk y (.step k status newW o))
    (h : sysStep y (.step k status newW o) = .ok y') :
    ∃ (s2 : St) (job : Job) (pns : List Nat) (it : Nat), y.jobs[k]? = some job ∧
      treatOutput (loop y.s).1 job status newW (sortFuel (loop y.s).1) = .ok (s2, pns, it) ∧
      (∃ i : Nat, s2.locks[i]? = some false) ∧
      ∃ o', 0 < entryM (prob s2) o'.t o'.e ∧ ∃ r, pick s2 o' = .ok r :=
  idle_worker_gets_job_restart hr.toR k status newW o hev h

theorem start_can_draw {y : Sys} (hr : Reachable y) (hw : y.s.workers + 2 ≤ y.s.n)
    (hto : 1 ≤ y.s.toinitiate) :
    (∃ i : Nat, y.s.locks[i]? = some false) ∧
      ∃ o, 0 < entryM (prob y.s) o.t o.e ∧ ∃ r, pick y.s o = .ok r :=
  start_can_draw_restart hr.toR hw hto

theorem sort_terminates {y : Sys} (hr : Reachable y) (k : Nat) (status : Status)
    (newW : List (List Rat)) (o : PickOutcome) (hev : EvOk y (.step k status newW o))
    (job : Job) (hjob : y.jobs[k]? = some job) (s3 : St) (tn : Nat) (pns : List Nat)
    (hpre : preSort (loop y.s).1 job status newW = .ok (s3, tn, pns)) :
    ∃ s4 it, sortTrajstate (sortFuel (loop y.s).1) s3 = .ok (s4, it) :=
  sort_terminates_restart hr.toR k status newW o hev job hjob s3 tn pns hpre

theorem live_paths_distinct {y : Sys} (hr : Reachable y) :
    (∀ e, e < y.s.n - 1 → ∃ pn, y.s.trajs[e]? = some (some pn) ∧ pn < y.s.trajNum) ∧
    (∀ a b pn, a < y.s.n - 1 → b < y.s.n - 1 →
      y.s.trajs[a]? = some (some pn) → y.s.trajs[b]? = some (some pn) → a = b) :=
  live_paths_distinct_restart hr.toR

theorem path_numbers_fresh {y y' : Sys} (hr : Reachable y) (k : Nat) (newW : List (List Rat))
    (o : PickOutcome) (hev : EvOk y (.step k .acc newW o))
    (h : sysStep y (.step k .acc newW o) = .ok y') :
    y.s.trajNum ≤ y'.s.trajNum ∧
    ∃ (s2 : St) (job : Job) (pns : List Nat) (it : Nat), y.jobs[k]? = some job ∧
      treatOutput (loop y.s).1 job .acc newW (sortFuel (loop y.s).1) = .ok (s2, pns, it) ∧
      ∀ q ∈ pns, y.s.trajNum ≤ q ∧ q < y'.s.trajNum ∧
        (∀ e, e < y.s.n - 1 → y.s.trajs[e]? ≠ some (some q)) ∧
        q ∉ y.s.wts.map Prod.fst ∧ q ∉ y.s.frac.map Prod.fst ∧ q ∉ y.s.rows.map (·.1) :=
  path_numbers_fresh_restart hr.toR k newW o hev h

theorem restart_file_loads {y y' : Sys} (hr : Reachable y) (k : Nat) (status : Status)
    (newW : List (List Rat)) (o : PickOutcome) (hev : EvOk y (.step k status newW o))
    (hto : y.s.toinitiate = -1) (h : sysStep y (.step k status newW o) = .ok y') :
    ∃ (s2 : St) (job : Job) (pns : List Nat) (it : Nat), y.jobs[k]? = some job ∧
      treatOutput (loop y.s).1 job status newW (sortFuel (loop y.s).1) = .ok (s2, pns, it) ∧
      (∀ i, i < s2.n - 1 → entryM s2.W i i ≠ 0) ∧
      ∀ (workers tsteps : Nat) (occ : List (List Int)) (ensEng : List (List Nat)),
        ∃ s'', restore (persist s2) s2.n workers tsteps occ ensEng
          (fun pn => (s2.wts.lookup pn).getD []) = .ok s'' :=
  restart_file_loads_restart hr.toR k status newW o hev hto h

/-! ## E. Restarts: the restored state is a start state again -/

/-- **`restart_is_start5`** — closure under restarts.  For a state `y` reachable from a start state
    (fresh or restarted, nothing recorded in `locked` at its start), the restart file written
    there, restored with the same number of slots and the live paths' recorded weight vectors (any
    workers / steps / engine table): if `load_paths` does not raise, the restored state is a
    `Start5` state with an empty `locked` record — so every `_restart` theorem applies to runs
    continued from it, and again after the next stop (any chain of restarts).
    (`restart_file_loads_restart` shows `load_paths` does not raise at the moment `write_toml` runs.) -/
theorem restart_is_start5 (y0 y : Sys) (evs : List Ev) (h0 : Start5 y0) (hl : y0.s.locked = [])
    (hh : HistOk y0 evs) (hr : run y0 evs = .ok y) (workers tsteps : Nat) (occ : List (List Int))
    (ensEng : List (List Nat)) (s' : St)
    (h : restore (persist y.s) y.s.n workers tsteps occ ensEng
      (fun pn => (y.s.wts.lookup pn).getD []) = .ok s') :
    Start5 { s := s', jobs := [] } ∧ s'.locked = [] := by
  have hj : y0.jobs = [] := by
    rcases h0 with h0 | h0
    · exact h0.init.jobs
    · exact h0.init.jobs
  have hinitR := restore_of_reachable_is_initR y0 y evs h0.start hl hj hr workers tsteps occ ensEng _ s' h
  have hi := (run_preserves5 evs h0.inv5 hh hr).1
  exact ⟨Or.inr (restore_init5R hi.inv.core hi.fam workers tsteps occ ensEng h hinitR), hinitR.locked⟩

/-! ### a concrete restarted run: stop the example after event 4 (two jobs in flight), restore,
re-issue both recorded jobs, close the initiation, complete both -/

def exRS : St :=
  match restore (persist (exAt 4).s) 4 2 10 [[-1, -1]] [[0], [0], [0]]
      (fun pn => ((exAt 4).s.wts.lookup pn).getD []) with
  | .ok s => s
  | .error _ => exBlank

def exSysR : Sys := { s := exRS, jobs := [] }

def exEvsR : List Ev :=
  [ .start { t := 0, e := 0 }, .start { t := 0, e := 0 }, .initDone,
    .step 0 .acc [[1, 1, 0]] { t := 2, e := 2 }, .step 0 .rej [] { t := 0, e := 0 } ]

def exRAt (k : Nat) : Sys :=
  match run exSysR (exEvsR.take k) with
  | .ok y => y
  | .error _ => exSysR

theorem exRS_restored : restore (persist (exAt 4).s) (exAt 4).s.n 2 10 [[-1, -1]] [[0], [0], [0]]
    (fun pn => ((exAt 4).s.wts.lookup pn).getD []) = .ok exRS := by decide +kernel

theorem ex_start5R : Start5 exSysR ∧ exSysR.s.locked = [] :=
  restart_is_start5 exSys (exAt 4) (exEvs.take 4) (Or.inl ex_init5) (by decide +kernel)
    (histOk_take _ _ _ ex_histOk) (ex_runs 4 (by decide)) 2 10 [[-1, -1]] [[0], [0], [0]] exRS exRS_restored

theorem exR_step (k : Nat) (hk : k < 5) :
    ∃ ev, exEvsR[k]? = some ev ∧ sysStep (exRAt k) ev = .ok (exRAt (k + 1)) := by
  match k, hk with
  | 0, _ => exact ⟨_, rfl, by decide +kernel⟩
  | 1, _ => exact ⟨_, rfl, by decide +kernel⟩
  | 2, _ => exact ⟨_, rfl, by decide +kernel⟩
  | 3, _ => exact ⟨_, rfl, by decide +kernel⟩
  | 4, _ => exact ⟨_, rfl, by decide +kernel⟩

theorem exR_runs (k : Nat) (hk : k ≤ 5) : run exSysR (exEvsR.take k) = .ok (exRAt k) := by
  match k, hk with
  | 0, _ => decide +kernel
  | 1, _ => decide +kernel
  | 2, _ => decide +kernel
  | 3, _ => decide +kernel
  | 4, _ => decide +kernel
  | 5, _ => decide +kernel

theorem exR_evOk3 : EvOk (exRAt 3) (.step 0 .acc [[1, 1, 0]] { t := 2, e := 2 }) := by
  intro _ job hjob pw hpw
  have hens : (exRAt 3).jobs.map (fun j => j.picked.map (·.ens)) = [[1], [-1]] := by decide +kernel
  have hn : (exRAt 3).s.n = 4 := by decide +kernel
  have hj : job.picked.map (·.ens) = [1] := by
    have := congrArg (fun l => l[0]?) hens
    simp only [List.getElem?_map, hjob, Option.map_some, List.getElem?_cons_zero, Option.some.injEq] at this
    exact this
  rw [hn]
  obtain ⟨p1, hp⟩ : ∃ p1, job.picked = [p1] := by
    match hpk : job.picked with
    | [p1] => exact ⟨p1, rfl⟩
    | [] => rw [hpk] at hj; simp at hj
    | _ :: _ :: _ => rw [hpk] at hj; simp at hj
  rw [hp] at hj hpw
  simp only [List.map_cons, List.map_nil, List.cons.injEq, and_true] at hj
  simp only [List.zip_cons_cons, List.zip_nil_right, List.mem_cons, List.not_mem_nil, or_false] at hpw
  subst hpw
  show VecOk 4 p1.ens [1, 1, 0]
  rw [hj]; exact vecOk_plus 1 (by decide)

theorem exR_histOk : HistOk exSysR exEvsR := by
  have h0 : exRAt 0 = exSysR := by decide +kernel
  rw [← h0]
  obtain ⟨ev0, he0, hs0⟩ := exR_step 0 (by decide)
  obtain ⟨ev1, he1, hs1⟩ := exR_step 1 (by decide)
  obtain ⟨ev2, he2, hs2⟩ := exR_step 2 (by decide)
  obtain ⟨ev3, he3, hs3⟩ := exR_step 3 (by decide)
  obtain ⟨ev4, he4, hs4⟩ := exR_step 4 (by decide)
  simp only [exEvsR, List.getElem?_cons_zero, List.getElem?_cons_succ, Option.some.injEq] at he0 he1 he2 he3 he4
  subst he0 he1 he2 he3 he4
  exact histOk_cons hs0 trivial (histOk_cons hs1 trivial (histOk_cons hs2 trivial
    (histOk_cons hs3 exR_evOk3 (histOk_cons hs4 (fun h => absurd h (by decide)) trivial))))

theorem exR_reachable (k : Nat) (hk : k ≤ 5) : ReachableR (exRAt k) :=
  ⟨exSysR, exEvsR.take k, ex_start5R.1, histOk_take _ _ _ exR_histOk, exR_runs k hk⟩

/-- the restarted run: both recorded jobs are re-issued (slots 2 and 0 locked again), then complete;
    all `_restart` theorems apply to each of these states -/
example : ReachableR (exRAt 2) ∧ (exRAt 0).s.locked0 = [([2], [2]), ([0], [3])]
    ∧ (exRAt 2).s.locks = [true, false, true, true] ∧ (exRAt 2).s.locked0 = []
    ∧ (exRAt 5).s.trajs = [some 3, some 4, some 5, none] ∧ (exRAt 5).s.trajNum = 6 :=
  ⟨exR_reachable 2 (by decide), by decide +kernel, by decide +kernel, by decide +kernel,
    by decide +kernel, by decide +kernel⟩

/-- non-vacuity of the step theorems on the restarted run (accepted step 3, rejected step 4) -/
example : ReachableR (exRAt 3) ∧ EvOk (exRAt 3) (.step 0 .acc [[1, 1, 0]] { t := 2, e := 2 })
    ∧ (exRAt 3).s.toinitiate = -1
    ∧ sysStep (exRAt 3) (.step 0 .acc [[1, 1, 0]] { t := 2, e := 2 }) = .ok (exRAt 4) :=
  ⟨exR_reachable 3 (by decide), exR_evOk3, by decide +kernel, by decide +kernel⟩

/-- a second restart in the chain: stop the restarted run after its first re-issue and restore again -/
example : ∃ s'', restore (persist (exRAt 1).s) (exRAt 1).s.n 2 10 [[-1, -1]] [[0], [0], [0]]
      (fun pn => ((exRAt 1).s.wts.lookup pn).getD []) = .ok s''
    ∧ Start5 { s := s'', jobs := [] } := by
  have hex : ∃ s'', restore (persist (exRAt 1).s) (exRAt 1).s.n 2 10 [[-1, -1]] [[0], [0], [0]]
      (fun pn => ((exRAt 1).s.wts.lookup pn).getD []) = .ok s'' := by
    have hc := (reach_inv5R (exR_reachable 1 (by decide)))
    exact restore_loadsR hc.inv.core hc.fam (by
      intro i hi
      have hn : (exRAt 1).s.n = 4 := by decide +kernel
      rw [hn] at hi
      have : i = 0 ∨ i = 1 ∨ i = 2 := by omega
      rcases this with rfl | rfl | rfl <;> decide +kernel) 2 10 [[-1, -1]] [[0], [0], [0]]
  obtain ⟨s'', hs⟩ := hex
  exact ⟨s'', hs, (restart_is_start5 exSysR (exRAt 1) (exEvsR.take 1) ex_start5R.1 ex_start5R.2
    (histOk_take _ _ _ exR_histOk) (exR_runs 1 (by decide)) 2 10 [[-1, -1]] [[0], [0], [0]] s'' hs).1⟩

/-! ## F. Where the family hypothesis comes from: `calc_cv_vector` for shooting moves -/

/-- **For shooting-only configurations the hypothesis `HistOk` of all theorems above is implied.**
    `CvHist intfs y evs`: every accepted step's new weight vectors are what `calc_cv_vector`
    computes (`WF.cvVector` with no wire-fencing entry for a plus ensemble, `WF.cvMinus` of a valid
    path for `[0-]`), with strictly increasing interfaces `intfs` and `n = len(intfs) + 1` slots.
    Then the history is in C02's staircase family (`cvVector_sh_staircase`: the entries `1` are
    exactly the interfaces the path's maximum reaches — a prefix, because interfaces increase;
    the last entry is `0`).
    **Wire fencing is different**: a wf entry counts frames inside `[λ_i, cap)` on valid sub-paths;
    a path that jumps over the whole band has weight `0` there while its weights further up are
    non-zero (`wf_weight_vector_can_have_a_hole`), which is not a staircase.  For wf
    configurations the family assumption therefore remains a scope restriction of this package. -/
theorem histOk_of_cv_history (intfs : List Int) (hs : intfs.Pairwise (· < ·)) (y : Sys) (evs : List Ev)
    (h : CvHist intfs y evs) : HistOk y evs :=
  histOk_of_cv intfs hs evs y h

/-- the weight vector of an accepted shooting path is in the family and non-zero in its own
    ensemble `e` as soon as the path crosses `λ_e` (which an accepted shooting move guarantees) -/
theorem cv_vector_family (n : Nat) (e : Nat) (ops intfs : List Int) (mv : List Bool) (cap : Option Int)
    (ws : List Nat) (pmax : Int) (hmax : WF.maxOf ops = some pmax) (hn : n = intfs.length + 1)
    (hs : intfs.Pairwise (· < ·)) (hmv : ∀ b ∈ mv, b = false)
    (h : WF.cvVector ops intfs mv cap = .ok ws) (he : e < intfs.length - 1)
    (hcross : intfs[e]'(by omega) ≤ pmax) :
    VecOk n (e : Int) (ratVec ws) ∧ ws.getD e 0 = 1 :=
  ⟨cvVector_sh_vecOk n e (by omega) ops intfs mv cap ws hn hs hmv h,
    cvVector_sh_own ops intfs mv cap ws pmax hmax hs hmv h e he hcross⟩

example : WF.cvVector [-1, 1, 5, -1] [0, 2, 4, 6] [false, false, false] none = .ok [1, 1, 1, 0]
    ∧ WF.maxOf [-1, 1, 5, -1] = some 5 ∧ ([0, 2, 4, 6] : List Int).Pairwise (· < ·) := by
  refine ⟨by decide, by decide, by decide⟩

/-- **a wire-fencing weight vector with a hole**: interfaces `0 < 2 < 4 < 6`, ensemble `[1+]`
    wire-fencing; the path `-1, 1, 7, -1` jumps over `[2, 6)`: weights `(1, 0, 1, 0)` -/
theorem wf_weight_vector_can_have_a_hole :
    WF.cvVector [-1, 1, 7, -1] [0, 2, 4, 6] [false, true, false] none = .ok [1, 0, 1, 0] :=
  cvVector_wf_hole

/-! ### Outside the family the property FAILS on the code as it is (open known findings
`C05:hole-weight-vector:sort-stalls`, `C05:hole-weight-vector:prob-assertion`; witnesses on the real code
in corpus/C05/hole-vector-*.json).  The main theorems keep the family hypothesis. -/

/-- the shooting path `-1, 1.5, 5` of the witness (orders doubled to stay in `Int`): interfaces
    `0<1<2<3<4`, `[2+]` wire-fencing: weights `(1,1,0,1,0)` -/
example : WF.cvVector [-2, 3, 10] [0, 2, 4, 6, 8] [false, false, true, false] none = .ok [1, 1, 0, 1, 0] := by
  decide

/-- the state `treat_output` hands to `sort_trajstate` in step 2 of the witness: two paths with the
    hole vector in slots 1 and 2, the old `[1+]` path in slot 4 -/
def exHole : St := { blank 6 1 50 2 7 0 [[-1]] [[0], [0], [0], [0], [0]] false [] with
  toinitiate := -1,
  W := [[1,0,0,0,0,0],[0,1,1,0,1,0],[0,1,1,0,1,0],[0,1,1,1,0,0],[0,1,1,0,0,0],[0,0,0,0,0,0]],
  trajs := [some 0, some 5, some 6, some 3, some 2, none],
  locks := [false, false, false, false, false, true] }

/-- **`sort_terminates` fails outside the family**: the idle block of `exHole` is matchable (a valid
    slot order exists: positive permanent) and every row is non-negative, yet `sort_trajstate` with the
    scheduler's fuel runs out of fuel — the `while` loop swaps slots 3 and 4 forever. -/
theorem sort_stalls_on_hole_counterexample :
    0 < permC (idle exHole.W exHole.locks) ∧
    sortTrajstate (sortFuel exHole) exHole = .error .stall ∧
    sortTrajstate (1000) exHole = .error .stall := by
  decide +kernel

def exHoleW : Mat := [[1,0,0,0,0],[0,1,0,0,0],[0,1,1,0,0],[0,1,0,1,0],[0,0,0,0,0]]
def exHoleL : List Bool := [false, true, false, false, true]

def resIsAssert : Res → Bool
  | .error .assert => true
  | _ => false

theorem exHole_prepare : prepare 1 exHoleW exHoleL =
    { offset := 1, m := 3, sortIdx := [0, 1, 2], sorted := [[1,0,0],[0,1,0],[0,0,1]], equal := false } := by
  unfold prepare
  have h1 : ((idle exHoleW exHoleL).take (1 - ((exHoleL.take 1).filter (fun b => b)).length)).map
      (fun r => (firstPos r : Int)) = [0] := by decide +kernel
  have h2 : ((idle exHoleW exHoleL).drop (1 - ((exHoleL.take 1).filter (fun b => b)).length)).map
      (fun r => -(firstPos r.reverse : Int)) = [-1, 0] := by decide +kernel
  have a1 : argsort [0] = [0] := by simp [argsort, List.zipIdx]
  have a2 : argsort [-1, 0] = [0, 1] := by
    simp [argsort, List.zipIdx, List.mergeSort, List.MergeSort.Internal.splitInTwo]
  simp only [h1, h2, a1, a2]
  congr 1 <;> decide +kernel

/-- **`pick_defined` fails outside the family on the code's algorithm**: with the hole row
    `(1,0,1,0)` in slot 3 and `[0+]` locked (the zero-swap pick of the witness) the idle block is the
    identity — the permanent ratios (`probMatrix`, the specification) are perfectly well defined —
    but the model of the code's `inf_retis` (C02's `infRetis`: two argsorts, block decomposition)
    ends in its row-sum assertion. -/
theorem pick_undefined_on_hole_counterexample :
    infRetis exHoleW exHoleL = .error .assert ∧
    probMatrix exHoleW exHoleL = [[1,0,0,0,0],[0,0,0,0,0],[0,0,1,0,0],[0,0,0,1,0],[0,0,0,0,0]] := by
  constructor
  · have h0 : resIsAssert (infRetis exHoleW exHoleL) = true := by
      unfold infRetis
      simp only [exHole_prepare]
      decide +kernel
    revert h0
    cases infRetis exHoleW exHoleL with
    | ok P => intro h; simp [resIsAssert] at h
    | monteCarlo d => intro h; simp [resIsAssert] at h
    | error e => cases e <;> intro h <;> simp [resIsAssert] at h <;> rfl
  · decide +kernel

/-- the path `-1, 0.5, 4` of this witness (orders doubled): interfaces `0<1<2<3`, `[1+]` wire-fencing -/
example : WF.cvVector [-2, 1, 8] [0, 2, 4, 6] [false, true, false] none = .ok [1, 0, 1, 0] := by decide

/-- the accepted step of the restarted example, read as a `calc_cv_vector` outcome -/
example : EvCv [0, 2, 4] (exRAt 3) (.step 0 .acc [[1, 1, 0]] { t := 2, e := 2 }) := by
  intro _
  refine ⟨by decide +kernel, ?_⟩
  intro job hjob pw hpw
  have hens : (exRAt 3).jobs.map (fun j => j.picked.map (·.ens)) = [[1], [-1]] := by decide +kernel
  have hj : job.picked.map (·.ens) = [1] := by
    have := congrArg (fun l => l[0]?) hens
    simp only [List.getElem?_map, hjob, Option.map_some, List.getElem?_cons_zero, Option.some.injEq] at this
    exact this
  obtain ⟨p1, hp⟩ : ∃ p1, job.picked = [p1] := by
    match hpk : job.picked with
    | [p1] => exact ⟨p1, rfl⟩
    | [] => rw [hpk] at hj; simp at hj
    | _ :: _ :: _ => rw [hpk] at hj; simp at hj
  rw [hp] at hj hpw
  simp only [List.map_cons, List.map_nil, List.cons.injEq, and_true] at hj
  simp only [List.zip_cons_cons, List.zip_nil_right, List.mem_cons, List.not_mem_nil, or_false] at hpw
  subst hpw
  refine ⟨fun hneg => by simp only [hj] at hneg; omega, fun _ => ?_⟩
  refine ⟨[-1, 1, 3, -1], [false, false], none, [1, 1, 0], by decide, by decide, ?_⟩
  show ([1, 1, 0] : List Rat) = ratVec [1, 1, 0]
  decide +kernel


/-! ## G. Extension: the family hypothesis from ORDER SEQUENCES, wire fencing included

Model additions of this section live in `Infretis/Model/RepexCv.lean` (own file of this package; the C05 driver runs
them: ops `cvfam`, `cvload`, `mumat`), lemmas in `Infretis/Lemmas/RepexC05Cv.lean`, `RepexC05Chain.lean`. -/

open Infretis.RepexCv Infretis.Repex.Cv

/-- **Exactly when `calc_cv_vector` is in C02's family**: iff its positive entries have NO HOLE — whenever the entry
    of a higher ensemble `j` is positive (`EntryPos`: shooting `λ_j ≤ max(order)`; wire fencing
    `0 < weight λ_j cap ops`, a frame inside `[λ_j, cap)` on a valid sub-path) the entry of every lower ensemble
    `k < j` is positive too.  For every order sequence, every interface list, any mix of shooting and wire-fencing
    ensembles, with or without `interface_cap`. -/
theorem cv_vector_family_iff (n : Nat) (e : Int) (he : 0 ≤ e) (ops intfs : List Int) (mv : List Bool)
    (cap : Option Int) (ws : List Nat) (hn : n = intfs.length + 1)
    (h : WF.cvVector ops intfs mv cap = .ok ws) :
    ∃ pmax ilast, WF.maxOf ops = some pmax ∧ intfs.getLast? = some ilast ∧
      (VecOk n e (ratVec ws) ↔ NoHole ops intfs mv (cap.getD ilast) pmax) :=
  cvVector_vecOk_iff n e he ops intfs mv cap ws hn h

/-- both sides of `cv_vector_family_iff` occur: the shooting vector of section F is in the family, the hole vector
    `(1,0,1,0)` is not (entry 2 positive, wire-fencing entry 1 not) -/
example : WF.cvVector [-1, 1, 7, -1] [0, 2, 4, 6] [false, true, false] none = .ok [1, 0, 1, 0]
    ∧ ¬ NoHole [-1, 1, 7, -1] [0, 2, 4, 6] [false, true, false] 6 7
    ∧ WF.cvVector [-1, 1, 3, 5, 7, -1] [0, 2, 4, 6] [false, true, false] none = .ok [1, 2, 1, 0] := by
  refine ⟨by decide, ?_, by decide⟩
  intro h
  have := h 1 2 2 4 true false (by decide) (by decide) rfl rfl rfl rfl
    (by unfold EntryPos; decide)
  revert this
  unfold EntryPos
  decide

/-- **A wire-fencing band that is not jumped over has positive weight**: a path that starts below `l`, reaches `l`,
    ends outside `[l, r)` and has no MD step from below `l` to at/above `r` has a frame inside `[l, r)` on a valid
    sub-path — `wirefence_weight_and_pick` returns a positive weight. -/
theorem wf_weight_positive_without_jump (l r : Int) (hlr : l ≤ r) (ops : List Int) (first last pmax : Int)
    (hf : ops.head? = some first) (hfl : first < l)
    (hl : ops.getLast? = some last) (hout : last < l ∨ r ≤ last)
    (hmax : WF.maxOf ops = some pmax) (hreach : l ≤ pmax) (hnj : noJumpUp l r ops = true) :
    0 < WF.weight l r ops :=
  weight_pos_of_noJump l r hlr ops first last pmax hf hfl hl hout hmax hreach hnj

example : noJumpUp 2 6 [-1, 1, 3, 7, -1] = true ∧ WF.weight 2 6 [-1, 1, 3, 7, -1] = 1
    ∧ noJumpUp 2 6 [-1, 1, 7, -1] = false ∧ WF.weight 2 6 [-1, 1, 7, -1] = 0 := by decide

/-- **The family hypothesis from a condition on order sequences** (`noJumpCfg`, decidable, the driver evaluates it):
    strictly increasing interfaces, wire-fencing interfaces at or below the cap (`CapOk`), a path that starts below
    `λ_0`, ends below `λ_0` or at/above the cap, and never steps from below a wire-fencing interface `λ_k` to at/above
    the cap.  Then `calc_cv_vector` is in C02's family, and entry `k` is non-zero exactly when `λ_k ≤ max(order)` —
    in particular the own-ensemble weight `add_traj` asserts on is non-zero for a path that crosses its interface. -/
theorem cv_vector_family_of_no_jump (n : Nat) (e : Int) (he : 0 ≤ e) (c : CvCfg) (ops : List Int) (ws : List Nat)
    (hn : n = c.intfs.length + 1) (hs : c.intfs.Pairwise (· < ·)) (hcap : CapOk c)
    (hnj : noJumpCfg c ops = true) (h : WF.cvVector ops c.intfs c.mv c.cap = .ok ws) :
    VecOk n e (ratVec ws) ∧ ∃ pmax, WF.maxOf ops = some pmax ∧
      ∀ (k : Nat) (lam : Int), k + 1 < c.intfs.length → c.intfs[k]? = some lam →
        ∃ w, ws[k]? = some w ∧ (0 < w ↔ lam ≤ pmax) :=
  cvVector_vecOk_of_noJump n e he c ops ws hn hs hcap hnj h

def exCfg : CvCfg := { intfs := [0, 2, 4, 6], mv := [false, true, false], cap := none }

theorem exCfg_capOk : CapOk exCfg := by
  intro k lam hk hlam hm
  have : k = 0 ∨ k = 1 ∨ k = 2 := by simp [exCfg] at hk; omega
  rcases this with rfl | rfl | rfl
  · simp [exCfg] at hm
  · simp [exCfg] at hlam; subst hlam; decide
  · simp [exCfg] at hm

example : noJumpCfg exCfg [-1, 1, 3, 5, 7, -1] = true ∧ exCfg.intfs.Pairwise (· < ·) ∧ CapOk exCfg
    ∧ WF.cvVector [-1, 1, 3, 5, 7, -1] exCfg.intfs exCfg.mv exCfg.cap = .ok [1, 2, 1, 0] :=
  ⟨by decide, by decide, exCfg_capOk, by decide⟩

/-- **The boundary**: a vector outside the family needs an order sequence that violates the condition (with legal
    ends: an MD step from below a wire-fencing interface to at/above the cap) — the hole vectors of the open
    finding are exactly on the other side of `cv_vector_family_of_no_jump`. -/
theorem cv_vector_hole_needs_jump (n : Nat) (e : Int) (he : 0 ≤ e) (c : CvCfg) (ops : List Int) (ws : List Nat)
    (hn : n = c.intfs.length + 1) (hs : c.intfs.Pairwise (· < ·)) (hcap : CapOk c)
    (h : WF.cvVector ops c.intfs c.mv c.cap = .ok ws) (hbad : ¬ VecOk n e (ratVec ws)) :
    noJumpCfg c ops = false :=
  cvVector_hole_has_jump n e he c ops ws hn hs hcap h hbad

example : noJumpCfg exCfg [-1, 1, 7, -1] = false
    ∧ WF.cvVector [-1, 1, 7, -1] exCfg.intfs exCfg.mv exCfg.cap = .ok [1, 0, 1, 0] := by decide

/-- a bound on the MD step gives the no-jump condition for a band: steps of at most the band width `r - l` -/
theorem no_jump_of_step_bound (l r : Int) (ops : List Int)
    (h : ∀ (pre : List Int) (a b : Int) (suf : List Int), ops = pre ++ a :: b :: suf → b - a ≤ r - l) :
    noJumpUp l r ops = true :=
  noJumpUp_of_step_bound l r ops h

example : noJumpUp 2 6 [-1, 1, 3, 5, 7, -1] = true := by decide

/-- **`HistOk` (the hypothesis of every theorem of sections A–E) from order sequences, wire fencing included**:
    `CvHistW c y evs` — every accepted step's new weight vectors are `calc_cv_vector` of order sequences satisfying
    `noJumpCfg c` (`[0-]`: `cvMinus` of a valid path). -/
theorem histOk_of_cv_history_wf (c : CvCfg) (hs : c.intfs.Pairwise (· < ·)) (hcap : CapOk c) (y : Sys)
    (evs : List Ev) (h : CvHistW c y evs) : HistOk y evs :=
  histOk_of_cvW c hs hcap evs y h

/-- the accepted step of the restarted example, read as a `calc_cv_vector` outcome of a wire-fencing configuration
    (`[1+]` wire fencing, interfaces `0 < 2 < 4`): the path `-1, 1, 3, -1` has weights `(1, 1, 0)` -/
example : EvCvW { intfs := [0, 2, 4], mv := [false, true], cap := none } (exRAt 3)
    (.step 0 .acc [[1, 1, 0]] { t := 2, e := 2 }) := by
  intro _
  refine ⟨by decide +kernel, ?_⟩
  intro job hjob pw hpw
  have hens : (exRAt 3).jobs.map (fun j => j.picked.map (·.ens)) = [[1], [-1]] := by decide +kernel
  have hj : job.picked.map (·.ens) = [1] := by
    have := congrArg (fun l => l[0]?) hens
    simp only [List.getElem?_map, hjob, Option.map_some, List.getElem?_cons_zero, Option.some.injEq] at this
    exact this
  obtain ⟨p1, hp⟩ : ∃ p1, job.picked = [p1] := by
    match hpk : job.picked with
    | [p1] => exact ⟨p1, rfl⟩
    | [] => rw [hpk] at hj; simp at hj
    | _ :: _ :: _ => rw [hpk] at hj; simp at hj
  rw [hp] at hj hpw
  simp only [List.map_cons, List.map_nil, List.cons.injEq, and_true] at hj
  simp only [List.zip_cons_cons, List.zip_nil_right, List.mem_cons, List.not_mem_nil, or_false] at hpw
  subst hpw
  refine ⟨fun hneg => by simp only [hj] at hneg; omega, fun _ => ?_⟩
  refine ⟨[-1, 1, 3, -1], [1, 1, 0], by decide, by decide, ?_⟩
  show ([1, 1, 0] : List Rat) = ratVec [1, 1, 0]
  decide +kernel

/-! ### the iteration bound of `sort_trajstate` -/

/-- **`sort_trajstate` ends within `sortMeasure W ≤ n²` iterations** on every state `treat_output` hands to it
    (any number of workers): the number of `while` iterations the model returns — the tie compares it with the number
    of swaps of the real `sort_trajstate` on every step — is at most the measure
    `Σ_slots (slot − number of leading non-zero plus columns of its row)` of the state before sorting. -/
theorem sort_iterations_bounded {y : Sys} (hr : ReachableR y) (k : Nat) (status : Status)
    (newW : List (List Rat)) (o : PickOutcome) (hev : EvOk y (.step k status newW o))
    (job : Job) (hjob : y.jobs[k]? = some job) (s3 : St) (tn : Nat) (pns : List Nat)
    (hpre : preSort (loop y.s).1 job status newW = .ok (s3, tn, pns)) :
    ∃ s4 it, sortTrajstate (sortFuel (loop y.s).1) s3 = .ok (s4, it) ∧
      it ≤ sortMeasure s3.W ∧ sortMeasure s3.W ≤ s3.n * s3.n := by
  have hi := reach_inv5R hr
  obtain ⟨hce, hfe, htn, _⟩ := loop_frame y.s
  have hperm := held_perm_erase y.jobs k job hjob
  have hc1 : CoreR (loop y.s).1 (heldJob job ++ held (y.jobs.eraseIdx k)) (loop y.s).1.trajNum := by
    rw [htn]
    exact (hi.inv.core.congr hce).perm hperm
  have hf1 : Fam (loop y.s).1 (loop y.s).1.trajNum := by rw [htn]; exact hi.fam.congr hfe
  have hjmem : job ∈ y.jobs := List.mem_of_getElem? hjob
  have hvec : status = .acc → ∀ pw ∈ job.picked.zip newW, VecOk (loop y.s).1.n pw.1.ens pw.2 := by
    intro ha
    rw [hce.n]
    exact hev ha job hjob
  obtain ⟨hc3, hf3, ha3, _, _⟩ := preSort_inv job status newW tn pns hc1 hf1
    (hi.inv.jobs job hjmem).ensGe (hi.pnum job hjmem) hvec hpre
  obtain ⟨s4, it, hs, _⟩ := sort_after_preSort (sortFuel (loop y.s).1) hc3 hf3
    (by unfold sortFuel; rw [ha3.n]; omega)
  refine ⟨s4, it, hs, ?_, ?_⟩
  · rw [sortMeasure_eq_mu]
    exact sortTrajstate_iters_le _ hc3 hf3 hs
  · rw [sortMeasure_eq_mu]
    exact mu_le s3 hc3.lenW

/-- the crafted state of section B: measure 8, three iterations -/
example : sortMeasure exSort6.W = 8 ∧
    (match sortTrajstate (sortFuel exSort6) exSort6 with | .ok (_, k) => k | .error _ => 99) = 3 := by
  decide +kernel

/-! ### the restart file: slot order and path counter -/

/-- **The restart file written after a step loads, slot by slot** (`persist` / `restore` are the functions C06's
    restart-equivalence theorems are about): for a reachable state after the initiation phase and a completing step,
    `restore (persist s2)` of the state `treat_output` leaves behind (after `sort_trajstate`) succeeds, the image's
    `active` list IS the sorted slot order, every real slot of the restored state holds the path that slot held,
    all real slots are idle, and `traj_num` is the one the running state had. -/
theorem restart_file_same_slots {y y' : Sys} (hr : ReachableR y) (k : Nat) (status : Status)
    (newW : List (List Rat)) (o : PickOutcome) (hev : EvOk y (.step k status newW o))
    (hto : y.s.toinitiate = -1) (h : sysStep y (.step k status newW o) = .ok y') :
    ∃ (s2 : St) (job : Job) (pns : List Nat) (it : Nat), y.jobs[k]? = some job ∧
      treatOutput (loop y.s).1 job status newW (sortFuel (loop y.s).1) = .ok (s2, pns, it) ∧
      ∀ (workers tsteps : Nat) (occ : List (List Int)) (ensEng : List (List Nat)),
        ∃ s'', restore (persist s2) s2.n workers tsteps occ ensEng
          (fun pn => (s2.wts.lookup pn).getD []) = .ok s'' ∧
          (∀ e, e < s2.n - 1 → (persist s2).active[e]? = s2.trajs[e]? ∧ s''.trajs[e]? = s2.trajs[e]? ∧
            entryM s2.W e e ≠ 0) ∧
          s''.trajNum = s2.trajNum ∧ s''.locks = List.replicate (s2.n - 1) false ++ [true] := by
  have hi := reach_inv5R hr
  obtain ⟨_, _, s2, job, pns, it, hjob, htreat, hc2, hf2, _, hdiag, _, _⟩ :=
    step_preserves5 k status newW o hi hev h
  refine ⟨s2, job, pns, it, hjob, htreat, fun workers tsteps occ ensEng => ?_⟩
  obtain ⟨s'', hs''⟩ := restore_loadsR hc2 hf2 (hdiag hto) workers tsteps occ ensEng
  obtain ⟨_, h2, h3, h4, h5⟩ := restore_slots hc2 workers tsteps occ ensEng _ hs''
  exact ⟨s'', hs'', fun e he => ⟨h5 e he, h2 e he, hdiag hto e he⟩, h3, h4⟩

example : ReachableR (exRAt 3) ∧ EvOk (exRAt 3) (.step 0 .acc [[1, 1, 0]] { t := 2, e := 2 })
    ∧ (exRAt 3).s.toinitiate = -1
    ∧ sysStep (exRAt 3) (.step 0 .acc [[1, 1, 0]] { t := 2, e := 2 }) = .ok (exRAt 4) :=
  ⟨exR_reachable 3 (by decide), exR_evOk3, by decide +kernel, by decide +kernel⟩

/-- **Path numbers are never reused across restarts.**  A first life `y0 → y` (start state, nothing recorded in
    `locked`), the restart file of `y` restored to `s'`, a second life `⟨s', []⟩ → y2` and an accepted step there:
    the restored `traj_num` is the recorded one, it never decreases, and every number `q` the step hands out is
    `≥ traj_num` of the first life's last state — hence different from every live path, every `traj_data` key
    (weights, fractions) and every data-file row of the first life.  With `restart_is_start5` (the restored state is
    a start state again) this extends to any chain of restarts. -/
theorem path_numbers_fresh_across_restart (y0 y : Sys) (evs : List Ev) (h0 : Start5 y0) (hl : y0.s.locked = [])
    (hh : HistOk y0 evs) (hr : run y0 evs = .ok y) (workers tsteps : Nat) (occ : List (List Int))
    (ensEng : List (List Nat)) (s' : St)
    (h : restore (persist y.s) y.s.n workers tsteps occ ensEng
      (fun pn => (y.s.wts.lookup pn).getD []) = .ok s')
    (evs2 : List Ev) (y2 y3 : Sys) (hh2 : HistOk { s := s', jobs := [] } evs2)
    (hr2 : run { s := s', jobs := [] } evs2 = .ok y2) (k : Nat) (newW : List (List Rat)) (o : PickOutcome)
    (hev : EvOk y2 (.step k .acc newW o)) (hstep : sysStep y2 (.step k .acc newW o) = .ok y3) :
    s'.trajNum = y.s.trajNum ∧ y.s.trajNum ≤ y2.s.trajNum ∧
    ∃ (s2 : St) (job : Job) (pns : List Nat) (it : Nat), y2.jobs[k]? = some job ∧
      treatOutput (loop y2.s).1 job .acc newW (sortFuel (loop y2.s).1) = .ok (s2, pns, it) ∧
      ∀ q ∈ pns, y.s.trajNum ≤ q ∧
        (∀ e, e < y.s.n - 1 → y.s.trajs[e]? ≠ some (some q)) ∧
        q ∉ y.s.wts.map Prod.fst ∧ q ∉ y.s.frac.map Prod.fst ∧ q ∉ y.s.rows.map (·.1) := by
  have hi := (run_preserves5 evs h0.inv5 hh hr).1
  obtain ⟨hstart, _⟩ := restart_is_start5 y0 y evs h0 hl hh hr workers tsteps occ ensEng s' h
  obtain ⟨_, _, htn, _, _⟩ := restore_slots hi.inv.core workers tsteps occ ensEng _ h
  have hmono := (run_preserves5 evs2 hstart.inv5 hh2 hr2).2
  have hmono' : y.s.trajNum ≤ y2.s.trajNum := by
    have : s'.trajNum ≤ y2.s.trajNum := hmono
    omega
  have hreach2 : ReachableR y2 := ⟨_, evs2, hstart, hh2, hr2⟩
  obtain ⟨_, s2, job, pns, it, hjob, htreat, hfresh⟩ := path_numbers_fresh_restart hreach2 k newW o hev hstep
  refine ⟨htn, hmono', s2, job, pns, it, hjob, htreat, ?_⟩
  intro q hq
  obtain ⟨hge, _, _⟩ := hfresh q hq
  refine ⟨by omega, ?_, ?_, ?_, ?_⟩
  · intro e he hcontra
    obtain ⟨pn, hpn, hlt⟩ := hi.inv.core.live e he
    rw [hpn] at hcontra
    simp only [Option.some.injEq] at hcontra
    omega
  · intro hm; have := hi.fam.wkeys q hm; omega
  · intro hm; have := hi.fam.fkeys q hm; omega
  · intro hm
    obtain ⟨x, hx, rfl⟩ := List.mem_map.mp hm
    have := hi.fam.rkeys x hx; omega

/-- the restarted example: first life `exSys → exAt 4` (`traj_num` 5), second life `exSysR → exRAt 3`, the accepted
    step there hands out number 5 -/
example : Start5 exSys ∧ exSys.s.locked = [] ∧ run exSys (exEvs.take 4) = .ok (exAt 4)
    ∧ (exAt 4).s.trajNum = 5 ∧ run exSysR (exEvsR.take 3) = .ok (exRAt 3)
    ∧ sysStep (exRAt 3) (.step 0 .acc [[1, 1, 0]] { t := 2, e := 2 }) = .ok (exRAt 4)
    ∧ (exRAt 4).s.trajs = [some 3, some 4, some 5, none] :=
  ⟨Or.inl ex_init5, by decide +kernel, ex_runs 4 (by decide), by decide +kernel, exR_runs 3 (by decide),
    by decide +kernel, by decide +kernel⟩

/-! ### `load_paths` with the weights computed from the paths -/

/-- **`load_paths` as the code runs it** (`loadPathsCv`: weights of `paths[i+1]` from `calc_cv_vector`, `(1.0,)` for
    `paths[0]`) **is `loadPaths` on the computed vectors**. -/
theorem load_paths_cv_is_loadPaths (c : CvCfg) (s : St) (paths : List CvPath) (f : Nat → List Nat)
    (hn : 2 ≤ s.n) (hlen : paths.length = s.n - 1)
    (hcv : ∀ (i : Nat) (pn : Nat) (ops : List Int) (fr : List Rat), paths[i + 1]? = some (pn, ops, fr) →
      WF.cvVector ops c.intfs c.mv c.cap = .ok (f i)) :
    loadPathsCv c s paths = loadPaths s (withW f 0 paths) :=
  loadPathsCv_eq_loadPaths c s paths f hn hlen hcv

/-- **`load_paths` returns iff every initial plus path is valid in its own ensemble** (non-zero own weight, the
    assertion of `add_traj`); `f i` = what `calc_cv_vector` returns for `paths[i+1]`.
    Not in `loadPathsCv`: the evaluation of `self.prob` with which the real `add_traj` ends (P is a pure function of the
    state in the model).  In-family it is defined (`pick_defined`, and the tie runs it on every loaded state); with a HOLE
    vector among the initial paths the real `inf_retis` can fail its row-sum assertion already at load time — the open
    finding `C05:hole-weight-vector:prob-assertion`, witness: interfaces 0<2<4<5, `[1+]` wire fencing, `[2+]` path `-1, 5`. -/
theorem load_paths_cv_loads_iff (c : CvCfg) (n workers tsteps cstep trajNum seed : Nat) (occ : List (List Int))
    (ensEng : List (List Nat)) (restarted : Bool) (l0 : List (List Nat × List Nat)) (paths : List CvPath)
    (f : Nat → List Nat) (hn : 2 ≤ n) (hlen : paths.length = n - 1)
    (hcv : ∀ (i : Nat) (pn : Nat) (ops : List Int) (fr : List Rat), paths[i + 1]? = some (pn, ops, fr) →
      WF.cvVector ops c.intfs c.mv c.cap = .ok (f i))
    (hflen : ∀ i, i + 1 < paths.length → (f i).length + 1 = n) :
    (∃ s', loadPathsCv c (blank n workers tsteps cstep trajNum seed occ ensEng restarted l0) paths = .ok s') ↔
      ∀ i, i + 1 < paths.length → ∃ w, (f i)[i]? = some w ∧ w ≠ 0 :=
  loadPathsCv_loads_iff c n workers tsteps cstep trajNum seed occ ensEng restarted l0 paths f hn hlen hcv hflen

def exCvPaths : List CvPath :=
  [(0, [1, -1, 1], [0,0,0,0]), (1, [-1, 1, -1], [0,0,0,0]), (2, [-1, 1, 3, -1], [0,0,0,0])]

def exCfg3 : CvCfg := { intfs := [0, 2, 4], mv := [false, true], cap := none }

/-- three ensembles, `[1+]` wire fencing: the paths load; with the `[1+]` path replaced by one that does not reach
    `λ_1 = 2` the assertion of `add_traj` fires -/
example : (match loadPathsCv exCfg3 exBlank exCvPaths with
      | .ok s => (s.W, s.trajs, s.locks) | .error _ => ([], [], []))
      = ([[1,0,0,0],[0,1,0,0],[0,1,1,0],[0,0,0,0]], [some 0, some 1, some 2, none], [false, false, false, true])
    ∧ loadPathsCv exCfg3 exBlank [(0, [1, -1, 1], []), (1, [-1, 1, -1], []), (2, [-1, 1, -1], [])] = .error .assert := by
  decide +kernel

theorem vecOk_minus_gen (n : Nat) (hn : 1 ≤ n) : VecOk n (-1) [1] := by
  have h := (cvMinus_vecOk n hn (-1) (by decide) [0] 0 0 rfl (Int.le_refl _)).2
  have : ratVec [1] = ([1] : List Rat) := by simp [ratVec]
  rw [this] at h
  exact h

/-- **A fresh start from ORDER SEQUENCES is a start state of every theorem of sections A–E, and matchable**:
    `load_paths` as the code runs it, on `n - 1` initial paths with distinct numbers below `traj_num` whose order
    sequences satisfy the no-jump condition (strictly increasing interfaces, `CapOk`): if it returns, the state is
    `Init5` (so `Reachable` / `ReachableR` histories start from it) and its idle block admits a perfect matching. -/
theorem fresh_start_from_order_sequences (c : CvCfg) (n workers tsteps cstep trajNum seed : Nat)
    (occ : List (List Int)) (ensEng : List (List Nat)) (restarted : Bool) (paths : List CvPath)
    (f : Nat → List Nat) (s : St) (hn : 2 ≤ n) (hnc : n = c.intfs.length + 1) (hlen : paths.length = n - 1)
    (hs : c.intfs.Pairwise (· < ·)) (hcap : CapOk c)
    (hnd : (paths.map (·.1)).Nodup) (hlt : ∀ p ∈ paths, p.1 < trajNum)
    (hcv : ∀ (i : Nat) (pn : Nat) (ops : List Int) (fr : List Rat), paths[i + 1]? = some (pn, ops, fr) →
      WF.cvVector ops c.intfs c.mv c.cap = .ok (f i) ∧ noJumpCfg c ops = true)
    (h : loadPathsCv c (blank n workers tsteps cstep trajNum seed occ ensEng restarted []) paths = .ok s) :
    Init5 { s := s, jobs := [] } ∧ Matchable s := by
  have hbn : (blank n workers tsteps cstep trajNum seed occ ensEng restarted []).n = n := rfl
  rw [loadPathsCv_eq_loadPaths c _ paths f (by rw [hbn]; exact hn) (by rw [hbn]; exact hlen)
    (fun i pn ops fr hp => (hcv i pn ops fr hp).1)] at h
  have hi : Init5 { s := s, jobs := [] } := by
    apply fresh_start_is_init5 n workers tsteps cstep trajNum seed occ ensEng restarted (withW f 0 paths) s hn
      (by rw [withW_length]; exact hlen) (by rw [withW_map_fst]; exact hnd) ?_ ?_ h
    · intro p hp
      obtain ⟨j, hj⟩ := List.mem_iff_getElem?.mp hp
      have hjlt : j < paths.length := by
        have := (List.getElem?_eq_some_iff.mp hj).1
        rwa [withW_length] at this
      rcases hpj : paths[j] with ⟨pn, ops, fr⟩
      have hget : paths[j]? = some (pn, ops, fr) := by rw [List.getElem?_eq_getElem hjlt, hpj]
      rw [withW_get f paths 0 j pn ops fr hget] at hj
      simp only [Option.some.injEq] at hj
      subst hj
      exact hlt (pn, ops, fr) (List.mem_of_getElem? hget)
    · intro i hi
      have hilt : i < paths.length := by rwa [withW_length] at hi
      rcases hpi : paths[i] with ⟨pn, ops, fr⟩
      have hget : paths[i]? = some (pn, ops, fr) := by rw [List.getElem?_eq_getElem hilt, hpi]
      have hw := withW_get f paths 0 i pn ops fr hget
      rw [List.getElem?_eq_getElem hi, Option.some.injEq] at hw
      rw [hw]
      cases i with
      | zero =>
        simp only [Nat.zero_add, ↓reduceIte, Nat.cast_zero, Int.zero_sub]
        exact vecOk_minus_gen n (by omega)
      | succ j =>
        simp only [Nat.zero_add, Nat.succ_ne_zero, ↓reduceIte, Nat.add_sub_cancel]
        rw [show (((j + 1 : Nat) : Int) - 1) = (j : Int) by omega]
        obtain ⟨h1, h2⟩ := hcv j pn ops fr hget
        exact (cvVector_vecOk_of_noJump n (j : Int) (by omega) c ops (f j) hnc hs hcap h2 h1).1
  exact ⟨hi, ⟨hi.inv5.fam.nonneg hi.inv5.inv.core, hi.inv5.fam.perm⟩⟩

example : loadPathsCv exCfg3 exBlank exCvPaths = .ok
    (match loadPathsCv exCfg3 exBlank exCvPaths with | .ok s => s | .error _ => exBlank)
    ∧ noJumpCfg exCfg3 [-1, 1, -1] = true ∧ noJumpCfg exCfg3 [-1, 1, 3, -1] = true := by
  decide +kernel

/-! ## H. Audit repair: what "the step returns" is proved, and what is assumed

Every step theorem of sections A–E is stated for a step that RETURNS (`sysStep … = .ok y'`, `preSort … = .ok`): they say
what holds after it, and that `sort_trajstate` then returns too.  `EvOk` (the family hypothesis) does NOT make the step
return: a family vector may be zero in its own ensemble, and `add_traj` then raises
(`family_outcome_own_zero_counterexample`).  This section proves the missing half for the assertions the property names
— `add_traj`'s `valid[ens] != 0` and `unlock`'s lock assertion hold for every picked ensemble (`treat_loop_returns`) —
and composes it with `sort_terminates` (`treat_output_returns_partial`).  Still a hypothesis there: the `traj_data`
look-ups of "record weights" and `write_to_pathens` (no KeyError), which none of this package's invariants covers. -/

/-- **`EvOk` alone does not make the step return**: `(0,0,0)` is a family vector for `[0+]` (a staircase of height 0),
    but the accepted step of the example with this vector ends in `add_traj`'s assertion. -/
theorem family_outcome_own_zero_counterexample :
    VecOk 4 0 [0, 0, 0] ∧
    sysStep (exAt 3) (.step 0 .acc [[1], [0, 0, 0]] { t := 0, e := 0, coin := false }) = .error .assert := by
  refine ⟨⟨fun h => absurd h (by omega), fun _ => ⟨0, ?_, by decide⟩⟩, by decide +kernel⟩
  have : padN 4 0 [0, 0, 0] = [0, 0, 0, 0] := by unfold padN; rfl
  rw [this]; unfold IsPlusRow; decide +kernel

/-- **The per-ensemble loop of `treat_output` returns** (any number of workers, fresh start or restart): for every
    reachable state, every job in flight `k`, accepted or rejected, with one new weight vector per picked ensemble, each
    in the family (`EvOk`) and NON-ZERO IN ITS OWN ENSEMBLE: for every picked ensemble the pops of `locked`, the
    assertion `valid[ens] != 0` of `add_traj`, its row assignment and the lock assertion of `unlock` pass.  (Rejected:
    the old path goes back; its recorded weights are non-zero there because the pick had positive probability.) -/
theorem treat_loop_returns {y : Sys} (hr : ReachableR y) (k : Nat) (status : Status) (newW : List (List Rat))
    (o : PickOutcome) (hev : EvOk y (.step k status newW o)) (job : Job) (hjob : y.jobs[k]? = some job)
    (hlen : status = .acc → newW.length = job.picked.length)
    (hown : status = .acc → ∀ pw ∈ job.picked.zip newW,
      ∃ x, (padN y.s.n pw.1.ens pw.2)[(pw.1.ens + 1).toNat]? = some x ∧ x ≠ 0) :
    ∃ r, treatOutput.perEns status (loop y.s).1 (loop y.s).1.trajNum
      (job.picked.zip (if status = .acc then newW else job.picked.map (fun _ => []))) = .ok r := by
  have hi := reach_inv5R hr
  obtain ⟨hce, hfe, htn, _⟩ := loop_frame y.s
  have hperm := held_perm_erase y.jobs k job hjob
  have hc1 : CoreR (loop y.s).1 (heldJob job ++ held (y.jobs.eraseIdx k)) (loop y.s).1.trajNum := by
    rw [htn]
    exact (hi.inv.core.congr hce).perm hperm
  have hf1 : Fam (loop y.s).1 (loop y.s).1.trajNum := by rw [htn]; exact hi.fam.congr hfe
  have hjmem : job ∈ y.jobs := List.mem_of_getElem? hjob
  exact perEns_returns_inv job status newW hc1 hf1 (hi.inv.jobs job hjmem).ensGe hlen
    (fun ha => by rw [hce.n]; exact hev ha job hjob) (fun ha => by rw [hce.n]; exact hown ha)

/-- the accepted step of the example: both new vectors are non-zero in their own ensemble -/
example : Reachable (exAt 3) ∧ EvOk (exAt 3) (.step 0 .acc [[1], [1, 1, 0]] { t := 0, e := 0, coin := false })
    ∧ (∀ job, (exAt 3).jobs[0]? = some job → ([[1], [1, 1, 0]] : List (List Rat)).length = job.picked.length ∧
        ∀ pw ∈ job.picked.zip [[1], [1, 1, 0]],
          ∃ x, (padN (exAt 3).s.n pw.1.ens pw.2)[(pw.1.ens + 1).toNat]? = some x ∧ x ≠ 0) := by
  refine ⟨ex_reachable 3 (by decide), ex_evOk3, ?_⟩
  intro job hjob
  have hens : (exAt 3).jobs.map (fun j => j.picked.map (·.ens)) = [[-1, 0], [1]] := by decide +kernel
  have hn : (exAt 3).s.n = 4 := by decide +kernel
  have hj : job.picked.map (·.ens) = [-1, 0] := by
    have := congrArg (fun l => l[0]?) hens
    simp only [List.getElem?_map, hjob, Option.map_some, List.getElem?_cons_zero, Option.some.injEq] at this
    exact this
  rw [hn]
  obtain ⟨p1, p2, hp⟩ : ∃ p1 p2, job.picked = [p1, p2] := by
    match hpk : job.picked with
    | [p1, p2] => exact ⟨p1, p2, rfl⟩
    | [] => rw [hpk] at hj; simp at hj
    | [_] => rw [hpk] at hj; simp at hj
    | _ :: _ :: _ :: _ => rw [hpk] at hj; simp at hj
  rw [hp] at hj ⊢
  simp only [List.map_cons, List.map_nil, List.cons.injEq, and_true] at hj
  refine ⟨rfl, ?_⟩
  intro pw hpw
  simp only [List.zip_cons_cons, List.zip_nil_right, List.mem_cons, List.not_mem_nil, or_false] at hpw
  rcases hpw with rfl | rfl
  · show ∃ x, (padN 4 p1.ens [1])[(p1.ens + 1).toNat]? = some x ∧ x ≠ 0
    rw [hj.1]; exact ⟨1, by decide +kernel, by decide +kernel⟩
  · show ∃ x, (padN 4 p2.ens [1, 1, 0])[(p2.ens + 1).toNat]? = some x ∧ x ≠ 0
    rw [hj.2]; exact ⟨1, by decide +kernel, by decide +kernel⟩

/-- **`treat_output` returns, given the `traj_data` look-ups** (`_partial`: the guard `hbook` is exactly what is not proved —
    after the per-ensemble loop, "record weights" finds the fractions of every idle live path and `write_to_pathens`
    finds fractions and weights of the replaced paths, i.e. no KeyError).  Under it, for every reachable state, every
    job in flight and every family outcome that is non-zero in its own ensemble, the whole `treat_output` — loop,
    record weights, data rows, `sort_trajstate` with the scheduler's fuel — returns. -/
theorem treat_output_returns_partial {y : Sys} (hr : ReachableR y) (k : Nat) (status : Status) (newW : List (List Rat))
    (o : PickOutcome) (hev : EvOk y (.step k status newW o)) (job : Job) (hjob : y.jobs[k]? = some job)
    (hlen : status = .acc → newW.length = job.picked.length)
    (hown : status = .acc → ∀ pw ∈ job.picked.zip newW,
      ∃ x, (padN y.s.n pw.1.ens pw.2)[(pw.1.ens + 1).toNat]? = some x ∧ x ≠ 0)
    (hbook : ∀ s1 tn pns, treatOutput.perEns status (loop y.s).1 (loop y.s).1.trajNum
        (job.picked.zip (if status = .acc then newW else job.picked.map (fun _ => []))) = .ok (s1, tn, pns) →
      ∃ s2 s3, recordFrac s1 = .ok s2 ∧ (if status = .acc then writeRows s2 job.pnumOld else .ok s2) = .ok s3) :
    ∃ r, treatOutput (loop y.s).1 job status newW (sortFuel (loop y.s).1) = .ok r := by
  obtain ⟨⟨s1, tn, pns⟩, hloop⟩ := treat_loop_returns hr k status newW o hev job hjob hlen hown
  obtain ⟨s2, s3, hrec, hrows⟩ := hbook s1 tn pns hloop
  have hwl : (if status = .acc then newW else job.picked.map (fun _ => ([] : List Rat))).length = job.picked.length := by
    split
    · rename_i ha; exact hlen ha
    · simp
  have hpre : preSort (loop y.s).1 job status newW = .ok (s3, tn, pns) := by
    unfold preSort
    simp only []
    rw [if_neg (by rw [hwl]; simp), hloop]
    simp only [hrec, hrows]
  obtain ⟨s4, it, hsort⟩ := sort_terminates_restart hr k status newW o hev job hjob s3 tn pns hpre
  rw [treatOutput_eq, hpre]
  simp only [hsort]
  exact ⟨_, rfl⟩

/-- the guard is met on the example: the rejected step 4 and the accepted step 3 return as a whole -/
example : (match (exAt 4).jobs[0]? with
      | some job => (match treatOutput (loop (exAt 4).s).1 job .rej [] (sortFuel (loop (exAt 4).s).1) with
                     | .ok _ => true | .error _ => false)
      | none => false) = true
    ∧ (match (exAt 3).jobs[0]? with
      | some job => (match treatOutput (loop (exAt 3).s).1 job .acc [[1], [1, 1, 0]] (sortFuel (loop (exAt 3).s).1) with
                     | .ok _ => true | .error _ => false)
      | none => false) = true := by
  decide +kernel

end Infretis.C05
