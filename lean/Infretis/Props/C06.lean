import Infretis.Lemmas.RepexC06Chain
import Infretis.Lemmas.RepexC06MultiChain
import Infretis.Lemmas.RepexC06MultiRestore
import Infretis.Lemmas.RepexC06MultiReach
import Infretis.Lemmas.RepexC06MultiStop
import Infretis.Lemmas.RepexC06MultiTotal
import Infretis.Lemmas.RepexC06MultiEnd
import Infretis.Lemmas.RepexC06MultiChainU
import Infretis.Lemmas.RepexC06Now
import Infretis.Lemmas.RepexC06Graceful
import Infretis.Lemmas.RepexC04C05
/-
C06 — same seed, same run: determinism and restart equivalence (information-preservation argument on the
model; byte identity itself is established by the tie, harness/props/c06.py).

Determinism: `sysStep`/`run` are functions — two runs with the same seed and the same outcomes are equal by
construction; the content is what these functions may read, which is what `ObsR` lists.

`ObsR strict t0 ra rb a b` (Lemmas/RepexC06Obs): a and b agree on n, W, trajs, locks, locked, locked0, workers,
cstep, tsteps, trajNum, ensEng, seed, entropy, spawned, mainDraws, on frac and wts as finite maps, with `strict`
on occ and on toinitiate (= t0); both appended the same rows to their bases ra, rb.
By design NOT compared: cworker, restarted, rgenRestored, rows (they live in the data file).
-/
namespace Infretis.C06
open Infretis.Repex Infretis.Perm Infretis.Perm.C05

/-- **1. `restore (persist s)` is observationally `s`** (full).  For a stop state `s` — `StopState s pns`: a one-worker
    state right after `treat_output`, `pns` its live paths in slot order; shapes, every real slot idle with a path whose
    padded stored weight vector is its W row with a non-zero diagonal entry (the sorted diagonal, C05) and a fraction
    entry, ghost slot empty/zero/locked, no table entries for dead paths, nothing in flight or on record, entropy = seed,
    spawn counter = steps done — `load_paths` on the image goes through (every assertion passes) and the rebuilt state
    `s'` agrees with `s` on n, W, slot order, locks, locked/locked0 and their ordinals (= []), workers, cstep, tsteps,
    trajNum, ensEng, seed, entropy, spawn counter, and on the fraction and weight tables as finite maps (`RestoreRel`).
    By design different: `toinitiate = workers` (a full initiation is due), `mainDraws = 0` until the first pick restores
    the saved position, fresh engine table, `restarted`, `rows = []` (the rows are in the data file). -/
theorem restore_persist_obs_eq {s : St} {pns : List Nat} (h : StopState s pns) (occ : List (List Int)) :
    ∃ s', restore (persist s) s.n s.workers s.tsteps occ s.ensEng (fun pn => (s.wts.lookup pn).getD []) = .ok s' ∧
      RestoreRel occ s s' :=
  restore_persist_full h occ

/-- the slot-free core of 1 — kept because it needs no `StopState`: the scalar part (counters, seed, entropy = seed, spawn
    counter = steps done, nothing locked, full initiation due, stream position to be restored at the first pick, fresh
    engine table, no rows) is derived from `blank`/`load_paths`; that the load goes through (`h`: it needs the sorted
    diagonal, C05) and reproduces the slot contents from the stored paths (`hslots`: W rows = padded `weightOf`, slot
    order, locks, fractions/weights as finite maps) are hypotheses here.  FULL statement (not proved):
      StopState s → DiagNonzero s → (∀ live pn, s.wts.lookup pn = some (weightOf pn)) →
        ∃ s', restore (persist s) … = .ok s' ∧ RestoreRel occ s s'.
    The examples below discharge `h` and `hslots` on a concrete reachable state by evaluation. -/
theorem restore_persist_obs_eq_partial {s s' : St} (occ : List (List Int)) (weightOf : Nat → List Rat)
    (h : restore (persist s) s.n s.workers s.tsteps occ s.ensEng weightOf = .ok s')
    (hslots : s'.W = s.W ∧ s'.trajs = s.trajs ∧ s'.locks = s.locks ∧ FEq s.frac s'.frac ∧ FEq s.wts s'.wts)
    (hlk : s.locked = []) (hl0 : s.locked0 = []) (hlo : s.lockedOrd = []) (hl0o : s.locked0Ord = [])
    (hent : s.entropy = s.seed) (hsp : s.spawned = s.cstep) :
    RestoreRel occ s s' :=
  restore_persist_rel occ weightOf h hslots hlk hl0 hlo hl0o hent hsp

/-- **2a. `prep_md_items` respects observational equality** once the initiation is closed (`toinitiate = -1`, which is
    the case from the first `loop()` on): same error, or observationally equal states and the *identical* job
    description (ensembles, path numbers, stream identities, engine slots) and draw requests. -/
theorem prep_respects_obs_eq {t0 : Int} {ra rb : List Repex.Row} {a b : St} (h : ObsR True t0 ra rb a b) (ht : t0 < 0)
    (prev : Option Nat) (o : PickOutcome) (sv : Nat) :
    RelE (fun x y => ObsR True t0 ra rb x.1 y.1 ∧ x.2 = y.2) (prep a prev o sv) (prep b prev o sv) :=
  prep_closed_rel h ht prev o sv

/-- **2. one scheduler step respects observational equality**: for observationally equal samplers with the same jobs in
    flight (initiation closed), the same `.step` event (same completing job, status, new weights, pick outcome) gives the
    same error on both sides, or observationally equal samplers, the same jobs in flight, and the same rows appended to
    the data file (`ObsR.rows`). -/
theorem step_respects_obs_eq {t0 : Int} {ra rb : List Repex.Row} {x y : Sys}
    (h : ObsR True t0 ra rb x.s y.s) (hj : x.jobs = y.jobs) (ht : t0 < 0)
    (k : Nat) (status : Status) (newW : List (List Rat)) (o : PickOutcome) :
    RelE (fun x' y' => ObsR True t0 ra rb x'.s y'.s ∧ x'.jobs = y'.jobs)
      (sysStep x (.step k status newW o)) (sysStep y (.step k status newW o)) :=
  sysStep_step_rel ⟨h, hj⟩ ht k status newW o

/-- the same for a whole run of `.step` events -/
theorem run_respects_obs_eq {t0 : Int} {ra rb : List Repex.Row} {x y : Sys} (evs : List Ev) (hs : StepsOnly evs)
    (h : ObsR True t0 ra rb x.s y.s) (hj : x.jobs = y.jobs) (ht : t0 < 0) :
    RelE (fun x' y' => ObsR True t0 ra rb x'.s y'.s ∧ x'.jobs = y'.jobs) (run x evs) (run y evs) :=
  run_steps_rel evs hs ⟨h, hj⟩ ht

/-- **3. restart equivalence, one worker, every split point.**  Let the uninterrupted run be at any scheduler state `y`
    and let it execute `.step k st w o` followed by any `.step` events `rest` (result `yN`).  Split that first step
    where the restart file is written: `stepTreat` (loop + treat_output) leaves `r.1` with steps to go.  If `s'` is the
    state rebuilt from that file (`RestoreRel`, which `restore_persist_obs_eq_partial` provides), then running what the
    scheduler does after a restart — `.start o` with the saved stream position, the closing `.initDone`, then the same
    `rest` — succeeds and ends observationally equal to `yN`: same W, slots, locks, counters, stream position
    (`mainDraws`), spawn ordinal, fractions, the same jobs in flight (hence the same (ensemble, path, stream identity)
    was issued at every step), and the rows appended after the stop are the same (`yN.s.rows = r.1.rows ++ rws`,
    `yN'.s.rows = rws`).  Hypotheses besides `RestoreRel`: one worker, initiation closed, nothing recorded, the
    completed job ran on pin 0, the engine table of the stopped run frees to the fresh one. -/
theorem restart_equivalence_one_worker {occ : List (List Int)} {y : Sys} {s' : St} (k : Nat) (st : Status)
    (w : List (List Rat)) (o : PickOutcome) (rest : List Ev) (r : St × Job × List Job)
    (hT : stepTreat y k st w = .ok r) (hR : RestoreRel occ r.1 s') (hw : r.1.workers = 1)
    (hti : r.1.toinitiate = -1) (hpin : r.2.1.pin = 0) (hl0 : r.1.locked0 = [])
    (hlt : r.1.cstep < r.1.tsteps) (hocc : freeEngines r.1.occ 0 = freeEngines occ 0)
    (hsteps : StepsOnly rest) {yN : Sys} (hrun : run y (.step k st w o :: rest) = .ok yN) :
    ∃ yN', run { s := s', jobs := r.2.2 } (.start o r.1.mainDraws :: .initDone :: rest) = .ok yN' ∧
      ObsR True (-1) r.1.rows [] yN.s yN'.s ∧ yN.jobs = yN'.jobs ∧
      ∃ rws, yN.s.rows = r.1.rows ++ rws ∧ yN'.s.rows = rws := by
  obtain ⟨yN', h1, h2, h3⟩ := restart_run k st w o rest r hT hR hw hti hpin hl0 hlt hocc hsteps hrun
  obtain ⟨rws, hra, hrb⟩ := h2.rows
  exact ⟨yN', h1, h2, h3, rws, hra, by simpa using hrb⟩

/-- **3'. restart equivalence from the files alone**: 3 with `RestoreRel` discharged by 1 — the state left by
    `treat_output` is a stop state, the image is `persist` of it, the restart rebuilds from the image. -/
theorem restart_equivalence_from_image {occ : List (List Int)} {y : Sys} {pns : List Nat} (k : Nat) (st : Status)
    (w : List (List Rat)) (o : PickOutcome) (rest : List Ev) (r : St × Job × List Job)
    (hT : stepTreat y k st w = .ok r) (hS : StopState r.1 pns) (hw : r.1.workers = 1)
    (hti : r.1.toinitiate = -1) (hpin : r.2.1.pin = 0)
    (hlt : r.1.cstep < r.1.tsteps) (hocc : freeEngines r.1.occ 0 = freeEngines occ 0)
    (hsteps : StepsOnly rest) {yN : Sys} (hrun : run y (.step k st w o :: rest) = .ok yN) :
    ∃ s' yN', restore (persist r.1) r.1.n r.1.workers r.1.tsteps occ r.1.ensEng
        (fun pn => (r.1.wts.lookup pn).getD []) = .ok s' ∧
      run { s := s', jobs := r.2.2 } (.start o (persist r.1).rngDraws :: .initDone :: rest) = .ok yN' ∧
      ObsR True (-1) r.1.rows [] yN.s yN'.s ∧ yN.jobs = yN'.jobs ∧
      ∃ rws, yN.s.rows = r.1.rows ++ rws ∧ yN'.s.rows = rws := by
  obtain ⟨s', h1, hR⟩ := restore_persist_full hS occ
  obtain ⟨yN', h2, h3, h4, h5⟩ :=
    restart_equivalence_one_worker k st w o rest r hT hR hw hti hpin hS.locked0 hlt hocc hsteps hrun
  exact ⟨s', yN', h1, h2, h3, h4, h5⟩

/-- the heart of 3 in isolation: the job issued right after the restart equals the one the uninterrupted run issues
    after `treat_output` — same `PickOutcome` consumed at the same stream position with the same spawn ordinal. -/
theorem restart_first_job_same {occ : List (List Int)} {s2 s' : St} (job : Job) (rest : List Job) (o : PickOutcome)
    (hR : RestoreRel occ s2 s') (hw : s2.workers = 1) (hti : s2.toinitiate = -1) (hpin : job.pin = 0)
    (hl0 : s2.locked0 = []) (hlt : s2.cstep < s2.tsteps) (hocc : freeEngines s2.occ 0 = freeEngines occ 0)
    {yU : Sys} (hU : stepPrep (s2, job, rest) o = .ok yU) :
    ∃ y1 yR, sysStep { s := s', jobs := rest } (.start o s2.mainDraws) = .ok y1 ∧ sysStep y1 .initDone = .ok yR ∧
      yU.jobs = yR.jobs ∧ yU.s.mainDraws = yR.s.mainDraws ∧ yU.s.spawned = yR.s.spawned ∧
      yU.s.entropy = yR.s.entropy := by
  obtain ⟨y1, yR, h1, h2, h3, h4⟩ := restart_step job rest o hR hw hti hpin hl0 hlt hocc hU
  exact ⟨y1, yR, h1, h2, h4, h3.mainDraws, h3.spawned, h3.entropy⟩

/-- **4. `reissue_exact`, any number of workers.**  From a state with recorded in-flight jobs `recs` = ((slots = ensemble
    + 1, paths), ordinal of the job's child stream) — after a restart `locked0`/`locked0Ord` are exactly what the stop
    recorded — the first `|recs|` iterations of the initiation loop that run
      * hand out exactly the recorded (ensemble, path) pairs, job by job and in recorded order,
      * **with exactly the streams of the recorded ordinals**: entry `j` of the job with ordinal `ord` gets the move
        stream `SeedSequence(entropy, (ord, j))` and the engine stream `SeedSequence(entropy, (ord, j, 0))`
        (`recJobFull`; `entropy` = the seed in every restored state, see `reissue_exact_seed`) — the very streams
        the job had before the stop, so a multi-worker restart re-runs the same jobs with the same random numbers,
      * leave the spawn counter untouched (jobs issued = completed + in flight stays true),
      * consume the record, and put every job on record again (`locked`) **with the same ordinal** (`lockedOrd`),
      * leave every such slot locked with its path (`Held`).
    (Paths pairwise distinct, as C03 proves for recorded jobs.)  How many iterations run is `initiate_bound`. -/
theorem reissue_exact (recs : List ((List Nat × List Nat) × Nat)) (starts : List (PickOutcome × Nat)) (y y' : Sys)
    (rest : List (List Nat × List Nat)) (ordRest : List (Option Nat)) (H : List (Nat × Nat))
    (hlen : starts.length = recs.length) (hl0 : y.s.locked0 = recs.map (·.1) ++ rest)
    (hl0o : y.s.locked0Ord = recs.map (fun r => some r.2) ++ ordRest)
    (hshape : y.s.trajs.length = y.s.locks.length) (hH : Held y.s H)
    (hnd : ((H ++ recs.flatMap (fun r => recPairs r.1)).map (·.2)).Nodup)
    (hrun : run y (starts.map (fun x => Ev.start x.1 x.2)) = .ok y') :
    ∃ jobs, y'.jobs = y.jobs ++ jobs ∧
      jobs.map (fun j => j.picked.map pkFull) = recs.map (fun r => recJobFull y.s.entropy r.2 r.1) ∧
      y'.s.locked0 = rest ∧ y'.s.locked0Ord = ordRest ∧
      y'.s.locked = y.s.locked ++ recs.map (fun r => recEntry r.1) ∧
      y'.s.lockedOrd = y.s.lockedOrd ++ recs.map (·.2) ∧
      y'.s.spawned = y.s.spawned ∧ y'.s.entropy = y.s.entropy ∧
      Held y'.s (H ++ recs.flatMap (fun r => recPairs r.1)) :=
  reissue_run recs starts y y' rest ordRest H hlen hl0 hl0o hshape hH hnd hrun

/-- the ensemble/path part and the stream part of `reissue_exact` spelled out for a state whose entropy is the seed
    (every restored state: `blank` sets `entropy := seed`): job `i`, entry `j` is
    (ensemble = slot − 1, recorded path, rgen = ⟨seed, [ord_i, j]⟩, rgenEng = ⟨seed, [ord_i, j, 0]⟩). -/
theorem reissue_exact_seed (recs : List ((List Nat × List Nat) × Nat)) (starts : List (PickOutcome × Nat)) (y y' : Sys)
    (rest : List (List Nat × List Nat)) (ordRest : List (Option Nat)) (H : List (Nat × Nat))
    (hseed : y.s.entropy = y.s.seed)
    (hlen : starts.length = recs.length) (hl0 : y.s.locked0 = recs.map (·.1) ++ rest)
    (hl0o : y.s.locked0Ord = recs.map (fun r => some r.2) ++ ordRest)
    (hshape : y.s.trajs.length = y.s.locks.length) (hH : Held y.s H)
    (hnd : ((H ++ recs.flatMap (fun r => recPairs r.1)).map (·.2)).Nodup)
    (hrun : run y (starts.map (fun x => Ev.start x.1 x.2)) = .ok y') :
    ∃ jobs, y'.jobs = y.jobs ++ jobs ∧
      jobs.map (fun j => j.picked.map (fun p => (p.ens, p.pn, p.rgen, p.rgenEng))) =
        recs.map (fun r => ((r.1.1.zip r.1.2).zipIdx).map (fun xi =>
          ((xi.1.1 : Int) - 1, xi.1.2, ({ entropy := y.s.seed, key := [r.2, xi.2] } : Stream),
           ({ entropy := y.s.seed, key := [r.2, xi.2, 0] } : Stream)))) := by
  obtain ⟨jobs, h1, h2, _⟩ := reissue_run recs starts y y' rest ordRest H hlen hl0 hl0o hshape hH hnd hrun
  refine ⟨jobs, h1, ?_⟩
  rw [hseed] at h2
  exact h2

/-- the initiation loop runs an iteration only while a worker slot and a step are left, and uses one slot up: at most
    `min(workers, tsteps − cstep)` jobs are started (re-issued) after a restart (repaired `initiate`, commit 2596063). -/
theorem initiate_bound {s : St} (h : (initiate s).2 = true) :
    0 < s.toinitiate ∧ (s.cstep : Int) + ((s.workers : Int) - s.toinitiate) < (s.tsteps : Int) ∧
      (initiate s).1.toinitiate = s.toinitiate - 1 :=
  initiate_go6 h

/-- **4b. a second restart records them again, with the same ordinals**: the restart image written after the re-issues
    lists the re-issued jobs again (after whatever was on record before) together with their ordinals, and — the spawn
    counter being untouched — `set_rgen`'s `cstep + |locked|` still counts the jobs issued. -/
theorem reissue_survives_second_restart (recs : List ((List Nat × List Nat) × Nat)) (starts : List (PickOutcome × Nat))
    (y y' : Sys) (rest : List (List Nat × List Nat)) (ordRest : List (Option Nat)) (H : List (Nat × Nat))
    (hlen : starts.length = recs.length) (hl0 : y.s.locked0 = recs.map (·.1) ++ rest)
    (hl0o : y.s.locked0Ord = recs.map (fun r => some r.2) ++ ordRest)
    (hshape : y.s.trajs.length = y.s.locks.length) (hH : Held y.s H)
    (hnd : ((H ++ recs.flatMap (fun r => recPairs r.1)).map (·.2)).Nodup)
    (hrun : run y (starts.map (fun x => Ev.start x.1 x.2)) = .ok y') :
    (persist y'.s).locked = (persist y.s).locked ++ recs.map (·.1) ∧
      (persist y'.s).lockedOrd = (persist y.s).lockedOrd ++ recs.map (·.2) ∧
      y'.s.spawned = y.s.spawned := by
  obtain ⟨jobs, _, _, _, _, h4, h4o, h5, _⟩ :=
    reissue_run recs starts y y' rest ordRest H hlen hl0 hl0o hshape hH hnd hrun
  refine ⟨?_, ?_, h5⟩
  · simp only [persist, h4, List.map_append]
    congr 1
    have := persist_locked_recEntry (recs.map (·.1))
    simpa [List.map_map] using this
  · simp only [persist, h4o]

/-- **5. `StopState` is derived, not assumed**: for every state `y` reached by a well-formed one-worker history
    (`Reach1`: C03 `InvR`, C05 `Inv5`, C07 `NInv`, this package's `TidyY`/`One`/`Ent`, all of them preserved by every
    event from a one-worker start state `Start1`) with the initiation closed, the state `treat_output` leaves behind at a
    `.step` — the instant the restart file is written — is a stop state: C03 gives shapes, idle slots, distinct live
    paths; C05 the weight table = slot rows and the sorted non-zero diagonal; C07 an empty record and spawn counter =
    steps done; `TidyY` the empty/zero ghost slot and tables keyed exactly by the live paths. -/
theorem stopState_of_reachable {y0 y y' : Sys} (h0 : Start1 y0) (evs : List Ev) (hh : HistOk y0 evs)
    (hy : run y0 evs = .ok y) (hti : y.s.toinitiate = -1)
    (k : Nat) (st : Status) (w : List (List Rat)) (o : PickOutcome) (hev : EvOk y (.step k st w o))
    (h : sysStep y (.step k st w o) = .ok y') {r : St × Job × List Job} (hT : stepTreat y k st w = .ok r) :
    StopState r.1 (livePns r.1) :=
  (stopState_of_reach (run_reach1 evs h0.reach hh hy) hti k st w o hev h hT).1

/-- **6. restart equivalence for every one-worker history and every split point — no state hypothesis left.**
    `y0` any one-worker start state (`Start1`: a fresh start `Init5`, or a state rebuilt from an image `Init5R`, tidy
    tables, nothing recorded, entropy = seed, spawn counter = cstep); the history is what the scheduler does: `.start`,
    `.initDone`, then `.step` events, well formed in C05's sense (`HistOk`: accepted moves bring weight vectors of the
    family); the split is at any `.step` that is not the last.  Then the stopped state is a stop state, its image loads
    (the restart's engine table being the stopped one with worker 0's claims released), and the restarted run —
    `.start` with the saved stream position, `.initDone`, the remaining steps — ends observationally equal to the
    uninterrupted one: same W, slots, locks, counters, stream position, spawn ordinal, tables; same jobs in flight;
    the rows appended after the stop are the same. -/
theorem restart_equivalence_reachable {y0 yN : Sys} (h0 : Start1 y0) (o0 : PickOutcome) (sv0 : Nat)
    (steps1 : List Ev) (k : Nat) (st : Status) (w : List (List Rat)) (o : PickOutcome) (rest : List Ev)
    (hs1 : StepsOnly steps1) (hs2 : StepsOnly rest) (hne : rest ≠ [])
    (hh : HistOk y0 ((.start o0 sv0 :: .initDone :: steps1) ++ (.step k st w o :: rest)))
    (hrun : run y0 ((.start o0 sv0 :: .initDone :: steps1) ++ (.step k st w o :: rest)) = .ok yN) :
    ∃ y r s' yN', run y0 (.start o0 sv0 :: .initDone :: steps1) = .ok y ∧ stepTreat y k st w = .ok r ∧
      StopState r.1 (livePns r.1) ∧
      restore (persist r.1) r.1.n r.1.workers r.1.tsteps (freeEngines r.1.occ 0) r.1.ensEng
        (fun pn => (r.1.wts.lookup pn).getD []) = .ok s' ∧
      run { s := s', jobs := [] } (.start o (persist r.1).rngDraws :: .initDone :: rest) = .ok yN' ∧
      ObsR True (-1) r.1.rows [] yN.s yN'.s ∧ yN.jobs = yN'.jobs ∧
      ∃ rws, yN.s.rows = r.1.rows ++ rws ∧ yN'.s.rows = rws := by
  obtain ⟨y, r, s', yN', a1, a2, a3, _, _, _, _, _, a4, _, a5, a6, a7, a8⟩ :=
    restart_reachable h0 o0 sv0 steps1 k st w o rest hs1 hs2 hne hh hrun
  exact ⟨y, r, s', yN', a1, a2, a3, a4, a5, a6, a7, a8⟩

/-- **7. any chain of restarts.**  `Restarts y0 evs yN'`: the history `evs` executed from `y0` with any number of
    restarts (each right after the `treat_output` of a `.step` that is not the last one of what remains; each rebuilt
    state again a start state: `restored_start1`).  If `evs` also runs uninterrupted from the one-worker start state
    `y0` to `yN`, then `yN` and `yN'` are observationally equal, hold the same jobs, and the rows `yN'` appended since its
    last restart are a suffix of the rows of `yN`. -/
theorem restart_chain_equivalence {y0 yN yN' : Sys} {evs : List Ev} (hres : Restarts y0 evs yN')
    (h0 : Start1 y0) (hh : HistOk y0 evs) (hrun : run y0 evs = .ok yN) :
    ∃ t ra rb, ObsR True t ra rb yN.s yN'.s ∧ yN.jobs = yN'.jobs ∧ ∃ pre, yN.s.rows = pre ++ yN'.s.rows :=
  restart_chain hres h0 hh hrun

/-- the induction step of 7: the state rebuilt from the image of a stop state is again a one-worker start state -/
theorem restart_closed_one_worker {s s' : St} {pns : List Nat} {occ : List (List Int)}
    (hS : StopState s pns) (hc : CoreR s [] s.trajNum) (hf : Fam s s.trajNum) (ht : Tidy s) (hw : s.workers = 1)
    (hres : restore (persist s) s.n s.workers s.tsteps occ s.ensEng (fun pn => (s.wts.lookup pn).getD []) = .ok s')
    (hR : RestoreRel occ s s') : Start1 { s := s', jobs := [] } :=
  restored_start1 hS hc hf ht hw hres hR

/-- **8. the spawn counter round-trips through the restart file, for EVERY state** (no hypothesis on `locked` or
    `spawned`): `write_toml` stores `current.spawned` exactly when the counter is not `cstep + len(locked)` — after a
    restart that could not re-issue every recorded job — and `set_rgen` takes the key when present and the formula
    otherwise; so no job picked after a restart gets the stream ordinal of an earlier job. -/
theorem restore_spawned_roundtrip {s s' : St} {n workers tsteps : Nat} {occ : List (List Int)} {ensEng : List (List Nat)}
    {weightOf : Nat → List Rat} (h : restore (persist s) n workers tsteps occ ensEng weightOf = .ok s') :
    s'.spawned = s.spawned :=
  restore_spawned h

/-! ### non-vacuity on concrete small systems -/

/-- 3 ensembles + ghost, 2 workers, restarted at cstep 4 of 9 with two recorded jobs -/
def exRestored : St :=
  { n := 4,
    W := [[1, 0, 0, 0], [0, 1, 1, 0], [0, 1, 0, 0], [0, 0, 0, 0]],
    trajs := [some 0, some 5, some 3, none], locks := [false, false, false, true],
    locked := [], locked0 := [([2], [5]), ([1], [3])], locked0Ord := [some 3, some 5],
    toinitiate := 2, workers := 2, cworker := 0,
    cstep := 4, tsteps := 9, trajNum := 6,
    frac := [(5, [0, 0, 0, 0]), (3, [0, 0, 0, 0]), (0, [0, 0, 0, 0])],
    wts := [(5, [1, 1, 0]), (3, [1, 0, 0]), (0, [1])], rows := [], occ := [[-1, -1]],
    ensEng := [[0], [0], [0]], seed := 7, entropy := 7, spawned := 6, mainDraws := 0, restarted := true }

def exStarts : List (PickOutcome × Nat) := [({ t := 0, e := 0 }, 3), ({ t := 0, e := 0 }, 3)]

/-- the two initiation iterations run and re-issue (ens 1, path 5) then (ens 0, path 3); both are on record again -/
example : (match run { s := exRestored, jobs := [] } (exStarts.map (fun x => Ev.start x.1 x.2)) with
    | .ok y' => decide (
        y'.jobs.map (fun j => j.picked.map (fun p => (p.ens, p.pn))) = [[(1, 5)], [(0, 3)]] ∧
        y'.s.locked = [([1], [5]), ([0], [3])] ∧ (persist y'.s).locked = [([2], [5]), ([1], [3])] ∧
        (persist y'.s).lockedOrd = [3, 5] ∧ y'.s.spawned = 6 ∧
        y'.jobs.map (fun j => j.picked.map (fun p => (p.rgen, p.rgenEng))) =
          [[(⟨7, [3, 0]⟩, ⟨7, [3, 0, 0]⟩)], [(⟨7, [5, 0]⟩, ⟨7, [5, 0, 0]⟩)]] ∧
        y'.s.trajs = [some 0, some 3, some 5, none] ∧ y'.s.locks = [false, true, true, true])
    | .error _ => false) = true := by
  decide +kernel

def exRecs : List ((List Nat × List Nat) × Nat) := [(([2], [5]), 3), (([1], [3]), 5)]

/-- the hypotheses of `reissue_exact` hold for it -/
example : exStarts.length = exRecs.length ∧ exRestored.locked0 = exRecs.map (·.1) ++ [] ∧
    exRestored.locked0Ord = exRecs.map (fun r => some r.2) ++ [] ∧ exRestored.entropy = exRestored.seed ∧
    exRestored.trajs.length = exRestored.locks.length ∧
    Held exRestored [] ∧ ((([] : List (Nat × Nat)) ++ exRecs.flatMap (fun r => recPairs r.1)).map (·.2)).Nodup :=
  ⟨rfl, rfl, rfl, rfl, rfl, fun _ h => absurd h (by simp), by decide⟩


/-! a fresh one-worker system with [0-], [0+] (+ ghost), seed 5, 6 steps: started, two steps done, split at the third -/

def exFresh : St :=
  match loadPaths (blank 3 1 6 0 2 5 [[-1]] [[0], [0]] false []) [(0, [1], [0, 0, 0]), (1, [1, 0], [0, 0, 0])] with
  | .ok s => s
  | .error _ => exRestored

def exW : List (List Rat) := [[1, 0]]

def exY : Sys :=
  match run { s := exFresh, jobs := [] }
      [.start { t := 1, e := 1 }, .initDone, .step 0 .acc exW { t := 0, e := 0 }, .step 0 .rej [] { t := 1, e := 1 }] with
  | .ok y => y
  | .error _ => { s := exRestored, jobs := [] }

def exR : St × Job × List Job :=
  match stepTreat exY 0 .acc exW with
  | .ok r => r
  | .error _ => (exRestored, { pin := 0, wfolder := 0, picked := [], pnumOld := [] }, [])

def exWeightOf (pn : Nat) : List Rat := if pn = 0 then [1] else [1, 0]

def exS' : St :=
  match restore (persist exR.1) 3 1 6 [[-1]] [[0], [0]] exWeightOf with
  | .ok s => s
  | .error _ => exRestored

def exRest : List Ev := [.step 0 .rej [] { t := 1, e := 1 }, .step 0 .acc exW { t := 0, e := 0 }]

/-- the split is a real one: three steps done of six, the rebuilt state differs from the stopped one in the by-design
    fields, the fraction table comes back in another order -/
example : exR.1.cstep = 3 ∧ exR.1.tsteps = 6 ∧ exR.1.rows.length = 2 ∧ exS'.rows = [] ∧ exR.1.toinitiate = -1 ∧
    exS'.toinitiate = 1 ∧ exS'.restarted = true ∧ exR.1.mainDraws = 6 ∧ exS'.mainDraws = 0 ∧ exR.1.spawned = 3 ∧
    exS'.spawned = 3 ∧ exR.1.frac ≠ exS'.frac ∧ exR.1.occ = [[0]] ∧ exS'.occ = [[-1]] := by
  decide +kernel

theorem exRestoreRel : RestoreRel [[-1]] exR.1 exS' := by
  apply restore_persist_obs_eq_partial [[-1]] exWeightOf
  · apply eq_ok_of_okEq; decide +kernel
  · refine ⟨by decide +kernel, by decide +kernel, by decide +kernel, FEq_of_keys _ _ (by decide +kernel),
            FEq_of_keys _ _ (by decide +kernel)⟩
  · decide +kernel
  · decide +kernel
  · decide +kernel
  · decide +kernel
  · decide +kernel
  · decide +kernel

/-- all hypotheses of `restart_equivalence_one_worker` hold together on this system, and the uninterrupted run succeeds -/
example : stepTreat exY 0 .acc exW = .ok exR ∧ RestoreRel [[-1]] exR.1 exS' ∧ exR.1.workers = 1 ∧
    exR.1.toinitiate = -1 ∧ exR.2.1.pin = 0 ∧ exR.1.locked0 = [] ∧ exR.1.cstep < exR.1.tsteps ∧
    freeEngines exR.1.occ 0 = freeEngines [[-1]] 0 ∧ StepsOnly exRest ∧
    (∃ yN, run exY (.step 0 .acc exW { t := 1, e := 1 } :: exRest) = .ok yN) := by
  refine ⟨eq_ok_of_okEq (by decide +kernel), exRestoreRel, by decide +kernel, by decide +kernel, by decide +kernel,
          by decide +kernel, by decide +kernel, by decide +kernel, by simp [exRest, StepsOnly], ?_⟩
  cases h : run exY (.step 0 .acc exW { t := 1, e := 1 } :: exRest) with
  | ok yN => exact ⟨yN, rfl⟩
  | error e =>
    exfalso
    have : (match run exY (.step 0 .acc exW { t := 1, e := 1 } :: exRest) with | .ok _ => true | .error _ => false) = true := by
      decide +kernel
    rw [h] at this
    exact absurd this (by simp)

/-- the stopped state of the example is a stop state (live paths 0 and 3 in slot order) -/
theorem exStopState : StopState exR.1 [0, 3] := by
  refine ⟨by decide +kernel, by decide +kernel, by decide +kernel, by decide +kernel, by decide +kernel, ?_,
          by decide +kernel, by decide +kernel, by decide +kernel, by decide +kernel, by decide +kernel,
          by decide +kernel, by decide +kernel, by decide +kernel, by decide +kernel, by decide +kernel,
          by decide +kernel⟩
  intro e pn hp
  match e, hp with
  | 0, hp =>
    simp only [List.getElem?_cons_zero, Option.some.injEq] at hp
    subst hp
    exact ⟨by decide +kernel, by decide +kernel, [1], by decide +kernel, by decide +kernel, by decide +kernel,
           by decide +kernel, [3, 0, 0], by decide +kernel⟩
  | 1, hp =>
    simp only [List.getElem?_cons_succ, List.getElem?_cons_zero, Option.some.injEq] at hp
    subst hp
    exact ⟨by decide +kernel, by decide +kernel, [1, 0], by decide +kernel, by decide +kernel, by decide +kernel,
           by decide +kernel, [0, 1, 0], by decide +kernel⟩
  | e + 2, hp => simp at hp

/-- … and the full theorem 1 gives the same rebuilt state as the evaluation -/
example : ∃ s', restore (persist exR.1) 3 1 6 [[-1]] [[0], [0]] (fun pn => (exR.1.wts.lookup pn).getD []) = .ok s' ∧
    RestoreRel [[-1]] exR.1 s' := by
  have := restore_persist_obs_eq exStopState [[-1]]
  have h1 : exR.1.n = 3 := by decide +kernel
  have h2 : exR.1.workers = 1 := by decide +kernel
  have h3 : exR.1.tsteps = 6 := by decide +kernel
  have h4 : exR.1.ensEng = [[0], [0]] := by decide +kernel
  rw [h1, h2, h3, h4] at this
  exact this

/-! the same system as a member of the reachable family: fresh one-worker start state, well-formed history -/

def exY0 : Sys := { s := exFresh, jobs := [] }

def exPre : List Ev :=
  [.start { t := 1, e := 1 }, .initDone, .step 0 .acc exW { t := 0, e := 0 }, .step 0 .rej [] { t := 1, e := 1 }]

def exHist : List Ev := exPre ++ (.step 0 .acc exW { t := 1, e := 1 } :: exRest)

theorem exFresh_loaded :
    loadPaths (blank 3 1 6 0 2 5 [[-1]] [[0], [0]] false []) [(0, [1], [0, 0, 0]), (1, [1, 0], [0, 0, 0])] = .ok exFresh :=
  eq_ok_of_okEq (by decide +kernel)

theorem exStart1 : Start1 exY0 := by
  have h5 : Init5 exY0 := by
    apply init5_of_loadPaths 3 1 6 0 2 5 [[-1]] [[0], [0]] false _ exFresh (by decide) (by decide) (by decide)
      (by decide) ?_ exFresh_loaded
    intro i hi
    match i, hi with
    | 0, _ =>
      show VecOk 3 (-1) [1]
      exact Frac.vecOk_of_B (by decide +kernel)
    | 1, _ =>
      show VecOk 3 0 [1, 0]
      exact Frac.vecOk_of_B (by decide +kernel)
  have hk : exFresh.wts.map Prod.fst = [1, 0] := by decide +kernel
  have htr : exFresh.trajs = [some 0, some 1, none] := by decide +kernel
  refine ⟨Or.inl h5, ⟨by decide +kernel, by decide +kernel, by decide +kernel, ?_⟩, by decide +kernel,
    by decide +kernel, by decide +kernel, ⟨by decide +kernel, by decide +kernel, by decide +kernel⟩, by decide +kernel⟩
  intro q
  show q ∈ exFresh.wts.map Prod.fst ↔ some q ∈ exFresh.trajs
  rw [hk, htr]
  simp only [List.mem_cons, List.not_mem_nil, or_false, Option.some.injEq, reduceCtorEq]
  omega

theorem exHistOk : HistOk exY0 exHist := Frac.histOk_of_B _ _ (by decide +kernel)

def exYN : Sys := match run exY0 exHist with | .ok y => y | .error _ => exY0

theorem exRuns : run exY0 exHist = .ok exYN := eq_ok_of_okEq (by decide +kernel)

/-- all hypotheses of `restart_equivalence_reachable` hold on the concrete history (split after the third step) -/
example : Start1 exY0 ∧ StepsOnly (exPre.drop 2) ∧ StepsOnly exRest ∧ exRest ≠ [] ∧ HistOk exY0 exHist ∧
    run exY0 exHist = .ok exYN :=
  ⟨exStart1, by simp [exPre, StepsOnly], by simp [exRest, StepsOnly], by simp [exRest], exHistOk, exRuns⟩

/-- … and its conclusion, instantiated: the restarted run exists and ends observationally equal -/
example : ∃ y r s' yN', run exY0 exPre = .ok y ∧ stepTreat y 0 .acc exW = .ok r ∧ StopState r.1 (livePns r.1) ∧
    restore (persist r.1) r.1.n r.1.workers r.1.tsteps (freeEngines r.1.occ 0) r.1.ensEng
      (fun pn => (r.1.wts.lookup pn).getD []) = .ok s' ∧
    run { s := s', jobs := [] } (.start { t := 1, e := 1 } (persist r.1).rngDraws :: .initDone :: exRest) = .ok yN' ∧
    ObsR True (-1) r.1.rows [] exYN.s yN'.s ∧ exYN.jobs = yN'.jobs ∧
    ∃ rws, exYN.s.rows = r.1.rows ++ rws ∧ yN'.s.rows = rws :=
  restart_equivalence_reachable exStart1 { t := 1, e := 1 } 0
    [.step 0 .acc exW { t := 0, e := 0 }, .step 0 .rej [] { t := 1, e := 1 }] 0 .acc exW { t := 1, e := 1 } exRest
    (by simp [StepsOnly]) (by simp [exRest, StepsOnly]) (by simp [exRest]) exHistOk exRuns

/-- a run with one restart exists for the concrete history (so `restart_chain_equivalence` is not vacuous) -/
example : ∃ yN', Restarts exY0 exHist yN' := by
  obtain ⟨y, r, s', yN', a1, a2, _, a4, a5, _⟩ :=
    restart_equivalence_reachable exStart1 { t := 1, e := 1 } 0
      [.step 0 .acc exW { t := 0, e := 0 }, .step 0 .rej [] { t := 1, e := 1 }] 0 .acc exW { t := 1, e := 1 } exRest
      (by simp [StepsOnly]) (by simp [exRest, StepsOnly]) (by simp [exRest]) exHistOk exRuns
  exact ⟨yN', Restarts.restart (by simp [StepsOnly]) (by simp [exRest, StepsOnly]) (by simp [exRest]) a1 a2 a4
    (Restarts.direct a5)⟩

/-- a state whose counter is ahead of `cstep + len(locked)` (a record was dropped at an earlier restart): the key is
    written (`some 9`), the image loads, and the rebuilt state has the counter 9 again -/
def exAhead : St := { exR.1 with spawned := 9 }

example : spawnedKey exAhead = some 9 ∧ (persist exAhead).spawnedRec = some 9 ∧
    (match restore (persist exAhead) 3 1 6 [[-1]] [[0], [0]] exWeightOf with
     | .ok s' => decide (s'.spawned = 9 ∧ s'.cstep = 3 ∧ s'.locked0 = [])
     | .error _ => false) = true := by
  decide +kernel

/-! ## several workers (Lemmas/RepexC06Multi, RepexC06MultiRestart, RepexC06MultiChain)

After a restart with W > 1 workers the recorded jobs go to the workers 0, 1, … in recorded order, so worker pins, work
folders, the engine table and `cworker` differ from the uninterrupted run.  `RM ra rb x y` relates two scheduler states
up to that: `ObsR False` on the samplers (everything of `ObsR` except `occ`/`toinitiate`), both initiations closed, and
the jobs in flight equal position by position in `jobKey` = (per picked ensemble: ensemble, path, move-stream and
engine-stream identity; the old path numbers).  Jobs are identified by their position in flight order — equivalently by
their stream ordinal, `jobKey` carries it — and their outcome (`status`, `newW`) is a function of that position in
the event, which is the determinism assumption on engines. -/

/-- **9. one scheduler step respects equality-up-to-pins** (any W): if the left side performs `.step k st w o`, the
    right side performs it too and the results are related again — the only other possibility is that the right side
    has no free engine instance for the worker in `prep_md_items` (`EngFail`; C03's `einvR_of_shaped` excludes it when
    every engine type has enough instances).  Every other error is the same on both sides. -/
theorem step_respects_obs_eq_multi {ra rb : List Repex.Row} {x y x' : Sys} (h : RM ra rb x y) (k : Nat) (st : Status)
    (w : List (List Rat)) (o : PickOutcome) (hx : sysStep x (.step k st w o) = .ok x') :
    (∃ y', sysStep y (.step k st w o) = .ok y' ∧ RM ra rb x' y') ∨ EngFail (sysStep y (.step k st w o)) :=
  sysStep_step_relM h k st w o hx

/-- the same for a whole run of `.step` events that both sides complete -/
theorem run_respects_obs_eq_multi {ra rb : List Repex.Row} {x y xN yN : Sys} (evs : List Ev) (hs : StepsOnly evs)
    (h : RM ra rb x y) (hx : run x evs = .ok xN) (hy : run y evs = .ok yN) : RM ra rb xN yN :=
  run_steps_relM evs hs h hx hy

/-- 9 for a whole run, without assuming that the right side completes: it completes and the ends are related, or
    it stops at some step in the engine assignment (`EngFailRun`: the events before went through, related) — no other
    failure is possible on the right when the left completes. -/
theorem run_respects_obs_eq_multi_total {ra rb : List Repex.Row} {x y xN : Sys} (evs : List Ev) (hs : StepsOnly evs)
    (h : RM ra rb x y) (hx : run x evs = .ok xN) :
    (∃ yN, run y evs = .ok yN ∧ RM ra rb xN yN) ∨ EngFailRun y evs :=
  run_steps_relM_total evs hs h hx

/-- **10. the re-issue chain leaves every path where it was** (any W): when each recorded path sits in its recorded
    slot and no path sits in two slots — the situation after `load_paths` from the restart file of the same run — the
    `|recs|` initiation iterations change of the sampler exactly: the recorded slots get locked (`lockAll`), the record
    moves from `locked0` to `locked` with the same ordinals, engine table / current worker / initiation counter; W,
    the slot order, counters, tables, stream position and spawn counter are untouched.  The jobs handed out carry the
    recorded (ensemble, path) pairs with the streams of the recorded ordinals. -/
theorem reissue_in_place (recs : List ((List Nat × List Nat) × Nat)) (starts : List (PickOutcome × Nat)) (y y' : Sys)
    (rest : List (List Nat × List Nat)) (ordRest : List (Option Nat))
    (hlen : starts.length = recs.length) (hl0 : y.s.locked0 = recs.map (·.1) ++ rest)
    (hl0o : y.s.locked0Ord = recs.map (fun r => some r.2) ++ ordRest)
    (hin : ∀ x ∈ recs.flatMap (fun r => recPairs r.1), y.s.trajs[x.1]? = some (some x.2) ∧ x.1 + 1 < y.s.trajs.length)
    (hu : UniqLive y.s.trajs)
    (hrun : run y (starts.map (fun x => Ev.start x.1 x.2)) = .ok y') :
    ∃ jobs occ' cw, y'.jobs = y.jobs ++ jobs ∧
      jobs.map jobKey = recs.map (fun r => (recJobFull y.s.entropy r.2 r.1, (recPairs r.1).map (·.2))) ∧
      y'.s = reState y.s (recs.flatMap (fun r => recPairs r.1)) (recs.map (fun r => recEntry r.1)) (recs.map (·.2))
               rest ordRest occ' cw (recs.length : Int) :=
  reissue_run_state recs starts y y' rest ordRest hlen hl0 hl0o hin hu hrun

/-- **11. restart equivalence, several workers, every split point at which a fresh job is due.**  The uninterrupted
    run is at `y` and executes `.step k st w o` then the `.step` events `rest`, reaching `yN`.  At the split
    (`stepTreat`: loop + treat_output, the restart file is written) `r = (sampler, completed job, jobs in flight)`.
    `s'` = the state the restart rebuilds (`RestoreRelM occ recs r.1 s'`: slots as they were, unlocked; record to be
    re-issued; full initiation due; fresh engine table), `StopM recs r.1 r.2.2` = the jobs in flight are the record
    `recs` with their ordinals, each recorded path in its recorded slot.  If the restarted run — `|recs|` initiation
    iterations, one more with the saved stream position and the same pick outcome `o`, `.initDone`, the same `rest` (same
    completion positions, same outcomes) — completes, it ends in `yN'` with: the same W, slot order, locks, records and
    ordinals, counters, stream position, spawn ordinal, fraction/weight tables; jobs in flight with the same (ensemble,
    path, stream identities) position by position; and the same data rows appended after the stop. -/
theorem restart_equivalence_multi_worker {occ : List (List Int)} {recs : List ((List Nat × List Nat) × Nat)} {y : Sys}
    {s' : St} (k : Nat) (st : Status) (w : List (List Rat)) (o : PickOutcome) (rest : List Ev) (r : St × Job × List Job)
    (hT : stepTreat y k st w = .ok r) (hR : RestoreRelM occ recs r.1 s') (hS : StopM recs r.1 r.2.2)
    (hmore : r.1.cstep + r.1.workers ≤ r.1.tsteps) (hsteps : StepsOnly rest)
    {yN : Sys} (hrun : run y (.step k st w o :: rest) = .ok yN)
    (starts : List (PickOutcome × Nat)) (hlen : starts.length = recs.length) {yN' : Sys}
    (hrun' : run { s := s', jobs := [] }
      (starts.map (fun x => Ev.start x.1 x.2) ++ (.start o (persist r.1).rngDraws :: .initDone :: rest)) = .ok yN') :
    ObsR False 0 r.1.rows [] yN.s yN'.s ∧ JobsEq yN.jobs yN'.jobs ∧
      ∃ rws, yN.s.rows = r.1.rows ++ rws ∧ yN'.s.rows = rws := by
  have h := restart_run_multi k st w o rest r hT hR hS hmore hsteps hrun starts hlen hrun'
  obtain ⟨rws, hra, hrb⟩ := h.obs.rows
  exact ⟨h.obs, h.jobs, rws, hra, by simpa using hrb⟩

/-- the heart of 11 in isolation: right after the restart's initiation the scheduler state equals, up to pins, the one
    the uninterrupted run has after handing the freed worker its next job -/
theorem restart_first_jobs_multi {occ : List (List Int)} {recs : List ((List Nat × List Nat) × Nat)} {s2 s' : St}
    (job : Job) (restJobs : List Job) (o : PickOutcome)
    (hR : RestoreRelM occ recs s2 s') (hS : StopM recs s2 restJobs)
    {yU : Sys} (hU : stepPrep (s2, job, restJobs) o = .ok yU) (hmore : s2.cstep + s2.workers ≤ s2.tsteps)
    (starts : List (PickOutcome × Nat)) (hlen : starts.length = recs.length)
    {y1 y2 yR : Sys} (h1 : run { s := s', jobs := [] } (starts.map (fun x => Ev.start x.1 x.2)) = .ok y1)
    (h2 : sysStep y1 (.start o s2.mainDraws) = .ok y2) (h3 : sysStep y2 .initDone = .ok yR) :
    RM s2.rows [] yU yR :=
  restart_step_multi job restJobs o hR hS hU hmore starts hlen h1 h2 h3

/-- **12. any chain of restarts, several workers** (induction over `RestartsM`: each restart right after the
    `treat_output` of a `.step` with a fresh job due, with `RestoreRelM`/`StopM` at that stop and a continuation that
    also completes without further restarts): the uninterrupted run and the run with restarts end equal up to pins, and
    the rows written since the last restart are the tail of the rows of the uninterrupted run. -/
theorem restart_chain_equivalence_multi {y0 yN yN' : Sys} {evs : List Ev} (hres : RestartsM y0 evs yN')
    (hrun : run y0 evs = .ok yN) :
    ∃ ra rb, ObsR False 0 ra rb yN.s yN'.s ∧ JobsEq yN.jobs yN'.jobs ∧ ∃ pre, yN.s.rows = pre ++ yN'.s.rows :=
  restart_chain_multi hres hrun

/-- **13. `restore (persist s)` at a stop with jobs in flight** (any W; `restore_persist_obs_eq` is the case of an
    empty record).  `StopStateM s pns recs`: the state right after `treat_output`, `pns` its live paths in slot order —
    shapes, every real slot holding a path whose padded stored weight vector is its W row with a non-zero diagonal
    entry and a fraction entry, empty/zero ghost slot, tables keyed by live paths, entropy = seed — with the jobs in
    flight on record (`locked = recs` with ordinals `lockedOrd`) and exactly their slots locked.  Then the image loads
    (`load_paths` reads neither the record nor the spawn counter: `loadPaths_setRec`) and the rebuilt state has the
    slots of `s`, all free — re-locking the record gives the locks of `s` —, the record waiting in `locked0` with its
    ordinals, the counters, seed, entropy, spawn counter and tables of `s` (`RestoreRelM`). -/
theorem restore_persist_obs_eq_multi {s : St} {pns : List Nat} {recs : List ((List Nat × List Nat) × Nat)}
    (h : StopStateM s pns recs) (occ : List (List Int)) :
    ∃ s', restore (persist s) s.n s.workers s.tsteps occ s.ensEng (fun pn => (s.wts.lookup pn).getD []) = .ok s' ∧
      RestoreRelM occ recs s s' :=
  restore_persist_multi h occ

/-- **14. restart equivalence, several workers, from the files alone**: 11 with `RestoreRelM` discharged by 13 — the
    state left by `treat_output` is a stop state with its in-flight jobs on record, the image is `persist` of it, the
    restart rebuilds from the image; whatever initiation outcomes `starts` the re-issue iterations are given (they draw
    nothing), a restarted run that completes ends equal to the uninterrupted one up to who runs what. -/
theorem restart_equivalence_multi_from_image {occ : List (List Int)} {recs : List ((List Nat × List Nat) × Nat)}
    {pns : List Nat} {y : Sys} (k : Nat) (st : Status) (w : List (List Rat)) (o : PickOutcome) (rest : List Ev)
    (r : St × Job × List Job) (hT : stepTreat y k st w = .ok r) (hSS : StopStateM r.1 pns recs)
    (hS : StopM recs r.1 r.2.2) (hmore : r.1.cstep + r.1.workers ≤ r.1.tsteps) (hsteps : StepsOnly rest)
    {yN : Sys} (hrun : run y (.step k st w o :: rest) = .ok yN) :
    ∃ s', restore (persist r.1) r.1.n r.1.workers r.1.tsteps occ r.1.ensEng
        (fun pn => (r.1.wts.lookup pn).getD []) = .ok s' ∧
      ∀ (starts : List (PickOutcome × Nat)) (yN' : Sys), starts.length = recs.length →
        run { s := s', jobs := [] }
          (starts.map (fun x => Ev.start x.1 x.2) ++ (.start o (persist r.1).rngDraws :: .initDone :: rest)) = .ok yN' →
        ObsR False 0 r.1.rows [] yN.s yN'.s ∧ JobsEq yN.jobs yN'.jobs ∧
          ∃ rws, yN.s.rows = r.1.rows ++ rws ∧ yN'.s.rows = rws := by
  obtain ⟨s', h1, hR⟩ := restore_persist_multi hSS occ
  exact ⟨s', h1, fun starts yN' hlen hrun' =>
    restart_equivalence_multi_worker k st w o rest r hT hR hS hmore hsteps hrun starts hlen hrun'⟩

/-- **15. `StopM` is derived, not assumed** (any W): for every state `y` of every chain of runs and restarts
    (`ChainReach`, C07 — whose invariant `NInv` holds C03's slot invariant, `locked = jobs in flight`, one ordinal per
    job, each job carrying the streams of its ordinal), with the initiation closed and nothing left to re-issue, the state
    `treat_output` leaves at a `.step` has its jobs in flight on record (`recsOf`: slots, paths, ordinals — what
    `write_toml` stores), each recorded path in its recorded slot, no path in two slots.  `PnumOk` (every job's
    `pnum_old` lists its picked paths) is preserved by every event: `pnumOk_preserved`. -/
theorem stopM_of_reachable_multi {seed : Nat} {y : Sys} {log : List Entry} (h : ChainReach seed y log)
    (hti : y.s.toinitiate = -1) (hl0 : y.s.locked0Ord = []) (hp : PnumOk y.jobs) {k : Nat} {st : Status}
    {w : List (List Rat)} {r : St × Job × List Job} (hT : stepTreat y k st w = .ok r) :
    StopM (recsOf r.2.2 r.1.lockedOrd) r.1 r.2.2 :=
  stopM_of_reachable h hti hl0 hp hT

theorem pnumOk_preserved (evs : List Ev) {y y' : Sys} (hp : PnumOk y.jobs) (h : run y evs = .ok y') : PnumOk y'.jobs :=
  run_pnumOk evs hp h

/-- **16. restart equivalence, several workers, reachable states**: 14 with `StopM` discharged by 15.  What remains
    assumed of the stopped state is `StopStateM` (C05's sorted non-zero diagonal and the tidy tables at a stop with jobs
    in flight — derived for one worker in 5, evaluated on the example and compared by the tie for several) and that the
    restarted run completes (it can only stop in the engine assignment: 9). -/
theorem restart_equivalence_multi_reachable {seed : Nat} {y : Sys} {log : List Entry} (h : ChainReach seed y log)
    (hti : y.s.toinitiate = -1) (hl0 : y.s.locked0Ord = []) (hp : PnumOk y.jobs)
    {occ : List (List Int)} {pns : List Nat} (k : Nat) (st : Status) (w : List (List Rat)) (o : PickOutcome)
    (rest : List Ev) (r : St × Job × List Job) (hT : stepTreat y k st w = .ok r)
    (hSS : StopStateM r.1 pns (recsOf r.2.2 r.1.lockedOrd))
    (hmore : r.1.cstep + r.1.workers ≤ r.1.tsteps) (hsteps : StepsOnly rest)
    {yN : Sys} (hrun : run y (.step k st w o :: rest) = .ok yN) :
    ∃ s', restore (persist r.1) r.1.n r.1.workers r.1.tsteps occ r.1.ensEng
        (fun pn => (r.1.wts.lookup pn).getD []) = .ok s' ∧
      ∀ (starts : List (PickOutcome × Nat)) (yN' : Sys), starts.length = r.2.2.length →
        run { s := s', jobs := [] }
          (starts.map (fun x => Ev.start x.1 x.2) ++ (.start o (persist r.1).rngDraws :: .initDone :: rest)) = .ok yN' →
        ObsR False 0 r.1.rows [] yN.s yN'.s ∧ JobsEq yN.jobs yN'.jobs ∧
          ∃ rws, yN.s.rows = r.1.rows ++ rws ∧ yN'.s.rows = rws := by
  have hS := stopM_of_reachable h hti hl0 hp hT
  obtain ⟨s', h1, h2⟩ := restart_equivalence_multi_from_image (occ := occ) k st w o rest r hT hSS hS hmore hsteps hrun
  refine ⟨s', h1, fun starts yN' hlen hrun' => h2 starts yN' ?_ hrun'⟩
  have hl : (recsOf r.2.2 r.1.lockedOrd).length = r.2.2.length := by
    have := congrArg List.length hS.locked
    have h3 := congrArg List.length hS.onRecord
    simp only [List.length_map] at h3
    exact h3.symm
  rw [hl]; exact hlen

/-- **17. `StopStateM` and `StopM` are derived for any number of workers**: `y` reached from a start state `StartM`
    (fresh `Init5` or rebuilt `Init5R`, any W, tidy tables, nothing recorded, entropy = seed, spawn counter = cstep) by a
    well-formed history (`HistOk`), initiation closed: at every `.step` the state `treat_output` leaves behind is a stop
    state with its jobs in flight on record.  (`ReachM` = C03 `InvR` + C05 `Inv5` + C07 `NInv` + `TidyY` + `Ent` +
    `PnumOk`, each preserved by every event.) -/
theorem stopStateM_of_reachable {y0 y y' : Sys} (h0 : StartM y0) (evs : List Ev) (hh : HistOk y0 evs)
    (hy : run y0 evs = .ok y) (hti : y.s.toinitiate = -1)
    (k : Nat) (st : Status) (w : List (List Rat)) (o : PickOutcome) (hev : EvOk y (.step k st w o))
    (h : sysStep y (.step k st w o) = .ok y') {r : St × Job × List Job} (hT : stepTreat y k st w = .ok r) :
    StopStateM r.1 (livePns r.1) (recsOf r.2.2 r.1.lockedOrd) ∧ StopM (recsOf r.2.2 r.1.lockedOrd) r.1 r.2.2 :=
  stopStateM_of_reach (run_reachM evs h0.reach hh hy) hti k st w o hev h hT

/-- **18. restart equivalence for every history with any number of workers and every split point at which a fresh job
    is due — no hypothesis on any state.**  `y0` a start state (`StartM`), the history `pre ++ .step k st w o :: rest`
    well formed (`HistOk`) and running uninterrupted to `yN`; the initiation is closed when the split step begins.  Then
    the split state `r` exists, its image loads to some `s'` (any engine table `occ` for the new process), and every
    restarted run from `s'` — as many initiation iterations as jobs were in flight (whatever outcomes they are handed:
    re-issues draw nothing), one more with the saved stream position and the same outcome `o`, `.initDone`, the same
    `rest` — that completes ends equal to `yN` up to who runs what: same W, slot order, locks, records and ordinals,
    counters, stream position, spawn ordinal, fraction/weight tables; the jobs in flight agree position by position
    in (ensemble, path, stream identities); the data rows appended after the stop are the same.  (That the restarted
    run can only fail to complete in the engine assignment is 9.) -/
theorem restart_equivalence_reachable_multi {y0 y yN : Sys} (h0 : StartM y0) (pre : List Ev) (k : Nat) (st : Status)
    (w : List (List Rat)) (o : PickOutcome) (rest : List Ev) (occ : List (List Int))
    (hh : HistOk y0 (pre ++ (.step k st w o :: rest))) (hy : run y0 pre = .ok y) (hti : y.s.toinitiate = -1)
    (hsteps : StepsOnly rest) (hrun : run y (.step k st w o :: rest) = .ok yN) :
    ∃ r s', stepTreat y k st w = .ok r ∧
      StopStateM r.1 (livePns r.1) (recsOf r.2.2 r.1.lockedOrd) ∧ StopM (recsOf r.2.2 r.1.lockedOrd) r.1 r.2.2 ∧
      restore (persist r.1) r.1.n r.1.workers r.1.tsteps occ r.1.ensEng
        (fun pn => (r.1.wts.lookup pn).getD []) = .ok s' ∧
      RestoreRelM occ (recsOf r.2.2 r.1.lockedOrd) r.1 s' ∧
      (r.1.cstep + r.1.workers ≤ r.1.tsteps →
        ∀ (starts : List (PickOutcome × Nat)) (yN' : Sys), starts.length = r.2.2.length →
          run { s := s', jobs := [] }
            (starts.map (fun x => Ev.start x.1 x.2) ++ (.start o (persist r.1).rngDraws :: .initDone :: rest)) = .ok yN' →
          ObsR False 0 r.1.rows [] yN.s yN'.s ∧ JobsEq yN.jobs yN'.jobs ∧
            ∃ rws, yN.s.rows = r.1.rows ++ rws ∧ yN'.s.rows = rws) := by
  have hev : EvOk y (.step k st w o) := (histOk_append pre _ hh hy).1
  have hrun0 := hrun
  simp only [run] at hrun
  cases hstep : sysStep y (.step k st w o) with
  | error e => rw [hstep] at hrun; exact absurd hrun (by simp)
  | ok y' =>
    have hhalf := hstep
    rw [sysStep_eq_halves] at hhalf
    cases hT : stepTreat y k st w with
    | error e => rw [hT] at hhalf; exact absurd hhalf (by simp)
    | ok r =>
      obtain ⟨hSS, hS⟩ := stopStateM_of_reachable h0 pre (histOk_prefix pre _ hh) hy hti k st w o hev hstep hT
      obtain ⟨s', hres, hR⟩ := restore_persist_obs_eq_multi hSS occ
      refine ⟨r, s', rfl, hSS, hS, hres, hR, ?_⟩
      intro hmore starts yN' hlen hrun'
      have hl : (recsOf r.2.2 r.1.lockedOrd).length = r.2.2.length := by
        have h3 := congrArg List.length hS.onRecord
        simp only [List.length_map] at h3
        exact h3.symm
      exact restart_equivalence_multi_worker k st w o rest r hT hR hS hmore hsteps hrun0 starts (by rw [hl]; exact hlen)
        hrun'

/-- **19. restart equivalence, several workers, a stop in the final phase** (fewer steps left than workers, so the
    worker that completed the step gets no new job; at least one step left).  As 11, but the restarted run is
    `|recs|` re-issues, `.initDone`, the same `rest`; the ends agree up to who runs what and up to the position of the
    scheduler stream (`setMD`), from which nothing is drawn any more — `treat_output` neither reads nor writes it
    (`treatOutput_setMD`); the model's `restore` keeps that position at 0 until the first fresh pick, the code's
    `set_rgen` restores it at once.  With 11 this covers every split point 0 < k < N.
    (Audit 2026-09-30: the exact statement, for the restart as the code performs it — `restoreNow` — is 23; chains with
    final-phase stops are 24.) -/
theorem restart_equivalence_multi_final_phase {occ : List (List Int)} {recs : List ((List Nat × List Nat) × Nat)}
    {y : Sys} {s' : St} (k : Nat) (st : Status) (w : List (List Rat)) (o : PickOutcome) (rest : List Ev)
    (r : St × Job × List Job) (hT : stepTreat y k st w = .ok r) (hR : RestoreRelM occ recs r.1 s')
    (hS : StopM recs r.1 r.2.2) (hend : ¬ (r.1.cstep + r.1.workers ≤ r.1.tsteps)) (hlt : r.1.cstep < r.1.tsteps)
    (hmW : recs.length ≤ r.1.workers) (hsteps : StepsOnly rest)
    {yN : Sys} (hrun : run y (.step k st w o :: rest) = .ok yN)
    (starts : List (PickOutcome × Nat)) (hlen : starts.length = recs.length) {yN' : Sys}
    (hrun' : run { s := s', jobs := [] } (starts.map (fun x => Ev.start x.1 x.2) ++ (.initDone :: rest)) = .ok yN') :
    ObsR False 0 r.1.rows [] yN.s (setMD yN'.s r.1.mainDraws) ∧ JobsEq yN.jobs yN'.jobs ∧
      ∃ rws, yN.s.rows = r.1.rows ++ rws ∧ yN'.s.rows = rws := by
  have h := restart_run_multi_end k st w o rest r hT hR hS hend hlt hmW hsteps hrun starts hlen hrun'
  obtain ⟨rws, hra, hrb⟩ := h.obs.rows
  have hrb' : (nm r.1.mainDraws yN').s.rows = rws := by simpa using hrb
  exact ⟨h.obs, h.jobs, rws, hra, hrb'⟩

/-- 19 for reachable states: `RestoreRelM` and `StopM` discharged as in 18 -/
theorem restart_equivalence_reachable_multi_final_phase {y0 y yN : Sys} (h0 : StartM y0) (pre : List Ev) (k : Nat)
    (st : Status) (w : List (List Rat)) (o : PickOutcome) (rest : List Ev) (occ : List (List Int))
    (hh : HistOk y0 (pre ++ (.step k st w o :: rest))) (hy : run y0 pre = .ok y) (hti : y.s.toinitiate = -1)
    (hsteps : StepsOnly rest) (hrun : run y (.step k st w o :: rest) = .ok yN) :
    ∃ r s', stepTreat y k st w = .ok r ∧
      restore (persist r.1) r.1.n r.1.workers r.1.tsteps occ r.1.ensEng
        (fun pn => (r.1.wts.lookup pn).getD []) = .ok s' ∧
      (¬ (r.1.cstep + r.1.workers ≤ r.1.tsteps) → r.1.cstep < r.1.tsteps → r.2.2.length ≤ r.1.workers →
        ∀ (starts : List (PickOutcome × Nat)) (yN' : Sys), starts.length = r.2.2.length →
          run { s := s', jobs := [] } (starts.map (fun x => Ev.start x.1 x.2) ++ (.initDone :: rest)) = .ok yN' →
          ObsR False 0 r.1.rows [] yN.s (setMD yN'.s r.1.mainDraws) ∧ JobsEq yN.jobs yN'.jobs ∧
            ∃ rws, yN.s.rows = r.1.rows ++ rws ∧ yN'.s.rows = rws) := by
  obtain ⟨r, s', hT, _, hS, hres, hR, _⟩ := restart_equivalence_reachable_multi h0 pre k st w o rest occ hh hy hti hsteps hrun
  refine ⟨r, s', hT, hres, ?_⟩
  intro hend hlt hmW starts yN' hlen hrun'
  have hl : (recsOf r.2.2 r.1.lockedOrd).length = r.2.2.length := by
    have h3 := congrArg List.length hS.onRecord
    simp only [List.length_map] at h3
    exact h3.symm
  exact restart_equivalence_multi_final_phase k st w o rest r hT hR hS hend hlt (by rw [hl]; exact hmW) hsteps hrun
    starts (by rw [hl]; exact hlen) hrun'

/-- **20. any chain of restarts, several workers — no hypothesis on any state.**  `y0` a start state (`StartM`), `pre`
    the history up to a point where the initiation is closed, `evs` the `.step` events that follow (the whole history
    well formed), running uninterrupted to `yN`.  `ChainM y evs yN'` describes a run with any number of restarts by what
    the processes do and nothing else: run steps; stop right after the `treat_output` of a step at which a fresh job is
    due; `restore` the image (any engine table); as many initiation iterations as jobs were in flight, one more with the
    saved stream position, `.initDone`; go on.  Then `yN` and `yN'` agree on W, slot order, locks, records and ordinals,
    counters, stream position, spawn ordinal, fraction/weight tables; hold the same jobs (ensemble, path, stream
    identities) position by position; and appended the same rows since the last restart.
    The induction keeps the uninterrupted run on the left: `StopStateM`/`StopM` are proved for its states (17) and
    transfer along `RM` to the states of the restarted runs (`StopStateM.transfer`, `StopM.transfer`), where
    `restore_persist_obs_eq_multi` (13) then applies.
    (Audit 2026-09-30: `ChainM` admits only stops at which a fresh job is due; `restart_chain_from_disk` (24) admits every
    stop 0 < k < N and rebuilds with `restoreNow`.) -/
theorem restart_chain_equivalence_multi_unconditional {y0 y yN yN' : Sys} (h0 : StartM y0) (pre evs : List Ev)
    (hh : HistOk y0 (pre ++ evs)) (hy : run y0 pre = .ok y) (hti : y.s.toinitiate = -1) (hs : StepsOnly evs)
    (hrun : run y evs = .ok yN) (hc : ChainM y evs yN') :
    ∃ ra rb, ObsR False 0 ra rb yN.s yN'.s ∧ JobsEq yN.jobs yN'.jobs := by
  obtain ⟨ra, rb, h⟩ := restart_chain_multi_unconditional hc (run_reachM pre h0.reach (histOk_prefix pre _ hh) hy)
    (histOk_append pre _ hh hy) (RM.refl hti) hs hrun
  exact ⟨ra, rb, h.obs, h.jobs⟩

/-- **21. which engine runs is a function of the configuration**: the `eng_idx` a job carries for a picked ensemble
    lists the ensemble's own engines in the order of `ensemble_engines` (whatever the order in which the names were handed
    to `assign_engines` — the code builds them from a `set`), so the engine `select_shoot` takes first is the first one
    the configuration lists: no dependence on set/dict iteration order, hash seed or process. -/
theorem prep_engines_in_config_order {s s' : St} {prev : Option Nat} {o : PickOutcome} {sv : Nat} {job : Job}
    {ds : List Draw} (h : prep s prev o sv = .ok (s', job, ds)) :
    ∀ p ∈ job.picked, p.engIdx.map (·.1) = s'.ensEng.getD (p.ens + 1).toNat [] := by
  rw [prep_eq_tail] at h
  split at h
  · exact absurd h (by simp)
  · rename_i s1 ps ds1 _
    unfold prepTail at h
    split at h
    · exact absurd h (by simp)
    · simp only [] at h
      split at h
      · exact absurd h (by simp)
      · split at h
        · exact absurd h (by simp)
        · simp only [Except.ok.injEq, Prod.mk.injEq] at h
          obtain ⟨h1, h2, _⟩ := h
          subst h1; subst h2
          intro p hp
          simp only [List.mem_map] at hp
          obtain ⟨q, _, rfl⟩ := hp
          simp only [List.map_map]
          exact List.map_id'' (fun _ => rfl) _

/-- a state in which [1+] lists two engine types, in the order (1, 0): the job picked for it carries them in that order -/
def exTwoEng : St :=
  { exRestored with locked0 := [], locked0Ord := [], toinitiate := -1, occ := [[-1, -1], [-1, -1]],
                    ensEng := [[0], [0, 1], [1, 0]] }

example : (match prep exTwoEng (some 0) { t := 1, e := 2 } with
    | .ok (_, job, _) => decide (job.picked.map (fun p => p.engIdx.map (·.1)) = [[1, 0]])
    | .error _ => false) = true := by
  decide +kernel

/-! ### non-vacuity, two workers: 3 ensembles + ghost, 8 steps, split at the second step while a job is in flight -/

def mFresh : St :=
  match loadPaths (blank 4 2 8 0 3 5 [[-1, -1]] [[0], [0], [0]] false [])
      [(0, [1], [0, 0, 0, 0]), (1, [1, 0, 0], [0, 0, 0, 0]), (2, [1, 1, 0], [0, 0, 0, 0])] with
  | .ok s => s
  | .error _ => exRestored

def mY : Sys :=
  match run { s := mFresh, jobs := [] }
      [.start { t := 0, e := 0 }, .start { t := 2, e := 2 }, .initDone, .step 0 .rej [] { t := 0, e := 0 }] with
  | .ok y => y
  | .error _ => { s := exRestored, jobs := [] }

def mR : St × Job × List Job :=
  match stepTreat mY 1 .acc [[1]] with
  | .ok r => r
  | .error _ => (exRestored, { pin := 0, wfolder := 0, picked := [], pnumOld := [] }, [])

def mS' : St :=
  match restore (persist mR.1) 4 2 8 [[-1, -1]] [[0], [0], [0]] (fun pn => (mR.1.wts.lookup pn).getD []) with
  | .ok s => s
  | .error _ => exRestored

/-- the record at the stop: the job on [1+] (slot 2) with path 2, stream ordinal 1 -/
def mRecs : List ((List Nat × List Nat) × Nat) := [(([2], [2]), 1)]
def mStarts : List (PickOutcome × Nat) := [({ t := 0, e := 0 }, 0)]
def mO : PickOutcome := { t := 1, e := 1 }
def mRest : List Ev := [.step 0 .rej [] { t := 2, e := 2 }, .step 0 .acc [[1, 0, 0]] { t := 1, e := 1 }]

def mYN : Sys := match run mY (.step 1 .acc [[1]] mO :: mRest) with | .ok y => y | .error _ => mY
def mYN' : Sys :=
  match run { s := mS', jobs := [] }
      (mStarts.map (fun x => Ev.start x.1 x.2) ++ (.start mO (persist mR.1).rngDraws :: .initDone :: mRest)) with
  | .ok y => y
  | .error _ => mY

theorem mTreat : stepTreat mY 1 .acc [[1]] = .ok mR := eq_ok_of_okEq (by decide +kernel)
theorem mRunU : run mY (.step 1 .acc [[1]] mO :: mRest) = .ok mYN := eq_ok_of_okEq (by decide +kernel)
theorem mRunR : run { s := mS', jobs := [] }
    (mStarts.map (fun x => Ev.start x.1 x.2) ++ (.start mO (persist mR.1).rngDraws :: .initDone :: mRest)) = .ok mYN' :=
  eq_ok_of_okEq (by decide +kernel)

/-- the split is a real one: a job is in flight and on record with its ordinal; the restart re-issues it to worker 0
    while it ran on worker 1 before, and gives the fresh job to worker 1 (worker 0 in the uninterrupted run): at the end the
    two runs hold the same jobs on exchanged workers -/
example : mR.1.cstep = 2 ∧ mR.1.workers = 2 ∧ (persist mR.1).locked = [([2], [2])] ∧ (persist mR.1).lockedOrd = [1] ∧
    mR.2.2.map (·.pin) = [1] ∧ mS'.locked0 = [([2], [2])] := by
  decide +kernel

example : mS'.locks = [false, false, false, true] ∧ mR.1.locks = [false, false, true, true] ∧
    mYN.jobs.map (·.pin) = [1, 0] ∧ mYN'.jobs.map (·.pin) = [0, 1] ∧
    mYN.jobs.map jobKey = mYN'.jobs.map jobKey ∧ mYN.s.cstep = 4 := by
  decide +kernel

theorem mRestoreRelM : RestoreRelM [[-1, -1]] mRecs mR.1 mS' :=
  ⟨by decide +kernel, by decide +kernel, by decide +kernel, by decide +kernel, by decide +kernel, by decide +kernel,
   by decide +kernel, by decide +kernel, by decide +kernel, by decide +kernel, by decide +kernel, by decide +kernel,
   FEq_of_keys _ _ (by decide +kernel), FEq_of_keys _ _ (by decide +kernel), by decide +kernel, by decide +kernel,
   by decide +kernel, by decide +kernel, by decide +kernel, by decide +kernel, by decide +kernel, by decide +kernel,
   by decide +kernel⟩

theorem mStopM : StopM mRecs mR.1 mR.2.2 :=
  ⟨by decide +kernel, by decide +kernel, by decide +kernel, by decide +kernel, by decide +kernel, by decide +kernel,
   UniqLive.of_nodup (by decide +kernel), by decide +kernel⟩

/-- all hypotheses of `restart_equivalence_multi_worker` hold together on this system … -/
example : stepTreat mY 1 .acc [[1]] = .ok mR ∧ RestoreRelM [[-1, -1]] mRecs mR.1 mS' ∧ StopM mRecs mR.1 mR.2.2 ∧
    mR.1.cstep + mR.1.workers ≤ mR.1.tsteps ∧ StepsOnly mRest ∧ mStarts.length = mRecs.length ∧
    run mY (.step 1 .acc [[1]] mO :: mRest) = .ok mYN ∧
    run { s := mS', jobs := [] }
      (mStarts.map (fun x => Ev.start x.1 x.2) ++ (.start mO (persist mR.1).rngDraws :: .initDone :: mRest)) = .ok mYN' :=
  ⟨mTreat, mRestoreRelM, mStopM, by decide +kernel, by simp [mRest, StepsOnly], rfl, mRunU, mRunR⟩

/-- … and its conclusion, instantiated -/
example : ObsR False 0 mR.1.rows [] mYN.s mYN'.s ∧ JobsEq mYN.jobs mYN'.jobs ∧
    ∃ rws, mYN.s.rows = mR.1.rows ++ rws ∧ mYN'.s.rows = rws :=
  restart_equivalence_multi_worker 1 .acc [[1]] mO mRest mR mTreat mRestoreRelM mStopM (by decide +kernel)
    (by simp [mRest, StepsOnly]) mRunU mStarts rfl mRunR

/-- the stopped two-worker state is a stop state with its job on record (live paths 3, 1, 2 in slot order; slot 2
    locked for the recorded job) -/
theorem mStopStateM : StopStateM mR.1 [3, 1, 2] mRecs := by
  refine ⟨by decide +kernel, by decide +kernel, by decide +kernel, by decide +kernel, by decide +kernel, ?_,
          by decide +kernel, by decide +kernel, by decide +kernel, by decide +kernel, by decide +kernel,
          by decide +kernel, by decide +kernel, by decide +kernel, by decide +kernel, by decide +kernel⟩
  intro e pn hp
  match e, hp with
  | 0, hp =>
    simp only [List.getElem?_cons_zero, Option.some.injEq] at hp
    subst hp
    exact ⟨by decide +kernel, [1], by decide +kernel, by decide +kernel, by decide +kernel, by decide +kernel,
           [1, 0, 0, 0], by decide +kernel⟩
  | 1, hp =>
    simp only [List.getElem?_cons_succ, List.getElem?_cons_zero, Option.some.injEq] at hp
    subst hp
    exact ⟨by decide +kernel, [1, 0, 0], by decide +kernel, by decide +kernel, by decide +kernel, by decide +kernel,
           [0, 2, 0, 0], by decide +kernel⟩
  | 2, hp =>
    simp only [List.getElem?_cons_succ, List.getElem?_cons_zero, Option.some.injEq] at hp
    subst hp
    exact ⟨by decide +kernel, [1, 1, 0], by decide +kernel, by decide +kernel, by decide +kernel, by decide +kernel,
           [0, 0, 0, 0], by decide +kernel⟩
  | e + 3, hp => simp at hp

/-- 13 and 14 on the concrete system: the image loads, and the restarted run of the example ends equal up to pins -/
example : ∃ s', restore (persist mR.1) 4 2 8 [[-1, -1]] [[0], [0], [0]] (fun pn => (mR.1.wts.lookup pn).getD []) = .ok s' ∧
    RestoreRelM [[-1, -1]] mRecs mR.1 s' := by
  have := restore_persist_obs_eq_multi mStopStateM [[-1, -1]]
  have h1 : mR.1.n = 4 := by decide +kernel
  have h2 : mR.1.workers = 2 := by decide +kernel
  have h3 : mR.1.tsteps = 8 := by decide +kernel
  have h4 : mR.1.ensEng = [[0], [0], [0]] := by decide +kernel
  rw [h1, h2, h3, h4] at this
  exact this

example : ∃ s', restore (persist mR.1) mR.1.n mR.1.workers mR.1.tsteps [[-1, -1]] mR.1.ensEng
      (fun pn => (mR.1.wts.lookup pn).getD []) = .ok s' ∧
    ∀ (starts : List (PickOutcome × Nat)) (yN' : Sys), starts.length = mRecs.length →
      run { s := s', jobs := [] }
        (starts.map (fun x => Ev.start x.1 x.2) ++ (.start mO (persist mR.1).rngDraws :: .initDone :: mRest)) = .ok yN' →
      ObsR False 0 mR.1.rows [] mYN.s yN'.s ∧ JobsEq mYN.jobs yN'.jobs ∧
        ∃ rws, mYN.s.rows = mR.1.rows ++ rws ∧ yN'.s.rows = rws :=
  restart_equivalence_multi_from_image 1 .acc [[1]] mO mRest mR mTreat mStopStateM mStopM (by decide +kernel)
    (by simp [mRest, StepsOnly]) mRunU

/-- the example's stop is one of a reachable chain: fresh start `ChainReach.fresh`, then `ChainReach.run`; its record
    is `recsOf` of the job in flight, so 15 and 16 apply (hypotheses satisfiable) -/
theorem mFresh_loaded :
    loadPaths (blank 4 2 8 0 3 5 [[-1, -1]] [[0], [0], [0]] false [])
      [(0, [1], [0, 0, 0, 0]), (1, [1, 0, 0], [0, 0, 0, 0]), (2, [1, 1, 0], [0, 0, 0, 0])] = .ok mFresh :=
  eq_ok_of_okEq (by decide +kernel)

example : recsOf mR.2.2 mR.1.lockedOrd = mRecs ∧ mY.s.toinitiate = -1 ∧ mY.s.locked0Ord = [] ∧
    mR.2.2.length = mStarts.length := by decide +kernel

example : PnumOk mY.jobs := by
  have h0 : PnumOk ({ s := mFresh, jobs := [] } : Sys).jobs := fun j hj => absurd hj (by simp)
  have hr : run { s := mFresh, jobs := [] }
      [.start { t := 0, e := 0 }, .start { t := 2, e := 2 }, .initDone, .step 0 .rej [] { t := 0, e := 0 }] = .ok mY :=
    eq_ok_of_okEq (by decide +kernel)
  exact pnumOk_preserved _ h0 hr

theorem mInit : Init ({ s := mFresh, jobs := [] } : Sys) := by
  have htr : mFresh.trajs = [some 0, some 1, some 2, none] := by decide +kernel
  have hn : mFresh.n = 4 := by decide +kernel
  have htn : mFresh.trajNum = 3 := by decide +kernel
  refine ⟨rfl, by decide +kernel, by decide +kernel, by decide +kernel, by decide +kernel, ?_, ?_, by decide +kernel,
          by decide +kernel⟩
  · intro e he
    show ∃ pn, mFresh.trajs[e]? = some (some pn) ∧ pn < mFresh.trajNum
    have he' : e < mFresh.n - 1 := he
    rw [hn] at he'
    rw [htr, htn]
    match e, he' with
    | 0, _ => exact ⟨0, rfl, by omega⟩
    | 1, _ => exact ⟨1, rfl, by omega⟩
    | 2, _ => exact ⟨2, rfl, by omega⟩
    | e + 3, h3 => omega
  · intro a b pn ha _ h1 h2
    have ha' : a < mFresh.n - 1 := ha
    rw [hn] at ha'
    have h1' : mFresh.trajs[a]? = some (some pn) := h1
    have h2' : mFresh.trajs[b]? = some (some pn) := h2
    have hnd : mFresh.trajs.Nodup := by rw [htr]; decide
    have hlt : a < mFresh.trajs.length := by rw [htr]; simp only [List.length_cons, List.length_nil]; omega
    exact (List.getElem?_inj hlt hnd).mp (h1'.trans h2'.symm)

theorem mRunPre : run { s := mFresh, jobs := [] }
    [.start { t := 0, e := 0 }, .start { t := 2, e := 2 }, .initDone, .step 0 .rej [] { t := 0, e := 0 }] = .ok mY :=
  eq_ok_of_okEq (by decide +kernel)

/-- the example's stop is a stop of a reachable chain (fresh start, then the scheduler's events) -/
theorem mChain : ∃ log, ChainReach 5 mY log :=
  ⟨_, ChainReach.run (ChainReach.fresh mInit (by decide +kernel) (by decide +kernel) (by decide +kernel)
    (by decide +kernel) (by decide +kernel) (by decide +kernel) (by decide +kernel)) mRunPre⟩

/-- 15 on it: `StopM` for the record `recsOf` … which is the record of the example -/
example : StopM (recsOf mR.2.2 mR.1.lockedOrd) mR.1 mR.2.2 := by
  obtain ⟨log, hc⟩ := mChain
  exact stopM_of_reachable_multi hc (by decide +kernel) (by decide +kernel)
    (pnumOk_preserved _ (fun j hj => absurd hj (by simp)) mRunPre) mTreat

/-- the two-worker example as a member of the family of 17/18: `StartM`, well-formed history -/
theorem mStartM : StartM ({ s := mFresh, jobs := [] } : Sys) := by
  have h5 : Init5 ({ s := mFresh, jobs := [] } : Sys) := by
    apply init5_of_loadPaths 4 2 8 0 3 5 [[-1, -1]] [[0], [0], [0]] false _ mFresh (by decide) (by decide) (by decide)
      (by decide) ?_ mFresh_loaded
    intro i hi
    match i, hi with
    | 0, _ =>
      show VecOk 4 (-1) [1]
      exact Frac.vecOk_of_B (by decide +kernel)
    | 1, _ =>
      show VecOk 4 0 [1, 0, 0]
      exact Frac.vecOk_of_B (by decide +kernel)
    | 2, _ =>
      show VecOk 4 1 [1, 1, 0]
      exact Frac.vecOk_of_B (by decide +kernel)
  have hk : mFresh.wts.map Prod.fst = [1, 2, 0] := by decide +kernel
  have htr : mFresh.trajs = [some 0, some 1, some 2, none] := by decide +kernel
  refine ⟨Or.inl h5, ⟨by decide +kernel, by decide +kernel, by decide +kernel, ?_⟩, by decide +kernel,
    by decide +kernel, ⟨by decide +kernel, by decide +kernel, by decide +kernel⟩, by decide +kernel⟩
  intro q
  show q ∈ mFresh.wts.map Prod.fst ↔ some q ∈ mFresh.trajs
  rw [hk, htr]
  simp only [List.mem_cons, List.not_mem_nil, or_false, Option.some.injEq, reduceCtorEq]
  omega

def mPre : List Ev :=
  [.start { t := 0, e := 0 }, .start { t := 2, e := 2 }, .initDone, .step 0 .rej [] { t := 0, e := 0 }]

theorem mHistOk : HistOk ({ s := mFresh, jobs := [] } : Sys) (mPre ++ (.step 1 .acc [[1]] mO :: mRest)) :=
  Frac.histOk_of_B _ _ (by decide +kernel)

/-- all hypotheses of `restart_equivalence_reachable_multi` hold on the two-worker history, a fresh job is due at the
    split, and the restarted run of the example is one of the runs its conclusion speaks about -/
example : StartM ({ s := mFresh, jobs := [] } : Sys) ∧
    HistOk ({ s := mFresh, jobs := [] } : Sys) (mPre ++ (.step 1 .acc [[1]] mO :: mRest)) ∧
    run { s := mFresh, jobs := [] } mPre = .ok mY ∧ mY.s.toinitiate = -1 ∧ StepsOnly mRest ∧
    run mY (.step 1 .acc [[1]] mO :: mRest) = .ok mYN ∧ mR.1.cstep + mR.1.workers ≤ mR.1.tsteps ∧
    mStarts.length = mR.2.2.length :=
  ⟨mStartM, mHistOk, mRunPre, by decide +kernel, by simp [mRest, StepsOnly], mRunU, by decide +kernel, by decide +kernel⟩

/-- the two systems right after the restart's initiation / after the split step: related by `RM`, differing in pins —
    the hypotheses of `run_respects_obs_eq_multi_total` (and of 9) hold for them with the remaining steps -/
def mYU : Sys := match run mY [.step 1 .acc [[1]] mO] with | .ok y => y | .error _ => mY
def mYR : Sys :=
  match run { s := mS', jobs := [] }
      (mStarts.map (fun x => Ev.start x.1 x.2) ++ [.start mO (persist mR.1).rngDraws, .initDone]) with
  | .ok y => y
  | .error _ => mY

theorem mRunU0 : run mY [.step 1 .acc [[1]] mO] = .ok mYU := eq_ok_of_okEq (by decide +kernel)
theorem mRunR0 : run { s := mS', jobs := [] }
    (mStarts.map (fun x => Ev.start x.1 x.2) ++ [.start mO (persist mR.1).rngDraws, .initDone]) = .ok mYR :=
  eq_ok_of_okEq (by decide +kernel)

example : RM mR.1.rows [] mYU mYR ∧ StepsOnly mRest ∧ run mYU mRest = .ok mYN ∧
    mYU.jobs.map (·.pin) ≠ mYR.jobs.map (·.pin) :=
  ⟨restart_run_multi 1 .acc [[1]] mO [] mR mTreat mRestoreRelM mStopM (by decide +kernel) trivial mRunU0 mStarts rfl
      mRunR0,
   by simp [mRest, StepsOnly], eq_ok_of_okEq (by decide +kernel), by decide +kernel⟩

/-! final phase: the same two-worker system with 3 steps in all, split at the second step (one step and one job left) -/

def eFresh : St :=
  match loadPaths (blank 4 2 3 0 3 5 [[-1, -1]] [[0], [0], [0]] false [])
      [(0, [1], [0, 0, 0, 0]), (1, [1, 0, 0], [0, 0, 0, 0]), (2, [1, 1, 0], [0, 0, 0, 0])] with
  | .ok s => s
  | .error _ => exRestored

def eY : Sys := match run { s := eFresh, jobs := [] } mPre with | .ok y => y | .error _ => { s := exRestored, jobs := [] }

def eR : St × Job × List Job :=
  match stepTreat eY 1 .acc [[1]] with
  | .ok r => r
  | .error _ => (exRestored, { pin := 0, wfolder := 0, picked := [], pnumOld := [] }, [])

def eS' : St :=
  match restore (persist eR.1) 4 2 3 [[-1, -1]] [[0], [0], [0]] (fun pn => (eR.1.wts.lookup pn).getD []) with
  | .ok s => s
  | .error _ => exRestored

def eRest : List Ev := [.step 0 .rej [] { t := 0, e := 0 }]
def eYN : Sys := match run eY (.step 1 .acc [[1]] mO :: eRest) with | .ok y => y | .error _ => eY
def eYN' : Sys :=
  match run { s := eS', jobs := [] } (mStarts.map (fun x => Ev.start x.1 x.2) ++ (.initDone :: eRest)) with
  | .ok y => y
  | .error _ => eY

theorem eTreat : stepTreat eY 1 .acc [[1]] = .ok eR := eq_ok_of_okEq (by decide +kernel)
theorem eRunU : run eY (.step 1 .acc [[1]] mO :: eRest) = .ok eYN := eq_ok_of_okEq (by decide +kernel)
theorem eRunR : run { s := eS', jobs := [] } (mStarts.map (fun x => Ev.start x.1 x.2) ++ (.initDone :: eRest)) = .ok eYN' :=
  eq_ok_of_okEq (by decide +kernel)

theorem eRestoreRelM : RestoreRelM [[-1, -1]] mRecs eR.1 eS' :=
  ⟨by decide +kernel, by decide +kernel, by decide +kernel, by decide +kernel, by decide +kernel, by decide +kernel,
   by decide +kernel, by decide +kernel, by decide +kernel, by decide +kernel, by decide +kernel, by decide +kernel,
   FEq_of_keys _ _ (by decide +kernel), FEq_of_keys _ _ (by decide +kernel), by decide +kernel, by decide +kernel,
   by decide +kernel, by decide +kernel, by decide +kernel, by decide +kernel, by decide +kernel, by decide +kernel,
   by decide +kernel⟩

theorem eStopM : StopM mRecs eR.1 eR.2.2 :=
  ⟨by decide +kernel, by decide +kernel, by decide +kernel, by decide +kernel, by decide +kernel, by decide +kernel,
   UniqLive.of_nodup (by decide +kernel), by decide +kernel⟩

/-- the hypotheses of 19 hold together: two of three steps done, one job in flight and on record, no fresh job due; the
    uninterrupted run has drawn from the scheduler stream, the restarted one not (the field 19 abstracts from) … -/
example : eR.1.cstep = 2 ∧ eR.1.tsteps = 3 ∧ eR.1.workers = 2 ∧ ¬ (eR.1.cstep + eR.1.workers ≤ eR.1.tsteps) ∧
    eR.1.cstep < eR.1.tsteps ∧ mRecs.length ≤ eR.1.workers ∧ StepsOnly eRest ∧ mStarts.length = mRecs.length ∧
    eYN.s.mainDraws ≠ eYN'.s.mainDraws ∧ eYN'.s.mainDraws = 0 ∧ eYN.s.cstep = 3 ∧ eYN'.s.cstep = 3 := by
  refine ⟨by decide +kernel, by decide +kernel, by decide +kernel, by decide +kernel, by decide +kernel,
    by decide +kernel, by simp [eRest, StepsOnly], rfl, by decide +kernel, by decide +kernel, by decide +kernel,
    by decide +kernel⟩

/-- … and its conclusion, instantiated -/
example : ObsR False 0 eR.1.rows [] eYN.s (setMD eYN'.s eR.1.mainDraws) ∧ JobsEq eYN.jobs eYN'.jobs ∧
    ∃ rws, eYN.s.rows = eR.1.rows ++ rws ∧ eYN'.s.rows = rws :=
  restart_equivalence_multi_final_phase 1 .acc [[1]] mO eRest eR eTreat eRestoreRelM eStopM (by decide +kernel)
    (by decide +kernel) (by decide +kernel) (by simp [eRest, StepsOnly]) eRunU mStarts rfl eRunR

/-- a chain with one restart exists for the two-worker history (20 is not vacuous), built from the files alone -/
theorem mRestoreEq : restore (persist mR.1) mR.1.n mR.1.workers mR.1.tsteps [[-1, -1]] mR.1.ensEng
    (fun pn => (mR.1.wts.lookup pn).getD []) = .ok mS' := eq_ok_of_okEq (by decide +kernel)

theorem mRunRest : run mYR mRest = .ok mYN' := eq_ok_of_okEq (by decide +kernel)

example : ChainM mY (([] : List Ev) ++ (.step 1 .acc [[1]] mO :: mRest)) mYN' :=
  ChainM.restart (steps1 := []) rfl mTreat (by decide +kernel) mRestoreEq (by decide +kernel) mRunR0
    (ChainM.done mRunRest)

example : ∃ ra rb, ObsR False 0 ra rb mYN.s mYN'.s ∧ JobsEq mYN.jobs mYN'.jobs :=
  restart_chain_equivalence_multi_unconditional mStartM mPre (.step 1 .acc [[1]] mO :: mRest) mHistOk mRunPre
    (by decide +kernel) (by simp [mRest, StepsOnly]) mRunU
    (ChainM.restart (steps1 := []) rfl mTreat (by decide +kernel) mRestoreEq (by decide +kernel) mRunR0
      (ChainM.done mRunRest))

/-- the two final states are related by `RM`, so `step_respects_obs_eq_multi` / `run_respects_obs_eq_multi` apply to
    them (hypotheses satisfiable on states that differ in pins and engine table) -/
example : RM mR.1.rows [] mYN mYN' :=
  restart_run_multi 1 .acc [[1]] mO mRest mR mTreat mRestoreRelM mStopM (by decide +kernel)
    (by simp [mRest, StepsOnly]) mRunU mStarts rfl mRunR

/-- the hypotheses of `reissue_in_place` hold for the rebuilt state, and a run with one restart exists
    (`restart_chain_equivalence_multi` is not vacuous) -/
example : mStarts.length = mRecs.length ∧ mS'.locked0 = mRecs.map (·.1) ++ [] ∧
    mS'.locked0Ord = mRecs.map (fun r => some r.2) ++ [] ∧
    (∀ x ∈ mRecs.flatMap (fun r => recPairs r.1), mS'.trajs[x.1]? = some (some x.2) ∧ x.1 + 1 < mS'.trajs.length) ∧
    UniqLive mS'.trajs :=
  ⟨rfl, by decide +kernel, by decide +kernel, by decide +kernel, UniqLive.of_nodup (by decide +kernel)⟩

example : ∃ yN', RestartsM mY (([] : List Ev) ++ (.step 1 .acc [[1]] mO :: mRest)) yN' :=
  ⟨mYN', RestartsM.restart (by simp [mRest, StepsOnly]) rfl mTreat mRestoreRelM mStopM (by decide +kernel) rfl mRunR
    (RestartsM.direct mRunR)⟩


/-- observational equality is not equality: the two sides of a restart differ in `cworker`, `restarted`, `rows` … -/
example : ObsEq exRestored { exRestored with cworker := 1, restarted := false, rgenRestored := true } :=
  { ObsR.refl exRestored with }

/-! ## restarts from the file on disk with the stream position put back at once (audit 2026-09-30)

`restoreNow` (Model/RepexRestartNow) = `restore` + what `set_rgen()` does to the bit-generator state inside
`REPEX_state.__init__`.  Why it matters: `restart_equivalence_multi_final_phase` (19) could only be stated up to the
stream position, and `restart_chain_equivalence_multi_unconditional` (20) only admits stops at which a fresh job is
due, because the shared model's `restore` keeps the position at 0 until the first fresh pick.  With `restoreNow` both
restrictions go. -/

/-- the reason, on the final-phase example: the run restarted through `restore` ends with stream position 0, so the
    restart file it would write (`persist`) differs from the one of the uninterrupted run in `rng_state` — which the real
    code does NOT do (its `set_rgen` restores the state at once; the tie compares the bytes of restart.toml) -/
theorem restore_final_phase_image_counterexample :
    (persist eYN'.s).rngDraws ≠ (persist eYN.s).rngDraws ∧ (persist eYN'.s).rngDraws = 0 := by
  decide +kernel

/-- **22. `restoreNow (persist s)` at a stop with jobs in flight** (any W): as 13, and the rebuilt state carries the
    stream position of the stopped one. -/
theorem restoreNow_persist_obs_eq_multi {s : St} {pns : List Nat} {recs : List ((List Nat × List Nat) × Nat)}
    (h : StopStateM s pns recs) (occ : List (List Int)) :
    ∃ s', restoreNow (persist s) s.n s.workers s.tsteps occ s.ensEng (fun pn => (s.wts.lookup pn).getD []) = .ok s' ∧
      RestoreRelM occ recs s s' ∧ s'.mainDraws = s.mainDraws :=
  restoreNow_persist_multi h occ

/-- observationally equal samplers write the same restart file: every field of the image agrees, the fractions as
    finite maps (`write_toml` sorts them by path number) -/
theorem image_eq_of_obs {p : Prop} {t0 : Int} {ra rb : List Repex.Row} {a b : St} (h : ObsR p t0 ra rb a b) :
    (persist a).active = (persist b).active ∧ (persist a).locked = (persist b).locked ∧
      (persist a).lockedOrd = (persist b).lockedOrd ∧ (persist a).cstep = (persist b).cstep ∧
      (persist a).trajNum = (persist b).trajNum ∧ (persist a).rngDraws = (persist b).rngDraws ∧
      (persist a).seed = (persist b).seed ∧ (persist a).spawnedRec = (persist b).spawnedRec ∧
      FEq (persist a).frac (persist b).frac := by
  refine ⟨?_, ?_, h.lockedOrd, h.cstep, h.trajNum, h.mainDraws, h.seed, ?_, h.frac⟩
  · show livePaths a = livePaths b
    unfold livePaths; rw [h.trajs]
  · show a.locked.map _ = b.locked.map _
    rw [h.locked]
  · show spawnedKey a = spawnedKey b
    unfold spawnedKey; rw [h.spawned, h.cstep, h.locked]

/-- **23. restart equivalence, several workers, a stop in the final phase — exact.**  As 19, for a rebuilt state that
    carries the saved stream position (`hmd`; `restoreNow` provides it: 22): the restarted run — the record re-issued,
    `.initDone`, the same remaining completions — ends equal to the uninterrupted one up to who runs what, the stream
    position INCLUDED; hence (`image_eq_of_obs`) every restart file it writes from then on is the file the uninterrupted
    run writes. -/
theorem restart_equivalence_multi_final_phase_exact {occ : List (List Int)}
    {recs : List ((List Nat × List Nat) × Nat)} {y : Sys} {s' : St} (k : Nat) (st : Status) (w : List (List Rat))
    (o : PickOutcome) (rest : List Ev) (r : St × Job × List Job) (hT : stepTreat y k st w = .ok r)
    (hR : RestoreRelM occ recs r.1 s') (hS : StopM recs r.1 r.2.2) (hmd : s'.mainDraws = r.1.mainDraws)
    (hend : ¬ (r.1.cstep + r.1.workers ≤ r.1.tsteps)) (hlt : r.1.cstep < r.1.tsteps)
    (hmW : recs.length ≤ r.1.workers) (hsteps : StepsOnly rest)
    {yN : Sys} (hrun : run y (.step k st w o :: rest) = .ok yN)
    (starts : List (PickOutcome × Nat)) (hlen : starts.length = recs.length) {yN' : Sys}
    (hrun' : run { s := s', jobs := [] } (starts.map (fun x => Ev.start x.1 x.2) ++ (.initDone :: rest)) = .ok yN') :
    ObsR False 0 r.1.rows [] yN.s yN'.s ∧ JobsEq yN.jobs yN'.jobs ∧
      (persist yN.s).rngDraws = (persist yN'.s).rngDraws ∧
      ∃ rws, yN.s.rows = r.1.rows ++ rws ∧ yN'.s.rows = rws := by
  have h := restart_run_multi_end_exact k st w o rest r hT hR hS hmd hend hlt hmW hsteps hrun starts hlen hrun'
  obtain ⟨rws, hra, hrb⟩ := h.obs.rows
  exact ⟨h.obs, h.jobs, h.obs.mainDraws, rws, hra, by simpa using hrb⟩

/-- **24. any chain of restarts from the files on disk, several workers, EVERY kind of stop — no hypothesis on any
    state.**  As 20, with `ChainN` in place of `ChainM`: the processes rebuild with `restoreNow`, and a process may also
    die in the final phase of the run (fewer steps left than workers, at least one left; then the new process re-issues
    the record and closes the initiation without a fresh pick).  `ChainN` stops "right after the `treat_output` of a
    step": that is the file a kill leaves at ANY instant up to the next `treat_output` — the job issued in between is
    not in the file and is lost with the process (C07 `RepexDisk.diskAfter`).  The ends agree on W, slot order, locks,
    records and ordinals, counters, stream position, spawn ordinal, tables, and hold the same jobs. -/
theorem restart_chain_from_disk {y0 y yN yN' : Sys} (h0 : StartM y0) (pre evs : List Ev)
    (hh : HistOk y0 (pre ++ evs)) (hy : run y0 pre = .ok y) (hti : y.s.toinitiate = -1) (hs : StepsOnly evs)
    (hrun : run y evs = .ok yN) (hc : ChainN y evs yN') :
    ∃ ra rb, ObsR False 0 ra rb yN.s yN'.s ∧ JobsEq yN.jobs yN'.jobs := by
  obtain ⟨ra, rb, h⟩ := restart_chain_now hc (run_reachM pre h0.reach (histOk_prefix pre _ hh) hy)
    (histOk_append pre _ hh hy) (RM.refl hti) hs hrun
  exact ⟨ra, rb, h.obs, h.jobs⟩

/-! non-vacuity: the final-phase example (two workers, 3 steps, stop after the second) rebuilt with `restoreNow` -/

def eS'' : St :=
  match restoreNow (persist eR.1) 4 2 3 [[-1, -1]] [[0], [0], [0]] (fun pn => (eR.1.wts.lookup pn).getD []) with
  | .ok s => s
  | .error _ => exRestored

def eYN'' : Sys :=
  match run { s := eS'', jobs := [] } (mStarts.map (fun x => Ev.start x.1 x.2) ++ (.initDone :: eRest)) with
  | .ok y => y
  | .error _ => eY

theorem eRunR'' : run { s := eS'', jobs := [] } (mStarts.map (fun x => Ev.start x.1 x.2) ++ (.initDone :: eRest)) = .ok eYN'' :=
  eq_ok_of_okEq (by decide +kernel)

theorem eRestoreNowEq : restoreNow (persist eR.1) eR.1.n eR.1.workers eR.1.tsteps [[-1, -1]] eR.1.ensEng
    (fun pn => (eR.1.wts.lookup pn).getD []) = .ok eS'' := eq_ok_of_okEq (by decide +kernel)

theorem eRestoreRelM'' : RestoreRelM [[-1, -1]] mRecs eR.1 eS'' := by
  obtain ⟨s0, h0, hs⟩ := restoreNow_ok eRestoreNowEq
  have h1 : restore (persist eR.1) 4 2 3 [[-1, -1]] [[0], [0], [0]] (fun pn => (eR.1.wts.lookup pn).getD []) = .ok eS' :=
    eq_ok_of_okEq (by decide +kernel)
  have e1 : eR.1.n = 4 := by decide +kernel
  have e2 : eR.1.workers = 2 := by decide +kernel
  have e3 : eR.1.tsteps = 3 := by decide +kernel
  have e4 : eR.1.ensEng = [[0], [0], [0]] := by decide +kernel
  rw [e1, e2, e3, e4, h1] at h0
  simp only [Except.ok.injEq] at h0
  subst h0
  rw [hs]
  exact eRestoreRelM.setMD _

/-- the hypotheses of 23 hold together; the restarted run carries the saved position (3 draws) to its end -/
example : eS''.mainDraws = eR.1.mainDraws ∧ eR.1.mainDraws ≠ 0 ∧ ¬ (eR.1.cstep + eR.1.workers ≤ eR.1.tsteps) ∧
    eR.1.cstep < eR.1.tsteps ∧ mRecs.length ≤ eR.1.workers ∧ eYN''.s.mainDraws = eYN.s.mainDraws := by
  decide +kernel

/-- … and its conclusion, instantiated: exact, the image included -/
example : ObsR False 0 eR.1.rows [] eYN.s eYN''.s ∧ JobsEq eYN.jobs eYN''.jobs ∧
    (persist eYN.s).rngDraws = (persist eYN''.s).rngDraws ∧
    ∃ rws, eYN.s.rows = eR.1.rows ++ rws ∧ eYN''.s.rows = rws :=
  restart_equivalence_multi_final_phase_exact 1 .acc [[1]] mO eRest eR eTreat eRestoreRelM'' eStopM (by decide +kernel)
    (by decide +kernel) (by decide +kernel) (by decide +kernel) (by simp [eRest, StepsOnly]) eRunU mStarts rfl eRunR''

/-- 22 on the two-worker example of 13 -/
example : ∃ s', restoreNow (persist mR.1) mR.1.n mR.1.workers mR.1.tsteps [[-1, -1]] mR.1.ensEng
      (fun pn => (mR.1.wts.lookup pn).getD []) = .ok s' ∧ RestoreRelM [[-1, -1]] mRecs mR.1 s' ∧
    s'.mainDraws = mR.1.mainDraws :=
  restoreNow_persist_obs_eq_multi mStopStateM [[-1, -1]]

/-! 24 is not vacuous: a chain with a final-phase stop on the 3-step system, one with a fresh-job stop on the 8-step one -/

theorem eFresh_loaded :
    loadPaths (blank 4 2 3 0 3 5 [[-1, -1]] [[0], [0], [0]] false [])
      [(0, [1], [0, 0, 0, 0]), (1, [1, 0, 0], [0, 0, 0, 0]), (2, [1, 1, 0], [0, 0, 0, 0])] = .ok eFresh :=
  eq_ok_of_okEq (by decide +kernel)

theorem eStartM : StartM ({ s := eFresh, jobs := [] } : Sys) := by
  have h5 : Init5 ({ s := eFresh, jobs := [] } : Sys) := by
    apply init5_of_loadPaths 4 2 3 0 3 5 [[-1, -1]] [[0], [0], [0]] false _ eFresh (by decide) (by decide) (by decide)
      (by decide) ?_ eFresh_loaded
    intro i hi
    match i, hi with
    | 0, _ =>
      show VecOk 4 (-1) [1]
      exact Frac.vecOk_of_B (by decide +kernel)
    | 1, _ =>
      show VecOk 4 0 [1, 0, 0]
      exact Frac.vecOk_of_B (by decide +kernel)
    | 2, _ =>
      show VecOk 4 1 [1, 1, 0]
      exact Frac.vecOk_of_B (by decide +kernel)
  have hk : eFresh.wts.map Prod.fst = [1, 2, 0] := by decide +kernel
  have htr : eFresh.trajs = [some 0, some 1, some 2, none] := by decide +kernel
  refine ⟨Or.inl h5, ⟨by decide +kernel, by decide +kernel, by decide +kernel, ?_⟩, by decide +kernel,
    by decide +kernel, ⟨by decide +kernel, by decide +kernel, by decide +kernel⟩, by decide +kernel⟩
  intro q
  show q ∈ eFresh.wts.map Prod.fst ↔ some q ∈ eFresh.trajs
  rw [hk, htr]
  simp only [List.mem_cons, List.not_mem_nil, or_false, Option.some.injEq, reduceCtorEq]
  omega

theorem eRunPre : run { s := eFresh, jobs := [] } mPre = .ok eY := eq_ok_of_okEq (by decide +kernel)

theorem eHistOk : HistOk ({ s := eFresh, jobs := [] } : Sys) (mPre ++ (.step 1 .acc [[1]] mO :: eRest)) :=
  Frac.histOk_of_B _ _ (by decide +kernel)

def eYR'' : Sys :=
  match run { s := eS'', jobs := [] } (mStarts.map (fun x => Ev.start x.1 x.2) ++ [.initDone]) with
  | .ok y => y
  | .error _ => eY

theorem eRunR0'' : run { s := eS'', jobs := [] } (mStarts.map (fun x => Ev.start x.1 x.2) ++ [.initDone]) = .ok eYR'' :=
  eq_ok_of_okEq (by decide +kernel)

theorem eRunRest'' : run eYR'' eRest = .ok eYN'' := eq_ok_of_okEq (by decide +kernel)

/-- the chain: two of three steps, the process dies (one job in flight and on record, no fresh job due), the new one
    re-issues it and finishes -/
theorem eChainN : ChainN eY (([] : List Ev) ++ (.step 1 .acc [[1]] mO :: eRest)) eYN'' :=
  ChainN.restartEnd (steps1 := []) rfl eTreat (by decide +kernel) (by decide +kernel) (by decide +kernel) eRestoreNowEq
    (by decide +kernel) eRunR0'' (ChainN.done eRunRest'')

example : ∃ ra rb, ObsR False 0 ra rb eYN.s eYN''.s ∧ JobsEq eYN.jobs eYN''.jobs :=
  restart_chain_from_disk eStartM mPre (.step 1 .acc [[1]] mO :: eRest) eHistOk eRunPre (by decide +kernel)
    (by simp [eRest, StepsOnly]) eRunU eChainN

def mS'' : St :=
  match restoreNow (persist mR.1) 4 2 8 [[-1, -1]] [[0], [0], [0]] (fun pn => (mR.1.wts.lookup pn).getD []) with
  | .ok s => s
  | .error _ => exRestored

theorem mRestoreNowEq : restoreNow (persist mR.1) mR.1.n mR.1.workers mR.1.tsteps [[-1, -1]] mR.1.ensEng
    (fun pn => (mR.1.wts.lookup pn).getD []) = .ok mS'' := eq_ok_of_okEq (by decide +kernel)

def mYR'' : Sys :=
  match run { s := mS'', jobs := [] }
      (mStarts.map (fun x => Ev.start x.1 x.2) ++ [.start mO (persist mR.1).rngDraws, .initDone]) with
  | .ok y => y
  | .error _ => mY

theorem mRunR0'' : run { s := mS'', jobs := [] }
    (mStarts.map (fun x => Ev.start x.1 x.2) ++ [.start mO (persist mR.1).rngDraws, .initDone]) = .ok mYR'' :=
  eq_ok_of_okEq (by decide +kernel)

def mYN'' : Sys := match run mYR'' mRest with | .ok y => y | .error _ => mY

theorem mRunRest'' : run mYR'' mRest = .ok mYN'' := eq_ok_of_okEq (by decide +kernel)

/-- a stop at which a fresh job is due, rebuilt with `restoreNow`: the rebuilt state already has the saved position
    (the shared model's `restore` has 0 there), the ends are the same -/
example : ChainN mY (([] : List Ev) ++ (.step 1 .acc [[1]] mO :: mRest)) mYN'' ∧ mS''.mainDraws = mR.1.mainDraws ∧
    mS'.mainDraws = 0 ∧ mR.1.mainDraws ≠ 0 ∧ mYN''.s.mainDraws = mYN.s.mainDraws :=
  ⟨ChainN.restart (steps1 := []) rfl mTreat (by decide +kernel) mRestoreNowEq (by decide +kernel) mRunR0''
    (ChainN.done mRunRest''), by decide +kernel, by decide +kernel, by decide +kernel, by decide +kernel⟩


/-! ## the graceful stop (audit 2026-09-30) -/

/-- **25. stopping after K steps the repo's own way leaves the file a kill after step K leaves** (one worker).  `y0` a
    one-worker state about to start (`toinitiate = 1`, nothing on record), the long run (`steps = N = y0.s.tsteps`) does
    `.start`, `.initDone`, the steps `steps1` and one more `treat_output`, leaving `r` with `K = r.1.cstep < N`.  Then the
    SHORT run — same state with `steps = K` (`nt K y0`), same outcomes — goes through the same states up to `steps`; its
    K-th `treat_output` leaves `r.1` with `steps = K`; no further job is issued (`cstep + workers ≤ steps` fails); `loop()`
    answers False (and rewrites the file from that state); and the image is `persist r.1` — the split point of
    `restart_equivalence_reachable` (6) and `restart_chain_equivalence` (7), which therefore hold for restarts of
    gracefully stopped runs continued with `steps` raised to N as they do for killed ones. -/
theorem graceful_stop_same_restart_file {y0 y : Sys} (hw : y0.s.workers = 1) (hti : y0.s.toinitiate = 1)
    (hl0 : y0.s.locked0 = []) (o0 : PickOutcome) (sv0 : Nat) (steps1 : List Ev) (hs : StepsOnly steps1)
    (k : Nat) (st : Status) (w : List (List Rat)) {r : St × Job × List Job}
    (h1 : run y0 (.start o0 sv0 :: .initDone :: steps1) = .ok y) (hT : stepTreat y k st w = .ok r)
    (hK : r.1.cstep < r.1.tsteps) :
    run (nt r.1.cstep y0) (.start o0 sv0 :: .initDone :: steps1) = .ok (nt r.1.cstep y) ∧
      stepTreat (nt r.1.cstep y) k st w = .ok (setTS r.1 r.1.cstep, r.2) ∧
      persist (setTS r.1 r.1.cstep) = persist r.1 ∧
      ¬ ((setTS r.1 r.1.cstep).cstep + (setTS r.1 r.1.cstep).workers ≤ (setTS r.1 r.1.cstep).tsteps) ∧
      (loop (setTS r.1 r.1.cstep)).2 = false :=
  graceful_stop_from_start hw hti hl0 o0 sv0 steps1 hs k st w h1 hT hK

/-- with several workers the short run is NOT a prefix of the long one: two workers, `steps = 3` against `steps = 8`
    — after the second completion the long run hands the freed worker a new job, the short one does not -/
theorem graceful_stop_multi_counterexample :
    (match run { s := mFresh, jobs := [] } (mPre ++ [.step 1 .acc [[1]] mO]),
           run (nt 3 { s := mFresh, jobs := [] }) (mPre ++ [.step 1 .acc [[1]] mO]) with
     | .ok a, .ok b => decide (a.jobs.length = 2 ∧ b.jobs.length = 1 ∧ a.s.locked ≠ b.s.locked)
     | _, _ => false) = true := by
  decide +kernel

/-- the hypotheses of 25 hold on the one-worker example (split after the third of six steps) … -/
theorem exRunPre : run exY0 exPre = .ok exY := eq_ok_of_okEq (by decide +kernel)
theorem exTreat : stepTreat exY 0 .acc exW = .ok exR := eq_ok_of_okEq (by decide +kernel)

example : exY0.s.workers = 1 ∧ exY0.s.toinitiate = 1 ∧ exY0.s.locked0 = [] ∧ exR.1.cstep = 3 ∧ exR.1.tsteps = 6 := by
  decide +kernel

/-- … and its conclusion, instantiated: the run with `steps = 3` ends with the restart file of the six-step run's third
    step, and stops -/
example : run (nt 3 exY0) exPre = .ok (nt 3 exY) ∧ stepTreat (nt 3 exY) 0 .acc exW = .ok (setTS exR.1 3, exR.2) ∧
    persist (setTS exR.1 3) = persist exR.1 ∧ (loop (setTS exR.1 3)).2 = false := by
  have h := graceful_stop_same_restart_file (y0 := exY0) (by decide +kernel) (by decide +kernel) (by decide +kernel)
    { t := 1, e := 1 } 0 [.step 0 .acc exW { t := 0, e := 0 }, .step 0 .rej [] { t := 1, e := 1 }]
    (by simp [StepsOnly]) 0 .acc exW exRunPre exTreat (by decide +kernel)
  have hc : exR.1.cstep = 3 := by decide +kernel
  rw [hc] at h
  exact ⟨h.1, h.2.1, h.2.2.1, h.2.2.2.2⟩


end Infretis.C06
