import Infretis.Lemmas.RepexC07Chain
import Infretis.Lemmas.RepexC07AsIs
import Infretis.Lemmas.RepexC07Eng
import Infretis.Lemmas.RepexC07JobDraws
import Infretis.Lemmas.RepexC07Disk
import Infretis.Lemmas.RepexC07MC
import Infretis.Lemmas.PermEval
/-!
# C07 — every job gets its own random stream

Property theorems only.  Helper lemmas:
`Infretis/Lemmas/RepexC07{Frame,Issue,Distinct,Count,Reissue,Chain,AsIs,Eng,JobDraws}.lean`;
the engine set-up loop of `select_shoot` is modelled in `Infretis/Model/EngSetup.lean`.
Model: `Infretis/Model/Repex.lean` (read-only here; tied to the real `REPEX_state` by
`harness/repex_tie.py` / `harness/props/c07.py`).  The model follows /repo commit 147c104: every
`locked` record carries the ordinal of the job's child stream (`lockedOrd`), a job recorded in the
restart file is re-issued under that ordinal (`mkPickedAt`), without advancing the spawn counter.

**What a stream is here.**  A random stream is identified by the value
`Stream = (entropy, key)` mirroring numpy's `SeedSequence(entropy, spawn_key)`.  The numpy fact
"different `(entropy, spawn_key)` ⇒ statistically independent streams, equal ⇒ identical streams" is
NOT modelled: all statements below are about stream *identity* as a `Stream` value.  Sections 1–6
decide the scheduler side (which streams a job is handed); section 7 decides the in-process side: the
draws the moves and engines make (shooting point, length bound, segment pick, swap acceptance,
velocities, integrator seeds, thermostat noise) are composed from the move / velocity models of
C09 / C11 / C16 into one trace per job (`Model/JobDraws.lean`, lemmas `Lemmas/RepexC07JobDraws.lean`)
and every request of that trace is proved to be on a stream of the job's own ordinal.

**The issue log.**  `sysStepJ` is `sysStep` with a ghost output (the job an event issued and the draw
requests of its `pick()`); `sysStepJ_sys` proves it is `sysStep` on the state.  `ghost y0 evs` = one
`Entry` per issued job along `evs` from `y0`, in issue order: the job, the ordinal put on record
with it, and whether it is a FRESH job (the spawn counter advanced — a new, distinct job) or the
RE-ISSUE of a job recorded in the restart file (the same job again).  The log stops at the first
event that raises, so statements about it cover histories that end in an exception as well.

**Job identity.**  A re-issued job is the SAME job (same ensembles, same paths, its result was never
consumed) and gets the very streams it had before the stop (`reissue_same_streams`).  "No two jobs
receive the same stream" therefore reads: no two DISTINCT jobs — distinct ordinals — of a chain share
a stream, and the `k`-th distinct job has `(seed, [k, j])` / `(seed, [k, j, 0])`.

Quantifiers: every number of ensembles, workers, steps, every seed, every engine table, every
event list (every completion order, every accept/reject outcome, every outcome of the random
choices), every restart IMAGE (`persist` of the state between two events, or the image `treat_output`
writes into `restart.toml`), with and without jobs in flight, any number of restarts.

**Which images exist on disk (sections 4 and 8).**  The code writes `restart.toml` only at the end of
`treat_output` and in the last `loop()`.  The image "`persist` of the state between two events" of
`ChainAny.restart` / `ChainReach.restart` (sections 4) already records the job `prep_md_items` drew after
the last `treat_output`; the real file does not.  Sections 1–7 therefore describe restarts from an image —
whichever is handed to the new process — and the histories in which every issued job is on that image.
What a CRASH does is section 8 (`ChainDisk`, Model/RepexDisk.lean): the new process is built from the file
that is on disk; the job issued after the last write (during the initiation loop: every job of the
process) is lost — it never completes, its result is never consumed, no record of it exists — and ITS
ORDINAL IS ISSUED AGAIN to the first fresh job of the new process (`lost_job_ordinal_reissued`).  With an
unchanged number of workers and the restored `rng_state` that job is the identical job (same pick: C06's
determinism, tie-only here); with another number of workers it is in general a different (ensemble, path):
the lost job and that job then share streams.  "No two jobs receive the same stream" is proved for the
CONTINUED HISTORY — the jobs on the image plus the jobs issued since (`kept ++ lost` of the running
process) — and the spawn counter counts exactly those (`streams_pairwise_distinct_across_crashes`).

**Scope.**  Since /repo 17a0342 the restart file records the spawn counter whenever it is not
`cstep + len(locked)`, so a restart always continues the counter.  The stream theorems
(`streams_pairwise_distinct_across_restarts`, `fresh_jobs_continue_ordinals`) therefore hold on
`ChainAny`: arbitrary histories and arbitrary restarts — more or fewer workers, fewer remaining steps
than recorded jobs (records dropped), another number of ensembles.  What needs C03's slot invariant is
the ALIGNMENT of records and ordinals — that a re-issued job is the recorded job under that job's
ordinal (`reissue_same_streams`, `inflight_record_exact`); these are stated on `ChainReach`, whose
restarts keep the number of ensembles and re-issue ALL recorded jobs (the initiation loop with
`workers ≥ #records` and `tsteps − cstep ≥ #records`).
-/
namespace Infretis.C07
open Infretis.Repex

/-! ## Fresh starts -/

/-- `y0` is what `REPEX_state.__init__` + `load_paths` leave on a fresh start (not a restart) with
    configured seed `seed`: any size, workers, steps, engine table, initial paths; nothing in flight -/
def FreshStart (seed : Nat) (y0 : Sys) : Prop :=
  ∃ (n workers tsteps cstep trajNum : Nat) (occ : List (List Int)) (ensEng : List (List Nat))
    (locked0 : List (List Nat × List Nat)) (paths : List (Nat × List Rat × List Rat)),
    loadPaths (blank n workers tsteps cstep trajNum seed occ ensEng false locked0) paths = .ok y0.s ∧
    y0.jobs = []

theorem FreshStart.fields {seed : Nat} {y0 : Sys} (h : FreshStart seed y0) :
    y0.s.seed = seed ∧ y0.s.entropy = seed ∧ y0.s.spawned = 0 ∧ y0.s.mainDraws = 0 ∧
      y0.s.restarted = false ∧ y0.s.locked = [] ∧ y0.s.lockedOrd = [] ∧ y0.s.locked0Ord = [] := by
  obtain ⟨n, workers, tsteps, cstep, trajNum, occ, ensEng, locked0, paths, hl, _⟩ := h
  obtain ⟨q, ql, qo⟩ := loadPaths_quiet hl
  exact ⟨q.seed, q.entropy, q.spawned, q.mainDraws, q.restarted, ql, qo, q.locked0Ord⟩

/-- a fresh start as the sampler is actually set up: `cstep = 0`, no restart record, `n − 1 ≥ 1`
    initial paths with pairwise distinct numbers below `traj_num` (the hypotheses of C03's
    `fresh_start_is_init`) -/
def WellFormedFresh (seed : Nat) (y0 : Sys) : Prop :=
  ∃ (n workers tsteps trajNum : Nat) (occ : List (List Int)) (ensEng : List (List Nat))
    (paths : List (Nat × List Rat × List Rat)),
    2 ≤ n ∧ paths.length = n - 1 ∧ (paths.map (·.1)).Nodup ∧ (∀ p ∈ paths, p.1 < trajNum) ∧
    loadPaths (blank n workers tsteps 0 trajNum seed occ ensEng false []) paths = .ok y0.s ∧
    y0.jobs = []

theorem WellFormedFresh.fresh {seed : Nat} {y0 : Sys} (h : WellFormedFresh seed y0) :
    FreshStart seed y0 := by
  obtain ⟨n, workers, tsteps, trajNum, occ, ensEng, paths, _, _, _, _, hl, hj⟩ := h
  exact ⟨n, workers, tsteps, 0, trajNum, occ, ensEng, [], paths, hl, hj⟩

/-- a well-formed fresh start begins a chain -/
theorem WellFormedFresh.chain {seed : Nat} {y0 : Sys} (h : WellFormedFresh seed y0) :
    ChainReach seed y0 [] := by
  obtain ⟨h1, h2, h3, _, _, h6, h7, h8⟩ := h.fresh.fields
  obtain ⟨n, workers, tsteps, trajNum, occ, ensEng, paths, hn, hlen, hnd, hlt, hl, hj⟩ := h
  have hy : y0 = { s := y0.s, jobs := [] } := by
    cases y0; simp only at hj; subst hj; rfl
  have hi : Init y0 := by
    rw [hy]
    exact init_of_loadPaths n workers tsteps 0 trajNum seed occ ensEng false paths y0.s hn hlen hnd hlt hl
  exact ChainReach.fresh hi h1 h2 h3 (loadPaths_quiet hl).1.cstep h6 h7 h8

/-! ## A concrete system for the non-vacuity examples

3 ensembles `[0-] [0+] [1+]` + ghost, 2 workers, seed 7, one engine type with 2 instances.
`exEvs`: worker 0 starts a zero swap (two picked entries), worker 1 starts `[1+]`, initiation closes,
the zero swap completes ACCEPTED and worker 0 is given `[0-]`, then worker 1's job completes REJECTED
and worker 1 is given `[1+]`: four jobs issued. -/

def exBlank : St := blank 4 2 10 0 3 7 [[-1, -1]] [[0], [0], [0]] false []

def exPaths : List (Nat × List Rat × List Rat) :=
  [(0, [1], [0,0,0,0]), (1, [1,1,0], [0,0,0,0]), (2, [1,1,0], [0,0,0,0])]

def exS0 : St :=
  match loadPaths exBlank exPaths with
  | .ok s => s
  | .error _ => exBlank

def exSys : Sys := { s := exS0, jobs := [] }

def exEvs : List Ev :=
  [ .start { t := 0, e := 0, coin := true, partner := 1 },
    .start { t := 2, e := 2 },
    .initDone,
    .step 0 .acc [[1], [1, 1, 0]] { t := 0, e := 0, coin := false },
    .step 0 .rej [] { t := 2, e := 2 } ]

/-- weights recomputed from the stored paths at a restart (path 0 lives in `[0-]`) -/
def cxW (pn : Nat) : List Rat := if pn = 0 then [1] else [1, 1, 0]

def okOr {α : Type} (d : α) : Except Err α → α
  | .ok a => a
  | .error _ => d

/-- what the examples display of a log entry: ordinal, fresh?, and per picked entry (ensemble, move
    key, engine key) -/
structure Shown where
  ord : Nat
  fresh : Bool
  picked : List (Int × List Nat × List Nat)
deriving DecidableEq, Repr

def showLog (log : List Entry) : List Shown :=
  log.map (fun e => ⟨e.ord, e.fresh, e.job.picked.map (fun p => (p.ens, p.rgen.key, p.rgenEng.key))⟩)

theorem exS0_loaded : loadPaths exBlank exPaths = .ok exS0 := by decide +kernel

theorem ex_wellFormed : WellFormedFresh 7 exSys :=
  ⟨4, 2, 10, 3, [[-1, -1]], [[0], [0], [0]], exPaths, by decide, by decide, by decide, by decide,
    exS0_loaded, rfl⟩

theorem ex_fresh : FreshStart 7 exSys := ex_wellFormed.fresh

theorem ex_runs : ∃ y, run exSys exEvs = .ok y := ⟨okOr exSys (run exSys exEvs), by decide +kernel⟩

/-! ## 1. A job's streams are a function of the seed and the job's ordinal -/

/-- **`stream_function_of_seed_and_ordinal`.**  In every history from a fresh start with configured
    seed `seed`, the `k`-th job issued (`k = 0, 1, 2, …` in issue order over the whole history,
    whichever worker it goes to, whatever completed in between) is a fresh job recorded under the
    ordinal `k` and has, for its `j`-th picked ensemble, the move stream `(seed, [k, j])` and the
    engine stream `(seed, [k, j, 0])`. -/
theorem stream_function_of_seed_and_ordinal (seed : Nat) (y0 : Sys) (h0 : FreshStart seed y0)
    (evs : List Ev) (k : Nat) (e : Entry) (hk : (ghost y0 evs)[k]? = some e)
    (j : Nat) (p : Picked) (hp : e.job.picked[j]? = some p) :
    e.ord = k ∧ e.fresh = true ∧
    p.rgen = { entropy := seed, key := [k, j] } ∧ p.rgenEng = { entropy := seed, key := [k, j, 0] } := by
  obtain ⟨_, h2, h3, _, _, _, _, h8⟩ := h0.fields
  obtain ⟨hall, hords⟩ := ghost_ords_of_no_record evs y0 h8
  have hmem := List.mem_of_getElem? hk
  have hord : e.ord = k := by
    have := congrArg (fun l => l[k]?) hords
    simp only [List.getElem?_map, hk, Option.map_some] at this
    rw [List.getElem?_range' (getElem?_lt_of_some _ _ _ hk), h3] at this
    simpa using this
  have hst := (ghost_spec evs y0).1 e hmem j p hp
  rw [h2, hord] at hst
  exact ⟨hord, hall e hmem, hst⟩

example : FreshStart 7 exSys ∧
    showLog (ghost exSys exEvs)
      = [⟨0, true, [(-1, [0, 0], [0, 0, 0]), (0, [0, 1], [0, 1, 0])]⟩, ⟨1, true, [(1, [1, 0], [1, 0, 0])]⟩,
         ⟨2, true, [(-1, [2, 0], [2, 0, 0])]⟩, ⟨3, true, [(1, [3, 0], [3, 0, 0])]⟩] :=
  ⟨ex_fresh, by decide +kernel⟩

/-- **the issue log is the scheduler's**: `sysStepJ` is `sysStep` on the state; after a history that
    runs, the spawn counter of the scheduler's seed sequence equals the number of jobs issued, its
    entropy is the seed, and every job in flight is one of the issued jobs. -/
theorem issue_log_faithful (seed : Nat) (y0 y : Sys) (h0 : FreshStart seed y0) (evs : List Ev)
    (hr : run y0 evs = .ok y) :
    (∀ (z : Sys) (ev : Ev), sysStep z ev =
        (match sysStepJ z ev with | .ok r => .ok r.1 | .error e => .error e)) ∧
    y.s.spawned = (ghost y0 evs).length ∧ y.s.entropy = seed ∧ y.s.seed = seed ∧
    (∀ job ∈ y.jobs, job ∈ issued y0 evs) := by
  obtain ⟨h1, h2, h3, _, _, _, _, h8⟩ := h0.fields
  obtain ⟨r1, r2, r3, _⟩ := run_spawned evs hr
  obtain ⟨hall, _⟩ := ghost_ords_of_no_record evs y0 h8
  refine ⟨sysStepJ_sys, ?_, r2.trans h2, r1.trans h1, ?_⟩
  · rw [r3, h3, Nat.zero_add]
    unfold freshOrds
    rw [List.length_map, List.filter_eq_self.mpr hall]
  · intro job hj
    rcases jobs_subset_issued evs hr job hj with h | h
    · obtain ⟨_, _, _, _, _, _, _, _, _, _, hj0⟩ := h0
      rw [hj0] at h
      simp at h
    · exact h

example : (okOr exSys (run exSys exEvs)).s.spawned = 4 ∧ (ghost exSys exEvs).length = 4
    ∧ (okOr exSys (run exSys exEvs)).jobs.length = 2 := by decide +kernel

/-! ## 2. All streams of a history are pairwise distinct -/

/-- **`streams_pairwise_distinct`.**  All move streams and all engine streams of all jobs issued in
    a history from a fresh start — concurrent or successive — are pairwise distinct `Stream` values. -/
theorem streams_pairwise_distinct (seed : Nat) (y0 : Sys) (h0 : FreshStart seed y0) (evs : List Ev) :
    (allStreams (issued y0 evs)).Nodup := by
  obtain ⟨_, _, _, _, _, _, _, h8⟩ := h0.fields
  obtain ⟨_, hords⟩ := ghost_ords_of_no_record evs y0 h8
  apply (ghost_spec evs y0).1.nodup
  rw [hords]
  exact List.nodup_range' 1

/-- the same from ANY state (also a restarted one), for the fresh jobs of the history: the spawn
    counter only ever goes up within one process -/
theorem streams_pairwise_distinct_fresh (y0 : Sys) (evs : List Ev) :
    (allStreams (((ghost y0 evs).filter (·.fresh)).map (·.job))).Nodup := by
  obtain ⟨h1, h2, _⟩ := ghost_spec evs y0
  have ht : Tagged y0.s.entropy ((ghost y0 evs).filter (·.fresh)) :=
    fun e he => h1 e (List.mem_of_mem_filter he)
  apply ht.nodup
  unfold freshOrds at h2
  rw [h2]
  exact List.nodup_range' 1

example : (allStreams (issued exSys exEvs)).length = 10 ∧ (allStreams (issued exSys exEvs)).Nodup :=
  ⟨by decide +kernel, streams_pairwise_distinct 7 exSys ex_fresh exEvs⟩

/-! ## 3. No job stream is the scheduler's own stream -/

/-- **`streams_ne_scheduler`.**  No stream handed to a job (from any state, fresh or re-issued) has
    the empty spawn key; hence none is the scheduler's own stream `mainStream s = (entropy, [])` of
    any state `s`. -/
theorem streams_ne_scheduler (y0 : Sys) (evs : List Ev) (x : Stream)
    (hx : x ∈ allStreams (issued y0 evs)) : x.key ≠ [] ∧ ∀ s : St, x ≠ mainStream s := by
  have hne := (ghost_spec evs y0).1.key_ne_nil hx
  exact ⟨hne, fun s hxs => hne (by rw [hxs]; rfl)⟩

example : mainStream (okOr exSys (run exSys exEvs)).s = { entropy := 7, key := [] }
    ∧ mainStream (okOr exSys (run exSys exEvs)).s ∉ allStreams (issued exSys exEvs) := by decide +kernel

/-! ## 4. Restarts -/

/-- **`inflight_record_exact`** (the counting invariant behind `set_rgen()`), at every instant of
    every chain of restarts: `locked` lists exactly the jobs in flight (one record per job, in order,
    with the job's ensembles and path numbers), `lockedOrd` lists their ordinals — pairwise distinct,
    all below the counter, and each job carries the streams of its recorded ordinal — and
    `distinct jobs issued = spawned = completed steps + jobs in flight = cstep + len(locked)`. -/
theorem inflight_record_exact (seed : Nat) (y : Sys) (log : List Entry) (h : ChainReach seed y log) :
    y.s.locked = y.jobs.map jobRec ∧ y.s.lockedOrd.length = y.jobs.length ∧
      (∀ jo ∈ y.jobs.zip y.s.lockedOrd, StreamsAt seed jo.2 jo.1.picked) ∧
      y.s.lockedOrd.Nodup ∧ (∀ o ∈ y.s.lockedOrd, o < y.s.spawned) ∧
      y.s.spawned = y.s.cstep + y.s.locked.length ∧ (freshOrds log).length = y.s.spawned := by
  have hi := h.inv
  refine ⟨hi.ninv.recd, hi.ninv.ordLen, ?_, hi.ninv.ordNodup, hi.ninv.ordLt, hi.ninv.count, ?_⟩
  · have := hi.ninv.ordStreams
    rw [hi.hentropy] at this
    exact this
  · rw [hi.fresh, List.length_range]

/-- the same at the instant the code writes `restart.toml` (inside `treat_output` of the completing
    job `k`, before the next job is drawn): the completed job's record and ordinal are gone, and
    only they -/
theorem inflight_record_exact_at_write (seed : Nat) (y : Sys) (log : List Entry)
    (h : ChainReach seed y log) (k : Nat) (status : Status) (newW : List (List Rat)) (s2 : St)
    (hm : midState y k status newW = .ok s2) :
    s2.locked = y.s.locked.eraseIdx k ∧ s2.lockedOrd = y.s.lockedOrd.eraseIdx k ∧
      s2.locked = (y.jobs.eraseIdx k).map jobRec ∧
      s2.spawned = s2.cstep + s2.locked.length ∧ (freshOrds log).length = s2.spawned := by
  have hi := h.inv
  obtain ⟨hm2, m1, m2, m3⟩ := midState_inv hi.ninv hm
  exact ⟨m1, m2, hm2.recd, hm2.count, by rw [hi.fresh, List.length_range, m3]⟩

example : (okOr exSys (run exSys exEvs)).s.cstep = 2
    ∧ (okOr exSys (run exSys exEvs)).s.locked = [([-1], [3]), ([1], [2])]
    ∧ (okOr exSys (run exSys exEvs)).s.lockedOrd = [2, 3] := by decide +kernel

/-- **`reissue_same_streams`.**  Stop a chain at any instant (between events), restart, let the
    initiation loop re-issue the recorded jobs.  The `i`-th re-issued job is the `i`-th job that was
    in flight at the stop (same ensembles, same path numbers), it is re-issued under the ordinal
    recorded for that job, it receives exactly the move and engine streams that job had before the
    stop, and the spawn counter is what it was at the stop. -/
theorem reissue_same_streams (seed : Nat) (y : Sys) (log : List Entry) (h : ChainReach seed y log)
    (workers tsteps : Nat) (occ : List (List Int)) (ensEng : List (List Nat))
    (weightOf : Nat → List Rat) (s' : St)
    (hre : restore (persist y.s) y.s.n workers tsteps occ ensEng weightOf = .ok s')
    (pre : List Ev) (hlen : pre.length = y.s.locked.length)
    (hst : ∀ ev ∈ pre, ∃ o d, ev = Ev.start o d) (y' : Sys)
    (hr : run { s := s', jobs := [] } pre = .ok y') :
    (ghost { s := s', jobs := [] } pre).length = y.jobs.length ∧ y'.s.spawned = y.s.spawned ∧
    ∀ (i : Nat) (e : Entry) (job : Job), (ghost { s := s', jobs := [] } pre)[i]? = some e →
      y.jobs[i]? = some job →
      e.fresh = false ∧ y.s.lockedOrd[i]? = some e.ord ∧ jobRec e.job = jobRec job ∧
      ∀ (j : Nat) (p q : Picked), e.job.picked[j]? = some p → job.picked[j]? = some q →
        p.rgen = q.rgen ∧ p.rgenEng = q.rgenEng := by
  have hi := h.inv
  exact Infretis.Repex.reissue_same_streams hi.ninv.mid (by rw [hi.hentropy, hi.hseed]) hre hlen hst hr

/-- the same for a restart from the file written inside `treat_output` (where the code writes it):
    the jobs still in flight are all but the completing one -/
theorem reissue_same_streams_at_write (seed : Nat) (y : Sys) (log : List Entry)
    (h : ChainReach seed y log) (k : Nat) (status : Status) (newW : List (List Rat)) (s2 : St)
    (hmid : midState y k status newW = .ok s2)
    (workers tsteps : Nat) (occ : List (List Int)) (ensEng : List (List Nat))
    (weightOf : Nat → List Rat) (s' : St)
    (hre : restore (persist s2) s2.n workers tsteps occ ensEng weightOf = .ok s')
    (pre : List Ev) (hlen : pre.length = s2.locked.length)
    (hst : ∀ ev ∈ pre, ∃ o d, ev = Ev.start o d) (y' : Sys)
    (hr : run { s := s', jobs := [] } pre = .ok y') :
    (ghost { s := s', jobs := [] } pre).length = (y.jobs.eraseIdx k).length ∧
    y'.s.spawned = y.s.spawned ∧
    ∀ (i : Nat) (e : Entry) (job : Job), (ghost { s := s', jobs := [] } pre)[i]? = some e →
      (y.jobs.eraseIdx k)[i]? = some job →
      e.fresh = false ∧ s2.lockedOrd[i]? = some e.ord ∧ jobRec e.job = jobRec job ∧
      ∀ (j : Nat) (p q : Picked), e.job.picked[j]? = some p → job.picked[j]? = some q →
        p.rgen = q.rgen ∧ p.rgenEng = q.rgenEng := by
  have hi := h.inv
  obtain ⟨hm2, _, _, m3⟩ := midState_inv hi.ninv hmid
  obtain ⟨_, _, m1, m2, _⟩ := midState_spec hmid
  have := Infretis.Repex.reissue_same_streams hm2 (by rw [m2, m1, hi.hentropy, hi.hseed]) hre hlen hst hr
  rw [m3] at this
  exact this

/-- **`streams_pairwise_distinct_across_restarts`** (FULL: any number of restarts, with and without
    jobs in flight, every number of workers before and after each restart, all / some / none of the
    recorded jobs re-issued, any event interleaving — `ChainAny`).  Over the log of a whole chain:
    (a) every entry's job carries `(seed, [ord, j])` / `(seed, [ord, j, 0])` for its recorded ordinal;
    (b) the `k`-th DISTINCT (fresh) job of the chain has ordinal `k`, and the spawn counter equals
        the number of distinct jobs issued — a job's streams are a function of the seed and of the
        job's ordinal counted over the whole chain;
    (c) all streams of all distinct jobs are pairwise distinct;
    (d) two entries with different ordinals have no stream in common; two entries with the same
        ordinal (a job and its re-issues) have the same streams entry by entry;
    (e) every entry — re-issues included — carries the ordinal of a distinct job issued earlier or
        by that entry itself (no ordinal is invented);
    (f) no stream is the scheduler's own. -/
theorem streams_pairwise_distinct_across_restarts (seed : Nat) (y : Sys) (log : List Entry)
    (h : ChainAny seed y log) :
    (∀ e ∈ log, ∀ (j : Nat) (p : Picked), e.job.picked[j]? = some p →
        p.rgen = { entropy := seed, key := [e.ord, j] } ∧
        p.rgenEng = { entropy := seed, key := [e.ord, j, 0] }) ∧
    (freshOrds log = List.range (freshOrds log).length ∧ y.s.spawned = (freshOrds log).length ∧
      y.s.entropy = seed) ∧
    (allStreams ((log.filter (·.fresh)).map (·.job))).Nodup ∧
    (∀ e1 ∈ log, ∀ e2 ∈ log,
      (e1.ord ≠ e2.ord → ∀ x ∈ allStreams [e1.job], x ∉ allStreams [e2.job]) ∧
      (e1.ord = e2.ord → ∀ (j : Nat) (p q : Picked), e1.job.picked[j]? = some p →
        e2.job.picked[j]? = some q → p.rgen = q.rgen ∧ p.rgenEng = q.rgenEng)) ∧
    (∀ e ∈ log, ∃ e0 ∈ log, e0.fresh = true ∧ e0.ord = e.ord) ∧
    (∀ x ∈ allStreams (log.map (·.job)), x.key ≠ [] ∧ ∀ s : St, x ≠ mainStream s) := by
  have hi := h.inv
  have hfl : (freshOrds log).length = y.s.spawned := by rw [hi.fresh, List.length_range]
  refine ⟨fun e he j p hp => hi.tagged e he j p hp, ⟨by rw [hfl]; exact hi.fresh, hfl.symm, hi.hentropy⟩,
    ?_, ?_, ?_, ?_⟩
  · have ht : Tagged seed (log.filter (·.fresh)) := fun e he => hi.tagged e (List.mem_of_mem_filter he)
    apply ht.nodup
    have : (log.filter (·.fresh)).map (·.ord) = freshOrds log := rfl
    rw [this, hi.fresh]
    exact List.nodup_range
  · intro e1 h1 e2 h2
    exact ⟨fun hne => hi.tagged.disjoint h1 h2 hne, fun heq j p q hp hq => hi.tagged.same h1 h2 heq j p q hp hq⟩
  · intro e he
    have hlt := hi.ordLt e he
    have hm : e.ord ∈ freshOrds log := by rw [hi.fresh]; exact List.mem_range.mpr hlt
    unfold freshOrds at hm
    obtain ⟨e0, he0, hord⟩ := List.mem_map.mp hm
    obtain ⟨h1, h2⟩ := List.mem_filter.mp he0
    exact ⟨e0, h1, h2, hord⟩
  · intro x hx
    have hne := hi.tagged.key_ne_nil hx
    exact ⟨hne, fun s hxs => hne (by rw [hxs]; rfl)⟩

/-- a fresh start (any `FreshStart`: no slot invariant needed) begins an unrestricted chain -/
theorem freshStart_chainAny {seed : Nat} {y0 : Sys} (h : FreshStart seed y0) : ChainAny seed y0 [] := by
  obtain ⟨h1, h2, h3, _, _, _, h7, h8⟩ := h.fields
  exact ChainAny.fresh h1 h2 h3 h7 h8

/-- the same over the restricted chains (every restart re-issues all recorded jobs), where in addition
    `reissue_same_streams` identifies every re-issue entry with the recorded job -/
theorem streams_pairwise_distinct_across_restarts_reissue_all (seed : Nat) (y : Sys) (log : List Entry)
    (h : ChainReach seed y log) :
    (∀ e ∈ log, ∀ (j : Nat) (p : Picked), e.job.picked[j]? = some p →
        p.rgen = { entropy := seed, key := [e.ord, j] } ∧
        p.rgenEng = { entropy := seed, key := [e.ord, j, 0] }) ∧
    (allStreams ((log.filter (·.fresh)).map (·.job))).Nodup ∧
    (∀ e ∈ log, ∃ e0 ∈ log, e0.fresh = true ∧ e0.ord = e.ord) :=
  let r := streams_pairwise_distinct_across_restarts seed y log h.toAny
  ⟨r.1, r.2.2.1, r.2.2.2.2.1⟩

/-- **`fresh_jobs_continue_ordinals`.**  After any chain in which `J` distinct jobs were issued, the
    `m`-th FRESH job of any continuation (whatever is re-issued in between) has ordinal `J + m` and
    the streams `(seed, [J + m, j])` / `(seed, [J + m, j, 0])`; re-issued jobs carry ordinals `< J`. -/
theorem fresh_jobs_continue_ordinals (seed : Nat) (y : Sys) (log : List Entry)
    (h : ChainAny seed y log) (evs : List Ev) :
    (∀ (m : Nat) (e : Entry), ((ghost y evs).filter (·.fresh))[m]? = some e →
      e.ord = (freshOrds log).length + m ∧
      ∀ (j : Nat) (p : Picked), e.job.picked[j]? = some p →
        p.rgen = { entropy := seed, key := [(freshOrds log).length + m, j] } ∧
        p.rgenEng = { entropy := seed, key := [(freshOrds log).length + m, j, 0] }) ∧
    (∀ e ∈ ghost y evs, e.fresh = false → e.ord < (freshOrds log).length) := by
  have hi := h.inv
  have hfl : (freshOrds log).length = y.s.spawned := by rw [hi.fresh, List.length_range]
  obtain ⟨g1, g2, g3⟩ := ghost_spec evs y
  constructor
  · intro m e hm
    have hmem := List.mem_of_mem_filter (List.mem_of_getElem? hm)
    have hord : e.ord = y.s.spawned + m := by
      unfold freshOrds at g2
      have := congrArg (fun l => l[m]?) g2
      simp only [List.getElem?_map, hm, Option.map_some, List.length_map] at this
      rw [List.getElem?_range' (getElem?_lt_of_some _ _ _ hm)] at this
      simpa using this
    rw [hfl]
    refine ⟨hord, fun j p hp => ?_⟩
    have hst := g1 e hmem j p hp
    rw [hi.hentropy, hord] at hst
    exact hst
  · intro e he hf
    have hm : some e.ord ∈ (reissueOrds (ghost y evs)).map some := by
      apply List.mem_map.mpr
      refine ⟨e.ord, ?_, rfl⟩
      unfold reissueOrds
      exact List.mem_map.mpr ⟨e, List.mem_filter.mpr ⟨he, by simp [hf]⟩, rfl⟩
    rw [hfl]
    exact hi.below.2 e.ord (g3.subset hm)

/-- **`restart_continues_ordinals`.**  After any chain (any restarts, with or without jobs in flight)
    in which `J` distinct jobs were issued, the `m`-th job issued in any continuation is a fresh job
    with ordinal `J + m` and streams `(seed, [J + m, j])` / `(seed, [J + m, j, 0])`. -/
theorem restart_continues_ordinals (seed : Nat) (y : Sys) (log : List Entry)
    (h : ChainReach seed y log) (evs : List Ev) (m : Nat) (e : Entry)
    (hm : (ghost y evs)[m]? = some e) (j : Nat) (p : Picked) (hp : e.job.picked[j]? = some p) :
    e.fresh = true ∧ e.ord = (freshOrds log).length + m ∧
      p.rgen = { entropy := seed, key := [(freshOrds log).length + m, j] } ∧
      p.rgenEng = { entropy := seed, key := [(freshOrds log).length + m, j, 0] } := by
  have hi := h.inv
  have hfl : (freshOrds log).length = y.s.spawned := by rw [hi.fresh, List.length_range]
  have hmem := List.mem_of_getElem? hm
  have hall := ghost_all_fresh evs hi.ninv.core.l0
  obtain ⟨g1, g2, _⟩ := ghost_spec evs y
  have hfil : (ghost y evs).filter (·.fresh) = ghost y evs := List.filter_eq_self.mpr hall
  unfold freshOrds at g2
  rw [hfil, List.length_map] at g2
  have hord : e.ord = y.s.spawned + m := by
    have := congrArg (fun l => l[m]?) g2
    simp only [List.getElem?_map, hm, Option.map_some] at this
    rw [List.getElem?_range' (getElem?_lt_of_some _ _ _ hm)] at this
    simpa using this
  have hst := g1 e hmem j p hp
  rw [hi.hentropy, hord] at hst
  rw [hfl]
  exact ⟨hall e hmem, hord, hst⟩

/-! ### concrete chain: fresh start, stop, restart with a job in flight, stop, restart

Segment 1 (fresh, seed 7, 2 workers): job A (`[0-]`, ordinal 0), job B (`[1+]`, ordinal 1),
initiation closes, B completes REJECTED; the restart file written at that instant records A in
flight with ordinal 0.
Segment 2 (restart 1): A is re-issued under ordinal 0 (counter restored as `1 + 1 = 2`, untouched by
the re-issue), a new job B' on `[1+]` is drawn (ordinal 2), initiation closes, B' completes REJECTED;
the restart file records A (ordinal 0), `cstep = 2`.
Segment 3 (restart 2): the counter is restored as `2 + 1 = 3` — the number of distinct jobs A, B, B' —
A is re-issued under ordinal 0 again, and the next fresh job gets ordinal 3. -/

def cxEvs : List Ev := [ .start { t := 0, e := 0 }, .start { t := 2, e := 2 }, .initDone ]
def cxPre : List Ev := [ .start { t := 0, e := 0 } ]
def cxEvs2 : List Ev := [ .start { t := 2, e := 2 }, .initDone ]

def cx1 : Sys := okOr exSys (run exSys cxEvs)
def cxMid1 : St := okOr exS0 (midState cx1 1 .rej [])
def cxS2 : St := okOr exS0 (restore (persist cxMid1) cxMid1.n 2 10 [[-1, -1]] [[0], [0], [0]] cxW)
def cx2r : Sys := okOr exSys (run { s := cxS2, jobs := [] } cxPre)
def cx2 : Sys := okOr exSys (run cx2r cxEvs2)
def cxMid2 : St := okOr exS0 (midState cx2 1 .rej [])
def cxS3 : St := okOr exS0 (restore (persist cxMid2) cxMid2.n 2 10 [[-1, -1]] [[0], [0], [0]] cxW)
def cx3r : Sys := okOr exSys (run { s := cxS3, jobs := [] } cxPre)

theorem cx_runs : run exSys cxEvs = .ok cx1 ∧ midState cx1 1 .rej [] = .ok cxMid1 ∧
    restore (persist cxMid1) cxMid1.n 2 10 [[-1, -1]] [[0], [0], [0]] cxW = .ok cxS2 ∧
    run { s := cxS2, jobs := [] } cxPre = .ok cx2r ∧ run cx2r cxEvs2 = .ok cx2 ∧
    midState cx2 1 .rej [] = .ok cxMid2 ∧
    restore (persist cxMid2) cxMid2.n 2 10 [[-1, -1]] [[0], [0], [0]] cxW = .ok cxS3 ∧
    run { s := cxS3, jobs := [] } cxPre = .ok cx3r ∧
    cxPre.length = cxMid1.locked.length ∧ cxPre.length = cxMid2.locked.length := by
  refine ⟨by decide +kernel, by decide +kernel, by decide +kernel, by decide +kernel, by decide +kernel,
    by decide +kernel, by decide +kernel, by decide +kernel, by decide +kernel, by decide +kernel⟩

/-- the log of the concrete chain -/
def cxLog : List Entry :=
  ((([] ++ ghost exSys cxEvs) ++ ghost { s := cxS2, jobs := [] } cxPre) ++ ghost cx2r cxEvs2) ++
    ghost { s := cxS3, jobs := [] } cxPre

/-- non-vacuity of the chain theorems: the concrete two-restart chain, each restart with a job in
    flight, is a `ChainReach` -/
theorem cx_chain : ChainReach 7 cx3r cxLog := by
  have hst : ∀ ev ∈ cxPre, ∃ o d, ev = Ev.start o d := by
    intro ev hev
    simp only [cxPre, List.mem_singleton] at hev
    exact ⟨_, _, hev⟩
  obtain ⟨r1, r2, r3, r4, r5, r6, r7, r8, r9, r10⟩ := cx_runs
  have c1 := ChainReach.run ex_wellFormed.chain r1
  have c2 := ChainReach.restartMid c1 r2 r3 r9 hst r4
  have c3 := ChainReach.run c2 r5
  exact ChainReach.restartMid c3 r6 r7 r10 hst r8

example : showLog cxLog
      = [⟨0, true, [(-1, [0, 0], [0, 0, 0])]⟩, ⟨1, true, [(1, [1, 0], [1, 0, 0])]⟩,
         ⟨0, false, [(-1, [0, 0], [0, 0, 0])]⟩, ⟨2, true, [(1, [2, 0], [2, 0, 0])]⟩,
         ⟨0, false, [(-1, [0, 0], [0, 0, 0])]⟩]
    ∧ cxS2.spawned = 2 ∧ cxS2.locked0Ord = [some 0] ∧ cxMid2.spawned = 3 ∧ cxMid2.cstep = 2
    ∧ cxMid2.lockedOrd = [0] ∧ cxS3.spawned = 3 ∧ cx3r.s.spawned = 3 := by
  refine ⟨by decide +kernel, by decide +kernel, by decide +kernel, by decide +kernel, by decide +kernel,
    by decide +kernel, by decide +kernel, by decide +kernel⟩

/-- falsy-but-valid corner: a restart file written at `cstep = 0` (nothing issued yet), restarted with
    ONE worker instead of two: the chain continues at ordinal 0 — the first job after the restart is
    the very first job of the chain -/
def czS : St := okOr exS0 (restore (persist exS0) exS0.n 1 10 [[-1]] [[0], [0], [0]] cxW)

theorem cz_chain : ChainReach 7 { s := czS, jobs := [] } ([] ++ ghost { s := czS, jobs := [] } []) :=
  ChainReach.restart (pre := []) (workers := 1) (tsteps := 10) (occ := [[-1]]) (ensEng := [[0], [0], [0]])
    (weightOf := cxW) (s' := czS) ex_wellFormed.chain (by decide +kernel) (by decide +kernel)
    (by intro ev hev; simp at hev) (by decide +kernel)

example : czS.cstep = 0 ∧ czS.restarted = true ∧ czS.spawned = 0 ∧ czS.workers = 1
    ∧ showLog (ghost { s := czS, jobs := [] } [.start { t := 0, e := 0 }, .initDone,
        .step 0 .rej [] { t := 2, e := 2 }])
      = [⟨0, true, [(-1, [0, 0], [0, 0, 0])]⟩, ⟨1, true, [(1, [1, 0], [1, 0, 0])]⟩] := by
  refine ⟨by decide +kernel, by decide +kernel, by decide +kernel, by decide +kernel, by decide +kernel⟩

/-! ## 5. The scheduler's own draws -/

/-- **`scheduler_draws_accounted`** (scheduler side of "all draws come from the right stream").
    In every history from a fresh start the PICK position of the scheduler's stream (`mainDraws`: the
    requests of `pick()` / `pick_traj_ens()`) advances by exactly the draw requests returned by the
    `pick()`s (`Draw.choiceAll`, then possibly `.coin`, then possibly `.choiceCol` — the only request forms
    there are, none of which names a job stream); `treat_output`, `loop`, `initiate`, the engine assignment
    request nothing.  Each job's group of requests has one of the three shapes.
    NOT counted here (the state machine uses the exact P matrix): the Monte-Carlo requests `self.prob` makes
    on the same stream through `inf_retis → random_prob` when an idle block has more than 12 rows and is not
    row-constant — section 9: none with at most 12 idle slots (`pick_draws_accounted_partial`), present
    otherwise (`scheduler_draws_accounted_monte_carlo_counterexample`).  They are draws of the SCHEDULER on
    its OWN stream; no statement about job streams depends on them. -/
theorem scheduler_draws_accounted (seed : Nat) (y0 y : Sys) (h0 : FreshStart seed y0) (evs : List Ev)
    (hr : run y0 evs = .ok y) :
    y.s.mainDraws = (schedDraws y0 evs).length ∧
    ∀ e ∈ ghost y0 evs, e.draws = [] ∨ DrawShape e.draws := by
  obtain ⟨_, _, _, h4, h5, _⟩ := h0.fields
  obtain ⟨_, hm⟩ := run_mainDraws evs hr (Or.inl h5)
  exact ⟨by rw [hm, h4, Nat.zero_add], ghost_drawShape evs y0 (Or.inl h5)⟩

example : (okOr exSys (run exSys exEvs)).s.mainDraws = 7 ∧ (schedDraws exSys exEvs).length = 7
    ∧ (ghost exSys exEvs).map (fun e => e.draws.length) = [3, 1, 2, 1] := by decide +kernel

/-- after a restart: re-issued jobs draw nothing on the scheduler stream; the first fresh
    `pick_lock()` resumes it at the position saved in the restart file (once) -/
theorem scheduler_draws_after_restart (s s' : St) (o : PickOutcome) (d : Nat) (ps : List Picked)
    (ds : List Draw) (hp : pickLock s o d = .ok (s', ps, ds)) :
    (s.locked0 ≠ [] → ds = [] ∧ s'.mainDraws = s.mainDraws) ∧
    (s.locked0 = [] → s.restarted = true → s.rgenRestored = false →
      s'.mainDraws = d + ds.length ∧ s'.rgenRestored = true ∨ s'.restarted = false) := by
  constructor
  · intro hne
    cases hl0 : s.locked0 with
    | nil => exact absurd hl0 hne
    | cons r rest =>
      obtain ⟨enss0, trajs0⟩ := r
      obtain ⟨s1, pairs, hre, _, rfl, hds⟩ := pickLock_reissue hl0 hp
      exact ⟨hds, (reissue_quiet hre).1.mainDraws⟩
  · intro h0 hr hn
    obtain ⟨h1, h2⟩ := pickLock_draws_restored hp h0 hr hn
    rcases h2 with h2 | h2
    · exact Or.inr h2
    · exact Or.inl ⟨h1, h2⟩

/-! ## 5b. The engine objects of a job hold that job's engine streams

`select_shoot` hands every engine object of every picked ensemble the ensemble's `rgen-eng`
(`assignEngineStreams`, Model/EngSetup.lean; an engine object = (engine type, instance) of the
worker process, its `rgen` attribute lives in the table `EngTbl`).  Whatever an engine object held
before — the stale generator of an earlier job, or nothing — every in-process draw of job `k` is
then made on a stream `(seed, [k, j, 0])` of that job. -/

/-- **`engines_hold_job_streams`.**  For every job of every chain (fresh or re-issued; one ensemble or
    a zero swap; `[0-]` and `[0+]` on one shared engine object or on different ones; one or several
    engine types per ensemble; any instance indices) and ANY prior contents of the process's engine
    table: after the set-up every engine object the job uses holds the engine stream
    `(seed, [ord, j, 0])` of an entry `j` of THAT job which lists the object. -/
theorem engines_hold_job_streams (seed : Nat) (y : Sys) (log : List Entry) (h : ChainAny seed y log)
    (e : Entry) (he : e ∈ log) (tbl : EngTbl) (obj : EngObj)
    (hobj : ∃ p ∈ e.job.picked, obj ∈ p.engIdx) :
    ∃ (j : Nat) (q : Picked), e.job.picked[j]? = some q ∧ obj ∈ q.engIdx ∧
      engRgen (assignEngineStreams tbl e.job.picked) obj = some { entropy := seed, key := [e.ord, j, 0] } :=
  assign_job_ordinal (h.inv.tagged e he) tbl obj hobj

/-- **`engine_of_own_ensemble`.**  An engine object listed by a picked ensemble holds exactly that
    ensemble's engine stream unless a LATER picked ensemble of the same job shares the object — so
    in a zero swap whose ensembles run on different engine objects each object gets its own
    ensemble's stream; an object the job does not use keeps what it had. -/
theorem engine_of_own_ensemble (l1 l2 : List Picked) (p : Picked) (tbl : EngTbl) (obj : EngObj) :
    (obj ∈ p.engIdx → (∀ q ∈ l2, obj ∉ q.engIdx) →
      engRgen (assignEngineStreams tbl (l1 ++ p :: l2)) obj = some p.rgenEng) ∧
    ((∀ q ∈ l1 ++ p :: l2, obj ∉ q.engIdx) →
      engRgen (assignEngineStreams tbl (l1 ++ p :: l2)) obj = engRgen tbl obj) :=
  ⟨fun he hl => assign_last l1 l2 p tbl obj he hl, fun hn => assign_untouched _ tbl obj hn⟩

/-- a system in which `[0-]` has its own engine type (type 1, two instances), the other ensembles
    type 0: the zero swap of worker 0 drives two different engine objects -/
def ex2Sys : Sys :=
  { s := okOr exBlank (loadPaths (blank 4 2 10 0 3 7 [[-1, -1], [-1, -1]] [[1], [0], [0]] false []) exPaths),
    jobs := [] }

def ex2Job : List Picked :=
  ((ghost ex2Sys [.start { t := 0, e := 0, coin := true, partner := 1 }]).map (·.job.picked)).flatten

example : ex2Job.map (fun p => (p.ens, p.engIdx, p.rgenEng)) =
      [(-1, [(1, 0)], ⟨7, [0, 0, 0]⟩), (0, [(0, 0)], ⟨7, [0, 1, 0]⟩)]
    -- both engine objects carry stale generators of some earlier job 99; a third object is not used
    ∧ (let tbl := assignEngineStreams [((1, 0), ⟨7, [99, 0, 0]⟩), ((0, 0), ⟨7, [99, 0, 0]⟩), ((0, 1), ⟨7, [98, 0, 0]⟩)] ex2Job
       (engRgen tbl (1, 0), engRgen tbl (0, 0), engRgen tbl (0, 1)))
      = (some ⟨7, [0, 0, 0]⟩, some ⟨7, [0, 1, 0]⟩, some ⟨7, [98, 0, 0]⟩) := by
  refine ⟨by decide +kernel, by decide +kernel⟩

/-! ## 6. Historical record: the restart path before the repairs

`setRgenAsIs` / `pickLockAsIs` (before 96833bd / ec057e1) and `pickLockFreshOrd` (before 147c104) live
in `Lemmas/RepexC07AsIs.lean`; they are not part of the model the tie runs. -/

/-- a concrete restarted 2-worker state as the pre-fix `__init__` left it: `cstep = 2`, seed 1,
    `set_rgen()` applied (entropy 0, counter 2) -/
def asIsS : St :=
  setRgenAsIs (okOr exBlank (loadPaths (blank 4 2 10 2 3 1 [[-1, -1]] [[0], [0], [0]] true []) exPaths)) 0

/-- the picked entries of two consecutive calls of a `pick_lock` variant `f` -/
def twoPicks (f : St → PickOutcome → Nat → Except Err (St × List Picked × List Draw)) (s : St)
    (o1 o2 : PickOutcome) : Option (List Picked × List Picked) :=
  match f s o1 0 with
  | .error _ => none
  | .ok (s1, ps1, _) =>
    match f s1 o2 0 with
    | .error _ => none
    | .ok (_, ps2, _) => some (ps1, ps2)

def showPicked (ps : List Picked) : List (Int × Stream × Stream) := ps.map (fun p => (p.ens, p.rgen, p.rgenEng))

/-- **`streams_collide_asIs_counterexample`** (pre-fix behaviour, kept as a record; fixed by ec057e1).
    After a restart at `cstep = 2` with two workers, the two concurrent jobs started by the two
    `pick_lock()` calls both got the move stream `(0, [2, 0])` and the engine stream `(0, [2, 0, 0])`.
    (`streams_collide_asIs` proves the collision for every state, not only this one.) -/
theorem streams_collide_asIs_counterexample :
    (twoPicks pickLockAsIs asIsS { t := 0, e := 0 } { t := 2, e := 2 }).map
        (fun r => (showPicked r.1, showPicked r.2))
      = some ([(-1, ⟨0, [2, 0]⟩, ⟨0, [2, 0, 0]⟩)], [(1, ⟨0, [2, 0]⟩, ⟨0, [2, 0, 0]⟩)]) := by
  decide +kernel

/-- **`entropy_not_seed_asIs_counterexample`** (pre-fix; fixed by 96833bd): with configured seed 1
    the job streams after a restart carried entropy 0 — not a function of the seed. -/
theorem entropy_not_seed_asIs_counterexample :
    asIsS.seed = 1 ∧
    (twoPicks pickLockAsIs asIsS { t := 0, e := 0 } { t := 2, e := 2 }).map
        (fun r => (r.1.map (fun p => p.rgen.entropy), r.2.map (fun p => p.rgen.entropy)))
      = some ([0], [0]) := by
  decide +kernel

/-- the collision for every state (`Infretis.Repex.pickLockAsIs_collide`), restated here -/
theorem streams_collide_asIs (s s1 s2 : St) (o1 o2 : PickOutcome) (d1 d2 : Nat)
    (ps1 ps2 : List Picked) (ds1 ds2 : List Draw) (h0 : s.locked0 = []) (hr : s.restarted = true)
    (hp1 : pickLockAsIs s o1 d1 = .ok (s1, ps1, ds1))
    (hp2 : pickLockAsIs s1 o2 d2 = .ok (s2, ps2, ds2)) :
    ∀ (j : Nat) (p q : Picked), ps1[j]? = some p → ps2[j]? = some q →
      p.rgen = q.rgen ∧ p.rgenEng = q.rgenEng :=
  pickLockAsIs_collide h0 hr hp1 hp2

/-- **`reissue_freshOrd_undercounts_asIs`** (between ec057e1 and 147c104; the finding of this
    package, fixed by 147c104): for every state, re-issuing a recorded job under a FRESH ordinal
    advances the counter while the job stays counted as in flight, so the surplus of `spawned` over
    `cstep + #locked + #waiting` grows by one per re-issue; the next `set_rgen()` then restores a
    counter that is too small by the number of re-issued jobs and ordinals are handed out twice. -/
theorem reissue_freshOrd_undercounts_asIs (s s' : St) (o : PickOutcome) (d : Nat) (ps : List Picked)
    (ds : List Draw) (hne : s.locked0 ≠ []) (hp : pickLockFreshOrd s o d = .ok (s', ps, ds)) :
    s'.spawned + (s.cstep + s.locked.length + s.locked0.length)
      = s.spawned + (s'.cstep + s'.locked.length + s'.locked0.length) + 1 ∧
    StreamsAt s.entropy s.spawned ps :=
  reissue_freshOrd_undercounts hne hp

/-- **`streams_pairwise_distinct_across_restarts_asIs_counterexample`** (the chain collision before
    147c104, on the concrete chain above): at restart 1 the record `A` waits with counter 2; the
    as-is re-issue hands A the FRESH ordinal 2 (`(7, [2, 0])`) and moves the counter to 3 with A still
    on record — `spawned = 3` but `cstep + #locked = 1 + 1`: a restart from here restores 2 and the
    next job gets `(7, [2, 0])` again.  The repaired `pick_lock()` re-issues A under its recorded
    ordinal 0 and leaves the counter at 2. -/
theorem streams_pairwise_distinct_across_restarts_asIs_counterexample :
    cxS2.spawned = 2 ∧ cxS2.cstep = 1 ∧ cxS2.locked0.length = 1 ∧
    (match pickLockFreshOrd cxS2 { t := 0, e := 0 } 0 with
      | .ok (s, ps, _) => some (showPicked ps, s.spawned, s.cstep + s.locked.length)
      | .error _ => none) = some ([(-1, ⟨7, [2, 0]⟩, ⟨7, [2, 0, 0]⟩)], 3, 2) ∧
    (match pickLock cxS2 { t := 0, e := 0 } 0 with
      | .ok (s, ps, _) => some (showPicked ps, s.spawned, s.cstep + s.locked.length)
      | .error _ => none) = some ([(-1, ⟨7, [0, 0]⟩, ⟨7, [0, 0, 0]⟩)], 2, 2) := by
  refine ⟨by decide +kernel, by decide +kernel, by decide +kernel, by decide +kernel, by decide +kernel⟩

/-! ### before 17a0342: a dropped record made the next restart re-use ordinals

Segment 1 (fresh, 2 workers): A (`[0-]`, ordinal 0) and B (`[1+]`, ordinal 1) in flight; stop.
Segment 2 is restarted with ONE worker: A is re-issued (ordinal 0), the record of B is dropped, the
counter is 2; A completes, a new job C on `[1+]` gets ordinal 2; C completes; the restart file written
at that instant has `cstep = 2`, nothing in flight — but three distinct jobs (0, 1, 2) were issued. -/

def drS1 : St := okOr exS0 (restore (persist cx1.s) cx1.s.n 1 10 [[-1]] [[0], [0], [0]] cxW)
def drEvs : List Ev := [ .start { t := 0, e := 0 }, .initDone, .step 0 .rej [] { t := 2, e := 2 } ]
def drY : Sys := okOr exSys (run { s := drS1, jobs := [] } drEvs)
def drMid : St := okOr exS0 (midState drY 0 .rej [])
def drS2 : St := okOr exS0 (restore (persist drMid) drMid.n 1 10 [[-1]] [[0], [0], [0]] cxW)
def drS2AsIs : St := okOr exS0 (restoreAsIs17 (persist drMid) drMid.n 1 10 [[-1]] [[0], [0], [0]] cxW)

/-- the chain with the dropped record is a `ChainAny` (non-vacuity of the unrestricted theorems) -/
theorem dr_chain : ChainAny 7 { s := drS2, jobs := [] }
    (([] ++ ghost exSys cxEvs) ++ ghost { s := drS1, jobs := [] } drEvs) :=
  ChainAny.restartMid (k := 0) (status := .rej) (newW := []) (s2 := drMid) (n := drMid.n) (workers := 1)
    (tsteps := 10) (occ := [[-1]]) (ensEng := [[0], [0], [0]]) (weightOf := cxW)
    (ChainAny.run
      (ChainAny.restart (n := cx1.s.n) (workers := 1) (tsteps := 10) (occ := [[-1]])
        (ensEng := [[0], [0], [0]]) (weightOf := cxW) (s' := drS1)
        (ChainAny.run (freshStart_chainAny ex_fresh) cx_runs.1) (by decide +kernel))
      (by decide +kernel : run { s := drS1, jobs := [] } drEvs = .ok drY))
    (by decide +kernel) (by decide +kernel)

/-- **`dropped_record_asIs_counterexample`** (the finding of the hardening pass, fixed by 17a0342).
    On the chain above: one record (B, ordinal 1) waits un-re-issued, the log of segment 2 is
    re-issue of A under ordinal 0 and the fresh job C under ordinal 2, the restart file is written from
    a state with `spawned = 3`, `cstep + #locked = 2`.  The as-is restart restores the counter 2 and
    the next job gets `(7, [2, 0])` — the streams of the COMPLETED job C; the repaired restart finds
    `current.spawned = 3` in the file and the next job gets `(7, [3, 0])`. -/
theorem dropped_record_asIs_counterexample :
    drY.s.locked0 = [([2], [2])] ∧
    showLog (ghost { s := drS1, jobs := [] } drEvs)
      = [⟨0, false, [(-1, [0, 0], [0, 0, 0])]⟩, ⟨2, true, [(1, [2, 0], [2, 0, 0])]⟩] ∧
    drMid.spawned = 3 ∧ drMid.cstep + drMid.locked.length = 2 ∧ (persist drMid).spawnedRec = some 3 ∧
    drS2AsIs.spawned = 2 ∧
    showLog (ghost { s := drS2AsIs, jobs := [] } [.start { t := 2, e := 2 }])
      = [⟨2, true, [(1, [2, 0], [2, 0, 0])]⟩] ∧
    drS2.spawned = 3 ∧
    showLog (ghost { s := drS2, jobs := [] } [.start { t := 2, e := 2 }])
      = [⟨3, true, [(1, [3, 0], [3, 0, 0])]⟩] := by
  refine ⟨by decide +kernel, by decide +kernel, by decide +kernel, by decide +kernel, by decide +kernel,
    by decide +kernel, by decide +kernel, by decide +kernel, by decide +kernel⟩

/-- the repaired `pick_lock()` after a restart without recorded jobs (seed 1, restart at `cstep = 2`):
    ordinals continue at `cstep + #in flight = 2`, then 3, with the configured seed -/
example :
    (twoPicks pickLock (okOr exBlank (loadPaths (blank 4 2 10 2 3 1 [[-1, -1]] [[0], [0], [0]] true []) exPaths))
        { t := 0, e := 0 } { t := 2, e := 2 }).map (fun r => (showPicked r.1, showPicked r.2))
      = some ([(-1, ⟨1, [2, 0]⟩, ⟨1, [2, 0, 0]⟩)], [(1, ⟨1, [3, 0]⟩, ⟨1, [3, 0, 0]⟩)]) := by
  decide +kernel

/-! ## 7. Every random number a job draws in-process comes from that job's streams

`JobDraws.runJob` (Model/JobDraws.lean) composes the models of `run_md → select_shoot → shoot / wire_fencing /
retis_swap_zero / quantis_swap_zero → engine.modify_velocities / engine.propagate` on the picked entries the
scheduler model hands out: the set-up loop of `select_shoot` (`assignEngineStreams`), the move models of C09/C11
(`Moves.shoot`, `Moves.wireFencing`, `ZeroSwap.retisSwapZero`, `ZeroSwap.quantisSwapZero`) on arbitrary scripted
outcomes, the velocity request of C16's model (`Vel.modifyVelocities`) and, per engine class, the draws of one
`modify_velocities` / `_propagate_from` call (LAMMPS / TurtleMD integrator seeds, ASE Langevin noise).  It returns
the job's TRACE: every random-number request in call order, resolved to the generator object the code reaches
(`picked[ens]["ens"]["rgen"]`, `engines[key][0].rgen` as the set-up left it).  The statements below are about
that function — the one `drv_c07` runs for the tie (`jobdraws`). -/

open Infretis.JobDraws

/-- **`job_draws_on_job_streams`** (FULL).  For every job of every chain (any restarts, fresh or re-issued, one
    ensemble or a zero swap), every engine class per engine type, ANY prior contents of the worker's engine
    table and every scripted outcome of the move: each request of the job's trace is made
    (a) on the move stream `(seed, [ord, j])` of an entry `j` of THIS job — and is then an `integers` or a
        `random` (shooting point, length bound, segment pick, swap acceptance), or
    (b) on the engine stream `(seed, [ord, j, 0])` of an entry `j` of THIS job (velocity draws, integrator
        seeds, thermostat noise), or
    (c) is GROMACS's own velocity generation (outside the property by its words);
    never on numpy's global state, never on the scheduler's stream. -/
theorem job_draws_on_job_streams (seed : Nat) (y : Sys) (log : List Entry) (h : ChainAny seed y log)
    (e : Entry) (he : e ∈ log) (v : Moves.Variant) (kinds : List EngKind) (tbl : EngTbl) (mv : MoveIn)
    (out : JobOut) (hr : runJob v kinds tbl e.job.picked mv = .ok out) :
    ∀ d ∈ out.trace,
      ((∃ j, j < e.job.picked.length ∧ d.src = .stream { entropy := seed, key := [e.ord, j] } ∧
          (d.what = .random ∨ ∃ lo hi, d.what = .integers lo hi)) ∨
       (∃ j, j < e.job.picked.length ∧ d.src = .stream { entropy := seed, key := [e.ord, j, 0] }) ∨
       (d.src = .external ∧ d.what = .genvel)) ∧
      d.src ≠ .numpyGlobal ∧ (∀ s : St, d.src ≠ .stream (mainStream s)) := by
  intro d hd
  have hst := h.inv.tagged e he
  have key : (∃ j, j < e.job.picked.length ∧ d.src = .stream { entropy := seed, key := [e.ord, j] } ∧
          (d.what = .random ∨ ∃ lo hi, d.what = .integers lo hi)) ∨
       (∃ j, j < e.job.picked.length ∧ d.src = .stream { entropy := seed, key := [e.ord, j, 0] }) ∨
       (d.src = .external ∧ d.what = .genvel) := by
    rcases runJob_src hr d hd with ⟨p, hp, hsrc, hpl⟩ | ⟨q, hq, hsrc⟩ | hg
    · obtain ⟨j, hj⟩ := List.mem_iff_getElem?.mp hp
      refine Or.inl ⟨j, getElem?_lt_of_some _ _ _ hj, ?_, hpl⟩
      rw [hsrc, (hst j p hj).1]; rfl
    · obtain ⟨j, hj⟩ := List.mem_iff_getElem?.mp hq
      refine Or.inr (Or.inl ⟨j, getElem?_lt_of_some _ _ _ hj, ?_⟩)
      rw [hsrc, (hst j q hj).2]; rfl
    · exact Or.inr (Or.inr hg)
  refine ⟨key, ?_, ?_⟩
  · rcases key with ⟨_, _, h1, _⟩ | ⟨_, _, h1⟩ | ⟨h1, _⟩ <;> rw [h1] <;> intro hc <;> cases hc
  · intro s
    rcases key with ⟨_, _, h1, _⟩ | ⟨_, _, h1⟩ | ⟨h1, _⟩ <;> rw [h1] <;> intro hc <;>
      simp [mainStream] at hc

/-- job 1 of the example history (`[1+]`, ordinal 1, engine object (0, 1)) -/
def exJob1 : List Picked := ((ghost exSys exEvs).map (·.job.picked)).getD 1 []

/-- scripted outcomes of a shooting move from a 5-frame path: index 2, ξ = 1/2, both directions end left -/
def exShootIn : Moves.ShootIn :=
  { old := [-1, 1, 2, 1, -1], oldTimeOrigin := 0, genLd := false, l := 0, m := 1, r := 3, maxlength := 20,
    allowMax := false, sc := { hasL := true, hasR := false }, scEns := none, idx := 2, xi := 1/2, kick := 2,
    back := [1, -1], forw := [1, -1] }

theorem ex_chainAny : ChainAny 7 (okOr exSys (run exSys exEvs)) (ghost exSys exEvs) := by
  have := ChainAny.run (evs := exEvs) (y' := okOr exSys (run exSys exEvs)) (freshStart_chainAny ex_fresh)
    (by decide +kernel)
  simpa using this

/-- non-vacuity: an accepted shooting move on an ASE/Langevin engine object that still holds the generator of
    an earlier job 99: shooting point and ξ on `(7, [1, 0])`, velocities and the noise of both propagations on
    `(7, [1, 0, 0])`, nothing on `(7, [99, 0, 0])` -/
example : (∃ e ∈ ghost exSys exEvs, e.ord = 1 ∧ e.job.picked = exJob1) ∧
    (runJob .repaired [.ase true] [((0, 1), ⟨7, [99, 0, 0]⟩)] exJob1 (.sh exShootIn)).toOption.map
        (fun o => (o.status, o.trace))
      = some ("ACC", [⟨.stream ⟨7, [1, 0]⟩, .integers 1 4⟩, ⟨.stream ⟨7, [1, 0, 0]⟩, .standardNormal⟩,
                      ⟨.stream ⟨7, [1, 0]⟩, .random⟩, ⟨.stream ⟨7, [1, 0, 0]⟩, .noise⟩,
                      ⟨.stream ⟨7, [1, 0, 0]⟩, .noise⟩]) := by
  refine ⟨⟨(ghost exSys exEvs)[1]'(by decide +kernel), List.getElem_mem _, by decide +kernel, by decide +kernel⟩,
    by decide +kernel⟩

/-- **`job_never_lacks_generator`** (FULL).  After the set-up loop of `select_shoot` no job raises
    "Did not find random generator!!" / "Missing random generator!" — for every picked list, every engine
    table, every engine class, every move.  (Without the set-up the same engine call does: example below.) -/
theorem job_never_lacks_generator (v : Moves.Variant) (kinds : List EngKind) (tbl : EngTbl)
    (picked : List Picked) (mv : MoveIn) : runJob v kinds tbl picked mv ≠ .error .noRgen :=
  runJob_ne_noRgen v kinds tbl picked mv

/-- the guard is not vacuous: on an engine object that was never given a generator LAMMPS / TurtleMD / CP2K raise,
    ASE silently falls back to numpy's global state -/
example : engDraws .lammps (.propagate false) none = .error .noRgen ∧
    engDraws .turtlemd (.propagate true) none = .error .noRgen ∧
    engDraws .cp2k .modvel none = .error .noRgen ∧
    engDraws (.ase true) .modvel none = .ok [⟨.numpyGlobal, .standardNormal⟩] ∧
    engDraws (.ase true) (.propagate false) none = .ok [⟨.numpyGlobal, .noise⟩] ∧
    engDraws (.gromacs false) .modvel none = .ok [⟨.external, .genvel⟩] := by decide +kernel

/-- **`job_draws_disjoint_across_jobs`** (FULL).  Two jobs of a chain with different ordinals (two distinct
    jobs — concurrent or successive, before or after any number of restarts) never make a request on the same
    stream, whatever moves they run on whatever engine classes. -/
theorem job_draws_disjoint_across_jobs (seed : Nat) (y : Sys) (log : List Entry) (h : ChainAny seed y log)
    (e1 e2 : Entry) (h1 : e1 ∈ log) (h2 : e2 ∈ log) (hne : e1.ord ≠ e2.ord)
    (v1 v2 : Moves.Variant) (kinds1 kinds2 : List EngKind) (tbl1 tbl2 : EngTbl) (mv1 mv2 : MoveIn)
    (out1 out2 : JobOut) (hr1 : runJob v1 kinds1 tbl1 e1.job.picked mv1 = .ok out1)
    (hr2 : runJob v2 kinds2 tbl2 e2.job.picked mv2 = .ok out2) :
    ∀ d1 ∈ out1.trace, ∀ d2 ∈ out2.trace, ∀ s : Stream, d1.src = .stream s → d2.src ≠ .stream s := by
  intro d1 hd1 d2 hd2 s hs1 hs2
  have k1 := (job_draws_on_job_streams seed y log h e1 h1 v1 kinds1 tbl1 mv1 out1 hr1 d1 hd1).1
  have k2 := (job_draws_on_job_streams seed y log h e2 h2 v2 kinds2 tbl2 mv2 out2 hr2 d2 hd2).1
  rcases k1 with ⟨_, _, a, _⟩ | ⟨_, _, a⟩ | ⟨a, _⟩ <;> rcases k2 with ⟨_, _, b, _⟩ | ⟨_, _, b⟩ | ⟨b, _⟩ <;>
    (rw [hs1] at a; rw [hs2] at b
     first
       | (simp at a; done)
       | (simp at b; done)
       | (have hab := a.symm.trans b; simp at hab <;> exact hne hab.1))

/-- **`job_trace_ignores_stale_generators`** (FULL).  What a job draws and on which streams does not depend on
    what the engine objects of the worker held before it (generators of earlier jobs, or nothing): same
    acceptance, status, events and trace, or the same error. -/
theorem job_trace_ignores_stale_generators (v : Moves.Variant) (kinds : List EngKind) (tbl1 tbl2 : EngTbl)
    (picked : List Picked) (mv : MoveIn) :
    (match runJob v kinds tbl1 picked mv, runJob v kinds tbl2 picked mv with
     | .ok o1, .ok o2 => o1.accept = o2.accept ∧ o1.status = o2.status ∧ o1.evs = o2.evs ∧ o1.trace = o2.trace
     | .error e1, .error e2 => e1 = e2
     | _, _ => False) :=
  runJob_tbl_indep v kinds tbl1 tbl2 picked mv

example : (runJob .repaired [.ase true] [((0, 1), ⟨7, [99, 0, 0]⟩)] exJob1 (.sh exShootIn)).toOption.map (·.trace)
    = (runJob .repaired [.ase true] [] exJob1 (.sh exShootIn)).toOption.map (·.trace) := by decide +kernel

/-- **`worker_process_draws_on_job_streams`** (FULL).  Any sequence of jobs of a chain executed one after the other
    in ONE worker process (`runSeq`: the engine objects live on, job `i + 1` finds in them the generators job `i`
    left): every request of the `i`-th job is on a stream of the `i`-th job's own ordinal (or gmx's own velocity
    generation) — never on a generator an earlier job left in an engine object. -/
theorem worker_process_draws_on_job_streams (seed : Nat) (y : Sys) (log : List Entry) (h : ChainAny seed y log)
    (v : Moves.Variant) (kinds : List EngKind) :
    ∀ (jobs : List (Entry × MoveIn)) (tbl : EngTbl) (outs : List JobOut), (∀ x ∈ jobs, x.1 ∈ log) →
      runSeq v kinds tbl (jobs.map (fun x => (x.1.job.picked, x.2))) = .ok outs →
      outs.length = jobs.length ∧
      ∀ (i : Nat) (e : Entry) (mv : MoveIn) (o : JobOut), jobs[i]? = some (e, mv) → outs[i]? = some o →
        ∀ d ∈ o.trace,
          (∃ j, j < e.job.picked.length ∧ (d.src = .stream { entropy := seed, key := [e.ord, j] } ∨
              d.src = .stream { entropy := seed, key := [e.ord, j, 0] })) ∨
          (d.src = .external ∧ d.what = .genvel) := by
  intro jobs
  induction jobs with
  | nil =>
    intro tbl outs _ hr
    simp only [List.map_nil, runSeq] at hr
    injection hr with hr
    subst hr
    exact ⟨rfl, fun i e mv o hj => by simp at hj⟩
  | cons x rest ih =>
    intro tbl outs hmem hr
    obtain ⟨e0, mv0⟩ := x
    simp only [List.map_cons, runSeq] at hr
    cases h1 : runJob v kinds tbl e0.job.picked mv0 with
    | error er => rw [h1] at hr; cases hr
    | ok o0 =>
      rw [h1] at hr
      simp only at hr
      cases h2 : runSeq v kinds o0.tbl (rest.map (fun x => (x.1.job.picked, x.2))) with
      | error er => rw [h2] at hr; cases hr
      | ok os =>
        rw [h2] at hr
        injection hr with hr
        subst hr
        obtain ⟨hl, hrest⟩ := ih o0.tbl os (fun x hx => hmem x (List.mem_cons_of_mem _ hx)) h2
        refine ⟨by simp [hl], ?_⟩
        intro i e mv o hj ho d hd
        cases i with
        | zero =>
          simp only [List.getElem?_cons_zero, Option.some.injEq, Prod.mk.injEq] at hj ho
          obtain ⟨he, hmv⟩ := hj
          subst he hmv ho
          have := (job_draws_on_job_streams seed y log h e0 (hmem _ (List.mem_cons_self ..)) v kinds tbl mv0 o0 h1
            d hd).1
          rcases this with ⟨j, hj, hs, _⟩ | ⟨j, hj, hs⟩ | hg
          · exact Or.inl ⟨j, hj, Or.inl hs⟩
          · exact Or.inl ⟨j, hj, Or.inr hs⟩
          · exact Or.inr hg
        | succ i =>
          simp only [List.getElem?_cons_succ] at hj ho
          exact hrest i e mv o hj ho d hd

/-- retis zero swap on two different engine objects: LAMMPS for `[0-]` (engine type 1), TurtleMD for `[0+]` -/
def exFr (op : Int) : ZeroSwap.Frame := { op := op, cfg := ⟨0, 0⟩, vr := false, vpot := none }
def exGf (op : Int) : ZeroSwap.GenFrame := { op := op, cfg := ⟨0, 0⟩, vpot := none }
def exE0 : ZeroSwap.Ens :=
  { i0 := -100, i1 := 0, i2 := 0, maxlen := 10, scL := false, scR := true, wf := false, cap := none }
def exE1 : ZeroSwap.Ens :=
  { i0 := 0, i1 := 0, i2 := 10, maxlen := 10, scL := true, scR := false, wf := false, cap := none }
def exSwapIn : MoveIn :=
  .retis exE0 exE1 ([1, -1, -2, -1, 1].map exFr) ([-1, 1, 2, 1, -1].map exFr) ⟨none, [-2, -1, 1].map exGf⟩
    ⟨none, [2, 1, -1].map exGf⟩ (1/2)

/-- **`integrator_seeds_from_engine_streams`** (FULL).  The seeds a job hands to MD programs / stochastic
    integrators (LAMMPS `infretis_seed`, TurtleMD `seed=`): each is the value of `rgen.integers(0, hi)` at a
    position `k` of an ENGINE stream `(seed, [ord, j, 0])` of that job — its derivation input `(stream, k)` is a
    function of the configured seed, the job's ordinal and the course of the move only; within a job no two seeds
    have the same derivation input; two jobs with different ordinals have no derivation input in common. -/
theorem integrator_seeds_from_engine_streams (seed : Nat) (y : Sys) (log : List Entry) (h : ChainAny seed y log)
    (e1 e2 : Entry) (h1 : e1 ∈ log) (h2 : e2 ∈ log)
    (v1 v2 : Moves.Variant) (kinds1 kinds2 : List EngKind) (tbl1 tbl2 : EngTbl) (mv1 mv2 : MoveIn)
    (out1 out2 : JobOut) (hr1 : runJob v1 kinds1 tbl1 e1.job.picked mv1 = .ok out1)
    (hr2 : runJob v2 kinds2 tbl2 e2.job.picked mv2 = .ok out2) :
    (∀ x ∈ seedInputs out1.trace, ∃ j, j < e1.job.picked.length ∧
        x.1 = .stream { entropy := seed, key := [e1.ord, j, 0] }) ∧
    (seedInputs out1.trace).Nodup ∧
    (e1.ord ≠ e2.ord → ∀ x1 ∈ seedInputs out1.trace, ∀ x2 ∈ seedInputs out2.trace, (x1.1, x1.2.1) ≠ (x2.1, x2.2.1)) := by
  have hseed : ∀ (e : Entry) (he : e ∈ log) (v : Moves.Variant) (kinds : List EngKind) (tbl : EngTbl)
      (mv : MoveIn) (out : JobOut), runJob v kinds tbl e.job.picked mv = .ok out →
      ∀ x ∈ seedInputs out.trace, ∃ j, j < e.job.picked.length ∧
        x.1 = .stream { entropy := seed, key := [e.ord, j, 0] } := by
    intro e he v kinds tbl mv out hr x hx
    obtain ⟨d, hd, hsrc, hw⟩ := seedInputs_mem out.trace x hx
    obtain ⟨q, hq, hqs⟩ := runJob_seed hr d hd x.2.2 hw
    obtain ⟨j, hj⟩ := List.mem_iff_getElem?.mp hq
    refine ⟨j, getElem?_lt_of_some _ _ _ hj, ?_⟩
    rw [← hsrc, hqs, ((h.inv.tagged e he) j q hj).2]; rfl
  refine ⟨hseed e1 h1 v1 kinds1 tbl1 mv1 out1 hr1, seedInputs_nodup _, ?_⟩
  intro hne x1 hx1 x2 hx2 heq
  obtain ⟨j1, _, a⟩ := hseed e1 h1 v1 kinds1 tbl1 mv1 out1 hr1 x1 hx1
  obtain ⟨j2, _, b⟩ := hseed e2 h2 v2 kinds2 tbl2 mv2 out2 hr2 x2 hx2
  simp only [Prod.mk.injEq] at heq
  obtain ⟨h', _⟩ := heq
  rw [a, b] at h'
  simp at h'
  exact hne h'.1

/-- non-vacuity: the zero swap of job 0 on LAMMPS + TurtleMD hands on two seeds, each the first value of its own
    ensemble's engine stream -/
example : (runJob .repaired [.turtlemd, .lammps] [] ex2Job exSwapIn).toOption.map
      (fun o => (o.status, o.evs.length, seedInputs o.trace))
    = some ("ACC", 4, [(.stream ⟨7, [0, 0, 0]⟩, 0, 10000000), (.stream ⟨7, [0, 1, 0]⟩, 0, 1000000000)]) := by
  decide +kernel

/-- **`reissued_job_draws_the_same`** (FULL on `ChainReach`, like `reissue_same_streams`).  Stop a chain at any
    instant, restart, let the initiation loop re-issue the recorded jobs.  If the `i`-th re-issued job is given the
    same engine objects as before (same `eng_idx` entry by entry), then on the same scripted outcomes of the move
    it makes exactly the same requests on exactly the same streams as the job it continues — whatever the engine
    objects of the old and of the new worker process held: the same job draws the same random numbers. -/
theorem reissued_job_draws_the_same (seed : Nat) (y : Sys) (log : List Entry) (h : ChainReach seed y log)
    (workers tsteps : Nat) (occ : List (List Int)) (ensEng : List (List Nat))
    (weightOf : Nat → List Rat) (s' : St)
    (hre : restore (persist y.s) y.s.n workers tsteps occ ensEng weightOf = .ok s')
    (pre : List Repex.Ev) (hlen : pre.length = y.s.locked.length)
    (hst : ∀ ev ∈ pre, ∃ o d, ev = Repex.Ev.start o d) (y' : Sys)
    (hr : run { s := s', jobs := [] } pre = .ok y')
    (i : Nat) (e : Entry) (job : Job) (he : (ghost { s := s', jobs := [] } pre)[i]? = some e)
    (hj : y.jobs[i]? = some job)
    (heng : ∀ (j : Nat) (p q : Picked), e.job.picked[j]? = some p → job.picked[j]? = some q → p.engIdx = q.engIdx)
    (v : Moves.Variant) (kinds : List EngKind) (tbl1 tbl2 : EngTbl) (mv : MoveIn) :
    e.job.picked = job.picked ∧
    (match runJob v kinds tbl1 e.job.picked mv, runJob v kinds tbl2 job.picked mv with
     | .ok o1, .ok o2 => o1.accept = o2.accept ∧ o1.status = o2.status ∧ o1.evs = o2.evs ∧ o1.trace = o2.trace
     | .error e1, .error e2 => e1 = e2
     | _, _ => False) := by
  obtain ⟨_, _, hall⟩ := reissue_same_streams seed y log h workers tsteps occ ensEng weightOf s' hre pre hlen hst y' hr
  obtain ⟨_, _, hrec, hstreams⟩ := hall i e job he hj
  have hpicked : e.job.picked = job.picked := by
    unfold jobRec at hrec
    simp only [Prod.mk.injEq] at hrec
    obtain ⟨hens, hpn⟩ := hrec
    have hl : e.job.picked.length = job.picked.length := by
      have := congrArg List.length hens
      simpa using this
    apply List.ext_getElem? 
    intro j
    cases hp : e.job.picked[j]? with
    | none =>
      have : job.picked.length ≤ j := by
        rw [← hl]; exact List.getElem?_eq_none_iff.mp hp
      exact (List.getElem?_eq_none_iff.mpr this).symm
    | some p =>
      have hjl : j < job.picked.length := by rw [← hl]; exact getElem?_lt_of_some _ _ _ hp
      have hq : job.picked[j]? = some job.picked[j] := List.getElem?_eq_getElem hjl
      rw [hq]
      have h1 := congrArg (fun l => l[j]?) hens
      have h2 := congrArg (fun l => l[j]?) hpn
      simp only [List.getElem?_map, hp, hq, Option.map_some, Option.some.injEq] at h1 h2
      obtain ⟨h3, h4⟩ := hstreams j p job.picked[j] hp hq
      have h5 := heng j p job.picked[j] hp hq
      congr 1
      cases p
      cases hjq : job.picked[j]
      rw [hjq] at h1 h2 h3 h4 h5
      simp only at h1 h2 h3 h4 h5
      subst h1 h2 h3 h4 h5
      rfl
  refine ⟨hpicked, ?_⟩
  rw [hpicked]
  exact runJob_tbl_indep v kinds tbl1 tbl2 job.picked mv

/-- two successive jobs in one worker process: the zero swap of job 0, then the shooting move of job 1 on an engine
    object... both of type 0: job 1 finds `(7, [0, 1, 0])` of job 0 in object (0, 0) and its own object (0, 1) empty -/
example : (runSeq .repaired [.turtlemd, .lammps] [] [(ex2Job, exSwapIn), (exJob1, .sh exShootIn)]).toOption.map
      (fun os => os.map (fun o => (o.status, o.trace.map (·.src))))
    = some [("ACC", [.stream ⟨7, [0, 0, 0]⟩, .stream ⟨7, [0, 1, 0]⟩]),
            ("ACC", [.stream ⟨7, [1, 0]⟩, .stream ⟨7, [1, 0, 0]⟩, .stream ⟨7, [1, 0]⟩, .stream ⟨7, [1, 0, 0]⟩,
                     .stream ⟨7, [1, 0, 0]⟩])] := by decide +kernel

/-- **`moves_project_onto_move_models`** (FULL).  The traced moves are conservative over the move models of
    C09 / C11: the requests they make on move streams are exactly the draw lists `Moves.shoot` /
    `Moves.wireFencing` report (same order), resp. as many `random` as `ZeroSwap.…` counts; whenever
    `Moves.wireFencing` returns, the trace of the wire-fencing move exists. -/
theorem moves_project_onto_move_models :
    (∀ (ens slot : Int) (o : Moves.ShootOut), drawsOf (shootEvs ens slot o) = o.draws.map ofMovesDraw) ∧
    (∀ (v : Moves.Variant) (i : Moves.WfIn) (ens slot : Int) (o : Moves.WfOut), Moves.wireFencing v i = .ok o →
      ∃ evs, wfEvs v i ens slot = .ok evs ∧ drawsOf evs = o.draws.map ofMovesDraw) ∧
    (∀ r : ZeroSwap.Result, drawsOf (retisEvs r) = List.replicate r.draws .random ∧
      drawsOf (quantisEvs r) = List.replicate r.draws .random) := by
  refine ⟨shootEvs_draws, fun v i ens slot o ho => ?_, fun r => ?_⟩
  · obtain ⟨evs, h1, h2, _⟩ := wfEvs_draws v i ens slot o ho
    exact ⟨evs, h1, h2⟩
  · have hreq : ∀ l : List ZeroSwap.Req, drawsOf (l.map reqEv) = [] := by
      intro l
      induction l with
      | nil => rfl
      | cons a t ih =>
        cases a <;> simp only [List.map_cons, reqEv, drawsOf, List.filterMap_cons] <;> exact ih
    have hsw : ∀ n, drawsOf (swapDraws n) = List.replicate n .random := by
      intro n
      induction n with
      | zero => rfl
      | succ n ih =>
        simp only [swapDraws, List.replicate_succ, drawsOf, List.filterMap_cons]
        exact congrArg _ ih
    constructor
    · unfold retisEvs; rw [drawsOf_append, hreq, hsw]; rfl
    · unfold quantisEvs; rw [drawsOf_append, drawsOf_append, hreq, hreq, hsw]; simp

/-- **`velocity_request_is_engine_rgen`** (FULL).  For all five engine classes and all numeric inputs the request
    C16's model of `modify_velocities` issues is tagged `engine.rgen` and has the method `modvelDraws` resolves
    (`normal`; `standard_normal` for ASE). -/
theorem velocity_request_is_engine_rgen (k : EngKind) (s : Vel.Setup) (hs : s.engine = k.velEngine)
    (src : Vel.Frame) (ek : Option Rat) (zm : Option Bool) (sig : List Rat) (z : List (List Rat)) :
    (Vel.modifyVelocities Vel.codeVariant Vel.codeVariant s src ek zm sig z).request.stream = .engineRgen ∧
    (Vel.modifyVelocities Vel.codeVariant Vel.codeVariant s src ek zm sig z).request.method = (velRequest k).2 := by
  obtain ⟨h1, h2, h3⟩ := velRequest_spec k s hs src ek zm sig z
  exact ⟨h1.trans h3, h2⟩

example : (velRequest .lammps, velRequest (.ase true)) =
    ((.engineRgen, "normal"), (.engineRgen, "standard_normal")) := by decide +kernel


/-! ## 8. Crash restarts from the file that is on disk

`Model/RepexDisk.lean`: `Proc` = scheduler state + `./restart.toml`; `stepD` = one iteration of `scheduler()` (only a
completion rewrites the file, inside `treat_output`, BEFORE the next job is drawn); `restartFromDisk` = the process
dies and a new one is built from the image ON DISK.  `ChainDisk seed p kept lost` (Lemmas/RepexC07Disk.lean): any
number of such rounds from a fresh start; `kept` = the continued history (jobs whose issue the file reflects),
`lost` = the jobs the running process issued after the last write — what a crash at this instant discards. -/

/-- the counter `set_rgen()` derives from an image is the spawn counter of the state that wrote it -/
theorem persist_counter (s : St) : (persist s).counter = s.spawned := by
  obtain ⟨_, p2, p3, _, _, p6⟩ := persist_fields s
  unfold Image.counter
  rw [p6, p2, p3]
  unfold spawnedKey
  split
  · rename_i hc; simp [hc]
  · simp

/-- the counter stored in (derived from) the file on disk counts the distinct jobs of the continued history -/
theorem disk_counter {seed : Nat} {kept : List Entry} {im : Image} (hw : DiskWit seed kept im) :
    im.counter = (freshOrds kept).length ∧ im.seed = seed := by
  rcases hw with ⟨yw, k, st, nw, s2, hc, hmid, rfl⟩ | ⟨yw, hc, rfl⟩
  · obtain ⟨_, _, m1, _, m3, _⟩ := midState_spec hmid
    have hi := hc.inv
    rw [persist_counter, m3, hi.fresh, List.length_range]
    exact ⟨rfl, (persist_fields s2).1.trans (m1.trans hi.hseed)⟩
  · have hi := hc.inv
    rw [persist_counter, hi.fresh, List.length_range]
    exact ⟨rfl, (persist_fields yw.s).1.trans hi.hseed⟩

/-- **`streams_pairwise_distinct_across_crashes`** (FULL: any number of crashes at any instant, any worker / step
    counts at each restart).  For the running process of every `ChainDisk`, over the continued history together
    with the jobs issued since the last write of the file (`kept ++ lost`):
    every entry carries `(seed, [ord, j])` / `(seed, [ord, j, 0])`; the fresh entries have the ordinals
    `0, 1, 2, …` — the spawn counter is (distinct jobs of the continued history) + (jobs issued since the last
    write), and the counter the file on disk restores is (distinct jobs of the continued history) alone;
    all streams of distinct jobs are pairwise distinct; entries with different ordinals share no stream; no
    stream is the scheduler's.  (The jobs of `lost` discarded by EARLIER crashes are not in the log: see
    `lost_job_ordinal_reissued`.) -/
theorem streams_pairwise_distinct_across_crashes (seed : Nat) (p : Proc) (kept lost : List Entry)
    (h : ChainDisk seed p kept lost) :
    ChainAny seed p.y (kept ++ lost) ∧
    (∀ e ∈ kept ++ lost, ∀ (j : Nat) (q : Picked), e.job.picked[j]? = some q →
        q.rgen = { entropy := seed, key := [e.ord, j] } ∧
        q.rgenEng = { entropy := seed, key := [e.ord, j, 0] }) ∧
    (freshOrds (kept ++ lost) = List.range p.y.s.spawned ∧
      p.y.s.spawned = (freshOrds kept).length + (freshOrds lost).length ∧
      ∀ im, p.disk = some im → im.counter = (freshOrds kept).length ∧ im.seed = seed) ∧
    (allStreams (((kept ++ lost).filter (·.fresh)).map (·.job))).Nodup ∧
    (∀ e1 ∈ kept ++ lost, ∀ e2 ∈ kept ++ lost, e1.ord ≠ e2.ord →
      ∀ x ∈ allStreams [e1.job], x ∉ allStreams [e2.job]) ∧
    (∀ x ∈ allStreams ((kept ++ lost).map (·.job)), x.key ≠ [] ∧ ∀ s : St, x ≠ mainStream s) := by
  have hi := h.inv
  obtain ⟨r1, ⟨r2a, r2b, _⟩, r3, r4, _, r6⟩ :=
    streams_pairwise_distinct_across_restarts seed p.y (kept ++ lost) hi.any
  refine ⟨hi.any, r1, ⟨?_, ?_, fun im him => disk_counter (hi.wit im him)⟩, r3,
    fun e1 h1 e2 h2 hne => (r4 e1 h1 e2 h2).1 hne, r6⟩
  · rw [r2b]; exact r2a
  · rw [r2b, freshOrds_append, List.length_append]

/-- **`lost_job_ordinal_reissued`** (FULL; what a crash does to the job that is not on the file).  The process of
    a `ChainDisk` dies; the new process is built from the file on disk.  Then: the file is unchanged, the spawn
    counter is back at the number of distinct jobs of the continued history, and — whatever the new process
    re-issues first — its `m`-th FRESH job gets the ordinal and, entry by entry, exactly the move and engine
    streams of the `m`-th fresh job that was lost.  Nothing makes that job the same (ensemble, path) as the lost
    one (example below: it is not, after a restart with one worker instead of two). -/
theorem lost_job_ordinal_reissued (seed : Nat) (p p' : Proc) (kept lost : List Entry)
    (h : ChainDisk seed p kept lost)
    (n workers tsteps : Nat) (occ : List (List Int)) (ensEng : List (List Nat)) (weightOf : Nat → List Rat)
    (hre : restartFromDisk p n workers tsteps occ ensEng weightOf = .ok p') (evs : List Repex.Ev) :
    ChainDisk seed p' kept [] ∧ p'.disk = p.disk ∧ p'.y.s.spawned = (freshOrds kept).length ∧
    ∀ (m : Nat) (e' e : Entry), (lost.filter (·.fresh))[m]? = some e' →
      ((ghost p'.y evs).filter (·.fresh))[m]? = some e →
      e.ord = e'.ord ∧ e.ord = (freshOrds kept).length + m ∧
      ∀ (j : Nat) (q' q : Picked), e'.job.picked[j]? = some q' → e.job.picked[j]? = some q →
        q.rgen = q'.rgen ∧ q.rgenEng = q'.rgenEng := by
  have hc := ChainDisk.crash h hre
  have hA := h.inv.any.inv
  have hBany : ChainAny seed p'.y kept := by
    have := hc.inv.any
    rwa [List.append_nil] at this
  obtain ⟨im, s', hd, _, rfl⟩ := restartFromDisk_spec hre
  refine ⟨hc, hd.symm, ?_, ?_⟩
  · have := hBany.inv.fresh
    rw [this, List.length_range]
  intro m e' e he' he
  obtain ⟨hord, hstr⟩ := (fresh_jobs_continue_ordinals seed _ kept hBany evs).1 m e he
  have hfo : freshOrds kept ++ freshOrds lost = List.range p.y.s.spawned := by
    rw [← freshOrds_append]; exact hA.fresh
  have hm : (freshOrds lost)[m]? = some e'.ord := by
    unfold freshOrds
    rw [List.getElem?_map, he']; rfl
  have hord' : e'.ord = (freshOrds kept).length + m := range_split_get hfo hm
  have hmem' : e' ∈ kept ++ lost :=
    List.mem_append.mpr (Or.inr (List.mem_of_mem_filter (List.mem_of_getElem? he')))
  refine ⟨by rw [hord, hord'], hord, ?_⟩
  intro j q' q hq' hq
  obtain ⟨a1, a2⟩ := hstr j q hq
  obtain ⟨b1, b2⟩ := hA.tagged e' hmem' j q' hq'
  rw [a1, a2, b1, b2, hord']
  exact ⟨rfl, rfl⟩

/-! ### the concrete crash: 2 workers, the job drawn after the first completion is lost; restart with 1 worker

Process 1 (fresh, seed 7, 2 workers): A = `[0-]` (ordinal 0), B = `[1+]` (ordinal 1), initiation closes — no file yet.
B completes REJECTED: `treat_output` writes the file (cstep 1, A on record with ordinal 0, counter 1 + 1 = 2), then
J = (`[1+]`, path 2) is drawn with ordinal 2: `(7, [2, 0])` / `(7, [2, 0, 0])`.  The process dies.
Process 2 (1 worker) is built from the file: counter 2; A re-issued (ordinal 0); initiation closes; A completes
REJECTED; the next job J' = (`[0+]`, path 1) gets ordinal 2: `(7, [2, 0])` / `(7, [2, 0, 0])` — the streams of J. -/

def okOrP (d : Proc) : Except Repex.Err Proc → Proc
  | .ok a => a
  | .error _ => d

def dk0 : Proc := { y := exSys, disk := none }
def dkE1 : Repex.Ev := .start { t := 0, e := 0 }
def dkE2 : Repex.Ev := .start { t := 2, e := 2 }
def dkE4 : Repex.Ev := .step 1 .rej [] { t := 2, e := 2 }
def dkE7 : Repex.Ev := .step 0 .rej [] { t := 1, e := 1 }
def dk1 : Proc := okOrP dk0 (stepD dk0 dkE1)
def dk2 : Proc := okOrP dk0 (stepD dk1 dkE2)
def dk3 : Proc := okOrP dk0 (stepD dk2 .initDone)
def dk4 : Proc := okOrP dk0 (stepD dk3 dkE4)
def dk5 : Proc := okOrP dk0 (restartFromDisk dk4 4 1 10 [[-1]] [[0], [0], [0]] cxW)
def dk6 : Proc := okOrP dk0 (stepD dk5 dkE1)
def dk7 : Proc := okOrP dk0 (stepD dk6 .initDone)
def dk8 : Proc := okOrP dk0 (stepD dk7 dkE7)

def dkLost3 : List Entry := (([] ++ ghost dk0.y [dkE1]) ++ ghost dk1.y [dkE2]) ++ ghost dk2.y [.initDone]
def dkKept4 : List Entry := [] ++ dkLost3
def dkLost4 : List Entry := ghost dk3.y [dkE4]
def dkLost7 : List Entry := ([] ++ ghost dk5.y [dkE1]) ++ ghost dk6.y [.initDone]
def dkLost8 : List Entry := ghost dk7.y [dkE7]

theorem dk_runs : stepD dk0 dkE1 = .ok dk1 ∧ stepD dk1 dkE2 = .ok dk2 ∧ stepD dk2 .initDone = .ok dk3 ∧
    stepD dk3 dkE4 = .ok dk4 ∧ restartFromDisk dk4 4 1 10 [[-1]] [[0], [0], [0]] cxW = .ok dk5 ∧
    stepD dk5 dkE1 = .ok dk6 ∧ stepD dk6 .initDone = .ok dk7 ∧ stepD dk7 dkE7 = .ok dk8 := by
  refine ⟨by decide +kernel, by decide +kernel, by decide +kernel, by decide +kernel, by decide +kernel,
    by decide +kernel, by decide +kernel, by decide +kernel⟩

theorem dk_chain4 : ChainDisk 7 dk4 dkKept4 dkLost4 := by
  obtain ⟨r1, r2, r3, r4, _⟩ := dk_runs
  obtain ⟨h1, h2, h3, _, _, _, h7, h8⟩ := ex_fresh.fields
  have c0 : ChainDisk 7 dk0 [] [] := ChainDisk.fresh h1 h2 h3 h7 h8
  exact ChainDisk.complete (ChainDisk.issue (ChainDisk.issue (ChainDisk.issue c0 rfl r1) rfl r2) rfl r3) r4

theorem dk_chain8 : ChainDisk 7 dk8 (dkKept4 ++ dkLost7) dkLost8 := by
  obtain ⟨_, _, _, _, r5, r6, r7, r8⟩ := dk_runs
  exact ChainDisk.complete (ChainDisk.issue (ChainDisk.issue (ChainDisk.crash dk_chain4 r5) rfl r6) rfl r7) r8

example : dk3.disk = none
    ∧ (dk4.disk.map (fun im => (im.cstep, im.locked, im.lockedOrd, im.spawnedRec))) = some (1, [([0], [0])], [0], none)
    ∧ dk4.y.s.locked = [([-1], [0]), ([1], [2])] ∧ dk4.y.s.lockedOrd = [0, 2] ∧ dk4.y.s.spawned = 3
    ∧ showLog dkKept4 = [⟨0, true, [(-1, [0, 0], [0, 0, 0])]⟩, ⟨1, true, [(1, [1, 0], [1, 0, 0])]⟩]
    ∧ showLog dkLost4 = [⟨2, true, [(1, [2, 0], [2, 0, 0])]⟩]
    ∧ dk5.y.s.spawned = 2 ∧ dk5.disk = dk4.disk
    ∧ showLog dkLost7 = [⟨0, false, [(-1, [0, 0], [0, 0, 0])]⟩]
    ∧ showLog dkLost8 = [⟨2, true, [(0, [2, 0], [2, 0, 0])]⟩]
    ∧ dkLost4.map (fun e => e.job.picked.map (fun q => (q.ens, q.pn))) = [[(1, 2)]]
    ∧ dkLost8.map (fun e => e.job.picked.map (fun q => (q.ens, q.pn))) = [[(0, 1)]] := by
  refine ⟨by decide +kernel, by decide +kernel, by decide +kernel, by decide +kernel, by decide +kernel,
    by decide +kernel, by decide +kernel, by decide +kernel, by decide +kernel, by decide +kernel,
    by decide +kernel, by decide +kernel, by decide +kernel⟩

/-! ## 9. The scheduler's Monte-Carlo draws (`self.prob → inf_retis → random_prob`)

`mcDims s` (Model/RepexDisk.lean, decision logic of C02's `Perm.infRetis`) = sizes of the idle blocks `self.prob`
sends to `random_prob` in state `s`; each costs `mcCalls k` generator calls on the scheduler's stream.  They are not
part of `mainDraws` / `Draw` (sections 5): the state machine uses the exact matrix. -/

/-- **`pick_draws_accounted_partial`** (guard: at most 12 idle slots — every simulation with at most 12 ensembles,
    `[0-]` included, and every state with that few unlocked ones).  Then no `self.prob` evaluation of the `pick()`
    requests anything (`pickMC`, `mcDims`), so the scheduler's stream advances by exactly the returned `Draw`
    requests.  Without the guard: `scheduler_draws_accounted_monte_carlo_counterexample`. -/
theorem pick_draws_accounted_partial (s s' : St) (o : PickOutcome) (ps : List Picked) (ds : List Draw)
    (hidle : idleCount s ≤ 12) (hp : pick s o = .ok (s', ps, ds)) :
    s'.mainDraws = s.mainDraws + ds.length ∧ DrawShape ds ∧ (∀ d ∈ pickMC s o, d = []) ∧ mcDims s = [] := by
  obtain ⟨_, hm, _, _, _, hsh, _⟩ := pick_issue hp
  exact ⟨hm, hsh, pickMC_nil_of_idle_le s o hidle, mcDims_nil_of_idle_le s hidle⟩

example : idleCount exS0 = 3 ∧ (match pick exS0 { t := 0, e := 0 } with
    | .ok (s', _, ds) => some (s'.mainDraws, ds.length) | .error _ => none) = some (2, 2) := by
  refine ⟨by decide +kernel, by decide +kernel⟩

/-- 15 ensembles (`[0-]` + 14 plus ensembles) + ghost, nothing locked; path `i ≥ 1` is valid in all plus ensembles
    with wire-fencing-like weights `1 + (i·(j+1) + j) mod 3` -/
def mcW : List (List Rat) :=
  (([1] ++ List.replicate 15 0) ::
    (List.range 14).map (fun i => (0 : Rat) :: ((List.range 14).map (fun j => (((1 + (i * (j + 1) + j) % 3 : Nat)) : Rat)) ++ [0])))
  ++ [List.replicate 16 0]

def mcS : St :=
  { blank 16 1 5 0 15 3 [[-1]] (List.replicate 15 [0]) false [] with
    W := mcW, locks := List.replicate 15 false ++ [true], trajs := (List.range 15).map some ++ [none] }

/-- the state after `pick()` has locked `[0+]` (slot 1) in `mcS` -/
def mcS2 : St := okOr mcS (lock (swap mcS 1 1) 1)

theorem argsort_zeros (k : Nat) (hk : k = 13 ∨ k = 14) :
    Perm.argsort (List.replicate k (0 : Int)) = List.range k := by
  rcases hk with rfl | rfl <;>
  · unfold Perm.argsort
    rw [List.mergeSort_of_pairwise (by decide)]
    decide

/-- **`scheduler_draws_accounted_monte_carlo_counterexample`** (the unguarded claim "the scheduler draws nothing
    else on its stream" is false of the code): with 15 idle slots and unequal weights `self.prob` sends a block of
    14 rows to `random_prob` (20 000 generator calls on `self.rgen`), and once `[0+]` is locked for the zero swap a
    block of 13 rows (40 000 calls) — on top of the 3 pick requests `mainDraws` counts.  Reproduced on the real
    code (tie class `c07_mc`). -/
theorem scheduler_draws_accounted_monte_carlo_counterexample :
    idleCount mcS = 15 ∧ mcDims mcS = [14] ∧ mcDims mcS2 = [13] ∧
    pickMC mcS { t := 1, e := 1, coin := true, partner := 0 } = [mcDims mcS, mcDims mcS2] ∧
    mcCalls 14 = 20000 ∧ mcCalls 13 = 40000 := by
  have h1 := (Perm.infRetis_of_argsorts mcS.W mcS.locks off [0] (List.replicate 14 0) [0] (List.range 14)
    (by decide +kernel) (by decide +kernel) (by decide +kernel) (argsort_zeros 14 (Or.inr rfl))).1
  have h2 := (Perm.infRetis_of_argsorts mcS2.W mcS2.locks off [0] (List.replicate 13 0) [0] (List.range 13)
    (by decide +kernel) (by decide +kernel) (by decide +kernel) (argsort_zeros 13 (Or.inl rfl))).1
  refine ⟨by decide +kernel, ?_, ?_, by rfl, by decide +kernel, by decide +kernel⟩
  · unfold mcDims; rw [h1]; decide +kernel
  · unfold mcDims; rw [h2]; decide +kernel

/-- non-vacuity of `lost_job_ordinal_reissued` on the concrete crash: the lost job J and the first fresh job of the
    new process have the same ordinal and streams and are different (ensemble, path) jobs -/
example : (dkLost4.filter (·.fresh)).length = 1 ∧
    ((ghost dk5.y [dkE1, .initDone, dkE7]).filter (·.fresh)).map (fun e => (e.ord, e.job.picked.map (fun q => (q.ens, q.pn, q.rgen))))
      = [(2, [(0, 1, ⟨7, [2, 0]⟩)])] ∧
    (dkLost4.filter (·.fresh)).map (fun e => (e.ord, e.job.picked.map (fun q => (q.ens, q.pn, q.rgen))))
      = [(2, [(1, 2, ⟨7, [2, 0]⟩)])] ∧
    dk5.y.s.spawned = (freshOrds dkKept4).length :=
  ⟨by decide +kernel, by decide +kernel, by decide +kernel,
    (lost_job_ordinal_reissued 7 dk4 dk5 dkKept4 dkLost4 dk_chain4 4 1 10 [[-1]] [[0], [0], [0]] cxW
      dk_runs.2.2.2.2.1 []).2.2.1⟩

/-! ## 10. TurtleMD: the seed is drawn for every integrator class, the constructor decides whether the MD runs -/

/-- **`tmd_propagate_spec`** (FULL).  `TurtleMDEngine._propagate_from`: without `engine.rgen` it raises (no draw);
    with it, for EVERY integrator class exactly one seed request `integers(0, 1e9)` is made on `engine.rgen` — the
    request `propagateDraws .turtlemd` (hence `runJob`) lists — and the integrator is built iff its class takes
    `seed=` (`LangevinInertia`); for the others the call raises TypeError after the draw: no further draw, no
    generator built. -/
theorem tmd_propagate_spec (i : TmdIntegrator) (s : Stream) :
    tmdPropagate i none = .noRgen ∧ propagateDraws .turtlemd none = .error .noRgen ∧
    propagateDraws .turtlemd (some s) = .ok [⟨.stream s, .seed 1000000000⟩] ∧
    (i.acceptsSeed = true → tmdPropagate i (some s) = .ran [⟨.stream s, .seed 1000000000⟩]) ∧
    (i.acceptsSeed = false → tmdPropagate i (some s) = .typeError [⟨.stream s, .seed 1000000000⟩]) := by
  refine ⟨rfl, rfl, rfl, fun h => ?_, fun h => ?_⟩ <;> simp [tmdPropagate, h]

example : tmdPropagate .velocityVerlet (some ⟨7, [1, 0, 0]⟩) = .typeError [⟨.stream ⟨7, [1, 0, 0]⟩, .seed 1000000000⟩] ∧
    tmdPropagate .langevinInertia (some ⟨7, [1, 0, 0]⟩) = .ran [⟨.stream ⟨7, [1, 0, 0]⟩, .seed 1000000000⟩] := by
  decide +kernel

end Infretis.C07
