import Infretis.Lemmas.RepexC07Clean
import Infretis.Lemmas.RepexC07AsIs
/-!
# C07 — every job gets its own random stream

Property theorems only.  Helper lemmas: `Infretis/Lemmas/RepexC07{Frame,Issue,Distinct,Count,Chain,Clean,AsIs}.lean`.
Model: `Infretis/Model/Repex.lean` (read-only here; tied to the real `REPEX_state` by
`harness/repex_tie.py` / `harness/props/c07.py`).

**What a stream is here.**  A random stream is identified by the value
`Stream = (entropy, key)` mirroring numpy's `SeedSequence(entropy, spawn_key)`.  The numpy fact
"different `(entropy, spawn_key)` ⇒ statistically independent streams, equal ⇒ identical streams" is
NOT modelled: all statements below are about stream *identity* as a `Stream` value.  The draws made
in-process on these streams by the moves and engines (shooting point, length bound, velocities,
integrator seeds) are covered by the engine-side packages (C09 / C16: every logged draw names the
job's stream) and by the tie's per-engine checks; this file decides the scheduler side.

**The issue log.**  `sysStepJ` is `sysStep` with a ghost output (the job an event issued and the draw
requests of its `pick()`); `sysStepJ_sys` proves it is `sysStep` on the state.  `issued y0 evs` =
the jobs issued along `evs` from `y0`, in issue order (it stops at the first event that raises, so
every theorem about `issued y0 evs` covers all histories, also those that end in an exception).

Quantifiers: every number of ensembles, workers, steps, every seed, every engine table, every
event list (every completion order, every accept/reject outcome, every outcome of the random
choices), every restart point (between events, or at the instant `treat_output` writes
`restart.toml`), with and without jobs in flight.

**Finding (reproduced on the real code, see the report).**  Across a CHAIN of restarts the property
fails when an earlier restart had jobs in flight: re-issued jobs consume new ordinals but stay
counted as in flight, so `set_rgen()`'s `cstep + len(locked)` undercounts at the next restart and
ordinals are re-used — `streams_pairwise_distinct_across_restarts_counterexample`.  One restart is
always fine (`restart_continues_ordinals`, `streams_pairwise_distinct_across_restart`), and so are
chains whose restart points have an exact in-flight record
(`streams_pairwise_distinct_across_restarts_partial`).
-/
namespace Infretis.C07
open Infretis.Repex

/-! ## Fresh starts -/

/-- `y0` is what `REPEX_state.__init__` + `load_paths` leave on a fresh start (not a restart) with
    configured seed `seed`: any size, workers, steps, engine table, initial paths; nothing in flight -/
def FreshStart (seed : Nat) (y0 : Sys) : Prop :=
  ∃ (n workers tsteps cstep trajNum : Nat) (occ : List (List Int)) (ensEng : List (List Nat))
    (locked0 : List (List Nat × List Nat)) (paths : List (Nat × List Rat × List Rat)),
    loadPaths (blank n workers tsteps cstep trajNum seed occ ensEng false locked0) paths = .ok y0.s ∧
    y0.jobs = []

theorem FreshStart.fields {seed : Nat} {y0 : Sys} (h : FreshStart seed y0) :
    y0.s.seed = seed ∧ y0.s.entropy = seed ∧ y0.s.spawned = 0 ∧ y0.s.mainDraws = 0 ∧
      y0.s.restarted = false ∧ y0.s.locked = [] := by
  obtain ⟨n, workers, tsteps, cstep, trajNum, occ, ensEng, locked0, paths, hl, _⟩ := h
  obtain ⟨q, ql⟩ := loadPaths_quiet hl
  exact ⟨q.seed, q.entropy, q.spawned, q.mainDraws, q.restarted, ql⟩

/-- a fresh start as the sampler is actually set up: `cstep = 0`, no restart record, `n − 1 ≥ 1`
    initial paths with pairwise distinct numbers below `traj_num` (the hypotheses of C03's
    `fresh_start_is_init`) -/
def WellFormedFresh (seed : Nat) (y0 : Sys) : Prop :=
  ∃ (n workers tsteps trajNum : Nat) (occ : List (List Int)) (ensEng : List (List Nat))
    (paths : List (Nat × List Rat × List Rat)),
    2 ≤ n ∧ paths.length = n - 1 ∧ (paths.map (·.1)).Nodup ∧ (∀ p ∈ paths, p.1 < trajNum) ∧
    loadPaths (blank n workers tsteps 0 trajNum seed occ ensEng false []) paths = .ok y0.s ∧
    y0.jobs = []

theorem WellFormedFresh.fresh {seed : Nat} {y0 : Sys} (h : WellFormedFresh seed y0) :
    FreshStart seed y0 := by
  obtain ⟨n, workers, tsteps, trajNum, occ, ensEng, paths, _, _, _, _, hl, hj⟩ := h
  exact ⟨n, workers, tsteps, 0, trajNum, occ, ensEng, [], paths, hl, hj⟩

theorem WellFormedFresh.inv {seed : Nat} {y0 : Sys} (h : WellFormedFresh seed y0) :
    Init y0 ∧ CountInv y0 := by
  obtain ⟨n, workers, tsteps, trajNum, occ, ensEng, paths, hn, hlen, hnd, hlt, hl, hj⟩ := h
  have hy : y0 = { s := y0.s, jobs := [] } := by
    cases y0; simp only at hj; subst hj; rfl
  rw [hy]
  exact ⟨init_of_loadPaths n workers tsteps 0 trajNum seed occ ensEng false paths y0.s hn hlen hnd hlt hl,
    countInv_of_loadPaths hl rfl rfl⟩

/-! ## A concrete system for the non-vacuity examples

3 ensembles `[0-] [0+] [1+]` + ghost, 2 workers, seed 7, one engine type with 2 instances.
`exEvs`: worker 0 starts a zero swap (two picked entries), worker 1 starts `[1+]`, initiation closes,
the zero swap completes ACCEPTED and worker 0 is given `[0-]`, then worker 1's job completes REJECTED
and worker 1 is given `[1+]`: four jobs issued. -/

def exBlank : St := blank 4 2 10 0 3 7 [[-1, -1]] [[0], [0], [0]] false []

def exPaths : List (Nat × List Rat × List Rat) :=
  [(0, [1], [0,0,0,0]), (1, [1,1,0], [0,0,0,0]), (2, [1,1,0], [0,0,0,0])]

def exS0 : St :=
  match loadPaths exBlank exPaths with
  | .ok s => s
  | .error _ => exBlank

def exSys : Sys := { s := exS0, jobs := [] }

def exEvs : List Ev :=
  [ .start { t := 0, e := 0, coin := true, partner := 1 },
    .start { t := 2, e := 2 },
    .initDone,
    .step 0 .acc [[1], [1, 1, 0]] { t := 0, e := 0, coin := false },
    .step 0 .rej [] { t := 2, e := 2 } ]

/-- weights recomputed from the stored paths at a restart (path 0 lives in `[0-]`) -/
def cxW (pn : Nat) : List Rat := if pn = 0 then [1] else [1, 1, 0]

def okOr {α : Type} (d : α) : Except Err α → α
  | .ok a => a
  | .error _ => d

theorem exS0_loaded : loadPaths exBlank exPaths = .ok exS0 := by decide +kernel

theorem ex_wellFormed : WellFormedFresh 7 exSys :=
  ⟨4, 2, 10, 3, [[-1, -1]], [[0], [0], [0]], exPaths, by decide, by decide, by decide, by decide,
    exS0_loaded, rfl⟩

theorem ex_fresh : FreshStart 7 exSys := ex_wellFormed.fresh

theorem ex_runs : ∃ y, run exSys exEvs = .ok y := ⟨okOr exSys (run exSys exEvs), by decide +kernel⟩

/-! ## 1. A job's streams are a function of the seed and the job's ordinal -/

/-- **`stream_function_of_seed_and_ordinal`.**  In every history from a fresh start with configured
    seed `seed`, the `k`-th job issued (`k = 0, 1, 2, …` in issue order over the whole history,
    whichever worker it goes to, whatever completed in between) has, for its `j`-th picked ensemble,
    the move stream `(seed, [k, j])` and the engine stream `(seed, [k, j, 0])`. -/
theorem stream_function_of_seed_and_ordinal (seed : Nat) (y0 : Sys) (h0 : FreshStart seed y0)
    (evs : List Ev) (k : Nat) (job : Job) (hk : (issued y0 evs)[k]? = some job)
    (j : Nat) (p : Picked) (hp : job.picked[j]? = some p) :
    p.rgen = { entropy := seed, key := [k, j] } ∧ p.rgenEng = { entropy := seed, key := [k, j, 0] } := by
  obtain ⟨_, h2, h3, _⟩ := h0.fields
  have := issued_streams evs y0 k job hk j p hp
  rw [h2, h3, Nat.zero_add] at this
  exact this

example : FreshStart 7 exSys ∧
    (issued exSys exEvs).map (fun job => job.picked.map (fun p => (p.ens, p.rgen.key, p.rgenEng.key)))
      = [[(-1, [0, 0], [0, 0, 0]), (0, [0, 1], [0, 1, 0])], [(1, [1, 0], [1, 0, 0])],
         [(-1, [2, 0], [2, 0, 0])], [(1, [3, 0], [3, 0, 0])]] :=
  ⟨ex_fresh, by decide +kernel⟩

/-- **the issue log is the scheduler's**: `sysStepJ` is `sysStep` on the state; after a history that
    runs, the spawn counter of the scheduler's seed sequence equals the number of jobs issued, its
    entropy is the seed, and every job in flight is one of the issued jobs. -/
theorem issue_log_faithful (seed : Nat) (y0 y : Sys) (h0 : FreshStart seed y0) (evs : List Ev)
    (hr : run y0 evs = .ok y) :
    (∀ (z : Sys) (ev : Ev), sysStep z ev =
        (match sysStepJ z ev with | .ok r => .ok r.1 | .error e => .error e)) ∧
    y.s.spawned = (issued y0 evs).length ∧ y.s.entropy = seed ∧ y.s.seed = seed ∧
    (∀ job ∈ y.jobs, job ∈ issued y0 evs) := by
  obtain ⟨h1, h2, h3, _⟩ := h0.fields
  obtain ⟨r1, r2, r3⟩ := run_spawned evs hr
  refine ⟨sysStepJ_sys, by rw [r3, h3, Nat.zero_add], r2.trans h2, r1.trans h1, ?_⟩
  intro job hj
  rcases jobs_subset_issued evs hr job hj with h | h
  · obtain ⟨_, _, _, _, _, _, _, _, _, _, hj0⟩ := h0
    rw [hj0] at h
    simp at h
  · exact h

example : (okOr exSys (run exSys exEvs)).s.spawned = 4 ∧ (issued exSys exEvs).length = 4
    ∧ (okOr exSys (run exSys exEvs)).jobs.length = 2 := by decide +kernel

/-! ## 2. All streams of a history are pairwise distinct -/

/-- **`streams_pairwise_distinct`.**  All move streams and all engine streams of all jobs issued in
    a history — concurrent or successive — are pairwise distinct `Stream` values.  (From ANY state
    `y0`, in particular from every fresh start; no hypothesis on `y0` is needed because the spawn
    counter only ever goes up within one process.) -/
theorem streams_pairwise_distinct (y0 : Sys) (evs : List Ev) : (allStreams (issued y0 evs)).Nodup :=
  (issued_streams evs y0).nodup

example : (allStreams (issued exSys exEvs)).length = 10 ∧ (allStreams (issued exSys exEvs)).Nodup :=
  ⟨by decide +kernel, streams_pairwise_distinct exSys exEvs⟩

/-! ## 3. No job stream is the scheduler's own stream -/

/-- **`streams_ne_scheduler`.**  No stream handed to a job has the empty spawn key; hence none is the
    scheduler's own stream `mainStream s = (entropy, [])` of any state `s` (again from any `y0`). -/
theorem streams_ne_scheduler (y0 : Sys) (evs : List Ev) (x : Stream)
    (hx : x ∈ allStreams (issued y0 evs)) : x.key ≠ [] ∧ ∀ s : St, x ≠ mainStream s := by
  have hne := (issued_streams evs y0).key_ne_nil hx
  exact ⟨hne, fun s hxs => hne (by rw [hxs]; rfl)⟩

example : mainStream (okOr exSys (run exSys exEvs)).s = { entropy := 7, key := [] }
    ∧ mainStream (okOr exSys (run exSys exEvs)).s ∉ allStreams (issued exSys exEvs) := by decide +kernel

/-! ## 4. Restarts -/

/-- **`inflight_record_exact`** (the counting invariant behind `set_rgen()`): at every instant of a
    history from a fresh start, `locked` lists exactly the jobs in flight (one record per job, in
    order, with the job's path numbers) and
    `jobs issued = completed steps + jobs in flight = cstep + len(locked)`. -/
theorem inflight_record_exact (seed : Nat) (y0 y : Sys) (h0 : WellFormedFresh seed y0)
    (evs : List Ev) (hr : run y0 evs = .ok y) :
    y.s.locked.map (·.2) = y.jobs.map jobPns ∧ y.s.locked.length = y.jobs.length ∧
      (issued y0 evs).length = y.s.cstep + y.s.locked.length ∧
      y.s.spawned = y.s.cstep + y.s.locked.length := by
  obtain ⟨hi, hc⟩ := h0.inv
  obtain ⟨_, hc'⟩ := run_count evs hi.inv hc hr
  obtain ⟨_, _, h3, _⟩ := h0.fresh.fields
  obtain ⟨_, _, r3⟩ := run_spawned evs hr
  refine ⟨hc'.lockedPns, hc'.len, ?_, hc'.count⟩
  rw [← hc'.count, r3, h3, Nat.zero_add]

/-- the same at the instant the code writes `restart.toml` (inside `treat_output` of the completing
    job `k`, before the next job is drawn): the completed job's record is gone, and only it -/
theorem inflight_record_exact_at_write (seed : Nat) (y0 y : Sys) (h0 : WellFormedFresh seed y0)
    (evs : List Ev) (hr : run y0 evs = .ok y) (k : Nat) (status : Status) (newW : List (List Rat))
    (s2 : St) (hm : midState y k status newW = .ok s2) :
    s2.locked = y.s.locked.eraseIdx k ∧ s2.spawned = s2.cstep + s2.locked.length ∧
      (issued y0 evs).length = s2.cstep + s2.locked.length := by
  obtain ⟨hi, hc⟩ := h0.inv
  obtain ⟨hi', hc'⟩ := run_count evs hi.inv hc hr
  obtain ⟨m1, m2, _, _, m5, _⟩ := midState_count hi' hc' hm
  obtain ⟨_, _, h3, _⟩ := h0.fresh.fields
  obtain ⟨_, _, r3⟩ := run_spawned evs hr
  refine ⟨m1, m2, ?_⟩
  rw [← m2, m5, r3, h3, Nat.zero_add]

example : (okOr exSys (run exSys exEvs)).s.cstep = 2
    ∧ (okOr exSys (run exSys exEvs)).s.locked = [([-1], [3]), ([1], [2])] := by decide +kernel

/-- a restart of a fresh-start history (between two events) is a chain with an exact record -/
theorem chain_of_restart (seed : Nat) (y0 y : Sys) (h0 : WellFormedFresh seed y0) (evs : List Ev)
    (hr : run y0 evs = .ok y) (n workers tsteps : Nat) (occ : List (List Int))
    (ensEng : List (List Nat)) (weightOf : Nat → List Rat) (s' : St)
    (hre : restore (persist y.s) n workers tsteps occ ensEng weightOf = .ok s') :
    ChainReach seed { s := s', jobs := [] } (issued y0 evs) := by
  obtain ⟨h1, h2, h3, _⟩ := h0.fresh.fields
  have hy0 : y0 = { s := y0.s, jobs := [] } := by
    obtain ⟨_, _, _, _, _, _, _, _, _, _, _, _, hj⟩ := h0
    cases y0; simp only at hj; subst hj; rfl
  have c0 : ChainReach seed y0 [] := by rw [hy0]; exact ChainReach.fresh h1 h2 h3
  have c1 := ChainReach.run c0 hr
  rw [List.nil_append] at c1
  exact ChainReach.restart c1 (inflight_record_exact seed y0 y h0 evs hr).2.2.2 hre

/-- the same for a restart from the file written inside `treat_output` -/
theorem chain_of_restart_at_write (seed : Nat) (y0 y : Sys) (h0 : WellFormedFresh seed y0)
    (evs : List Ev) (hr : run y0 evs = .ok y) (k : Nat) (status : Status) (newW : List (List Rat))
    (s2 : St) (hm : midState y k status newW = .ok s2) (n workers tsteps : Nat)
    (occ : List (List Int)) (ensEng : List (List Nat)) (weightOf : Nat → List Rat) (s' : St)
    (hre : restore (persist s2) n workers tsteps occ ensEng weightOf = .ok s') :
    ChainReach seed { s := s', jobs := [] } (issued y0 evs) := by
  obtain ⟨h1, h2, h3, _⟩ := h0.fresh.fields
  have hy0 : y0 = { s := y0.s, jobs := [] } := by
    obtain ⟨_, _, _, _, _, _, _, _, _, _, _, _, hj⟩ := h0
    cases y0; simp only at hj; subst hj; rfl
  have c0 : ChainReach seed y0 [] := by rw [hy0]; exact ChainReach.fresh h1 h2 h3
  have c1 := ChainReach.run c0 hr
  rw [List.nil_append] at c1
  exact ChainReach.restartMid c1 hm
    (inflight_record_exact_at_write seed y0 y h0 evs hr k status newW s2 hm).2.1 hre

/-- **`restart_continues_ordinals`.**  Stop a fresh-start history at any instant (any number `J` of
    jobs issued, any number of them in flight — also none), restart from the image with ANY number
    of workers / steps / engine table: in every continuation the `m`-th job issued after the restart
    (re-issued or new) has the streams `(seed, [J + m, j])` / `(seed, [J + m, j, 0])`.
    Re-issued jobs get NEW ordinals `J, J+1, …`, not their pre-restart streams: "a function of the
    seed and the job's ordinal" holds with the ordinal counted over the whole chain. -/
theorem restart_continues_ordinals (seed : Nat) (y0 y : Sys) (h0 : WellFormedFresh seed y0)
    (evs : List Ev) (hr : run y0 evs = .ok y) (n workers tsteps : Nat) (occ : List (List Int))
    (ensEng : List (List Nat)) (weightOf : Nat → List Rat) (s' : St)
    (hre : restore (persist y.s) n workers tsteps occ ensEng weightOf = .ok s')
    (evs' : List Ev) (m : Nat) (job : Job)
    (hm : (issued { s := s', jobs := [] } evs')[m]? = some job)
    (j : Nat) (p : Picked) (hp : job.picked[j]? = some p) :
    p.rgen = { entropy := seed, key := [(issued y0 evs).length + m, j] } ∧
      p.rgenEng = { entropy := seed, key := [(issued y0 evs).length + m, j, 0] } := by
  obtain ⟨_, c2, c3, _⟩ := (chain_of_restart seed y0 y h0 evs hr n workers tsteps occ ensEng weightOf s' hre).streams
  have := issued_streams evs' { s := s', jobs := [] } m job hm j p hp
  rw [c2, c3] at this
  exact this

/-- the same for a restart from the file written inside `treat_output` (where the code writes it) -/
theorem restart_at_write_continues_ordinals (seed : Nat) (y0 y : Sys) (h0 : WellFormedFresh seed y0)
    (evs : List Ev) (hr : run y0 evs = .ok y) (k : Nat) (status : Status) (newW : List (List Rat))
    (s2 : St) (hmid : midState y k status newW = .ok s2) (n workers tsteps : Nat)
    (occ : List (List Int)) (ensEng : List (List Nat)) (weightOf : Nat → List Rat) (s' : St)
    (hre : restore (persist s2) n workers tsteps occ ensEng weightOf = .ok s')
    (evs' : List Ev) (m : Nat) (job : Job)
    (hm : (issued { s := s', jobs := [] } evs')[m]? = some job)
    (j : Nat) (p : Picked) (hp : job.picked[j]? = some p) :
    p.rgen = { entropy := seed, key := [(issued y0 evs).length + m, j] } ∧
      p.rgenEng = { entropy := seed, key := [(issued y0 evs).length + m, j, 0] } := by
  obtain ⟨_, c2, c3, _⟩ := (chain_of_restart_at_write seed y0 y h0 evs hr k status newW s2 hmid n workers
    tsteps occ ensEng weightOf s' hre).streams
  have := issued_streams evs' { s := s', jobs := [] } m job hm j p hp
  rw [c2, c3] at this
  exact this

/-- **`streams_pairwise_distinct_across_restarts_partial`.**  Over a chain of any number of restarts
    in which every restart image is taken from a state with an exact in-flight record
    (`spawned = cstep + len(locked)`: the guard of `ChainReach.restart` / `.restartMid`), the `k`-th
    job issued over the whole chain has the streams `(seed, [k, j])` / `(seed, [k, j, 0])`, all
    streams of all jobs of all segments are pairwise distinct, and none is the scheduler's.
    The guard holds at every instant of a segment that starts with an exact record and nothing to
    re-issue (`exact_record_kept`): a fresh start, or a restart without jobs in flight.
    It is `_partial` because after a restart WITH jobs in flight the guard fails
    (`streams_pairwise_distinct_across_restarts_counterexample`). -/
theorem streams_pairwise_distinct_across_restarts_partial (seed : Nat) (y : Sys) (js : List Job)
    (h : ChainReach seed y js) :
    (∀ (k : Nat) (job : Job), js[k]? = some job → ∀ (j : Nat) (p : Picked), job.picked[j]? = some p →
        p.rgen = { entropy := seed, key := [k, j] } ∧ p.rgenEng = { entropy := seed, key := [k, j, 0] }) ∧
    (allStreams js).Nodup ∧ (∀ x ∈ allStreams js, x.key ≠ [] ∧ ∀ s : St, x ≠ mainStream s) ∧
    y.s.entropy = seed ∧ y.s.spawned = js.length := by
  obtain ⟨_, c2, c3, c4⟩ := h.streams
  refine ⟨?_, c4.nodup, ?_, c2, c3⟩
  · intro k job hk j p hp
    have := c4 k job hk j p hp
    rw [Nat.zero_add] at this
    exact this
  · intro x hx
    have hne := c4.key_ne_nil hx
    exact ⟨hne, fun s hxs => hne (by rw [hxs]; rfl)⟩

/-- **`streams_pairwise_distinct_across_restart`** (one restart, full).  All streams of all jobs
    issued before the restart and after it — for every number of workers before and after, with
    and without jobs in flight at the stop — are pairwise distinct, and none is the scheduler's. -/
theorem streams_pairwise_distinct_across_restart (seed : Nat) (y0 y : Sys) (h0 : WellFormedFresh seed y0)
    (evs : List Ev) (hr : run y0 evs = .ok y) (n workers tsteps : Nat) (occ : List (List Int))
    (ensEng : List (List Nat)) (weightOf : Nat → List Rat) (s' : St)
    (hre : restore (persist y.s) n workers tsteps occ ensEng weightOf = .ok s')
    (evs' : List Ev) (y' : Sys) (hr' : run { s := s', jobs := [] } evs' = .ok y') :
    (allStreams (issued y0 evs ++ issued { s := s', jobs := [] } evs')).Nodup ∧
      ∀ x ∈ allStreams (issued y0 evs ++ issued { s := s', jobs := [] } evs'), ∀ s : St, x ≠ mainStream s := by
  have c := ChainReach.run
    (chain_of_restart seed y0 y h0 evs hr n workers tsteps occ ensEng weightOf s' hre) hr'
  obtain ⟨_, h2, h3, _⟩ := streams_pairwise_distinct_across_restarts_partial seed _ _ c
  exact ⟨h2, fun x hx => (h3 x hx).2⟩

/-- the same for a restart from the file written inside `treat_output` -/
theorem streams_pairwise_distinct_across_restart_at_write (seed : Nat) (y0 y : Sys)
    (h0 : WellFormedFresh seed y0) (evs : List Ev) (hr : run y0 evs = .ok y) (k : Nat)
    (status : Status) (newW : List (List Rat)) (s2 : St) (hmid : midState y k status newW = .ok s2)
    (n workers tsteps : Nat) (occ : List (List Int)) (ensEng : List (List Nat))
    (weightOf : Nat → List Rat) (s' : St)
    (hre : restore (persist s2) n workers tsteps occ ensEng weightOf = .ok s')
    (evs' : List Ev) (y' : Sys) (hr' : run { s := s', jobs := [] } evs' = .ok y') :
    (allStreams (issued y0 evs ++ issued { s := s', jobs := [] } evs')).Nodup ∧
      ∀ x ∈ allStreams (issued y0 evs ++ issued { s := s', jobs := [] } evs'), ∀ s : St, x ≠ mainStream s := by
  have c := ChainReach.run
    (chain_of_restart_at_write seed y0 y h0 evs hr k status newW s2 hmid n workers tsteps occ ensEng
      weightOf s' hre) hr'
  obtain ⟨_, h2, h3, _⟩ := streams_pairwise_distinct_across_restarts_partial seed _ _ c
  exact ⟨h2, fun x hx => (h3 x hx).2⟩

/-- **`exact_record_kept`**: the guard of the chain theorem holds at every instant (between events
    and at the write of the restart file) of a segment that starts in a state satisfying C03's `Init`
    with nothing on record and `spawned = cstep` — a fresh start (`cstep = 0`), or a restart whose
    image had no job in flight (`spawned = cstep + 0`). -/
theorem exact_record_kept (y1 y : Sys) (hi : Init y1) (hl : y1.s.locked = [])
    (hj : y1.jobs = []) (hs : y1.s.spawned = y1.s.cstep) (evs : List Ev) (hr : run y1 evs = .ok y) :
    y.s.spawned = y.s.cstep + y.s.locked.length ∧
    ∀ k status newW s2, midState y k status newW = .ok s2 → s2.spawned = s2.cstep + s2.locked.length := by
  have hc : CountInv y1 := ⟨by rw [hl, hj]; rfl, by rw [hs, hl]; rfl⟩
  obtain ⟨hi', hc'⟩ := run_count evs hi.inv hc hr
  exact ⟨hc'.count, fun k status newW s2 hm => (midState_count hi' hc' hm).2.1⟩

/-- **`clean_restart_starts_exact`**: closes the loop for chains of restarts without jobs in flight
    (in particular every single-worker chain restarted from the files the code writes, where the one
    job has just completed).  In a segment that started exact (`Init`, nothing on record,
    `spawned = cstep`), a restart image taken — between events or at the write inside `treat_output` —
    from a state with no job on record rebuilds (same number of ensembles, any workers / steps /
    engine table / recomputed weights) a state that again satisfies `Init`, has nothing on record and
    `spawned = cstep`; by `exact_record_kept` the next segment keeps the guard, and so on. -/
theorem clean_restart_starts_exact (y1 y : Sys) (hi : Init y1) (hl : y1.s.locked = [])
    (hs : y1.s.spawned = y1.s.cstep) (evs : List Ev) (hr : run y1 evs = .ok y) :
    (∀ (workers tsteps : Nat) (occ : List (List Int)) (ensEng : List (List Nat))
        (weightOf : Nat → List Rat) (s' : St), y.s.locked = [] →
        restore (persist y.s) y.s.n workers tsteps occ ensEng weightOf = .ok s' →
        Init { s := s', jobs := [] } ∧ s'.locked = [] ∧ s'.spawned = s'.cstep) ∧
    (∀ (k : Nat) (status : Status) (newW : List (List Rat)) (s2 : St) (workers tsteps : Nat)
        (occ : List (List Int)) (ensEng : List (List Nat)) (weightOf : Nat → List Rat) (s' : St),
        midState y k status newW = .ok s2 → s2.locked = [] →
        restore (persist s2) s2.n workers tsteps occ ensEng weightOf = .ok s' →
        Init { s := s', jobs := [] } ∧ s'.locked = [] ∧ s'.spawned = s'.cstep) := by
  have hc : CountInv y1 := ⟨by rw [hl, hi.jobs]; rfl, by rw [hs, hl]; rfl⟩
  obtain ⟨hi', _⟩ := run_count evs hi.inv hc hr
  constructor
  · intro workers tsteps occ ensEng weightOf s' hl' hre
    exact clean_restart_is_init hi'.core hl' hre
  · intro k status newW s2 workers tsteps occ ensEng weightOf s' hm hl' hre
    exact clean_restart_is_init (midState_core hi' hm) hl' hre

/-- non-vacuity: one worker; the job completes; the file written at that instant has no job on record -/
def ex1Sys : Sys :=
  { s := okOr exBlank (loadPaths (blank 4 1 10 0 3 7 [[-1]] [[0], [0], [0]] false []) exPaths), jobs := [] }

def ex1Y : Sys := okOr ex1Sys (run ex1Sys [.start { t := 0, e := 0 }, .initDone])
def ex1Mid : St := okOr exS0 (midState ex1Y 0 .rej [])
def ex1S' : St := okOr exS0 (restore (persist ex1Mid) ex1Mid.n 1 10 [[-1]] [[0], [0], [0]] cxW)

example : Init ex1Sys ∧ ex1Sys.s.locked = [] ∧ ex1Sys.s.spawned = ex1Sys.s.cstep
    ∧ run ex1Sys [.start { t := 0, e := 0 }, .initDone] = .ok ex1Y
    ∧ midState ex1Y 0 .rej [] = .ok ex1Mid ∧ ex1Mid.locked = [] ∧ ex1Mid.cstep = 1 ∧ ex1Mid.spawned = 1
    ∧ restore (persist ex1Mid) ex1Mid.n 1 10 [[-1]] [[0], [0], [0]] cxW = .ok ex1S' ∧ ex1S'.spawned = 1 := by
  refine ⟨?_, by decide +kernel, by decide +kernel, by decide +kernel, by decide +kernel,
    by decide +kernel, by decide +kernel, by decide +kernel, by decide +kernel, by decide +kernel⟩
  exact init_of_loadPaths 4 1 10 0 3 7 [[-1]] [[0], [0], [0]] false exPaths _ (by decide) (by decide)
    (by decide) (by decide) (by decide +kernel)

/-! ### concrete chain: fresh start, stop, restart with a job in flight, stop, restart

Segment 1 (fresh, seed 7, 2 workers): job A (`[0-]`, ordinal 0), job B (`[1+]`, ordinal 1),
initiation closes, B completes REJECTED; the restart file written at that instant records A in flight.
Segment 2 (restart 1): A is re-issued (ordinal 2), a new job B' on `[1+]` is drawn (ordinal 3),
initiation closes, B' completes REJECTED; the restart file records A in flight, `cstep = 2`.
Segment 3 (restart 2): the counter is restored as `2 + 1 = 3`, so re-issued A gets ordinal 3 —
the streams of the completed job B'. -/

def cxEvs : List Ev := [ .start { t := 0, e := 0 }, .start { t := 2, e := 2 }, .initDone ]

def cx1 : Sys := okOr exSys (run exSys cxEvs)
def cxMid1 : St := okOr exS0 (midState cx1 1 .rej [])
def cxS2 : St := okOr exS0 (restore (persist cxMid1) 4 2 10 [[-1, -1]] [[0], [0], [0]] cxW)
def cx2 : Sys := okOr exSys (run { s := cxS2, jobs := [] } cxEvs)
def cxMid2 : St := okOr exS0 (midState cx2 1 .rej [])
def cxS3 : St := okOr exS0 (restore (persist cxMid2) 4 2 10 [[-1, -1]] [[0], [0], [0]] cxW)
def cxEvs3 : List Ev := [ .start { t := 0, e := 0 } ]

theorem cx_runs : run exSys cxEvs = .ok cx1 ∧ midState cx1 1 .rej [] = .ok cxMid1 ∧
    restore (persist cxMid1) 4 2 10 [[-1, -1]] [[0], [0], [0]] cxW = .ok cxS2 ∧
    run { s := cxS2, jobs := [] } cxEvs = .ok cx2 ∧ midState cx2 1 .rej [] = .ok cxMid2 ∧
    restore (persist cxMid2) 4 2 10 [[-1, -1]] [[0], [0], [0]] cxW = .ok cxS3 ∧
    (∃ y3, run { s := cxS3, jobs := [] } cxEvs3 = .ok y3) := by
  refine ⟨by decide +kernel, by decide +kernel, by decide +kernel, by decide +kernel, by decide +kernel,
    by decide +kernel, ⟨okOr exSys (run { s := cxS3, jobs := [] } cxEvs3), by decide +kernel⟩⟩

/-- non-vacuity of the one-restart theorems: segment 2 continues at ordinal 2 with one job in flight
    at the stop (and the record of the stop is exact: `2 = 1 + 1`) -/
example : WellFormedFresh 7 exSys ∧ run exSys cxEvs = .ok cx1 ∧ midState cx1 1 .rej [] = .ok cxMid1
    ∧ restore (persist cxMid1) 4 2 10 [[-1, -1]] [[0], [0], [0]] cxW = .ok cxS2
    ∧ (issued exSys cxEvs).length = 2 ∧ cxMid1.cstep = 1 ∧ cxMid1.locked = [([-1], [0])]
    ∧ cxS2.spawned = 2 ∧ cxS2.locked0 = [([0], [0])]
    ∧ (issued { s := cxS2, jobs := [] } cxEvs).map (fun job => job.picked.map (fun p => (p.ens, p.rgen.key)))
        = [[(-1, [2, 0])], [(1, [3, 0])]] :=
  ⟨ex_wellFormed, cx_runs.1, cx_runs.2.1, cx_runs.2.2.1, by decide +kernel, by decide +kernel,
    by decide +kernel, by decide +kernel, by decide +kernel, by decide +kernel⟩

/-- non-vacuity of the chain theorem: the chain fresh → run → restart (at the write) → run -/
example : ChainReach 7 cx2 (issued exSys cxEvs ++ issued { s := cxS2, jobs := [] } cxEvs) :=
  ChainReach.run
    (chain_of_restart_at_write 7 exSys cx1 ex_wellFormed cxEvs cx_runs.1 1 .rej [] cxMid1 cx_runs.2.1
      4 2 10 [[-1, -1]] [[0], [0], [0]] cxW cxS2 cx_runs.2.2.1)
    cx_runs.2.2.2.1

/-- **`streams_pairwise_distinct_across_restarts_counterexample`** (the code as it is, HEAD of /repo;
    reproduced on the real `REPEX_state`).  On the concrete two-restart chain above, in which the
    first restart had one job in flight: at the second stop the record is NOT exact
    (`spawned = 4` but `cstep + len(locked) = 2 + 1`), the second restart restores the counter 3, and
    the job re-issued in segment 3 (`[0-]`) receives the move stream `(7, [3, 0])` and the engine
    stream `(7, [3, 0, 0])` that the job B' on `[1+]`, completed in segment 2, had: the streams of
    the chain are not pairwise distinct, and the ordinal of the chain's 5th job is 3, not 4. -/
theorem streams_pairwise_distinct_across_restarts_counterexample :
    cxMid2.spawned = 4 ∧ cxMid2.cstep + cxMid2.locked.length = 3 ∧ cxS3.spawned = 3 ∧
    (issued { s := cxS2, jobs := [] } cxEvs).map (fun job => job.picked.map (fun p => (p.ens, p.rgen, p.rgenEng)))
      = [[(-1, ⟨7, [2, 0]⟩, ⟨7, [2, 0, 0]⟩)], [(1, ⟨7, [3, 0]⟩, ⟨7, [3, 0, 0]⟩)]] ∧
    (issued { s := cxS3, jobs := [] } cxEvs3).map (fun job => job.picked.map (fun p => (p.ens, p.rgen, p.rgenEng)))
      = [[(-1, ⟨7, [3, 0]⟩, ⟨7, [3, 0, 0]⟩)]] ∧
    ¬ (allStreams (issued exSys cxEvs ++ issued { s := cxS2, jobs := [] } cxEvs ++
        issued { s := cxS3, jobs := [] } cxEvs3)).Nodup := by
  refine ⟨by decide +kernel, by decide +kernel, by decide +kernel, by decide +kernel, by decide +kernel,
    by decide +kernel⟩

/-! ## 5. The scheduler's own draws -/

/-- **`scheduler_draws_accounted`** (scheduler side of "all draws come from the right stream").
    In every history from a fresh start the position of the scheduler's stream advances by exactly
    the draw requests returned by the `pick()`s (`Draw.choiceAll`, then possibly `.coin`, then
    possibly `.choiceCol` — the only request forms there are, none of which names a job stream):
    the scheduler draws nothing else on its stream, and `treat_output`, `loop`, `initiate`,
    the engine assignment never draw.  Each job's group of requests has one of the three shapes. -/
theorem scheduler_draws_accounted (seed : Nat) (y0 y : Sys) (h0 : FreshStart seed y0) (evs : List Ev)
    (hr : run y0 evs = .ok y) :
    y.s.mainDraws = (schedDraws y0 evs).length ∧
    ∀ jd ∈ ghost y0 evs, jd.2 = [] ∨ DrawShape jd.2 := by
  obtain ⟨_, _, _, h4, h5, _⟩ := h0.fields
  obtain ⟨_, hm⟩ := run_mainDraws evs hr (Or.inl h5)
  exact ⟨by rw [hm, h4, Nat.zero_add], ghost_drawShape evs y0 (Or.inl h5)⟩

example : (okOr exSys (run exSys exEvs)).s.mainDraws = 7 ∧ (schedDraws exSys exEvs).length = 7
    ∧ (ghost exSys exEvs).map (fun jd => jd.2.length) = [3, 1, 2, 1] := by decide +kernel

/-- after a restart: the first fresh `pick_lock()` resumes the scheduler stream at the position saved
    in the restart file (once), re-issued jobs draw nothing -/
theorem scheduler_draws_after_restart (s s' : St) (o : PickOutcome) (d : Nat) (ps : List Picked)
    (ds : List Draw) (hp : pickLock s o d = .ok (s', ps, ds)) :
    (s.locked0 ≠ [] → ds = []) ∧
    (s.locked0 = [] → s.restarted = true → s.rgenRestored = false →
      s'.mainDraws = d + ds.length ∧ s'.rgenRestored = true ∨ s'.restarted = false) := by
  constructor
  · intro hne
    unfold pickLock at hp
    split at hp
    · rename_i h; exact absurd h hne
    · split at hp
      · exact absurd hp (by simp)
      split at hp
      · exact absurd hp (by simp)
      simp only [Except.ok.injEq, Prod.mk.injEq] at hp
      exact hp.2.2.symm
  · intro h0 hr hn
    obtain ⟨h1, h2⟩ := pickLock_draws_restored hp h0 hr hn
    rcases h2 with h2 | h2
    · exact Or.inr h2
    · exact Or.inl ⟨h1, h2⟩

/-! ## 6. Historical record: the restart path before the repairs 96833bd / ec057e1 -/

/-- a concrete restarted 2-worker state as the pre-fix `__init__` left it: `cstep = 2`, seed 1,
    `set_rgen()` applied (entropy 0, counter 2) -/
def asIsS : St :=
  setRgenAsIs (okOr exBlank (loadPaths (blank 4 2 10 2 3 1 [[-1, -1]] [[0], [0], [0]] true []) exPaths)) 0

/-- the picked entries of two consecutive calls of a `pick_lock` variant `f` -/
def twoPicks (f : St → PickOutcome → Nat → Except Err (St × List Picked × List Draw)) (s : St)
    (o1 o2 : PickOutcome) : Option (List Picked × List Picked) :=
  match f s o1 0 with
  | .error _ => none
  | .ok (s1, ps1, _) =>
    match f s1 o2 0 with
    | .error _ => none
    | .ok (_, ps2, _) => some (ps1, ps2)

def showPicked (ps : List Picked) : List (Int × Stream × Stream) := ps.map (fun p => (p.ens, p.rgen, p.rgenEng))

/-- **`streams_collide_asIs_counterexample`** (pre-fix behaviour, kept as a record; fixed by ec057e1).
    After a restart at `cstep = 2` with two workers, the two concurrent jobs started by the two
    `pick_lock()` calls both got the move stream `(0, [2, 0])` and the engine stream `(0, [2, 0, 0])`.
    (`pickLockAsIs_collide` proves the collision for every state, not only this one.) -/
theorem streams_collide_asIs_counterexample :
    (twoPicks pickLockAsIs asIsS { t := 0, e := 0 } { t := 2, e := 2 }).map
        (fun r => (showPicked r.1, showPicked r.2))
      = some ([(-1, ⟨0, [2, 0]⟩, ⟨0, [2, 0, 0]⟩)], [(1, ⟨0, [2, 0]⟩, ⟨0, [2, 0, 0]⟩)]) := by
  decide +kernel

/-- **`entropy_not_seed_asIs_counterexample`** (pre-fix; fixed by 96833bd): with configured seed 1
    the job streams after a restart carried entropy 0 — not a function of the seed. -/
theorem entropy_not_seed_asIs_counterexample :
    asIsS.seed = 1 ∧
    (twoPicks pickLockAsIs asIsS { t := 0, e := 0 } { t := 2, e := 2 }).map
        (fun r => (r.1.map (fun p => p.rgen.entropy), r.2.map (fun p => p.rgen.entropy)))
      = some ([0], [0]) := by
  decide +kernel

/-- the collision for every state (`Infretis.Repex.pickLockAsIs_collide`), restated here -/
theorem streams_collide_asIs (s s1 s2 : St) (o1 o2 : PickOutcome) (d1 d2 : Nat)
    (ps1 ps2 : List Picked) (ds1 ds2 : List Draw) (h0 : s.locked0 = []) (hr : s.restarted = true)
    (hp1 : pickLockAsIs s o1 d1 = .ok (s1, ps1, ds1))
    (hp2 : pickLockAsIs s1 o2 d2 = .ok (s2, ps2, ds2)) :
    ∀ (j : Nat) (p q : Picked), ps1[j]? = some p → ps2[j]? = some q →
      p.rgen = q.rgen ∧ p.rgenEng = q.rgenEng :=
  pickLockAsIs_collide h0 hr hp1 hp2

/-- the repaired `pick_lock()` on the same situation (seed 1, restart at `cstep = 2`, nothing in
    flight): ordinals continue at `cstep + #in flight = 2`, then 3, with the configured seed -/
example :
    (twoPicks pickLock (okOr exBlank (loadPaths (blank 4 2 10 2 3 1 [[-1, -1]] [[0], [0], [0]] true []) exPaths))
        { t := 0, e := 0 } { t := 2, e := 2 }).map (fun r => (showPicked r.1, showPicked r.2))
      = some ([(-1, ⟨1, [2, 0]⟩, ⟨1, [2, 0, 0]⟩)], [(1, ⟨1, [3, 0]⟩, ⟨1, [3, 0, 0]⟩)]) := by
  decide +kernel

end Infretis.C07
