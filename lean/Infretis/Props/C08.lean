import Infretis.Lemmas.FsCheck
/-!
# C08 — a crash at any point leaves a restartable, consistent state

Model: `Infretis/Model/Fs.lean` (effect list of one step of `treat_output` / `write_toml`, crash =
prefix of the effect list + optional half-written effect, `restartOutcome` = `setup_config` +
`setup_internal`).  Helper lemmas: `Infretis/Lemmas/Fs*.lean`.

All theorems are for EVERY consistent state (`Inv`), EVERY step outcome (`WF`: any number of
accepted ensembles ≤ n-1, any number of trajectory files, delete_old on/off/all, any queue of
old paths), EVERY crash point `(k, half)`.

The model mirrors the code as it is NOW (after the fix commits ba0d066, 05f8082, e7b75fb); the
switches `Variant.asIs` and `cleanOnRestart := false` keep the historical behaviour as a record:

* `write_toml` (temp file + os.replace): the restart starts at EVERY crash point — `crash_restartable`.
  Historical truncation in place: exactly one effect index per step (both sub-states) left no
  restartable state — `crash_in_window_raises`, `crash_restartable_counterexample`,
  `crash_restartable_partial`.
* the data row still is appended before the restart file is rewritten, but a restart's
  `clean_data_file` drops rows of still active paths and a torn last row: at EVERY crash point the
  restored state satisfies the full invariant (`crash_restore_inv`) and rows stay whole, unique and
  disjoint from the live set for every continuation with arbitrary further crashes + restarts
  (`continue_rows_unique`).  Historical restart without cleaning: `continue_rows_unique_counterexample`,
  `crash_restore_inv_partial`, `continue_rows_unique_partial`.
* delete_old_all removes every leftover entry of `accepted/` before the rmdir, so stale files of an
  interrupted and redone store no longer break it: `delete_block_rmdir_safe` (+ concrete example).
-/
namespace Infretis.C08
open Infretis.Fs

/-! ## restartability -/

/-- every crash point: the restart starts (from the old record, or from the new one), or — as-is
    `write_toml`, the one effect index between truncation and completed write — raises -/
theorem crash_outcome (cfg : Cfg) (M : Manifest) (m : Mem) (c : Choice) (d : Disk)
    (hI : Inv M m d) (hW : WF cfg M m c d) (k : Nat) (half : Bool) :
    (∃ r, restartOutcome M .restartToml (crashStep cfg m c d k half) = .starts r)
    ∨ (inTruncWindow cfg m c d k = true
        ∧ restartOutcome M .restartToml (crashStep cfg m c d k half) = .raises) := by
  by_cases hk : (stepEffs cfg m c d).length ≤ k
  · obtain ⟨hn, hf, _⟩ := crash_complete cfg M m c d hI hW k half hk
    left
    refine ⟨newRec m c, outcome_starts M _ _ c.newLive hn (newRec_rf cfg M m c d hI hW) rfl ?_⟩
    intro p hp
    rw [hf]
    exact ⟨new_live_stored cfg M m c d hI hW p hp, ((new_live_facts cfg M m c d hI hW).1 p hp).2⟩
  · obtain ⟨r0, hr0, hcl⟩ := crash_incomplete cfg M m c d hI hW k half (Nat.lt_of_not_le hk)
    obtain ⟨r, hr, _, hact, _, hrf⟩ := hI.record
    have hrr : r = r0 := by rw [hr] at hr0; injection hr0
    subst hrr
    rcases hcl with ⟨ho, _⟩ | ⟨hw, ht⟩
    · left
      exact ⟨r, outcome_starts M _ r m.live ho hrf hact (fun p hp =>
        ⟨old_live_safe cfg M m c d hI hW k half p hp, (hI.live_ok p hp).2.2⟩)⟩
    · right
      exact ⟨hw, outcome_raises_of_torn M _ ht⟩

/-- **crash_restartable** (repaired `write_toml`: temp file + os.replace): after a crash at ANY
    point of ANY step the restart starts. -/
theorem crash_restartable (cfg : Cfg) (M : Manifest) (m : Mem) (c : Choice) (d : Disk)
    (hI : Inv M m d) (hW : WF cfg M m c d) (hv : cfg.variant = .repaired) (k : Nat) (half : Bool) :
    ∃ r, restartOutcome M .restartToml (crashStep cfg m c d k half) = .starts r := by
  rcases crash_outcome cfg M m c d hI hW k half with h | ⟨h, _⟩
  · exact h
  · simp [inTruncWindow, hv] at h

/-- **crash_restartable_partial** (the code as it is): the restart starts at every crash point
    outside the truncation window `k = restartIdx + 1`. -/
theorem crash_restartable_partial (cfg : Cfg) (M : Manifest) (m : Mem) (c : Choice) (d : Disk)
    (hI : Inv M m d) (hW : WF cfg M m c d) (k : Nat) (half : Bool)
    (hwin : inTruncWindow cfg m c d k = false) :
    ∃ r, restartOutcome M .restartToml (crashStep cfg m c d k half) = .starts r := by
  rcases crash_outcome cfg M m c d hI hW k half with h | ⟨hw, _⟩
  · exact h
  · rw [hwin] at hw; cases hw

/-- the window is sharp: as-is, a crash between the truncating open and the completed write of
    restart.toml ALWAYS leaves a state from which the restart raises (both sub-states). -/
theorem crash_in_window_raises (cfg : Cfg) (M : Manifest) (m : Mem) (c : Choice) (d : Disk)
    (hI : Inv M m d) (hW : WF cfg M m c d) (k : Nat) (half : Bool)
    (hwin : inTruncWindow cfg m c d k = true) :
    restartOutcome M .restartToml (crashStep cfg m c d k half) = .raises := by
  obtain ⟨r0, hr0, _⟩ := hI.record
  have hown := loop_owned cfg M m c d hW
  have hLA : (loopEffs cfg m c d).length = (accLoop cfg c.accs m.trajNum m.olds d).length := rfl
  have hcase : (cfg.variant = .asIs ∧ k = restartIdx cfg m c d + 1)
      ∨ (cfg.variant = .renamedOpen ∧ k = restartIdx cfg m c d + 2) := by
    unfold inTruncWindow at hwin
    cases hv : cfg.variant <;> simp [hv] at hwin
    · exact Or.inl ⟨rfl, hwin⟩
    · exact Or.inr ⟨rfl, hwin⟩
  have hk' : (loopEffs cfg m c d).length ≤ k := by
    rcases hcase with ⟨_, hk⟩ | ⟨_, hk⟩ <;> rw [hk] <;> unfold restartIdx <;> omega
  have hr1 : (run (loopEffs cfg m c d) d).restart = .complete r0 := by
    rw [(run_frame hown d).2.2.1]; exact hr0
  obtain ⟨_, _, _, _, t5, _⟩ := tail_spec c cfg.variant (newRec m c) r0 _ hr1
    (k - (loopEffs cfg m c d).length) half
  rw [crash_split_ge cfg m c d k half hk']
  apply outcome_raises_of_torn
  apply t5
  rcases hcase with ⟨hv, hk⟩ | ⟨hv, hk⟩
  · left; refine ⟨hv, ?_⟩; rw [hk]; unfold restartIdx; omega
  · right; refine ⟨hv, ?_⟩; rw [hk]; unfold restartIdx; omega

/-! ## files of live paths -/

/-- **crash_paths_present**: whatever complete record a crash leaves in restart.toml, every path
    it references loads: traj.txt, order.txt, energy.txt and every referenced trajectory file are
    completely on disk (with the content stored when the path was accepted). -/
theorem crash_paths_present (cfg : Cfg) (M : Manifest) (m : Mem) (c : Choice) (d : Disk)
    (hI : Inv M m d) (hW : WF cfg M m c d) (k : Nat) (half : Bool) (r : Rec)
    (hr : (crashStep cfg m c d k half).restart = .complete r) :
    ∀ a ∈ r.active, ∃ p, loadPath M (crashStep cfg m c d k half).files a = some p ∧ p.pn = a
      ∧ pathOK (crashStep cfg m c d k half).files p = true := by
  intro a ha
  by_cases hk : (stepEffs cfg m c d).length ≤ k
  · obtain ⟨hn, hf, _⟩ := crash_complete cfg M m c d hI hW k half hk
    have : r = newRec m c := by rw [hn] at hr; injection hr with h; exact h.symm
    subst this
    obtain ⟨p, hp, rfl⟩ := List.mem_map.1 ha
    have hok : pathOK (crashStep cfg m c d k half).files p = true := by
      rw [hf]; exact new_live_stored cfg M m c d hI hW p hp
    exact ⟨p, loadPath_of_pathOK M _ p hok ((new_live_facts cfg M m c d hI hW).1 p hp).2, rfl, hok⟩
  · obtain ⟨r0, hr0, hcl⟩ := crash_incomplete cfg M m c d hI hW k half (Nat.lt_of_not_le hk)
    obtain ⟨r', hr', _, hact, _, _⟩ := hI.record
    have hrr : r' = r0 := by rw [hr'] at hr0; injection hr0
    subst hrr
    rcases hcl with ⟨ho, _⟩ | ⟨_, ht⟩
    · have : r = r' := by rw [ho] at hr; injection hr with h; exact h.symm
      subst this
      rw [hact] at ha
      obtain ⟨p, hp, rfl⟩ := List.mem_map.1 ha
      have hok := old_live_safe cfg M m c d hI hW k half p hp
      exact ⟨p, loadPath_of_pathOK M _ p hok (hI.live_ok p hp).2.2, rfl, hok⟩
    · rcases ht with ht | ht <;> rw [ht] at hr <;> cases hr

/-- **crash_no_live_file_lost**: at every crash point every path that was live when the step
    began still has all its files, and as soon as the new record is in place so has every path
    of the new live set. -/
theorem crash_no_live_file_lost (cfg : Cfg) (M : Manifest) (m : Mem) (c : Choice) (d : Disk)
    (hI : Inv M m d) (hW : WF cfg M m c d) (k : Nat) (half : Bool) :
    (∀ p ∈ m.live, pathOK (crashStep cfg m c d k half).files p = true)
    ∧ ((stepEffs cfg m c d).length ≤ k →
        (crashStep cfg m c d k half).restart = .complete (newRec m c)
        ∧ ∀ p ∈ c.newLive, pathOK (crashStep cfg m c d k half).files p = true) := by
  refine ⟨old_live_safe cfg M m c d hI hW k half, fun hk => ?_⟩
  obtain ⟨hn, hf, _⟩ := crash_complete cfg M m c d hI hW k half hk
  refine ⟨hn, fun p hp => ?_⟩
  rw [hf]
  exact new_live_stored cfg M m c d hI hW p hp

/-! ## continuing -/

/-- a completed step re-establishes the invariant -/
theorem step_inv (cfg : Cfg) (M : Manifest) (m : Mem) (c : Choice) (d : Disk)
    (hI : Inv M m d) (hW : WF cfg M m c d) :
    Inv M (stepMem cfg m c d) (run (stepEffs cfg m c d) d) := by
  have hall := crashAt_all (stepEffs cfg m c d) d (stepEffs cfg m c d).length false (Nat.le_refl _)
  obtain ⟨hn, hf, hd⟩ := crash_complete cfg M m c d hI hW (stepEffs cfg m c d).length false (Nat.le_refl _)
  unfold crashStep at hn hf hd
  rw [hall] at hn hf hd
  refine new_state_inv cfg M m _ c d _ hI hW hn hf hd rfl rfl rfl ?_ ?_
  · intro o ho
    rcases accOlds_mem cfg c.accs m.trajNum m.olds d o ho with h | ⟨a, ha, rfl⟩
    · exact Or.inl h
    · exact Or.inr ⟨a, ha, rfl⟩
  · intro R hR
    have := hI.rf R hR
    simp only [stepMem, newRec]
    split <;> omega

/-- the state a restart works on: memory restored from the record, data file cleaned by
    `clean_data_file` (if the code does that).  Whenever the code cleans on restart OR the crash
    point is outside the row window, that state satisfies the full invariant. -/
theorem crash_restore_inv_gen (cfg : Cfg) (M : Manifest) (m : Mem) (c : Choice) (d : Disk)
    (hI : Inv M m d) (hW : WF cfg M m c d) (k : Nat) (half : Bool)
    (hok : cfg.cleanOnRestart = true ∨ inRowWindow cfg m c d k half = false) (r : Rec)
    (hr : (crashStep cfg m c d k half).restart = .complete r) :
    Inv M (restore M r (crashStep cfg m c d k half).files)
      (restoreDisk cfg r (crashStep cfg m c d k half)) := by
  by_cases hk : (stepEffs cfg m c d).length ≤ k
  · -- the step is complete: new record; cleaning changes nothing
    obtain ⟨hn, hf, hd⟩ := crash_complete cfg M m c d hI hW k half hk
    have : r = newRec m c := by rw [hn] at hr; injection hr with h; exact h.symm
    subst this
    have hfl : ∀ p ∈ c.newLive, pathOK (crashStep cfg m c d k half).files p = true := by
      intro p hp; rw [hf]; exact new_live_stored cfg M m c d hI hW p hp
    have hlive : (restore M (newRec m c) (crashStep cfg m c d k half).files).live = c.newLive := by
      simp only [restore, newRec]
      exact filterMap_load M _ c.newLive (fun p hp =>
        loadPath_of_pathOK M _ p (hfl p hp) ((new_live_facts cfg M m c d hI hW).1 p hp).2)
    have hinv : Inv M (restore M (newRec m c) (crashStep cfg m c d k half).files)
        (crashStep cfg m c d k half) := by
      refine new_state_inv cfg M m _ c d _ hI hW hn hf hd rfl hlive rfl ?_ ?_
      · intro o ho; simp [restore] at ho
      · intro R hR; simp [restore] at hR ⊢; omega
    have hsame : restoreDisk cfg (newRec m c) (crashStep cfg m c d k half) = crashStep cfg m c d k half := by
      unfold restoreDisk
      split
      · have hrows := hinv.rows
        rw [hlive] at hrows
        have : (newRec m c).active = pns c.newLive := rfl
        rw [this, cleanData_of_rowsOK _ _ hrows]
      · rfl
    rw [hsame]; exact hinv
  · obtain ⟨r0, hr0, hcl⟩ := crash_incomplete cfg M m c d hI hW k half (Nat.lt_of_not_le hk)
    obtain ⟨r', hr', hcs, hact, htn, _⟩ := hI.record
    have hrr : r' = r0 := by rw [hr'] at hr0; injection hr0
    subst hrr
    rcases hcl with ⟨ho, hd, n, hrows, hg⟩ | ⟨_, ht⟩
    · have : r = r' := by rw [ho] at hr; injection hr with h; exact h.symm
      subst this
      have hsafe := old_live_safe cfg M m c d hI hW k half
      have hlive : (restore M r (crashStep cfg m c d k half).files).live = m.live := by
        simp only [restore, hact, pns]
        exact filterMap_load M _ m.live (fun p hp =>
          loadPath_of_pathOK M _ p (hsafe p hp) (hI.live_ok p hp).2.2)
      have hdata : (restoreDisk cfg r (crashStep cfg m c d k half)).data = d.data := by
        unfold restoreDisk
        by_cases hc : cfg.cleanOnRestart = true
        · rw [if_pos hc]
          show cleanData _ r.active = d.data
          rw [hact]
          refine cleanData_of_extra d.data _ (pns m.live) _ hI.rows hrows hg ?_
          intro q hq
          obtain ⟨a, ha, rfl⟩ := List.mem_map.1 (List.mem_of_mem_take hq)
          exact List.mem_map_of_mem (hW.old_live a ha)
        · rw [if_neg hc]
          rcases hok with h | h
          · exact absurd h hc
          · exact hd h
      have hfiles : (restoreDisk cfg r (crashStep cfg m c d k half)).files = (crashStep cfg m c d k half).files := by
        unfold restoreDisk; split <;> rfl
      have hrest : (restoreDisk cfg r (crashStep cfg m c d k half)).restart = .complete r := by
        unfold restoreDisk; split <;> exact ho
      refine old_state_inv M m _ d _ hI r hr' hrest (by rw [hfiles]; exact hsafe) hdata ?_ hlive ?_ rfl ?_
      · simp [restore, hcs]
      · simp [restore, htn]
      · intro R hR; simp [restore] at hR ⊢; omega
    · rcases ht with ht | ht <;> rw [ht] at hr <;> cases hr

/-- **crash_restore_inv** (the code as it is now: `clean_data_file` on restart): after a crash at
    ANY point of ANY step — including the window in which the data row is written and the restart
    file is not — whatever complete record is on disk, the state a restart works on satisfies the
    full invariant: all paths loaded, data rows whole, unique and disjoint from the live set. -/
theorem crash_restore_inv (cfg : Cfg) (M : Manifest) (m : Mem) (c : Choice) (d : Disk)
    (hI : Inv M m d) (hW : WF cfg M m c d) (hclean : cfg.cleanOnRestart = true) (k : Nat) (half : Bool)
    (r : Rec) (hr : (crashStep cfg m c d k half).restart = .complete r) :
    Inv M (restore M r (crashStep cfg m c d k half).files)
      (restoreDisk cfg r (crashStep cfg m c d k half)) :=
  crash_restore_inv_gen cfg M m c d hI hW k half (Or.inl hclean) r hr

/-- **crash_restore_inv_partial** (historical restart without `clean_data_file`): the same outside
    the row window. -/
theorem crash_restore_inv_partial (cfg : Cfg) (M : Manifest) (m : Mem) (c : Choice) (d : Disk)
    (hI : Inv M m d) (hW : WF cfg M m c d) (k : Nat) (half : Bool)
    (hwin : inRowWindow cfg m c d k half = false) (r : Rec)
    (hr : (crashStep cfg m c d k half).restart = .complete r) :
    Inv M (restore M r (crashStep cfg m c d k half).files)
      (restoreDisk cfg r (crashStep cfg m c d k half)) :=
  crash_restore_inv_gen cfg M m c d hI hW k half (Or.inr hwin) r hr

/-- everything that can happen after a (re)start: completed steps, and crashes followed by a
    restart from the record on disk — any number of them, in any order (double crashes, a crash
    right after a restart, …).  With `clean_data_file` every crash point is allowed; without it
    only those outside the row window. -/
inductive Continues (cfg : Cfg) (M : Manifest) : Mem → Disk → Mem → Disk → Prop
  | refl (m : Mem) (d : Disk) : Continues cfg M m d m d
  | step {m d m' d'} (c : Choice) (hW : WF cfg M m c d)
      (h : Continues cfg M (stepMem cfg m c d) (run (stepEffs cfg m c d) d) m' d') :
      Continues cfg M m d m' d'
  | crashRestart {m d m' d'} (c : Choice) (hW : WF cfg M m c d) (k : Nat) (half : Bool) (r : Rec)
      (hok : cfg.cleanOnRestart = true ∨ inRowWindow cfg m c d k half = false)
      (hr : (crashStep cfg m c d k half).restart = .complete r)
      (h : Continues cfg M (restore M r (crashStep cfg m c d k half).files)
            (restoreDisk cfg r (crashStep cfg m c d k half)) m' d') :
      Continues cfg M m d m' d'

theorem continue_inv (cfg : Cfg) (M : Manifest) {m d m' d'} (hI : Inv M m d)
    (h : Continues cfg M m d m' d') : Inv M m' d' := by
  induction h with
  | refl => exact hI
  | step c hW _ ih => exact ih (step_inv cfg M _ c _ hI hW)
  | crashRestart c hW k half r hok hr _ ih =>
    exact ih (crash_restore_inv_gen cfg M _ c _ hI hW k half hok r hr)

/-- **continue_rows_unique** (the code as it is now): crash at ANY point of ANY step, restart
    from whatever complete record is on disk, continue in ANY way (steps, further crashes at any
    point + restarts): the data file has whole rows only, every path at most once, and no live
    path.  (Audit 2026-09-30: this is the UPPER bound only — `rows_unique_not_exactly_once_counterexample`;
    that every replaced path HAS its row is `script_rows_exactly_once`, under `Cover`.) -/
theorem continue_rows_unique (cfg : Cfg) (M : Manifest) (m : Mem) (c : Choice) (d : Disk)
    (hI : Inv M m d) (hW : WF cfg M m c d) (hclean : cfg.cleanOnRestart = true) (k : Nat) (half : Bool)
    (r : Rec) (hr : (crashStep cfg m c d k half).restart = .complete r) (m' : Mem) (d' : Disk)
    (hc : Continues cfg M (restore M r (crashStep cfg m c d k half).files)
            (restoreDisk cfg r (crashStep cfg m c d k half)) m' d') :
    d'.data.torn = false ∧ d'.data.garbled = 0 ∧ d'.data.rows.Nodup
      ∧ ∀ p ∈ d'.data.rows, p ∉ pns m'.live := by
  have h := continue_inv cfg M (crash_restore_inv cfg M m c d hI hW hclean k half r hr) hc
  exact (rowsOK_iff _ _).1 h.rows

/-- **continue_rows_unique_partial** (historical restart without `clean_data_file`): the same for
    crash points outside the row window. -/
theorem continue_rows_unique_partial (cfg : Cfg) (M : Manifest) (m : Mem) (c : Choice) (d : Disk)
    (hI : Inv M m d) (hW : WF cfg M m c d) (k : Nat) (half : Bool)
    (hwin : inRowWindow cfg m c d k half = false) (r : Rec)
    (hr : (crashStep cfg m c d k half).restart = .complete r) (m' : Mem) (d' : Disk)
    (hc : Continues cfg M (restore M r (crashStep cfg m c d k half).files)
            (restoreDisk cfg r (crashStep cfg m c d k half)) m' d') :
    d'.data.torn = false ∧ d'.data.garbled = 0 ∧ d'.data.rows.Nodup
      ∧ ∀ p ∈ d'.data.rows, p ∉ pns m'.live := by
  have h := continue_inv cfg M (crash_restore_inv_partial cfg M m c d hI hW k half hwin r hr) hc
  exact (rowsOK_iff _ _).1 h.rows

/-- **continue_reissues_inflight**: the record a crash leaves behind is the one of the last
    completed step (old or new), so the jobs re-issued first after the restart (`locked0`, in
    order) are exactly the in-flight jobs recorded at that step. -/
theorem continue_reissues_inflight (cfg : Cfg) (M : Manifest) (m : Mem) (c : Choice) (d : Disk)
    (hI : Inv M m d) (hW : WF cfg M m c d) (k : Nat) (half : Bool) (r : Rec) (workers : Nat)
    (hr : (crashStep cfg m c d k half).restart = .complete r) :
    (d.restart = .complete r ∧ k < (stepEffs cfg m c d).length
      ∨ r = newRec m c ∧ reissued r workers = c.locked'.take workers) := by
  by_cases hk : (stepEffs cfg m c d).length ≤ k
  · obtain ⟨hn, _, _⟩ := crash_complete cfg M m c d hI hW k half hk
    have : r = newRec m c := by rw [hn] at hr; injection hr with h; exact h.symm
    right; exact ⟨this, by rw [this]; rfl⟩
  · obtain ⟨r0, hr0, hcl⟩ := crash_incomplete cfg M m c d hI hW k half (Nat.lt_of_not_le hk)
    rcases hcl with ⟨ho, _⟩ | ⟨_, ht⟩
    · have : r = r0 := by rw [ho] at hr; injection hr with h; exact h.symm
      left; exact ⟨by rw [this]; exact hr0, Nat.lt_of_not_le hk⟩
    · rcases ht with ht | ht <;> rw [ht] at hr <;> cases hr

/-! ## concrete witnesses: non-vacuity of the hypotheses and the two counterexamples -/

namespace Witness

def p0 : PathInfo := { pn := 0, cid := 1, files := [(10, 100)] }
def p1 : PathInfo := { pn := 1, cid := 2, files := [(20, 200)] }
def p2 : PathInfo := { pn := 2, cid := 3, files := [(30, 300)] }
def p3 : PathInfo := { pn := 3, cid := 9, files := [(40, 400), (41, 410)] }

def filesOf (p : PathInfo) : Files :=
  [(.pdir p.pn, .dir), (.acc p.pn, .dir), (.order p.pn, .complete p.cid), (.traj p.pn, .complete p.cid),
   (.energy p.pn, .complete p.cid)] ++ p.files.map (fun nc => (.tfile p.pn nc.1, .complete nc.2))

def M : Manifest := fun c =>
  if c = 1 then some [10] else if c = 2 then some [20] else if c = 3 then some [30]
  else if c = 9 then some [40, 41] else none

def r0 : Rec := { cstep := 1, restartedFrom := none, active := [0, 1, 2], trajNum := 3, locked := [] }

/-- three live paths, one completed step, the worker has just produced two trajectory files -/
def d0 : Disk :=
  { files := [(.wfile 40, .complete 400), (.wfile 41, .complete 410)] ++ filesOf p0 ++ filesOf p1 ++ filesOf p2
    data := { rows := [], garbled := 0, torn := false }
    restart := .complete r0
    tmp := .absent }

def m0 : Mem := { cstep := 1, restartedFrom := none, live := [p0, p1, p2], trajNum := 3, olds := [], locked := [] }

/-- a shooting move in ensemble 1 is accepted: path 1 is replaced by path 3 -/
def c0 : Choice :=
  { accs := [{ old := p1, cid := 9, files := [(40, 400), (41, 410)] }]
    newLive := [p0, p3, p2], locked' := [], inc := true, halfRows := 0, halfTorn := true }

/-- the code before ba0d066 / 05f8082: truncating write_toml, no clean_data_file -/
def cfgAsIs : Cfg := { n := 4, deleteOld := true, deleteAll := true, variant := .asIs, cleanOnRestart := false }
/-- the code as it is now (defaults: temp file + os.replace, clean_data_file on restart) -/
def cfgRep : Cfg := { n := 4, deleteOld := true, deleteAll := true }

theorem inv0 : Inv M m0 d0 where
  record := ⟨r0, rfl, rfl, rfl, rfl, by decide⟩
  live_ok := by decide
  live_nodup := by decide
  olds := by decide
  rows := by decide
  rows_lt := by decide
  rf := by intro R h; cases h

theorem wf0 (cfg : Cfg) (hn : cfg.n = 4) : WF cfg M m0 c0 d0 where
  old_live := by decide
  old_nodup := by decide
  names_nodup := by decide
  sources := by decide
  few := by rw [hn]; decide
  new_live := by
    intro p hp
    simp only [c0, List.mem_cons, List.not_mem_nil, or_false] at hp
    rcases hp with rfl | rfl | rfl
    · left; decide
    · right; exact ⟨0, _, rfl, rfl⟩
    · left; decide
  new_nodup := by decide
  manifest := by decide
  final := by intro h; cases h

end Witness

open Witness in
/-- the hypotheses of all theorems above are satisfiable, and the step is not trivial: 14 effects -/
example : Inv M m0 d0 ∧ WF cfgAsIs M m0 c0 d0 ∧ WF cfgRep M m0 c0 d0
    ∧ (stepEffs cfgAsIs m0 c0 d0).length = 14 ∧ restartIdx cfgAsIs m0 c0 d0 = 12 :=
  ⟨inv0, wf0 _ rfl, wf0 _ rfl, by decide, by decide⟩

open Witness in
/-- **crash_restartable_counterexample** (code as it is): a crash right after
    `open("./restart.toml","wb")` (k = 13, file empty) or half-way through the dump (k = 13, half)
    leaves a state from which `setup_config("restart.toml")` raises; one effect earlier and one
    later the restart starts. -/
theorem crash_restartable_counterexample :
    restartOutcome M .restartToml (crashStep cfgAsIs m0 c0 d0 13 false) = .raises
    ∧ restartOutcome M .restartToml (crashStep cfgAsIs m0 c0 d0 13 true) = .raises
    ∧ restartOutcome M .restartToml (crashStep cfgAsIs m0 c0 d0 12 true) = .starts r0
    ∧ restartOutcome M .restartToml (crashStep cfgAsIs m0 c0 d0 14 false) = .starts (newRec m0 c0)
    ∧ inTruncWindow cfgAsIs m0 c0 d0 13 = true := by
  decide

open Witness in
/-- the repaired variant at the corresponding crash points (temp file empty / half written /
    complete but not yet renamed): the restart starts from the old record -/
example : restartOutcome M .restartToml (crashStep cfgRep m0 c0 d0 13 false) = .starts r0
    ∧ restartOutcome M .restartToml (crashStep cfgRep m0 c0 d0 13 true) = .starts r0
    ∧ restartOutcome M .restartToml (crashStep cfgRep m0 c0 d0 14 false) = .starts r0
    ∧ restartOutcome M .restartToml (crashStep cfgRep m0 c0 d0 15 false) = .starts (newRec m0 c0) := by
  decide

open Witness in
/-- **crash_renamed_before_flush_counterexample** (a seeded variant, not the code): if
    `os.replace(tmp, "restart.toml")` runs while the temp file is still open, the TOML is still in
    the write buffer: a crash right after the rename (k = 14: "after effect 13") leaves an empty
    restart.toml, a partial flush a half-written one; before the rename and after the close the
    restart starts. -/
theorem crash_renamed_before_flush_counterexample :
    let cfg : Cfg := { cfgRep with variant := .renamedOpen }
    restartOutcome M .restartToml (crashStep cfg m0 c0 d0 13 false) = .starts r0
    ∧ restartOutcome M .restartToml (crashStep cfg m0 c0 d0 14 false) = .raises
    ∧ restartOutcome M .restartToml (crashStep cfg m0 c0 d0 14 true) = .raises
    ∧ restartOutcome M .restartToml (crashStep cfg m0 c0 d0 15 false) = .starts (newRec m0 c0)
    ∧ inTruncWindow cfg m0 c0 d0 14 = true := by
  decide

open Witness in
/-- **continue_rows_unique_counterexample** (historical restart WITHOUT `clean_data_file`, kept as
    record of the repaired finding): crash after the data row of the replaced path 1 has been
    appended and before restart.toml is rewritten (k = 12).  The restart starts from the old
    record, in which path 1 is still live while its row is already in the data file; redoing the
    step (the worker produces the same trajectory files again, the move is accepted again) appends
    the row a second time. -/
theorem continue_rows_unique_counterexample :
    let d' := restoreDisk cfgAsIs r0 (crashStep cfgAsIs m0 c0 d0 12 false)
    let m' := restore M r0 d'.files
    let d'' : Disk := { d' with files := (d'.files.set (.wfile 40) (.complete 400)).set (.wfile 41) (.complete 410) }
    inRowWindow cfgAsIs m0 c0 d0 12 false = true
    ∧ restartOutcome M .restartToml d' = .starts r0
    ∧ rowsOK d'.data r0.active = false
    ∧ (run (stepEffs cfgAsIs m' c0 d'') d'').data.rows = [1, 1] := by
  decide


open Witness in
/-- the same crash point with the code as it is now: `clean_data_file` drops the row of the still
    active path 1 on restart; redoing the step writes it once.  Also a torn row (k = 11, half) is
    dropped. -/
example :
    let d' := restoreDisk cfgRep r0 (crashStep cfgRep m0 c0 d0 12 false)
    let m' := restore M r0 d'.files
    let d'' : Disk := { d' with files := (d'.files.set (.wfile 40) (.complete 400)).set (.wfile 41) (.complete 410) }
    inRowWindow cfgRep m0 c0 d0 12 false = true
    ∧ (crashStep cfgRep m0 c0 d0 12 false).data.rows = [1]
    ∧ rowsOK d'.data r0.active = true
    ∧ (run (stepEffs cfgRep m' c0 d'') d'').data.rows = [1]
    ∧ (crashStep cfgRep m0 c0 d0 11 true).data.torn = true
    ∧ (restoreDisk cfgRep r0 (crashStep cfgRep m0 c0 d0 11 true)).data = d0.data := by
  decide

/-! ## stale files of an interrupted store -/

/-- **delete_block_rmdir_safe** (since e7b75fb): with delete_old_all, when the delete block reaches
    `os.rmdir(load/pn/accepted)` no entry of that directory exists any more — on ANY disk, in
    particular one on which a store that was interrupted by a crash and redone after the restart
    left a stale trajectory file that is not part of the path's `adress`. -/
theorem delete_block_rmdir_safe (cfg : Cfg) (o : Old) (d : Disk) (h : cfg.deleteAll = true) :
    ∃ pre, delEffs cfg o d = pre ++ [.rmdir (.acc o.pn), .rmdir (.pdir o.pn)]
      ∧ ∀ n, (run pre d).files.get (.tfile o.pn n) = .absent := by
  refine ⟨o.names.map (fun n => Effect.remove (.tfile o.pn n))
      ++ delAllRemoves o (run (o.names.map (fun n => Effect.remove (.tfile o.pn n))) d), ?_, ?_⟩
  · simp [delEffs, h, List.append_assoc]
  · intro n
    rw [run_append]
    exact delAll_leaves_accepted_empty o _ n

open Witness in
/-- a crash inside `_move_path` (k = 9: first trajectory file of path 3 moved, second not), restart,
    the redo stores path 3 under other file names (50, 51): file 40 stays behind in
    load/3/accepted.  When path 3 is deleted later the block removes it before the rmdir. -/
example :
    let d' := crashStep cfgRep m0 c0 d0 9 false
    let c1 : Choice := { c0 with accs := [{ old := p1, cid := 9, files := [(50, 400), (51, 410)] }] }
    let d'' : Disk := { d' with files := (d'.files.set (.wfile 50) (.complete 400)).set (.wfile 51) (.complete 410) }
    let d3 := run (stepEffs cfgRep (restore M r0 d'.files) c1 d'') d''
    d'.files.get (.tfile 3 40) = .complete 400
    ∧ d3.files.get (.tfile 3 40) = .complete 400       -- stale, not in the new path's adress
    ∧ Effect.remove (.tfile 3 40) ∈ delEffs cfgRep { pn := 3, names := [50, 51] } d3
    ∧ (run (delEffs cfgRep { pn := 3, names := [50, 51] } d3) d3).files.get (.tfile 3 40) = .absent := by
  decide

/-! ## the restart procedure has effects of its own; arbitrary life cycles of the main process

`Model/FsRestart.lean`: `restartRun` = setup_config (restart branch) + clean_data_file +
setup_internal + the initiation loop, as outcome AND effect list; `runScript` = any sequence of
worker output, completed steps, deaths at any point of a step, restart attempts that die at any
point of the restart procedure, and restarts that get through.  This is the function the driver
runs (`script`, `rcrash`). -/

/-- `restartRun` decides exactly like `restartOutcome` (the atomic restart of `Model/Fs.lean`) -/
theorem restartRun_agrees (cfg : Cfg) (M : Manifest) (x : RDisk) (jobs : Nat) :
    (restartRun cfg M x jobs).1 = restartOutcome M .restartToml x.d :=
  restartRun_outcome cfg M x jobs

/-- what the property demands of a state.  Alive: memory and disk are consistent (`Inv`: complete
    record, every live path completely stored and loadable, data rows whole / unique / disjoint from
    the live set) and no temp file of the data file lies around.  Dead: a restart from what is on
    disk starts, and the state it works on is consistent in the same sense. -/
def Good (cfg : Cfg) (M : Manifest) : Option Mem → RDisk → Prop
  | some m, x => Inv M m x.d ∧ x.dtmp = .absent
  | none, x => ∃ r, restartOutcome M .restartToml x.d = .starts r
      ∧ Inv M (restore M r x.d.files) (restoreDisk cfg r x.d) ∧ tmpOK x r.active = true

/-- the outcome of the job treated by a step / interrupted by a crash is well formed (`WF`) in the
    state it is applied to -/
def EventWF (cfg : Cfg) (M : Manifest) (s : PState) : Event → Prop
  | .step c => ∀ m, s.mem = some m → WF cfg M m c s.x.d
  | .crash c _ _ => ∀ m, s.mem = some m → WF cfg M m c s.x.d
  | _ => True

def ScriptWF (cfg : Cfg) (M : Manifest) : PState → List Event → Prop
  | _, [] => True
  | s, e :: es => EventWF cfg M s e ∧ ScriptWF cfg M (runEvent cfg M s e) es

/-- **restart_crash_good**: a restart attempt that dies at ANY point `(k, half)` of the restart
    procedure (before / after the open of the data file's temp file, half-way through writing it,
    before / after the `os.replace`, between the worker directories) leaves a state from which the
    next restart starts from the SAME record, loads the same paths and works on the same cleaned data
    file; a leftover temp file exists only while cleaning is still due. -/
theorem restart_crash_good (cfg : Cfg) (M : Manifest) (x : RDisk) (hclean : cfg.cleanOnRestart = true)
    (r : Rec) (hs : restartOutcome M .restartToml x.d = .starts r) (htmp : tmpOK x r.active = true)
    (jobs k : Nat) (half : Bool) :
    let x' := crashAtR (restartRun cfg M x jobs).2 x k half
    restartOutcome M .restartToml x'.d = .starts r
      ∧ restore M r x'.d.files = restore M r x.d.files
      ∧ restoreDisk cfg r x'.d = restoreDisk cfg r x.d
      ∧ tmpOK x' r.active = true := by
  intro x'
  have he : x' = crashAtR (cleanEffs x.d.data r.active ++ workerDirs jobs) x k half := by
    show crashAtR (restartRun cfg M x jobs).2 x k half = _
    rw [restartRun_effs_of_starts cfg M x jobs r hs, if_pos hclean]
  obtain ⟨D, t, hx', hD⟩ := crash_clean_shape x r.active jobs k half
  rw [hx'] at he
  rw [he]
  refine ⟨?_, rfl, ?_, ?_⟩
  · exact (restartOutcome_congr M _ x.d rfl rfl).trans hs
  · unfold restoreDisk
    rw [if_pos hclean, if_pos hclean]
    rcases hD with ⟨hD, _⟩ | ⟨hD, _⟩
    · rw [hD]
    · show ({ x.d with data := cleanData D r.active } : Disk) = _
      rw [hD, cleanData_idem]
  · simp only [tmpOK, Bool.or_eq_true, beq_iff_eq, bne_iff_ne, ne_eq] at htmp ⊢
    rcases hD with ⟨hD, ht⟩ | ⟨hD, ht⟩
    · by_cases hc : cleanData x.d.data r.active = x.d.data
      · left
        rw [ht hc]
        rcases htmp with h | h
        · exact h
        · exact absurd hc h
      · right
        show ¬ cleanData D r.active = D
        rw [hD]; exact hc
    · left; exact ht

/-- one event keeps the state good -/
theorem event_good (cfg : Cfg) (M : Manifest) (hv : cfg.variant = .repaired)
    (hclean : cfg.cleanOnRestart = true) (s : PState) (e : Event)
    (hG : Good cfg M s.mem s.x) (hW : EventWF cfg M s e) :
    Good cfg M (runEvent cfg M s e).mem (runEvent cfg M s e).x := by
  obtain ⟨mem, x⟩ := s
  cases mem with
  | some m =>
    obtain ⟨hI, ht⟩ := hG
    cases e with
    | work files => exact ⟨inv_workFiles M m x.d files hI, ht⟩
    | step c => exact ⟨step_inv cfg M m c x.d hI (hW m rfl), ht⟩
    | crash c k half =>
      have hWF := hW m rfl
      obtain ⟨r, hr⟩ := crash_restartable cfg M m c x.d hI hWF hv k half
      refine ⟨r, hr, crash_restore_inv cfg M m c x.d hI hWF hclean k half r
        (starts_complete M _ r hr), ?_⟩
      show tmpOK ⟨crashStep cfg m c x.d k half, x.dtmp⟩ r.active = true
      have ht' : x.dtmp = .absent := ht
      simp [tmpOK, ht']
    | restartCrash jobs k half => exact ⟨hI, ht⟩
    | restart jobs => exact ⟨hI, ht⟩
  | none =>
    obtain ⟨r, hs, hI, ht⟩ := hG
    cases e with
    | work files => exact ⟨r, hs, hI, ht⟩
    | step c => exact ⟨r, hs, hI, ht⟩
    | crash c k half => exact ⟨r, hs, hI, ht⟩
    | restartCrash jobs k half =>
      obtain ⟨h1, h2, h3, h4⟩ := restart_crash_good cfg M x hclean r hs ht jobs k half
      refine ⟨r, h1, ?_, h4⟩
      show Inv M (restore M r (crashAtR (restartRun cfg M x jobs).2 x k half).d.files)
        (restoreDisk cfg r (crashAtR (restartRun cfg M x jobs).2 x k half).d)
      rw [h2, h3]; exact hI
    | restart jobs =>
      have ho : (restartRun cfg M x jobs).1 = .starts r := by rw [restartRun_outcome]; exact hs
      have hx : runR (restartRun cfg M x jobs).2 x
          = ⟨{ x.d with data := cleanData x.d.data r.active },
             if cleanData x.d.data r.active = x.d.data then x.dtmp else .absent⟩ := by
        rw [restartRun_effs_of_starts cfg M x jobs r hs, if_pos hclean, run_clean_full]
      have hrd : restoreDisk cfg r x.d = { x.d with data := cleanData x.d.data r.active } := by
        unfold restoreDisk; rw [if_pos hclean]
      simp only [runEvent, ho, hx]
      refine ⟨by rw [← hrd]; exact hI, ?_⟩
      simp only [tmpOK, Bool.or_eq_true, beq_iff_eq, bne_iff_ne, ne_eq] at ht
      show (if cleanData x.d.data r.active = x.d.data then x.dtmp else DTmp.absent) = DTmp.absent
      split
      · rename_i hc
        rcases ht with h | h
        · exact h
        · exact absurd hc h
      · rfl

/-- **script_good** (the code as it is now: temp file + os.replace for restart.toml,
    `clean_data_file` on restart): ANY sequence of worker output, completed steps of any kind
    (reject, accept, zero swap, with and without delete_old / delete_old_all), deaths at any point
    `(k, half)` of any step, restart attempts that die at any point of the restart procedure, and
    completed restarts — in any order and number — leads from a good state to a good state: alive
    states are consistent, and from every dead state the restart starts, loads every path of the
    record and works on whole, unique data rows. -/
theorem script_good (cfg : Cfg) (M : Manifest) (hv : cfg.variant = .repaired)
    (hclean : cfg.cleanOnRestart = true) (es : List Event) :
    ∀ (s : PState), Good cfg M s.mem s.x → ScriptWF cfg M s es →
      Good cfg M (runScript cfg M s es).mem (runScript cfg M s es).x := by
  induction es with
  | nil => intro s hG _; exact hG
  | cons e es ih =>
    intro s hG hW
    show Good cfg M (runScript cfg M (runEvent cfg M s e) es).mem (runScript cfg M (runEvent cfg M s e) es).x
    exact ih _ (event_good cfg M hv hclean s e hG hW.1) hW.2

/-- **script_restartable**: whenever a script ends without a live process — however many crashes
    inside steps and inside restarts lie behind — the restart procedure itself (`restartRun`) starts. -/
theorem script_restartable (cfg : Cfg) (M : Manifest) (hv : cfg.variant = .repaired)
    (hclean : cfg.cleanOnRestart = true) (es : List Event) (s : PState)
    (hG : Good cfg M s.mem s.x) (hW : ScriptWF cfg M s es)
    (hdead : (runScript cfg M s es).mem = none) (jobs : Nat) :
    ∃ r, (runScript cfg M s es).restartNow cfg M jobs = .starts r
      ∧ ∀ a ∈ r.active, ∃ p, loadPath M (runScript cfg M s es).x.d.files a = some p ∧ p.pn = a
          ∧ pathOK (runScript cfg M s es).x.d.files p = true := by
  have h := script_good cfg M hv hclean es s hG hW
  rw [hdead] at h
  obtain ⟨r, hs, hI, _⟩ := h
  refine ⟨r, by unfold PState.restartNow; rw [restartRun_outcome]; exact hs, ?_⟩
  intro a ha
  obtain ⟨r', hr', _, hact, _, _⟩ := hI.record
  have hfiles : (restoreDisk cfg r (runScript cfg M s es).x.d).files = (runScript cfg M s es).x.d.files := by
    unfold restoreDisk; split <;> rfl
  have hrr : r' = r := by
    have h1 : (restoreDisk cfg r (runScript cfg M s es).x.d).restart = .complete r := by
      unfold restoreDisk; split <;> exact starts_complete M _ r hs
    rw [h1] at hr'; injection hr' with h; exact h.symm
  subst hrr
  rw [hact] at ha
  obtain ⟨p, hp, rfl⟩ := List.mem_map.1 ha
  have hok := (hI.live_ok p hp).1
  rw [hfiles] at hok
  exact ⟨p, loadPath_of_pathOK M _ p hok (hI.live_ok p hp).2.2, rfl, hok⟩

/-- **script_rows_unique**: after any script, once a process is alive again (or still), the data
    file has whole rows only, every path at most once, and no live path — also when restarts
    themselves were interrupted while rewriting the data file. -/
theorem script_rows_unique (cfg : Cfg) (M : Manifest) (hv : cfg.variant = .repaired)
    (hclean : cfg.cleanOnRestart = true) (es : List Event) (s : PState)
    (hG : Good cfg M s.mem s.x) (hW : ScriptWF cfg M s es) (m' : Mem)
    (halive : (runScript cfg M s es).mem = some m') :
    let d' := (runScript cfg M s es).x.d
    d'.data.torn = false ∧ d'.data.garbled = 0 ∧ d'.data.rows.Nodup
      ∧ (∀ p ∈ d'.data.rows, p ∉ pns m'.live) ∧ (runScript cfg M s es).x.dtmp = .absent := by
  have h := script_good cfg M hv hclean es s hG hW
  rw [halive] at h
  obtain ⟨hI, ht⟩ := h
  obtain ⟨a, b, c, d⟩ := (rowsOK_iff _ _).1 hI.rows
  exact ⟨a, b, c, d, ht⟩

open Witness in
/-- non-vacuity, on the witness step of above (path 1 replaced by path 3, delete_old_all): the
    process dies after the data row was appended (k = 12), the first restart dies half-way through
    writing the cleaned data file (point (1, half) of the restart), the second one right before the
    `os.replace` (point 2: temp file complete), the third one gets through; the worker redoes the
    job, the step completes.  All hypotheses hold; the row of path 1 is in the data file once; the
    temp file is gone. -/
example :
    let s0 : PState := { mem := some m0, x := ⟨d0, .absent⟩ }
    let es : List Event := [.crash c0 12 false, .restartCrash 1 1 true, .restartCrash 1 2 false,
                            .restart 1, .work [(40, 400), (41, 410)], .step c0]
    let s := runScript cfgRep M s0 es
    (restartRun cfgRep M (runScript cfgRep M s0 (es.take 1)).x 1).2.length = 4
    ∧ (runScript cfgRep M s0 (es.take 2)).x.dtmp = .part
    ∧ (runScript cfgRep M s0 (es.take 2)).x.d.data.rows = [1]
    ∧ (runScript cfgRep M s0 (es.take 3)).x.dtmp = .complete { rows := [], garbled := 0, torn := false }
    ∧ (runScript cfgRep M s0 (es.take 4)).x.d.data.rows = []
    ∧ (runScript cfgRep M s0 (es.take 4)).x.dtmp = .absent
    ∧ (s.mem.map (·.cstep)) = some 2 ∧ s.x.d.data.rows = [1] ∧ s.x.dtmp = .absent := by
  decide

open Witness in
example : Good cfgRep M (some m0) ⟨d0, .absent⟩ := ⟨inv0, rfl⟩


/-! ## audit pass 2026-09-30: "exactly once" (the lower bound), the finished-run restart, a witness
    that runs the delete block

`continue_rows_unique` / `script_rows_unique` prove AT MOST once + disjoint from the live set
(their docstrings said "exactly the replaced paths, each once"; the conclusions do not: see
`rows_unique_not_exactly_once_counterexample`).  The lower bound needs one more fact about the
step, `Cover` (the step keeps every live path it does not replace and makes the new paths live —
`add_traj` / `sort_trajstate` / `live_paths()`; the tie evaluates it on every real step). -/

/-- the data file has a row for every numbered path that is not live — alive: of the memory state;
    dead: of the state a restart from the record on disk works on -/
def CompleteS (cfg : Cfg) (M : Manifest) : Option Mem → RDisk → Prop
  | some m, x => Complete m x.d
  | none, x => ∀ r, x.d.restart = .complete r → Complete (restore M r x.d.files) (restoreDisk cfg r x.d)

def EventCover (s : PState) : Event → Prop
  | .step c => ∀ m, s.mem = some m → Cover m c
  | .crash c _ _ => ∀ m, s.mem = some m → Cover m c
  | _ => True

def ScriptCover (cfg : Cfg) (M : Manifest) : PState → List Event → Prop
  | _, [] => True
  | s, e :: es => EventCover s e ∧ ScriptCover cfg M (runEvent cfg M s e) es

/-- one event keeps the data file complete -/
theorem event_complete (cfg : Cfg) (M : Manifest) (hclean : cfg.cleanOnRestart = true)
    (s : PState) (e : Event) (hG : Good cfg M s.mem s.x) (hC : CompleteS cfg M s.mem s.x)
    (hW : EventWF cfg M s e) (hcov : EventCover s e) :
    CompleteS cfg M (runEvent cfg M s e).mem (runEvent cfg M s e).x := by
  obtain ⟨mem, x⟩ := s
  cases mem with
  | some m =>
    obtain ⟨hI, _⟩ := hG
    cases e with
    | work files => exact hC
    | step c => exact step_complete cfg M m c x.d hI (hW m rfl) (hcov m rfl) hC
    | crash c k half =>
      intro r hr
      exact restore_complete cfg M m c x.d hI (hW m rfl) (hcov m rfl) hC hclean k half r hr
        (crash_restore_inv cfg M m c x.d hI (hW m rfl) hclean k half r hr)
    | restartCrash jobs k half => exact hC
    | restart jobs => exact hC
  | none =>
    obtain ⟨r, hs, _, ht⟩ := hG
    cases e with
    | work files => exact hC
    | step c => exact hC
    | crash c k half => exact hC
    | restartCrash jobs k half =>
      obtain ⟨h1, h2, h3, _⟩ := restart_crash_good cfg M x hclean r hs ht jobs k half
      intro r' hr'
      have hc1 := starts_complete M _ r h1
      have hrr : r' = r := by
        have hr'' : (crashAtR (restartRun cfg M x jobs).2 x k half).d.restart = .complete r' := hr'
        rw [hc1] at hr''; injection hr'' with h; exact h.symm
      subst hrr
      show Complete (restore M r' (crashAtR (restartRun cfg M x jobs).2 x k half).d.files)
        (restoreDisk cfg r' (crashAtR (restartRun cfg M x jobs).2 x k half).d)
      rw [h2, h3]
      exact hC r' (starts_complete M _ r' hs)
    | restart jobs =>
      have ho : (restartRun cfg M x jobs).1 = .starts r := by rw [restartRun_outcome]; exact hs
      have hx : runR (restartRun cfg M x jobs).2 x
          = ⟨{ x.d with data := cleanData x.d.data r.active },
             if cleanData x.d.data r.active = x.d.data then x.dtmp else .absent⟩ := by
        rw [restartRun_effs_of_starts cfg M x jobs r hs, if_pos hclean, run_clean_full]
      have hrd : restoreDisk cfg r x.d = { x.d with data := cleanData x.d.data r.active } := by
        unfold restoreDisk; rw [if_pos hclean]
      have h := hC r (starts_complete M _ r hs)
      rw [hrd] at h
      simp only [runEvent, ho, hx]
      exact h

theorem script_complete (cfg : Cfg) (M : Manifest) (hv : cfg.variant = .repaired)
    (hclean : cfg.cleanOnRestart = true) (es : List Event) :
    ∀ (s : PState), Good cfg M s.mem s.x → CompleteS cfg M s.mem s.x → ScriptWF cfg M s es →
      ScriptCover cfg M s es →
      CompleteS cfg M (runScript cfg M s es).mem (runScript cfg M s es).x := by
  induction es with
  | nil => intro s _ hC _ _; exact hC
  | cons e es ih =>
    intro s hG hC hW hcov
    show CompleteS cfg M (runScript cfg M (runEvent cfg M s e) es).mem
      (runScript cfg M (runEvent cfg M s e) es).x
    exact ih _ (event_good cfg M hv hclean s e hG hW.1)
      (event_complete cfg M hclean s e hG hC hW.1 hcov.1) hW.2 hcov.2

/-- **script_rows_exactly_once** (the code as it is now): after ANY script (steps of any kind, deaths
    at any point of a step, restart attempts that die at any point of the restart, restarts), once a
    process is alive, the rows of the data file are EXACTLY the path numbers handed out so far that
    are not live — i.e. every replaced path, each exactly once. -/
theorem script_rows_exactly_once (cfg : Cfg) (M : Manifest) (hv : cfg.variant = .repaired)
    (hclean : cfg.cleanOnRestart = true) (es : List Event) (s : PState)
    (hG : Good cfg M s.mem s.x) (hC : CompleteS cfg M s.mem s.x) (hW : ScriptWF cfg M s es)
    (hcov : ScriptCover cfg M s es) (m' : Mem) (halive : (runScript cfg M s es).mem = some m') :
    let d' := (runScript cfg M s es).x.d
    d'.data.rows.Nodup ∧ d'.data.torn = false ∧ d'.data.garbled = 0
      ∧ ∀ q, q ∈ d'.data.rows ↔ (q < m'.trajNum ∧ q ∉ pns m'.live) := by
  have h := script_good cfg M hv hclean es s hG hW
  have hc := script_complete cfg M hv hclean es s hG hC hW hcov
  rw [halive] at h hc
  obtain ⟨hI, _⟩ := h
  obtain ⟨a, b, c, d⟩ := (rowsOK_iff _ _).1 hI.rows
  refine ⟨c, a, b, fun q => ⟨fun hq => ⟨hI.rows_lt q hq, d q hq⟩, fun hq => hc q hq.1 hq.2⟩⟩

/-- **script_restart_rows_exactly_once**: the same for the state a restart works on, whenever a
    script ends without a live process (the restart starts by `script_restartable`). -/
theorem script_restart_rows_exactly_once (cfg : Cfg) (M : Manifest) (hv : cfg.variant = .repaired)
    (hclean : cfg.cleanOnRestart = true) (es : List Event) (s : PState)
    (hG : Good cfg M s.mem s.x) (hC : CompleteS cfg M s.mem s.x) (hW : ScriptWF cfg M s es)
    (hcov : ScriptCover cfg M s es) (hdead : (runScript cfg M s es).mem = none) :
    ∃ r, restartOutcome M .restartToml (runScript cfg M s es).x.d = .starts r
      ∧ ∀ q, q ∈ (restoreDisk cfg r (runScript cfg M s es).x.d).data.rows
          ↔ (q < r.trajNum ∧ q ∉ r.active) := by
  have h := script_good cfg M hv hclean es s hG hW
  have hc := script_complete cfg M hv hclean es s hG hC hW hcov
  rw [hdead] at h hc
  obtain ⟨r, hs, hI, _⟩ := h
  have hcr := hc r (starts_complete M _ r hs)
  obtain ⟨_, _, _, d⟩ := (rowsOK_iff _ _).1 hI.rows
  obtain ⟨r', hr', _, hact, htn, _⟩ := hI.record
  have hrr : r' = r := by
    have h1 : (restoreDisk cfg r (runScript cfg M s es).x.d).restart = .complete r := by
      unfold restoreDisk; split <;> exact starts_complete M _ r hs
    rw [h1] at hr'; injection hr' with h; exact h.symm
  subst hrr
  refine ⟨r', hs, fun q => ⟨fun hq => ⟨?_, ?_⟩, fun hq => ?_⟩⟩
  · have := hI.rows_lt q hq; exact this
  · rw [hact]; exact d q hq
  · apply hcr q hq.1
    rw [← hact]; exact hq.2

namespace Witness

/-- a "step" that silently drops the live paths 1 and 2 (no store, no row): it satisfies `WF` -/
def cDrop : Choice :=
  { accs := [], newLive := [p0], locked' := [], inc := true, halfRows := 0, halfTorn := false }

theorem wfDrop : WF cfgRep M m0 cDrop d0 where
  old_live := by decide
  old_nodup := by decide
  names_nodup := by decide
  sources := by decide
  few := by decide
  new_live := by
    intro p hp
    simp only [cDrop, List.mem_cons, List.not_mem_nil, or_false] at hp
    subst hp
    left; decide
  new_nodup := by decide
  manifest := by decide
  final := by intro h; cases h

theorem cover0 : Cover m0 c0 where
  keeps := by decide
  news := by decide

theorem complete0 : Complete m0 d0 := by
  intro q hq hnl
  have : q = 0 ∨ q = 1 ∨ q = 2 := by have : q < 3 := hq; omega
  rcases this with rfl | rfl | rfl <;> exact absurd (by decide) hnl

end Witness

open Witness in
/-- **rows_unique_not_exactly_once_counterexample**: `Inv` + `WF` alone (the hypotheses of
    `step_inv`, `continue_rows_unique`, `script_rows_unique`) admit a step after which paths 1 and 2
    are no longer live and have NO row: those theorems give "at most once", not "exactly once".
    The step violates `Cover`, and `Complete` fails afterwards. -/
theorem rows_unique_not_exactly_once_counterexample :
    WF cfgRep M m0 cDrop d0
    ∧ Inv M (stepMem cfgRep m0 cDrop d0) (run (stepEffs cfgRep m0 cDrop d0) d0)
    ∧ (run (stepEffs cfgRep m0 cDrop d0) d0).data.rows = []
    ∧ pns (stepMem cfgRep m0 cDrop d0).live = [0] ∧ (stepMem cfgRep m0 cDrop d0).trajNum = 3
    ∧ ¬ Cover m0 cDrop
    ∧ ¬ Complete (stepMem cfgRep m0 cDrop d0) (run (stepEffs cfgRep m0 cDrop d0) d0) := by
  refine ⟨wfDrop, step_inv cfgRep M m0 cDrop d0 inv0 wfDrop, by decide, by decide, by decide, ?_, ?_⟩
  · intro h
    have := h.keeps p1 (by decide)
    revert this; decide
  · intro h
    have := h 1 (by decide) (by decide)
    revert this; decide

open Witness in
/-- non-vacuity of the "exactly once" theorems: the witness script of above (death after the data
    row, two interrupted restarts, a restart, the redone job) satisfies `Good`, `CompleteS`,
    `ScriptCover`, and ends with exactly the row of path 1 -/
example :
    let s0 : PState := { mem := some m0, x := ⟨d0, .absent⟩ }
    Good cfgRep M s0.mem s0.x ∧ CompleteS cfgRep M s0.mem s0.x ∧ Cover m0 c0
    ∧ (runScript cfgRep M s0 [.crash c0 12 false, .restartCrash 1 1 true, .restart 1,
          .work [(40, 400), (41, 410)], .step c0]).x.d.data.rows = [1] :=
  ⟨⟨inv0, rfl⟩, complete0, cover0, by decide⟩

/-! ### the restart of a FINISHED run

`WF.final` excludes the final `write_toml` of `loop()` right after a restart
(`m.restartedFrom = some m.cstep`).  That transition IS reachable: restarting a finished run
(`cstep = steps`, record not yet marked) goes through `setup_config`, sets `restarted_from = cstep`,
issues nothing and `loop()` writes the record once more.  What it leaves is, by design
(62f494c), a record from which the next restart stops — the one life cycle `script_good` does not
cover. -/

/-- **finished_run_restart_refuses**: the final `write_toml` of a life that made no step and has no
    steps left writes a record from which `setup_config` returns None; and this event is exactly
    what `WF.final` excludes. -/
theorem finished_run_restart_refuses (cfg : Cfg) (M : Manifest) (m : Mem) (c : Choice) (d : Disk)
    (hacc : c.accs = []) (hinc : c.inc = false) (hrf : m.restartedFrom = some m.cstep)
    (hst : m.steps ≤ m.cstep) (hv : cfg.variant ≠ .renamedOpen) :
    restartOutcome M .restartToml (run (stepEffs cfg m c d) d) = .refuses ∧ ¬ WF cfg M m c d := by
  refine ⟨?_, fun h => (h.final hinc).2 hrf⟩
  cases hvv : cfg.variant with
  | renamedOpen => exact absurd hvv hv
  | asIs =>
    simp [stepEffs, hacc, accLoop, dataEffs, restartEffs, hvv, run, Effect.apply, setR,
      restartOutcome, newRec, hinc, hrf, hst]
  | repaired =>
    simp [stepEffs, hacc, accLoop, dataEffs, restartEffs, hvv, run, Effect.apply, setR,
      restartOutcome, newRec, hinc, hrf, hst]

open Witness in
/-- non-vacuity: path 1 replaced, run finished at cstep 2 = steps; the restart of the finished run
    writes (cstep 2, restarted_from 2) and the next restart refuses -/
example :
    let m : Mem := { cstep := 2, restartedFrom := some 2, live := [p0, p3, p2], trajNum := 4, olds := [],
                     locked := [], steps := 2 }
    let c : Choice := { accs := [], newLive := [p0, p3, p2], locked' := [], inc := false, halfRows := 0,
                        halfTorn := false }
    restartOutcome M .restartToml (run (stepEffs cfgRep m c d0) d0) = .refuses :=
  (finished_run_restart_refuses cfgRep M _ _ d0 rfl rfl rfl (by decide) (by decide)).1

/-! ### a witness that runs the delete block

The witness `m0 / c0` above replaces path 1 (≤ n-2): the delete_old block is skipped.  Here: n = 4,
a full delete queue (3 > n-2 entries), an accepted zero swap replacing the late paths 5 and 6: two
stores, two pops of the queue with delete_old_all (files, txt files, leftovers, two rmdir each), two
data rows. -/
namespace Witness2
open Witness

def q2 : PathInfo := { pn := 2, cid := 12, files := [(12, 120)] }
def q3 : PathInfo := { pn := 3, cid := 13, files := [(13, 130)] }
def q4 : PathInfo := { pn := 4, cid := 14, files := [(14, 140)] }
def q5 : PathInfo := { pn := 5, cid := 15, files := [(15, 150)] }
def q6 : PathInfo := { pn := 6, cid := 16, files := [(16, 160), (17, 170)] }
def q7 : PathInfo := { pn := 7, cid := 17, files := [(18, 180)] }
def q8 : PathInfo := { pn := 8, cid := 21, files := [(50, 500), (51, 510)] }
def q9 : PathInfo := { pn := 9, cid := 22, files := [(52, 520)] }

def M2 : Manifest := fun c =>
  if c = 15 then some [15] else if c = 16 then some [16, 17] else if c = 17 then some [18]
  else if c = 21 then some [50, 51] else if c = 22 then some [52] else none

def r2 : Rec := { cstep := 6, restartedFrom := none, active := [5, 6, 7], trajNum := 8, locked := [] }

def d2 : Disk :=
  { files := [(.wfile 50, .complete 500), (.wfile 51, .complete 510), (.wfile 52, .complete 520)]
      ++ filesOf q5 ++ filesOf q6 ++ filesOf q7 ++ filesOf q3 ++ filesOf q4 ++ filesOf q2
    data := { rows := [0, 1, 2, 3, 4], garbled := 0, torn := false }
    restart := .complete r2
    tmp := .absent }

def m2 : Mem :=
  { cstep := 6, restartedFrom := none, live := [q5, q6, q7], trajNum := 8,
    olds := [{ pn := 3, names := [13] }, { pn := 4, names := [14] }, { pn := 2, names := [12] }],
    locked := [] }

/-- accepted zero swap: paths 5 and 6 replaced by 8 and 9 -/
def c2 : Choice :=
  { accs := [{ old := q5, cid := 21, files := [(50, 500), (51, 510)] },
             { old := q6, cid := 22, files := [(52, 520)] }]
    newLive := [q8, q9, q7], locked' := [], inc := true, halfRows := 1, halfTorn := false }

theorem inv2 : Inv M2 m2 d2 where
  record := ⟨r2, rfl, rfl, rfl, rfl, by decide⟩
  live_ok := by decide
  live_nodup := by decide
  olds := by decide
  rows := by decide
  rows_lt := by decide
  rf := by intro R h; cases h

theorem wf2 : WF cfgRep M2 m2 c2 d2 where
  old_live := by decide
  old_nodup := by decide
  names_nodup := by decide
  sources := by decide
  few := by decide
  new_live := by
    intro p hp
    simp only [c2, List.mem_cons, List.not_mem_nil, or_false] at hp
    rcases hp with rfl | rfl | rfl
    · right; exact ⟨0, _, rfl, rfl⟩
    · right; exact ⟨1, _, rfl, rfl⟩
    · left; decide
  new_nodup := by decide
  manifest := by decide
  final := by intro h; cases h

theorem cover2 : Cover m2 c2 where
  keeps := by decide
  news := by decide

theorem complete2 : Complete m2 d2 := by
  intro q hq hnl
  have : q < 8 := hq
  have h : q = 0 ∨ q = 1 ∨ q = 2 ∨ q = 3 ∨ q = 4 ∨ q = 5 ∨ q = 6 ∨ q = 7 := by omega
  rcases h with rfl | rfl | rfl | rfl | rfl | rfl | rfl | rfl <;>
    first | decide | exact absurd (by decide) hnl

end Witness2

open Witness Witness2 in
/-- the hypotheses hold on a step that pops the delete queue twice: both queued paths 3 and 4 are
    removed completely (two rmdir each), the queue afterwards is [2, 5, 6], rows 5 and 6 are
    appended, and at the crash point between the two rows (k = data index + 1, half) the restart
    starts from the old record with both rows cleaned away -/
example : Inv M2 m2 d2 ∧ WF cfgRep M2 m2 c2 d2 ∧ Cover m2 c2 ∧ Complete m2 d2
    ∧ Effect.rmdir (.pdir 3) ∈ stepEffs cfgRep m2 c2 d2 ∧ Effect.rmdir (.pdir 4) ∈ stepEffs cfgRep m2 c2 d2
    ∧ (stepMem cfgRep m2 c2 d2).olds.map (·.pn) = [2, 5, 6]
    ∧ (run (stepEffs cfgRep m2 c2 d2) d2).data.rows = [0, 1, 2, 3, 4, 5, 6]
    ∧ (crashStep cfgRep m2 c2 d2 (dataIdx cfgRep m2 c2 d2 + 1) true).data.rows = [0, 1, 2, 3, 4, 5]
    ∧ (restoreDisk cfgRep r2 (crashStep cfgRep m2 c2 d2 (dataIdx cfgRep m2 c2 d2 + 1) true)).data.rows
        = [0, 1, 2, 3, 4] :=
  ⟨inv2, wf2, cover2, complete2, by decide, by decide, by decide, by decide, by decide, by decide⟩


/-! ### the hypotheses, evaluated on the real run

`Inv`, `WF`, `Cover`, `Complete` are hypotheses of every theorem above.  `Model/FsCheck.lean` has
executable versions; the driver (op `hyp`) evaluates them on every state and step outcome the tie
reconstructs from the real run, and the tie reports a state for which one of them is false. -/

/-- **hyp_checks_sound**: a `1` from the driver's hypothesis check means the hypothesis holds -/
theorem hyp_checks_sound (cfg : Cfg) (M : Manifest) (m : Mem) (c : Choice) (d : Disk) :
    (invB M m d = true → Inv M m d) ∧ (wfB cfg M m c d = true → WF cfg M m c d)
    ∧ (coverB m c = true → Cover m c) ∧ (completeB m d = true → Complete m d) :=
  ⟨invB_sound M m d, wfB_sound cfg M m c d, coverB_sound m c, completeB_sound m d⟩

open Witness Witness2 in
/-- the checks accept the two witness steps, reject the row-less drop of live paths (`coverB`), the
    final write right after a restart (`wfB`, the finished-run case), a record whose traj_num is not
    above a live path number and a data file with the row of a live path (`invB`) -/
example : invB M m0 d0 = true ∧ wfB cfgRep M m0 c0 d0 = true ∧ coverB m0 c0 = true ∧ completeB m0 d0 = true
    ∧ invB M2 m2 d2 = true ∧ wfB cfgRep M2 m2 c2 d2 = true ∧ coverB m2 c2 = true ∧ completeB m2 d2 = true
    ∧ wfB cfgRep M m0 cDrop d0 = true ∧ coverB m0 cDrop = false
    ∧ completeB (stepMem cfgRep m0 cDrop d0) (run (stepEffs cfgRep m0 cDrop d0) d0) = false
    ∧ wfB cfgRep M { m0 with restartedFrom := some 1 } { c0 with accs := [], inc := false } d0 = false
    ∧ invB M { m0 with trajNum := 2 } { d0 with restart := .complete { r0 with trajNum := 2 } } = false
    ∧ invB M m0 { d0 with data := { rows := [1], garbled := 0, torn := false } } = false := by
  decide

end Infretis.C08
