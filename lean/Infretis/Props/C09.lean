import Infretis.Lemmas.MovesRat
import Infretis.Lemmas.MovesMember
import Infretis.Lemmas.MovesWitness
import Infretis.Lemmas.MovesWfB
/-!
# C09 — accepted paths belong to their ensemble; rejections change nothing

Property theorems only; helper lemmas live in `Infretis/Lemmas/Moves*.lean`.
Model: `Infretis/Model/Moves.lean` (`shoot`, mirrors tis.py `shoot`, `prepare_shooting_point`,
`check_kick`, `shoot_backwards`, `paste_paths`, `check_interfaces`) on top of the shared
`Infretis/Model/AddToPath.lean` (`add_to_path`, `Path.append`).
All statements hold for order sequences, engine streams and limits of any size.

VARIANTS.  `Variant.repaired` is the code as it is since /repo commit f955162 (`add_to_path`: `if
path.length == path.maxlen and not success`); for it the shared model `Engine.addToPath` and
`addToPathV .repaired` coincide (`addToPathV_repaired_eq_shared`) and the property's own threshold
holds: `shoot_threshold : accept ↔ ξ ≤ n_old/n_new`.
`Variant.asIs` is the code BEFORE that commit, kept as the historical record of the finding:
`add_to_path` reported failure whenever `length == maxlen` even if that very frame crossed an
interface, so the rule was `L_new + 1 ≤ maxlen` (`shoot_accept_iff`), not `ξ ≤ n_old/n_new`:
`shoot_threshold_counterexample`, `shoot_threshold_partial`.  A regression to `asIs` is reported by
the tie under the signature `C09:shoot:length-eq-maxlen-rejected`.
The membership / draw / rejection theorems hold for both variants (they are stated for any `v`).
-/
namespace Infretis.C09
open Infretis.Moves Infretis.Engine

/-- the variant model of `add_to_path` is the shared model for `repaired` (= the code) -/
theorem addToPathV_repaired_eq_shared (ops : List Int) (ml : Option Nat) (x l r : Int) :
    addToPathV .repaired ops ml x l r = addToPath ops ml x l r := addToPathV_repaired ops ml x l r

theorem feedV_repaired_eq_shared (l r : Int) (ml : Option Nat) (s ops : List Int) (k : Nat) :
    feedV .repaired l r ml ops s k = feed l r ml ops s k := feedV_repaired l r ml s ops k

example : addToPathV .repaired [1, 2] (some 3) 5 0 4 = addToPath [1, 2] (some 3) 5 0 4
    ∧ (addToPath [1, 2] (some 3) 5 0 4).map (·.2.success) = some true
    ∧ (addToPathV .asIs [1, 2] (some 3) 5 0 4).map (·.2.success) = some false := by decide

/-! ### acceptance is reported exactly with status ACC -/

theorem accept_iff_status_acc (v : Variant) (i : ShootIn) (o : ShootOut) (h : shoot v i = .ok o) :
    o.accept = true ↔ o.status = .ACC := shoot_accept_status v i o h

/-- a concrete accepted move and a concrete rejected one (`exIn`, evaluated in Lemmas/MovesWitness.lean) -/
example : ∃ o, shoot .repaired exIn = .ok o ∧ o.accept = true ∧ o.status = .ACC ∧ o.trial = [-1, 3, 2, 2, 5] := by
  have h := exIn_eval
  cases hs : shoot .repaired exIn with
  | error e => rw [hs] at h; cases h
  | ok o => rw [hs] at h; simp only [Except.toOption, Option.some.injEq] at h; subst h; exact ⟨_, rfl, rfl, rfl, rfl⟩

example : ∃ o, shoot .repaired { exIn with forw := [2, 2, 2] } = .ok o ∧ o.accept = false ∧ o.status = .FTL := by
  have h := exIn_reject_eval
  cases hs : shoot .repaired { exIn with forw := [2, 2, 2] } with
  | error e => rw [hs] at h; cases h
  | ok o => rw [hs] at h; simp only [Except.toOption, Option.some.injEq] at h; subst h; exact ⟨_, rfl, rfl, rfl⟩

/-! ### shooting points are never end points -/

/-- every completed call requested exactly `integers(1, L−1)` first (then at most one `random()`),
    and the index it used is an interior index of the old path -/
theorem shooting_point_interior (v : Variant) (i : ShootIn) (o : ShootOut) (h : shoot v i = .ok o) :
    (o.draws = [.integers 1 ((i.old.length : Int) - 1)] ∨
      o.draws = [.integers 1 ((i.old.length : Int) - 1), .random]) ∧
    o.genIdx = i.idx ∧ 1 ≤ o.genIdx ∧ o.genIdx + 2 ≤ i.old.length := by
  have hd : ∀ maxlen d2, drawMaxlen i = .ok (maxlen, d2) → d2 = [] ∨ d2 = [.random] := by
    intro maxlen d2 hd
    unfold drawMaxlen at hd
    repeat' split at hd
    all_goals first
      | (cases hd; done)
      | (simp only [Except.ok.injEq, Prod.mk.injEq] at hd; simp [← hd.2])
  unfold shoot at h
  simp only at h
  repeat' split at h
  all_goals first
    | (cases h; done)
    | (simp only [Except.ok.injEq] at h; subst h
       first
         | (simp; omega)
         | (rcases hd _ _ (by assumption) with h1 | h1 <;> simp [h1] <;> omega))

example : (shoot .repaired exIn).toOption.map (fun o => (o.draws, o.genIdx))
    = some ([.integers 1 3, .random], 2) := by rw [exIn_eval]; rfl

/-! ### accepted paths belong to their ensemble -/

/-- **Membership.** If `shoot` returns `ACC`, the trial path is
    `xB :: reverse(preB) ++ kick :: preF ++ [xF]` where `preB ++ [xB]` / `preF ++ [xF]` are the
    values the engine produced backward / forward (in order: "ordered in time"), and
    * the first frame `xB` is strictly outside on a side the start condition allows,
    * the last frame `xF` is strictly outside,
    * every other frame, the shooting point included, is inside `[l, r]` (the code's "inside":
      not `< l`, not `> r`), the shooting point even in `[l, r)`,
    * if `L` is not allowed, neither end lies at or below the lowest interface,
    * the path crosses the middle interface (`min < m ≤ max`, which is what gives it weight 1 in
      its own ensemble) unless the effective start condition is `{L, R}`,
    * its length is between 3 and `maxlength`,
    * `generated = ("sh", kick, idx, nb)` with `trial[nb] = kick`, `nb` and `idx` interior indices,
    * `time_origin = old.time_origin + idx − nb`,
    and `accept` is `True`. -/
theorem shoot_acc_member (v : Variant) (i : ShootIn) (o : ShootOut) (h : shoot v i = .ok o)
    (hs : o.status = .ACC) :
    ∃ (preB preF restB restF : List Int) (xB xF : Int),
      i.back = preB ++ xB :: restB ∧ i.forw = preF ++ xF :: restF ∧
      o.trial = xB :: (preB.reverse ++ i.kick :: (preF ++ [xF])) ∧
      ((xB < i.l ∧ i.sc.hasL = true) ∨ (i.r < xB ∧ i.sc.hasR = true)) ∧
      (xF < i.l ∨ i.r < xF) ∧
      (∀ y ∈ preB.reverse ++ i.kick :: preF, i.l ≤ y ∧ y ≤ i.r) ∧ i.kick < i.r ∧
      (i.sc.hasL = false → min3 i.l i.m i.r < xB ∧ min3 i.l i.m i.r < xF) ∧
      (((effSc i).hasL = true ∧ (effSc i).hasR = true) ∨
        ((∃ y ∈ o.trial, y < i.m) ∧ ∃ y ∈ o.trial, i.m ≤ y)) ∧
      3 ≤ o.trial.length ∧ o.trial.length ≤ i.maxlength ∧
      o.genNb = preB.length + 1 ∧ o.trial[o.genNb]? = some i.kick ∧ o.genNb + 2 ≤ o.trial.length ∧
      o.genSp = i.kick ∧ o.genIdx = i.idx ∧ 1 ≤ i.idx ∧ i.idx + 2 ≤ i.old.length ∧
      o.timeOrigin = i.oldTimeOrigin + i.idx - o.genNb ∧ o.accept = true := by
  obtain ⟨preB, preF, restB, restF, xB, xF, hB, hF, htr, hstart, h0L, hcross, hlen, hnb, hsp, hidx, hi1, hi2,
    hk1, hk2, hlr, hto, hacc⟩ := shoot_acc_structure v i o h hs
  have htr' : o.trial = xB :: (preB.reverse ++ i.kick :: (preF ++ [xF])) := by
    rw [htr]; simp [fullTrial]
  refine ⟨preB, preF, restB, restF, xB, xF, hB.eq, hF.eq, htr', hstart, hF.outside, ?_, hk2, h0L, hcross,
    by rw [htr']; simp; omega, hlen, hnb, ?_, by rw [htr', hnb]; simp, hsp, hidx, hi1, hi2, hto, hacc⟩
  · intro y hy
    simp only [List.mem_append, List.mem_reverse, List.mem_cons] at hy
    rcases hy with hy | hy | hy
    · exact hB.inside y hy
    · subst hy; omega
    · exact hF.inside y hy
  · rw [htr', hnb]
    have : (xB :: (preB.reverse ++ i.kick :: (preF ++ [xF]))) = (xB :: preB.reverse) ++ i.kick :: (preF ++ [xF]) := by
      simp
    rw [this, List.getElem?_append_right (by simp)]
    simp

example : (shoot .repaired exIn).toOption.map (·.status) = some .ACC := by rw [exIn_eval]; rfl

/-- **Weight in the own ensemble.** The `sh` entry of `calc_cv_vector` for the ensemble's own interface
    `m` is `1 if m ≤ ordermax else 0` (`WF.cvVectorGo`); for an accepted path of an ensemble whose
    effective start condition is not `{L, R}` it is 1. -/
theorem shoot_acc_weight_nonzero (v : Variant) (i : ShootIn) (o : ShootOut) (h : shoot v i = .ok o)
    (hs : o.status = .ACC) (hsc : ¬ ((effSc i).hasL = true ∧ (effSc i).hasR = true)) :
    ∃ pmax, WF.maxOf o.trial = some pmax ∧ (if i.m ≤ pmax then 1 else 0) = 1 := by
  obtain ⟨preB, preF, restB, restF, xB, xF, _, _, htr, _, _, _, _, _, hcross, _⟩ := shoot_acc_member v i o h hs
  rcases hcross with hc | ⟨_, hc⟩
  · exact absurd hc hsc
  · rw [htr] at hc ⊢
    refine ⟨_, rfl, ?_⟩
    exact if_pos ((maxOf_ge _ _ i.m rfl).2 hc)

example : ¬ ((effSc exIn).hasL = true ∧ (effSc exIn).hasR = true) := by decide

/-! ### the acceptance rule -/

/-- A shooting trial whose trajectories reach the interfaces: old path with interior points, an
    interior shooting index, a kick that stays inside, both engine streams leave `[l, r]`
    (after `preB` / `preF` inside frames), and the completed path
    `fullTrial = xB :: reverse(preB) ++ kick :: preF ++ [xF]` is a path of the ensemble (starts on an
    allowed side, passes the `0-L` and `NCR` checks). -/
structure ReachingTrial (i : ShootIn) (preB preF restB restF : List Int) (xB xF : Int) : Prop where
  hL : 3 ≤ i.old.length
  hidx1 : 1 ≤ i.idx
  hidx2 : i.idx + 2 ≤ i.old.length
  hk1 : i.l ≤ i.kick
  hk2 : i.kick < i.r
  hB : Reaches i.l i.r i.back preB xB restB
  hF : Reaches i.l i.r i.forw preF xF restF
  hside : sideIn (WF.endPoint i.l i.r xB) i.sc = true
  hshape : finalChecks i (fullTrial i.kick preB xB preF xF) = (true, .ACC)

/-- **Exact characterisation (any way the limit is obtained).** With `maxlen` the limit shoot computed,
    a reaching trial of `L_new = |preB| + |preF| + 3` frames is accepted iff
    `L_new + 1 ≤ maxlen` (as-is) resp. `L_new ≤ maxlen` (repaired). -/
theorem shoot_accept_iff_limit (v : Variant) (i : ShootIn) (maxlen : Nat) (d2 : List Draw)
    (preB preF restB restF : List Int) (xB xF : Int) (T : ReachingTrial i preB preF restB restF xB xF)
    (hd : drawMaxlen i = .ok (maxlen, d2)) :
    Accepts v i ↔ preB.length + preF.length + 3 + slack v ≤ maxlen :=
  shoot_accept_iff_maxlen v i maxlen d2 preB preF restB restF xB xF T.hL T.hidx1 T.hidx2 T.hk1 T.hk2 hd
    T.hB T.hF T.hside T.hshape

/-- **Exact characterisation with the drawn ξ.** `maxlen = min(⌊(L_old−2)/ξ⌋ + 2, maxlength)`, so the
    as-is code accepts iff `L_new + 1 ≤ min(⌊(L_old−2)/ξ⌋ + 2, maxlength)`. -/
theorem shoot_accept_iff (v : Variant) (i : ShootIn)
    (preB preF restB restF : List Int) (xB xF : Int) (T : ReachingTrial i preB preF restB restF xB xF)
    (hld : i.genLd = false) (ham : i.allowMax = false) (hxi : 0 < i.xi) :
    Accepts v i ↔ preB.length + preF.length + 3 + slack v
      ≤ min (((((i.old.length : Int) - 2 : Int) : Rat) / i.xi).floor.toNat + 2) i.maxlength :=
  shoot_accept_iff_limit v i _ _ preB preF restB restF xB xF T (drawMaxlen_xi i hld ham hxi)

/-- in terms of ξ: with `n_old = L_old − 2`, `n_new = L_new − 2 = |preB| + |preF| + 1` and the absolute
    limit not binding, the as-is code accepts iff `ξ ≤ n_old / (n_new + 1)`; the repaired one iff
    `ξ ≤ n_old / n_new` -/
theorem shoot_accept_iff_xi (v : Variant) (i : ShootIn)
    (preB preF restB restF : List Int) (xB xF : Int) (T : ReachingTrial i preB preF restB restF xB xF)
    (hld : i.genLd = false) (ham : i.allowMax = false) (hxi : 0 < i.xi)
    (hML : preB.length + preF.length + 3 + slack v ≤ i.maxlength) :
    Accepts v i ↔ i.xi ≤ ((i.old.length : Rat) - 2) / ((preB.length + preF.length + 1 + slack v : Nat) : Rat) := by
  rw [shoot_accept_iff v i preB preF restB restF xB xF T hld ham hxi]
  have hL := T.hL
  have ha : (0 : Int) ≤ (i.old.length : Int) - 2 := by omega
  have h1 : preB.length + preF.length + 3 + slack v
      ≤ min (((((i.old.length : Int) - 2 : Int) : Rat) / i.xi).floor.toNat + 2) i.maxlength ↔
      preB.length + preF.length + 1 + slack v ≤ ((((i.old.length : Int) - 2 : Int) : Rat) / i.xi).floor.toNat := by
    omega
  have hpos : (0 : Rat) < ((preB.length + preF.length + 1 + slack v : Nat) : Rat) := by
    exact_mod_cast Nat.succ_pos _ |>.trans_le (by omega : 1 ≤ preB.length + preF.length + 1 + slack v)
  rw [h1, le_floor_toNat_iff _ _ _ ha hxi, le_div_iff₀ hpos]
  push_cast
  rfl

/-- **The property's threshold — holds for the code as it is (`repaired`).** A shooting trial whose trajectories
    reach the interfaces (and fits the absolute limit) is accepted exactly when the drawn number is at
    most `n_old / n_new`. -/
theorem shoot_threshold (i : ShootIn)
    (preB preF restB restF : List Int) (xB xF : Int) (T : ReachingTrial i preB preF restB restF xB xF)
    (hld : i.genLd = false) (ham : i.allowMax = false) (hxi : 0 < i.xi)
    (hML : preB.length + preF.length + 3 ≤ i.maxlength) :
    Accepts .repaired i ↔ i.xi ≤ ((i.old.length : Rat) - 2) / ((preB.length + preF.length + 1 : Nat) : Rat) := by
  have := shoot_accept_iff_xi .repaired i preB preF restB restF xB xF T hld ham hxi (by simpa [slack] using hML)
  simpa [slack] using this

theorem wit_reaching : ReachingTrial wit [2] [2, 2] [] [] (-1) 5 where
  hL := by decide
  hidx1 := by decide
  hidx2 := by decide
  hk1 := by decide
  hk2 := by decide
  hB := ⟨rfl, by decide, by decide⟩
  hF := ⟨rfl, by decide, by decide⟩
  hside := by decide
  hshape := wit_shape

/-- **Counterexample (historical: the code before /repo f955162, `asIs`).** The trial of `wit` reaches both interfaces, `ξ = 0.49 ≤ 2/4 =
    n_old/n_new`, yet the move is rejected with status `FTL`: the property's threshold is false of
    the code as it is. -/
theorem shoot_threshold_counterexample :
    ReachingTrial wit [2] [2, 2] [] [] (-1) 5 ∧ wit.genLd = false ∧ wit.allowMax = false ∧ 0 < wit.xi ∧
    [2].length + [2, 2].length + 3 + 1 ≤ wit.maxlength ∧
    wit.xi ≤ ((wit.old.length : Rat) - 2) / (([2].length + [2, 2].length + 1 : Nat) : Rat) ∧
    (∃ o, shoot .asIs wit = .ok o ∧ o.accept = false ∧ o.status = .FTL ∧ o.trial = [-1, 2, 2, 2, 2, 5]) ∧
    ¬ Accepts .asIs wit ∧ Accepts .repaired wit := by
  have hev := wit_asIs_eval
  have hrep := wit_repaired_eval
  have hle : wit.xi ≤ ((wit.old.length : Rat) - 2) / (([2].length + [2, 2].length + 1 : Nat) : Rat) := by
    have h := wit_xi_le
    have e : ((wit.old.length : Rat) - 2) / (([2].length + [2, 2].length + 1 : Nat) : Rat) = 2 / 4 := by
      simp [wit]; norm_num
    rw [e]; exact h
  refine ⟨wit_reaching, rfl, rfl, wit_xi_pos, by decide, hle, ?_, ?_, ?_⟩
  · cases hs : shoot .asIs wit with
    | error e => rw [hs] at hev; cases hev
    | ok o =>
      rw [hs] at hev; simp only [Except.toOption, Option.some.injEq] at hev; subst hev
      exact ⟨_, rfl, rfl, rfl, rfl⟩
  · rintro ⟨o, ho, ha⟩
    rw [ho] at hev
    simp only [Except.toOption, Option.some.injEq] at hev
    subst hev
    cases ha
  · cases hs : shoot .repaired wit with
    | error e => rw [hs] at hrep; cases hrep
    | ok o =>
      rw [hs] at hrep; simp only [Except.toOption, Option.some.injEq] at hrep; subst hrep
      exact ⟨_, hs, rfl⟩

/-- **What did hold for the earlier (`asIs`) code.** Under the same hypotheses (absolute limit not binding):
    acceptance implies `ξ ≤ n_old/n_new`, and the trials with `ξ ≤ n_old/n_new` that are nevertheless
    rejected are exactly those with `n_old/(n_new+1) < ξ`, i.e. `⌊n_old/ξ⌋ = n_new`
    (`L_new = maxlen`, the trial fills the drawn limit exactly). -/
theorem shoot_threshold_partial (i : ShootIn)
    (preB preF restB restF : List Int) (xB xF : Int) (T : ReachingTrial i preB preF restB restF xB xF)
    (hld : i.genLd = false) (ham : i.allowMax = false) (hxi : 0 < i.xi)
    (hML : preB.length + preF.length + 3 + 1 ≤ i.maxlength) :
    (Accepts .asIs i → i.xi ≤ ((i.old.length : Rat) - 2) / ((preB.length + preF.length + 1 : Nat) : Rat)) ∧
    ((i.xi ≤ ((i.old.length : Rat) - 2) / ((preB.length + preF.length + 1 : Nat) : Rat) ∧ ¬ Accepts .asIs i) ↔
      (((i.old.length : Rat) - 2) / ((preB.length + preF.length + 1 + 1 : Nat) : Rat) < i.xi ∧
        i.xi ≤ ((i.old.length : Rat) - 2) / ((preB.length + preF.length + 1 : Nat) : Rat))) := by
  have hA := shoot_accept_iff_xi .asIs i preB preF restB restF xB xF T hld ham hxi (by simpa [slack] using hML)
  simp only [slack] at hA
  have hp1 : (0 : Rat) < ((preB.length + preF.length + 1 : Nat) : Rat) := by
    exact_mod_cast Nat.succ_pos _
  have hp2 : (0 : Rat) < ((preB.length + preF.length + 1 + 1 : Nat) : Rat) := by
    exact_mod_cast Nat.succ_pos _
  have hmono : i.xi ≤ ((i.old.length : Rat) - 2) / ((preB.length + preF.length + 1 + 1 : Nat) : Rat) →
      i.xi ≤ ((i.old.length : Rat) - 2) / ((preB.length + preF.length + 1 : Nat) : Rat) := by
    intro h
    rw [le_div_iff₀ hp2] at h
    rw [le_div_iff₀ hp1]
    push_cast at h ⊢
    nlinarith
  refine ⟨fun h => hmono (hA.1 h), ?_⟩
  rw [hA]
  constructor
  · rintro ⟨h1, h2⟩
    exact ⟨lt_of_not_ge h2, h1⟩
  · rintro ⟨h1, h2⟩
    exact ⟨h2, not_le.mpr h1⟩

example : ReachingTrial exIn [3] [2] [7] [7] (-1) 5 ∧ exIn.genLd = false ∧ exIn.allowMax = false ∧ 0 < exIn.xi
    ∧ [3].length + [2].length + 3 + 1 ≤ exIn.maxlength :=
  ⟨⟨by decide, by decide, by decide, by decide, by decide, ⟨rfl, by decide, by decide⟩, ⟨rfl, by decide, by decide⟩,
    by decide, exIn_shape⟩, rfl, rfl, exIn_xi_pos, by decide⟩

/-! ### rejections change nothing -/

/-- **Rejections leave the old path in place.** `run_md` keeps the old path as the live path of the
    ensemble whenever the move is not accepted, with exactly its old frames; it installs the trial
    path exactly on `ACC`.  (In the model the old path is an immutable input of `shoot`: no step of
    `shoot` has write access to it — `prepare_shooting_point` works on a copy, `trial_path +=
    path_back` copies.  That the Python objects behave like this is what the tie's deep snapshot of
    the old path, frame by frame with object identities, checks on every case.) -/
theorem reject_leaves_old_untouched (v : Variant) (i : ShootIn) (o : ShootOut) (h : shoot v i = .ok o) :
    (o.accept = false → runMd v i = .ok
        { status := o.status, live := i.old, replaced := false, trialLen := o.trial.length }) ∧
    (o.accept = true → runMd v i = .ok
        { status := .ACC, live := o.trial, replaced := true, trialLen := o.trial.length }) := by
  have hacc := accept_iff_status_acc v i o h
  unfold runMd
  rw [h]
  constructor
  · intro ha
    have : ¬ o.status = .ACC := by
      intro hs; rw [hacc.2 hs] at ha; cases ha
    simp [this]
  · intro ha
    simp [hacc.1 ha]

example : (runMd .repaired { exIn with forw := [2, 2, 2] }).toOption.map (fun o => (o.live, o.replaced))
    = some ([-1, 2, 2, -1], false) := by
  have h := exIn_reject_eval
  cases hs : shoot .repaired { exIn with forw := [2, 2, 2] } with
  | error e => rw [hs] at h; cases h
  | ok o =>
    rw [hs] at h; simp only [Except.toOption, Option.some.injEq] at h; subst h
    unfold runMd
    rw [hs]
    rfl

/-! ### wire fencing (model `Moves.wireFencing`: wire_fencing / extender / subt_acceptance) -/

theorem wf_accept_iff_status_acc (v : Variant) (i : WfIn) (o : WfOut) (h : wireFencing v i = .ok o) :
    o.accept = true ↔ o.status = .ACC := wf_accept_status v i o h

/-- **Membership of accepted wire-fencing paths.** Assume the ensemble is sane (`l ≤ m`, `cap ≤ r`) and
    the MD programs of the extender run at least `maxlength` steps (engines run `path.maxlen` steps; the
    extender ignores the engine's success flag, so this is what makes its `length >= maxlength` test
    sufficient).  If `wire_fencing` returns `ACC` then the returned path
    * is a path of the ensemble: first and last frame outside `[l, r)`, every other frame inside `[l, r]`,
    * starts on the side the start condition demands (`set(start_cond) == {start}`: the move's own assert),
    * is strictly shorter than `maxlength`,
    * contains a frame of the wire-fencing region `[m, cap)` (the last accepted shooting point), so it
      crosses the ensemble's interface `m`,
    * is a new object (not the old path), `generated = ("wf", 9000, n, len)` with `n ≥ 1` accepted jumps. -/
theorem wf_acc_member (v : Variant) (i : WfIn) (o : WfOut) (h : wireFencing v i = .ok o) (hs : o.status = .ACC)
    (hlm : i.l ≤ i.m) (hcr : capOf i ≤ i.r)
    (hlb : i.maxlength ≤ i.extBack.length) (hlf : i.maxlength ≤ i.extForw.length) :
    EnsPath i.l i.r o.path ∧
    (∃ first, o.path.head? = some first ∧
      ((first ≤ i.l ∧ i.sc.hasL = true ∧ i.sc.hasR = false) ∨ (i.r ≤ first ∧ i.sc.hasL = false ∧ i.sc.hasR = true))) ∧
    o.path.length < i.maxlength ∧
    (∃ y ∈ o.path, i.m ≤ y ∧ y < capOf i) ∧
    o.returnedOld = false ∧ o.oldRewritten = false ∧ 1 ≤ o.genSucc ∧ o.genLen = o.path.length ∧ o.accept = true := by
  obtain ⟨seg, segTO, succ, draws, t1, to1, t2, to2, first, hj, hsucc, hext, hsub, hlr, hfirst, hsc, ho⟩ :=
    wf_acc_inv v i o h hs
  rcases wfJumps_acc v i _ _ _ _ _ _ _ _ _ _ hj with ⟨h1, _⟩ | ⟨_, s, t, j, so, hsh, hacc, hseg⟩
  · exact absurd h1 hsucc
  · have hss := (accept_iff_status_acc v _ so hsh).1 hacc
    obtain ⟨preB, preF, restB, restF, xB, xF, _, _, htr, _, _, hin, hk2, _, _, _, _, _, _, _, _, _, _, _, _, _⟩ :=
      shoot_acc_member v _ so hsh hss
    simp only [subShootIn] at hin hk2 htr
    have hk1 : i.m ≤ j.kick := (hin j.kick (by simp)).1
    have hseg' : seg = xB :: ((preB.reverse ++ j.kick :: preF) ++ [xF]) := by rw [hseg, htr]; simp
    rw [hseg'] at hext
    obtain ⟨hens, hmem, hlen⟩ := extender_member v i xB xF (preB.reverse ++ j.kick :: preF) segTO to1 t1
      (fun y hy => by have := hin y hy; omega) hlb hlf hext
    have hkick1 : j.kick ∈ t1 := hmem j.kick (by simp)
    have hens2 : EnsPath i.l i.r t2 ∧ j.kick ∈ t2 ∧ t2.length = t1.length := by
      rcases subt_path i t1 to1 _ _ _ _ hsub with h2 | h2
      · rw [h2]; exact ⟨hens, hkick1, rfl⟩
      · rw [h2]; exact ⟨hens.reverse, by simpa using hkick1, by simp⟩
    subst ho
    refine ⟨hens2.1, ⟨first, hfirst, ?_⟩, by simp only; omega, ⟨j.kick, hens2.2.1, hk1, hk2⟩, rfl, rfl,
      by simp only; omega, rfl, rfl⟩
    unfold scIs WF.startPoint at hsc
    by_cases c1 : first ≤ i.l
    · left
      simp only [c1, if_true, Bool.and_eq_true, Bool.not_eq_true'] at hsc
      exact ⟨c1, hsc.1, hsc.2⟩
    · by_cases c2 : first ≥ i.r
      · right
        simp only [c1, c2, if_false, if_true, Bool.and_eq_true, Bool.not_eq_true'] at hsc
        exact ⟨c2, hsc.1, hsc.2⟩
      · simp [c1, c2] at hsc

example : ∃ o, wireFencing .repaired wfEx = .ok o ∧ o.status = .ACC ∧ wfEx.l ≤ wfEx.m ∧ capOf wfEx ≤ wfEx.r ∧
    wfEx.maxlength ≤ wfEx.extBack.length ∧ wfEx.maxlength ≤ wfEx.extForw.length ∧ o.path = [-1, 0, 1, 2, 3, 5] := by
  have h := wfEx_eval
  cases hs : wireFencing .repaired wfEx with
  | error e => rw [hs] at h; cases h
  | ok o =>
    rw [hs] at h; simp only [Except.toOption, Option.some.injEq] at h; subst h
    exact ⟨_, rfl, rfl, by decide, by decide, by decide, by decide, rfl⟩

/-- **A rejected wire-fencing move never returns changed frames of the old path**: when the old path
    object itself is returned (status `NSG`) its frames are the old frames; otherwise the returned path is a
    new object.  (Recorded observation, field `oldRewritten`: after jumps without any accepted segment the
    code overwrites `.status` and `.generated` of the old path object — frames and files stay intact.) -/
theorem wf_reject_old_frames (v : Variant) (i : WfIn) (o : WfOut) (h : wireFencing v i = .ok o) :
    (o.returnedOld = true → o.path = i.old ∧ o.status = .NSG ∧ o.accept = false) ∧
    (o.oldRewritten = true → o.returnedOld = true ∧ o.genSucc = 0) := by
  unfold wireFencing at h
  simp only at h
  repeat' split at h
  all_goals first
    | (cases h; done)
    | (simp only [Except.ok.injEq] at h; subst h; simp)

example : (wireFencing .repaired { wfEx with jumps := [{ idx := 2, kick := 7, back := [], forw := [] }] }).toOption.map
    (fun o => (o.returnedOld, o.oldRewritten, o.path, o.status)) = some (true, true, [-1, 1, 2, 1, -1], .NSG) := by
  rw [wfEx_reject_eval]; rfl

/-! ### run_md for two-ensemble moves (zero swaps): commit iff the MOVE status is ACC -/

/-- **`run_md` commits iff the move status is `ACC`.** For any result `r` of a two-ensemble move, both
    `picked[i]["traj"]` are replaced (by the two trial paths) exactly when `r.status = ACC` — whatever the
    trial paths' own `.status` attributes (`r.st0`, `r.st1`) say. -/
theorem run_md_commits_iff_acc (r : ZeroSwap.Result) (old0 old1 : List ZeroSwap.Frame) :
    ((runMdCommit2 r old0 old1).replaced0 = true ↔ r.status = .ACC) ∧
    ((runMdCommit2 r old0 old1).replaced1 = true ↔ r.status = .ACC) ∧
    (r.status = .ACC → (runMdCommit2 r old0 old1).live0 = r.path0 ∧ (runMdCommit2 r old0 old1).live1 = r.path1) ∧
    (runMdCommit2 r old0 old1).status = r.status := by
  unfold runMdCommit2
  refine ⟨by simp, by simp, ?_, rfl⟩
  intro h
  simp [h]

/-- **Rejections change nothing (two-ensemble moves).** After a QuanTIS or plain zero swap whose status is
    not `ACC`, both ensembles hold exactly their old frames and neither path was replaced — in particular
    when the first leg succeeded (`st0 = ACC`) and only the second failed (FTX / FTS / 0+R). -/
theorem run_md_rejection_changes_nothing (e0 e1 : ZeroSwap.Ens) (old0 old1 : List ZeroSwap.Frame)
    (scA scB scC scD : ZeroSwap.Script) (aa : Bool) (beta0 beta1 xi p : Rat) (o : Md2Out) :
    (runMdQuantis e0 e1 old0 old1 scA scB scC scD aa beta0 beta1 xi p = .ok o → o.status ≠ .ACC →
      o.live0 = old0 ∧ o.live1 = old1 ∧ o.replaced0 = false ∧ o.replaced1 = false) ∧
    (runMdRetisSwap e0 e1 old0 old1 scC scD xi = .ok o → o.status ≠ .ACC →
      o.live0 = old0 ∧ o.live1 = old1 ∧ o.replaced0 = false ∧ o.replaced1 = false) := by
  constructor
  · intro h hs
    unfold runMdQuantis at h
    split at h
    · cases h
    · simp only [Except.ok.injEq] at h
      subst h
      simp only [runMdCommit2] at hs ⊢
      simp [hs]
  · intro h hs
    unfold runMdRetisSwap at h
    split at h
    · cases h
    · simp only [Except.ok.injEq] at h
      subst h
      simp only [runMdCommit2] at hs ⊢
      simp [hs]

/-- the seeded scenario: the second leg of a QuanTIS swap fails with FTX while the new [0-] trial carries
    `.status = ACC`; `run_md` keeps both old paths -/
example : (ZeroSwap.quantisSwapZero QEx.e0 QEx.e1 QEx.old0 QEx.old1 QEx.scA QEx.scB QEx.bw QEx.fwLong true 1 1 0 1).toOption.map
      (fun r => (r.status, r.st0)) = some (.FTX, .ACC) ∧
    (runMdQuantis QEx.e0 QEx.e1 QEx.old0 QEx.old1 QEx.scA QEx.scB QEx.bw QEx.fwLong true 1 1 0 1).toOption =
      some { status := .FTX, live0 := QEx.old0, live1 := QEx.old1, replaced0 := false, replaced1 := false } := by
  refine ⟨?_, QEx.md_eval⟩
  have h := QEx.swap_eval
  cases hs : ZeroSwap.quantisSwapZero QEx.e0 QEx.e1 QEx.old0 QEx.old1 QEx.scA QEx.scB QEx.bw QEx.fwLong true 1 1 0 1 with
  | error e => rw [hs] at h; cases h
  | ok r =>
    rw [hs] at h
    simp only [Except.toOption, Option.map_some, Option.some.injEq, Prod.mk.injEq] at h ⊢
    exact ⟨h.2.1, h.2.2.1⟩

/-! ### call history: what a settings dict left with `allowmaxlength = True` does to a later shoot -/

/-- **With `allowmaxlength` set (or a loaded path) the drawn number plays no role.** The limit is `maxlength`, no
    `random()` is requested, and the whole result is independent of ξ.  `wire_fencing` leaves
    `tis_set["allowmaxlength"] = True` behind on the dict it was given (recorded observation), so a later shooting
    move on the same dict falls under this theorem instead of `shoot_threshold`. -/
theorem shoot_allowmax_ignores_xi (v : Variant) (i : ShootIn) (q : Rat) (h : i.allowMax = true ∨ i.genLd = true) :
    drawMaxlen i = .ok (i.maxlength, []) ∧ shoot v { i with xi := q } = shoot v i := by
  have hd : ∀ x : Rat, drawMaxlen { i with xi := x } = .ok (i.maxlength, []) := by
    intro x
    unfold drawMaxlen
    rcases h with h | h <;> simp [h]
  refine ⟨by simpa using hd i.xi, ?_⟩
  have h1 := hd q
  have h2 : drawMaxlen i = .ok (i.maxlength, []) := by simpa using hd i.xi
  have hf : ∀ t, finalChecks { i with xi := q } t = finalChecks i t := fun _ => rfl
  unfold shoot
  simp only [h1, h2, hf]

example : (shoot .repaired { exIn with allowMax := true, xi := 0 }).toOption.map (fun o => (o.status, o.draws))
    = some (.ACC, [.integers 1 3]) := by
  have h := (shoot_allowmax_ignores_xi .repaired { exIn with allowMax := true } 0 (Or.inl rfl)).2
  have e : ({ ({ exIn with allowMax := true } : ShootIn) with xi := 0 } : ShootIn) = { exIn with allowMax := true, xi := 0 } := rfl
  rw [e] at h
  rw [h]
  exact exIn_allowmax_eval

end Infretis.C09
